#!/bin/bash
# usage: quick_soak.sh <seed> [<seed>...]   (run from a /verif snapshot): every quick check at each seed
( eval "$(python3 -c "import json;print(json.load(open('MANIFEST.json'))['setup_cmd'])")" ) >/dev/null 2>&1
for s in "$@"; do for n in $(seq -w 1 20); do c=C$n
  VERIF_SEED=$s ./vcheck $c quick > /tmp/_soak_$$.log 2>&1; rc=$?
  echo "seed=$s $c exit=$rc $(grep -c VIOLATION /tmp/_soak_$$.log) violations"; [ $rc -ne 0 ] && grep -E "VIOLATION|Error|error" /tmp/_soak_$$.log | head -5 | cut -c1-300
done; done; rm -f /tmp/_soak_$$.log
