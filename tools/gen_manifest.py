#!/usr/bin/env python3
"""Generate /verif/MANIFEST.json from the table below (single source of truth for the interface)."""
import json, os
HERE = os.path.dirname(os.path.dirname(os.path.abspath(__file__)))

# id -> (level text, level note, technique, design_ref)
CHECKS = {
 'C04': ("Lean 4 theorems (Props/C04.lean) prove, for every width n and all operands, that each operator of the Bits model returns the "
         "unsigned result mod 2^n (comparisons 1 bit), that width mismatches and ints that do not fit are errors, that construction/@=/<<= "
         "accept exactly -2^(n-1)..2^n-1, and that every stored value stays in [0,2^n); the model is tied to PythonBits.py on every run by "
         "differential execution of every operator/operand form (40k cases quick, 1.2M + exhaustive n<=4 thorough) with an independent big-int oracle.",
         "Trusted: Lean kernel + {propext, Classical.choice, Quot.sound}; the hand-written model Model/Bits.lean (Python `& mask` modelled as `% 2^n`); "
         "the correspondence harness; pure-Python Bits (no mamba).",
         "Lean 4 proof over a hand-written model + differential correspondence check", "DESIGN.md §5 C04"),
 'C05': ("Lean 4 theorems (Props/C05.lean) prove for every width and value: a valid slice/bit read returns exactly the named bits, a write changes "
         "exactly those bits (Nat.testBit characterisation) and reads back, every bound outside 0<=lo<hi<=n, every step and every too-wide value is an "
         "error, concat/zext/sext/trunc/reduce_* equal their bit-level definitions and clog2 is the least k with 2^k>=N; tied to the code by "
         "differential execution incl. exhaustive bound squares for n<=4 (quick) / n<=6 (thorough).",
         "Trusted: Lean kernel + standard axioms; Model/Bits.lean slicing/helpers part; harness. clog2 float fallback (non-integer argument) not modelled.",
         "Lean 4 proof over a hand-written model + differential correspondence check", "DESIGN.md §5 C05"),
}

NOT_YET = {}

def main():
  props = [json.loads(l) for l in open(os.path.join(HERE, 'properties.jsonl'))]
  checks, na = [], []
  for p in props:
    pid = p['id']
    if pid in CHECKS:
      text, note, tech, ref = CHECKS[pid]
      checks.append({
        'property_id': pid,
        'quick_cmd': f'./vcheck {pid} quick',
        'thorough_cmd': f'./vcheck {pid} thorough',
        'evidence_file': f'evidence/{pid}.json',
        'replay_cmd_template': f'./vcheck {pid} quick --replay {{path}}',
        'engine': 'lean4-proof+correspondence',
        'level_claimed': {'category': 'proof', 'text': text, 'design_ref': ref},
        'level_note': note,
        'technique': tech,
      })
    else:
      na.append({'property_id': pid, 'reason': NOT_YET.get(pid, 'check not built yet in this round (design in DESIGN.md §5); not claimed until its Lean theorems and correspondence check exist')})
  man = {
    'version': 1,
    'setup_cmd': 'cd lean && lake build PymtlVerif pv_bits pv_arb pv_queue pv_bstruct pv_vcd pv_mem pv_rv pv_hier pv_nets pv_meta pv_rtl pv_tc pv_sv pv_names',
    'hooks': {
      'guard': 'PYMTL3_VERIF',
      'enable': 'no hooks in /repo are needed so far: checks import pymtl3 from /repo (editable install in /venv) and observe public/semi-public attributes; ./vcheck exports PYMTL3_VERIF=1 for future use',
      'baseline_off_cmd': '/venv/bin/python tools/baseline_check.py',
      'source_commits': [],
      'add_only': True,
    },
    'engines': [{
      'name': 'lean4-proof+correspondence', 'path': 'lean/ + harness/',
      'serves_properties': [c['property_id'] for c in checks],
      'kind_free_text': 'Lean 4.33 theorems over hand-written executable models (lean/PymtlVerif/Props), native drivers pv_*, Python differential harness (harness/) running /repo in-process',
    }],
    'checks': checks,
    'not_applicable': na,
    'notes': 'Every check: lake build + #print axioms audit + source scan, then model-vs-implementation differential run and a direct oracle of the property. Exit 2 = infrastructure problem (never a verdict). Known findings: known_findings.json.',
  }
  with open(os.path.join(HERE, 'MANIFEST.json'), 'w') as f:
    json.dump(man, f, indent=1)
  print(f'{len(checks)} checks, {len(na)} not claimed')
main()
