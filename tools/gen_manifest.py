#!/usr/bin/env python3
"""Generate /verif/MANIFEST.json from the table below (single source of truth for the interface)."""
import json, os, re
HERE = os.path.dirname(os.path.dirname(os.path.abspath(__file__)))

# id -> (level text, level note, technique, design_ref)
CHECKS = {
 'C03': ("Lean 4 proof over a typed RTLIR expression/statement language, a model `tr` of VBehavioralTranslatorL1-L3 written clause by clause, and a hand-written two-state IEEE-1800 "
         "semantics of the emitted SystemVerilog subset (context-width sizing of 11.6/11.8): for every well-typed (hypothesis WT = the type checker's invariant) expression, reference, "
         "right-hand side and statement, evaluating the translated SV gives the PyMTL value / store (expr_correct, ref_correct, rhs_correct, stmt_correct, stmt_sim, for_unrolls), for "
         "both readings of the size cast; non-blocking assignment is last-wins and commits in order; the single-driver checker is sound and complete; a single-driver acyclic design has "
         "a unique fixed point independent of block order (reusing the C01 theory). The structural part that decides WHICH connection assigns are emitted WHERE is inside the model "
         "too (Model/SConn.lean, Props/C03s.lean: gen_connections + StructuralRTLIRGenL1Pass._gen_metadata): for every hierarchy the filed pairs form a spanning tree of each net rooted at "
         "its writer, the hosting rule is total on legal statements, rejection happens exactly for statements filed elsewhere or redundant, and an accepted design emits exactly the tree "
         "edges: single driver, every member equals its writer at the unique fixed point, in connect order. Tie to the code: generated hierarchical components are translated by the real VerilogTranslationPass, "
         "the text is parsed by an independent IEEE-precedence parser, executed by the Lean semantics and compared cycle by cycle with the PyMTL simulation on every output; per update "
         "block the parsed real text is compared with tr(real typed RTLIR) on sampled stores. Declarations, instances and operand rendering of the structural translators are inside the model "
         "as well (Model/SDecl.lean, Props/C03d.lean, 15 theorems registered here): the emitted declarations are exactly the objects of the component's structural table, in order, with the list "
         "dimensions of their levels outermost first (decls_cover, decl_dims_in_order); every instance block binds every port of the child exactly once to the wire declared for it, one instance per "
         "index tuple (inst_binds_child_ports, insts_cover_elements); the index stack of gen_signal_expr and the rendering queue yield identifier, list indices in declaration order, then data-type "
         "selects, and the rendered operand denotes the value of the PyMTL object path over the arrays the declarations create (operand_denotes; transposed_operand_differs shows a transposed order "
         "makes it false); identifiers injective under okName; compared item by item with the parsed real text of generated hierarchies (non-square 2-D / 3-D lists of ports, wires, interfaces, "
         "sub-components) and of 69 library components. The SV semantics carries signedness (IEEE 1800 11.8: sized literals / logic unsigned, integer variables and $signed signed, a size cast keeps "
         "its operand's sign, binary arithmetic signed iff both operands are); the translation theorems hold under the decidable side condition signSafe, which is a THEOREM for this backend "
         "(signSafe_sv, expr_correct_sv, stmt_sim_sv: int unsigned loop variables).",
         "PARTIAL: the SV semantics is a formalisation that cannot be cross-validated here (no Verilog simulator in the sandbox) and is part of the trusted base; 'syntactically valid' "
         "means accepted by harness/checks/c03_svparse.py; of the structural translator, connection placement / orientation (C03s) and declarations / instances / operand rendering (C03d) are modelled and compared exactly; constants, free variables, temporaries, placeholders and the link from the declarations' array environment to the SV store semantics stay with the executed comparison; WT is a hypothesis (C10 relates it to the "
         "checker). Known finding C03-F17 (negative-step loops wrap in unsigned arithmetic).",
         "Lean 4 proof (translation correctness under context-width semantics) + translation validation by parsing and executing the real emitted text", "DESIGN.md §5 C03"),
 'C12': ("Lean 4 proof: the flat port map of the Yosys backend is exact — each flattened leaf is the slice [msb:lsb] of the packed value of the original port (flat_is_slice), the leaf "
         "ranges are pairwise disjoint and cover [0,width) (flat_partition), mangled leaf/port names are injective (flat_names_injective, port_names_injective) — and the expression and "
         "statement translation theorems of C03 hold for the plain-Verilog forms (expr_correct_yosys, stmt_correct_yosys) with the same single-driver and unique-fixed-point results. Tie "
         "to the code: YosysTranslationPass output parsed and executed by the Lean semantics vs the PyMTL simulation cycle by cycle, single-driver check on the parsed text, and the port "
         "map checked by driving/observing every flattened leaf against the predicted slice of to_bits(). The Verilog semantics carries signedness: the Yosys backend declares loop variables "
         "`integer` (signed) and renders them N'(x), and a size cast keeps the sign, so an operator whose operands are all loop variables is evaluated signed; expr_correct_yosys / stmt_correct_yosys are "
         "proved under the decidable side condition signSafe, and signed_loopvar_counterexample (i<j, i=1, j=5 in 3 bits) / signed_loopvar_mod_counterexample show it cannot be dropped: the real code "
         "violates the property there (known finding C12-yosys-signed-loopvar; the parser and evaluator carry integer declarations, so the executed text gives the Verilog answer). Yosys wire forms, "
         "flat-port <-> wire-form connections, instances and operands are inside the model (Props/C03d.lean: ywire_dims_in_order, yconn_pairs_same_element, yrender_path ...) and compared exactly with "
         "the parsed text.",
         "PARTIAL as C03 (SV/Verilog semantics and parser trusted, incl. my reading of 11.8 and of indices / shift amounts as unsigned bit patterns). Known findings C12-yosys-signed-loopvar, C12-F25, and C12-F10: a struct signal in output direction has several "
         "unsynchronised forms (multi-driver / undriven / output mismatch), reported from labelled streams under one signature.",
         "Lean 4 proof (flat port map = slices of the packed value; translation correctness) + translation validation of the real emitted text", "DESIGN.md §5 C12"),
 'C08': ("Lean 4 proof over a model of _floodfill_nets and _resolve_value_connections: nets are exactly the undirected connected components with at least two members, each once "
         "(component_sound_complete with fuel sufficiency proved, nets_are_classes, nets_each_once); nets and writers are literally invariant under permutation and side-flips of the "
         "connect statements (perm_invariant, flip_invariant); the propagation rounds are confluent for every visiting order of nets and marks (propagation_confluent); the writer of a "
         "net is its unique member driven from outside (block, top-level input, constant, or bit-sharing relative of a reader of another net), characterised by an order-free least "
         "fixed point (writer_unique, marks_are_spec, two_writers_iff, src_iff_bits). pymtl3 is tied to the model by differential elaboration of generated hierarchical designs under "
         "several statement orders (get_all_value_nets, get_signal_adjacency_dict) with simulation of the net values and an independent union-find / bit-level oracle.",
         "The simulation clause ('every member carries the writer's value') and the identity of pymtl3's loop with the modelled loop are by correspondence only. Known finding "
         "C08-self-overlap-net (a net whose reader overlaps its own writer is simulated one evaluation late).",
         "Lean 4 proof (components = reachability classes, order invariance, confluence of writer propagation) + differential correspondence over statement orders", "DESIGN.md §5 C08"),
 'C09': ("Lean 4 proof over a staged model of elaborate(): it rejects iff a structural defect holds — wrong operator; a cycle in the merged connection graph, with the pred-based flood "
         "fill proved to detect exactly that for every iteration order (floodfill_cycle_any_order); a signal bit with two block drivers (upblk_writes_iff via related_iff_overlap); a net "
         "with two or no outside-driven members (multi_writer_iff, no_writer_iff); an illegal port use — and reports the class of the first such stage (verdict_iff, verdict_class, "
         "legal_accepted); the outcome is invariant under order and orientation of the connect statements. Tied to the code by legal designs, 28 single-defect kinds at random hierarchy "
         "positions, multi-defect designs and exhaustive small tables, each under several statement orders, comparing the exception class (and [Type k] tag) with model and oracle. Operator placement is inside the model: Model/Place.lean (names bound in a block, constant "
         "vs variable index, kept vs dropped slice, the objs / part_objs walk, operator rules per block kind and inside @s.func helpers, flip-flop marking) and Props/C09p.lean prove the decision table total, "
         "that a `<<=` accepted in update_ff assigns whole top-level signals or whole list elements and conversely (ff_accept_whole, ff_whole_accepted), that for every run-time index value the element "
         "assigned is in the recorded object set (static_covers_dynamic) and that a name bound anywhere in the block is a variable index whatever module-level names exist; tied to the code by an operator x "
         "target-shape x block-kind x binding-form stream comparing verdict class, recorded objects and marks, with SIMULATION of every accepted write (an accepted write must take effect).",
         "The decision tables (operators, SignalTypeError Types 1-9, loop-back) are modelled from the code, not derived; block-order independence is by correspondence; duplicate "
         "connections are merged by the code (quirk, proved as dup_is_no_loop); inside @s.func helpers only the part-select rule of <<= and the cross-kind operator rule apply (a helper using `=` elaborates: kept quirk).",
         "Lean 4 proof (hierarchical checks <=> bit-level defect predicate; cycle detection for every iteration order) + single-defect injection correspondence", "DESIGN.md §5 C09"),
 'C10': ("Lean 4 proof over an executable model of the RTLIR behavioural type checker (visitor + enforcer, Model/TC.lean) and of Python/PythonBits evaluation (Model/PyEval.lean): on every "
         "accepted clean update block the static width of every sub-expression equals the run-time nbits (width_sound, width_sound_subexpr, explicit_final_width), simulation raises no "
         "bitwidth / truncation ValueError (no_width_error, stmt_no_width_error, block_no_width_error), explicitly sized operands of different widths in arithmetic, bitwise, comparison, "
         "if-expression and assignment operations are rejected (explicit_mismatch_rejected, assign_mismatch_rejected, mismatch_raises), literal widths are minimal (literal_min_width*), "
         "and acceptance implies a declarative typing judgement WT (check_implies_WT*). 'Clean' excludes the property's own exclusions (width-changing cast, misaligned shift) and three "
         "shapes on which the real checker is unsound, each with a Lean counter-example and a known finding (F12 implicit arithmetic, N1 temporary assigned a literal and a signal, N4 "
         "arithmetic between if-expressions with a literal branch). Tied to /repo by differential execution of the real Gen + TypeCheck passes (verdict and per-node "
         "width/_is_explicit/_value), real Bits evaluation of every sub-expression and DefaultPassGroup simulation on the same generated components, with a model-independent oracle.",
         "proof on the model + bounded correspondence; L1-L2 core language over Bits ports (struct fields, interfaces, arrays, /, **, update_ff not modelled); slices with "
         "non-integer-expression bounds and widths >= 1024 outside the theorems; F4, N2, N3, N5 found by this check and repaired in /repo; F12, N1, N4 are known findings.",
         "Lean 4 proof (type-checker soundness w.r.t. an evaluation model) + differential correspondence with the real passes and simulator", "DESIGN.md §5 C10"),
 'C13': ("Lean 4 proof: the module-table checker is exact (wfModules_sound/complete: defined once, closed, legal and unique identifiers); the component table of translate_component holds, "
         "for every name, the body of the first instance of the post-order walk, so it aliases iff names are not injective on bodies (no_alias_iff_names_injective), and the repaired walk "
         "(translateChecked, now in /repo) succeeds exactly when no instance is aliased; full and unique names are injective in the parameter values for a fixed class (separator-free "
         "images, collision-free hash) and the repaired name function always emits an identifier; orders of modules, ports and blocks are invariant under enumeration order. Tied to pymtl3 "
         "by differential execution on names and on design x backend cases (stdlib, examples, generated hierarchies, probe streams) including which body each emitted module holds. "
         "Identifier mangling is inside the model: flatId (the `__`-join of user names and list indices behind sub-component / interface port wires, instance names and the Yosys flattening) "
         "is injective on paths whose user names are okName (flatId_inj, flatIds_nodup) and Struct.get_full_name / get_name are injective on struct types without nested structs (structFullName_inj, "
         "structName_inj); without these conditions the names collide (flatId_collision_witnesses, structName_collision_witnesses, struct_collision_changes_layout, by decide), every witness being "
         "rebuilt and put through both translators on every run — which now REFUSE such designs (two fix: commits); oracles: identifiers declared once, instance ports on declared wires of the port's "
         "width, every typedef has the layout of every signal declared with it. Set-valued parameters (also nested) are rendered sorted (fix:), probed across hash seeds. PARTIAL: byte-level determinism across PYTHONHASHSEEDs and repeated translations is established by correspondence only (3 seeds quick, 12 thorough, 8-26 translations per case).",
         "Hash-seed/process determinism has no Lean counterpart (CPython set/dict iteration). The model keeps blake2b uninterpreted and module bodies opaque; the scanner is line-oriented "
         "and trusted; cross-class name injectivity and connection order are not covered. Known finding C13-param-repr-address.",
         "Lean 4 proof (verified module-table checker, aliasing characterisation, name injectivity) + byte-level determinism by differential execution (partial)", "DESIGN.md §5 C13"),
 'C15': ("Lean 4 proofs over a by-name executable model of whole-design metadata: replacing a subtree by delete-then-add yields exactly the entry set of elaborating the hierarchy with "
         "the new subtree in place (replace_eq_build), for any sequence of replacements by induction (sequence), with nothing contributed by the old subtree remaining unless the new one "
         "contributes it (nothing_left, delete_clean), and the path-indexed hierarchy shown to be a flattened inductive tree. Tied to pymtl3 by differential execution on random hierarchies "
         "(replace_component / replace_component_with_obj, 1-4 steps, every queryable container compared by name with a from-scratch build and with the model, simulation traces of all "
         "signals, reachability scan for removed objects).",
         "Equality is set-equality of entries (decidable), not of sorted lists; nets are derived and compared only; simulation is tested, not modelled; hypotheses: compatible replacement, "
         "no parent-level loopback on the replaced child. Four defects repaired in /repo; four known findings (ancestor block references, parent value / method constraints on the "
         "replaced child, loop-back connection) reproduced from directed cases on every run.",
         "Lean 4 proof (replace = rebuild on a by-name metadata model, by induction over replacement sequences) + differential correspondence", "DESIGN.md §5 C15"),
 'C20': ("Lean 4 proves, for an ISA interpreter written from tinyrv0-isa.md, that decode after encode is the identity on all ten instructions with in-range fields, that encode is "
         "injective and decode accepts exactly the table (decode_iff), that immediates are sign-extended, x0 stays 0, shifts use the low five bits, PC' = PC + 4 except a taken bne, "
         "lw after sw returns the stored word in little-endian memory, and that the checksum FL/CL/RTL algorithms equal the specification for every input of every length. "
         "The five-stage ProcRTL is inside the model: Model/Pipe.lean is a cycle-level model of ProcCtrlRTL + ProcDpathRTL + drop unit + the request/response queues as instantiated "
         "(stall / squash / bypass / hazard equations transcribed), and Props/C20p.lean proves for EVERY program and EVERY environment timing (arbitrary rdy / latency / delays; in-order "
         "memories; no fairness needed): per-cycle control laws (stall_chain, stall_keeps, bubble, squash_origin, squash_younger_only, rf_write_only_W, x0), ghost-tag conservation for every "
         "reachable state under any inputs incl. resets (stage_conservation, tags_in_order, no_dup_no_loss, drop_unit_exact), and the refinement to the ISA: refinement_invariant, "
         "arch_state_refines and commits_are_isa (the register file and proc2mngr stream observed after each commit are the ISA's after 1..k instructions), branch_decision_is_isa; the "
         "environment assumption is an explicit predicate shown satisfiable (env_assumption_satisfiable, runs_satisfiable). The model is tied to the real ProcRTL by cycle-exact comparison of "
         "17 outputs and a 175-entry state digest on every cycle of every run (from power-on, through resets in mid-run), AND by a translator: tools/py2lean_pipe.py regenerates "
         "Gen/PipeGen.lean (168 definitions) from the update blocks, constants, instances and connections of ProcCtrlRTL / ProcDpathRTL / MiscRTL on every run and Props/C20pGen.lean proves 129 "
         "generated = model obligations (every control equation, register update, the decode table, ALU, immediate generator, mux orders, drop unit, wiring). ProcFL is inside the model by a translator as well: tools/py2lean_procfl.py regenerates Gen/ProcFLGen.lean from tinyrv0_encoding.py (TinyRV0Inst accessors, "
         "name decode, RegisterFile) and ProcFL.py (up_ProcFL executed symbolically over an interface structure) on every run; Props/C20fGen.lean proves for all 32-bit words that every accessor is the "
         "model's field and the name decode is the model's decode (gen_name_eq), and for EVERY state that one execution of up_ProcFL is exactly one ISA step wherever the ISA is defined "
         "(gen_procfl_step_eq; it stalls, raises or stands still exactly where the ISA stops), hence n executions = n ISA steps (gen_procfl_run_eq) and the ISA theorems hold of ProcFL as written now; "
         "the FL memory interface is the byte memory of C18 (readN_c18 / writeN_c18). ProcCL: Gen/ProcCLGen.lean holds its blocks F / DXM / W over an environment of 28 queue and interface "
         "functions; Props/C20cGen.lean proves every branch for an ARBITRARY environment (ALU values, request formation, branch decision and target, CSR handling, write-back, stalls) and that in "
         "the ideal zero-latency environment DXM-then-W is one ISA step and rounds DXM; W; F are the ISA for whole programs (gen_proccl_exec_eq, gen_proccl_run_eq). PARTIAL: ProcCL's cycle-level "
         "timing (block schedule, queue delays, stalls, memory latency) and the FL/CL/RTL adapters (sources, sinks, test memory) are related to the ISA by differential execution of random terminating "
         "programs (hazards, load-use, store-load, branches, csr) under random memory latency, stall and src/sink delays only; the pipeline theorems are safety statements (prefix of the ISA execution), termination / liveness is observed, not proved.",
         "Proof covers the ISA model, encoding, checksum algorithms and the five-stage pipeline (control invariants + refinement to the ISA for all programs and timings, under the stated "
         "in-order-memory environment predicate, no self-modifying code). ProcFL: translator + step equality (the translator's rendering is itself run natively against the Python on every program); ProcCL: every block branch proved, "
         "its timing and the adapters rest on differential testing. "
         "xcel CSRs and illegal instructions are out of scope. ProcCL does not commit nops, so its commit count is compared modulo nops.",
         "Lean 4 proof (ISA model, encoding bijection, checksum equivalence) + differential execution of the three processors (partial)", "DESIGN.md §5 C20"),
 'C06': ("Lean 4 proofs over a hand-written executable model of the methods generated by @bitstruct/mk_bitstruct. For every type shape (nested structs, multi-dimensional list "
         "fields) and every value, the code-shaped to_bits/from_bits (flat concat argument list with reversed list indices; slices counted down from total_nbits) equal a structural "
         "specification for which from_bits after to_bits = id, to_bits after from_bits = id on [0,2^nbits), nbits = sum of leaf widths, and field/element/leaf offsets are given "
         "explicitly (field i at the sum of the widths of the later fields, element k at k*w). Equality <=> packed equality and hash congruence are proved. In a leaf-cell heap model, "
         "clone/deepcopy allocate fresh cells, @= copies visibly without aliasing (same class and via from_bits(to_bits()) across classes), and <<= is invisible until _flip which "
         "then shows the old source. Tied to /repo by a differential check (random + exhaustive small shapes, both construction syntaxes, op scripts with aliasing) with independent "
         "offset, round-trip and copy-semantics oracles. Program-level tie: Model/BStructProg.lean is an IR of the method bodies bitstructs.py emits as source text, with an evaluation "
         "semantics over the model's values and leaf-cell heap; Props/C06g.lean (11 theorems) proves for every well-formed type shape that the canonical programs progOf m T evaluate to the model "
         "functions (to_bits, from_bits, __eq__, __hash__, clone / deepcopy with fresh pairwise distinct leaves, @=, <<=, _flip, __init__ incl. the default constructor), so the C06 theorems transfer to "
         "every class whose generated programs are canonical (roundtrip_transfer, clone_transfer, assign_transfer); on every run the generated source of every method of every class the run builds "
         "(~3500 classes, ~43000 sources) is parsed and compared with progOf, and the leaf callees are tied through the regenerated PythonBits obligations (gen_concat_eq, gen_init_eq ...).",
         "Copy theorems assume the destination's leaf objects are pairwise distinct and disjoint from the source (proved for constructed/cloned/from_bits instances, not as an invariant "
         "over arbitrary user code); struct/list container identity, attribute rebinding, constructor-argument aliasing and _bitstruct_hash_cache are outside the model (container "
         "sharing after clone/deepcopy is checked on the real objects only); widths >= 1024 are proved and observed to raise ValueError in to_bits.",
         "Lean 4 proof (bijection, layout offsets, heap-cell copy semantics) + differential correspondence", "DESIGN.md §5 C06"),
 'C16': ("Lean 4 proof: for the executable model of VcdGenerationPass (net table with shared symbols, base-94 symbol generator, header values, change compression with the code's "
         "last_values indexing, clock lines), reading the dump of any trace gives back exactly the sampled value of every non-clock net and of every signal mapped to it "
         "(replay_dump, replay_dump_zero_init, replay_signal) for any number of nets, traces that revisit values, constant nets and cycle 0, the reader knowing only the $var "
         "declarations and the file's lines. Further: the clock symbol rises at 100t and falls at 100t+50 exactly once per cycle, signals sharing a net read equal values, "
         "to_vcd_str is injective and parses back, symbols are distinct, the text-wave record parses back to the samples. Tied to /repo by differential execution on generated "
         "hierarchical RTL designs simulated with DefaultPassGroup(vcdwave=..., textwave=True): the file, parsed by an independent reader, must equal the model's dump token for "
         "token, and a Python hold-until-changed replay must equal the values sampled at the dump point for every signal of every component. The part of make_vcd_func that decides WHAT is "
         "dumped is inside the model: trimLoop / declareAll / netTable (Model/VCD.lean) take the value nets in the DSL's enumeration order with members tagged whole signal / s.clk / slice-bit-field / "
         "constant and return the kept nets, the clock index and every signal's symbol; Props/C16n.lean (15 theorems) proves for every order and any number of dropped nets that the clock index is the "
         "position of the s.clk net among the KEPT nets (clock_index, clock_index_skips_dropped), that a net without a whole signal changes nothing, that every declared signal gets exactly one symbol and "
         "two signals share a symbol iff they share a net, and that the resulting design satisfies the side condition of replay_dump (table_replay_dump / table_replay_signal); compared on every design "
         "with the $var lines, header value lines and the clock_symbol / net_details of the real dump function. New streams: hierarchical designs with nets made only of slices / bits / fields / constants "
         "on both sides of the clock net, and groups of 2-4 waveform simulators alive in one process ticked in interleaved orders (each VCD, text-wave record and print_textwave() output must be its own).",
         "The proof is about the net-level model; how a design becomes the net table is read back from the file header and cross-checked against get_all_value_nets(). The main "
         "theorem carries the hypothesis QuirkSafe (equal defaults on equal-width neighbouring nets behind the clock) because the model reproduces the last_values indexing slip of "
         "dump_vcd_inner; it is discharged for all-zero defaults (the only case in pymtl3) and shown necessary by quirk_needs_equal_defaults. PrintTextWavePass modelled only as "
         "per-cycle bin strings. Pure RTL designs only. Sampling point validated every cycle against sim_eval_combinational() plus a read.",
         "Lean 4 proof (replay of dump = trace, by induction over the trace) + differential correspondence with an independent VCD reader", "DESIGN.md §5 C16"),
 'C14': ("Lean 4 proofs over an executable model of PyMTL3's naming (NamedObject.__setattr_for_elaborate__, Signal.__getattr__/__getitem__, clk/reset injection) show, for "
         "every construction description and every statically or lazily created object, that evaluating the full name returns that very object (resolve_name), that names and "
         "repr strings are unique (name_injective, repr_unique, render_injective), that parent / level / host / top-level signal / field name are exactly the values read off the "
         "name's prefixes, that a slice of a slice is the re-based slice of the unsliced signal, that the breadth-first list walk assigns exactly the structural indices, and that "
         "every object reachable by any expression is covered. Tied to /repo by differential execution of ~1100 (quick) / ~12700 (thorough) generated hierarchies written as real "
         "module files (name sets, full records, non-canonical expressions, FieldReassignError) with an independent oracle on the real objects (unique repr, eval(repr(o)) is o, "
         "metadata equal to prefix values). The naming hook itself is a second, dynamic model (Model/HierHook.lean, Props/C14h.lean, 8 theorems): assign = __setattr_for_elaborate__ as a transformer of "
         "the naming state incl. the repaired same-list re-assignment behind `s.x += [...]`; for all histories of hook assignments and += (any nesting, None holes, lists bound under a second name) every "
         "collected object is named, eval(repr(o)) is o and names are injective (hook_names_resolve, hook_names_injective, hook_metadata); a list mutated behind the hook's back leaves an object in the "
         "design without a name (mutated_behind_hook_unnamed = the known finding C14-list-mutated-in-place as a theorem); tied by generated construct programs elaborated in pymtl3 and interpreted by the driver.",
         "Proof is about the hand-written model Model/Hier.lean. Lazily created signals are modelled as a created set with position-determined records; dict caching is tied to the "
         "code only by `is`-identity checks. Re-elaboration invariance is proved as per-object determinism, not as permutation invariance of access order. Assumes no aliasing, "
         "homogeneous object/list lists (a `[None, Wire()]` list yields an unnamed collected object: outside the property's quantifier, opt-in probe C14_PROBE_MIXED=1), and "
         "identifier-like names that do not shadow Signal/Component attributes.",
         "Lean 4 proof (resolve/nameOf round trip, prefix characterisations) + differential correspondence check", "DESIGN.md §5 C14"),
 'C17': ("Lean 4 proof: every queue class of queues.py and stream/queues.py (ring-buffer ctrl+dpath with the code's pointer/count widths, and the 1-entry forms), enrdy_queues "
         "Normal1/Pipe1/Bypass1, all four valrdy_queues classes and the three CL queues is proved, for every capacity, every message type and every protocol-legal input history, to "
         "produce exactly the outputs of FIFO_spec(kind, capacity) at every cycle (refinement with invariant: ring_inv, ring_refines, one_entry_refines, vring_refines, cl_refines, "
         "refines_trace). From that: delivered is a prefix of accepted with at most capacity messages inside, count / num_free_entries exact, and the three ready/valid laws stated "
         "outright. For enrdy BypassQueue2RTL FIFO order, count and the dequeue law are proved and the enqueue-ready law is shown false (known finding). Models tied to the real "
         "classes by differential simulation (random legal histories for all classes x capacities {1,2,3,4,5,7,8} x 2 message types, exhaustive state x offer enumeration for n <= 2 "
         "quick / n <= 4 thorough) plus an independent FIFO-ledger oracle. Translator tie: tools/py2lean_queue.py regenerates Gen/QueueGen.lean (283 definitions, parametric in the capacity n and the entry type) from the update blocks, constants and wiring of the four RTL queue files on every run and Props/C17Gen.lean proves 247 generated = model obligations for all n. "
         "Queues reached through the level adapters: Model/QAdapter.lean models message objects as heap cells and Props/C17a.lean (15 theorems) proves, for all kinds, capacities and offer / stall "
         "histories, that the repaired RecvRTL2SendCL in front of a CL queue is exactly that queue (zero latency, r2c_refines / r2c_fifo), that the queue's objects are pairwise distinct and never "
         "the live signal (r2c_owned, r2c_mutation_frame), a Lean counter-example for the aliased adapter of the pinned tree (aliased_loses_messages), that RecvCL2SendRTL is a bypass(1) place and "
         "composes with every queue class machine (c2r_class_refines), and the ledger law for chains (chain_fifo); tied to the code cycle by cycle on two topologies (incl. the object-identity "
         "pattern) and by a value ledger + ownership oracle on pipelines of 1-3 mixed queues through every usable stdlib adapter with producers that rewrite one object in place.",
         "Models hand-transcribed (RegisterFile/Mux/Reg inline); CL same-cycle order hard-coded from the method constraints and checked only by execution under the real scheduler; "
         "FIFO clauses stated between resets (messages accepted during a reset cycle by ungated families are dropped, as the code does); valrdy_queues.py runs only with two interface "
         "classes injected by the harness (the module is unimportable as shipped: recorded as a note); known finding C17-bypass2-enq-rdy-bubble.",
         "Lean 4 proof (refinement to a FIFO spec with invariant) + differential/exhaustive correspondence", "DESIGN.md §5 C17"),
 'C18': ("Lean 4 proof: the two magic-memory systems are modelled cycle by cycle (slot pipelines for DelayPipeDeqCL/DelayPipeSendCL/InelasticDelayPipe, StallCL/RandomStall as an "
         "arbitrary Bool stream, up_mem servicing ports in index order) and Lean proves, for every port count, latency, request stream and every stall/source/sink stream, that the "
         "store and each port's in-order response stream equal the sequential specification applied to the processing order (cl_timing_independent, rtl_timing_independent), that "
         "processed requests are a prefix of the request stream with type/opaque echoed, that each delay pipe is FIFO under any history, that every byte read is the latest earlier "
         "store covering it (read_latest, image_latest) and that AMOs return the old value and store op(old,arg) mod 2^(8k). Single-port and disjoint-region corollaries show contents "
         "are independent of timing outright. AMOs carry a byte count like reads and writes (sub-word AMOs, repaired in /repo this round): amo_spec / amo_old_new / amo_low_bytes_only / "
         "amo_full_width state that the operation acts at width 8*len on the low len bytes of the data field, answers the old bytes zero-extended and leaves every other byte alone; "
         "tools/py2lean_mem.py also cuts the request-handling glue out of up_mem of both memories and Props/C18Gen.lean proves the READ / WRITE / AMO branches re-composed from generated "
         "pieces equal to the model's service step (gen_up_mem_read_eq / write_eq / amo_eq). The correspondence check runs MagicMemoryFL, MagicMemoryCL and stream MagicMemoryRTL under random timing configurations, records the real "
         "processing order and every stall/source/sink decision, and compares responses and final image with seqSpec, with an independent byte-dict oracle, and cycle-accurately with "
         "the system models driven by the recorded decisions.",
         "Full system theorem proved for both CL and RTL models. Modelled, not verified: per-cycle block order of the CL model; the RTL model's clock edge taken right after each "
         "up_mem iteration; sources, sinks and stall RNG abstracted as arbitrary streams. Out of scope: INV/FLUSH/other message types, addresses beyond mem_nbytes. Trusted: the source slicer of "
         "py2lean_mem.py and the hand-written composition of a branch (dispatch on the type, echo of type / opaque / len).",
         "Lean 4 proof (system invariant over arbitrary environment streams) + cycle-accurate differential correspondence", "DESIGN.md §5 C18"),
 'C19': ("Lean 4 proof over a block-by-block model of RoundRobinArbiter and RoundRobinArbiterEn with the RegEnRst(reset_value=1) pointer register, for every nreqs, "
         "request vector and input history: the pointer is one-hot in every state reachable through a reset (onehot_inv/onehot_history); the grant vector is zero or "
         "one-hot, a subset of reqs, nonzero iff reqs is nonzero, and equal to 2^k for the requester cyclically first from the pointer (grants_closed_form); the pointer "
         "goes to (k+1)%n exactly when priority_en is high without reset, holds otherwise, and goes to 0 on reset, en gating the update in the En variant; a continuously "
         "requesting input is granted within nreqs advancing cycles (fair, by induction over arbitrary histories with the decreasing cyclic distance). Tied to the real "
         "components by exhaustive differential simulation (pointer x reqs x en x reset, internal kill-chain wires included) for nreqs <= 6 (<= 8 thorough) and random "
         "histories up to nreqs 64, with an independent oracle of the property on the observed ports. Translator tie: tools/py2lean_arb.py regenerates Gen/ArbGen.lean from arbiters.py / registers.py on every run (loops as folds, parametric in nreqs) and Props/C19Gen.lean proves 39 generated = model theorems for every nreqs (gen_settled_eq_model).",
         "Theorems assume a reset has occurred (the uninitialised register 0 grants nothing: proved as dead_before_reset and compared, not a violation). Fairness windows "
         "contain no reset. Hand-written model Model/Arb.lean and the simulator's scheduling are trusted, validated only by the correspondence run.",
         "Lean 4 proof (invariant + closed form + decreasing measure) + exhaustive/random differential correspondence", "DESIGN.md §5 C19"),
 'C01': ("Lean 4 theorems: for abstract blocks with read/write footprints (any variable/value types) every topological order of a single-writer block set "
         "reaches the unique fixed point of the dataflow equations (fixed_point_of_topo, unique_fixed_point, schedule_independent); the bridge lemmas "
         "(denote_wf, topoB_sound, singleWriterB_sound) carry this to the executable RTL model, giving any_order / rerun_noop / dataflow_unique / tick_indep "
         "for every design, order, ff permutation and state. Tie to the code: random designs run under all five pass groups plus forced linear extensions "
         "and ff permutations; every signal after every eval_comb and tick is compared with the model, each real schedule is checked by the model's topoB, "
         "and three direct oracles (schedules agree, re-run is a no-op, values equal an independent dataflow evaluation) run on the real simulator. A second "
         "stream ties the same model to LIBRARY code: harness/common/pymtl2rtl.py derives the Model/Rtl form of real components (stdlib arbiters, crossbars, encoders, muxes, "
         "registers, register files, three queue families, ROMs, the example checksum units and the whole example ProcRTL: 75+ designs) by symbolic execution of their update "
         "blocks on every run, and Lean simulation, PyMTL simulation under several pass groups / forced orders and an independent evaluation must agree on every signal. Scheduling algorithms inside the model: Model/Mamba.lean models Mamba2020Pass (sorted-list insert, the pop-front / "
         "pop-back main loop over the condensation, meta-block packing at all flush sites, SCC packing, update_ff packing) and HeuristicTopoPass; Props/C01m.lean proves for every "
         "input that no block is lost or duplicated, every condensation edge goes forward, the packing is a segmentation of the order and the loops terminate independently of fuel "
         "(mamba_topo, mamba_complete, mamba_segmentation, packSCC_flatten, packFF_flatten, heu_topo, heu_complete, ...); tied to the code by comparing the real segmentation with the "
         "model exactly on 250 designs per quick run aimed at every flush site. A reset stream runs sim_reset() under both reset_active_high values in all five pass groups against "
         "the dataflow reference.",
         "Trusted: Lean kernel + standard axioms; Model/Rtl.lean (bit-vector signals, assignment-list blocks, nets as blocks, if/else presented as mux by the "
         "harness generator); driver table glue; generator language = Bits signals, constant slices, one level of children, nets. SimpleSchedulePass (Kahn), Mamba2020Pass and "
         "HeuristicTopoPass are modelled as algorithms; Kosaraju SCC + the SCC-level sort of DynamicSchedulePass are modelled in Props/C11s; UnrollSim reuses SimpleSchedulePass.",
         "Lean 4 proof (abstract scheduling theory + verified schedule checker) + differential correspondence check", "DESIGN.md §5 C01"),
 'C02': ("Lean 4 theorems: the overlap test is exact at bit level (overlap_spec, rngsOverlap_spec), the schedule checker accepts exactly the orders in which "
         "every writer of a bit precedes every reader of it (topo_iff_writer_before_reader), and Kahn's algorithm with an arbitrary tie-break is duplicate-free, "
         "edge-respecting and leaves only predecessor-closed (cyclic) leftovers (kahn_sound, kahn_leftover). Tie to the code: model deps vs _dag.all_constraints, "
         "topoB on every pass's schedule, run-time call order via sys.setprofile, SimpleSchedulePass replayed through the Kahn model, explicit U<U constraints, "
         "inversions and pure explicit cycles. Method constraints: Model/Methods.lean models GenDAGPass._process_methods (== classes by flood fill, the two-direction work-list "
         "search, the four exclusions); Props/C02m.lean proves the added block pairs exactly characterised (process_exact), sound, complete for M<M / U<M / M<U through == classes "
         "(complete_MM/UM/MU, complete_fwd/bwd) and respected by any topological order incl. Kahn's (schedule_kahn); tied to the code by comparing model and real added pairs on stdlib "
         "queue chains, MagicMemoryCL and generated method-port designs, plus schedule position and run-time call order. Translator tie: tools/py2lean_overlap.py regenerates "
         "Gen/OverlapGen.lean from Connectable.py _overlap/slice_overlap each run and Props/C02Gen.lean proves it equal to Rng.overlap. Value constraints: Model/GenDag.lean models "
         "GenDAGPass._process_value_constraints (explicit RD/WR expansion, the reader-side walk over parents and overlapping sibling slices, the writer-side walk over parents, "
         "update_ff writers excluded, removal of explicitly inverted pairs) and Props/C02d.lean proves that the two asymmetric walks are exactly the symmetric relation "
         "(implicit_iff_related), i.e. a pair is added iff a non-ff writer and a reader share a bit (implicit_iff_bits), that explicit pairs are honoured, and that every order "
         "topological for the result runs each writer of a bit before each reader unless explicitly inverted (schedule_respects_bits); tied to the code by comparing the model's "
         "final pairs and constraint_objs with _dag.all_constraints / constraint_objs exactly on five design families, the model input being extracted from the real metadata. "
         "The read / write set the constraints start from is inside the model as well: Model/CallGraph.lean models the expansion of @s.func helper calls in ComponentLevel2._collect_vars "
         "and Props/C02c.lean proves for every call graph that a block's expanded set is exactly its own accesses plus those of every function reachable from its calls (expand_exact), that "
         "the expansion raises iff a reachable function lies on a call cycle, and that the accumulating loop gives every block the same entry in every order and from any earlier state "
         "(fold_entry_eq, fold_perm, expand_local); tied to the code by reading the per-component tables before and the expanded sets after _collect_vars, with a direct oracle from an own "
         "AST walk and from sys.setprofile on the running blocks. The production of those tables from SOURCE is inside the model too: Model/AstRW.lean models DetectReadsWritesCalls "
         "(_get_full_name, enter, every visit_*, generic_visit) and extract_obj_from_names over a snapshot of the component; Props/C02a.lean proves, against an execution semantics in which "
         "every branch outcome, loop count, else clause and run-time index value is an execution, that every path read, assigned or called by any execution is matched by a recorded name "
         "(complete_partial, exec_complete), that the real lookup yields the object reached or one it is part of (objects_covered), soundness, that for-else / elif / every child is visited, "
         "and determinism; tied to the code on the real ASTs of generated designs, 78 library designs, shape families and all 212 decorated functions of stdlib / examples, with an own "
         "statement-level tracer as direct oracle. OpenLoopCLPass is inside the model: Model/OpenLoop.lean models schedule_with_top_level_callee (method -> port -> rdy-guard translation, "
         "the edges Kosaraju does not see, the worklist sort, the assert, the ffs layout) and the run-time protocol of the method wrappers and sim_reset; Props/C02o.lean (26 theorems) proves "
         "the schedule a partition with every inter-SCC edge forward, the assert failing iff an SCC is left over, that the wrappers reject and reorder nothing, that cycles are the maximal "
         "ascending runs of the call sequence, each executing a sublist of the one static schedule with every block exactly once, and hence that constraint edges and writer-before-reader "
         "(through C02d) hold at run time for EVERY sequence of top-level method calls (constraint_order_at_runtime, writer_before_reader_at_runtime); tied to the code by exact comparison "
         "of the installed schedule, wrapper indices, profiled execution order of random call sequences and cycle counts.",
         "Trusted: as C01; explicit U<U constraints are handled by the harness oracle (python), not by the Lean model; in the OpenLoop model a non-trivial SCC is one schedule entry (inner "
         "iteration: C11) and a CalleePort inside a non-trivial SCC is outside the model (the real pass crashes there); AST -> S-expression conversion, heap snapshot and tracer of the AstRW "
         "stream are trusted glue. Known finding C02-lambda-name-collision.",
         "Lean 4 proof (verified schedule checker, Kahn with arbitrary oracle, models of GenDAGPass / call expansion / AST extraction / OpenLoopCLPass) + differential correspondence check", "DESIGN.md §5 C02, §9.7"),
 'C07': ("Lean 4 theorems over the double-buffer model: the shadow buffer after the ff phase is the same for every permutation of the update_ff blocks (ff_perm, "
         "tick_ff_perm, via pairwise commutation), the ff phase leaves all current values untouched (ff_reads_pre_edge), an unassigned register holds, the last "
         "executed assignment wins (last_wins), the flip changes exactly the register bits together (edge) and shadow = value at every cycle boundary "
         "(next_eq_cur). Props/C07f.lean models the grouping loop of SimpleSchedulePass.schedule_posedge_flip (single registers hoisted to the parent component) and proves that "
         "the generated flip function covers every double-buffered signal exactly once (grouping_perm, mem_grouping, grouping_nodup), addresses each relative to a component it "
         "lives under (grouping_prefix) and that the loop terminates independently of the fuel (grouping_settled, grouping_fuel). Tie to the code: register-heavy designs under "
         "five pass groups and forced permutations of schedule_ff with probes between the ff blocks; the generated double_buffer source of these designs and of random component "
         "trees (depth 0-4) parsed and compared with the model grouping, plus a direct oracle (flipped set = needs_double_buffer set = signals written by update_ff). The operator-placement model of C09 (Props/C09p.lean: an accepted `<<=` assigns "
         "whole signals, the recorded set covers every run-time element, so it is marked double-buffered) is registered here too, with its stream simulated under two pass groups per case.",
         "Trusted: as C01; registers are Bits-typed in the generator (struct registers are bit ranges of one signal in the model).",
         "Lean 4 proof + differential correspondence check", "DESIGN.md §5 C07"),
 'C11': ("Lean 4 theorems about the SCC super-block model: a returned state is a fixed point of every block of the group when the watch list covers the "
         "intra-group variables (stable_is_fixed_point, with watchOKB_sound and the checked hypothesis watchOKB), the loop is total and `none` means no sweep was "
         "stable (none_means_unstable), a stable state is accepted (fixed_point_accepted), and a false loop evaluates to the value of its acyclic refinement "
         "(false_loop_eq_acyclic). Tie to the code: cyclic designs under Dynamic and Mamba with the real inner order and real watch list parsed from the generated "
         "wrapper and fed to the model; fixed-point re-run, acyclic reference, UpblkCyclicError and sweep-count oracles on the real simulator. The partition step is inside the model: "
         "Model/Scc.lean follows kosaraju_scc (iterative DFS with (u, second_visit) entries, BFS on the transpose in reverse post-order, G_new) and the SCC-level sort with the pop "
         "discipline as a parameter; Props/C11s.lean proves for every finite graph and every iteration order that the groups are exactly the strongly connected components "
         "(groups_partition, groups_strongly_connected, same_group_iff_mutual), that G_new is the acyclic condensation, that scc_schedule holds every group once with every edge forward "
         "(so the code's assert cannot fail) and that the expanded schedule satisfies the entries-topological hypothesis of whole_schedule (entries_topological); fuel never decides "
         "(fuel_sufficient). Tied to the code by exact comparison with the real kosaraju_scc on 1500 random graphs per quick run and on the calls recorded inside "
         "DynamicSchedulePass / Mamba2020Pass / OpenLoopCLPass on generated designs, plus an independent Tarjan oracle. The SHAPE of the generated super-block loop is inside the model too "
         "(Model/LoopIR.lean, Props/C11w.lean): a small IR (bound test before / after the sweep, per-variable == / != literals joined by and / or, break / continue / raise) with an executable "
         "semantics; run_eq_iterate proves that every IR of the normal class IR.ok equals iterate at fuel 100 (Dynamic / Mamba) or 101 (OpenLoop), so stable_is_fixed_point, "
         "false_loop_eq_acyclic and never-hangs transfer to what the wrapper text says (ok_*), and three shapes outside the class carry counter-example theorems (allChanged_returns_unstable, "
         "breakOnChange_returns_unstable, unbounded_never_raises / unbounded_hangs); on every run the real wrapped_SCC source of all three generators is parsed into the IR and pv_loopir "
         "evaluates IR.ok / fuel / compared variables (which must equal the snapshotted ones). An open-loop stream simulates every cyclic kind as a method-driven top under GenDAGPass + "
         "OpenLoopCLPass with partial input changes between transactions (fixed point after every transaction, equality with the acyclic reference, UpblkCyclicError when due within 101 sweeps, hang guard).",
         "Trusted: as C01; watch list read from generated source by rtlgen.parse_scc; Mamba2020 / OpenLoopCLPass pop orders enter the SCC theorems as the `pick` parameter and "
         "their real schedules are checked through the proved-sound checkers.",
         "Lean 4 proof + differential correspondence check", "DESIGN.md §5 C11"),
 'C04': ("Lean 4 theorems (Props/C04.lean) prove, for every width n and all operands, that each operator of the Bits model returns the "
         "unsigned result mod 2^n (comparisons 1 bit), that width mismatches and ints that do not fit are errors, that construction/@=/<<= "
         "accept exactly -2^(n-1)..2^n-1, and that every stored value stays in [0,2^n); the model is tied to PythonBits.py on every run by "
         "differential execution of every operator/operand form (40k cases quick, 1.2M + exhaustive n<=4 thorough) with an independent big-int oracle, AND by a translator "
         "(tools/py2lean_bits.py) that regenerates Lean definitions from PythonBits.py on every run, each proved equal to the model (Props/C04Gen.lean): a changed operator breaks its equality proof.",
         "Trusted: Lean kernel + {propext, Classical.choice, Quot.sound}; the hand-written model Model/Bits.lean (Python `& mask` modelled as `% 2^n`); "
         "the correspondence harness; pure-Python Bits (no mamba).",
         "Lean 4 proof over a hand-written model + Python-to-Lean translator with proved equality to the model + differential correspondence check", "DESIGN.md §5 C04, §9"),
 'C05': ("Lean 4 theorems (Props/C05.lean) prove for every width and value: a valid slice/bit read returns exactly the named bits, a write changes "
         "exactly those bits (Nat.testBit characterisation) and reads back, every bound outside 0<=lo<hi<=n, every step and every too-wide value is an "
         "error, concat/zext/sext/trunc/reduce_* equal their bit-level definitions and clog2 is the least k with 2^k>=N; tied to the code by "
         "differential execution incl. exhaustive bound squares for n<=4 (quick) / n<=6 (thorough), and by the same Python-to-Lean translator as C04 for __getitem__/__setitem__ and helpers.py "
         "(generated definitions proved equal to the model in Props/C04Gen.lean).",
         "Trusted: Lean kernel + standard axioms; Model/Bits.lean slicing/helpers part; harness. clog2 float fallback (non-integer argument) not modelled.",
         "Lean 4 proof over a hand-written model + Python-to-Lean translator with proved equality to the model + differential correspondence check", "DESIGN.md §5 C05, §9"),
}

NOT_YET = {}

def setup_cmd(checks):
  """build exactly what the claimed checks need (their Props modules and drivers), one target at a time so
  that a broken proof of one property cannot prevent the others from being built (each check rebuilds its
  own targets anyway and reports a failing build as a broken proof obligation)"""
  mods, drvs = [], []
  # the checks' own declarations (MODULE / DRIVERS, including those of their helper modules), read by importing them
  import subprocess
  code = ("import importlib, json, sys; sys.path.insert(0, %r); out = {}\n"
          "for c in %r:\n"
          "  m = importlib.import_module('harness.checks.' + c)\n"
          "  mod = m.MODULE if isinstance(m.MODULE, list) else [m.MODULE]\n"
          "  out[c] = [mod, list(m.DRIVERS)]\n"
          "print(json.dumps(out))") % (HERE, [c['property_id'].lower() for c in checks])
  r = subprocess.run(['/venv/bin/python', '-c', code], stdout=subprocess.PIPE, text=True, check=True)
  decl = json.loads(r.stdout.strip().split('\n')[-1])
  for c in checks:
    m, d = decl[c['property_id'].lower()]
    for x in m:
      if x not in mods: mods.append(x)
    for x in d:
      if 'pv_' + x not in drvs: drvs.append('pv_' + x)
  return 'cd lean && for t in ' + ' '.join(mods + drvs) + '; do lake build $t || echo "setup: target $t failed to build"; done'

def main():
  props = [json.loads(l) for l in open(os.path.join(HERE, 'properties.jsonl'))]
  checks, na = [], []
  for p in props:
    pid = p['id']
    if pid in CHECKS:
      text, note, tech, ref = CHECKS[pid]
      checks.append({
        'property_id': pid,
        'quick_cmd': f'./vcheck {pid} quick',
        'thorough_cmd': f'./vcheck {pid} thorough',
        'evidence_file': f'evidence/{pid}.json',
        'replay_cmd_template': f'./vcheck {pid} quick --replay {{path}}',
        'engine': 'lean4-proof+correspondence',
        'level_claimed': {'category': 'proof', 'text': text, 'design_ref': ref},
        'level_note': note,
        'technique': tech,
      })
    else:
      na.append({'property_id': pid, 'reason': NOT_YET.get(pid, 'check not built yet in this round (design in DESIGN.md §5); not claimed until its Lean theorems and correspondence check exist')})
  man = {
    'version': 1,
    'setup_cmd': setup_cmd(checks),
    'hooks': {
      'guard': 'PYMTL3_VERIF',
      'enable': 'no hooks in /repo are needed so far: checks import pymtl3 from /repo (editable install in /venv) and observe public/semi-public attributes; ./vcheck exports PYMTL3_VERIF=1 for future use',
      'baseline_off_cmd': '/venv/bin/python tools/baseline_check.py',
      'source_commits': [],
      'add_only': True,
    },
    'engines': [{
      'name': 'lean4-proof+correspondence', 'path': 'lean/ + harness/',
      'serves_properties': [c['property_id'] for c in checks],
      'kind_free_text': 'Lean 4.33 theorems over hand-written executable models (lean/PymtlVerif/Props), native drivers pv_*, Python differential harness (harness/) running /repo in-process',
    }],
    'checks': checks,
    'not_applicable': na,
    'notes': 'Every check: lake build + #print axioms audit + source scan, then model-vs-implementation differential run and a direct oracle of the property. Exit 2 = infrastructure problem (never a verdict). Known findings: known_findings.json.',
  }
  with open(os.path.join(HERE, 'MANIFEST.json'), 'w') as f:
    json.dump(man, f, indent=1)
  print(f'{len(checks)} checks, {len(na)} not claimed')
main()
