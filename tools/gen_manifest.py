#!/usr/bin/env python3
"""Generate /verif/MANIFEST.json from the table below (single source of truth for the interface)."""
import json, os, re
HERE = os.path.dirname(os.path.dirname(os.path.abspath(__file__)))

# id -> (level text, level note, technique, design_ref)
CHECKS = {
 'C16': ("Lean 4 proof: for the executable model of VcdGenerationPass (net table with shared symbols, base-94 symbol generator, header values, change compression with the code's "
         "last_values indexing, clock lines), reading the dump of any trace gives back exactly the sampled value of every non-clock net and of every signal mapped to it "
         "(replay_dump, replay_dump_zero_init, replay_signal) for any number of nets, traces that revisit values, constant nets and cycle 0, the reader knowing only the $var "
         "declarations and the file's lines. Further: the clock symbol rises at 100t and falls at 100t+50 exactly once per cycle, signals sharing a net read equal values, "
         "to_vcd_str is injective and parses back, symbols are distinct, the text-wave record parses back to the samples. Tied to /repo by differential execution on generated "
         "hierarchical RTL designs simulated with DefaultPassGroup(vcdwave=..., textwave=True): the file, parsed by an independent reader, must equal the model's dump token for "
         "token, and a Python hold-until-changed replay must equal the values sampled at the dump point for every signal of every component.",
         "The proof is about the net-level model; how a design becomes the net table is read back from the file header and cross-checked against get_all_value_nets(). The main "
         "theorem carries the hypothesis QuirkSafe (equal defaults on equal-width neighbouring nets behind the clock) because the model reproduces the last_values indexing slip of "
         "dump_vcd_inner; it is discharged for all-zero defaults (the only case in pymtl3) and shown necessary by quirk_needs_equal_defaults. PrintTextWavePass modelled only as "
         "per-cycle bin strings. Pure RTL designs only. Sampling point validated every cycle against sim_eval_combinational() plus a read.",
         "Lean 4 proof (replay of dump = trace, by induction over the trace) + differential correspondence with an independent VCD reader", "DESIGN.md §5 C16"),
 'C14': ("Lean 4 proofs over an executable model of PyMTL3's naming (NamedObject.__setattr_for_elaborate__, Signal.__getattr__/__getitem__, clk/reset injection) show, for "
         "every construction description and every statically or lazily created object, that evaluating the full name returns that very object (resolve_name), that names and "
         "repr strings are unique (name_injective, repr_unique, render_injective), that parent / level / host / top-level signal / field name are exactly the values read off the "
         "name's prefixes, that a slice of a slice is the re-based slice of the unsliced signal, that the breadth-first list walk assigns exactly the structural indices, and that "
         "every object reachable by any expression is covered. Tied to /repo by differential execution of ~1100 (quick) / ~12700 (thorough) generated hierarchies written as real "
         "module files (name sets, full records, non-canonical expressions, FieldReassignError) with an independent oracle on the real objects (unique repr, eval(repr(o)) is o, "
         "metadata equal to prefix values).",
         "Proof is about the hand-written model Model/Hier.lean. Lazily created signals are modelled as a created set with position-determined records; dict caching is tied to the "
         "code only by `is`-identity checks. Re-elaboration invariance is proved as per-object determinism, not as permutation invariance of access order. Assumes no aliasing, "
         "homogeneous object/list lists (a `[None, Wire()]` list yields an unnamed collected object: outside the property's quantifier, opt-in probe C14_PROBE_MIXED=1), and "
         "identifier-like names that do not shadow Signal/Component attributes.",
         "Lean 4 proof (resolve/nameOf round trip, prefix characterisations) + differential correspondence check", "DESIGN.md §5 C14"),
 'C17': ("Lean 4 proof: every queue class of queues.py and stream/queues.py (ring-buffer ctrl+dpath with the code's pointer/count widths, and the 1-entry forms), enrdy_queues "
         "Normal1/Pipe1/Bypass1, all four valrdy_queues classes and the three CL queues is proved, for every capacity, every message type and every protocol-legal input history, to "
         "produce exactly the outputs of FIFO_spec(kind, capacity) at every cycle (refinement with invariant: ring_inv, ring_refines, one_entry_refines, vring_refines, cl_refines, "
         "refines_trace). From that: delivered is a prefix of accepted with at most capacity messages inside, count / num_free_entries exact, and the three ready/valid laws stated "
         "outright. For enrdy BypassQueue2RTL FIFO order, count and the dequeue law are proved and the enqueue-ready law is shown false (known finding). Models tied to the real "
         "classes by differential simulation (random legal histories for all classes x capacities {1,2,3,4,5,7,8} x 2 message types, exhaustive state x offer enumeration for n <= 2 "
         "quick / n <= 4 thorough) plus an independent FIFO-ledger oracle.",
         "Models hand-transcribed (RegisterFile/Mux/Reg inline); CL same-cycle order hard-coded from the method constraints and checked only by execution under the real scheduler; "
         "FIFO clauses stated between resets (messages accepted during a reset cycle by ungated families are dropped, as the code does); valrdy_queues.py runs only with two interface "
         "classes injected by the harness (the module is unimportable as shipped: recorded as a note); known finding C17-bypass2-enq-rdy-bubble.",
         "Lean 4 proof (refinement to a FIFO spec with invariant) + differential/exhaustive correspondence", "DESIGN.md §5 C17"),
 'C18': ("Lean 4 proof: the two magic-memory systems are modelled cycle by cycle (slot pipelines for DelayPipeDeqCL/DelayPipeSendCL/InelasticDelayPipe, StallCL/RandomStall as an "
         "arbitrary Bool stream, up_mem servicing ports in index order) and Lean proves, for every port count, latency, request stream and every stall/source/sink stream, that the "
         "store and each port's in-order response stream equal the sequential specification applied to the processing order (cl_timing_independent, rtl_timing_independent), that "
         "processed requests are a prefix of the request stream with type/opaque echoed, that each delay pipe is FIFO under any history, that every byte read is the latest earlier "
         "store covering it (read_latest, image_latest) and that AMOs return the old value and store op(old,arg) mod 2^(8k). Single-port and disjoint-region corollaries show contents "
         "are independent of timing outright. The correspondence check runs MagicMemoryFL, MagicMemoryCL and stream MagicMemoryRTL under random timing configurations, records the real "
         "processing order and every stall/source/sink decision, and compares responses and final image with seqSpec, with an independent byte-dict oracle, and cycle-accurately with "
         "the system models driven by the recorded decisions.",
         "Full system theorem proved for both CL and RTL models. Modelled, not verified: per-cycle block order of the CL model; the RTL model's clock edge taken right after each "
         "up_mem iteration; sources, sinks and stall RNG abstracted as arbitrary streams. Out of scope: INV/FLUSH/other message types, addresses beyond mem_nbytes, sub-word AMOs "
         "(they raise a width error today; recorded as an observation).",
         "Lean 4 proof (system invariant over arbitrary environment streams) + cycle-accurate differential correspondence", "DESIGN.md §5 C18"),
 'C19': ("Lean 4 proof over a block-by-block model of RoundRobinArbiter and RoundRobinArbiterEn with the RegEnRst(reset_value=1) pointer register, for every nreqs, "
         "request vector and input history: the pointer is one-hot in every state reachable through a reset (onehot_inv/onehot_history); the grant vector is zero or "
         "one-hot, a subset of reqs, nonzero iff reqs is nonzero, and equal to 2^k for the requester cyclically first from the pointer (grants_closed_form); the pointer "
         "goes to (k+1)%n exactly when priority_en is high without reset, holds otherwise, and goes to 0 on reset, en gating the update in the En variant; a continuously "
         "requesting input is granted within nreqs advancing cycles (fair, by induction over arbitrary histories with the decreasing cyclic distance). Tied to the real "
         "components by exhaustive differential simulation (pointer x reqs x en x reset, internal kill-chain wires included) for nreqs <= 6 (<= 8 thorough) and random "
         "histories up to nreqs 64, with an independent oracle of the property on the observed ports.",
         "Theorems assume a reset has occurred (the uninitialised register 0 grants nothing: proved as dead_before_reset and compared, not a violation). Fairness windows "
         "contain no reset. Hand-written model Model/Arb.lean and the simulator's scheduling are trusted, validated only by the correspondence run.",
         "Lean 4 proof (invariant + closed form + decreasing measure) + exhaustive/random differential correspondence", "DESIGN.md §5 C19"),
 'C01': ("Lean 4 theorems: for abstract blocks with read/write footprints (any variable/value types) every topological order of a single-writer block set "
         "reaches the unique fixed point of the dataflow equations (fixed_point_of_topo, unique_fixed_point, schedule_independent); the bridge lemmas "
         "(denote_wf, topoB_sound, singleWriterB_sound) carry this to the executable RTL model, giving any_order / rerun_noop / dataflow_unique / tick_indep "
         "for every design, order, ff permutation and state. Tie to the code: random designs run under all five pass groups plus forced linear extensions "
         "and ff permutations; every signal after every eval_comb and tick is compared with the model, each real schedule is checked by the model's topoB, "
         "and three direct oracles (schedules agree, re-run is a no-op, values equal an independent dataflow evaluation) run on the real simulator.",
         "Trusted: Lean kernel + standard axioms; Model/Rtl.lean (bit-vector signals, assignment-list blocks, nets as blocks, if/else presented as mux by the "
         "harness generator); driver table glue; generator language = Bits signals, constant slices, one level of children, nets. Scheduling passes are not "
         "modelled as algorithms; their outputs are checked and executed.",
         "Lean 4 proof (abstract scheduling theory + verified schedule checker) + differential correspondence check", "DESIGN.md §5 C01"),
 'C02': ("Lean 4 theorems: the overlap test is exact at bit level (overlap_spec, rngsOverlap_spec), the schedule checker accepts exactly the orders in which "
         "every writer of a bit precedes every reader of it (topo_iff_writer_before_reader), and Kahn's algorithm with an arbitrary tie-break is duplicate-free, "
         "edge-respecting and leaves only predecessor-closed (cyclic) leftovers (kahn_sound, kahn_leftover). Tie to the code: model deps vs _dag.all_constraints, "
         "topoB on every pass's schedule, run-time call order via sys.setprofile, SimpleSchedulePass replayed through the Kahn model, explicit U<U constraints, "
         "inversions and pure explicit cycles. PARTIAL: method-constraint BFS (_process_methods) and OpenLoopCLPass are not modelled.",
         "Trusted: as C01; explicit constraints are handled by the harness oracle (python), not by the Lean model; method constraints only exercised behaviourally by C17/C18.",
         "Lean 4 proof (verified schedule checker, Kahn with arbitrary oracle) + differential correspondence check", "DESIGN.md §5 C02"),
 'C07': ("Lean 4 theorems over the double-buffer model: the shadow buffer after the ff phase is the same for every permutation of the update_ff blocks (ff_perm, "
         "tick_ff_perm, via pairwise commutation), the ff phase leaves all current values untouched (ff_reads_pre_edge), an unassigned register holds, the last "
         "executed assignment wins (last_wins), the flip changes exactly the register bits together (edge) and shadow = value at every cycle boundary "
         "(next_eq_cur). Tie to the code: register-heavy designs under five pass groups and forced permutations of schedule_ff with probes between the ff blocks.",
         "Trusted: as C01; registers are Bits-typed in the generator (struct registers are bit ranges of one signal in the model).",
         "Lean 4 proof + differential correspondence check", "DESIGN.md §5 C07"),
 'C11': ("Lean 4 theorems about the SCC super-block model: a returned state is a fixed point of every block of the group when the watch list covers the "
         "intra-group variables (stable_is_fixed_point, with watchOKB_sound and the checked hypothesis watchOKB), the loop is total and `none` means no sweep was "
         "stable (none_means_unstable), a stable state is accepted (fixed_point_accepted), and a false loop evaluates to the value of its acyclic refinement "
         "(false_loop_eq_acyclic). Tie to the code: cyclic designs under Dynamic and Mamba with the real inner order and real watch list parsed from the generated "
         "wrapper and fed to the model; fixed-point re-run, acyclic reference, UpblkCyclicError and sweep-count oracles on the real simulator.",
         "Trusted: as C01; Kosaraju partition not modelled (its result is executed and checked); watch list read from generated source by rtlgen.parse_scc.",
         "Lean 4 proof + differential correspondence check", "DESIGN.md §5 C11"),
 'C04': ("Lean 4 theorems (Props/C04.lean) prove, for every width n and all operands, that each operator of the Bits model returns the "
         "unsigned result mod 2^n (comparisons 1 bit), that width mismatches and ints that do not fit are errors, that construction/@=/<<= "
         "accept exactly -2^(n-1)..2^n-1, and that every stored value stays in [0,2^n); the model is tied to PythonBits.py on every run by "
         "differential execution of every operator/operand form (40k cases quick, 1.2M + exhaustive n<=4 thorough) with an independent big-int oracle.",
         "Trusted: Lean kernel + {propext, Classical.choice, Quot.sound}; the hand-written model Model/Bits.lean (Python `& mask` modelled as `% 2^n`); "
         "the correspondence harness; pure-Python Bits (no mamba).",
         "Lean 4 proof over a hand-written model + differential correspondence check", "DESIGN.md §5 C04"),
 'C05': ("Lean 4 theorems (Props/C05.lean) prove for every width and value: a valid slice/bit read returns exactly the named bits, a write changes "
         "exactly those bits (Nat.testBit characterisation) and reads back, every bound outside 0<=lo<hi<=n, every step and every too-wide value is an "
         "error, concat/zext/sext/trunc/reduce_* equal their bit-level definitions and clog2 is the least k with 2^k>=N; tied to the code by "
         "differential execution incl. exhaustive bound squares for n<=4 (quick) / n<=6 (thorough).",
         "Trusted: Lean kernel + standard axioms; Model/Bits.lean slicing/helpers part; harness. clog2 float fallback (non-integer argument) not modelled.",
         "Lean 4 proof over a hand-written model + differential correspondence check", "DESIGN.md §5 C05"),
}

NOT_YET = {}

def setup_cmd(checks):
  """build exactly what the claimed checks need (their Props modules and drivers), one target at a time so
  that a broken proof of one property cannot prevent the others from being built (each check rebuilds its
  own targets anyway and reports a failing build as a broken proof obligation)"""
  mods, drvs = [], []
  for c in checks:
    src = open(os.path.join(HERE, 'harness', 'checks', c['property_id'].lower() + '.py')).read()
    m = re.search(r"^MODULE\s*=\s*(.+)$", src, re.M)
    for x in re.findall(r"'([^']+)'", m.group(1)):
      if x not in mods: mods.append(x)
    m = re.search(r"^DRIVERS\s*=\s*(.+)$", src, re.M)
    for x in re.findall(r"'([^']+)'", m.group(1)):
      if 'pv_' + x not in drvs: drvs.append('pv_' + x)
  return 'cd lean && for t in ' + ' '.join(mods + drvs) + '; do lake build $t || echo "setup: target $t failed to build"; done'

def main():
  props = [json.loads(l) for l in open(os.path.join(HERE, 'properties.jsonl'))]
  checks, na = [], []
  for p in props:
    pid = p['id']
    if pid in CHECKS:
      text, note, tech, ref = CHECKS[pid]
      checks.append({
        'property_id': pid,
        'quick_cmd': f'./vcheck {pid} quick',
        'thorough_cmd': f'./vcheck {pid} thorough',
        'evidence_file': f'evidence/{pid}.json',
        'replay_cmd_template': f'./vcheck {pid} quick --replay {{path}}',
        'engine': 'lean4-proof+correspondence',
        'level_claimed': {'category': 'proof', 'text': text, 'design_ref': ref},
        'level_note': note,
        'technique': tech,
      })
    else:
      na.append({'property_id': pid, 'reason': NOT_YET.get(pid, 'check not built yet in this round (design in DESIGN.md §5); not claimed until its Lean theorems and correspondence check exist')})
  man = {
    'version': 1,
    'setup_cmd': setup_cmd(checks),
    'hooks': {
      'guard': 'PYMTL3_VERIF',
      'enable': 'no hooks in /repo are needed so far: checks import pymtl3 from /repo (editable install in /venv) and observe public/semi-public attributes; ./vcheck exports PYMTL3_VERIF=1 for future use',
      'baseline_off_cmd': '/venv/bin/python tools/baseline_check.py',
      'source_commits': [],
      'add_only': True,
    },
    'engines': [{
      'name': 'lean4-proof+correspondence', 'path': 'lean/ + harness/',
      'serves_properties': [c['property_id'] for c in checks],
      'kind_free_text': 'Lean 4.33 theorems over hand-written executable models (lean/PymtlVerif/Props), native drivers pv_*, Python differential harness (harness/) running /repo in-process',
    }],
    'checks': checks,
    'not_applicable': na,
    'notes': 'Every check: lake build + #print axioms audit + source scan, then model-vs-implementation differential run and a direct oracle of the property. Exit 2 = infrastructure problem (never a verdict). Known findings: known_findings.json.',
  }
  with open(os.path.join(HERE, 'MANIFEST.json'), 'w') as f:
    json.dump(man, f, indent=1)
  print(f'{len(checks)} checks, {len(na)} not claimed')
main()
