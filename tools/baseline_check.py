#!/usr/bin/env python3
"""Run the repository's pinned test suite (command from /root/.vp/BASELINE.json) with the
verification guard OFF and report whether every stable-pass test of the baseline still passes."""
import json, os, subprocess, sys, tempfile, xml.etree.ElementTree as ET

def main():
    base = json.load(open('/root/.vp/BASELINE.json'))
    want = set(base['stable_pass'])
    out = tempfile.mkdtemp(prefix='pvbase_', dir='/root') if os.path.isdir('/root') else tempfile.mkdtemp()
    xml = os.path.join(out, 'junit.xml')
    cmd = base['cmd'].replace('<file>', xml)
    env = dict(os.environ)
    env.pop('PYMTL3_VERIF', None)
    # PV_REPO=<worktree>: run the same suite on a scratch worktree of /repo (used by tools/try_seed.sh)
    alt = os.environ.get('PV_REPO')
    if alt:
      cmd = cmd.replace('cd /repo', 'cd ' + alt)
      env['PYTHONPATH'] = alt
    repo = alt or '/repo'
    def untracked():
        o = subprocess.run(['git', '-C', repo, 'ls-files', '--others', '--exclude-standard'], stdout=subprocess.PIPE, text=True).stdout
        return set(o.split('\n')) - {''}
    before = untracked()
    r = subprocess.run(cmd, shell=True, env=env, stdout=subprocess.PIPE, stderr=subprocess.STDOUT, text=True)
    # the suite writes translated *.v files into its working directory: remove what it left behind
    for f in untracked() - before:
        try: os.remove(os.path.join(repo, f))
        except OSError: pass
    passed = set()
    for tc in ET.parse(xml).getroot().iter('testcase'):
        bad = any(ch.tag in ('failure', 'error', 'skipped') for ch in tc)
        if not bad:
            passed.add(f"{tc.get('classname')}::{tc.get('name')}")
    missing = sorted(want - passed)
    print(f"baseline stable_pass={len(want)} passed_now={len(passed)} missing={len(missing)}")
    for m in missing[:40]:
        print("  MISSING", m)
    import shutil; shutil.rmtree(out, ignore_errors=True)
    sys.exit(0 if not missing else 1)
main()
