#!/usr/bin/env python3
"""py2lean_bits.py — regenerate lean/PymtlVerif/Gen/BitsGen.lean from pymtl3's PythonBits.py / helpers.py.

The translation is driven by the Python AST.  Per generated definition the only configuration is its
*signature* (table SPECS below: which Lean type each Python parameter has and what the result is); the body
is compiled from the statements of the Python function:

  statements   assignment (names, `obj.attr`), augmented assignment, if/elif/else, assert, raise, return,
               try/except (no else/finally), `for x in <*args>` and `while` whose bodies cannot raise,
               module-level table construction `T = [c0, c1]; for i in range(2, N): T.append(f(T[i-1]))`
  expressions  int constants, names, `+ - * // % & | ^ ~ << >>`, unary minus, comparisons (chained), `is None`,
               and/or/not, conditional expressions, `T[i]` table reads, `int(x)`, `abs(x)`, `isinstance`,
               `issubclass`, `x.bit_length()`, `operator.index(x)`, attribute reads of Bits objects, calls of
               Bits methods / operators on Bits objects / the Bits constructor (`Bits(..)`, `bN(..)`),
               module-level helper functions (inlined)
  exceptions   compiled away statically: every `raise`, failing `assert`, and every implicit raise of an int
               operator (division by zero, negative shift count, table index out of range) is routed at
               translation time to the innermost enclosing handler that catches its class, or becomes
               `.error <Err>`.  The dynamic type of an operand (`Opnd`: Bits / int-convertible / other), of a
               slice bound (`Bound`: None / int) and of the `_next` slot is split with a Lean `match` at the
               first statement that inspects it; in each arm the attribute errors / type errors of the Python
               code are then static.

Python ints are Lean `Int`; the int operators are the functions of Gen/PyInt.lean (`pyAnd`, `pyShl`, ...).
Anything outside this subset makes the translator FAIL for that definition (exception naming the
function and the offending AST node): it never guesses.

usage: py2lean_bits.py [--src-root /repo] [--out FILE | --stdout] [--check]
exit status: 0 ok, 1 (--check) output differs from FILE, 3 some definition could not be translated.
"""
import argparse, os, re, sys

sys.path.insert(0, os.path.dirname(os.path.abspath(__file__)))
from py2lean_core import Config, Translator, Untranslatable, write_if_changed   # noqa: E402

HERE = os.path.dirname(os.path.abspath(__file__))
DEFAULT_OUT = os.path.join(os.path.dirname(HERE), 'lean', 'PymtlVerif', 'Gen', 'BitsGen.lean')
BITS_REL = os.path.join('pymtl3', 'datatypes', 'PythonBits.py')
HELPERS_REL = os.path.join('pymtl3', 'datatypes', 'helpers.py')

# ----------------------------------------------------------------------------------------------------------
# configuration: signatures only
#   (lean name, module, python function, [(python parameter, kind)], result)
#   parameter kinds: new   = the object under construction (no Lean parameter)
#                    bits  = a Bits object            (B)
#                    reg   = a Bits object + `_next`  (Reg)
#                    opnd  = dynamically typed        (Opnd)
#                    int / bool / slice (three Bounds) / bitslist (*args of Bits) / bitscls (a BitsN class, its width : Nat)
#   results: B, Reg, RegOpt (none = uncaught AttributeError), Int, Bool     (all but RegOpt inside `Except Err`)
# ----------------------------------------------------------------------------------------------------------
def _b(lean, py, extra=(), res='B'):
  return (lean, 'bits', py, [('self', 'bits')] + list(extra), res)

SPECS = [
  ('init', 'bits', '__init__', [('self', 'new'), ('nbits', 'int'), ('v', 'opnd'), ('trunc_int', 'bool')], 'B'),
  ('ilshift', 'bits', '__ilshift__', [('self', 'reg'), ('v', 'opnd')], 'Reg'),
  ('flip', 'bits', '_flip', [('self', 'reg')], 'RegOpt'),
  _b('imatmul', '__imatmul__', [('v', 'opnd')]),
  _b('getitem_slice', '__getitem__', [('idx', 'slice')]),
  _b('getitem_int', '__getitem__', [('idx', 'int')]),
  _b('setitem_slice', '__setitem__', [('idx', 'slice'), ('v', 'opnd')]),
  _b('setitem_int', '__setitem__', [('idx', 'int'), ('v', 'opnd')]),
] + [_b(l, p, [('other', 'opnd')]) for l, p in [
  ('add', '__add__'), ('radd', '__radd__'), ('sub', '__sub__'), ('rsub', '__rsub__'),
  ('mul', '__mul__'), ('rmul', '__rmul__'), ('and_', '__and__'), ('rand', '__rand__'),
  ('or_', '__or__'), ('ror', '__ror__'), ('xor_', '__xor__'), ('rxor', '__rxor__'),
  ('floordiv', '__floordiv__'), ('rfloordiv', '__rfloordiv__'), ('mod_', '__mod__'), ('rmod', '__rmod__'),
  ('lshift', '__lshift__'), ('rshift', '__rshift__'),
  ('eq', '__eq__'), ('ne', '__ne__'), ('lt', '__lt__'), ('le', '__le__'), ('gt', '__gt__'), ('ge', '__ge__')]] + [
  _b('invert', '__invert__'),
  _b('bool_', '__bool__', res='Bool'),
  _b('dunder_int', '__int__', res='Int'),
  _b('int_', 'int', res='Int'),
  _b('uint', 'uint', res='Int'),
  _b('index', '__index__', res='Int'),
  ('concat', 'helpers', 'concat', [('args', 'bitslist')], 'B'),
  ('trunc', 'helpers', 'trunc', [('value', 'bits'), ('new_width', 'int')], 'B'),
  ('zext', 'helpers', 'zext', [('value', 'bits'), ('new_width', 'int')], 'B'),
  ('sext', 'helpers', 'sext', [('value', 'bits'), ('new_width', 'int')], 'B'),
  ('truncT', 'helpers', 'trunc', [('value', 'bits'), ('new_width', 'bitscls')], 'B'),
  ('zextT', 'helpers', 'zext', [('value', 'bits'), ('new_width', 'bitscls')], 'B'),
  ('sextT', 'helpers', 'sext', [('value', 'bits'), ('new_width', 'bitscls')], 'B'),
  ('clog2', 'helpers', 'clog2', [('N', 'int')], 'Int'),
  ('reduce_and', 'helpers', 'reduce_and', [('value', 'bits')], 'B'),
  ('reduce_or', 'helpers', 'reduce_or', [('value', 'bits')], 'B'),
  ('reduce_xor', 'helpers', 'reduce_xor', [('value', 'bits')], 'B'),
]
TABLES = {'_upper': 'upperTab', '_lower': 'lowerTab'}      # module-level tables of PythonBits.py -> Lean names
# `bN( v, .. )` in helpers.py is the class BitsN of bits_import.py (template: `super().__init__( N, v, trunc_int )`)
BITS_ALIAS = re.compile(r'^b(\d+)$')


HEADER = ('/-\nGENERATED by tools/py2lean_bits.py from pymtl3/datatypes/PythonBits.py and pymtl3/datatypes/helpers.py.\n'
          'Do not edit: the file is regenerated from the current Python source on every check of C04 / C05;\n'
          'Props/C04Gen.lean proves every definition below equal to its hand-written counterpart in Model/Bits.lean.\n-/\n'
          'import PymtlVerif.Gen.PyInt\nset_option linter.unusedVariables false\nset_option linter.constructorNameAsVariable false\n\n'
          'namespace PV.BitsGen\nopen PV.Bits (B Opnd Err Reg Bound)\nopen PV.PyInt\n\n')

def where(module, py):
  return 'PythonBits.py, `Bits.' + py + '`' if module == 'bits' else 'helpers.py, `' + py + '`'

CONFIG = Config(sources=[('bits', BITS_REL), ('helpers', HELPERS_REL)], specs=SPECS, header=HEADER,
                footer='\nend PV.BitsGen\n', where=where, tables=TABLES, bits_alias=BITS_ALIAS)

def generate(src_root):
  t = Translator(src_root, CONFIG)
  text = t.run()
  return text, t.failures

def pregen(src_root=None, out=DEFAULT_OUT):
  """hook of harness/checks/c04.py and c05.py (`pregen(ck)`): regenerate Gen/BitsGen.lean from the pymtl3 source the
  correspondence check executes; raises if some definition cannot be translated (-> broken obligation)"""
  if src_root is None:
    import pymtl3
    src_root = os.path.dirname(os.path.dirname(os.path.abspath(pymtl3.__file__)))
  text, failures = generate(src_root)
  write_if_changed(out, text)
  if failures:
    raise RuntimeError('py2lean_bits could not translate ' + ', '.join(n for n, _ in failures) + ': ' +
                       ' | '.join(m for _, m in failures))
  ndefs = len(re.findall(r'^def ', text, re.M))
  return [f'Gen/BitsGen.lean was regenerated before the build from {os.path.join(src_root, BITS_REL)} and '
          f'{os.path.join(src_root, HELPERS_REL)} by tools/py2lean_bits.py ({ndefs} definitions)']

def main():
  ap = argparse.ArgumentParser()
  ap.add_argument('--src-root', default='/repo', help='root of the pymtl3 checkout (contains pymtl3/datatypes/)')
  ap.add_argument('--out', default=DEFAULT_OUT)
  ap.add_argument('--stdout', action='store_true')
  ap.add_argument('--check', action='store_true', help='do not write; exit 1 if --out differs from what would be generated')
  a = ap.parse_args()
  text, failures = generate(a.src_root)
  for name, msg in failures: print(f'py2lean_bits: FAILED {name}: {msg}', file=sys.stderr)
  if a.stdout: sys.stdout.write(text)
  elif a.check:
    try: same = open(a.out).read() == text
    except OSError: same = False
    if not same:
      print(f'py2lean_bits: {a.out} is not what the current source generates', file=sys.stderr)
      sys.exit(1)
  else:
    changed = write_if_changed(a.out, text)
    print(f'py2lean_bits: {a.out} {"rewritten" if changed else "unchanged"}')
  sys.exit(3 if failures else 0)

if __name__ == '__main__':
  main()
