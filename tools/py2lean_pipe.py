#!/usr/bin/env python3
"""py2lean_pipe.py — regenerate lean/PymtlVerif/Gen/PipeGen.lean from the SOURCE of the five-stage tutorial processor:

  examples/ex03_proc/ProcCtrlRTL.py   class ProcCtrl      -> namespace PV.PipeGen.Ctrl
  examples/ex03_proc/ProcDpathRTL.py  class ProcDpath     -> namespace PV.PipeGen.Dpath   (structure: instances + connections)
  examples/ex03_proc/MiscRTL.py       DropUnitRTL, ImmGenRTL, AluRTL -> PV.PipeGen.DropUnit / ImmGen / Alu
  examples/ex03_proc/TinyRV0InstRTL.py DecodeInstType (+ the field slices / instruction-type / CSR constants)
  pymtl3/stdlib/basic_rtl/arithmetics.py Mux, Adder, Incrementer;  registers.py RegEnRst   (as instantiated by ProcDpath)
  examples/ex03_proc/ProcRTL.py       the connections between ctrl, dpath and the drop unit -> PV.PipeGen.Top

What is rendered (Python `ast`; anything else makes the translator FAIL: exit status 3 / RuntimeError from pregen):
  * per component class one `structure Sig`: one field per declared signal (`InPort/OutPort/Wire`, interface fields
    en/rdy/ret of GetIfcRTL / GiveIfcRTL, the implicit `reset`) and one per net of sub-component ports that has no name in the
    parent; 1-bit signals are `Bool`, wider ones `Nat`;
  * per `@update` block and per signal it writes: `def <block>_<signal> (v : Sig) : T` — the value the block assigns, as a
    function of a valuation `v` of the component's signals.  Statements are executed symbolically in order: `@=`, local
    aliases (`inst = s.x.out`), `if / elif / else` (merged into `if c then a else b`; a signal assigned in one branch only
    keeps its earlier value of the same block, and it is an error if there is none).  A read of a signal the block has already
    assigned for the last time reads the valuation (`v.sig`); a read between two assignments reads the symbolic value.
  * per `@update_ff` block and per register it writes: `def <block>_<signal>_next (v : Sig) : T` (`<<=`; default = old value);
  * expressions: `&`, `|`, `~` (Bool: `&&`, `||`, `!`; equal-width words: `&&&`, `|||`), `==`, `!=`, `<`, `>`, `+` (mod 2^w),
    `<<` (mod 2^w), `>>`, constant slices `x[a:b]` / `x[NAME]` (`x / 2^a % 2^(b-a)`), `concat`, `zext`, `sext`, `bN(k)`,
    indexing a port list by a signal (`s.in_[s.sel]`, an if-chain; out of range renders 0 where Python raises IndexError);
  * constants are resolved statically from the module's own assignments (`bm_imm = b2(1)`, `byp_x = 1`, `NOP = b8(0)`,
    `RS1 = slice(15,20)`, `SNOOP = 0`, `c_reset_vector = 0x200`, `XcelMsgType.READ`), constructor parameters from the
    instantiation (`Mux( Bits32, 4 )`, `Incrementer( Bits32, amount=4 )`, `RegEnRst( Bits32, reset_value=c_reset_vector-4 )`);
  * structure: per instance of a translated class `def <inst>_<port> (v : Sig)` = the class's block applied to the nets the
    instance's ports are connected to (`//=`); per connection of a port to a SLICE of a signal a `def` of that port; per
    connection between two named signals a conjunct of `def wires_ok (v : Sig) : Bool`.
  RegisterFile is kept opaque (its ports get nets / fields, its behaviour is not rendered).

usage: py2lean_pipe.py [--src-root ROOT] [--out FILE | --stdout] [--check]     (ROOT defaults to $PV_REPO or /repo)
exit status: 0 ok, 1 --check mismatch, 3 something could not be translated
"""
import argparse, ast, os, re, sys

HERE = os.path.dirname(os.path.abspath(__file__))
DEFAULT_OUT = os.path.join(os.path.dirname(HERE), 'lean', 'PymtlVerif', 'Gen', 'PipeGen.lean')

EX = os.path.join('examples', 'ex03_proc')
FILES = {
  'ctrl': os.path.join(EX, 'ProcCtrlRTL.py'), 'dpath': os.path.join(EX, 'ProcDpathRTL.py'), 'misc': os.path.join(EX, 'MiscRTL.py'),
  'inst': os.path.join(EX, 'TinyRV0InstRTL.py'), 'top': os.path.join(EX, 'ProcRTL.py'),
  'arith': os.path.join('pymtl3', 'stdlib', 'basic_rtl', 'arithmetics.py'),
  'regs': os.path.join('pymtl3', 'stdlib', 'basic_rtl', 'registers.py'),
  'xcelmsg': os.path.join('pymtl3', 'stdlib', 'ifcs', 'XcelMsg.py'),
}
# class name -> (file key, Lean namespace stem); where each class is looked up is fixed here (static resolution of imports)
CLASSES = {
  'ProcCtrl': ('ctrl', 'Ctrl'), 'ProcDpath': ('dpath', 'Dpath'), 'DropUnitRTL': ('misc', 'DropUnit'), 'ImmGenRTL': ('misc', 'ImmGen'),
  'AluRTL': ('misc', 'Alu'), 'DecodeInstType': ('inst', 'Decode'), 'Mux': ('arith', 'Mux'), 'Adder': ('arith', 'Adder'),
  'Incrementer': ('arith', 'Incrementer'), 'RegEnRst': ('regs', 'RegEnRst'),
}
OPAQUE = {'RegisterFile': {'raddr': ('list', 'in'), 'rdata': ('list', 'out'), 'waddr': ('list', 'in'), 'wdata': ('list', 'in'),
                           'wen': ('list', 'in')}}
IFCS = {'GetIfcRTL': {'en': 'out', 'rdy': 'in', 'ret': 'in'}, 'GiveIfcRTL': {'en': 'in', 'rdy': 'out', 'ret': 'out'}}

class Fail(Exception):
  pass

def src(node):
  try: return ast.unparse(node)
  except Exception: return '<?>'

def fail(node, msg):
  raise Fail(f'line {getattr(node, "lineno", "?")}: {msg}: `{src(node)[:120]}`')

def clog2(n):
  k = 0
  while (1 << k) < n: k += 1
  return k

# ----------------------------------------------------------------------------------------------- static values
# ('bits', w, v) a Bits constant; ('int', v); ('slice', lo, hi); ('type', w) a BitsN type; ('cls', name) namespace of constants

def static_env_of_module(tree, extra=None):
  """module-level constants: NAME = bN(k) | int expr | slice(a, b); classes holding int attributes"""
  env = dict(extra or {})
  for st in tree.body:
    if isinstance(st, ast.Assign) and len(st.targets) == 1 and isinstance(st.targets[0], ast.Name):
      try: env[st.targets[0].id] = static_eval(st.value, env)
      except Fail: pass
    elif isinstance(st, ast.ClassDef):
      attrs = {}
      for s2 in st.body:
        if isinstance(s2, ast.Assign) and len(s2.targets) == 1 and isinstance(s2.targets[0], ast.Name):
          try: attrs[s2.targets[0].id] = static_eval(s2.value, {})
          except Fail: pass
      if attrs and st.name not in env: env[st.name] = ('cls', attrs)
  return env

def static_eval(node, env):
  if isinstance(node, ast.Constant) and isinstance(node.value, bool): fail(node, 'bool constant')
  if isinstance(node, ast.Constant) and isinstance(node.value, int): return ('int', node.value)
  if isinstance(node, ast.Name):
    m = re.fullmatch(r'Bits(\d+)', node.id)
    if m: return ('type', int(m.group(1)))
    if node.id in env: return env[node.id]
    fail(node, 'unknown name in a static expression')
  if isinstance(node, ast.Attribute) and isinstance(node.value, ast.Name) and env.get(node.value.id, ('', ))[0] == 'cls':
    attrs = env[node.value.id][1]
    if node.attr in attrs: return attrs[node.attr]
    fail(node, 'unknown class attribute')
  if isinstance(node, ast.BinOp) and isinstance(node.op, (ast.Add, ast.Sub, ast.Mult, ast.RShift, ast.LShift)):
    a, b = static_eval(node.left, env), static_eval(node.right, env)
    if a[0] == 'int' and b[0] == 'int':
      f = {ast.Add: lambda x, y: x + y, ast.Sub: lambda x, y: x - y, ast.Mult: lambda x, y: x * y,
           ast.RShift: lambda x, y: x >> y, ast.LShift: lambda x, y: x << y}[type(node.op)]
      return ('int', f(a[1], b[1]))
    fail(node, 'static arithmetic on non-integers')
  if isinstance(node, ast.Call) and isinstance(node.func, ast.Name) and not node.keywords:
    f = node.func.id
    args = [static_eval(a, env) for a in node.args]
    m = re.fullmatch(r'b(\d+)|Bits(\d+)', f)
    if m and len(args) == 1 and args[0][0] == 'int':
      w = int(m.group(1) or m.group(2))
      if not 0 <= args[0][1] < (1 << w): fail(node, 'constant does not fit')
      return ('bits', w, args[0][1])
    if f == 'slice' and len(args) == 2 and all(a[0] == 'int' for a in args): return ('slice', args[0][1], args[1][1])
    if f == 'clog2' and len(args) == 1 and args[0][0] == 'int': return ('int', clog2(args[0][1]))
    if f in ('max', 'min') and args and all(a[0] == 'int' for a in args): return ('int', (max if f == 'max' else min)(a[1] for a in args))
    if f == 'mk_bits' and len(args) == 1 and args[0][0] == 'int': return ('type', args[0][1])
  fail(node, 'not a static value')

def width_of(val, node):
  """width of a signal declared with this static argument"""
  if val is None: return 1
  if val[0] == 'type': return val[1]
  if val[0] == 'int' and val[1] > 0: return val[1]
  fail(node, 'signal type is not BitsN / a positive integer')

# ----------------------------------------------------------------------------------------------- component model

class Comp:
  def __init__(s, cls, ns, params):
    s.cls, s.ns, s.params = cls, ns, params
    s.sigs = {}        # field name -> width  (declared signals, in order)
    s.lists = {}       # list name -> (n, width, direction)
    s.dirs = {}        # field -> 'in' | 'out' | 'wire'
    s.insts = {}       # instance name -> Comp | ('opaque', clsname)
    s.conns = []       # (endpointA, endpointB, node)   endpoint = ('sig', field) | ('slice', field, lo, hi)
    s.blocks = []      # (name, kind, [(field, code, width)])
    s.extra_fields = {}  # instance-port nets without a parent name: field -> width
    s.defs = []        # rendered text of structure definitions (instances, port slices)
    s.rep = {}         # endpoint field -> representative field

def mangle(parts):
  return '_'.join(parts)

class Translator:
  def __init__(s, root):
    s.root = root
    s.trees = {}
    s.comps = {}       # Lean namespace -> Comp, in dependency order
    s.failures = []
    for k, rel in FILES.items():
      with open(os.path.join(root, rel)) as f: s.trees[k] = ast.parse(f.read())
    inst_env = static_env_of_module(s.trees['inst'])
    xenv = static_env_of_module(s.trees['xcelmsg'])
    s.modenv = {
      'inst': inst_env,
      'misc': static_env_of_module(s.trees['misc'], inst_env),               # from .TinyRV0InstRTL import *
      'ctrl': static_env_of_module(s.trees['ctrl'], {**inst_env, 'XcelMsgType': xenv['XcelMsgType']}),
      'dpath': static_env_of_module(s.trees['dpath'], {k: inst_env[k] for k in ('OPCODE', 'RD', 'RS1', 'RS2', 'SHAMT') if k in inst_env}),
      'arith': {}, 'regs': {}, 'top': {},
    }

  def find_class(s, key, name):
    for st in s.trees[key].body:
      if isinstance(st, ast.ClassDef) and st.name == name: return st
    raise Fail(f'class {name} not found in {FILES[key]}')

  # ------------------------------------------------------------------ elaboration of one class with given parameters
  def elaborate(s, clsname, args, kwargs, node):
    if clsname not in CLASSES: fail(node, f'component class {clsname} is outside the translated set')
    key, stem = CLASSES[clsname]
    cdef = s.find_class(key, clsname)
    con = next((f for f in cdef.body if isinstance(f, ast.FunctionDef) and f.name == 'construct'), None)
    if con is None: fail(cdef, 'no construct')
    pnames = [a.arg for a in con.args.args][1:]
    defaults = con.args.defaults
    env = dict(s.modenv[key])
    bound = {}
    dstart = len(pnames) - len(defaults)
    for k, pn in enumerate(pnames):
      if k < len(args): bound[pn] = args[k]
      elif pn in kwargs: bound[pn] = kwargs[pn]
      elif k >= dstart: bound[pn] = static_eval(defaults[k - dstart], env)
      else: fail(node, f'missing constructor argument {pn}')
    for kw in kwargs:
      if kw not in pnames: fail(node, f'unknown constructor keyword {kw}')
    env.update(bound)
    def pstr(v): return {'type': lambda: str(v[1]), 'int': lambda: str(v[1]).replace('-', 'm'), 'bits': lambda: f'{v[2]}'}[v[0]]()
    ns = stem + ''.join('_' + pstr(bound[p]) for p in pnames)
    if ns in s.comps: return s.comps[ns]
    c = Comp(clsname, ns, bound)
    c.sigs['reset'] = 1; c.dirs['reset'] = 'in'
    s.run_construct(c, con, env)
    s.comps[ns] = c
    return c

  def decl(s, c, target, call, env):
    """s.<name> = InPort(..)/OutPort(..)/Wire(..) | [InPort(T) for _ in range(n)] | Ifc(T) | Comp(args)"""
    if isinstance(call, ast.ListComp):
      g = call.generators
      if len(g) == 1 and not g[0].ifs and isinstance(g[0].iter, ast.Call) and isinstance(g[0].iter.func, ast.Name) and g[0].iter.func.id == 'range' \
         and len(g[0].iter.args) == 1 and isinstance(call.elt, ast.Call) and isinstance(call.elt.func, ast.Name) and call.elt.func.id in ('InPort', 'OutPort', 'Wire'):
        n = static_eval(g[0].iter.args[0], env)
        if n[0] != 'int': fail(call, 'list length is not static')
        w = width_of(static_eval(call.elt.args[0], env) if call.elt.args else None, call)
        d = {'InPort': 'in', 'OutPort': 'out', 'Wire': 'wire'}[call.elt.func.id]
        c.lists[target] = (n[1], w, d)
        for k in range(n[1]): c.sigs[f'{target}_{k}'] = w; c.dirs[f'{target}_{k}'] = d
        return
      fail(call, 'list of signals outside the subset')
    if not (isinstance(call, ast.Call) and isinstance(call.func, ast.Name)): fail(call, 'declaration outside the subset')
    f = call.func.id
    if f in ('InPort', 'OutPort', 'Wire'):
      if call.keywords or len(call.args) > 1: fail(call, 'signal declaration with unexpected arguments')
      c.sigs[target] = width_of(static_eval(call.args[0], env) if call.args else None, call)
      c.dirs[target] = {'InPort': 'in', 'OutPort': 'out', 'Wire': 'wire'}[f]
    elif f in IFCS:
      w = width_of(static_eval(call.args[0], env), call)
      for fld, d in IFCS[f].items():
        c.sigs[f'{target}_{fld}'] = w if fld == 'ret' else 1; c.dirs[f'{target}_{fld}'] = d
    elif f in OPAQUE:
      c.insts[target] = ('opaque', f, call)
    else:
      args = [static_eval(a, env) for a in call.args]
      kwargs = {k.arg: static_eval(k.value, env) for k in call.keywords}
      c.insts[target] = s.elaborate(f, args, kwargs, call)

  def endpoint(s, c, node, env, alias):
    """an endpoint of `//=`: ('sig', field) or ('slice', field, lo, hi)"""
    if isinstance(node, ast.Subscript):
      base = s.endpoint(c, node.value, env, alias)
      if base[0] == 'list':
        k = static_eval(node.slice, env)
        if k[0] != 'int' or not 0 <= k[1] < base[2]: fail(node, 'port list index is not a static in-range integer')
        return ('sig', f'{base[1]}_{k[1]}')
      if base[0] == 'sig':
        lo, hi = s.slice_bounds(node.slice, env)
        return ('slice', base[1], lo, hi)
      fail(node, 'slice of a slice')
    parts = []
    n = node
    while isinstance(n, ast.Attribute): parts.append(n.attr); n = n.value
    if not isinstance(n, ast.Name): fail(node, 'endpoint outside the subset')
    parts.reverse()
    if n.id == 's': pass
    elif n.id in alias: parts = [alias[n.id]] + parts
    else: fail(node, 'endpoint is not rooted at `s` or an instance alias')
    if not parts: fail(node, 'bare component as endpoint')
    head = parts[0]
    if head in c.insts and len(parts) >= 2:
      inst = c.insts[head]
      pname = parts[1]
      if isinstance(inst, tuple):                        # opaque instance
        ports = OPAQUE[inst[1]]
        if pname not in ports or len(parts) != 2: fail(node, 'unknown port of an opaque component')
        if ports[pname][0] == 'list': return ('list', f'{head}_{pname}', 64)
        return ('sig', f'{head}_{pname}')
      if pname in inst.lists and len(parts) == 2: return ('list', f'{head}_{pname}', inst.lists[pname][0])
      fld = mangle(parts[1:])
      if fld in inst.sigs: return ('sig', f'{head}_{fld}')
      fail(node, 'unknown port of a sub-component')
    fld = mangle(parts)
    if fld in c.sigs: return ('sig', fld)
    if len(parts) == 1 and head in c.lists: return ('list', head, c.lists[head][0])
    fail(node, 'unknown signal')

  def slice_bounds(s, sl, env):
    if isinstance(sl, ast.Slice):
      if sl.step is not None or sl.lower is None or sl.upper is None: fail(sl, 'slice outside the subset')
      lo, hi = static_eval(sl.lower, env), static_eval(sl.upper, env)
      if lo[0] != 'int' or hi[0] != 'int': fail(sl, 'slice bounds are not static')
      lo, hi = lo[1], hi[1]
    else:
      v = static_eval(sl, env)
      if v[0] != 'slice': fail(sl, 'index is not a static slice')
      lo, hi = v[1], v[2]
    if not 0 <= lo < hi: fail(sl, 'empty or negative slice')
    return lo, hi

  def run_construct(s, c, con, env):
    alias = {}
    pending = []
    body = list(con.body)
    for st in body:
      if isinstance(st, ast.Expr) and isinstance(st.value, ast.Constant) and isinstance(st.value.value, str): continue
      if isinstance(st, ast.Assert): continue
      if isinstance(st, ast.FunctionDef):
        decs = [d.id for d in st.decorator_list if isinstance(d, ast.Name)]
        if decs == ['update']: pending.append((st, 'comb'))
        elif decs == ['update_ff']: pending.append((st, 'ff'))
        else: fail(st, 'function in construct that is neither @update nor @update_ff')
        continue
      if isinstance(st, ast.Assign):
        tg = st.targets
        # s.x = <decl> | s.x = m = <decl> | name = <static>
        names = []
        for t in tg:
          if isinstance(t, ast.Attribute) and isinstance(t.value, ast.Name) and t.value.id == 's': names.append(('s', t.attr))
          elif isinstance(t, ast.Name): names.append(('n', t.id))
          else: fail(st, 'assignment target outside the subset')
        sname = [n for k, n in names if k == 's']
        lname = [n for k, n in names if k == 'n']
        if sname:
          if len(sname) != 1: fail(st, 'two component attributes in one assignment')
          s.decl(c, sname[0], st.value, env)
          for ln in lname: alias[ln] = sname[0]
        else:
          for ln in lname: env[ln] = static_eval(st.value, env)
        continue
      if isinstance(st, ast.AugAssign) and isinstance(st.op, ast.FloorDiv):
        a = s.endpoint(c, st.target, env, alias); b = s.endpoint(c, st.value, env, alias)
        if a[0] == 'list' or b[0] == 'list': fail(st, 'connection of whole port lists')
        c.conns.append((a, b, st))
        continue
      fail(st, 'statement in construct outside the subset')
    s.structure(c)
    for fn, kind in pending: s.block(c, fn, env, kind)     # constants / nets of the whole construct are known now

  # ------------------------------------------------------------------ expressions
  def sig_width(s, c, fld):
    if fld in c.sigs: return c.sigs[fld]
    head = fld.split('_')[0]
    raise Fail(f'no width for {fld}')

  def resolve_sig(s, c, node, env, local):
    """`s.a`, `s.inst.port`, `s.ifc.fld` as a field name, or None"""
    parts = []
    n = node
    while isinstance(n, ast.Attribute): parts.append(n.attr); n = n.value
    if not (isinstance(n, ast.Name) and n.id == 's'): return None
    parts.reverse()
    if not parts: return None
    head = parts[0]
    if head in c.insts and len(parts) >= 2:
      inst = c.insts[head]
      if isinstance(inst, tuple): fail(node, 'read of an opaque component port inside a block')
      fld = mangle(parts[1:])
      if fld in inst.sigs: return ('inst', head, fld, inst.sigs[fld])
      if len(parts) == 2 and parts[1] in inst.lists: return ('instlist', head, parts[1])
      fail(node, 'unknown port of a sub-component')
    fld = mangle(parts)
    if fld in c.sigs: return ('sig', fld, c.sigs[fld])
    if len(parts) == 1 and head in c.lists: return ('list', head)
    fail(node, 'unknown signal')

  def const_code(s, val, node):
    if val[0] == 'bits': return (('true' if val[2] else 'false'), ('b',)) if val[1] == 1 else (str(val[2]), ('n', val[1]))
    if val[0] == 'int':
      if val[1] < 0: fail(node, 'negative integer constant')
      return (str(val[1]), ('i', val[1]))
    fail(node, 'constant of this kind in an expression')

  def to_bool(s, code, kind, node):
    if kind[0] == 'b': return code
    if kind[0] == 'n' and kind[1] == 1: return f'({code} == 1)'
    if kind[0] == 'i' and kind[1] in (0, 1): return 'true' if kind[1] else 'false'
    fail(node, 'a 1-bit value is expected')

  def to_nat(s, code, kind, node, width=None):
    """(code, width) as a Nat of known width"""
    if kind[0] == 'b': return ({'true': '1', 'false': '0'}.get(code, f'(b2n {code})')), 1
    if kind[0] == 'n': return code, kind[1]
    if kind[0] == 'i':
      if width is None: fail(node, 'integer constant where a sized value is needed')
      if not 0 <= kind[1] < (1 << width): fail(node, 'integer constant does not fit')
      return code, width
    fail(node, 'not a value')

  def expr(s, c, node, env, st):
    """-> (lean code, kind); kind = ('b',) | ('n', width) | ('i', value)"""
    local, cur, final_ok = st['local'], st['cur'], st['final_ok']
    if isinstance(node, ast.Constant):
      if isinstance(node.value, bool) or not isinstance(node.value, int): fail(node, 'constant outside the subset')
      return s.const_code(('int', node.value), node)
    if isinstance(node, ast.Name):
      if node.id in local: return local[node.id]
      if node.id in env: return s.const_code(env[node.id], node)
      fail(node, 'unknown name')
    if isinstance(node, ast.Attribute):
      if isinstance(node.value, ast.Name) and node.value.id in env and env[node.value.id][0] == 'cls':
        return s.const_code(static_eval(node, env), node)
      r = s.resolve_sig(c, node, env, local)
      if r is None: fail(node, 'attribute outside the subset')
      if r[0] == 'sig': return s.read(c, r[1], st, node)
      if r[0] == 'inst':
        fld = c.rep.get(f'{r[1]}_{r[2]}', f'{r[1]}_{r[2]}')
        st['reads'].add(fld)
        return (f'v.{fld}', ('b',) if r[3] == 1 else ('n', r[3]))
      fail(node, 'port list used as a value')
    if isinstance(node, ast.Subscript):
      r = s.resolve_sig(c, node.value, env, local) if isinstance(node.value, ast.Attribute) else None
      if r is not None and r[0] == 'list':
        n, w, _ = c.lists[r[1]]
        elems = [s.read(c, f'{r[1]}_{k}', st, node) for k in range(n)]
        icode, ikind = s.expr(c, node.slice, env, st)
        if ikind[0] == 'i':
          if not 0 <= ikind[1] < n: fail(node, 'static index out of range')
          return elems[ikind[1]]
        inat, _ = s.to_nat(icode, ikind, node)
        zero = 'false' if w == 1 else '0'
        code = zero
        for k in reversed(range(n)): code = f'if {inat} = {k} then {elems[k][0]} else {code}'
        return (f'({code})', ('b',) if w == 1 else ('n', w))
      bcode, bkind = s.expr(c, node.value, env, st)
      if bkind[0] != 'n': fail(node, 'slice of a value that is not a word')
      lo, hi = s.slice_bounds(node.slice, env)
      if hi > bkind[1]: fail(node, 'slice beyond the width')
      return (f'({bcode} / 2^{lo} % 2^{hi - lo})', ('n', hi - lo))
    if isinstance(node, ast.UnaryOp) and isinstance(node.op, ast.Invert):
      code, kind = s.expr(c, node.operand, env, st)
      if kind[0] == 'b' or (kind[0] == 'n' and kind[1] == 1): return (f'(!{s.to_bool(code, kind, node)})', ('b',))
      fail(node, '~ on a word')
    if isinstance(node, ast.BinOp):
      a, ak = s.expr(c, node.left, env, st); b, bk = s.expr(c, node.right, env, st)
      op = type(node.op)
      one = lambda k: k[0] == 'b' or (k[0] == 'n' and k[1] == 1)
      if op in (ast.BitAnd, ast.BitOr):
        if one(ak) and one(bk):
          return (f'({s.to_bool(a, ak, node)} {"&&" if op is ast.BitAnd else "||"} {s.to_bool(b, bk, node)})', ('b',))
        if ak[0] == 'n' and bk[0] == 'n' and ak[1] == bk[1]:
          return (f'({a} {"&&&" if op is ast.BitAnd else "|||"} {b})', ak)
        fail(node, 'bitwise operator on operands of different widths')
      if op is ast.Add:
        if ak[0] == 'n' and ak[1] > 1:
          bn, bw = s.to_nat(b, bk, node, ak[1])
          if bw != ak[1]: fail(node, '+ on different widths')
          return (f'(({a} + {bn}) % 2^{ak[1]})', ak)
        fail(node, '+ outside the subset')
      if op in (ast.LShift, ast.RShift):
        if ak[0] == 'n' and ak[1] > 1 and bk[0] == 'n':
          return ((f'(({a} <<< {b}) % 2^{ak[1]})' if op is ast.LShift else f'({a} >>> {b})'), ak)
        fail(node, 'shift outside the subset')
      fail(node, 'binary operator outside the subset')
    if isinstance(node, ast.Compare) and len(node.ops) == 1:
      a, ak = s.expr(c, node.left, env, st); b, bk = s.expr(c, node.comparators[0], env, st)
      op = type(node.ops[0])
      sym = {ast.Eq: '==', ast.NotEq: '!=', ast.Lt: '<', ast.Gt: '>', ast.LtE: '<=', ast.GtE: '>='}.get(op)
      if sym is None: fail(node, 'comparison outside the subset')
      if ak[0] == 'b' or bk[0] == 'b':
        if sym not in ('==', '!='): fail(node, 'ordering of 1-bit values')
        return (f'({s.to_bool(a, ak, node)} {sym} {s.to_bool(b, bk, node)})', ('b',))
      if ak[0] == 'i' and bk[0] == 'i': fail(node, 'comparison of two constants')
      w = ak[1] if ak[0] == 'n' else bk[1]
      an, aw = s.to_nat(a, ak, node, w); bn, bw = s.to_nat(b, bk, node, w)
      if aw != bw: fail(node, 'comparison of different widths')
      if sym in ('==', '!='): return (f'({an} {sym} {bn})', ('b',))
      return (f'(decide ({an} {sym} {bn}))', ('b',))
    if isinstance(node, ast.Call) and isinstance(node.func, ast.Name) and not node.keywords:
      f = node.func.id
      if re.fullmatch(r'b\d+|Bits\d+', f): return s.const_code(static_eval(node, env), node)
      if f == 'concat':
        parts = [s.to_nat(*s.expr(c, a, env, st), a) for a in node.args]
        code, w = parts[0]
        for pc, pw in parts[1:]:
          code = f'({code} * 2^{pw} + {pc})'; w += pw
        return (code, ('n', w))
      if f in ('zext', 'sext') and len(node.args) == 2:
        n = static_eval(node.args[1], env)
        if n[0] != 'int': fail(node, 'extension width is not static')
        code, w = s.to_nat(*s.expr(c, node.args[0], env, st), node)
        if n[1] < w: fail(node, 'extension to a smaller width')
        return (code if f == 'zext' else f'(sext {w} {n[1]} {code})', ('n', n[1]))
    fail(node, 'expression outside the subset')

  def read(s, c, fld, st, node):
    w = c.sigs[fld]
    kind = ('b',) if w == 1 else ('n', w)
    if fld in st['last']:                       # written by this block
      if st['pos'] > st['last'][fld]:           # after its last assignment: the settled value
        st['reads'].add(fld)
        return (f'v.{fld}', kind)
      if fld in st['cur']: return (st['cur'][fld], kind)
      if st['kind'] == 'ff':
        return (f'v.{fld}', kind)
      fail(node, f'{fld} is read before the block assigns it')
    st['reads'].add(fld)
    return (f'v.{fld}', kind)

  # ------------------------------------------------------------------ blocks
  def assigned(s, c, stmts, env):
    out = []
    for stn in stmts:
      if isinstance(stn, ast.AugAssign) and isinstance(stn.op, (ast.MatMult, ast.LShift)):
        r = s.resolve_sig(c, stn.target, env, {})
        if r is None or r[0] != 'sig': fail(stn, 'assignment target is not a signal of this component')
        out.append(r[1])
      elif isinstance(stn, ast.If):
        out += s.assigned(c, stn.body, env) + s.assigned(c, stn.orelse, env)
    return out

  def block(s, c, fn, env, kind):
    if fn.args.args: fail(fn, 'update block with arguments')
    body = [x for x in fn.body if not (isinstance(x, ast.Expr) and isinstance(x.value, ast.Constant))]
    last = {}
    for k, stn in enumerate(body):
      for f in s.assigned(c, [stn], env): last[f] = k
    st = {'local': {}, 'cur': {}, 'last': last, 'pos': 0, 'kind': kind, 'reads': set(), 'final_ok': True}
    order = []
    for k, stn in enumerate(body):
      st['pos'] = k
      s.exec_stmt(c, stn, env, st, kind, order)
    outs = []
    for f in order:
      w = c.sigs[f]
      outs.append((f, st['cur'][f], w))
    c.blocks.append((fn.name, kind, outs))

  def exec_stmt(s, c, stn, env, st, kind, order):
    if isinstance(stn, ast.Assign) and len(stn.targets) == 1 and isinstance(stn.targets[0], ast.Name):
      st['local'][stn.targets[0].id] = s.expr(c, stn.value, env, st)
      return
    if isinstance(stn, ast.AugAssign) and isinstance(stn.op, (ast.MatMult, ast.LShift)):
      if (kind == 'comb') != isinstance(stn.op, ast.MatMult): fail(stn, '@= in update_ff or <<= in update')
      r = s.resolve_sig(c, stn.target, env, st['local'])
      fld = r[1]; w = c.sigs[fld]
      code, k = s.expr(c, stn.value, env, st)
      if w == 1: val = s.to_bool(code, k, stn)
      else:
        val, vw = s.to_nat(code, k, stn, w)
        if vw != w: fail(stn, f'width mismatch: {vw} bits assigned to {w}')
      st['cur'][fld] = val
      if fld not in order: order.append(fld)
      return
    if isinstance(stn, ast.If):
      cond = s.to_bool(*s.expr(c, stn.test, env, st), stn.test)
      base = dict(st['cur']); loc = dict(st['local'])
      st_t = {**st, 'cur': dict(base), 'local': dict(loc)}
      for x in stn.body: s.exec_stmt(c, x, env, st_t, kind, order)
      st_e = {**st, 'cur': dict(base), 'local': dict(loc)}
      for x in stn.orelse: s.exec_stmt(c, x, env, st_e, kind, order)
      for fld in list(dict.fromkeys(list(st_t['cur']) + list(st_e['cur']))):
        tv, ev = st_t['cur'].get(fld), st_e['cur'].get(fld)
        if tv == ev and tv is not None: st['cur'][fld] = tv; continue
        def dflt():
          if kind == 'ff': return f'v.{fld}'
          fail(stn, f'{fld} is assigned in one branch only and has no earlier value in this block (latch)')
        tv = tv if tv is not None else dflt()
        ev = ev if ev is not None else dflt()
        st['cur'][fld] = f'(if {cond} then {tv} else {ev})'
      return
    if isinstance(stn, ast.Expr) and isinstance(stn.value, ast.Constant): return
    fail(stn, 'statement outside the subset')

  # ------------------------------------------------------------------ structure: nets, instances
  def structure(s, c):
    # endpoints: every parent signal, every instance port
    parent = dict(c.sigs)
    ports = {}
    for iname, inst in c.insts.items():
      if isinstance(inst, tuple): continue
      for f, w in inst.sigs.items(): ports[f'{iname}_{f}'] = w
    uf = {}
    def find(x):
      while uf.setdefault(x, x) != x:
        uf[x] = uf[uf[x]]; x = uf[x]
      return x
    slices = []
    opaque_ports = {}
    for a, b, node in c.conns:
      if a[0] == 'sig' and b[0] == 'sig':
        for e in (a[1], b[1]):
          if e not in parent and e not in ports: opaque_ports.setdefault(e, None)
        uf[find(a[1])] = find(b[1])
      elif a[0] == 'sig' and b[0] == 'slice': slices.append((a[1], b, node))
      elif b[0] == 'sig' and a[0] == 'slice': slices.append((b[1], a, node))
      else: fail(node, 'connection between two slices')
    for iname, inst in c.insts.items():                        # implicit reset
      if not isinstance(inst, tuple): uf[find(f'{iname}_reset')] = find('reset')
    groups = {}
    for e in list(parent) + list(ports) + list(opaque_ports): groups.setdefault(find(e), []).append(e)
    wires = []
    for root, es in groups.items():
      named = [e for e in es if e in parent]
      rep = named[0] if named else es[0]
      widths = {parent.get(e, ports.get(e)) for e in es} - {None}
      if len(widths) > 1: raise Fail(f'net of {es} connects different widths {widths}')
      if not widths: raise Fail(f'width of net {es} is unknown (only opaque ports)')
      for e in es: c.rep[e] = rep
      if not named: c.extra_fields[rep] = widths.pop()
      for e in named[1:]: wires.append((named[0], e))
    c.wires = wires
    c.groups = groups
    c.slices = []
    for tgt, (_, base, lo, hi), node in slices:
      bw = parent.get(base, ports.get(base))
      if bw is None or hi > bw: fail(node, 'slice connection beyond the width')
      if tgt in ports or tgt in parent:
        tw = parent.get(tgt, ports.get(tgt))
        if tw != hi - lo: fail(node, 'slice connection of different widths')
      c.slices.append((tgt, c.rep.get(base, base), lo, hi))

  # ------------------------------------------------------------------ rendering
  def fields(s, c):
    return list(c.sigs.items()) + list(c.extra_fields.items())

  def ty(s, w): return 'Bool' if w == 1 else 'Nat'

  def render_comp(s, c, where):
    L = [f'/-! ## `{c.cls}`' + (f' with {", ".join(f"{k} = {s.pshow(v)}" for k, v in c.params.items())}' if c.params else '') + f' ({where}) -/', '',
         f'namespace {c.ns}', '']
    L.append('structure Sig where')
    for f, w in s.fields(c): L.append(f'  {f} : {s.ty(w)}')
    L.append('')
    for bname, kind, outs in c.blocks:
      for f, code, w in outs:
        suffix = '_next' if kind == 'ff' else ''
        L.append(f'/-- `{bname}`: `s.{f} {"<<=" if kind == "ff" else "@="} ...` -/')
        L.append(f'def {bname}_{f}{suffix} (v : Sig) : {s.ty(w)} :=\n  {code}')
        L.append('')
    # instances
    for iname, inst in c.insts.items():
      if isinstance(inst, tuple): continue
      binding = ', '.join(f'{f} := v.{c.rep[f"{iname}_{f}"]}' for f, _ in s.fields(inst) if f'{iname}_{f}' in c.rep)
      missing = [f for f, _ in s.fields(inst) if f'{iname}_{f}' not in c.rep]
      if missing: raise Fail(f'instance {iname}: internal fields {missing} have no net')
      L.append(f'/-- the signals of instance `s.{iname}` ({inst.cls}) as connected in `{c.cls}` -/')
      L.append(f'def {iname}_sig (v : Sig) : {inst.ns}.Sig :=\n  {{ {binding} }}')
      L.append('')
      for bname, kind, outs in inst.blocks:
        for f, code, w in outs:
          suffix = '_next' if kind == 'ff' else ''
          L.append(f'def {iname}_{f}{suffix} (v : Sig) : {s.ty(w)} := {inst.ns}.{bname}_{f}{suffix} ({iname}_sig v)')
      L.append('')
    for tgt, base, lo, hi in c.slices:
      L.append(f'/-- `{tgt}` is connected to `{base}[{lo}:{hi}]` -/')
      L.append(f'def {tgt}_conn (v : Sig) : {s.ty(hi - lo)} := ' + (f'(v.{base} / 2^{lo} % 2^{hi - lo} == 1)' if hi - lo == 1 else f'v.{base} / 2^{lo} % 2^{hi - lo}'))
      L.append('')
    L.append('/-- declared wires / out ports that nothing drives (no block assigns them, no sub-component output or in port is on their net): they keep their reset value 0 -/')
    L.append('def undriven : List String :=\n  [' + ', '.join(f'"{f}"' for f in s.undriven(c)) + ']')
    L.append('')
    if getattr(c, 'wires', None):
      L.append('/-- `//=` between two named signals of this component: both names denote one net -/')
      L.append('def wires_ok (v : Sig) : Bool :=\n  ' + ' &&\n  '.join(f'(v.{a} == v.{b})' for a, b in c.wires))
      L.append('')
    L.append(f'end {c.ns}')
    L.append('')
    return '\n'.join(L)

  def undriven(s, c):
    driven = set()
    for _, _, outs in c.blocks:
      for f, _, _ in outs: driven.add(c.rep.get(f, f))
    for tgt, _, _, _ in c.slices: driven.add(c.rep.get(tgt, tgt))
    for root, es in c.groups.items():
      for e in es:
        if e in c.sigs:
          if c.dirs.get(e) == 'in': driven.add(c.rep[e])
          continue
        iname = next((n for n in sorted(c.insts, key=len, reverse=True) if e.startswith(n + '_')), None)
        if iname is None: continue
        inst = c.insts[iname]; port = e[len(iname) + 1:]
        if isinstance(inst, tuple):
          base = port.rsplit('_', 1)[0]
          if OPAQUE[inst[1]].get(base, OPAQUE[inst[1]].get(port, ('', '')))[1] == 'out': driven.add(c.rep[e])
        elif inst.dirs.get(port) == 'out': driven.add(c.rep[e])
    return [f for f in c.sigs if c.dirs.get(f) in ('wire', 'out') and c.rep.get(f, f) not in driven]

  def pshow(s, v):
    return {'type': lambda: f'Bits{v[1]}', 'int': lambda: str(v[1]), 'bits': lambda: f'b{v[1]}({v[2]})'}.get(v[0], lambda: str(v))()

  # ------------------------------------------------------------------ the top level: ProcRTL's connections
  def render_top(s):
    """ctrl <-> dpath <-> drop unit connections of ProcRTL.construct, as pairs of (component, field)"""
    cdef = s.find_class('top', 'ProcRTL')
    con = next(f for f in cdef.body if isinstance(f, ast.FunctionDef) and f.name == 'construct')
    comps = {'ctrl': s.comps['Ctrl'], 'dpath': s.comps['Dpath'], 'imemresp_drop': s.comps['DropUnit_32']}
    alias = {}; seen = set()
    pairs = []; other = []
    def ep(node):
      parts = []
      n = node
      while isinstance(n, ast.Attribute): parts.append(n.attr); n = n.value
      if not isinstance(n, ast.Name): return None
      parts.reverse()
      if n.id in alias: parts = [alias[n.id]] + parts
      elif n.id != 's': return None
      if parts and parts[0] in comps:
        fld = mangle(parts[1:])
        if fld not in comps[parts[0]].sigs: fail(node, f'unknown signal of {parts[0]}')
        return (parts[0], fld)
      return ('env', mangle(parts))
    for st in con.body:
      if isinstance(st, ast.Assign):
        names = [t for t in st.targets]
        sn = [t.attr for t in names if isinstance(t, ast.Attribute) and isinstance(t.value, ast.Name) and t.value.id == 's']
        ln = [t.id for t in names if isinstance(t, ast.Name)]
        if sn and ln: alias[ln[0]] = sn[0]
        if sn and sn[0] in comps:
          seen.add(sn[0])
          want = {'ctrl': 'ProcCtrl', 'dpath': 'ProcDpath', 'imemresp_drop': 'DropUnitRTL'}[sn[0]]
          if not (isinstance(st.value, ast.Call) and isinstance(st.value.func, ast.Name) and st.value.func.id == want):
            fail(st, f's.{sn[0]} is not an instance of {want}')
      elif isinstance(st, ast.AugAssign) and isinstance(st.op, ast.FloorDiv):
        a, b = ep(st.target), ep(st.value)
        if a is None or b is None: fail(st, 'connection outside the subset')
        if a[0] != 'env' and b[0] != 'env': pairs.append((a, b))
        elif a[0] != 'env' or b[0] != 'env': other.append((a, b) if a[0] != 'env' else (b, a))
    for k in comps:
      if k not in seen: raise Fail(f'ProcRTL has no instance s.{k}')
    ns = {'ctrl': 'Ctrl', 'dpath': 'Dpath', 'imemresp_drop': 'DropUnit_32'}
    L = ['/-! ## `ProcRTL`: how ctrl, dpath and the drop unit are wired together (ProcRTL.py) -/', '', 'namespace Top', '',
         '/-- every `//=` of ProcRTL.construct between two of ctrl / dpath / imemresp_drop: the two names denote one net -/',
         'def wires_ok (c : Ctrl.Sig) (d : Dpath.Sig) (u : DropUnit_32.Sig) : Bool :=']
    var = {'ctrl': 'c', 'dpath': 'd', 'imemresp_drop': 'u'}
    conj = []
    for (ca, fa), (cb, fb) in pairs:
      wa, wb = comps[ca].sigs[fa], comps[cb].sigs[fb]
      if wa != wb: raise Fail(f'ProcRTL connects {ca}.{fa} ({wa} bits) with {cb}.{fb} ({wb} bits)')
      conj.append(f'({var[ca]}.{fa} == {var[cb]}.{fb})')
    L.append('  ' + ' &&\n  '.join(conj))
    L.append('')
    L.append('/-- the ports of ctrl / dpath / imemresp_drop that ProcRTL connects to queues and interfaces (names only) -/')
    L.append('def envPorts : List (String × String) :=\n  [' + ', '.join(f'("{ca}.{fa}", "{fb}")' for (ca, fa), (_, fb) in other) + ']')
    L.append('')
    L.append('end Top'); L.append('')
    return '\n'.join(L)

  # ------------------------------------------------------------------ driver
  def run(s):
    order = [('ProcCtrl', 'ctrl'), ('ProcDpath', 'dpath'), ('DropUnitRTL', 'misc')]
    try:
      s.elaborate('ProcCtrl', [], {}, None)
      s.elaborate('ProcDpath', [], {}, None)
      s.elaborate('DropUnitRTL', [('type', 32)], {}, None)
      body = []
      for ns, c in s.comps.items():              # dependency order: sub-components are elaborated before their parent finishes
        body.append(s.render_comp(c, FILES[CLASSES[c.cls][0]]))
      body.append(s.render_top())
    except Fail as e:
      s.failures.append(('PipeGen', str(e)))
      body = [f'-- TRANSLATION FAILED: {e}\n#exit\n'] if False else [f'/- TRANSLATION FAILED: {e} -/\n']
    return HEADER + '\n'.join(body) + FOOTER

HEADER = '''/-
GENERATED by tools/py2lean_pipe.py from examples/ex03_proc/{ProcCtrlRTL,ProcDpathRTL,MiscRTL,TinyRV0InstRTL,ProcRTL}.py and
pymtl3/stdlib/basic_rtl/{arithmetics,registers}.py.  Do not edit: the file is regenerated from the current Python source on
every check of C20; Props/C20pGen.lean proves that the valuation of the signals given by Model/Pipe.lean satisfies every
equation below (generated = model).
-/
set_option linter.unusedVariables false

namespace PV.PipeGen

/-- `int(b)` of a 1-bit value -/
def b2n (b : Bool) : Nat := if b then 1 else 0
/-- `sext(x, n)` of a `w`-bit value -/
def sext (w n x : Nat) : Nat := if x < 2^(w-1) then x else x + (2^n - 2^w)

'''
FOOTER = '\nend PV.PipeGen\n'

def write_if_changed(path, text):
  try:
    with open(path) as f: old = f.read()
  except OSError: old = None
  if old == text: return False
  os.makedirs(os.path.dirname(path), exist_ok=True)
  tmp = path + '.tmp'
  with open(tmp, 'w') as f: f.write(text)
  os.replace(tmp, path)
  return True

def default_root():
  """$PV_REPO (tools/try_seed.sh points it at a seeded worktree), else the tree the imported pymtl3 lives in, else /repo"""
  if os.environ.get('PV_REPO'): return os.environ['PV_REPO']
  try:
    import pymtl3
    root = os.path.dirname(os.path.dirname(os.path.abspath(pymtl3.__file__)))
    if os.path.exists(os.path.join(root, FILES['ctrl'])): return root
  except Exception: pass
  return '/repo'

def generate(src_root):
  t = Translator(src_root)
  text = t.run()
  return text, t.failures

def pregen(src_root=None, out=DEFAULT_OUT):
  """hook of harness/checks/c20_pipe.py (`pregen(ck)`): regenerate Gen/PipeGen.lean from the source tree the check runs
  ($PV_REPO or /repo); raises if something is outside the rendered subset (-> broken obligation)"""
  if src_root is None: src_root = default_root()
  try:
    text, failures = generate(src_root)
  except (OSError, SyntaxError, Fail) as e:
    raise RuntimeError(f'py2lean_pipe could not read / parse the source: {e}')
  write_if_changed(out, text)
  if failures:
    raise RuntimeError('py2lean_pipe could not translate: ' + ' | '.join(m for _, m in failures))
  ndefs = len(re.findall(r'^def ', text, re.M))
  return [f'Gen/PipeGen.lean was regenerated before the build from {os.path.join(src_root, EX)} (+ stdlib Mux / Adder / '
          f'Incrementer / RegEnRst) by tools/py2lean_pipe.py ({ndefs} definitions)']

def main():
  ap = argparse.ArgumentParser()
  ap.add_argument('--src-root', default=default_root())
  ap.add_argument('--out', default=DEFAULT_OUT)
  ap.add_argument('--stdout', action='store_true')
  ap.add_argument('--check', action='store_true')
  a = ap.parse_args()
  text, failures = generate(a.src_root)
  for name, msg in failures: print(f'py2lean_pipe: FAILED {name}: {msg}', file=sys.stderr)
  if a.stdout: sys.stdout.write(text)
  elif a.check:
    try: same = open(a.out).read() == text
    except OSError: same = False
    if not same:
      print(f'py2lean_pipe: {a.out} is not what the current source generates', file=sys.stderr); sys.exit(1)
  else:
    changed = write_if_changed(a.out, text)
    print(f'py2lean_pipe: {a.out} {"rewritten" if changed else "unchanged"}')
  sys.exit(3 if failures else 0)

if __name__ == '__main__':
  main()
