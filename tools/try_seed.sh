#!/bin/bash
# tools/try_seed.sh <dir with patch.diff demo.py> <tier> <check ids...>
# Confirms a seeded change (demo passes clean / fails seeded / suite still green) and runs the given checks against it.
# /repo is restored afterwards (git checkout -- .).
dir=$1; tier=$2; shift 2
cd /repo || exit 2
if [ -n "$(git status --porcelain --untracked-files=no)" ]; then echo "/repo has local modifications"; exit 2; fi
echo "== demo on clean tree"; (cd /repo && /venv/bin/python $dir/demo.py >/tmp/seed_demo_clean.txt 2>&1; echo "exit=$?"; tail -2 /tmp/seed_demo_clean.txt)
git apply $dir/patch.diff || { echo "patch does not apply"; exit 2; }
echo "== demo on seeded tree"; (cd /repo && /venv/bin/python $dir/demo.py >/tmp/seed_demo_seeded.txt 2>&1; echo "exit=$?"; tail -3 /tmp/seed_demo_seeded.txt)
if [ "$SKIP_SUITE" != "1" ]; then echo "== existing suite on seeded tree"; /venv/bin/python /verif/tools/baseline_check.py | tail -3; fi
cd /verif
for c in "$@"; do echo "== check $c $tier"; ./vcheck $c $tier 2>&1 | tail -4 | cut -c1-220; done
git -C /repo checkout -- .
rm -f /tmp/seed_demo_clean.txt /tmp/seed_demo_seeded.txt
git -C /repo status --porcelain --untracked-files=no
