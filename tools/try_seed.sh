#!/bin/bash
# tools/try_seed.sh <dir with patch.diff demo.py> <tier> <check ids...>
# Confirms a seeded change WITHOUT touching /repo: a scratch worktree of /repo HEAD gets the patch and shadows the installed
# pymtl3 through PYTHONPATH (PV_REPO tells the checks that read source files where the tree is).
#   - demo passes on the clean tree / fails on the seeded tree
#   - the existing suite still passes on the seeded tree (skip with SKIP_SUITE=1)
#   - the given checks are run against the seeded tree
# one seeded run at a time (the runs share lean/PymtlVerif/Gen/*.lean and evidence/*.json)
if [ -z "$PVSEED_LOCKED" ]; then PVSEED_LOCKED=1 exec flock /root/scratch/try_seed.lock "$0" "$@"; fi
dir=$(realpath $1); tier=$2; shift 2
wt=/tmp/pvseed_$$
git -C /repo worktree add --detach $wt HEAD -q || exit 2
# the checks rewrite evidence/<id>.json: keep the clean-tree evidence files and put them back afterwards
evbak=$(mktemp -d /root/scratch/evbak.XXXXXX); cp /verif/evidence/*.json $evbak/ 2>/dev/null
# on exit: drop the worktree and regenerate the translator outputs (Gen/*.lean) from the real /repo, because the checks'
# pregen hooks wrote them from the seeded tree
trap 'git -C /repo worktree remove --force '$wt' >/dev/null 2>&1; cd /verif; for t in bits mem overlap pipe arb queue vcdsym procfl; do env -u PV_REPO -u PYTHONPATH python3 tools/py2lean_$t.py >/dev/null 2>&1; done; cp '$evbak'/*.json /verif/evidence/ 2>/dev/null; rm -rf '$evbak EXIT
echo "== demo on clean tree"; (cd $wt && PYTHONPATH=$wt /venv/bin/python $dir/demo.py >$wt/.demo_clean.txt 2>&1; echo "exit=$?"; tail -2 $wt/.demo_clean.txt)
(cd $wt && git apply $dir/patch.diff) || { echo "patch does not apply"; exit 2; }
echo "== demo on seeded tree"; (cd $wt && PYTHONPATH=$wt /venv/bin/python $dir/demo.py >$wt/.demo_seeded.txt 2>&1; echo "exit=$?"; tail -3 $wt/.demo_seeded.txt)
if [ "$SKIP_SUITE" != "1" ]; then echo "== existing suite on seeded tree"; PV_REPO=$wt /venv/bin/python /verif/tools/baseline_check.py | tail -3; fi
cd /verif
for c in "$@"; do echo "== check $c $tier"; PV_REPO=$wt PYTHONPATH=$wt ./vcheck $c $tier 2>&1 | tail -4 | cut -c1-220; done
