#!/bin/bash
# usage: thorough_group.sh C01 C02 ...   (run from a /verif snapshot)
( eval "$(python3 -c "import json;print(json.load(open('MANIFEST.json'))['setup_cmd'])")" ) >/dev/null 2>&1
for c in "$@"; do /usr/bin/time -f "$c wall=%es" ./vcheck $c thorough 2>&1 | grep -v KNOWN-FINDING | tail -3 | cut -c1-300; done
