#!/usr/bin/env python3
"""py2lean_procfl.py — regenerate lean/PymtlVerif/Gen/ProcFLGen.lean and Gen/ProcCLGen.lean from the SOURCE of the
functional-level and cycle-level tutorial processors:

  examples/ex03_proc/tinyrv0_encoding.py  class TinyRV0Inst  -> namespace PV.ProcFLGen.Inst   (one definition per property:
                                          opcode rd rs1 rs2 shamt i_imm s_imm b_imm csrnum funct7 funct3, and `name`)
                                          class RegisterFile -> inlined where `s.R[..]` is read / written (x0 behaviour)
  examples/ex03_proc/ProcFL.py            class ProcFL       -> namespace PV.ProcFLGen.FL     (`St`, `Env`, `init`, `up_ProcFL`)
  examples/ex03_proc/ProcCL.py            class ProcCL       -> namespace PV.ProcCLGen        (`St`, `Env`, `init`, `F`, `DXM`, `W`,
                                          the enums DXM_W / PipelineStatus, the message structures of mk_mem_msg / mk_xcel_msg
                                          read off pymtl3/stdlib/mem/MemMsg.py and pymtl3/stdlib/ifcs/XcelMsg.py)

How a block is rendered.  The statements of an `@update_once` block (or of a property) are executed SYMBOLICALLY, in order,
on a store that maps every attribute of the component (`s.PC`, `s.R`, ...), every local and "the world" (everything behind
the component's interfaces and child queues) to a Lean term; `if / elif / else` forks the execution (`if c then .. else ..`;
two branches that only assign are merged per variable), `return` / the end of the block ends a path with
`.ok (<the component's attributes>, <the world>)`, `raise E(..)` ends it with `.raised "E"`.  A call of an interface / queue
method is an application of the corresponding field of the structure `Env W` (the translator knows the SHAPE of each method
— pure query, world update, value and world update, may block — not its behaviour); a call that may block (GetIfcFL) is
`match env.m w with | none => .blocked | some (v, w') => ..`.  `try: .. except: print(..); raise` is transparent.
Values:  BitsN values are `Nat`s below 2^N, the width is tracked statically (operators between different widths, constants out
of range, slices out of range, a width that cannot be determined: the translator FAILS); `+` is `% 2^N`, `<<` follows
PythonBits (`0` when the amount is >= N), `>>`, `&`, comparisons, constant slices `x[a:b]` (`x / 2^a % 2^(b-a)`), slice
assignment to a fresh local (`setSlice`), `sext`, `.uint()`, `BitsN(x)`.  Python ints are static constants or dynamic values with a
static bound; a component attribute that holds `None` / `-1` or a Bits value is an `Option Nat`, and a test of it
(`x >= 0`, `x is not None`) is a `match`.  Strings are Lean strings; enum members their integer values; tuples are tuples.
Anything else (an unknown statement form, name, method, operator, type) raises `Fail` — the obligation breaks, nothing is guessed.

usage: py2lean_procfl.py [--src-root ROOT] [--out-dir DIR | --stdout] [--check]     (ROOT defaults to $PV_REPO or /repo)
exit status: 0 ok, 1 --check mismatch, 3 something could not be translated
"""
import argparse, ast, os, re, sys

HERE = os.path.dirname(os.path.abspath(__file__))
DEFAULT_DIR = os.path.join(os.path.dirname(HERE), 'lean', 'PymtlVerif', 'Gen')
EX = os.path.join('examples', 'ex03_proc')
FILES = {
  'enc': os.path.join(EX, 'tinyrv0_encoding.py'), 'fl': os.path.join(EX, 'ProcFL.py'), 'cl': os.path.join(EX, 'ProcCL.py'),
  'memmsg': os.path.join('pymtl3', 'stdlib', 'mem', 'MemMsg.py'), 'xcelmsg': os.path.join('pymtl3', 'stdlib', 'ifcs', 'XcelMsg.py'),
}

class Fail(Exception):
  pass

def src(node):
  try: return ast.unparse(node)
  except Exception: return '<?>'

def fail(node, msg):
  raise Fail(f'line {getattr(node, "lineno", "?")}: {msg}: `{src(node)[:140]}`')

def clog2(n):
  k = 0
  while (1 << k) < n: k += 1
  return k

def indent(text, n=2):
  pad = ' ' * n
  return '\n'.join(pad + l if l else l for l in text.split('\n'))

# ----------------------------------------------------------------------------------------------- types
# ('bits', w) | ('int', k) static | ('dyn', hi) dynamic int in 0..hi | ('nat',) non-negative value of unknown width |
# ('bool',) | ('str',) | ('none',) | ('enum', cls) | ('tuple', (t..)) | ('opt', t, sentinel) | ('msg', cls) | ('list', t, n) |
# ('inst',) a TinyRV0Inst (the value is its `bits`) | ('msgcls', cls) | ('slice', lo, hi) | ('enumcls', cls)
T_BOOL, T_STR, T_NONE, T_NAT = ('bool',), ('str',), ('none',), ('nat',)
def bits(w): return ('bits', w)

class Val:
  __slots__ = ('text', 'type', 'fresh', 'parts')
  def __init__(s, text, type_, fresh=False, parts=None):
    s.text, s.type, s.fresh, s.parts = text, type_, fresh, parts

def natlike(t):
  return t[0] in ('bits', 'dyn', 'nat') or (t[0] == 'int' and t[1] >= 0)

def lean_type(t, structs=None):
  k = t[0]
  if k in ('bits', 'dyn', 'nat', 'int', 'enum'): return 'Nat'
  if k == 'bool': return 'Bool'
  if k == 'str': return 'String'
  if k == 'opt': return f'Option {paren_type(lean_type(t[1]))}'
  if k == 'tuple': return ' × '.join(paren_type(lean_type(x)) for x in t[1])
  if k == 'list': return f'List {paren_type(lean_type(t[1]))}'
  if k == 'msg': return t[1]
  if k == 'inst': return 'Nat'
  if k == 'none': return 'Unit'
  if k == 'regfile': return 'List Nat'
  raise Fail(f'no Lean type for {t}')

def paren_type(s):
  return f'({s})' if (' ' in s) else s

def join(a, b, what=''):
  """least type that holds values of both"""
  if a == b: return a
  if a[0] == 'int' and b[0] == 'int' and a[1] >= 0 and b[1] >= 0: return T_NAT
  if natlike(a) and natlike(b): return T_NAT
  for x, y in ((a, b), (b, a)):
    if x[0] == 'none':
      if y[0] == 'opt' and y[2] is None: return y
      if y[0] != 'opt' and y[0] != 'none': return ('opt', y, None)
    if x[0] == 'int' and x[1] < 0:
      if y[0] == 'opt' and y[2] == x[1]: return y
      if natlike(y): return ('opt', y, x[1])
    if x[0] == 'opt':
      if y[0] == 'opt' and x[2] == y[2]: return ('opt', join(x[1], y[1], what), x[2])
      if y[0] not in ('opt', 'none') and not (y[0] == 'int' and y[1] < 0): return ('opt', join(x[1], y, what), x[2])
  if a[0] == 'tuple' and b[0] == 'tuple' and len(a[1]) == len(b[1]):
    return ('tuple', tuple(join(x, y, what) for x, y in zip(a[1], b[1])))
  raise Fail(f'{what}: values of type {a} and {b} in one place')

def coerce(v, t, what=''):
  """text of value `v` as a member of (declared) type `t`"""
  if v.type == t: return v.text
  if natlike(v.type) and (natlike(t) or t == T_NAT): return v.text
  if v.type[0] == 'regfile' and t[0] == 'list' and t[2] == v.type[1]: return v.text
  if t[0] == 'opt':
    if v.type[0] == 'none' and t[2] is None: return 'none'
    if v.type[0] == 'int' and v.type[1] == t[2]: return 'none'
    if v.type[0] == 'opt' and v.type[2] == t[2]: return v.text
    return f'(some {atom(coerce(v, t[1], what))})'
  if t[0] == 'tuple' and v.type[0] == 'tuple' and len(t[1]) == len(v.type[1]):
    if all((natlike(x) and natlike(y)) or x == y for x, y in zip(t[1], v.type[1])): return v.text
  raise Fail(f'{what}: cannot use a value of type {v.type} as {t}')

def atom(text):
  """parenthesise unless obviously atomic"""
  if re.fullmatch(r'[A-Za-z_0-9.\'"?]+', text) or (text.startswith('(') and text.endswith(')') and balanced(text[1:-1])):
    return text
  return f'({text})'

def balanced(t):
  d = 0
  for ch in t:
    if ch == '(': d += 1
    elif ch == ')':
      d -= 1
      if d < 0: return False
  return d == 0

LEAN_KEYWORDS = {'opaque', 'type', 'end', 'from', 'at', 'in', 'then', 'else', 'if', 'do', 'let', 'fun', 'open', 'where', 'with', 'at', 'instance', 'def'}
def lean_field(n):
  return n + '_' if n in LEAN_KEYWORDS else n

def lstr(sv):
  if not re.fullmatch(r'[ -!#-\[\]-~]*', sv): raise Fail(f'string constant {sv!r} outside the printable subset')
  return '"' + sv + '"'

# ----------------------------------------------------------------------------------------------- static module environments

def static_eval(node, env):
  if isinstance(node, ast.Constant) and isinstance(node.value, bool): fail(node, 'bool constant')
  if isinstance(node, ast.Constant) and isinstance(node.value, int): return ('int', node.value)
  if isinstance(node, ast.Name):
    m = re.fullmatch(r'Bits(\d+)', node.id)
    if m: return ('type', int(m.group(1)))
    if node.id in env: return env[node.id]
    fail(node, 'unknown name in a static expression')
  if isinstance(node, ast.BinOp) and isinstance(node.op, (ast.Add, ast.Sub, ast.Mult, ast.RShift, ast.LShift)):
    a, b = static_eval(node.left, env), static_eval(node.right, env)
    if a[0] == 'int' and b[0] == 'int':
      f = {ast.Add: lambda x, y: x + y, ast.Sub: lambda x, y: x - y, ast.Mult: lambda x, y: x * y,
           ast.RShift: lambda x, y: x >> y, ast.LShift: lambda x, y: x << y}[type(node.op)]
      return ('int', f(a[1], b[1]))
    fail(node, 'static arithmetic on non-integers')
  if isinstance(node, ast.Call) and isinstance(node.func, ast.Name) and not node.keywords:
    f = node.func.id
    args = [static_eval(a, env) for a in node.args]
    if f == 'slice' and len(args) == 2 and all(a[0] == 'int' for a in args): return ('slice', args[0][1], args[1][1])
    if f == 'clog2' and len(args) == 1 and args[0][0] == 'int': return ('int', clog2(args[0][1]))
    if f == 'mk_bits' and len(args) == 1 and args[0][0] == 'int' and args[0][1] > 0: return ('type', args[0][1])
  fail(node, 'not a static value')

def module_statics(tree):
  """module-level NAME = <int expr> | slice(a, b)"""
  env = {}
  for st in tree.body:
    if isinstance(st, ast.Assign) and len(st.targets) == 1 and isinstance(st.targets[0], ast.Name):
      try: env[st.targets[0].id] = static_eval(st.value, env)
      except Fail: pass
  return env

def class_int_attrs(tree, name):
  """class NAME: A = 0; B = 1 ... (MemMsgType, XcelMsgType, Enum classes)"""
  for st in tree.body:
    if isinstance(st, ast.ClassDef) and st.name == name:
      out = {}
      for s2 in st.body:
        if isinstance(s2, ast.Assign) and len(s2.targets) == 1 and isinstance(s2.targets[0], ast.Name):
          try:
            v = static_eval(s2.value, {})
            if v[0] == 'int': out[s2.targets[0].id] = v[1]
          except Fail: pass
      return out
  raise Fail(f'class {name} not found')

def bitstruct_fields(tree, fname, params):
  """fields [(name, width)] of the @bitstruct class defined inside `def fname(<params>)`"""
  for st in tree.body:
    if isinstance(st, ast.FunctionDef) and st.name == fname:
      names = [a.arg for a in st.args.args]
      if len(names) != len(params): raise Fail(f'{fname}: expected {len(names)} parameters')
      env = {n: ('int', v) for n, v in zip(names, params)}
      for s2 in st.body:
        if isinstance(s2, ast.ClassDef):
          if not any(isinstance(d, ast.Name) and d.id == 'bitstruct' for d in s2.decorator_list): fail(s2, 'not a @bitstruct')
          out = []
          for s3 in s2.body:
            if isinstance(s3, ast.AnnAssign) and isinstance(s3.target, ast.Name):
              t = static_eval(s3.annotation, env)
              if t[0] != 'type': fail(s3, 'field type is not BitsN')
              out.append((s3.target.id, t[1]))
            elif isinstance(s3, ast.FunctionDef) and s3.name == '__str__': pass
            elif isinstance(s3, ast.Assign) and len(s3.targets) == 1 and isinstance(s3.targets[0], ast.Name): pass   # class constant, not a field
            else: fail(s3, 'statement of a message class outside the subset')
          return s2.name, out
      raise Fail(f'{fname}: no class inside')
  raise Fail(f'{fname} not found')

def factory_pair(tree, fname, params):
  """`def mk_x_msg(a, b, ..): return mk_x_req_msg(..), mk_x_resp_msg(..)` -> the two (class name, fields)"""
  for st in tree.body:
    if isinstance(st, ast.FunctionDef) and st.name == fname:
      names = [a.arg for a in st.args.args]
      if len(names) != len(params): raise Fail(f'{fname}: expected {len(names)} parameters')
      env = {n: ('int', v) for n, v in zip(names, params)}
      if len(st.body) != 1 or not isinstance(st.body[0], ast.Return) or not isinstance(st.body[0].value, ast.Tuple):
        fail(st, 'message factory outside the subset')
      out = []
      for c in st.body[0].value.elts:
        if not (isinstance(c, ast.Call) and isinstance(c.func, ast.Name) and not c.keywords): fail(c, 'message factory call')
        vals = [static_eval(a, env) for a in c.args]
        if not all(v[0] == 'int' for v in vals): fail(c, 'message factory argument')
        out.append(bitstruct_fields(tree, c.func.id, [v[1] for v in vals]))
      return out
  raise Fail(f'{fname} not found')

# ----------------------------------------------------------------------------------------------- interface method shapes
# kind: 'pure' W -> args -> value | 'query' W -> Bool | 'upd' W -> args -> W | 'valupd' W -> args -> value × W |
#       'block' W -> args -> Option (value × W)  (none: the call never returns)
FL_IFCS = {
  'MemMasterIfcFL': {'read': ('pure', ['nat', 'static'], 'bytes'), 'write': ('upd', ['nat', 'static', 'nat'], None)},
  'XcelMasterIfcFL': {'read': ('valupd', ['nat'], bits(32)), 'write': ('upd', ['nat', 'nat'], None)},
  'SendIfcFL': {'__call__': ('upd', ['nat'], None)},
  'GetIfcFL': {'__call__': ('block', [], bits(32))},
}
# CL: a caller port `p`: p.rdy() / p(msg); a callee port we own is only connected (`//=`)
CL_QUEUES = {'PipeQueueCL', 'DelayPipeDeqCL'}

class Ctx:
  def __init__(s, fields, locals_, world, selfref=None):
    s.fields, s.locals, s.world, s.selfref = fields, locals_, world, selfref
  def copy(s):
    return Ctx(dict(s.fields), dict(s.locals), s.world, s.selfref)

SENT = '\0PURE\0'

class Unit:
  """one translated component (ProcFL or ProcCL) or helper class: shared machinery"""
  def __init__(s, tr, key, ns):
    s.tr, s.key, s.ns = tr, key, ns
    s.counter = [0]
    s.ftypes = {}        # declared (joined) type of every component attribute
    s.finit = {}         # attribute -> initial Val
    s.forder = []
    s.ifcs = {}          # interface / queue attribute -> description
    s.env = {}           # env field name -> (lean signature, doc)
    s.qelem = {}         # queue -> element type (joined over enq calls / connections)
    s.changed = False
    s.cur_mode = None
    s.raises = False
    s.cl_locals = {}     # construct-level locals (message classes)

  def fresh(s, stem):
    s.counter[0] += 1
    return f'{stem}{s.counter[0]}'

  # ------------------------------------------------------------------ expressions (CPS: k(val, ctx) -> text)
  def ev_list(s, nodes, ctx, k, acc=None):
    acc = acc or []
    if not nodes: return k(acc, ctx)
    return s.ev(nodes[0], ctx, lambda v, c: s.ev_list(nodes[1:], c, k, acc + [v]))

  def ev(s, node, ctx, k):
    tr = s.tr
    if isinstance(node, ast.Constant):
      v = node.value
      if v is None: return k(Val('none', T_NONE), ctx)
      if isinstance(v, bool): return k(Val('true' if v else 'false', T_BOOL), ctx)
      if isinstance(v, int): return k(Val(str(v), ('int', v)), ctx)
      if isinstance(v, str): return k(Val(lstr(v), T_STR), ctx)
      fail(node, 'constant outside the subset')
    if isinstance(node, ast.UnaryOp) and isinstance(node.op, ast.USub) and isinstance(node.operand, ast.Constant) \
       and isinstance(node.operand.value, int) and not isinstance(node.operand.value, bool):
      return k(Val(str(-node.operand.value), ('int', -node.operand.value)), ctx)
    if isinstance(node, ast.UnaryOp) and isinstance(node.op, ast.Not):
      return s.ev(node.operand, ctx, lambda v, c: k(Val(f'(!{atom(s.truthy(v, node))})', T_BOOL), c))
    if isinstance(node, ast.Name):
      if node.id in ctx.locals: return k(ctx.locals[node.id], ctx)
      if node.id in s.cl_locals: return k(s.cl_locals[node.id], ctx)
      st = tr.statics.get(node.id)
      if st is not None:
        if st[0] == 'int': return k(Val(str(st[1]), st), ctx)
        if st[0] == 'slice': return k(Val('', st), ctx)
      if node.id in tr.enums: return k(Val('', ('enumcls', node.id)), ctx)
      if node.id in tr.constcls: return k(Val('', ('constcls', node.id)), ctx)
      fail(node, 'unknown name')
    if isinstance(node, ast.Attribute): return s.ev_attr(node, ctx, k)
    if isinstance(node, ast.Call): return s.ev_call(node, ctx, k)
    if isinstance(node, ast.Subscript): return s.ev_subscript(node, ctx, k)
    if isinstance(node, ast.BinOp):
      return s.ev(node.left, ctx, lambda a, c1: s.ev(node.right, c1, lambda b, c2: k(s.binop(node, a, b), c2)))
    if isinstance(node, ast.Compare):
      return s.ev_list([node.left] + list(node.comparators), ctx, lambda vs, c: k(s.compare(node, vs), c))
    if isinstance(node, ast.BoolOp):
      op = '&&' if isinstance(node.op, ast.And) else '||'
      def fin(vs, c):
        if c.world != ctx.world: fail(node, 'operand of and/or with an effect on the world')
        return k(Val('(' + f' {op} '.join(atom(s.truthy(v, node)) for v in vs) + ')', T_BOOL), c)
      return s.ev_list(node.values, ctx, fin)
    if isinstance(node, ast.Tuple):
      def fin(vs, c):
        for v in vs:
          if not (natlike(v.type) or v.type[0] == 'enum'): fail(node, f'tuple element of type {v.type}')
        ts = tuple(v.type for v in vs)
        return k(Val('(' + ', '.join(v.text for v in vs) + ')', ('tuple', ts), parts=vs), c)
      return s.ev_list(node.elts, ctx, fin)
    fail(node, 'expression outside the subset')

  def truthy(s, v, node):
    t = v.type
    if t == T_BOOL: return v.text
    if t[0] == 'bits' or t[0] == 'dyn' or t == T_NAT: return f'({v.text} != 0)'
    fail(node, f'truth value of a {t}')

  def ev_attr(s, node, ctx, k):
    path = attr_path(node)
    if path and path[0] == 's' and ctx.selfref is None:
      if len(path) == 2:
        f = path[1]
        if f == 'reset': return k(Val('reset', T_BOOL), ctx)
        if f in ctx.fields: return k(ctx.fields[f], ctx)
        fail(node, 'unknown component attribute')
      fail(node, 'attribute path outside the subset')
    if path and path[0] == 'self' and ctx.selfref is not None and len(path) == 2:
      kind, payload = ctx.selfref
      if kind == 'inst':
        if path[1] == 'bits': return k(Val('bits', bits(32)), ctx)
        return k(s.tr.inst_property(path[1], 'bits', node), ctx)
      if kind == 'regfile':
        if path[1] == 'regs': return k(payload['get'](ctx), ctx)
      fail(node, 'unknown attribute of self')
    def fin(v, c):
      t = v.type
      if t[0] == 'inst': return s.tr.inst_property_k(s, node.attr, v.text, node, c, k)
      if t[0] == 'msg':
        fs = dict(s.tr.msgs[t[1]])
        if node.attr not in fs: fail(node, f'message {t[1]} has no field')
        return k(Val(f'{atom(v.text)}.{lean_field(node.attr)}', bits(fs[node.attr])), c)
      if t[0] == 'enumcls':
        members = s.tr.enums[t[1]]
        if node.attr not in members: fail(node, 'unknown enum member')
        return k(Val(str(members[node.attr]), ('enum', t[1])), c)
      if t[0] == 'constcls':
        members = s.tr.constcls[t[1]]
        if node.attr not in members: fail(node, 'unknown class constant')
        return k(Val(str(members[node.attr]), ('int', members[node.attr])), c)
      fail(node, f'attribute of a {t}')
    return s.ev(node.value, ctx, fin)

  def ev_subscript(s, node, ctx, k):
    sl = node.slice
    def with_base(b, c):
      t = b.type
      if t[0] == 'bits':
        lo = hi = None
        if isinstance(sl, ast.Slice):
          if sl.step is not None or sl.lower is None or sl.upper is None: fail(node, 'slice form')
          a1, a2 = static_eval(sl.lower, s.tr.statics), static_eval(sl.upper, s.tr.statics)
          if a1[0] != 'int' or a2[0] != 'int': fail(node, 'slice bounds are not constants')
          lo, hi = a1[1], a2[1]
        else:
          a = static_eval(sl, s.tr.statics)
          if a[0] != 'slice': fail(node, 'index of a Bits value is not a constant slice')
          lo, hi = a[1], a[2]
        if not (0 <= lo < hi <= t[1]): fail(node, f'slice [{lo}:{hi}] of a Bits{t[1]}')
        return k(Val(f'({b.text} / 2^{lo} % 2^{hi - lo})', bits(hi - lo)), c)
      if t[0] == 'regfile':
        return s.ev(sl, c, lambda i, c2: s.call_regfile(b, '__getitem__', [i], node, c2, k))
      if t[0] == 'list':
        def idx(i, c2):
          bound = int_bound(i.type)
          if bound is None or bound >= t[2]:
            if not natlike(i.type): fail(node, f'list index of type {i.type}')
            s.raises = True
            if s.cur_mode == 'pure': fail(node, 'IndexError possible in a pure function')
            inner = k(Val(f'({b.text}.getD {atom(i.text)} 0)', t[1]), c2)
            return f'if {i.text} < {t[2]} then\n{indent(inner)}\nelse .raised "IndexError"'
          return k(Val(f'({b.text}.getD {atom(i.text)} 0)', t[1]), c2)
        return s.ev(sl, c, idx)
      fail(node, f'subscript of a {t}')
    return s.ev(node.value, ctx, with_base)

  def binop(s, node, a, b):
    op = type(node.op)
    ta, tb = a.type, b.type
    def const_ok(kv, w):
      if not 0 <= kv < (1 << w): fail(node, f'integer {kv} is not a valid operand with Bits{w} (Python raises ValueError)')
    if ta[0] == 'bits':
      w = ta[1]
      if tb[0] == 'bits':
        if tb[1] != w: fail(node, f'operands of widths {w} and {tb[1]} (Python raises ValueError)')
      elif tb[0] == 'int': const_ok(tb[1], w)
      elif tb[0] == 'dyn':
        if tb[1] >= (1 << w): fail(node, f'integer operand may exceed Bits{w}')
      else: fail(node, f'operand of type {tb}')
      if op is ast.Add: return Val(f'(({a.text} + {b.text}) % 2^{w})', ta)
      if op is ast.BitAnd: return Val(f'({a.text} &&& {b.text})', ta)
      if op is ast.BitOr: return Val(f'({a.text} ||| {b.text})', ta)
      if op is ast.LShift: return Val(f'(if {b.text} ≥ {w} then 0 else ({a.text} <<< {b.text}) % 2^{w})', ta)
      if op is ast.RShift: return Val(f'({a.text} >>> {b.text})', ta)
      fail(node, 'operator on Bits outside the subset')
    if ta[0] in ('dyn', 'int') and tb[0] in ('dyn', 'int') and (ta[0] == 'dyn' or tb[0] == 'dyn'):
      ha, hb = int_bound(ta), int_bound(tb)
      if ta[0] == 'int' and ta[1] < 0 or tb[0] == 'int' and tb[1] < 0: fail(node, 'negative int operand')
      if op is ast.BitAnd: return Val(f'({a.text} &&& {b.text})', ('dyn', min(ha, hb)))
      if op is ast.Add: return Val(f'({a.text} + {b.text})', ('dyn', ha + hb))
      fail(node, 'operator on ints outside the subset')
    if ta[0] == 'int' and tb[0] == 'bits' and op in (ast.Add, ast.BitAnd, ast.BitOr):
      const_ok(ta[1], tb[1])
      sym = {ast.Add: '+', ast.BitAnd: '&&&', ast.BitOr: '|||'}[op]
      return Val(f'(({a.text} + {b.text}) % 2^{tb[1]})' if op is ast.Add else f'({a.text} {sym} {b.text})', tb)
    fail(node, f'operator between {ta} and {tb}')

  def compare(s, node, vs):
    parts = []
    for i, op in enumerate(node.ops):
      parts.append(s.compare1(node, op, vs[i], vs[i + 1]))
    if len(parts) == 1: return parts[0]
    return Val('(' + ' && '.join(p.text for p in parts) + ')', T_BOOL)

  def compare1(s, node, op, a, b):
    ta, tb = a.type, b.type
    sym = {ast.Eq: '==', ast.NotEq: '!=', ast.Lt: '<', ast.LtE: '≤', ast.Gt: '>', ast.GtE: '≥'}.get(type(op))
    if sym is None: fail(node, 'comparison operator outside the subset')
    def rel(x, y):
      if sym in ('==', '!='): return Val(f'({x} {sym} {y})', T_BOOL)
      return Val(f'(decide ({x} {sym} {y}))', T_BOOL)
    if ta[0] == 'int' and tb[0] == 'int':
      r = {'==': ta[1] == tb[1], '!=': ta[1] != tb[1], '<': ta[1] < tb[1], '≤': ta[1] <= tb[1], '>': ta[1] > tb[1], '≥': ta[1] >= tb[1]}[sym]
      return Val('true' if r else 'false', T_BOOL, parts=r)
    if ta == T_STR and tb == T_STR and sym in ('==', '!='): return rel(a.text, b.text)
    if ta[0] == 'enum' and tb[0] == 'enum' and ta[1] == tb[1] and sym in ('==', '!='):
      if re.fullmatch(r'\d+', a.text) and re.fullmatch(r'\d+', b.text):       # two enum members: decided statically
        r = (int(a.text) == int(b.text)) == (sym == '==')
        return Val('true' if r else 'false', T_BOOL, parts=r)
      return rel(a.text, b.text)
    if ta[0] == 'enum' or tb[0] == 'enum': fail(node, f'comparison of an enum member with a {tb if ta[0] == "enum" else ta}')
    for x, y in ((a, b), (b, a)):
      if x.type[0] == 'bits':
        w = x.type[1]
        if y.type[0] == 'bits':
          if y.type[1] != w: fail(node, f'comparison of Bits{w} with Bits{y.type[1]} (Python raises ValueError)')
        elif y.type[0] == 'int':
          if not 0 <= y.type[1] < (1 << w): fail(node, f'integer {y.type[1]} compared with Bits{w} (Python raises ValueError)')
        elif y.type[0] == 'dyn':
          if y.type[1] >= (1 << w): fail(node, 'integer operand may exceed the width')
        else: fail(node, f'comparison of Bits with {y.type}')
        return rel(a.text, b.text)
    if natlike(ta) and natlike(tb): return rel(a.text, b.text)
    fail(node, f'comparison between {ta} and {tb}')

  # ------------------------------------------------------------------ calls
  def ev_call(s, node, ctx, k):
    tr = s.tr
    if node.keywords: fail(node, 'keyword arguments')
    f = node.func
    if isinstance(f, ast.Name):
      name = f.id
      m = re.fullmatch(r'b(\d+)|Bits(\d+)', name)
      if m and len(node.args) == 1:
        w = int(m.group(1) or m.group(2))
        def fin(v, c):
          t = v.type
          if t[0] == 'int':
            if not 0 <= t[1] < (1 << w): fail(node, f'{t[1]} does not fit Bits{w}')
            return k(Val(v.text, bits(w), fresh=True), c)
          if t[0] == 'bits':
            if t[1] != w: fail(node, f'Bits{w}( Bits{t[1]} )')
            return k(Val(v.text, bits(w), fresh=True), c)
          if t[0] == 'dyn' and t[1] < (1 << w): return k(Val(v.text, bits(w), fresh=True), c)
          if t == T_NAT or t[0] == 'dyn':
            s.raises = True
            if s.cur_mode == 'pure': fail(node, 'ValueError possible in a pure function')
            inner = k(Val(v.text, bits(w), fresh=True), c)
            return f'if {v.text} < 2^{w} then\n{indent(inner)}\nelse .raised "ValueError"'
          fail(node, f'Bits{w}( {t} )')
        return s.ev(node.args[0], ctx, fin)
      if name == 'sext' and len(node.args) == 2:
        n = static_eval(node.args[1], tr.statics)
        if n[0] != 'int': fail(node, 'sext to a non-constant width')
        def fin(v, c):
          if v.type[0] != 'bits': fail(node, f'sext of a {v.type}')
          if n[1] < v.type[1]: fail(node, 'sext to a smaller width (Python asserts)')
          return k(Val(f'(sext {v.type[1]} {n[1]} {atom(v.text)})', bits(n[1])), c)
        return s.ev(node.args[0], ctx, fin)
      if name == 'TinyRV0Inst' and len(node.args) == 1:
        def fin(v, c):
          if v.type != bits(32): fail(node, f'TinyRV0Inst( {v.type} )')
          return k(Val(v.text, ('inst',)), c)
        return s.ev(node.args[0], ctx, fin)
      if name in ctx.locals or name in s.cl_locals:
        cv = ctx.locals.get(name) or s.cl_locals[name]
        if cv.type[0] == 'msgcls': return s.ev_list(list(node.args), ctx, lambda vs, c: k(s.make_msg(cv.type[1], vs, node), c))
      fail(node, 'call of an unknown function')
    if isinstance(f, ast.Attribute):
      path = attr_path(f)
      if path and path[0] == 's' and ctx.selfref is None and len(path) >= 2 and path[1] in s.ifcs:
        return s.ev_list(list(node.args), ctx, lambda vs, c: s.env_call(path[1:], vs, node, c, k))
      if f.attr == 'uint' and not node.args:
        def fin(v, c):
          if v.type[0] != 'bits': fail(node, f'.uint() of a {v.type}')
          return k(Val(v.text, ('dyn', (1 << v.type[1]) - 1)), c)
        return s.ev(f.value, ctx, fin)
    fail(node, 'call outside the subset')

  def make_msg(s, cls, vs, node):
    fs = s.tr.msgs[cls]
    if len(vs) > len(fs): fail(node, 'too many arguments for the message')
    items = []
    for i, (fname, w) in enumerate(fs):
      if i < len(vs):
        v = vs[i]; t = v.type
        if t[0] == 'int' or t[0] == 'enum':
          kv = t[1] if t[0] == 'int' else int(v.text)
          if not 0 <= kv < (1 << w): fail(node, f'{kv} does not fit field {fname} (Bits{w})')
        elif t[0] == 'bits':
          if t[1] != w: fail(node, f'field {fname} is Bits{w}, the argument Bits{t[1]}')
        elif t[0] == 'dyn' and t[1] < (1 << w): pass
        else: fail(node, f'argument of type {t} for field {fname}')
        items.append(f'{lean_field(fname)} := {v.text}')
      else: items.append(f'{lean_field(fname)} := 0')
    return Val('{ ' + ', '.join(items) + f' : {cls} }}', ('msg', cls))

  def note_env(s, name, sig, doc):
    if name in s.env and s.env[name][0] != sig: raise Fail(f'interface method {name} used with two shapes: {s.env[name][0]} / {sig}')
    s.env.setdefault(name, (sig, doc))

  def env_call(s, path, vs, node, ctx, k):
    raise NotImplementedError

  # ------------------------------------------------------------------ RegisterFile (inlined)
  def call_regfile(s, obj, meth, args, node, ctx, k):
    """inline RegisterFile.__getitem__ / __setitem__ on the component attribute `obj.parts` = attribute name"""
    tr = s.tr
    fdef = tr.regfile_methods.get(meth)
    if fdef is None: fail(node, f'RegisterFile has no {meth}')
    params = [a.arg for a in fdef.args.args]
    if len(params) != len(args) + 1: fail(node, 'argument count')
    attr = obj.parts
    loc = {p: v for p, v in zip(params[1:], args)}
    saved_locals, saved_self = ctx.locals, ctx.selfref
    def get(c): return Val(c.fields[attr].text, ('list', bits(32), obj.type[1]))
    def put(c, text): c.fields[attr] = Val(text, ('regfile', obj.type[1]), parts=attr)
    c2 = Ctx(ctx.fields, loc, ctx.world, ('regfile', {'get': get, 'put': put}))
    result = {}
    def on_return(v, c):
      c3 = Ctx(c.fields, saved_locals, c.world, saved_self)
      return k(v, c3)
    def on_end(c):
      c3 = Ctx(c.fields, saved_locals, c.world, saved_self)
      return k(Val('()', T_NONE), c3)
    return s.exec_block(fdef.body, c2, on_end, on_return)

  # ------------------------------------------------------------------ statements (CPS: k(ctx) -> text)
  def exec_block(s, stmts, ctx, k, kret):
    if not stmts: return k(ctx)
    st, rest = stmts[0], stmts[1:]
    nxt = lambda c: s.exec_block(rest, c, k, kret)
    if isinstance(st, ast.Pass): return nxt(ctx)
    if isinstance(st, ast.Expr):
      if isinstance(st.value, ast.Constant) and isinstance(st.value.value, str): return nxt(ctx)
      if isinstance(st.value, ast.Call): return s.ev(st.value, ctx, lambda v, c: nxt(c))
      fail(st, 'expression statement outside the subset')
    if isinstance(st, ast.Return):
      if st.value is None: return kret(None, ctx)
      return s.ev(st.value, ctx, kret)
    if isinstance(st, ast.Raise):
      s.raises = True
      if s.cur_mode == 'pure': fail(st, 'raise in a pure function')
      if st.exc is None: fail(st, 'bare raise outside an except handler')
      e = st.exc.func if isinstance(st.exc, ast.Call) else st.exc
      return f'.raised {lstr(src(e))}'
    if isinstance(st, ast.Assert):
      # `assert c`: AssertionError when c is false
      def fin(v, c):
        s.raises = True
        if s.cur_mode == 'pure': fail(st, 'assert in a pure function')
        return f'if {s.truthy(v, st)} then\n{indent(nxt(c))}\nelse .raised "AssertionError"'
      return s.ev(st.test, ctx, fin)
    if isinstance(st, ast.Try):
      if st.orelse or st.finalbody or len(st.handlers) != 1: fail(st, 'try form outside the subset')
      h = st.handlers[0]
      ok = h.type is None and h.name is None and h.body and isinstance(h.body[-1], ast.Raise) and h.body[-1].exc is None and \
        all(isinstance(x, ast.Expr) and isinstance(x.value, ast.Call) and isinstance(x.value.func, ast.Name) and
            x.value.func.id == 'print' for x in h.body[:-1])
      if not ok: fail(st, 'except handler is not `except: print(..); raise`')
      return s.exec_block(list(st.body) + rest, ctx, k, kret)
    if isinstance(st, ast.If): return s.exec_if(st, rest, ctx, k, kret)
    if isinstance(st, ast.Assign):
      if len(st.targets) != 1: fail(st, 'chained assignment')
      return s.ev(st.value, ctx, lambda v, c: s.assign(st.targets[0], v, st, c, nxt))
    if isinstance(st, ast.AugAssign):
      tgt = st.target
      if isinstance(st.op, ast.MatMult):
        path = attr_path(tgt)
        if not (path and path[0] == 's' and len(path) == 2 and s.ftypes.get(path[1], ('',))[0] == 'bits' and path[1] in s.signals):
          fail(st, '@= on something that is not a signal of the component')
        w = s.ftypes[path[1]][1]
        def fin(v, c):
          if v.type[0] == 'int':
            if not 0 <= v.type[1] < (1 << w): fail(st, 'constant does not fit the signal')
          elif v.type != bits(w): fail(st, f'@= of a {v.type} to a Bits{w} signal')
          c.fields[path[1]] = Val(v.text, bits(w))
          return nxt(c)
        return s.ev(st.value, ctx, fin)
      load = ast.copy_location(ast.BinOp(left=to_load(tgt), op=st.op, right=st.value), st)
      return s.ev(load, ctx, lambda v, c: s.assign(tgt, v, st, c, nxt))
    fail(st, 'statement outside the subset')

  def assign(s, tgt, v, st, ctx, nxt):
    if isinstance(tgt, ast.Name):
      ctx.locals[tgt.id] = v
      return nxt(ctx)
    if isinstance(tgt, ast.Tuple) and all(isinstance(e, ast.Name) for e in tgt.elts):
      if v.type[0] != 'tuple' or len(v.type[1]) != len(tgt.elts): fail(st, f'unpacking a {v.type}')
      n = len(tgt.elts)
      for i, e in enumerate(tgt.elts):
        if v.parts is not None: ctx.locals[e.id] = v.parts[i]
        else:
          proj = v.text + ('.2' * i) + ('.1' if i < n - 1 else '')
          ctx.locals[e.id] = Val(proj, v.type[1][i])
      return nxt(ctx)
    if isinstance(tgt, ast.Attribute):
      path = attr_path(tgt)
      if path and path[0] == 's' and len(path) == 2 and ctx.selfref is None:
        f = path[1]
        if f in s.signals: fail(st, 'plain assignment to a signal')
        if f not in s.ftypes or f in s.ifcs: fail(st, 'assignment to an attribute the constructor does not define')
        if s.ftypes[f][0] == 'regfile': fail(st, 'assignment to the register file attribute')
        nt = join(s.ftypes[f], v.type, f's.{f}')
        if nt != s.ftypes[f]: s.ftypes[f] = nt; s.changed = True
        ctx.fields[f] = Val(v.text, v.type)
        return nxt(ctx)
      fail(st, 'assignment target outside the subset')
    if isinstance(tgt, ast.Subscript):
      base = tgt.value
      # slice assignment to a fresh local Bits value
      if isinstance(base, ast.Name) and base.id in ctx.locals and ctx.locals[base.id].type[0] == 'bits':
        b = ctx.locals[base.id]
        if not b.fresh: fail(st, 'slice assignment to a Bits value that may be shared')
        sl = tgt.slice
        if not isinstance(sl, ast.Slice) or sl.step is not None: fail(st, 'slice form')
        a1, a2 = static_eval(sl.lower, s.tr.statics), static_eval(sl.upper, s.tr.statics)
        if a1[0] != 'int' or a2[0] != 'int': fail(st, 'slice bounds are not constants')
        lo, hi = a1[1], a2[1]
        if not (0 <= lo < hi <= b.type[1]): fail(st, 'slice out of range')
        if v.type != bits(hi - lo): fail(st, f'slice [{lo}:{hi}] assigned a {v.type} (Python raises unless the widths match)')
        ctx.locals[base.id] = Val(f'(setSlice {atom(b.text)} {lo} {hi} {atom(v.text)})', b.type, fresh=True)
        return nxt(ctx)
      # s.R[idx] = value
      def with_base(bv, c):
        if bv.type[0] == 'regfile':
          return s.ev(tgt.slice, c, lambda i, c2: s.call_regfile(bv, '__setitem__', [i, v], st, c2, lambda _v, c3: nxt(c3)))
        if bv.type[0] == 'list' and c.selfref is not None and c.selfref[0] == 'regfile':
          def idx(i, c2):
            t = bv.type
            if v.type != t[1]: fail(st, f'list element of type {v.type}')
            bound = int_bound(i.type)
            new = f'({bv.text}.set {atom(i.text)} {atom(v.text)})'
            if bound is None or bound >= t[2]:
              if not natlike(i.type): fail(st, f'list index of type {i.type}')
              s.raises = True
              c2.selfref[1]['put'](c2, new)
              return f'if {i.text} < {t[2]} then\n{indent(nxt(c2))}\nelse .raised "IndexError"'
            c2.selfref[1]['put'](c2, new)
            return nxt(c2)
          return s.ev(tgt.slice, c, idx)
        fail(st, f'subscript assignment on a {bv.type}')
      return s.ev(base, ctx, with_base)
    fail(st, 'assignment target outside the subset')

  def exec_if(s, st, rest, ctx, k, kret):
    nxt = lambda c: s.exec_block(rest, c, k, kret)
    nar = s.narrowing(st.test, ctx)
    if nar is not None:
      fname, is_field, positive = nar
      cur = (ctx.fields if is_field else ctx.locals)[fname]
      x = s.fresh('x')
      cs, cn = ctx.copy(), ctx.copy()
      (cs.fields if is_field else cs.locals)[fname] = Val(x, cur.type[1])
      sent = cur.type[2]
      (cn.fields if is_field else cn.locals)[fname] = Val('none' if sent is None else str(sent), T_NONE if sent is None else ('int', sent))
      a = s.exec_block(list(st.body if positive else st.orelse) + rest, cs, k, kret)
      b = s.exec_block(list(st.orelse if positive else st.body) + rest, cn, k, kret)
      return f'(match {cur.text} with\n| some {x} =>\n{indent(a)}\n| none =>\n{indent(b)})'
    def after(tv, c1):
      if tv.type == T_BOOL and tv.parts in (True, False):      # statically decided: the other branch never runs
        return s.exec_block(list(st.body if tv.parts else st.orelse) + rest, c1, k, kret)
      cond = s.truthy(tv, st.test)
      if not mergeable(st):          # (a syntactic filter only: whether the branches really merge is decided by running them)
        a = s.exec_block(list(st.body) + rest, c1.copy(), k, kret)
        b = s.exec_block(list(st.orelse) + rest, c1.copy(), k, kret)
        return f'if {cond} then\n{indent(a)}\nelse\n{indent(b)}'
      got = {}
      def cap(tag):
        def kk(c2):
          got[tag] = c2
          return SENT
        return kk
      n0, r0 = s.counter[0], s.raises
      kfail = lambda v, c: '\0RET\0'
      ta = s.exec_block(st.body, c1.copy(), cap('a'), kfail)
      tb = s.exec_block(st.orelse, c1.copy(), cap('b'), kfail)
      if ta == SENT and tb == SENT:
        m = s.merge(cond, got['a'], got['b'])
        if m is not None: return nxt(m)
      s.counter[0] = n0
      a = s.exec_block(list(st.body) + rest, c1.copy(), k, kret)
      b = s.exec_block(list(st.orelse) + rest, c1.copy(), k, kret)
      return f'if {cond} then\n{indent(a)}\nelse\n{indent(b)}'
    return s.ev(st.test, ctx, after)

  def narrowing(s, test, ctx):
    """`X >= 0`, `X is not None`, `X is None` for an Option-typed attribute / local X -> (name, is_field, some-branch-is-body)"""
    if not (isinstance(test, ast.Compare) and len(test.ops) == 1): return None
    l, op, r = test.left, test.ops[0], test.comparators[0]
    path = attr_path(l) if isinstance(l, ast.Attribute) else None
    if path and path[0] == 's' and len(path) == 2 and ctx.selfref is None and path[1] in ctx.fields: name, is_field, cur = path[1], True, ctx.fields[path[1]]
    elif isinstance(l, ast.Name) and l.id in ctx.locals: name, is_field, cur = l.id, False, ctx.locals[l.id]
    else: return None
    if cur.type[0] != 'opt': return None
    sent = cur.type[2]
    if sent is None and isinstance(r, ast.Constant) and r.value is None:
      if isinstance(op, ast.IsNot): return (name, is_field, True)
      if isinstance(op, ast.Is): return (name, is_field, False)
    if sent is not None and sent < 0 and isinstance(op, ast.GtE) and isinstance(r, ast.Constant) and r.value == 0 and cur.type[1][0] == 'bits':
      return (name, is_field, True)      # Bits >= 0 is true, the negative int sentinel >= 0 is false
    fail(test, 'test of an optional value outside the subset')

  def merge(s, cond, ca, cb):
    out = ca.copy()
    for store_a, store_b, store_o, is_field in ((ca.fields, cb.fields, out.fields, True), (ca.locals, cb.locals, out.locals, False)):
      for name in set(store_a) | set(store_b):
        va, vb = store_a.get(name), store_b.get(name)
        if va is None or vb is None:
          if is_field: return None
          store_o.pop(name, None)       # a local defined on one path only: not usable afterwards
          continue
        if va.text == vb.text and va.type == vb.type: continue
        if va.type[0] in ('regfile',) and vb.type == va.type:
          store_o[name] = Val(f'(if {cond} then {va.text} else {vb.text})', va.type, parts=va.parts); continue
        try: t = join(va.type, vb.type)
        except Fail: return None
        try: store_o[name] = Val(f'(if {cond} then {coerce(va, t)} else {coerce(vb, t)})', t)
        except Fail: return None
    if ca.world != cb.world: out.world = f'(if {cond} then {ca.world} else {cb.world})'
    return out

_MERGEABLE = {}
PURE_CALLS = re.compile(r'sext|zext|b\d+|Bits\d+')
def mergeable(st):
  """could the two branches of this `if` consist of plain assignments only?  (no return / raise / assert, no call other than
  sext / BitsN(..) / .uint(), no attribute `name` -- the one property that raises)"""
  key = id(st)
  if key not in _MERGEABLE:
    ok = True
    for b in list(st.body) + list(st.orelse):
      for n in ast.walk(b):
        if isinstance(n, (ast.Return, ast.Raise, ast.Assert, ast.Try)): ok = False
        elif isinstance(n, ast.Call):
          f = n.func
          if not ((isinstance(f, ast.Name) and PURE_CALLS.fullmatch(f.id)) or (isinstance(f, ast.Attribute) and f.attr == 'uint')): ok = False
        elif isinstance(n, ast.Attribute) and n.attr == 'name': ok = False
        if not ok: break
      if not ok: break
    _MERGEABLE[key] = (ok, st)        # keep `st` alive so that the id stays unique
  return _MERGEABLE[key][0]

def int_bound(t):
  if t[0] == 'bits': return (1 << t[1]) - 1
  if t[0] == 'dyn': return t[1]
  if t[0] == 'int' and t[1] >= 0: return t[1]
  return None

def attr_path(node):
  out = []
  while isinstance(node, ast.Attribute):
    out.append(node.attr); node = node.value
  if isinstance(node, ast.Name):
    out.append(node.id)
    return list(reversed(out))
  return None

def to_load(node):
  n = ast.parse(src(node), mode='eval').body
  return ast.copy_location(n, node)

# ----------------------------------------------------------------------------------------------- components

class Comp(Unit):
  def __init__(s, tr, key, ns, clsname, level):
    super().__init__(tr, key, ns)
    s.clsname, s.level = clsname, level
    s.signals = set()
    s.blocks = []      # (name, FunctionDef)
    s.conns = []       # text of `//=` statements
    s.out = []

  def find_class(s):
    for st in s.tr.trees[s.key].body:
      if isinstance(st, ast.ClassDef) and st.name == s.clsname: return st
    raise Fail(f'class {s.clsname} not found in {FILES[s.key]}')

  def read_construct(s):
    tr = s.tr
    cdef = s.find_class()
    con = next((f for f in cdef.body if isinstance(f, ast.FunctionDef) and f.name == 'construct'), None)
    if con is None or len(con.args.args) != 1: fail(cdef, 'construct( s ) expected')
    for f in cdef.body:
      if isinstance(f, ast.FunctionDef) and f.name not in ('construct', 'line_trace'): fail(f, 'method of the component outside the subset')
    for st in con.body:
      if isinstance(st, ast.Expr) and isinstance(st.value, ast.Constant) and isinstance(st.value.value, str): continue
      if isinstance(st, ast.FunctionDef):
        decs = [d.id for d in st.decorator_list if isinstance(d, ast.Name)]
        if decs != ['update_once'] or st.args.args: fail(st, 'block is not a parameterless @update_once')
        s.blocks.append((st.name, st)); continue
      if isinstance(st, ast.Assign) and len(st.targets) == 1:
        tgt, val = st.targets[0], st.value
        if isinstance(tgt, ast.Tuple) and isinstance(val, ast.Call) and isinstance(val.func, ast.Name) and \
           val.func.id in ('mk_mem_msg', 'mk_xcel_msg') and all(isinstance(e, ast.Name) for e in tgt.elts) and len(tgt.elts) == 2:
          ps = [static_eval(a, tr.statics) for a in val.args]
          if not all(p[0] == 'int' for p in ps): fail(st, 'message parameters')
          pair = factory_pair(tr.trees['memmsg' if val.func.id == 'mk_mem_msg' else 'xcelmsg'], val.func.id, [p[1] for p in ps])
          for e, (cname, fs) in zip(tgt.elts, pair):
            if cname in tr.msgs and tr.msgs[cname] != fs: fail(st, f'two different message classes named {cname}')
            tr.msgs[cname] = fs
            s.cl_locals[e.id] = Val('', ('msgcls', cname))
          continue
        path = attr_path(tgt) if isinstance(tgt, ast.Attribute) else None
        if path and path[0] == 's' and len(path) == 2:
          s.declare(path[1], val, st); continue
      if isinstance(st, ast.AugAssign) and isinstance(st.op, ast.FloorDiv):
        s.connect(st); continue
      fail(st, 'statement of construct outside the subset')

  def declare(s, name, val, st):
    tr = s.tr
    if name in s.ftypes or name in s.ifcs: fail(st, 'attribute defined twice in construct')
    if isinstance(val, ast.Call) and isinstance(val.func, ast.Name):
      f = val.func.id
      if f == 'OutPort' and len(val.args) == 1:
        t = static_eval(val.args[0], tr.statics)
        if t[0] != 'type': fail(st, 'port type')
        s.signals.add(name); s.ftypes[name] = bits(t[1]); s.finit[name] = Val('0', bits(t[1])); s.forder.append(name); return
      if f == 'RegisterFile' and len(val.args) == 1:
        n = static_eval(val.args[0], tr.statics)
        if n[0] != 'int' or n[1] <= 0: fail(st, 'RegisterFile size')
        s.ftypes[name] = ('regfile', n[1]); s.finit[name] = Val(tr.regfile_init(n[1], st), ('regfile', n[1]), parts=name)
        s.forder.append(name); return
      if s.declare_ifc(name, f, val, st): return
    # plain value attribute: evaluate statically with the expression compiler (no attributes, no world)
    ctx = Ctx({}, {}, None)
    got = []
    s.cur_mode = 'pure'
    s.ev(val, ctx, lambda v, c: got.append(v) or '')
    if not got: fail(st, 'initial value')
    v = got[0]
    if v.type[0] not in ('bits', 'none', 'int', 'enum'): fail(st, f'initial value of type {v.type}')
    s.ftypes[name] = v.type; s.finit[name] = v; s.forder.append(name)

  def declare_ifc(s, name, f, val, st): return False
  def connect(s, st): fail(st, 'connection outside the subset')

  def st_record(s, ctx, ind=0):
    items = []
    for f in s.forder:
      items.append(f'{f} := {coerce(ctx.fields[f], s.decl_type(f), "s." + f)}')
    return '{ ' + ', '.join(items) + ' : St }'

  def decl_type(s, f):
    t = s.ftypes[f]
    return ('list', bits(32), t[1]) if t[0] == 'regfile' else t

  def entry_ctx(s):
    fields = {}
    for f in s.forder:
      t = s.ftypes[f]
      fields[f] = Val(f's.{f}', t, parts=f if t[0] == 'regfile' else None)
    return Ctx(fields, {}, 'w')

  def compile_block(s, name, fdef):
    s.counter[0] = 0
    s.cur_mode = 'res'
    leaf = lambda c: f'.ok ({s.st_record(c)}, {c.world})'
    body = s.exec_block(fdef.body, s.entry_ctx(), leaf, lambda v, c: leaf(c) if v is None else fail(fdef, 'block returns a value'))
    return body

  def render(s):
    """fixpoint over the declared attribute / queue element types, then the text"""
    for _ in range(8):
      s.changed = False
      s.env = {}
      bodies, errs = [], []
      for n, f in s.blocks:
        try: bodies.append((n, s.compile_block(n, f)))
        except Fail as e: errs.append(f'{n}: {e}')
      if not s.changed:
        if errs: raise Fail(errs[0])
        break
    else: raise Fail(f'{s.clsname}: attribute types do not stabilise')
    L = []
    L.append(f'/-- the attributes of `{s.clsname}` that its blocks read or write (construct: ' +
             ', '.join(f'`s.{f}`' for f in s.forder) + ') -/')
    L.append('structure St where')
    for f in s.forder: L.append(f'  {f} : {lean_type(s.decl_type(f))}')
    L.append('')
    L.append(f'/-- the value of every attribute after `construct` -/')
    L.append('def init : St :=\n  { ' + ', '.join(f'{f} := {coerce(s.finit[f], s.decl_type(f))}' for f in s.forder) + ' }')
    L.append('')
    L.append(f'/-- what the blocks of `{s.clsname}` call on the interfaces' + (' and child queues' if s.level == 'cl' else '') +
             ' (`W` = the world behind them); only the SHAPE of each method is fixed here -/')
    L.append('structure Env (W : Type) where')
    for n, (sig, doc) in s.env.items(): L.append(f'  /-- {doc} -/\n  {n} : {sig}')
    L.append('')
    for n, body in bodies:
      fdef = dict(s.blocks)[n]
      L.append(f'/-- `{s.clsname}.{n}` ({FILES[s.key]}:{fdef.lineno}) -/')
      L.append(f'def {n} {{Wd : Type}} (env : Env Wd) (reset : Bool) (s : St) (w : Wd) : Res (St × Wd) :=')
      L.append(indent(body)); L.append('')
    if s.conns:
      L.append('/-- the `//=` statements of construct (names only) -/')
      L.append('def connections : List (String × String) :=\n  [' + ', '.join(f'({lstr(a)}, {lstr(b)})' for a, b in s.conns) + ']')
      L.append('')
    return '\n'.join(L)

class CompFL(Comp):
  def declare_ifc(s, name, f, val, st):
    if f in FL_IFCS:
      if val.args: fail(st, 'interface parameters')
      s.ifcs[name] = ('fl', f); return True
    return False

  def env_call(s, path, vs, node, ctx, k):
    kind, cls = s.ifcs[path[0]]
    meth = path[1] if len(path) == 2 else '__call__' if len(path) == 1 else None
    if meth is None or meth not in FL_IFCS[cls]: fail(node, f'{cls} has no method {".".join(path[1:])}')
    shape, argkinds, ret = FL_IFCS[cls][meth]
    if len(vs) != len(argkinds): fail(node, 'argument count of the interface method')
    texts = []
    nbytes = None
    for v, ak in zip(vs, argkinds):
      if ak == 'static':
        if v.type[0] != 'int' or v.type[1] <= 0: fail(node, 'byte count is not a positive constant')
        nbytes = v.type[1]
      elif not natlike(v.type): fail(node, f'interface argument of type {v.type}')
      texts.append(atom(v.text))
    if ret == 'bytes': ret = bits(8 * nbytes)
    fname = path[0] + '_' + (meth if meth != '__call__' else 'call')
    args = ' '.join(texts)
    nats = ' → '.join(['Nat'] * len(vs))
    arrow = (nats + ' → ') if vs else ''
    pydoc = f's.{".".join(path)}({", ".join(["addr", "nbytes", "data"][:len(vs)] if cls.startswith("Mem") else ["a", "b"][:len(vs)])})'
    if shape == 'pure':
      s.note_env(fname, f'W → {arrow}Nat', f'`{pydoc}` of a {cls}: the value returned (a Bits{ret[1]})')
      x = s.fresh('v')
      return f'let {x} := env.{fname} {ctx.world} {args};\n' + k(Val(x, ret), ctx)
    if shape == 'upd':
      s.note_env(fname, f'W → {arrow}W', f'`{pydoc}` of a {cls}: the world afterwards')
      x = s.fresh('w')
      text = f'env.{fname} {ctx.world} {args}'.rstrip()
      ctx.world = x
      return f'let {x} := {text};\n' + k(Val('()', T_NONE), ctx)
    if shape == 'valupd':
      s.note_env(fname, f'W → {arrow}Nat × W', f'`{pydoc}` of a {cls}: the value returned (a Bits{ret[1]}) and the world afterwards')
      x = s.fresh('p')
      text = f'env.{fname} {ctx.world} {args}'.rstrip()
      ctx.world = f'{x}.2'
      return f'let {x} := {text};\n' + k(Val(f'{x}.1', ret), ctx)
    if shape == 'block':
      s.note_env(fname, f'W → {arrow}Option (Nat × W)',
                 f'`{pydoc}` of a {cls}: `none` = the call does not return (nothing to get), else the value (a Bits{ret[1]}) and the world afterwards')
      x, y = s.fresh('v'), s.fresh('w')
      text = f'env.{fname} {ctx.world} {args}'.rstrip()
      ctx.world = y
      return f'(match {text} with\n| none => .blocked\n| some ({x}, {y}) =>\n' + indent(k(Val(x, ret), ctx)) + ')'
    fail(node, 'interface method shape')

class CompCL(Comp):
  def declare_ifc(s, name, f, val, st):
    tr = s.tr
    if f in ('MemMasterIfcCL', 'XcelMasterIfcCL'):
      if len(val.args) != 2 or not all(isinstance(a, ast.Name) and a.id in s.cl_locals for a in val.args): fail(st, 'interface parameters')
      s.ifcs[name] = ('master', s.cl_locals[val.args[0].id].type[1], s.cl_locals[val.args[1].id].type[1]); return True
    if f == 'CallerIfcCL' and not val.args: s.ifcs[name] = ('caller', None); return True
    if f == 'CalleeIfcCL' and not val.args: s.ifcs[name] = ('callee', None); return True
    if f in CL_QUEUES and len(val.args) == 1:
      n = static_eval(val.args[0], tr.statics)
      if n[0] != 'int': fail(st, 'queue parameter')
      s.ifcs[name] = ('queue', f, n[1]); return True
    return False

  def connect(s, st):
    a, b = attr_path(st.target), attr_path(st.value)
    if not (a and b and a[0] == 's' and b[0] == 's'): fail(st, 'connection outside the subset')
    # <queue>.enq //= <master>.resp | <callee port>
    if len(a) == 3 and a[2] == 'enq' and s.ifcs.get(a[1], ('',))[0] == 'queue':
      if len(b) == 3 and b[2] == 'resp' and s.ifcs.get(b[1], ('',))[0] == 'master': et = ('msg', s.ifcs[b[1]][2])
      elif len(b) == 2 and s.ifcs.get(b[1], ('',))[0] == 'callee': et = T_NAT
      else: fail(st, 'connection outside the subset')
      if a[1] in s.qelem: fail(st, 'queue connected twice')
      s.qelem[a[1]] = et
      s.conns.append(('.'.join(a), '.'.join(b))); return
    fail(st, 'connection outside the subset')

  def elem_lean(s, q):
    return paren_type(lean_type(s.qelem[q]))

  def env_call(s, path, vs, node, ctx, k):
    d = s.ifcs[path[0]]
    fname = '_'.join(path)
    W = ctx.world
    if d[0] == 'queue':
      q = path[0]
      rest = path[1:]
      if rest in (['enq', 'rdy'], ['deq', 'rdy']) and not vs:
        s.note_env(fname, 'W → Bool', f'`s.{".".join(path)}()` of the {d[1]}({d[2]})')
        return k(Val(f'(env.{fname} {W})', T_BOOL), ctx)
      if rest == ['enq'] and len(vs) == 1:
        v = vs[0]
        old = s.qelem.get(q)
        nt = v.type if old is None else join(old, v.type, f'elements of s.{q}')
        if nt != old: s.qelem[q] = nt; s.changed = True
        s.note_env(fname, f'W → {s.elem_lean(q)} → W', f'`s.{q}.enq( msg )`: the world afterwards')
        x = s.fresh('w')
        text = f'env.{fname} {W} {atom(coerce(v, s.qelem[q], "enq"))}'
        ctx.world = x
        return f'let {x} := {text};\n' + k(Val('()', T_NONE), ctx)
      if q not in s.qelem:
        # nothing enqueued yet in this pass of the fixpoint: a placeholder type, a further pass follows
        s.qelem[q] = T_NONE; s.changed = True
      et = s.qelem[q]
      if rest == ['peek'] and not vs:
        s.note_env(fname, f'W → {s.elem_lean(q)}', f'`s.{q}.peek()`: the oldest element')
        x = s.fresh('v')
        return f'let {x} := env.{fname} {W};\n' + k(Val(x, et), ctx)
      if rest == ['deq'] and not vs:
        s.note_env(fname, f'W → {s.elem_lean(q)} × W', f'`s.{q}.deq()`: the element removed and the world afterwards')
        x = s.fresh('p')
        ctx.world = f'{x}.2'
        return f'let {x} := env.{fname} {W};\n' + k(Val(f'{x}.1', et), ctx)
      fail(node, 'queue method outside the subset')
    if d[0] == 'master':
      if path[1:] == ['req', 'rdy'] and not vs:
        s.note_env(fname, 'W → Bool', f'`s.{".".join(path)}()`')
        return k(Val(f'(env.{fname} {W})', T_BOOL), ctx)
      if path[1:] == ['req'] and len(vs) == 1:
        if vs[0].type != ('msg', d[1]): fail(node, f'request of type {vs[0].type}')
        s.note_env(fname, f'W → {d[1]} → W', f'`s.{path[0]}.req( msg )`: the world afterwards')
        x = s.fresh('w')
        text = f'env.{fname} {W} {atom(vs[0].text)}'
        ctx.world = x
        return f'let {x} := {text};\n' + k(Val('()', T_NONE), ctx)
      fail(node, 'interface method outside the subset')
    if d[0] == 'caller':
      if path[1:] == ['rdy'] and not vs:
        s.note_env(fname, 'W → Bool', f'`s.{".".join(path)}()`')
        return k(Val(f'(env.{fname} {W})', T_BOOL), ctx)
      if len(path) == 1 and len(vs) == 1:
        if not natlike(vs[0].type): fail(node, f'message of type {vs[0].type}')
        s.note_env(fname + '_call', 'W → Nat → W', f'`s.{path[0]}( msg )`: the world afterwards')
        x = s.fresh('w')
        text = f'env.{fname}_call {W} {atom(vs[0].text)}'
        ctx.world = x
        return f'let {x} := {text};\n' + k(Val('()', T_NONE), ctx)
      fail(node, 'interface method outside the subset')
    fail(node, 'call on this attribute outside the subset')

# ----------------------------------------------------------------------------------------------- the translator

class Translator:
  def __init__(s, root):
    s.root = root
    s.trees = {}
    for k, rel in FILES.items():
      with open(os.path.join(root, rel)) as f: s.trees[k] = ast.parse(f.read())
    s.statics = module_statics(s.trees['enc'])
    s.msgs = {}                      # message class -> [(field, width)]
    s.constcls = {'MemMsgType': class_int_attrs(s.trees['memmsg'], 'MemMsgType'),
                  'XcelMsgType': class_int_attrs(s.trees['xcelmsg'], 'XcelMsgType')}
    s.enums = {}
    s.inst_defs = {}                 # property -> (text of the definition, result type, raises)
    s.inst_order = []
    s.inst_busy = set()
    s.failures = []
    s.inst_cls = s.find_class('enc', 'TinyRV0Inst')
    s.regfile_cls = s.find_class('enc', 'RegisterFile')
    s.regfile_methods = {f.name: f for f in s.regfile_cls.body if isinstance(f, ast.FunctionDef)}
    s.check_inst_init()

  def find_class(s, key, name):
    for st in s.trees[key].body:
      if isinstance(st, ast.ClassDef) and st.name == name: return st
    raise Fail(f'class {name} not found in {FILES[key]}')

  def check_inst_init(s):
    init = next((f for f in s.inst_cls.body if isinstance(f, ast.FunctionDef) and f.name == '__init__'), None)
    if init is None or src(init.body[0] if len(init.body) == 1 else init) != 'self.bits = Bits32(bits)' or \
       [a.arg for a in init.args.args] != ['self', 'bits']:
      raise Fail('TinyRV0Inst.__init__ is not `self.bits = Bits32( bits )`')
    for f in s.inst_cls.body:
      if isinstance(f, ast.FunctionDef) and f.name not in ('__init__', '__str__'):
        if [src(d) for d in f.decorator_list] != ['property'] or [a.arg for a in f.args.args] != ['self']:
          fail(f, 'member of TinyRV0Inst that is not a property')
    if set(s.regfile_methods) != {'__init__', '__getitem__', '__setitem__'}: raise Fail('RegisterFile: unexpected set of methods')

  def regfile_init(s, n, node):
    """RegisterFile.__init__: `self.regs = [ Bits32(0) for i in range(nregs) ]`"""
    f = s.regfile_methods['__init__']
    if [a.arg for a in f.args.args] != ['self', 'nregs'] or len(f.body) != 1: fail(f, 'RegisterFile.__init__ outside the subset')
    st = f.body[0]
    ok = isinstance(st, ast.Assign) and src(st.targets[0]) == 'self.regs' and isinstance(st.value, ast.ListComp) and \
      len(st.value.generators) == 1 and src(st.value.generators[0].iter) == 'range(nregs)' and not st.value.generators[0].ifs and \
      isinstance(st.value.generators[0].target, ast.Name)
    if not ok: fail(st, 'RegisterFile.__init__ outside the subset')
    elt = st.value.elt
    m = isinstance(elt, ast.Call) and isinstance(elt.func, ast.Name) and re.fullmatch(r'Bits32|b32', elt.func.id) and len(elt.args) == 1 and \
      isinstance(elt.args[0], ast.Constant) and isinstance(elt.args[0].value, int)
    if not m or not 0 <= elt.args[0].value < (1 << 32): fail(st, 'register initial value outside the subset')
    return f'(List.replicate {n} {elt.args[0].value})'

  # ---- TinyRV0Inst properties: one definition each
  def inst_property(s, name, bits_text, node):
    if name not in s.inst_defs: s.compile_property(name, node)
    text, t, raises = s.inst_defs[name]
    if raises: fail(node, f'property {name} can raise and is used where that is not handled')
    return Val(f'(Inst.{name} {atom(bits_text)})', t)

  def inst_property_k(s, unit, name, bits_text, node, ctx, k):
    if name not in s.inst_defs: s.compile_property(name, node)
    text, t, raises = s.inst_defs[name]
    if not raises: return k(Val(f'(Inst.{name} {atom(bits_text)})', t), ctx)
    unit.raises = True
    if unit.cur_mode == 'pure': fail(node, 'a raising property inside a pure function')
    x = unit.fresh('v')
    return f'(match Inst.{name} {atom(bits_text)} with\n| .raised e => .raised e\n| .blocked => .blocked\n| .ok {x} =>\n' + indent(k(Val(x, t), ctx)) + ')'

  def compile_property(s, name, node):
    fdef = next((f for f in s.inst_cls.body if isinstance(f, ast.FunctionDef) and f.name == name), None)
    if fdef is None or name in ('__init__', '__str__'): fail(node, f'TinyRV0Inst has no property {name}')
    if name in s.inst_busy: fail(node, 'recursive property')
    s.inst_busy.add(name)
    u = Unit(s, 'enc', 'Inst')
    result = {}
    for mode in ('pure', 'res'):
      u.cur_mode, u.raises, u.counter = mode, False, [0]
      rtypes = []
      def kret(v, c):
        if v is None: fail(fdef, 'return without a value')
        rtypes.append(v.type)
        return v.text if mode == 'pure' else f'.ok {atom(v.text)}'
      def kend(c): fail(fdef, 'the property can end without return (would return None)')
      try:
        body = u.exec_block(fdef.body, Ctx({}, {}, None, ('inst', None)), kend, kret)
      except Fail as e:
        if mode == 'pure' and ('pure function' in str(e)): continue
        raise
      t = rtypes[0]
      for r in rtypes[1:]: t = t if r == t else join(t, r, f'results of {name}')
      result = (body, t, mode == 'res')
      break
    s.inst_busy.discard(name)
    body, t, raises = result
    lt = lean_type(t)
    sig = f'def {name} (bits : Nat) : {("Res " + paren_type(lt)) if raises else lt} :='
    doc = f'/-- `TinyRV0Inst.{name}` ({FILES["enc"]}:{fdef.lineno}); `bits` = `self.bits`, a Bits32' + \
          (f'; the result is a Bits{t[1]}' if t[0] == 'bits' else '') + ' -/'
    s.inst_defs[name] = (doc + '\n' + sig + '\n' + indent(body) + '\n', t, raises)
    s.inst_order.append(name)

  def read_enums(s, key):
    for st in s.trees[key].body:
      if isinstance(st, ast.ClassDef) and [src(b) for b in st.bases] == ['Enum']:
        s.enums[st.name] = class_int_attrs(s.trees[key], st.name)

  # ---- files
  def gen_fl(s):
    try:
      props = [f.name for f in s.inst_cls.body if isinstance(f, ast.FunctionDef) and f.name not in ('__init__', '__str__')]
      for p in props:
        if p not in s.inst_defs: s.compile_property(p, s.inst_cls)
      fl = CompFL(s, 'fl', 'FL', 'ProcFL', 'fl')
      fl.read_construct()
      fl_text = fl.render()
      L = ['/-! ## class `TinyRV0Inst` (tinyrv0_encoding.py): one definition per property -/', '', 'namespace Inst', '']
      for p in s.inst_order: L.append(s.inst_defs[p][0])
      L.append('/-- the properties, in source order -/')
      L.append('def properties : List String :=\n  [' + ', '.join(lstr(p) for p in props) + ']')
      L += ['', 'end Inst', '', '/-! ## class `ProcFL` (ProcFL.py); `RegisterFile.__getitem__` / `__setitem__` are inlined -/', '',
            'namespace FL', '', fl_text, 'end FL', '']
      body = '\n'.join(L)
    except Fail as e:
      s.failures.append(('ProcFLGen', str(e)))
      body = failed_stub(e)
    return HEADER_FL + body + '\nend PV.ProcFLGen\n'

  def gen_cl(s):
    try:
      s.read_enums('cl')
      cl = CompCL(s, 'cl', 'CL', 'ProcCL', 'cl')
      cl.read_construct()
      text = cl.render()
      L = []
      for cname, fs in s.msgs.items():
        L.append(f'/-- message class `{cname}` ({", ".join(f"{n}: Bits{w}" for n, w in fs)}) -/')
        L.append(f'structure {cname} where')
        for n, w in fs: L.append(f'  {lean_field(n)} : Nat')
        L.append('deriving DecidableEq, Repr, Inhabited'); L.append('')
      for en, members in s.enums.items():
        L.append(f'/-- `class {en}( Enum )` -/')
        for mname, mv in members.items(): L.append(f'def {en}_{mname} : Nat := {mv}')
        L.append('')
      L.append('/-- the element type of each child queue, as inferred from what is enqueued / connected -/')
      L.append('def queueElems : List (String × String) :=\n  [' +
               ', '.join(f'({lstr(q)}, "{lean_type(t)}")' for q, t in cl.qelem.items()) + ']')
      L.append(''); L.append(text)
      body = '\n'.join(L)
    except Fail as e:
      s.failures.append(('ProcCLGen', str(e)))
      body = failed_stub(e)
    return HEADER_CL + body + '\nend PV.ProcCLGen\n'

def failed_stub(e):
  """the generated module when something is outside the subset: it must NOT compile (so nothing that imports it is
  elaborated against half a file), and it says why"""
  msg = str(e).replace('-/', '- /').replace('"', "'")
  return f'/- TRANSLATION FAILED: {msg} -/\ntheorem TRANSLATION_FAILED : False := by\n  fail "py2lean_procfl: {msg[:300]}"\n'

PRELUDE = '''/-- the outcome of a block / property: normal end, an exception (the text of the raised expression), or a call that never returns -/
inductive Res (α : Type) where
  | ok (a : α)
  | raised (exc : String)
  | blocked
deriving DecidableEq, Repr

/-- `sext(x, n)` of a `w`-bit value (`Bits( n, x.int() )`) -/
def sext (w n x : Nat) : Nat := if x < 2^(w-1) then x else x + (2^n - 2^w)
/-- `x[a:b] = v` on a Bits value `x`: bits a..b-1 replaced by the (b-a)-bit value `v` -/
def setSlice (x a b v : Nat) : Nat := x - (x / 2^a % 2^(b-a)) * 2^a + v * 2^a
'''

HEADER_FL = '''/-
GENERATED by tools/py2lean_procfl.py from examples/ex03_proc/{tinyrv0_encoding,ProcFL}.py.  Do not edit: the file is
regenerated from the current Python source on every check of C20; Props/C20fGen.lean proves every definition below equal
to the corresponding part of the ISA model Model/TinyRV0.lean (generated = model).
-/
set_option linter.unusedVariables false

namespace PV.ProcFLGen

''' + PRELUDE + '\n'

HEADER_CL = '''/-
GENERATED by tools/py2lean_procfl.py from examples/ex03_proc/ProcCL.py (+ the message classes of pymtl3/stdlib/mem/MemMsg.py,
pymtl3/stdlib/ifcs/XcelMsg.py).  Do not edit: regenerated from the current Python source on every check of C20;
Props/C20cGen.lean proves the execute semantics of the blocks below equal to the ISA model's.
-/
import PymtlVerif.Gen.ProcFLGen
set_option linter.unusedVariables false

namespace PV.ProcCLGen
open PV.ProcFLGen

'''

def write_if_changed(path, text):
  try:
    with open(path) as f: old = f.read()
  except OSError: old = None
  if old == text: return False
  os.makedirs(os.path.dirname(path), exist_ok=True)
  tmp = path + '.tmp'
  with open(tmp, 'w') as f: f.write(text)
  os.replace(tmp, path)
  return True

def default_root():
  """$PV_REPO (tools/try_seed.sh points it at a seeded worktree), else the tree the imported pymtl3 lives in, else /repo"""
  if os.environ.get('PV_REPO'): return os.environ['PV_REPO']
  try:
    import pymtl3
    root = os.path.dirname(os.path.dirname(os.path.abspath(pymtl3.__file__)))
    if os.path.exists(os.path.join(root, FILES['fl'])): return root
  except Exception: pass
  return '/repo'

def generate(src_root):
  t = Translator(src_root)
  fl = t.gen_fl()
  cl = t.gen_cl()
  return {'ProcFLGen.lean': fl, 'ProcCLGen.lean': cl}, t.failures

def pregen(src_root=None, out_dir=DEFAULT_DIR):
  """hook of harness/checks/c20.py (`pregen(ck)`): regenerate Gen/ProcFLGen.lean and Gen/ProcCLGen.lean from the source tree the
  check runs ($PV_REPO or /repo); raises if something is outside the rendered subset (-> broken obligation)"""
  if src_root is None: src_root = default_root()
  try:
    texts, failures = generate(src_root)
  except (OSError, SyntaxError, Fail) as e:
    raise RuntimeError(f'py2lean_procfl could not read / parse the source: {e}')
  for name, text in texts.items(): write_if_changed(os.path.join(out_dir, name), text)
  if failures:
    raise RuntimeError('py2lean_procfl could not translate: ' + ' | '.join(f'{n}: {m}' for n, m in failures))
  ndefs = sum(len(re.findall(r'^def ', t, re.M)) for t in texts.values())
  return [f'Gen/ProcFLGen.lean and Gen/ProcCLGen.lean were regenerated before the build from {os.path.join(src_root, EX)} '
          f'(tinyrv0_encoding.py, ProcFL.py, ProcCL.py) by tools/py2lean_procfl.py ({ndefs} definitions)']

def main():
  ap = argparse.ArgumentParser()
  ap.add_argument('--src-root', default=default_root())
  ap.add_argument('--out-dir', default=DEFAULT_DIR)
  ap.add_argument('--stdout', action='store_true')
  ap.add_argument('--check', action='store_true')
  a = ap.parse_args()
  texts, failures = generate(a.src_root)
  for name, msg in failures: print(f'py2lean_procfl: FAILED {name}: {msg}', file=sys.stderr)
  rc = 0
  for name, text in texts.items():
    path = os.path.join(a.out_dir, name)
    if a.stdout: sys.stdout.write(text)
    elif a.check:
      try: same = open(path).read() == text
      except OSError: same = False
      if not same:
        print(f'py2lean_procfl: {path} is not what the current source generates', file=sys.stderr); rc = 1
    else:
      changed = write_if_changed(path, text)
      print(f'py2lean_procfl: {path} {"rewritten" if changed else "unchanged"}')
  sys.exit(3 if failures else rc)

if __name__ == '__main__':
  main()
