#!/usr/bin/env python3
"""ingest.py <Cxx> <n> <checks...>: copy /tmp/mut12/Cxx/_out to /verif/seeded/Cxx-n, run try_seed, record result in meta.json"""
import sys, os, shutil, subprocess, json, re
pid, n, checks = sys.argv[1], sys.argv[2], sys.argv[3:]
src = f'{os.environ.get("MUTDIR","/tmp/mut12")}/{pid}/_out'; dst = f'/verif/seeded/{pid}-{n}'
os.makedirs(dst, exist_ok=True)
for f in ('patch.diff', 'demo.py', 'meta.json'):
    if os.path.exists(os.path.join(src, f)): shutil.copy(os.path.join(src, f), os.path.join(dst, f))
env = dict(os.environ)
if os.environ.get('SKIP_SUITE'): env['SKIP_SUITE'] = '1'
r = subprocess.run(['tools/try_seed.sh', dst, 'quick'] + checks, cwd='/verif', env=env, stdout=subprocess.PIPE, stderr=subprocess.STDOUT, text=True)
out = r.stdout
print(out[-3000:])
m = json.load(open(os.path.join(dst, 'meta.json')))
exits = re.findall(r'exit=(\d+)', out)
suite = re.search(r'baseline stable_pass=(\d+) passed_now=(\d+) missing=(\d+)', out)
caught = []
for c in checks:
    seg = out.split(f'== check {c} quick')[1] if f'== check {c} quick' in out else ''
    seg = seg.split('== check')[0]
    if 'VIOLATION' in seg:
        caught.append(c + (' (no-failing-input-found)' if 'no-failing-input-found' in seg and not re.search(r'VIOLATION property=\S+ replay=\S+\s*$', seg, re.M) else ''))
m['confirmed_by_verif'] = {
  'ran': f"tools/try_seed.sh (demo clean={exits[0] if exits else '?'} / seeded={exits[1] if len(exits)>1 else '?'}, suite {suite.group(2)+'/'+suite.group(1) if suite else 'skipped'} on the seeded tree, quick tier)",
  'checks_run': checks, 'caught_by': [c + ' quick' for c in caught], 'round': int(os.environ.get('ROUND','12'))}
json.dump(m, open(os.path.join(dst, 'meta.json'), 'w'), indent=1)
print('RESULT', pid, n, m['confirmed_by_verif'])
