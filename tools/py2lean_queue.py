#!/usr/bin/env python3
"""py2lean_queue.py — regenerate lean/PymtlVerif/Gen/QueueGen.lean from the SOURCE of the RTL library queues:

  pymtl3/stdlib/queues/queues.py         -> namespace PV.QueueGen.Q    (Normal/Pipe/Bypass Ctrl, Dpath, 1-entry, wrappers)
  pymtl3/stdlib/stream/queues.py         -> namespace PV.QueueGen.S    (the val/rdy flavour of the same)
  pymtl3/stdlib/queues/enrdy_queues.py   -> namespace PV.QueueGen.ER   (Pipe/Bypass/Normal 1-entry, BypassQueue2RTL)
  pymtl3/stdlib/queues/valrdy_queues.py  -> namespace PV.QueueGen.VR   (Pipe/Bypass/Normal 1-entry, NormalQueueRTL ctrl/dpath/wrapper)
  pymtl3/stdlib/basic_rtl/{registers,arithmetics,register_files}.py -> PV.QueueGen.Basic (Reg, RegEn, RegRst, Mux, RegisterFile
                                                                                             as instantiated by the queues)

The classes are parametric in the capacity (`num_entries` / `nregs`) and in the entry type: the capacity is rendered as the Lean
variable `n`, the entry type as a type variable `α`.  Everything that depends on the capacity stays symbolic: `clog2(n)`,
`n - 1`, the widths of `mk_bits(clog2(num_entries))` ...

What is rendered, with Python's `ast` (anything else makes the translator FAIL: exit status 3 / RuntimeError from pregen):
  * per component class a `structure Sig`: one field per declared signal (`InPort/OutPort/Wire`; the fields of the RTL interfaces
    from the fixed table IFCS; the implicit `reset`; lists of ports of static length as `<name>_<k>`; a list of wires whose length
    is the capacity as a function `Nat → α`) and one per signal of every sub-component instance (`<inst>__<signal>`).
    1-bit signals are `Bool`, signals of the entry type are `α`, everything else is `Nat`;  `widths n` lists the declared widths;
  * attributes holding constants (`s.last_idx = PtrType(num_entries-1)`) as `def c_<name> (n)`;
  * per `@update` block / `//= lambda:` connection and per signal it writes: `def <block>_<signal> (n) (v : Sig) : T`, the value
    assigned as a function of a valuation `v` of the component's signals; per `@update_ff` block and register:
    `def <block>_<signal>_next`.  Statements are executed symbolically in order: `@=`, `<<=`, `if/elif/else` (merged into
    `if c then a else b`; a register not assigned keeps `v.<reg>`; a combinational signal assigned on some paths only keeps the
    extra field `v.<sig>__latch`, the value it held before), `for i in range(<static>)` unrolled, `a if c else b`;
    operators `& | ~` on 1-bit values, `+ -` (modulo 2^w at the operands' width; `int - Bits` likewise), comparisons, `zext`,
    `T(k)` constants, indexing a static port list by a signal (if-chain) and the register list by a signal (function application /
    function update for `<<=`);
  * `side n : Prop`: the conditions under which Python would not raise while building those values (an `int` fits the `Bits` it
    meets, `PtrType(num_entries-1)` fits, `a - b` on ints does not go negative);
  * per sub-component instance `def <inst>__<block>_<signal>`: the sub-component's block applied to the instance's signals;
  * connections between named signals (`connect(a, b)`, `a //= b`) as conjuncts of `def wires (v : Sig) : Prop`;
  * wrapper classes (`NormalQueueRTL` ..., `BypassQueue2RTL`): `sel_one n` (the `if num_entries == 1` test), and per branch the
    instance table `insts_*` and the connection table `conns_*` as lists of strings.
  Static resolution: which file each class is looked up in (FILES / BASIC), the interface field tables (IFCS), which constructor
  parameter is the capacity / the entry type (CAP_PARAMS / TYPE_PARAMS); other constructor parameters come from the
  instantiation or the defaults (`rd_ports=1`, `const_zero=False`, `reset_value=0`, `ninputs=2`).

usage: py2lean_queue.py [--src-root ROOT] [--out FILE | --stdout] [--check]     (ROOT defaults to $PV_REPO or /repo)
exit status: 0 ok, 1 --check mismatch, 3 something could not be translated
"""
import argparse, ast, os, re, sys

HERE = os.path.dirname(os.path.abspath(__file__))
DEFAULT_OUT = os.path.join(os.path.dirname(HERE), 'lean', 'PymtlVerif', 'Gen', 'QueueGen.lean')

STD = os.path.join('pymtl3', 'stdlib')
FILES = {
  'Q': os.path.join(STD, 'queues', 'queues.py'), 'S': os.path.join(STD, 'stream', 'queues.py'),
  'ER': os.path.join(STD, 'queues', 'enrdy_queues.py'), 'VR': os.path.join(STD, 'queues', 'valrdy_queues.py'),
  'regs': os.path.join(STD, 'basic_rtl', 'registers.py'), 'arith': os.path.join(STD, 'basic_rtl', 'arithmetics.py'),
  'rf': os.path.join(STD, 'basic_rtl', 'register_files.py'),
}
BASIC = {'Reg': 'regs', 'RegEn': 'regs', 'RegRst': 'regs', 'Mux': 'arith', 'RegisterFile': 'rf'}
# classes rendered with signals and blocks, per file, in this order
LEAF = {
  'Q': ['NormalQueueDpathRTL', 'NormalQueueCtrlRTL', 'PipeQueueCtrlRTL', 'BypassQueueDpathRTL', 'BypassQueueCtrlRTL',
        'NormalQueue1EntryRTL', 'PipeQueue1EntryRTL', 'BypassQueue1EntryRTL'],
  'S': ['NormalQueue1EntryRTL', 'NormalQueueDpathRTL', 'NormalQueueCtrlRTL', 'PipeQueue1EntryRTL', 'PipeQueueCtrlRTL',
        'BypassQueue1EntryRTL', 'BypassQueueDpathRTL', 'BypassQueueCtrlRTL'],
  'ER': ['PipeQueue1RTL', 'BypassQueue1RTL', 'NormalQueue1RTL'],
  'VR': ['PipeQueue1RTL', 'BypassQueue1RTL', 'NormalQueue1RTL', 'NormalQueueRTLDpath', 'NormalQueueRTLCtrl'],
}
# wrapper classes: structure only (instances + connections, per branch of `if num_entries == 1`)
WRAP = {'Q': ['NormalQueueRTL', 'PipeQueueRTL', 'BypassQueueRTL'], 'S': ['NormalQueueRTL', 'PipeQueueRTL', 'BypassQueueRTL'],
        'ER': ['BypassQueue2RTL'], 'VR': ['NormalQueueRTL']}
CAP_PARAMS = {'num_entries', 'nregs'}
TYPE_PARAMS = {'EntryType', 'Type', 'MsgType'}
# interface class -> fields (name, direction, 'msg' | 1); the file says which family's interfaces are meant
IFCS = {
  'Q':  {'EnqIfcRTL': [('en', 'in', 1), ('rdy', 'out', 1), ('msg', 'in', 'msg')],
         'DeqIfcRTL': [('en', 'in', 1), ('rdy', 'out', 1), ('ret', 'out', 'msg')]},
  'S':  {'RecvIfcRTL': [('msg', 'in', 'msg'), ('val', 'in', 1), ('rdy', 'out', 1)],
         'SendIfcRTL': [('msg', 'out', 'msg'), ('val', 'out', 1), ('rdy', 'in', 1)]},
  'ER': {'RecvIfcRTL': [('msg', 'in', 'msg'), ('en', 'in', 1), ('rdy', 'out', 1)],
         'SendIfcRTL': [('msg', 'out', 'msg'), ('en', 'out', 1), ('rdy', 'in', 1)]},
  'VR': {'InValRdyIfc': [('msg', 'in', 'msg'), ('val', 'in', 1), ('rdy', 'out', 1)],
         'OutValRdyIfc': [('msg', 'out', 'msg'), ('val', 'out', 1), ('rdy', 'in', 1)]},
}

class Fail(Exception):
  pass

def src(node):
  try: return ast.unparse(node)
  except Exception: return '<?>'

def fail(node, msg):
  raise Fail(f'line {getattr(node, "lineno", "?")}: {msg}: `{src(node)[:120]}`')

def pyclog2(n):
  k = 0
  while (1 << k) < n: k += 1
  return k

# ----------------------------------------------------------------------------------------------- static / symbolic values
# ('int', lean, pyval|None)   a Python int, possibly symbolic in n
# ('type', wlean, wval|None)  a Bits type of that width        ('msg',) the entry type
# ('bits', wlean, wval, vlean) a Bits constant                 ('bool', b) a Python bool
# ('none',)

def I(v): return ('int', str(v), v)

def paren(s):
  return s if re.fullmatch(r'[A-Za-z0-9_.]+', s) else f'({s})'

def int_op(op, a, b, node, side):
  al, av, bl, bv = a[1], a[2], b[1], b[2]
  if op == '+': return ('int', f'{paren(al)} + {paren(bl)}' if None in (av, bv) else str(av + bv), None if None in (av, bv) else av + bv)
  if op == '-':
    if None in (av, bv):
      side.append(f'{bl} ≤ {al}')
      return ('int', f'{paren(al)} - {paren(bl)}', None)
    if av - bv < 0: fail(node, 'negative static integer')
    return ('int', str(av - bv), av - bv)
  if op == '*': return ('int', f'{paren(al)} * {paren(bl)}' if None in (av, bv) else str(av * bv), None if None in (av, bv) else av * bv)
  fail(node, 'static operator outside the subset')

def static_eval(node, env, side):
  if isinstance(node, ast.Constant):
    if node.value is None: return ('none',)
    if isinstance(node.value, bool): return ('bool', node.value)
    if isinstance(node.value, int): return I(node.value)
    fail(node, 'constant outside the subset')
  if isinstance(node, ast.Name):
    m = re.fullmatch(r'Bits(\d+)', node.id)
    if m: return ('type', m.group(1), int(m.group(1)))
    if node.id in env: return env[node.id]
    fail(node, 'unknown name in a static expression')
  if isinstance(node, ast.Attribute) and isinstance(node.value, ast.Name) and node.value.id == 's' and ('s.' + node.attr) in env:
    return env['s.' + node.attr]
  if isinstance(node, ast.BinOp) and isinstance(node.op, (ast.Add, ast.Sub, ast.Mult)):
    a, b = static_eval(node.left, env, side), static_eval(node.right, env, side)
    if a[0] == 'int' and b[0] == 'int':
      return int_op({ast.Add: '+', ast.Sub: '-', ast.Mult: '*'}[type(node.op)], a, b, node, side)
    fail(node, 'static arithmetic on non-integers')
  if isinstance(node, ast.Call) and isinstance(node.func, ast.Name) and not node.keywords:
    f = node.func.id
    args = [static_eval(a, env, side) for a in node.args]
    if f == 'clog2' and len(args) == 1 and args[0][0] == 'int':
      a = args[0]
      return I(pyclog2(a[2])) if a[2] is not None else ('int', f'clog2 {paren(a[1])}', None)
    if f == 'max' and len(args) == 2 and all(a[0] == 'int' for a in args):
      if None not in (args[0][2], args[1][2]): return I(max(args[0][2], args[1][2]))
      return ('int', f'max {paren(args[0][1])} {paren(args[1][1])}', None)
    if f == 'mk_bits' and len(args) == 1 and args[0][0] == 'int': return ('type', args[0][1], args[0][2])
    # T(k): a Bits constant of a static type
    t = env.get(f)
    m = re.fullmatch(r'Bits(\d+)|b(\d+)', f)
    if m: t = ('type', m.group(1) or m.group(2), int(m.group(1) or m.group(2)))
    if t is not None and t[0] == 'type' and len(args) == 1 and args[0][0] == 'int':
      k = args[0]
      if t[2] is not None and k[2] is not None:
        if not 0 <= k[2] < (1 << t[2]): fail(node, 'constant does not fit its type')
      else:
        side.append(f'{k[1]} < 2 ^ {paren(t[1])}')
      return ('bits', t[1], t[2], k[1])
  fail(node, 'not a static value')

# ----------------------------------------------------------------------------------------------- components

class Comp:
  def __init__(s, fkey, cls, ns, has_n, has_msg):
    s.fkey, s.cls, s.ns, s.has_n, s.has_msg = fkey, cls, ns, has_n, has_msg
    s.sigs = {}        # field -> type: 'b' | ('n', wlean) | 'm' | ('fn', 'm' | ...)
    s.widths = []      # (field, wlean) of the declared signals
    s.lists = {}       # list name -> static length
    s.insts = {}       # instance name -> Comp
    s.consts = []      # (name, lean)
    s.side = []
    s.blocks = []      # (block name, kind, [(field, code)])
    s.wires = []       # (fieldA, fieldB)
    s.inst_defs = []   # text
    s.latches = []

  def ty(s, t):
    if t == 'b': return 'Bool'
    if t == 'm': return 'α'
    if isinstance(t, tuple) and t[0] == 'n': return 'Nat'
    if isinstance(t, tuple) and t[0] == 'fn': return f'Nat → {s.ty(t[1])}'
    raise Fail(f'no Lean type for {t}')

  def sigty(s): return 'Sig α' if s.has_msg else 'Sig'
  def nargs(s): return '(n : Nat) ' if s.has_n else ''
  def napp(s): return ' n' if s.has_n else ''

class Translator:
  def __init__(s, root):
    s.root = root
    s.trees = {}
    for k, rel in FILES.items():
      with open(os.path.join(root, rel)) as f: s.trees[k] = ast.parse(f.read())
    s.comps = {}       # (file key, ns) -> Comp
    s.order = []
    s.failures = []

  def find_class(s, key, name):
    for st in s.trees[key].body:
      if isinstance(st, ast.ClassDef) and st.name == name: return st
    raise Fail(f'class {name} not found in {FILES[key]}')

  def lookup(s, fkey, name, node):
    """file in which a class instantiated inside file `fkey` lives"""
    for st in s.trees[fkey].body:
      if isinstance(st, ast.ClassDef) and st.name == name: return fkey
    if name in BASIC: return BASIC[name]
    fail(node, f'component class {name} is outside the translated set')

  # ------------------------------------------------------------------ elaboration
  def bind_params(s, con, args, kwargs, node, env, side):
    pnames = [a.arg for a in con.args.args][1:]
    defaults = con.args.defaults
    dstart = len(pnames) - len(defaults)
    bound = {}
    for k, pn in enumerate(pnames):
      if k < len(args): bound[pn] = args[k]
      elif pn in kwargs: bound[pn] = kwargs[pn]
      elif k >= dstart: bound[pn] = static_eval(defaults[k - dstart], env, side)
      else: fail(node, f'missing constructor argument {pn}')
    for kw in kwargs:
      if kw not in pnames: fail(node, f'unknown constructor keyword {kw}')
    return pnames, bound

  def elaborate(s, fkey, clsname, args, kwargs, node):
    """args: static values; the capacity parameter must be the symbolic n (or be left at its default -> n), the type
    parameter the entry type"""
    cdef = s.find_class(fkey, clsname)
    con = next((f for f in cdef.body if isinstance(f, ast.FunctionDef) and f.name == 'construct'), None)
    if con is None: fail(cdef, 'no construct')
    side = []
    pnames, bound = s.bind_params(con, args, kwargs, node, {}, side)
    has_n = False
    stem = clsname
    for pn in pnames:
      v = bound[pn]
      if pn in CAP_PARAMS:
        if not (v[0] == 'int' and v[1] == 'n'): bound[pn] = ('int', 'n', None)     # rendered for every capacity
        has_n = True
      elif pn in TYPE_PARAMS:
        if v != ('msg',) and not (v[0] == 'type'): fail(node, f'type parameter {pn} is neither the entry type nor a Bits type')
        if v[0] == 'type': stem += f'_Bits{v[1]}'
      else:
        if v[0] == 'int' and v[2] is not None: stem += f'_{v[2]}'
        elif v[0] == 'bool': stem += '_T' if v[1] else ''
        else: fail(node, f'constructor parameter {pn} is not static')
    key = (fkey, stem)
    if key in s.comps: return s.comps[key]
    has_msg = any(bound[pn] == ('msg',) for pn in pnames)
    c = Comp(fkey, clsname, stem, has_n, has_msg)
    c.side += side
    c.sigs['reset'] = 'b'
    env = dict(bound)
    s.run_construct(c, con.body, env, {})
    s.comps[key] = c
    s.order.append(key)
    return c

  def sig_type(s, val, node):
    if val is None or val == ('none',): return 'b', '1'
    if val == ('msg',): return 'm', None
    if val[0] == 'type' or val[0] == 'int':
      wl, wv = val[1], val[2]
      if wv == 1: return 'b', '1'
      if wv is not None and wv < 1: fail(node, 'signal of non-positive width')
      return ('n', wl), wl
    fail(node, 'signal type is neither a Bits type, a width, nor the entry type')

  def decl_signal(s, c, name, call, env):
    if call.keywords or len(call.args) > 1: fail(call, 'signal declaration with unexpected arguments')
    t, w = s.sig_type(static_eval(call.args[0], env, c.side) if call.args else None, call)
    s.add_sig(c, name, t, call)
    c.widths.append((name, w if w is not None else '0'))

  def decl(s, c, target, call, env, alias):
    if isinstance(call, ast.ListComp):
      g = call.generators
      ok = len(g) == 1 and not g[0].ifs and isinstance(g[0].iter, ast.Call) and isinstance(g[0].iter.func, ast.Name) \
        and g[0].iter.func.id == 'range' and len(g[0].iter.args) == 1 and isinstance(call.elt, ast.Call) \
        and isinstance(call.elt.func, ast.Name) and call.elt.func.id in ('InPort', 'OutPort', 'Wire')
      if not ok: fail(call, 'list of signals outside the subset')
      n = static_eval(g[0].iter.args[0], env, c.side)
      if n[0] != 'int': fail(call, 'list length is not an integer')
      if n[2] is not None:
        c.lists[target] = n[2]
        for k in range(n[2]): s.decl_signal(c, f'{target}_{k}', call.elt, env)
      elif n[1] == 'n':
        if call.elt.func.id != 'Wire': fail(call, 'list of ports of symbolic length')
        t, w = s.sig_type(static_eval(call.elt.args[0], env, c.side) if call.elt.args else None, call)
        s.add_sig(c, target, ('fn', t), call)
        c.widths.append((target, w if w is not None else '0'))
      else: fail(call, 'list length is neither static nor the capacity')
      return
    if not (isinstance(call, ast.Call) and isinstance(call.func, ast.Name)): fail(call, 'declaration outside the subset')
    f = call.func.id
    if f in ('InPort', 'OutPort', 'Wire'): return s.decl_signal(c, target, call, env)
    if f in IFCS[c.fkey] if c.fkey in IFCS else False:
      if len(call.args) != 1 or call.keywords: fail(call, 'interface with unexpected arguments')
      tv = static_eval(call.args[0], env, c.side)
      for fld, d, w in IFCS[c.fkey][f]:
        if w == 'msg':
          t, wl = s.sig_type(tv, call)
          s.add_sig(c, f'{target}_{fld}', t, call); c.widths.append((f'{target}_{fld}', wl if wl is not None else '0'))
        else:
          s.add_sig(c, f'{target}_{fld}', 'b', call); c.widths.append((f'{target}_{fld}', '1'))
      return
    # a sub-component
    fk = s.lookup(c.fkey, f, call)
    args = [static_eval(a, env, c.side) for a in call.args]
    kwargs = {k.arg: static_eval(k.value, env, c.side) for k in call.keywords}
    child = s.elaborate(fk, f, args, kwargs, call)
    c.insts[target] = child
    for fld, t in child.sigs.items():
      if fld == 'reset': continue
      s.add_sig(c, f'{target}__{fld}', t, call)
    for ln, k in child.lists.items(): c.lists[f'{target}__{ln}'] = k

  def endpoint(s, c, node, env, alias):
    """a signal endpoint of a connection -> field name"""
    if isinstance(node, ast.Subscript):
      base = s.endpoint_parts(node.value, alias, c)
      lname = '_'.join(base)
      if lname in c.lists:
        k = static_eval(node.slice, env, c.side)
        if k[0] != 'int' or k[2] is None or not 0 <= k[2] < c.lists[lname]: fail(node, 'port list index is not a static in-range integer')
        return f'{lname}_{k[2]}'
      fail(node, 'subscript endpoint outside the subset')
    fld = '_'.join(s.endpoint_parts(node, alias, c))
    if fld in c.sigs: return fld
    fail(node, 'unknown signal in a connection')

  def endpoint_parts(s, node, alias, c=None):
    parts = []
    n = node
    while isinstance(n, ast.Attribute): parts.append(n.attr); n = n.value
    if not isinstance(n, ast.Name): fail(node, 'endpoint outside the subset')
    parts.reverse()
    if n.id == 's': pass
    elif n.id in alias: parts = [alias[n.id]] + parts
    else: fail(node, 'endpoint is not rooted at `s` or an instance alias')
    if not parts: fail(node, 'bare component as endpoint')
    if c is not None and parts[0] in c.insts and len(parts) > 1: parts = [parts[0] + '_'] + parts[1:]   # <inst>__<signal>
    return parts

  def add_sig(s, c, name, t, node):
    if name in c.sigs: fail(node, f'two signals are rendered as the field {name}')
    c.sigs[name] = t

  def connect(s, c, a, b, env, alias, node):
    fa, fb = s.endpoint(c, a, env, alias), s.endpoint(c, b, env, alias)
    ta, tb = c.sigs[fa], c.sigs[fb]
    if ta != tb:
      if isinstance(ta, tuple) and isinstance(tb, tuple) and ta[0] == 'n' and tb[0] == 'n':
        c.side.append(f'{ta[1]} = {tb[1]}')        # pymtl3 refuses to connect signals of different widths
      else: fail(node, f'connection of signals of different types ({ta} / {tb})')
    c.wires.append((fa, fb))

  def run_construct(s, c, body, env, alias):
    pending = []
    s.construct_stmts(c, body, env, alias, pending)
    for fn, kind, name in pending: s.block(c, fn, env, kind, name)
    s.instances(c)

  def construct_stmts(s, c, body, env, alias, pending):
    for st in body:
      if isinstance(st, ast.Expr) and isinstance(st.value, ast.Constant) and isinstance(st.value.value, str): continue
      if isinstance(st, ast.Assert): continue
      if isinstance(st, ast.FunctionDef):
        decs = [d.id for d in st.decorator_list if isinstance(d, ast.Name)]
        if decs == ['update']: pending.append((st.body, 'comb', st.name))
        elif decs == ['update_ff']: pending.append((st.body, 'ff', st.name))
        else: fail(st, 'function in construct that is neither @update nor @update_ff')
        if st.args.args: fail(st, 'update block with arguments')
        continue
      if isinstance(st, ast.If):
        cond = s.static_cond(st.test, env, c)
        s.construct_stmts(c, st.body if cond else st.orelse, env, alias, pending)
        continue
      if isinstance(st, ast.Assign):
        names = []
        for t in st.targets:
          if isinstance(t, ast.Attribute) and isinstance(t.value, ast.Name) and t.value.id == 's': names.append(('s', t.attr))
          elif isinstance(t, ast.Name): names.append(('n', t.id))
          else: fail(st, 'assignment target outside the subset')
        sname = [n for k, n in names if k == 's']
        lname = [n for k, n in names if k == 'n']
        if sname:
          if len(sname) != 1: fail(st, 'two component attributes in one assignment')
          v = st.value
          is_decl = isinstance(v, ast.ListComp) or (isinstance(v, ast.Call) and isinstance(v.func, ast.Name) and
                    (v.func.id in ('InPort', 'OutPort', 'Wire') or v.func.id in IFCS.get(c.fkey, {}) or s.is_class(c.fkey, v.func.id)))
          if is_decl:
            s.decl(c, sname[0], v, env, alias)
            for ln in lname: alias[ln] = sname[0]
          else:
            if lname: fail(st, 'alias of a constant attribute')
            val = static_eval(v, env, c.side)             # s.last_idx = PtrType( num_entries-1 ) / s.num_entries = num_entries
            env['s.' + sname[0]] = val
            if val[0] == 'bits': c.consts.append((sname[0], val[3], val[1]))
            elif val[0] == 'int': c.consts.append((sname[0], val[1], None))
            else: fail(st, 'attribute is neither a signal, a component nor a constant')
        else:
          for ln in lname: env[ln] = static_eval(st.value, env, c.side)
        continue
      if isinstance(st, ast.AugAssign) and isinstance(st.op, ast.FloorDiv):
        if isinstance(st.value, ast.Lambda):
          if st.value.args.args: fail(st, 'lambda with arguments')
          fld = s.endpoint(c, st.target, env, alias)
          asg = ast.AugAssign(target=st.target, op=ast.MatMult(), value=st.value.body)
          ast.copy_location(asg, st)
          pending.append(([asg], 'comb', f'lambda_{fld}'))
        else:
          s.connect(c, st.target, st.value, env, alias, st)
        continue
      if isinstance(st, ast.Expr) and isinstance(st.value, ast.Call) and isinstance(st.value.func, ast.Name) and st.value.func.id == 'connect' \
         and len(st.value.args) == 2 and not st.value.keywords:
        s.connect(c, st.value.args[0], st.value.args[1], env, alias, st)
        continue
      fail(st, 'statement in construct outside the subset')

  def is_class(s, fkey, name):
    if name in BASIC: return True
    return any(isinstance(st, ast.ClassDef) and st.name == name for st in s.trees[fkey].body)

  def static_cond(s, node, env, c):
    if isinstance(node, ast.Name) and node.id in env and env[node.id][0] == 'bool': return env[node.id][1]
    fail(node, 'construct-level condition is not a static bool')

  # ------------------------------------------------------------------ expressions
  # value = (kind, code, ...): ('b', code) | ('n', code, wlean) | ('i', code, pyval) | ('m', code) | ('fn', code, elemtype)

  def of_type(s, t, code):
    if t == 'b': return ('b', code)
    if t == 'm': return ('m', code)
    if t[0] == 'n': return ('n', code, t[1])
    if t[0] == 'fn': return ('fn', code, t[1])

  def const_val(s, v, node):
    if v[0] == 'int': return ('i', v[1], v[2])
    if v[0] == 'bits':
      if v[2] == 1: return ('b', {'0': 'false', '1': 'true'}.get(v[3]) or fail(node, 'Bits1 constant'))
      return ('n', v[3], v[1])
    if v[0] == 'bool': return ('b', 'true' if v[1] else 'false')
    fail(node, 'constant outside the subset')

  def to_b(s, v, node):
    if v[0] == 'b': return v[1]
    if v[0] == 'i' and v[2] in (0, 1): return 'true' if v[2] else 'false'
    fail(node, f'a 1-bit value is needed here, got {v[0]}')

  def resolve(s, c, node, env, st):
    """attribute / subscript chain naming a signal -> ('sig', field) | ('list', name, len) | None"""
    if isinstance(node, ast.Subscript):
      base = s.resolve(c, node.value, env, st)
      if base is not None and base[0] == 'list':
        k = s.expr(c, node.slice, env, st)
        if k[0] == 'i' and k[2] is not None:
          if not 0 <= k[2] < base[2]: fail(node, 'static index out of range')
          return ('sig', f'{base[1]}_{k[2]}')
        return ('listidx', base[1], base[2], k)
      if base is not None and base[0] == 'sig' and isinstance(c.sigs[base[1]], tuple) and c.sigs[base[1]][0] == 'fn':
        return ('fnidx', base[1], s.expr(c, node.slice, env, st))
      return None
    parts = []
    n = node
    while isinstance(n, ast.Attribute): parts.append(n.attr); n = n.value
    if not (isinstance(n, ast.Name) and n.id == 's'): return None
    parts.reverse()
    if parts and parts[0] in c.insts and len(parts) > 1: parts = [parts[0] + '_'] + parts[1:]
    fld = '_'.join(parts)
    if fld in c.sigs: return ('sig', fld)
    if fld in c.lists: return ('list', fld, c.lists[fld])
    return None

  def read(s, c, fld, st, node):
    if st['kind'] == 'comb' and fld in st['cur']: return s.of_type(c.sigs[fld], st['cur'][fld])
    if st['kind'] == 'comb' and fld in st['will'] and fld not in st['cur']:
      fail(node, f'{fld} is read before this block assigns it')
    return s.of_type(c.sigs[fld], f'v.{fld}')

  def expr(s, c, node, env, st):
    side = c.side
    if isinstance(node, ast.Constant):
      if isinstance(node.value, bool) or not isinstance(node.value, int): fail(node, 'constant outside the subset')
      return ('i', str(node.value), node.value)
    if isinstance(node, ast.Name):
      if node.id in st['local']: return st['local'][node.id]
      if node.id in env: return s.const_val(env[node.id], node)
      fail(node, 'unknown name')
    if isinstance(node, ast.Attribute):
      if isinstance(node.value, ast.Name) and node.value.id == 's' and ('s.' + node.attr) in env:
        v = env['s.' + node.attr]
        if v[0] == 'bits' and v[2] != 1: return ('n', f'c_{node.attr}{" n" if c.has_n else ""}', v[1])
        if v[0] == 'int': return ('i', f'c_{node.attr}{" n" if c.has_n else ""}', v[2])
        return s.const_val(v, node)
      r = s.resolve(c, node, env, st)
      if r is not None and r[0] == 'sig': return s.read(c, r[1], st, node)
      fail(node, 'attribute outside the subset')
    if isinstance(node, ast.Subscript):
      r = s.resolve(c, node, env, st)
      if r is None: fail(node, 'subscript outside the subset')
      if r[0] == 'sig': return s.read(c, r[1], st, node)
      if r[0] == 'fnidx':
        idx = r[2]
        if idx[0] not in ('n', 'i'): fail(node, 'register list indexed by a non-integer')
        f = s.read(c, r[1], st, node)
        return s.of_type(f[2], f'({f[1]} {paren(idx[1])})')
      if r[0] == 'listidx':
        name, ln, idx = r[1], r[2], r[3]
        elems = [s.read(c, f'{name}_{k}', st, node) for k in range(ln)]
        if idx[0] == 'b':
          if ln != 2: fail(node, 'list indexed by a 1-bit signal must have 2 elements')
          return s.of_type(c.sigs[f'{name}_0'], f'(if {idx[1]} then {elems[1][1]} else {elems[0][1]})')
        if idx[0] == 'n':
          code = elems[-1][1]
          for k in reversed(range(ln - 1)): code = f'if {idx[1]} = {k} then {elems[k][1]} else {code}'
          side.append(f'∀ x : Nat, x < 2 ^ {paren(idx[2])} → x < {ln}')
          return s.of_type(c.sigs[f'{name}_0'], f'({code})')
      fail(node, 'subscript outside the subset')
    if isinstance(node, ast.UnaryOp) and isinstance(node.op, ast.Invert):
      v = s.expr(c, node.operand, env, st)
      return ('b', f'(!{s.to_b(v, node)})')
    if isinstance(node, ast.IfExp):
      cnd = s.to_b(s.expr(c, node.test, env, st), node.test)
      a, b = s.expr(c, node.body, env, st), s.expr(c, node.orelse, env, st)
      a, b = s.unify(a, b, node)
      return (a[0], f'(if {cnd} then {a[1]} else {b[1]})') + tuple(a[2:3] if a[0] != 'i' else (None,))
    if isinstance(node, ast.BinOp):
      a, b = s.expr(c, node.left, env, st), s.expr(c, node.right, env, st)
      op = type(node.op)
      if op in (ast.BitAnd, ast.BitOr):
        return ('b', f'({s.to_b(a, node)} {"&&" if op is ast.BitAnd else "||"} {s.to_b(b, node)})')
      if op in (ast.Add, ast.Sub):
        if a[0] == 'i' and b[0] == 'i':
          r = int_op('+' if op is ast.Add else '-', ('int', a[1], a[2]), ('int', b[1], b[2]), node, side)
          return ('i', f'({r[1]})', r[2])
        a, b = s.unify(a, b, node)
        if a[0] != 'n': fail(node, 'arithmetic on values that are not words')
        w = a[2]
        if op is ast.Add: return ('n', f'(({a[1]} + {b[1]}) % 2 ^ {paren(w)})', w)
        return ('n', f'(({a[1]} + 2 ^ {paren(w)} - {b[1]}) % 2 ^ {paren(w)})', w)
      fail(node, 'binary operator outside the subset')
    if isinstance(node, ast.Compare) and len(node.ops) == 1:
      a, b = s.expr(c, node.left, env, st), s.expr(c, node.comparators[0], env, st)
      op = type(node.ops[0])
      sym = {ast.Eq: '=', ast.NotEq: '≠', ast.Lt: '<', ast.Gt: '>', ast.LtE: '≤', ast.GtE: '≥'}.get(op)
      if sym is None: fail(node, 'comparison outside the subset')
      if a[0] == 'b' or b[0] == 'b':
        if sym not in ('=', '≠'): fail(node, 'ordering of 1-bit values')
        x, y = s.to_b(a, node), s.to_b(b, node)
        return ('b', f'({x} == {y})' if sym == '=' else f'({x} != {y})')
      if a[0] == 'i' and b[0] == 'i': fail(node, 'comparison of two constants')
      a, b = s.unify(a, b, node)
      if a[0] != 'n': fail(node, 'comparison of values that are not words')
      return ('b', f'(decide ({a[1]} {sym} {b[1]}))')
    if isinstance(node, ast.Call) and isinstance(node.func, ast.Name) and not node.keywords:
      f = node.func.id
      if f == 'zext' and len(node.args) == 2:
        t = static_eval(node.args[1], env, side)
        v = s.expr(c, node.args[0], env, st)
        if t[0] != 'type' or v[0] != 'n': fail(node, 'zext outside the subset')
        side.append(f'{v[2]} ≤ {t[1]}')
        return ('n', v[1], t[1])
      return s.const_val(static_eval(node, env, side), node)
    fail(node, 'expression outside the subset')

  def unify(s, a, b, node):
    """bring an int operand to the Bits type of the other operand (Python converts it and raises if it does not fit)"""
    if a[0] == 'n' and b[0] == 'n':
      if a[2] != b[2]: fail(node, f'operands of different widths ({a[2]} / {b[2]})')
      return a, b
    if a[0] == 'n' and b[0] == 'i':
      if not (b[2] is not None and b[2] in (0, 1)): s.cur_side.append(f'{b[1]} < 2 ^ {paren(a[2])}')
      return a, ('n', b[1], a[2])
    if a[0] == 'i' and b[0] == 'n':
      if not (a[2] is not None and a[2] in (0, 1)): s.cur_side.append(f'{a[1]} < 2 ^ {paren(b[2])}')
      return ('n', a[1], b[2]), b
    if a[0] == b[0] and a[0] in ('b', 'm', 'i'): return a, b
    if a[0] == 'b' and b[0] == 'i': return a, ('b', s.to_b(b, node))
    if a[0] == 'i' and b[0] == 'b': return ('b', s.to_b(a, node)), b
    fail(node, f'operands of different kinds ({a[0]} / {b[0]})')

  def coerce(s, c, v, t, node):
    """value assigned to a signal of type t"""
    if t == 'b': return s.to_b(v, node)
    if t == 'm':
      if v[0] != 'm': fail(node, 'a value that is not of the entry type is assigned to an entry-typed signal')
      return v[1]
    if t[0] == 'n':
      if v[0] == 'n':
        if v[2] != t[1]: fail(node, f'width mismatch: {v[2]} assigned to {t[1]}')
        return v[1]
      if v[0] == 'i':
        if not (v[2] is not None and v[2] in (0, 1)): c.side.append(f'{v[1]} < 2 ^ {paren(t[1])}')
        return v[1]
    fail(node, f'cannot assign a {v[0]} to a signal of type {t}')

  # ------------------------------------------------------------------ blocks
  def assigned(s, c, stmts, env):
    out = []
    for stn in stmts:
      if isinstance(stn, ast.AugAssign) and isinstance(stn.op, (ast.MatMult, ast.LShift)):
        n = stn.target
        while isinstance(n, ast.Subscript): n = n.value
        parts = []
        while isinstance(n, ast.Attribute): parts.append(n.attr); n = n.value
        parts.reverse()
        if parts and parts[0] in c.insts and len(parts) > 1: parts = [parts[0] + '_'] + parts[1:]
        out.append('_'.join(parts))
      elif isinstance(stn, ast.If): out += s.assigned(c, stn.body, env) + s.assigned(c, stn.orelse, env)
      elif isinstance(stn, ast.For): out += s.assigned(c, stn.body, env)
    return out

  def block(s, c, body, env, kind, name):
    s.cur_side = c.side
    will = set()
    for f in s.assigned(c, body, env):
      will.update(k for k in c.sigs if k == f or k.startswith(f + '_'))
    st = {'local': {}, 'cur': {}, 'kind': kind, 'will': will, 'order': []}
    for stn in body: s.exec_stmt(c, stn, env, st)
    c.blocks.append((name, kind, [(f, st['cur'][f]) for f in st['order']]))

  def exec_stmt(s, c, stn, env, st):
    kind = st['kind']
    if isinstance(stn, ast.Expr) and isinstance(stn.value, ast.Constant): return
    if isinstance(stn, ast.AugAssign) and isinstance(stn.op, (ast.MatMult, ast.LShift)):
      if (kind == 'comb') != isinstance(stn.op, ast.MatMult): fail(stn, '@= in update_ff or <<= in update')
      r = s.resolve(c, stn.target, env, st)
      if r is None: fail(stn, 'assignment target is not a signal of this component')
      v = s.expr(c, stn.value, env, st)
      if r[0] == 'sig':
        fld = r[1]
        st['cur'][fld] = s.coerce(c, v, c.sigs[fld], stn)
      elif r[0] == 'fnidx':
        if kind != 'ff': fail(stn, 'combinational write into the register list')
        fld, idx = r[1], r[2]
        if idx[0] not in ('n', 'i'): fail(stn, 'register list indexed by a non-integer')
        old = st['cur'].get(fld, f'v.{fld}')
        val = s.coerce(c, v, c.sigs[fld][1], stn)
        st['cur'][fld] = f'(fun a => if a = {idx[1]} then {val} else {paren(old)} a)'
      else: fail(stn, 'assignment to a port list indexed by a signal')
      if fld not in st['order']: st['order'].append(fld)
      return
    if isinstance(stn, ast.If):
      cond = s.to_b(s.expr(c, stn.test, env, st), stn.test)
      base = dict(st['cur'])
      st_t = {**st, 'cur': dict(base), 'local': dict(st['local'])}
      for x in stn.body: s.exec_stmt(c, x, env, st_t)
      st_e = {**st, 'cur': dict(base), 'local': dict(st['local'])}
      for x in stn.orelse: s.exec_stmt(c, x, env, st_e)
      for fld in list(dict.fromkeys(list(st_t['cur']) + list(st_e['cur']))):
        tv, ev = st_t['cur'].get(fld), st_e['cur'].get(fld)
        if tv == ev and tv is not None: st['cur'][fld] = tv; continue
        def dflt():
          if kind == 'ff': return f'v.{fld}'
          if fld not in c.latches: c.latches.append(fld)
          return f'v.{fld}__latch'
        tv = tv if tv is not None else dflt()
        ev = ev if ev is not None else dflt()
        st['cur'][fld] = f'(if {cond} then {tv} else {ev})'
      return
    if isinstance(stn, ast.For):
      it = stn.iter
      if not (isinstance(stn.target, ast.Name) and isinstance(it, ast.Call) and isinstance(it.func, ast.Name) and it.func.id == 'range'
              and len(it.args) == 1 and not stn.orelse): fail(stn, 'loop outside the subset')
      k = static_eval(it.args[0], env, c.side)
      if k[0] != 'int' or k[2] is None: fail(stn, 'loop bound is not static')
      for j in range(k[2]):
        st['local'][stn.target.id] = ('i', str(j), j)
        for x in stn.body: s.exec_stmt(c, x, env, st)
      st['local'].pop(stn.target.id, None)
      return
    fail(stn, 'statement outside the subset')

  # ------------------------------------------------------------------ instances
  def instances(s, c):
    for iname, child in c.insts.items():
      flds = [f for f in child.sigs]
      rec = ', '.join(f'{f} := ' + ('v.reset' if f == 'reset' else f'v.{iname}__{f}') for f in flds)
      rec += ''.join(f', {f}__latch := v.{iname}__{f}__latch' for f in child.latches)
      for f in child.latches:
        c.sigs[f'{iname}__{f}__latch'] = child.sigs[f]
      path = f'{nsname(child)}'
      for bname, kind, outs in child.blocks:
        for fld, _ in outs:
          suffix = '_next' if kind == 'ff' else ''
          t = c.ty(child.sigs[fld])
          c.inst_defs.append(
            f'/-- instance `{iname}` of {child.cls}: block `{bname}` -/\n'
            f'def {iname}__{bname}_{fld}{suffix} {s.sig_binders(c)} : {t} :=\n'
            f'  {path}.{bname}_{fld}{suffix}{child.napp()} {{ {rec} }}\n')

  def sig_binders(s, c):
    return ('{α : Type} ' if c.has_msg else '') + c.nargs() + f'(v : {c.sigty()})'

  # ------------------------------------------------------------------ rendering
  def render_comp(s, c):
    out = [f'namespace {nsname(c, short=True)}   -- {FILES[c.fkey]}: class {c.cls}' + (' (num_entries = n)' if c.has_n else '') + '\n']
    fields = list(c.sigs.items()) + [(f'{f}__latch', c.sigs[f]) for f in c.latches]
    out.append('structure Sig ' + ('(α : Type) ' if c.has_msg else '') + 'where\n' + ''.join(f'  {f} : {c.ty(t)}\n' for f, t in fields))
    out.append('/-- declared widths (0 = the entry type) -/\n'
               f'def widths {c.nargs()}: List (String × Nat) :=\n  [' + ', '.join(f'("{f}", {w})' for f, w in c.widths) + ']\n')
    for name, val, w in c.consts:
      out.append(f'def c_{name} {c.nargs()}: Nat := {val}\n')
    side = list(dict.fromkeys(c.side))
    out.append('/-- the conditions under which building these values raises nothing in Python -/\n'
               f'def side {c.nargs()}: Prop :=\n  ' + (' ∧\n  '.join(f'({x})' for x in side) if side else 'True') + '\n')
    for bname, kind, outs in c.blocks:
      for fld, code in outs:
        suffix = '_next' if kind == 'ff' else ''
        out.append(f'def {bname}_{fld}{suffix} {s.sig_binders(c)} : {c.ty(c.sigs[fld])} :=\n  {code}\n')
    out += c.inst_defs
    wires = [f'(v.{a} = v.{b})' for a, b in c.wires]
    out.append(f'/-- `connect` / `//=` between named signals -/\ndef wires {s.sig_binders(c)} : Prop :=\n  ' +
               (' ∧\n  '.join(wires) if wires else 'True') + '\n')
    out.append(f'end {nsname(c, short=True)}\n')
    return '\n'.join(out)

  # ------------------------------------------------------------------ wrapper classes
  def render_wrapper(s, fkey, clsname):
    cdef = s.find_class(fkey, clsname)
    con = next((f for f in cdef.body if isinstance(f, ast.FunctionDef) and f.name == 'construct'), None)
    if con is None: fail(cdef, 'no construct')
    pnames = [a.arg for a in con.args.args][1:]
    capname = next((p for p in pnames if p in CAP_PARAMS or p == 'queue_size'), None)
    env = {}
    for p in pnames:
      if p in TYPE_PARAMS: env[p] = ('msg',)
      elif p == capname: env[p] = ('int', 'n', None)
    side = []
    ports, branches, sel, asserts = [], {'all': ([], [])}, None, []
    def endpoint(node, alias):
      if isinstance(node, ast.Subscript):
        return endpoint(node.value, alias) + f'[{src(node.slice)}]'
      parts = []
      n = node
      while isinstance(n, ast.Attribute): parts.append(n.attr); n = n.value
      if not isinstance(n, ast.Name): fail(node, 'endpoint outside the subset')
      parts.reverse()
      if n.id in alias: parts = [alias[n.id]] + parts
      elif n.id != 's': fail(node, 'endpoint is not rooted at `s` or an instance alias')
      return '.'.join(parts)
    def stmts(body, br, alias):
      nonlocal sel
      insts, conns = branches[br]
      for st in body:
        if isinstance(st, ast.Expr) and isinstance(st.value, ast.Constant): continue
        if isinstance(st, ast.Assert):
          asserts.append(src(st.test)); continue
        if isinstance(st, ast.If):
          if br != 'all' or sel is not None: fail(st, 'nested / repeated construct-level if')
          t = st.test
          if not (isinstance(t, ast.Compare) and len(t.ops) == 1 and isinstance(t.ops[0], ast.Eq) and isinstance(t.left, ast.Name)
                  and t.left.id == capname and isinstance(t.comparators[0], ast.Constant) and t.comparators[0].value == 1):
            fail(st, 'construct-level condition is not `num_entries == 1`')
          sel = 'n == 1'
          branches['one'] = ([], []); branches['multi'] = ([], [])
          stmts(st.body, 'one', dict(alias)); stmts(st.orelse, 'multi', dict(alias))
          continue
        if isinstance(st, ast.Assign):
          tg = [t for t in st.targets]
          sn = [t.attr for t in tg if isinstance(t, ast.Attribute) and isinstance(t.value, ast.Name) and t.value.id == 's']
          ln = [t.id for t in tg if isinstance(t, ast.Name)]
          if len(sn) != 1 or len(sn) + len(ln) != len(tg): fail(st, 'assignment outside the subset')
          v = st.value
          if not (isinstance(v, ast.Call) and isinstance(v.func, ast.Name)): fail(st, 'declaration outside the subset')
          f = v.func.id
          if f in ('InPort', 'OutPort', 'Wire') or f in IFCS.get(fkey, {}):
            w = '0'
            if f in ('InPort', 'OutPort', 'Wire'):
              t, w = s.sig_type(static_eval(v.args[0], env, side) if v.args else None, v)
              w = w if w is not None else '0'
            ports.append((sn[0], f, w))
          elif s.is_class(fkey, f):
            insts.append((sn[0], re.sub(r'\s+', ' ', src(v)).replace('( ', '(').replace(' )', ')')))
            for a in ln: alias[a] = sn[0]
          else: fail(st, 'attribute outside the subset')
          continue
        if isinstance(st, ast.AugAssign) and isinstance(st.op, ast.FloorDiv) and not isinstance(st.value, ast.Lambda):
          conns.append((endpoint(st.target, alias), endpoint(st.value, alias))); continue
        if isinstance(st, ast.Expr) and isinstance(st.value, ast.Call) and isinstance(st.value.func, ast.Name) and st.value.func.id == 'connect' \
           and len(st.value.args) == 2 and not st.value.keywords:
          conns.append((endpoint(st.value.args[0], alias), endpoint(st.value.args[1], alias))); continue
        fail(st, 'statement in a wrapper construct outside the subset')
    stmts(con.body, 'all', {})
    q = lambda x: '"' + x + '"'
    lst = lambda xs: '[' + ', '.join(f'({q(a)}, {q(b)})' for a, b in xs) + ']'
    out = [f'namespace {fkey}.{clsname}   -- {FILES[fkey]}: wrapper class {clsname}\n']
    out.append('/-- interface / port declarations: (name, kind, width; 0 = the entry type or an interface) -/\n'
               'def ports (n : Nat) : List (String × String × Nat) :=\n  [' + ', '.join(f'({q(a)}, {q(b)}, {w})' for a, b, w in ports) + ']\n')
    out.append(f'def asserts : List String := [' + ', '.join(q(a) for a in asserts) + ']\n')
    if sel is not None:
      out.append(f'/-- `if {capname} == 1:` selects the one-entry class -/\ndef sel_one (n : Nat) : Bool := {sel}\n')
    for br, (insts, conns) in branches.items():
      if br == 'all' and not insts and not conns and sel is not None: continue
      conns = sorted(tuple(sorted(p)) for p in conns)       # a connection is symmetric; their order does not matter
      out.append(f'def insts_{br} : List (String × String) := {lst(insts)}\n')
      out.append(f'def conns_{br} : List (String × String) :=\n  {lst(conns)}\n')
    out.append(f'end {fkey}.{clsname}\n')
    return '\n'.join(out)

  def run(s):
    body = []
    for fkey in ('Q', 'S', 'ER', 'VR'):
      for cls in LEAF[fkey]:
        try:
          cdef = s.find_class(fkey, cls)
          con = next((f for f in cdef.body if isinstance(f, ast.FunctionDef) and f.name == 'construct'), None)
          if con is None: fail(cdef, 'no construct')
          args, kwargs = [], {}
          for a in con.args.args[1:]:
            if a.arg in TYPE_PARAMS: kwargs[a.arg] = ('msg',)
            elif a.arg in CAP_PARAMS: kwargs[a.arg] = ('int', 'n', None)
          s.elaborate(fkey, cls, args, kwargs, cdef)
        except Fail as e:
          s.failures.append((f'{fkey}.{cls}', str(e)))
    for key in s.order:
      body.append(s.render_comp(s.comps[key]))
    for fkey in ('Q', 'S', 'ER', 'VR'):
      for cls in WRAP[fkey]:
        try: body.append(s.render_wrapper(fkey, cls))
        except Fail as e: s.failures.append((f'{fkey}.{cls}', str(e)))
    fails = ''.join(f'/- TRANSLATION FAILED {n}: {m} -/\n' for n, m in s.failures)
    return HEADER + fails + '\n'.join(body) + FOOTER

def nsname(c, short=False):
  fk = c.fkey if c.fkey in ('Q', 'S', 'ER', 'VR') else 'Basic'
  return f'{fk}.{c.ns}' if short else f'PV.QueueGen.{fk}.{c.ns}'

HEADER = '''/-
GENERATED by tools/py2lean_queue.py from pymtl3/stdlib/queues/{queues,enrdy_queues,valrdy_queues}.py,
pymtl3/stdlib/stream/queues.py and pymtl3/stdlib/basic_rtl/{registers,arithmetics,register_files}.py.  Do not edit: the file
is regenerated from the current Python source on every check of C17; Props/C17Gen.lean proves, for every capacity n, that the
valuation of the signals given by Model/Queue.lean satisfies every equation below (generated = model).
-/
set_option linter.unusedVariables false

namespace PV.QueueGen

/-- `clog2` of pymtl3/datatypes/helpers.py for positive arguments -/
def clog2 (n : Nat) : Nat := if n ≤ 1 then 0 else Nat.log2 (n - 1) + 1

'''
FOOTER = '\nend PV.QueueGen\n'

def write_if_changed(path, text):
  try:
    with open(path) as f: old = f.read()
  except OSError: old = None
  if old == text: return False
  os.makedirs(os.path.dirname(path), exist_ok=True)
  tmp = path + '.tmp'
  with open(tmp, 'w') as f: f.write(text)
  os.replace(tmp, path)
  return True

def default_root():
  """$PV_REPO (tools/try_seed.sh points it at a seeded worktree), else the tree the imported pymtl3 lives in, else /repo"""
  if os.environ.get('PV_REPO'): return os.environ['PV_REPO']
  try:
    import pymtl3
    root = os.path.dirname(os.path.dirname(os.path.abspath(pymtl3.__file__)))
    if os.path.exists(os.path.join(root, FILES['Q'])): return root
  except Exception: pass
  return '/repo'

def generate(src_root):
  t = Translator(src_root)
  text = t.run()
  return text, t.failures

def pregen(src_root=None, out=DEFAULT_OUT):
  """hook of harness/checks/c17.py (`pregen(ck)`): regenerate Gen/QueueGen.lean from the source tree the check runs
  ($PV_REPO or /repo); raises if something is outside the rendered subset (-> broken obligation)"""
  if src_root is None: src_root = default_root()
  try:
    text, failures = generate(src_root)
  except (OSError, SyntaxError, Fail) as e:
    raise RuntimeError(f'py2lean_queue could not read / parse the source: {e}')
  write_if_changed(out, text)
  if failures:
    raise RuntimeError('py2lean_queue could not translate: ' + ' | '.join(f'{n}: {m}' for n, m in failures))
  ndefs = len(re.findall(r'^def ', text, re.M))
  return [f'Gen/QueueGen.lean was regenerated before the build from {os.path.join(src_root, STD)} (queues/queues.py, '
          f'stream/queues.py, queues/enrdy_queues.py, queues/valrdy_queues.py, basic_rtl) by tools/py2lean_queue.py ({ndefs} definitions)']

def main():
  ap = argparse.ArgumentParser()
  ap.add_argument('--src-root', default=default_root())
  ap.add_argument('--out', default=DEFAULT_OUT)
  ap.add_argument('--stdout', action='store_true')
  ap.add_argument('--check', action='store_true')
  a = ap.parse_args()
  text, failures = generate(a.src_root)
  for name, msg in failures: print(f'py2lean_queue: FAILED {name}: {msg}', file=sys.stderr)
  if a.stdout: sys.stdout.write(text)
  elif a.check:
    try: same = open(a.out).read() == text
    except OSError: same = False
    if not same:
      print(f'py2lean_queue: {a.out} is not what the current source generates', file=sys.stderr); sys.exit(1)
  else:
    changed = write_if_changed(a.out, text)
    print(f'py2lean_queue: {a.out} {"rewritten" if changed else "unchanged"}')
  sys.exit(3 if failures else 0)

if __name__ == '__main__':
  main()
