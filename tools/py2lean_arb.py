#!/usr/bin/env python3
"""py2lean_arb.py — regenerate lean/PymtlVerif/Gen/ArbGen.lean from the SOURCE of the round-robin arbiters:

  pymtl3/stdlib/basic_rtl/registers.py  classes Reg, RegEn, RegRst, RegEnRst        -> namespace PV.ArbGen.<Class>
  pymtl3/stdlib/basic_rtl/arbiters.py   classes RoundRobinArbiter, RoundRobinArbiterEn -> namespace PV.ArbGen.<Class>

Unlike tools/py2lean_pipe.py (static widths) the classes are rendered PARAMETRICALLY: every constructor parameter becomes a
Lean parameter (`nreqs : Nat`; a type parameter `Type` becomes its width `Type_nbits : Nat`), widths / slice bounds / loop
bounds are linear expressions in them.  What is rendered (Python `ast`; anything else makes the translator FAIL: exit status 3 /
RuntimeError from pregen -> broken obligation; nothing is guessed):

  * per class one `structure Sig`: a field per declared signal (`InPort/OutPort/Wire`, the implicit `reset`) and per port of a
    sub-component instance that is not on the net of a named signal; signals declared without a type are `Bool`, all others
    `Nat`; `def width_<signal> (params) : Nat` gives the declared width;
  * per `@update` block `def <block> (params) (v : Sig) : Sig`: the block executed on a valuation of the signals, statement by
    statement, in order (a read after a write in the same block sees the write, as in Python):
      `s.x @= e` (whole signal), `s.x[k] @= e` (one bit: `setBit`), `s.x[a:b] @= e` (`setSlice`), `if / elif / else` on a 1-bit
      condition, `for i in range(E)` / `range(A, B)`: `(List.range E).foldl <body> v` with the loop body as its own definition
      `<block>_loop<k> (params) (v : Sig) (i : Nat) : Sig` (the accumulator is the valuation, i.e. every signal the block writes);
  * per `@update_ff` block `def <block> (params) (v : Sig) : Sig`: reads see `v`, `s.x <<= e` writes go to a copy `w` of `v`
    that is the result (the values after the clock edge);
  * expressions: `s.x`, `s.inst.port`, `s.x[k]` (`bit`), `s.x[a:b]` (`getSlice`), `~ & |` on 1-bit values, `& |` on words of equal
    width, `== !=` of a word with a word of equal width or an integer constant, integer constants, integer constructor
    parameters; indices and bounds are linear in the parameters and the loop variables and are CHECKED to be in range for every
    parameter value >= 1 (otherwise the translator fails);
  * structure: `s.inst = m = Class( args )` (class of the translated set), `connect( a, b )` and `a //= b` between whole
    signals (one net: the instance port is represented by the named signal) or between slices / single bits
    (`m.in_[1:nreqs] //= s.grants[0:nreqs-1]`): `def <inst>_<port>_conn (params) (v : Sig) : Nat` assembles the driven port from
    the slices that drive it (undriven bits are 0); per instance `def <inst>_sig (v : Sig) : <Class>.Sig` (its ports as
    connected) and `def <inst>_<block> (params) (v : Sig) := <Class>.<block> <args> (<inst>_sig v)`.

usage: py2lean_arb.py [--src-root ROOT] [--out FILE | --stdout] [--check]     (ROOT defaults to $PV_REPO or /repo)
exit status: 0 ok, 1 --check mismatch, 3 something could not be translated
"""
import argparse, ast, importlib.util, os, re, sys

HERE = os.path.dirname(os.path.abspath(__file__))
DEFAULT_OUT = os.path.join(os.path.dirname(HERE), 'lean', 'PymtlVerif', 'Gen', 'ArbGen.lean')

# reuse of tools/py2lean_pipe.py (not edited): failure type, source excerpts, atomic write-if-changed
_spec = importlib.util.spec_from_file_location('py2lean_pipe', os.path.join(HERE, 'py2lean_pipe.py'))
_pipe = importlib.util.module_from_spec(_spec); _spec.loader.exec_module(_pipe)
Fail, fail, src, write_if_changed = _pipe.Fail, _pipe.fail, _pipe.src, _pipe.write_if_changed

FILES = {'regs': os.path.join('pymtl3', 'stdlib', 'basic_rtl', 'registers.py'),
         'arb': os.path.join('pymtl3', 'stdlib', 'basic_rtl', 'arbiters.py')}
# class name -> file key; where each class is looked up is fixed here (static resolution of `from .registers import RegEnRst`)
CLASSES = {'Reg': 'regs', 'RegEn': 'regs', 'RegRst': 'regs', 'RegEnRst': 'regs',
           'RoundRobinArbiter': 'arb', 'RoundRobinArbiterEn': 'arb'}
# kind of every constructor parameter (fixed: a parameter named here is a Bits type, every other one an integer)
TYPE_PARAMS = {'Type'}
# smallest value of an integer parameter for which the index / slice / width checks are made (the arbiters cannot be built with
# nreqs = 1: `in_[1:nreqs]` is an empty slice, PyMTL raises); every other integer parameter: >= 0; a width: >= 1
PARAM_LOWER = {'nreqs': 2}

# ----------------------------------------------------------------------------------------------- linear expressions

class Lin:
  """c0 + sum c_x * x over parameter / loop-variable names"""
  def __init__(s, const=0, terms=None):
    s.c = const; s.t = {k: v for k, v in (terms or {}).items() if v != 0}
  @staticmethod
  def var(x): return Lin(0, {x: 1})
  def __add__(s, o): return Lin(s.c + o.c, {k: s.t.get(k, 0) + o.t.get(k, 0) for k in set(s.t) | set(o.t)})
  def __neg__(s): return Lin(-s.c, {k: -v for k, v in s.t.items()})
  def __sub__(s, o): return s + (-o)
  def scale(s, k): return Lin(s.c * k, {x: v * k for x, v in s.t.items()})
  def __eq__(s, o): return isinstance(o, Lin) and s.c == o.c and s.t == o.t
  def __hash__(s): return hash((s.c, tuple(sorted(s.t.items()))))
  def is_const(s): return not s.t
  def subst(s, x, e):
    k = s.t.get(x, 0)
    rest = Lin(s.c, {y: v for y, v in s.t.items() if y != x})
    return rest + e.scale(k)
  def nonneg(s, lower):
    """s >= 0 for all values of the names with name >= lower[name] (sufficient AND necessary for linear s: value at the lower
    bounds >= 0 and no negative coefficient)"""
    return all(v >= 0 for v in s.t.values()) and s.c + sum(v * lower[x] for x, v in s.t.items()) >= 0
  def lean(s):
    """as a Lean Nat term; the caller has checked s >= 0, positive terms first so that truncated subtraction is exact"""
    pos = [(x, v) for x, v in sorted(s.t.items()) if v > 0]
    neg = [(x, -v) for x, v in sorted(s.t.items()) if v < 0]
    def term(x, v): return x if v == 1 else f'{v} * {x}'
    parts = [term(x, v) for x, v in pos]
    if s.c > 0 or not parts: parts.append(str(max(s.c, 0)))
    code = ' + '.join(parts)
    for x, v in neg: code += f' - {term(x, v)}'
    if s.c < 0: code += f' - {-s.c}'
    return code if re.fullmatch(r'\w+', code) else f'({code})'

# ----------------------------------------------------------------------------------------------- component model

class Comp:
  def __init__(s, cls, params):
    s.cls, s.params = cls, params      # params: [(python name, lean name, 'type' | 'int')]
    s.sigs = {}        # field -> width (Lin) ; declared signals in order
    s.bool = set()     # fields declared without a type (1 bit): Bool
    s.dirs = {}
    s.insts = {}       # instance name -> (Comp, [lean argument code per parameter])
    s.extra = {}       # instance ports without a parent name: field -> width
    s.rep = {}         # '<inst>_<port>' -> field that represents its net
    s.conn_slices = {} # driven field -> [(lo, hi, source code)]
    s.blocks = []      # (name, kind, text of definitions)
    s.lower = {}       # lower bound of every parameter name (Lean name)
    s.param_uses = []  # (integer parameter, width Lin of the signal it is assigned to)

  def lean_params(s): return ' '.join(ln for _, ln, _ in s.params)
  def binder(s): return f'({s.lean_params()} : Nat) ' if s.params else ''

class Translator:
  def __init__(s, root):
    s.root = root
    s.trees = {}
    for k, rel in FILES.items():
      with open(os.path.join(root, rel)) as f: s.trees[k] = ast.parse(f.read())
    s.comps = {}
    s.failures = []

  def find_class(s, name):
    for st in s.trees[CLASSES[name]].body:
      if isinstance(st, ast.ClassDef) and st.name == name: return st
    raise Fail(f'class {name} not found in {FILES[CLASSES[name]]}')

  # ------------------------------------------------------------------ static (linear) evaluation
  def lin(s, node, env):
    """an integer expression, linear in the names of env (parameters, loop variables, local integer names)"""
    if isinstance(node, ast.Constant) and isinstance(node.value, int) and not isinstance(node.value, bool): return Lin(node.value)
    if isinstance(node, ast.Name):
      v = env.get(node.id)
      if v is not None and v[0] == 'int': return v[1]
      fail(node, 'name is not an integer parameter / loop variable / local integer')
    if isinstance(node, ast.BinOp):
      if isinstance(node.op, ast.Add): return s.lin(node.left, env) + s.lin(node.right, env)
      if isinstance(node.op, ast.Sub): return s.lin(node.left, env) - s.lin(node.right, env)
      if isinstance(node.op, ast.Mult):
        a, b = s.lin(node.left, env), s.lin(node.right, env)
        if a.is_const(): return b.scale(a.c)
        if b.is_const(): return a.scale(b.c)
        fail(node, 'product of two non-constant expressions')
    fail(node, 'index / width expression outside the linear subset')

  def static(s, node, env):
    """-> ('int', Lin) | ('type', Lin width)"""
    if isinstance(node, ast.Name) and node.id in env and env[node.id][0] == 'type': return env[node.id]
    if isinstance(node, ast.Name):
      m = re.fullmatch(r'Bits(\d+)', node.id)
      if m: return ('type', Lin(int(m.group(1))))
    if isinstance(node, ast.Call) and isinstance(node.func, ast.Name) and node.func.id == 'mk_bits' and len(node.args) == 1 and not node.keywords:
      return ('type', s.lin(node.args[0], env))
    return ('int', s.lin(node, env))

  def need_nonneg(s, c, e, node, what, lower=None):
    if not e.nonneg(lower or c.lower): fail(node, f'{what}: cannot show `{e.lean()} >= 0` for all parameter values')

  # ------------------------------------------------------------------ elaboration of one class, parametrically
  def elaborate(s, clsname, node=None):
    if clsname in s.comps: return s.comps[clsname]
    if clsname not in CLASSES: fail(node, f'component class {clsname} is outside the translated set')
    cdef = s.find_class(clsname)
    con = next((f for f in cdef.body if isinstance(f, ast.FunctionDef) and f.name == 'construct'), None)
    if con is None: fail(cdef, 'no construct')
    if con.args.vararg or con.args.kwarg or con.args.kwonlyargs: fail(con, 'construct signature outside the subset')
    pnames = [a.arg for a in con.args.args][1:]
    params, env, lower = [], {}, {}
    for pn in pnames:
      if pn in TYPE_PARAMS:
        ln = pn + '_nbits'; params.append((pn, ln, 'type')); env[pn] = ('type', Lin.var(ln)); lower[ln] = 1
      else:
        params.append((pn, pn, 'int')); env[pn] = ('int', Lin.var(pn)); lower[pn] = PARAM_LOWER.get(pn, 0)
    c = Comp(clsname, params)
    c.lower = lower
    c.defaults = {}
    dstart = len(pnames) - len(con.args.defaults)
    for k, d in enumerate(con.args.defaults): c.defaults[pnames[dstart + k]] = s.static(d, {})
    c.sigs['reset'] = Lin(1); c.bool.add('reset'); c.dirs['reset'] = 'in'
    s.run_construct(c, con, env)
    s.comps[clsname] = c
    return c

  def run_construct(s, c, con, env):
    alias, pending, conns = {}, [], []
    for st in con.body:
      if isinstance(st, ast.Expr) and isinstance(st.value, ast.Constant) and isinstance(st.value.value, str): continue
      if isinstance(st, ast.FunctionDef):
        decs = [d.id for d in st.decorator_list if isinstance(d, ast.Name)]
        if decs == ['update']: pending.append((st, 'comb'))
        elif decs == ['update_ff']: pending.append((st, 'ff'))
        else: fail(st, 'function in construct that is neither @update nor @update_ff')
        continue
      if isinstance(st, ast.Assign):
        snames, lnames = [], []
        for t in st.targets:
          if isinstance(t, ast.Attribute) and isinstance(t.value, ast.Name) and t.value.id == 's': snames.append(t.attr)
          elif isinstance(t, ast.Name): lnames.append(t.id)
          else: fail(st, 'assignment target outside the subset')
        if snames:
          if len(snames) != 1: fail(st, 'two component attributes in one assignment')
          s.decl(c, snames[0], st.value, env)
          for ln in lnames: alias[ln] = snames[0]
        else:
          v = s.static(st.value, env)
          for ln in lnames: env[ln] = v
        continue
      if isinstance(st, ast.AugAssign) and isinstance(st.op, ast.FloorDiv):
        conns.append((st.target, st.value, st)); continue
      if isinstance(st, ast.Expr) and isinstance(st.value, ast.Call) and isinstance(st.value.func, ast.Name) and st.value.func.id == 'connect' \
         and len(st.value.args) == 2 and not st.value.keywords:
        conns.append((st.value.args[0], st.value.args[1], st)); continue
      fail(st, 'statement in construct outside the subset')
    s.structure(c, conns, env, alias)
    for fn, kind in pending: s.block(c, fn, env, kind)

  def decl(s, c, target, call, env):
    if not (isinstance(call, ast.Call) and isinstance(call.func, ast.Name)): fail(call, 'declaration outside the subset')
    if target in c.sigs or target in c.insts: fail(call, f's.{target} is declared twice')
    f = call.func.id
    if f in ('InPort', 'OutPort', 'Wire'):
      if call.keywords or len(call.args) > 1: fail(call, 'signal declaration with unexpected arguments')
      if not call.args:
        c.sigs[target] = Lin(1); c.bool.add(target)
      else:
        v = s.static(call.args[0], env)
        w = v[1]
        s.need_nonneg(c, w - Lin(1), call, 'signal width >= 1')
        c.sigs[target] = w
      c.dirs[target] = {'InPort': 'in', 'OutPort': 'out', 'Wire': 'wire'}[f]
      return
    sub = s.elaborate(f, call)
    if len(call.args) > len(sub.params): fail(call, 'too many constructor arguments')
    given = {}
    for k, a in enumerate(call.args): given[sub.params[k][0]] = a
    for kw in call.keywords:
      if kw.arg not in [p for p, _, _ in sub.params] or kw.arg in given: fail(call, f'constructor keyword {kw.arg}')
      given[kw.arg] = kw.value
    args = []
    for pn, ln, kind in sub.params:
      if pn in given: v = s.static(given[pn], env)
      elif pn in sub.defaults: v = sub.defaults[pn]
      else: fail(call, f'missing constructor argument {pn}')
      if v[0] != kind: fail(call, f'constructor argument {pn} is not of kind {kind}')
      s.need_nonneg(c, v[1] - Lin(sub.lower[ln]), call, f'constructor argument {pn} >= {sub.lower[ln]}')
      args.append(v[1])
    byname = {ln: a for (_, ln, _), a in zip(sub.params, args)}
    for pname, w in sub.param_uses:
      a = byname[pname]
      if not a.is_const(): fail(call, f'constructor argument {pname} is assigned to a signal and is not a constant')
      for ln, e in byname.items(): w = w.subst(ln, e)
      s.need_nonneg(c, w - Lin(max(a.c.bit_length(), 1)), call, f'{pname} = {a.c} fits the signal it is assigned to')
    c.insts[target] = (sub, args)

  # ------------------------------------------------------------------ signals
  def resolve(s, c, node, alias=None):
    """`s.a` / `s.inst.port` / `m.port` -> (field, width, is_bool, direction seen from this component's blocks) or None"""
    parts, n = [], node
    while isinstance(n, ast.Attribute): parts.append(n.attr); n = n.value
    if not isinstance(n, ast.Name): return None
    parts.reverse()
    if n.id == 's': pass
    elif alias and n.id in alias: parts = [alias[n.id]] + parts
    else: return None
    if len(parts) == 1 and parts[0] in c.sigs:
      return (parts[0], c.sigs[parts[0]], parts[0] in c.bool, 'own_' + c.dirs[parts[0]])
    if len(parts) == 2 and parts[0] in c.insts:
      sub, args = c.insts[parts[0]]
      if parts[1] not in sub.sigs: fail(node, 'unknown port of a sub-component')
      if sub.dirs[parts[1]] == 'wire': fail(node, 'wire of a sub-component used from outside')
      w = sub.sigs[parts[1]]
      for (_, ln, _), a in zip(sub.params, args): w = w.subst(ln, a)
      return (f'{parts[0]}_{parts[1]}', w, parts[1] in sub.bool, 'child_' + sub.dirs[parts[1]])
    fail(node, 'unknown signal')

  def fld(s, c, f): return c.rep.get(f, f)

  def bounds(s, c, sl, env, width, node, lower=None):
    """index k -> (k, k+1) ; slice a:b -> (a, b); checked 0 <= a < b <= width for all parameter values"""
    if isinstance(sl, ast.Slice):
      if sl.step is not None or sl.lower is None or sl.upper is None: fail(node, 'slice without explicit bounds / with a step')
      lo, hi = s.lin(sl.lower, env), s.lin(sl.upper, env)
      single = False
    else:
      lo = s.lin(sl, env); hi = lo + Lin(1); single = True
    return lo, hi, single

  def check_range(s, c, lo, hi, width, node, ranges, allow_empty_at_min=False):
    """0 <= lo, lo < hi, hi <= width for all parameter values and all loop-variable values in `ranges`
    ranges: [(var, lo Lin, hi Lin)] innermost last; a loop variable with a non-negative coefficient is replaced by its extreme"""
    def extreme(e, upper):
      for var, a, b in reversed(ranges):
        k = e.t.get(var, 0)
        if k == 0: continue
        if k < 0: fail(node, f'index decreasing in the loop variable {var}')
        e = e.subst(var, (b - Lin(1)) if upper else a)
      return e
    s.need_nonneg(c, extreme(lo, False), node, 'index >= 0')
    s.need_nonneg(c, width - extreme(hi, True), node, 'index / slice within the declared width')
    s.need_nonneg(c, hi - lo - Lin(1), node, 'non-empty slice')

  # ------------------------------------------------------------------ structure: nets, instances, slice connections
  def structure(s, c, conns, env, alias):
    whole, parts = [], []
    for a, b, node in conns:
      ea, eb = s.endpoint(c, a, env, alias), s.endpoint(c, b, env, alias)
      if ea[0] == 'sig' and eb[0] == 'sig': whole.append((ea, eb, node))
      elif ea[0] == 'part' and eb[0] == 'part': parts.append((ea, eb, node))
      else: fail(node, 'connection between a whole signal and a slice')
    uf = {}
    def find(x):
      while uf.setdefault(x, x) != x: x = uf[x]
      return x
    ports = {}
    for iname, (sub, args) in c.insts.items():
      for f, w in sub.sigs.items():
        if sub.dirs[f] == 'wire': continue
        for (_, ln, _), a in zip(sub.params, args): w = w.subst(ln, a)
        ports[f'{iname}_{f}'] = (w, f in sub.bool)
      uf[find(f'{iname}_reset')] = find('reset')             # implicit reset
    for ea, eb, node in whole:
      if ea[2] != eb[2] or ea[3] != eb[3]: fail(node, 'connection between signals of different widths')
      uf[find(ea[1])] = find(eb[1])
    groups = {}
    for e in list(c.sigs) + list(ports): groups.setdefault(find(e), []).append(e)
    for root, es in groups.items():
      named = [e for e in es if e in c.sigs]
      if len(named) > 1: raise Fail(f'two named signals of {c.cls} on one net: {named} (outside the subset)')
      rep = named[0] if named else es[0]
      for e in es: c.rep[e] = rep
      if not named:
        if len(es) > 1: raise Fail(f'ports {es} of sub-components connected to each other without a named signal (outside the subset)')
        c.extra[rep] = ports[rep]
    for ea, eb, node in parts:
      # which side is driven: an in port of a sub-component or an out port / wire of this component
      da, db = ea[5], eb[5]
      if da == 'child_in' and db != 'child_in': drv, srcp = ea, eb          # a child's in port can only be driven from here
      elif db == 'child_in' and da != 'child_in': drv, srcp = eb, ea
      elif da in ('own_in', 'child_out') and db in ('own_out', 'own_wire'): drv, srcp = eb, ea
      elif db in ('own_in', 'child_out') and da in ('own_out', 'own_wire'): drv, srcp = ea, eb
      else: fail(node, 'cannot tell the driven side of a slice connection')
      if (drv[3] - drv[2]) != (srcp[3] - srcp[2]): fail(node, 'slice connection of different widths')
      code = f'getSlice v.{s.fld(c, srcp[1])} {srcp[2].lean()} {srcp[3].lean()}'
      c.conn_slices.setdefault(drv[1], []).append((drv[2], drv[3], code, node))

  def endpoint(s, c, node, env, alias):
    """('sig', field, width, is_bool) | ('part', field, lo, hi, width, direction)"""
    if isinstance(node, ast.Subscript):
      r = s.resolve(c, node.value, alias)
      if r is None: fail(node, 'endpoint outside the subset')
      if r[2]: fail(node, 'slice of a 1-bit signal')
      lo, hi, _ = s.bounds(c, node.slice, env, r[1], node)
      s.check_range(c, lo, hi, r[1], node, [])
      return ('part', r[0], lo, hi, r[1], r[3])
    r = s.resolve(c, node, alias)
    if r is None: fail(node, 'endpoint outside the subset')
    return ('sig', r[0], r[1], r[2])

  # ------------------------------------------------------------------ blocks
  def block(s, c, fn, env, kind):
    if fn.args.args: fail(fn, 'update block with arguments')
    if any(fn.name == b[0] for b in c.blocks): fail(fn, f'two update blocks named {fn.name}')
    st = {'kind': kind, 'rd': 'v', 'wr': 'v' if kind == 'comb' else 'w', 'ranges': [], 'loops': [], 'name': fn.name, 'env': dict(env), 'nloop': [0]}
    body = s.seq(c, fn.body, st)
    P = c.binder()
    text = []
    for lname, lvars, lbody in st['loops']:
      outer = ''.join(f' ({x} : Nat)' for x in lvars[:-1])
      text.append(f'def {lname} {P}{outer}({st["rd"]} : Sig) ({lvars[-1]} : Nat) : Sig :=\n  {lbody}\n')
    if kind == 'comb':
      text.append(f'/-- `@update {fn.name}` of {c.cls} -/\ndef {fn.name} {P}(v : Sig) : Sig :=\n  {body}\n')
    else:
      text.append(f'/-- `@update_ff {fn.name}` of {c.cls}: the signals after the clock edge -/\ndef {fn.name} {P}(v : Sig) : Sig :=\n  let w := v\n  {body}\n')
    c.blocks.append((fn.name, kind, '\n'.join(text)))

  def seq(s, c, stmts, st):
    """a statement list as a Lean term of type Sig (the store after the statements)"""
    wr = st['wr']
    steps = []
    for x in stmts:
      if isinstance(x, ast.Expr) and isinstance(x.value, ast.Constant) and isinstance(x.value.value, str): continue
      steps.append(s.stmt(c, x, st))
    if not steps: return wr
    if len(steps) == 1: return steps[0]
    return '(' + ''.join(f'let {wr} := {e}; ' for e in steps) + wr + ')'

  def stmt(s, c, x, st):
    kind, wr, env = st['kind'], st['wr'], st['env']
    if isinstance(x, ast.AugAssign) and isinstance(x.op, (ast.MatMult, ast.LShift)):
      if (kind == 'comb') != isinstance(x.op, ast.MatMult): fail(x, '@= in update_ff or <<= in update')
      tgt = x.target
      sub = None
      if isinstance(tgt, ast.Subscript): sub = tgt.slice; tgt = tgt.value
      r = s.resolve(c, tgt)
      if r is None: fail(x, 'assignment target is not a signal')
      if r[3] in ('own_in', 'child_out'): fail(x, 'assignment to an in port of this component / out port of a sub-component')
      f = s.fld(c, r[0])
      if sub is None:
        val = s.value(c, x.value, st, Lin(1) if r[2] else r[1], r[2])
        return f'{{ {wr} with {f} := {val} }}'
      if kind == 'ff': fail(x, '<<= to a slice')
      if r[2]: fail(x, 'index into a 1-bit signal')
      lo, hi, single = s.bounds(c, sub, env, r[1], x)
      s.check_range(c, lo, hi, r[1], x, st['ranges'])
      if single:
        val = s.value(c, x.value, st, Lin(1), True)
        return f'{{ {wr} with {f} := setBit {wr}.{f} {lo.lean()} {s.atom(val)} }}'
      val = s.value(c, x.value, st, hi - lo, False)
      return f'{{ {wr} with {f} := setSlice {wr}.{f} {lo.lean()} {hi.lean()} {s.atom(val)} }}'
    if isinstance(x, ast.If):
      cond = s.value(c, x.test, st, Lin(1), True)
      return f'(if {cond} then {s.seq(c, x.body, st)} else {s.seq(c, x.orelse, st)})'
    if isinstance(x, ast.For):
      if kind == 'ff': fail(x, 'loop in an update_ff block')
      if x.orelse or not isinstance(x.target, ast.Name): fail(x, 'for loop outside the subset')
      it = x.iter
      if not (isinstance(it, ast.Call) and isinstance(it.func, ast.Name) and it.func.id == 'range' and not it.keywords and len(it.args) in (1, 2)):
        fail(x, 'loop that is not `for i in range(E)` / `range(A, B)`')
      a = Lin(0) if len(it.args) == 1 else s.lin(it.args[0], env)
      b = s.lin(it.args[-1], env)
      for e in (a, b):
        if any(v in e.t for v, _, _ in st['ranges']): fail(x, 'loop bound depends on an outer loop variable')
      s.need_nonneg(c, a, x, 'loop start >= 0'); s.need_nonneg(c, b - a, x, 'loop end >= loop start')
      var = x.target.id
      if var in env or var in ('v', 'w', 's'): fail(x, f'loop variable {var} shadows another name')
      st['nloop'][0] += 1
      lname = f'{st["name"]}_loop{st["nloop"][0]}'
      inner = {**st, 'env': {**env, var: ('int', Lin.var(var))}, 'ranges': st['ranges'] + [(var, a, b)]}
      # the loop variable of the generated fold runs over List.range (b - a); a non-zero start is added inside the body
      if a == Lin(0):
        body = s.seq(c, x.body, inner)
      else:
        body = f'(let {var} := {a.lean()} + {var}; {s.seq(c, x.body, inner)})'
      lvars = [v for v, _, _ in st['ranges']] + [var]
      st['loops'].append((lname, lvars, body))
      outer = ''.join(f' {v}' for v, _, _ in st['ranges'])
      P = (' ' + c.lean_params()) if c.params else ''
      return f'(List.range {(b - a).lean()}).foldl ({lname}{P}{outer}) {wr}'
    fail(x, 'statement outside the subset')

  def value(s, c, node, st, width, want_bool):
    """an expression assigned to / used as a value of `width` bits (Bool when want_bool)"""
    code, k = s.expr(c, node, st)
    if want_bool:
      if k[0] == 'b': return code
      if k[0] == 'i' and k[1] in (0, 1): return 'true' if k[1] else 'false'
      fail(node, 'a 1-bit value is expected')
    if k[0] == 'n':
      if k[1] != width: fail(node, f'width mismatch: {k[1].lean()} bits where {width.lean()} are expected')
      return code
    if k[0] == 'i':
      # an integer constant must fit for every parameter value: width >= bit_length for all parameters
      if k[1] < 0: fail(node, 'negative constant')
      s.need_nonneg(c, width - Lin(max(k[1].bit_length(), 1)), node, f'constant {k[1]} fits')
      return str(k[1])
    if k[0] == 'p':
      c.param_uses.append((code, width))
      return code           # an integer constructor parameter: that it fits is checked where the class is instantiated
    fail(node, 'a word value is expected')

  def expr(s, c, node, st):
    """-> (lean code, kind); kind = ('b',) | ('n', width Lin) | ('i', int) | ('p',)"""
    env, rd = st['env'], st['rd']
    if isinstance(node, ast.Constant):
      if isinstance(node.value, bool) or not isinstance(node.value, int): fail(node, 'constant outside the subset')
      return (str(node.value), ('i', node.value))
    if isinstance(node, ast.Name):
      v = env.get(node.id)
      if v is not None and v[0] == 'int':
        if v[1].is_const(): return (str(v[1].c), ('i', v[1].c))
        if any(node.id == p for p, _, k in c.params if k == 'int') and not st['ranges']: return (node.id, ('p',))
      fail(node, 'name used as a value')
    if isinstance(node, ast.Attribute):
      r = s.resolve(c, node)
      if r is None: fail(node, 'attribute outside the subset')
      return (f'{rd}.{s.fld(c, r[0])}', ('b',) if r[2] else ('n', r[1]))
    if isinstance(node, ast.Subscript):
      r = s.resolve(c, node.value)
      if r is None: fail(node, 'subscript of something that is not a signal')
      if r[2]: fail(node, 'index into a 1-bit signal')
      lo, hi, single = s.bounds(c, node.slice, env, r[1], node)
      s.check_range(c, lo, hi, r[1], node, st['ranges'])
      f = f'{rd}.{s.fld(c, r[0])}'
      if single: return (f'bit {f} {lo.lean()}', ('b',))
      return (f'(getSlice {f} {lo.lean()} {hi.lean()})', ('n', hi - lo))
    if isinstance(node, ast.UnaryOp) and isinstance(node.op, ast.Invert):
      code, k = s.expr(c, node.operand, st)
      if k[0] == 'b': return (f'!{s.atom(code)}', ('b',))
      fail(node, '~ on something that is not 1 bit wide')
    if isinstance(node, ast.BinOp) and isinstance(node.op, (ast.BitAnd, ast.BitOr)):
      a, ak = s.expr(c, node.left, st); b, bk = s.expr(c, node.right, st)
      isand = isinstance(node.op, ast.BitAnd)
      if ak[0] == 'b' and bk[0] == 'b': return (f'({a} {"&&" if isand else "||"} {b})', ('b',))
      if ak[0] == 'n' and bk[0] == 'n' and ak[1] == bk[1]: return (f'({a} {"&&&" if isand else "|||"} {b})', ak)
      fail(node, 'bitwise operator on operands of different widths')
    if isinstance(node, ast.Compare) and len(node.ops) == 1 and isinstance(node.ops[0], (ast.Eq, ast.NotEq)):
      a, ak = s.expr(c, node.left, st); b, bk = s.expr(c, node.comparators[0], st)
      sym = '==' if isinstance(node.ops[0], ast.Eq) else '!='
      if ak[0] == 'n' and bk[0] == 'n' and ak[1] == bk[1]: return (f'({a} {sym} {b})', ('b',))
      if ak[0] == 'n' and bk[0] == 'i':
        s.need_nonneg(c, ak[1] - Lin(max(bk[1].bit_length(), 1)), node, f'constant {bk[1]} fits')
        return (f'({a} {sym} {b})', ('b',))
      if ak[0] == 'b' and bk[0] == 'b': return (f'({a} {sym} {b})', ('b',))
      fail(node, 'comparison outside the subset')
    fail(node, 'expression outside the subset')

  def atom(s, code):
    if re.fullmatch(r'[\w.]+', code): return code
    if code.startswith('(') and code.endswith(')'):
      depth = 0
      for k, ch in enumerate(code):
        depth += (ch == '(') - (ch == ')')
        if depth == 0 and k < len(code) - 1: break
      else: return code
    return f'({code})'

  # ------------------------------------------------------------------ rendering
  def render(s, c):
    P = c.binder()
    L = [f'/-! ## `{c.cls}` ({FILES[CLASSES[c.cls]]})' + (f' — parameters: {", ".join(f"{pn} ({kind}) as `{ln}`" for pn, ln, kind in c.params)}' if c.params else '') + ' -/', '',
         f'namespace {c.cls}', '',
         '/-- index / slice / width checks of the translator hold for parameter values from these lower bounds on -/',
         'def paramLower : List (String × Nat) := [' + ', '.join(f'("{ln}", {c.lower[ln]})' for _, ln, _ in c.params) + ']', '',
         'structure Sig where']
    for f, w in c.sigs.items(): L.append(f'  {f} : {"Bool" if f in c.bool else "Nat"}')
    for f, (w, isb) in c.extra.items(): L.append(f'  {f} : {"Bool" if isb else "Nat"}')
    L.append('')
    for f, w in c.sigs.items():
      L.append(f'def width_{f} {P}: Nat := {w.lean()}')
    L.append('')
    for name, kind, text in c.blocks: L.append(text)
    for drv, sl in c.conn_slices.items():
      code = '0'
      for lo, hi, srcc, node in sl: code = f'setSlice ({code}) {lo.lean()} {hi.lean()} ({srcc})' if code != '0' else f'setSlice 0 {lo.lean()} {hi.lean()} ({srcc})'
      L.append('/-- `' + drv + '` as driven by the slice connections ' + '; '.join(f'`{src(n)}`' for _, _, _, n in sl) + ' (bits no connection drives are 0) -/')
      L.append(f'def {drv}_conn {P}(v : Sig) : Nat :=\n  {code}\n')
    for iname, (sub, args) in c.insts.items():
      fields = [f for f in sub.sigs if sub.dirs[f] != 'wire']
      if any(sub.dirs[f] == 'wire' for f in sub.sigs): raise Fail(f'instance {iname}: class {sub.cls} has internal wires (outside the subset)')
      binding = ', '.join(f'{f} := v.{c.rep[f"{iname}_{f}"]}' for f in fields)
      L.append(f'/-- the ports of instance `s.{iname}` ({sub.cls}) as connected in `{c.cls}` -/')
      L.append(f'def {iname}_sig (v : Sig) : {sub.cls}.Sig :=\n  {{ {binding} }}\n')
      argc = ''.join(' ' + a.lean() for a in args)
      for name, kind, _ in sub.blocks:
        L.append(f'/-- block `{name}` of instance `s.{iname}` = {sub.cls}({", ".join(f"{pn} = {a.lean()}" for (pn, _, _), a in zip(sub.params, args))}) -/')
        L.append(f'def {iname}_{name} {P}(v : Sig) : {sub.cls}.Sig := {sub.cls}.{name}{argc} ({iname}_sig v)\n')
    L.append(f'end {c.cls}\n')
    return '\n'.join(L)

  def run(s):
    body = []
    for cls in CLASSES:
      try:
        body.append(s.render(s.elaborate(cls)))
      except Fail as e:
        s.failures.append((cls, str(e)))
        body.append(f'/- TRANSLATION OF {cls} FAILED: {e} -/\n')
    return HEADER + '\n'.join(body) + FOOTER

HEADER = '''/-
GENERATED by tools/py2lean_arb.py from pymtl3/stdlib/basic_rtl/registers.py and pymtl3/stdlib/basic_rtl/arbiters.py.
Do not edit: the file is regenerated from the current Python source on every check of C19; Props/C19Gen.lean proves every
definition below equal to the corresponding function of Model/Arb.lean (generated = model), for every nreqs.

A block is a function on a valuation `Sig` of the component's signals: its statements executed in order.  A signal is its
unsigned value; `bit x i` is `x[i]`, `setBit x i b` is `x[i] @= b`, `getSlice x a b` is `x[a:b]`, `setSlice x a b y` is
`x[a:b] @= y` (`y` has `b - a` bits by the width check of the translator; it is reduced modulo `2^(b-a)`, which changes nothing
for such a `y`).
-/
set_option linter.unusedVariables false

namespace PV.ArbGen

def bit (x i : Nat) : Bool := x.testBit i
def setBit (x i : Nat) (b : Bool) : Nat := if x.testBit i == b then x else x ^^^ 2 ^ i
def getSlice (x a b : Nat) : Nat := (x >>> a) % 2 ^ (b - a)
def setSlice (x a b y : Nat) : Nat := (x - ((x >>> a) % 2 ^ (b - a)) * 2 ^ a) + (y % 2 ^ (b - a)) * 2 ^ a

'''
FOOTER = '\nend PV.ArbGen\n'

def default_root():
  """$PV_REPO (tools/try_seed.sh points it at a seeded worktree), else the tree the imported pymtl3 lives in, else /repo"""
  if os.environ.get('PV_REPO'): return os.environ['PV_REPO']
  try:
    import pymtl3
    root = os.path.dirname(os.path.dirname(os.path.abspath(pymtl3.__file__)))
    if os.path.exists(os.path.join(root, FILES['arb'])): return root
  except Exception: pass
  return '/repo'

def generate(src_root):
  t = Translator(src_root)
  text = t.run()
  return text, t.failures

def pregen(src_root=None, out=DEFAULT_OUT):
  """hook of harness/checks/c19.py (`pregen(ck)`): regenerate Gen/ArbGen.lean from the source tree the check runs against
  ($PV_REPO or /repo); raises if something is outside the rendered subset (-> broken obligation)"""
  if src_root is None: src_root = default_root()
  try:
    text, failures = generate(src_root)
  except (OSError, SyntaxError, Fail) as e:
    raise RuntimeError(f'py2lean_arb could not read / parse the source: {e}')
  write_if_changed(out, text)
  if failures:
    raise RuntimeError('py2lean_arb could not translate: ' + ' | '.join(f'{n}: {m}' for n, m in failures))
  ndefs = len(re.findall(r'^def ', text, re.M))
  return [f'Gen/ArbGen.lean was regenerated before the build from {os.path.join(src_root, FILES["arb"])} and registers.py by '
          f'tools/py2lean_arb.py ({ndefs} definitions)']

def main():
  ap = argparse.ArgumentParser()
  ap.add_argument('--src-root', default=default_root())
  ap.add_argument('--out', default=DEFAULT_OUT)
  ap.add_argument('--stdout', action='store_true')
  ap.add_argument('--check', action='store_true')
  a = ap.parse_args()
  text, failures = generate(a.src_root)
  for name, msg in failures: print(f'py2lean_arb: FAILED {name}: {msg}', file=sys.stderr)
  if a.stdout: sys.stdout.write(text)
  elif a.check:
    try: same = open(a.out).read() == text
    except OSError: same = False
    if not same:
      print(f'py2lean_arb: {a.out} is not what the current source generates', file=sys.stderr); sys.exit(1)
  else:
    changed = write_if_changed(a.out, text)
    print(f'py2lean_arb: {a.out} {"rewritten" if changed else "unchanged"}')
  sys.exit(3 if failures else 0)

if __name__ == '__main__':
  main()
