#!/usr/bin/env python3
"""py2lean_core.py — the AST-driven Python -> Lean translator shared by tools/py2lean_bits.py, py2lean_mem.py and
py2lean_overlap.py (each of those supplies a `Config`: source files, signatures of the definitions to generate, header).

The translation is driven by the Python AST.  Per generated definition the only configuration is its
*signature* (which Lean type each Python parameter has and what the result is); the body is compiled from the
statements of the Python function.  See the doc string of py2lean_bits.py for the subset and the treatment of
exceptions; anything outside the subset raises `Untranslatable` naming the function and the offending AST node.
"""
import ast, os, re

class Config:
  """what one translator instance generates"""
  def __init__(self, sources, specs, header, footer, where, tables=None, bits_alias=None, external_specs=(),
               external_prefix='', const_classes=None, prelude=None, imports=None):
    self.sources = list(sources)              # [(module key, path relative to the pymtl3 checkout)]; key 'bits' = PythonBits.py
    self.specs = list(specs)                  # [(lean name, module key, python function, [(parameter, kind)], result)]
    self.header, self.footer = header, footer
    self.where = where                        # (module key, python name) -> text of the doc comment
    self.tables = dict(tables or {})          # module-level tables of PythonBits.py -> Lean names
    self.bits_alias = bits_alias or re.compile(r'^$a')
    self.external_specs = list(external_specs)  # definitions generated into another file (callable, not generated here)
    self.external_prefix = external_prefix
    self.const_classes = dict(const_classes or {})   # name -> (module key, class) whose int attributes are constants
    self.prelude = prelude                    # Python source of the builtins the code may call (e.g. min / max)
    self.imports = dict(imports or {})        # (module key, name) -> module key of the function the name is bound to

ERR_OF = {'IndexError': '.index', 'ZeroDivisionError': '.zerodiv', 'TypeError': '.type', 'AssertionError': '.assert'}
LEAN_RESERVED = {'at', 'from', 'end', 'open', 'in', 'then', 'else', 'if', 'do', 'let', 'have', 'show', 'fun', 'match',
                 'with', 'where', 'def', 'theorem', 'namespace', 'section', 'import', 'instance', 'structure', 'class',
                 'Type', 'Prop', 'Sort', 'by', 'using', 'mut', 'for', 'return', 'try', 'catch', 'finally', 'local',
                 'st', 'fuel', 'e'}


class Untranslatable(Exception):
  def __init__(self, func, node, why):
    self.func, self.node, self.why = func, node, why
    loc = f'line {node.lineno}' if hasattr(node, 'lineno') else 'line ?'
    d = ast.dump(node) if isinstance(node, ast.AST) else repr(node)
    if len(d) > 400: d = d[:400] + '...'
    super().__init__(f'{func}: cannot translate ({why}) at {loc}: {d}')

class ImpureLoop(Untranslatable):
  """a loop body that was assumed pure contains a raising construct (the loop is re-translated monadically)"""

class StaticRaise(Exception):
  """the expression being translated raises this exception class, known at translation time"""
  def __init__(self, cls, node): self.cls, self.node = cls, node

class NeedRefine(Exception):
  """the expression inspects the dynamic kind of `lean`; the enclosing statement is re-translated per kind"""
  def __init__(self, kind, lean): self.kind, self.lean = kind, lean

# ----------------------------------------------------------------------------------------------------------
# values of the partial evaluator
# ----------------------------------------------------------------------------------------------------------
class V:
  def __init__(self, kind, lean=None, nonneg=False, **x):
    self.kind, self.lean, self.nonneg, self.x = kind, lean, nonneg, x
  def __repr__(self): return f'V({self.kind},{self.lean})'

def static(b): return V('prop', 'True' if b else 'False', static=bool(b))
def is_static(v): return v.kind == 'prop' and 'static' in v.x

def mk_obj(fields, origin=None, dirty=False, reg=False):
  return V('obj', None, fields=dict(fields), origin=origin, dirty=dirty, reg=reg)

def bits_obj(lean):
  """a Bits object held in the Lean variable/expression `lean : B`"""
  return mk_obj({'_nbits': V('int', f'({lean}.n : Int)', True), '_uint': V('int', f'({lean}.v : Int)', True)}, origin=lean)

def reg_obj(lean):
  return mk_obj({'_nbits': V('int', f'({lean}.cur.n : Int)', True), '_uint': V('int', f'({lean}.cur.v : Int)', True),
                 '_next': V('optnat', f'{lean}.next')}, origin=lean, reg=True)

class Env:
  def __init__(self, vars=None, refined=None, handlers=(), ctx=(), pure=None, frame=None):
    self.frame = frame             # 'loop': inside the body of a raising loop (results are plain `Except Err state`)
    self.vars = vars or {}
    self.refined = refined or {}
    self.handlers = handlers       # innermost last
    self.ctx = ctx                 # flags of the enclosing `if` tests: does the test read `.nbits` (-> Err.width)
    self.pure = pure               # not None: inside a loop body, raising constructs are not supported
  def _copy(self): return Env(self.vars, self.refined, self.handlers, self.ctx, self.pure, self.frame)
  def set(self, name, v):
    e = self._copy(); e.vars = dict(self.vars); e.vars[name] = v; return e
  def refine(self, lean, v):
    e = self._copy(); e.refined = dict(self.refined); e.refined[lean] = v; return e
  def with_handlers(self, hs):
    e = self._copy(); e.handlers = tuple(hs); return e
  def with_ctx(self, ctx):
    e = self._copy(); e.ctx = tuple(ctx); return e
  def with_pure(self, p):
    e = self._copy(); e.pure = p; return e
  def with_frame(self, f):
    e = self._copy(); e.frame = f; e.handlers = (); return e

class Handler:
  def __init__(self, classes, body, cont, ctx):
    self.classes, self.body, self.cont, self.ctx = classes, body, cont, ctx   # classes None = catches everything
  def catches(self, cls): return self.classes is None or cls in self.classes
  def only_attribute_error(self): return self.classes is not None and set(self.classes) <= {'AttributeError'}

# ----------------------------------------------------------------------------------------------------------
# Lean output tree
# ----------------------------------------------------------------------------------------------------------
class Leaf:
  def __init__(self, text): self.text = text
class If:
  def __init__(self, cond, then, els): self.cond, self.then, self.els = cond, then, els
class Let:
  def __init__(self, name, ty, val, body): self.name, self.ty, self.val, self.body = name, ty, val, body
class Match:
  def __init__(self, scrut, arms): self.scrut, self.arms = scrut, arms

def lname(py):
  s = re.sub(r'[^A-Za-z0-9_]', '_', py)
  return s + '_' if s in LEAN_RESERVED else s

def tuple_ty(k): return ' × '.join(['Int'] * k)
def tuple_proj(var, i, k):
  if k == 1: return var
  return f'{var}' + '.2' * i + ('.1' if i < k - 1 else '')

# ----------------------------------------------------------------------------------------------------------
class FnCtx:
  def __init__(self, spec):
    self.lean, self.module, self.py, self.params, self.result = spec
    self.counter = 0
    self.has_while = False
  def fresh(self, stem='t'):
    self.counter += 1
    return f'{stem}{self.counter}'

class Translator:
  def __init__(self, src_root, cfg):
    self.src_root = src_root
    self.cfg = cfg
    self.specs = list(cfg.specs)
    self.tables = dict(cfg.tables)
    self.trees = {}
    for key, rel in cfg.sources:
      path = os.path.join(src_root, rel)
      with open(path) as f: self.trees[key] = ast.parse(f.read(), filename=path)
    if cfg.prelude:
      self.trees['<builtins>'] = ast.parse(cfg.prelude, filename='<builtins>')
    self.funcs = {key: {} for key in self.trees}  # module-level functions
    self.methods = {}                            # methods of class Bits
    self.properties = set()
    self.aliases = {}                            # module-level `name = <expr>` in PythonBits.py
    self.dicts = {}                              # (module, name) -> ast.Dict  (module-level dict displays)
    self.consts = {}                             # class name -> {attribute: int}  (cfg.const_classes)
    self.table_init = {}                         # table name -> list of int constants
    self.table_loop = None
    self.index_sources()
    self.generated = {}       # lean name -> text
    self.gen_meta = {}        # lean name -> FnCtx
    self.order = []
    self.in_progress = []
    self.failures = []        # (lean name, message)
    self.fn = None
    self.pre = []

  # ------------------------------------------------------------------------------------------ indexing
  def index_sources(self):
    for node in (self.trees['bits'].body if 'bits' in self.trees else []):
      if isinstance(node, ast.FunctionDef): self.funcs['bits'][node.name] = node
      elif isinstance(node, ast.ClassDef) and node.name == 'Bits':
        for m in node.body:
          if isinstance(m, ast.FunctionDef):
            self.methods[m.name] = m
            if any(isinstance(d, ast.Name) and d.id == 'property' for d in m.decorator_list):
              self.properties.add(m.name)
      elif isinstance(node, ast.Assign) and len(node.targets) == 1 and isinstance(node.targets[0], ast.Name):
        name = node.targets[0].id
        if name in self.tables: self.table_init[name] = node
        else: self.aliases[name] = node.value
      elif isinstance(node, ast.For): self.table_loop = node
    def scan(key, stmts):
      for node in stmts:
        if isinstance(node, ast.FunctionDef): self.funcs[key].setdefault(node.name, node)
        elif isinstance(node, ast.Try):
          # `try: from mamba import concat / except: def concat(..)`: the pure-Python definition is the one translated
          for h in node.handlers: scan(key, h.body)
        elif (isinstance(node, ast.Assign) and len(node.targets) == 1 and isinstance(node.targets[0], ast.Name)
              and isinstance(node.value, ast.Dict)):
          self.dicts[(key, node.targets[0].id)] = node.value
    for key in self.trees:
      if key != 'bits': scan(key, self.trees[key].body)
    for cname, (key, klass) in self.cfg.const_classes.items():
      vals = {}
      for node in self.trees[key].body:
        if isinstance(node, ast.ClassDef) and node.name == klass:
          for m in node.body:
            if (isinstance(m, ast.Assign) and len(m.targets) == 1 and isinstance(m.targets[0], ast.Name)
                and self.const_int(m.value) is not None):
              vals[m.targets[0].id] = self.const_int(m.value)
      self.consts[cname] = vals

  def unt(self, node, why):
    return Untranslatable(self.fn.py if self.fn else '<module>', node, why)

  # ------------------------------------------------------------------------------------------ tables
  def gen_tables(self):
    """`T = [c0, c1]` + `for i in range(k, N): T.append(f(T[i-1]))`  ->  recursive Lean definitions"""
    loop = self.table_loop
    self.fn = FnCtx(('tables', 'bits', '<module-level tables>', [], 'Int'))
    if loop is None: raise self.unt(self.trees['bits'], 'no module-level table loop')
    if not (isinstance(loop.target, ast.Name) and isinstance(loop.iter, ast.Call) and isinstance(loop.iter.func, ast.Name)
            and loop.iter.func.id == 'range' and len(loop.iter.args) == 2
            and all(isinstance(a, ast.Constant) and isinstance(a.value, int) for a in loop.iter.args) and not loop.orelse):
      raise self.unt(loop, 'table loop is not `for i in range(c, N)`')
    ivar = loop.target.id
    k, N = loop.iter.args[0].value, loop.iter.args[1].value
    out = [f'/-- length of the tables (`range({k}, {N})` after {k} initial entries) -/', f'def tabLen : Nat := {N}', '']
    seen = []
    for st in loop.body:
      if not (isinstance(st, ast.Expr) and isinstance(st.value, ast.Call) and isinstance(st.value.func, ast.Attribute)
              and st.value.func.attr == 'append' and isinstance(st.value.func.value, ast.Name)
              and st.value.func.value.id in self.tables and len(st.value.args) == 1 and not st.value.keywords):
        raise self.unt(st, 'table loop body is not `T.append(expr)`')
      tname = st.value.func.value.id
      if tname in seen: raise self.unt(st, 'table appended twice per iteration')
      seen.append(tname)
      init = self.table_init.get(tname)
      if init is None or not isinstance(init.value, ast.List): raise self.unt(st, f'no list initialiser for {tname}')
      consts = []
      for e in init.value.elts:
        c = self.const_int(e)
        if c is None: raise self.unt(e, 'table initialiser is not an int constant')
        consts.append(c)
      if len(consts) != k or k < 1: raise self.unt(init, f'table has {len(consts)} initial entries but the loop starts at {k}')
      lean = self.tables[tname]
      env = Env(vars={'__table__': V('tabledef', tname, ivar=ivar, k=k, tab=lean)})
      self.pre = []
      v = self.to_int(self.expr(st.value.args[0], env), st.value.args[0])
      if self.pre: raise self.unt(st, 'table entry expression can raise')
      out.append(f'/-- the table `{tname}` as the module builds it -/')
      out.append(f'def {lean} : Nat → Int')
      for j, c in enumerate(consts): out.append(f'  | {j} => {self.int_lit(c)}')
      out.append(f'  | ({ivar}+{k}) => {v.lean}')
      out.append('')
    for t in self.tables:
      if t not in seen: raise self.unt(loop, f'table {t} is not built by the loop')
    self.table_len = N
    return '\n'.join(out)

  def const_int(self, e):
    if isinstance(e, ast.Constant) and isinstance(e.value, int) and not isinstance(e.value, bool): return e.value
    if isinstance(e, ast.UnaryOp) and isinstance(e.op, ast.USub):
      c = self.const_int(e.operand)
      return None if c is None else -c
    return None

  @staticmethod
  def int_lit(c): return f'({c})' if c < 0 else str(c)

  # ------------------------------------------------------------------------------------------ definitions
  def fdef_of(self, spec):
    _, module, py, _, _ = spec
    d = self.methods.get(py) if module == 'bits' else self.funcs[module].get(py)
    if d is None and module != 'bits' and '.' in py:
      cname, mname = py.split('.', 1)
      for node in self.trees[module].body:
        if isinstance(node, ast.ClassDef) and node.name == cname:
          for m in node.body:
            if isinstance(m, ast.FunctionDef) and m.name == mname: d = m
    if d is None:
      raise Untranslatable(py, self.trees[module], f'function {py} not found in the source')
    return d

  def ensure(self, spec):
    lean = spec[0]
    if lean in self.generated: return
    if lean in self.in_progress:
      raise Untranslatable(spec[2], self.trees[spec[1]], 'recursive call chain ' + ' -> '.join(self.in_progress + [lean]))
    saved = (self.fn, self.pre)
    self.in_progress.append(lean)
    try:
      text = self.gen_def(spec)
    finally:
      self.in_progress.pop()
      fn = self.fn
      self.fn, self.pre = saved
    self.generated[lean] = text
    self.gen_meta[lean] = fn
    self.order.append(lean)

  def gen_def(self, spec):
    lean, module, py, params, result = spec
    if (module, py) in self.dicts: return self.gen_dispatch(spec, self.dicts[(module, py)])
    return self.gen_fn(spec, self.fdef_of(spec), self.cfg.where(module, py))

  def gen_dispatch(self, spec, d):
    """a module-level dict `{ CONST : lambda .. / builtin, .. }` -> one definition per entry + the lookup (none = KeyError)"""
    lean, module, py, params, result = spec
    self.fn = FnCtx(spec)
    out, arms, seen = [], [], set()
    ty = self.result_type(result)
    sigty = ' → '.join(self.kind_type(k, d) for _, k in params)
    for kn, vn in zip(d.keys, d.values):
      if kn is None: raise self.unt(d, 'dict unpacking')
      key = self.const_key(kn)
      if key in seen: raise self.unt(kn, 'duplicate key')
      seen.add(key)
      ename = f'{lean}_{kn.attr if isinstance(kn, ast.Attribute) else key}'
      if isinstance(vn, ast.Lambda): fd = vn
      elif isinstance(vn, ast.Name) and vn.id in self.funcs.get('<builtins>', {}): fd = self.funcs['<builtins>'][vn.id]
      else: raise self.unt(vn, 'dict value is neither a lambda nor a known builtin')
      names = [x.arg for x in fd.args.args]
      if len(names) != len(params): raise self.unt(vn, 'arity of the dict value')
      espec = (ename, module, py, [(nm, k) for nm, (_, k) in zip(names, params)], result)
      what = ast.unparse(vn).strip()
      out.append(self.gen_fn(espec, fd, f'{self.cfg.where(module, py)}[{ast.unparse(kn)}] = `{what}`'))
      if self.fn.has_while: raise self.unt(vn, 'loop in a dict value')
      arms.append((key, ename))
    self.fn = FnCtx(spec)
    body = ''.join(f'  if key = {self.int_lit(k)} then some {e} else\n' for k, e in arms) + '  none\n'
    out.append(f'/-- {self.cfg.where(module, py)}: the lookup `{py}[key]` (none = KeyError) -/\n'
               f'def {lean} (key : Int) : Option ({sigty} → {ty}) :=\n{body}')
    return '\n'.join(out)

  def const_key(self, kn):
    c = self.const_int(kn)
    if c is not None: return c
    if (isinstance(kn, ast.Attribute) and isinstance(kn.value, ast.Name) and kn.value.id in self.consts
        and kn.attr in self.consts[kn.value.id]):
      return self.consts[kn.value.id][kn.attr]
    raise self.unt(kn, 'dict key is not an int constant')

  def kind_type(self, kind, node):
    t = {'bits': 'B', 'reg': 'Reg', 'opnd': 'Opnd', 'int': 'Int', 'bool': 'Bool'}.get(kind)
    if t is None: raise self.unt(node, f'parameter kind {kind} in a function table')
    return t

  @staticmethod
  def result_type(result):
    return {'B': 'Except Err B', 'Reg': 'Except Err Reg', 'RegOpt': 'Option Reg', 'Int': 'Except Err Int',
            'Bool': 'Except Err Bool', 'Store': 'Except Err (Nat → Nat)'}[result]

  def gen_fn(self, spec, fdef, where):
    lean, module, py, params, result = spec
    self.fn = fn = FnCtx(spec)
    if isinstance(fdef, ast.Lambda):
      fbody = [ast.copy_location(ast.Return(value=fdef.body), fdef.body)]
    else:
      if fdef.decorator_list: raise self.unt(fdef, 'decorated function')
      fbody = self.strip_doc(fdef.body)
    self.pre = []
    a = fdef.args
    if a.posonlyargs or a.kwarg or (a.kwonlyargs and module != 'bits'):
      raise self.unt(fdef, 'unsupported parameter form')
    pynames = [x.arg for x in a.args] + ([a.vararg.arg] if a.vararg else [])
    if pynames != [p for p, _ in params]:
      raise self.unt(fdef, f'signature changed: expected parameters {[p for p, _ in params]}, found {pynames}')
    vars, sig = {}, []
    for p, kind in params:
      L = lname(p)
      if kind == 'new': vars[p] = mk_obj({}, origin=None, dirty=True)
      elif kind == 'bits': vars[p] = bits_obj(L); sig.append(f'({L} : B)')
      elif kind == 'reg': vars[p] = reg_obj(L); sig.append(f'({L} : Reg)')
      elif kind == 'opnd': vars[p] = V('opnd', L); sig.append(f'({L} : Opnd)')
      elif kind == 'int': vars[p] = V('int', L); sig.append(f'({L} : Int)')
      elif kind == 'bool': vars[p] = V('bool', L); sig.append(f'({L} : Bool)')
      elif kind == 'slice':
        vars[p] = V('slice', None, start=f'{L}_lo', stop=f'{L}_hi', step=f'{L}_step')
        sig.append(f'({L}_lo {L}_hi {L}_step : Bound)')
      elif kind == 'bitslist': vars[p] = V('bitslist', L); sig.append(f'({L} : List B)')
      elif kind == 'bitscls': vars[p] = V('bitscls', L); sig.append(f'({L} : Nat)')
      elif kind == 'signal':
        # a Signal that is a slice of a parent signal: the identity of the parent and its `_dsl.slice`
        vars[p] = V('signal', None, parent=f'{L}_parent',
                    slice=V('slice', None, start=f'{L}_lo', stop=f'{L}_hi', step=f'{L}_step'))
        sig.append(f'({L}_parent : Nat) ({L}_lo {L}_hi {L}_step : Bound)')
      elif kind == 'bytearr':
        # a bytearray of length `_len` whose element i is `p i` (i < _len); its length never changes
        vars[p] = V('bytearr', L, len=f'{L}_len'); sig.append(f'({L}_len : Nat) ({L} : Nat → Nat)')
      else: raise ValueError(kind)
    self_name = params[0][0] if params and params[0][1] in ('new', 'bits', 'reg') and module == 'bits' else None
    fn.self_name = self_name
    def at_end(env):      # falling off the end of the function: Python returns None
      return self.fn_return(V('none'), env, fdef)
    body = self.block(fbody, Env(vars=vars), at_end)
    ty = self.result_type(result)
    if fn.has_while:
      sig.insert(0, '(fuel : Nat)')
      ty = f'Option ({ty})'
    kinds = ', '.join(f'{p}: {k}' for p, k in params)
    head = f'/-- {where}  ({kinds}) -/\ndef {lean} {" ".join(sig)} : {ty} :=\n'
    return head + pp(body, 2) + '\n'

  @staticmethod
  def strip_doc(body):
    if body and isinstance(body[0], ast.Expr) and isinstance(body[0].value, ast.Constant) and isinstance(body[0].value.value, str):
      return body[1:]
    return body

  # ------------------------------------------------------------------------------------------ results / raising
  def ok(self, text):
    if self.fn.result == 'RegOpt': t = f'some {text}'
    else: t = f'.ok {text}'
    return Leaf('⟪' + t + '⟫')

  def err_leaf(self, cls, env, node):
    if env.frame == 'loop':
      if cls == 'ValueError': e = '.width' if any(env.ctx) else '.range'
      elif cls in ERR_OF: e = ERR_OF[cls]
      else: raise self.unt(node, f'uncaught {cls} has no image in Err')
      return Leaf('.error ' + e)
    if self.fn.result == 'RegOpt':
      if cls == 'AttributeError': return Leaf('⟪none⟫')
      raise self.unt(node, f'{cls} escapes a function whose result is Option')
    if cls == 'ValueError':
      e = '.width' if any(env.ctx) else '.range'
    elif cls in ERR_OF: e = ERR_OF[cls]
    else: raise self.unt(node, f'uncaught {cls} has no image in Err')
    return Leaf('⟪.error ' + e + '⟫')

  def obj_B(self, o, node):
    if o.x['origin'] is not None and not o.x['dirty']:
      return f'{o.x["origin"]}.cur' if o.x['reg'] else o.x['origin']
    f = o.x['fields']
    if '_nbits' not in f or '_uint' not in f: raise self.unt(node, 'Bits object with an unset _nbits/_uint')
    n = self.to_int(f['_nbits'], node); u = self.to_int(f['_uint'], node)
    return f'(mkB {n.lean} {u.lean})'

  def fn_return(self, v, env, node):
    """the translated function returns the Python value v"""
    res = self.fn.result
    if env.frame == 'loop': raise self.unt(node, 'return inside a loop body')
    if res == 'Store':
      # the function returns None; its effect is the final content of its bytearray parameter
      if v.kind != 'none': raise self.unt(node, 'a function whose result is its bytearray returns a value')
      arr = [p for p, k in self.fn.params if k == 'bytearr']
      if len(arr) != 1: raise self.unt(node, 'Store result needs exactly one bytearray parameter')
      return self.ok(env.vars[arr[0]].lean)
    if v.kind == 'none':
      if self.fn.self_name is None: raise self.unt(node, 'function returns None')
      v = env.vars[self.fn.self_name]
    if res == 'B':
      if v.kind != 'obj': raise self.unt(node, f'returns a {v.kind}, expected a Bits object')
      return self.ok(self.obj_B(v, node))
    if res in ('Reg', 'RegOpt'):
      if v.kind != 'obj' or not v.x['reg']: raise self.unt(node, 'expected the register object')
      nx = v.x['fields'].get('_next')
      if nx is None: raise self.unt(node, '_next missing')
      if nx.kind == 'optnat': nxt = nx.lean
      elif nx.kind == 'int':
        nxt = nx.x['optsrc'] if 'optsrc' in nx.x else f'(some ({nx.lean}).toNat)'
      else: raise self.unt(node, f'_next holds a {nx.kind}')
      cur = self.obj_B(v, node)
      return self.ok(f'{{ cur := {cur}, next := {nxt} }}')
    if res == 'Int':
      if v.kind not in ('int', 'prop', 'bool'): raise self.unt(node, f'returns a {v.kind}, expected an int')
      return self.ok(self.to_int(v, node).lean)
    if res == 'Bool':
      if v.kind not in ('prop', 'bool'): raise self.unt(node, f'returns a {v.kind}, expected a bool')
      return self.ok(v.lean if v.kind == 'bool' else f'(decide {self.to_prop(v, node)})')
    raise ValueError(res)

  def do_raise(self, cls, env, node):
    if env.pure is not None: raise ImpureLoop(self.fn.py, node, f'{env.pure} body can raise {cls}')
    hs = env.handlers
    for i in range(len(hs) - 1, -1, -1):
      if hs[i].catches(cls):
        h = hs[i]
        return self.block(h.body, env.with_handlers(hs[:i]).with_ctx(h.ctx), h.cont)
    return self.err_leaf(cls, env, node)

  def dyn_err(self, env, node):
    """an `Err` value e produced by a called definition propagates"""
    if env.pure is not None: raise ImpureLoop(self.fn.py, node, f'{env.pure} body calls a definition that can raise')
    if env.frame == 'loop': return Leaf('.error e')
    for h in env.handlers:
      if not h.only_attribute_error():
        raise self.unt(node, 'a called definition may raise inside a try whose handler could catch it')
    if self.fn.result == 'RegOpt': raise self.unt(node, 'error of a called definition escapes an Option result')
    return Leaf('⟪.error e⟫')

  # ------------------------------------------------------------------------------------------ statements
  def block(self, stmts, env, k):
    if not stmts: return k(env)
    return self.stmt(stmts[0], env, lambda e: self.block(stmts[1:], e, k))

  def stmt(self, s, env, cont):
    saved_counter = self.fn.counter
    self.pre = []
    try:
      return self.stmt_inner(s, env, cont)
    except StaticRaise as r:
      pre = self.pre; self.pre = []
      return self.wrap_pre(pre, env, s, lambda: self.do_raise(r.cls, env, r.node))
    except NeedRefine as r:
      if env.pure is not None: raise self.unt(s, f'{env.pure} body inspects a dynamic type')
      self.pre = []
      stem = lname(re.sub(r'.*\.', '', r.lean))
      arms = []
      if r.kind == 'opnd':
        cases = [(f'.bits {stem}_b', bits_obj(f'{stem}_b')), (f'.int {stem}_i', V('int', f'{stem}_i')), ('.other', V('other'))]
      elif r.kind == 'optint':
        cases = [('none', V('none')), (f'some {stem}_v', V('int', f'{stem}_v'))]
      elif r.kind == 'optnat':
        cases = [('none', V('unset')), (f'some {stem}_v', V('int', f'({stem}_v : Int)', True, optsrc=r.lean))]
      else: raise ValueError(r.kind)
      for pat, v in cases:
        self.fn.counter = saved_counter
        arms.append((pat, self.stmt(s, env.refine(r.lean, v), cont)))
      return Match(r.lean, arms)

  def wrap_pre(self, pre, env, node, thunk):
    def go(i):
      if i == len(pre): return thunk()
      a = pre[i]
      if a[0] == 'guard':
        _, cond, cls, gnode = a
        genv = env.with_ctx(())          # implicit raises of operators are never width errors
        return If(cond, self.do_raise(cls, genv, gnode), go(i + 1))
      _, call, var, cnode, _ = a
      return Match(call, [('.error e', self.dyn_err(env, cnode)), (f'.ok {var}', go(i + 1))])
    return go(0)

  def take_pre(self):
    p = self.pre; self.pre = []; return p

  def stmt_inner(self, s, env, cont):
    if isinstance(s, ast.Pass): return cont(env)
    if isinstance(s, ast.Expr):
      if isinstance(s.value, ast.Constant): return cont(env)
      raise self.unt(s, 'expression statement')
    if isinstance(s, ast.Assign):
      v = self.expr(s.value, env)
      if len(s.targets) == 1 and isinstance(s.targets[0], ast.Subscript):
        t = s.targets[0]
        if not (isinstance(t.value, ast.Name) and t.value.id in env.vars and env.vars[t.value.id].kind == 'bytearr'):
          raise self.unt(s, 'subscript assignment to something that is not a bytearray variable')
        arr = env.vars[t.value.id]
        i = self.index_value(self.expr(t.slice, env), t.slice, env)
        self.guard(f'(¬ idxOk {arr.x["len"]} {i.lean})', 'IndexError', s)
        b = self.index_value(v, s.value, env)
        # "byte must be in range(0, 256)"
        self.guard(f'({b.lean} > 255)' if b.nonneg else f'(({b.lean} < 0) ∨ ({b.lean} > 255))', 'ValueError', s)
        pre = self.take_pre()
        L = lname(t.value.id)
        new = f'(arrSet {arr.lean} (idx {arr.x["len"]} {i.lean}) ({b.lean}).toNat)'
        return self.wrap_pre(pre, env, s, lambda: Let(L, 'Nat → Nat', new,
                                                      cont(env.set(t.value.id, V('bytearr', L, len=arr.x['len'])))))
      pre = self.take_pre()
      return self.wrap_pre(pre, env, s, lambda: self.assign(s.targets, v, env, cont, s))
    if isinstance(s, ast.AugAssign):
      v = self.expr(ast.copy_location(ast.BinOp(left=self.as_load(s.target), op=s.op, right=s.value), s), env)
      pre = self.take_pre()
      return self.wrap_pre(pre, env, s, lambda: self.assign([s.target], v, env, cont, s))
    if isinstance(s, ast.If):
      t = self.truth(self.expr(s.test, env), s.test, env)
      pre = self.take_pre()
      flag = any(isinstance(n, ast.Attribute) and n.attr == 'nbits' for n in ast.walk(s.test))
      outer = env.ctx
      k2 = lambda e: cont(e.with_ctx(outer))
      def build():
        if is_static(t):
          return self.block(s.body if t.x['static'] else s.orelse, env.with_ctx(outer + (flag,)), k2)
        c = self.to_prop(t, s.test)
        return If(c, self.block(s.body, env.with_ctx(outer + (flag,)), k2),
                  self.block(s.orelse, env.with_ctx(outer + (flag,)), k2))
      return self.wrap_pre(pre, env, s, build)
    if isinstance(s, ast.Assert):
      t = self.truth(self.expr(s.test, env), s.test, env)
      pre = self.take_pre()
      def build():
        if is_static(t):
          return cont(env) if t.x['static'] else self.do_raise('AssertionError', env, s)
        return If(self.to_prop(t, s.test), cont(env), self.do_raise('AssertionError', env, s))
      return self.wrap_pre(pre, env, s, build)
    if isinstance(s, ast.Raise):
      if s.cause is not None or s.exc is None: raise self.unt(s, 'raise form')
      e = s.exc.func if isinstance(s.exc, ast.Call) else s.exc
      if not isinstance(e, ast.Name): raise self.unt(s, 'raised class is not a name')
      return self.do_raise(e.id, env, s)      # the message arguments are not evaluated
    if isinstance(s, ast.Return):
      if env.pure is not None: raise self.unt(s, f'return inside a {env.pure} body')
      v = V('none') if s.value is None else self.expr(s.value, env)
      pre = self.take_pre()
      # tail call of another generated definition with the same result type: no re-wrapping
      if (pre and pre[-1][0] == 'bind' and v.x.get('bound') == pre[-1][2] and all(h.only_attribute_error() for h in env.handlers)
          and pre[-1][4] == self.fn.result and self.fn.result != 'RegOpt'):
        call = pre[-1][1]
        return self.wrap_pre(pre[:-1], env, s, lambda: Leaf('⟪' + call + '⟫'))
      return self.wrap_pre(pre, env, s, lambda: self.fn_return(v, env, s))
    if isinstance(s, ast.Try):
      if s.orelse or s.finalbody: raise self.unt(s, 'try with else/finally')
      if len(s.handlers) != 1: raise self.unt(s, 'try with several handlers')
      h = s.handlers[0]
      if h.name is not None: raise self.unt(s, 'except ... as name')
      if h.type is None: classes = None
      elif isinstance(h.type, ast.Name): classes = None if h.type.id in ('Exception', 'BaseException') else [h.type.id]
      elif isinstance(h.type, ast.Tuple) and all(isinstance(x, ast.Name) for x in h.type.elts): classes = [x.id for x in h.type.elts]
      else: raise self.unt(s, 'handler class')
      if env.pure is not None: raise self.unt(s, f'try inside a {env.pure} body')
      outer = env.handlers
      k2 = lambda e: cont(e.with_handlers(outer))
      hd = Handler(classes, h.body, k2, env.ctx)
      return self.block(s.body, env.with_handlers(outer + (hd,)), k2)
    if isinstance(s, ast.For): return self.for_loop(s, env, cont)
    if isinstance(s, ast.While): return self.while_loop(s, env, cont)
    raise self.unt(s, 'unsupported statement')

  @staticmethod
  def as_load(t):
    t2 = ast.parse(ast.unparse(t), mode='eval').body
    return ast.copy_location(t2, t)

  def assign(self, targets, v, env, cont, node):
    if len(targets) > 1:
      return self.assign(targets[:1], v, env, lambda e: self.assign(targets[1:], v, e, cont, node), node)
    t = targets[0]
    if isinstance(t, ast.Name):
      if v.kind == 'int':
        L = lname(t.id)
        x = dict(v.x)
        return Let(L, 'Int', v.lean, cont(env.set(t.id, V('int', L, v.nonneg, **x))))
      if v.kind in ('prop', 'bool', 'obj', 'none', 'str', 'other', 'opnd', 'bitscls'):
        return cont(env.set(t.id, v))
      raise self.unt(node, f'assignment of a {v.kind}')
    if isinstance(t, ast.Attribute) and isinstance(t.value, ast.Name):
      o = env.vars.get(t.value.id)
      if o is None or o.kind != 'obj': raise self.unt(node, 'attribute assignment on a non-object')
      if v.kind not in ('int', 'prop', 'bool'): raise self.unt(node, f'attribute receives a {v.kind}')
      if t.attr not in ('_nbits', '_uint', '_next') or (t.attr == '_next' and not o.x['reg'] and o.x['origin'] is not None):
        if not (t.attr == '_next'): raise self.unt(node, f'unknown slot {t.attr}')
        raise self.unt(node, '_next written on an object that is not modelled with its _next slot')
      fields = dict(o.x['fields']); fields[t.attr] = v
      o2 = mk_obj(fields, origin=o.x['origin'], dirty=o.x['dirty'] or t.attr != '_next', reg=o.x['reg'])
      return cont(env.set(t.value.id, o2))
    raise self.unt(node, 'assignment target')

  def assigned_names(self, stmts):
    out = []
    for s in stmts:
      for n in ast.walk(s):
        if isinstance(n, (ast.Assign, ast.AugAssign)):
          for t in (n.targets if isinstance(n, ast.Assign) else [n.target]):
            if isinstance(t, ast.Subscript) and isinstance(t.value, ast.Name): t = t.value     # arr[i] = v  updates arr
            if isinstance(t, ast.Name) and t.id not in out: out.append(t.id)
            elif not isinstance(t, ast.Name): raise self.unt(n, 'loop body assigns a non-name')
    return out

  def loop_state(self, s, env):
    names = [n for n in self.assigned_names(s.body) if n in env.vars]
    if not names: raise self.unt(s, 'loop without state')
    for n in names:
      if env.vars[n].kind != 'int': raise self.unt(s, f'loop state {n} is a {env.vars[n].kind}')
    return names

  def loop_body(self, s, names, env, what, extra_vars=None):
    """fun body: st ↦ new state tuple (pure)"""
    k = len(names)
    e = env.with_pure(what)
    for n, v in (extra_vars or {}).items(): e = e.set(n, v)
    def unpack(i, e2, inner):
      if i == k: return inner(e2)
      L = lname(names[i])
      return Let(L, 'Int', tuple_proj('st', i, k), unpack(i + 1, e2.set(names[i], V('int', L)), inner))
    def final(e2):
      return Leaf('(' + ', '.join(e2.vars[n].lean for n in names) + ')')
    return lambda tail: unpack(0, e, lambda e2: tail(e2, final))

  def for_loop(self, s, env, cont):
    if s.orelse or not isinstance(s.target, ast.Name): raise self.unt(s, 'for form')
    it = self.expr(s.iter, env)
    if self.take_pre(): raise self.unt(s, 'for iterable can raise')
    if it.kind != 'bitslist': raise self.unt(s, f'for over a {it.kind}')
    names = self.loop_state(s, env)
    k = len(names)
    xv = lname(s.target.id)
    mk = self.loop_body(s, names, env, 'for', {s.target.id: bits_obj(xv)})
    body = mk(lambda e2, final: self.block(s.body, e2, final))
    init = '(' + ', '.join(env.vars[n].lean for n in names) + ')'
    ty = tuple_ty(k)
    fun = LetFun(f'fun (st : {ty}) ({xv} : B) =>', body)
    def after(i, e2):
      if i == k: return cont(e2)
      L = lname(names[i])
      return Let(L, 'Int', tuple_proj('st', i, k), after(i + 1, e2.set(names[i], V('int', L))))
    return Let('st', ty, Fold('List.foldl', fun, f'{init} {it.lean}'), after(0, env))

  def while_loop(self, s, env, cont):
    if s.orelse: raise self.unt(s, 'while/else')
    saved = self.fn.counter
    try:
      return self.while_pure(s, env, cont)
    except ImpureLoop:
      self.fn.counter = saved
      self.pre = []
      return self.while_raising(s, env, cont)

  # state of a raising loop: ints, Bits objects, bytearrays
  def st_type(self, v, node):
    if v.kind == 'int': return 'Int'
    if v.kind == 'obj': return 'B'
    if v.kind == 'bytearr': return '(Nat → Nat)'
    raise self.unt(node, f'loop state of kind {v.kind}')
  def st_lean(self, v, node):
    return self.obj_B(v, node) if v.kind == 'obj' else v.lean
  def st_bind(self, old, L):
    if old.kind == 'int': return V('int', L)
    if old.kind == 'obj': return bits_obj(L)
    return V('bytearr', L, len=old.x['len'])

  def while_raising(self, s, env, cont):
    """`while test: body` whose body can raise: `whileM fuel test body state : Option (Except Err state)`"""
    if env.pure is not None: raise self.unt(s, 'nested loops')
    names = [n for n in self.assigned_names(s.body) if n in env.vars]
    if not names: raise self.unt(s, 'loop without state')
    k = len(names)
    olds = [env.vars[n] for n in names]
    tys = [self.st_type(v, s) for v in olds]
    ty = ' × '.join(tys)
    self.fn.has_while = True
    def unpack(e, inner):
      def go(i, e2):
        if i == k: return inner(e2)
        L = lname(names[i])
        return Let(L, tys[i].strip('()') if tys[i] == '(Nat → Nat)' else tys[i], tuple_proj('st', i, k),
                   go(i + 1, e2.set(names[i], self.st_bind(olds[i], L))))
      return go(0, e)
    def cond_tail(e2):
      t = self.truth(self.expr(s.test, e2), s.test, e2)
      if self.take_pre(): raise self.unt(s.test, 'while test can raise')
      return Leaf(f'decide {self.to_prop(t, s.test)}')
    cond = unpack(env.with_pure('while test'), cond_tail)
    def final(e2):
      return Leaf('.ok (' + ', '.join(self.st_lean(e2.vars[n], s) for n in names) + ')')
    body = unpack(env.with_frame('loop'), lambda e2: self.block(s.body, e2, final))
    init = '(' + ', '.join(self.st_lean(v, s) for v in olds) + ')'
    after = unpack(env, cont)
    scrut = Fold2('whileM fuel', LetFun(f'fun (st : {ty}) =>', cond), LetFun(f'fun (st : {ty}) =>', body), init)
    return Match(scrut, [('none', Leaf('__FUEL__none')), ('some (.error e)', self.dyn_err(env, s)), ('some (.ok st)', after)])

  def while_pure(self, s, env, cont):
    try:
      names = self.loop_state(s, env)
    except Untranslatable as e:
      if 'loop state' in e.why: raise ImpureLoop(self.fn.py, s, e.why)
      raise
    k = len(names); ty = tuple_ty(k)
    self.fn.has_while = True
    mkc = self.loop_body(s, names, env, 'while')
    def cond_tail(e2, final):
      t = self.expr(s.test, e2)
      if self.take_pre(): raise self.unt(s.test, 'while test can raise')
      return Leaf(f'decide {self.to_prop(t, s.test)}')
    cond = mkc(cond_tail)
    body = self.loop_body(s, names, env, 'while')(lambda e2, final: self.block(s.body, e2, final))
    init = '(' + ', '.join(env.vars[n].lean for n in names) + ')'
    def after(i, e2):
      if i == k: return cont(e2)
      L = lname(names[i])
      return Let(L, 'Int', tuple_proj('st', i, k), after(i + 1, e2.set(names[i], V('int', L))))
    scrut = Fold2('whileF fuel', LetFun(f'fun (st : {ty}) =>', cond), LetFun(f'fun (st : {ty}) =>', body), init)
    return Match(scrut, [('none', Leaf('__FUEL__none')), ('some st', after(0, env))])

  # ------------------------------------------------------------------------------------------ expressions
  def guard(self, cond, cls, node):
    # within one statement nothing changes between two evaluations of the same test: emit it once
    if not any(a[0] == 'guard' and a[1] == cond and a[2] == cls for a in self.pre):
      self.pre.append(('guard', cond, cls, node))

  def resolve(self, v, env):
    if v.kind in ('opnd', 'optint', 'optnat') and v.lean in env.refined: return env.refined[v.lean]
    return v

  def expr(self, n, env):
    m = getattr(self, 'e_' + type(n).__name__, None)
    if m is None: raise self.unt(n, 'unsupported expression')
    return self.resolve(m(n, env), env)

  def e_Constant(self, n, env):
    c = n.value
    if isinstance(c, bool): return static(c)
    if isinstance(c, int): return V('int', self.int_lit(c), c >= 0, const=c)
    if c is None: return V('none')
    if isinstance(c, str): return V('str')
    raise self.unt(n, 'constant')

  def e_JoinedStr(self, n, env): return V('str')

  def e_Name(self, n, env):
    if n.id in env.vars: return env.vars[n.id]
    if n.id in ('Bits', 'slice', 'int'): return V('class', n.id)
    raise self.unt(n, f'unknown name {n.id}')

  def e_Attribute(self, n, env):
    if isinstance(n.value, ast.Name) and n.value.id in ('math', 'operator') and n.value.id not in env.vars:
      return V('modattr', f'{n.value.id}.{n.attr}')
    b = self.expr(n.value, env)
    return self.getattr(b, n.attr, n, env)

  def getattr(self, b, attr, n, env):
    if b.kind == 'obj':
      f = b.x['fields']
      if attr in f:
        v = self.resolve(f[attr], env)
        if v.kind == 'optnat': raise NeedRefine('optnat', v.lean)
        if v.kind == 'unset': raise StaticRaise('AttributeError', n)
        return v
      if attr in ('_nbits', '_uint', '_next'):
        if attr == '_next': raise self.unt(n, '_next read on an object that is not modelled with its _next slot')
        raise self.unt(n, f'slot {attr} read before it is written')
      if attr in self.properties:
        return self.inline(self.methods[attr], [b], {}, n, env, must=True)
      if attr in self.methods: return V('method', None, recv=b, name=attr)
      raise self.unt(n, f'Bits has no attribute {attr}')
    if b.kind in ('opnd', 'optint'): raise NeedRefine(b.kind, b.lean)
    if b.kind in ('int', 'prop', 'bool'):
      if attr == 'bit_length' and b.kind == 'int': return V('method', None, recv=b, name='bit_length')
      if not hasattr(0, attr): raise StaticRaise('AttributeError', n)
      raise self.unt(n, f'int attribute {attr}')
    if b.kind in ('other', 'none'):
      # Opnd.other: by definition an object without `.nbits` that int() does not convert
      raise StaticRaise('AttributeError', n)
    if b.kind == 'slice':
      if attr in ('start', 'stop', 'step'): return V('optint', b.x[attr])
      raise self.unt(n, f'slice attribute {attr}')
    if b.kind == 'signal':
      if attr == '_dsl': return V('sigdsl', None, sig=b)
      if attr == 'get_parent_object': return V('method', None, recv=b, name=attr)
      raise self.unt(n, f'signal attribute {attr}')
    if b.kind == 'sigdsl':
      if attr == 'slice': return b.x['sig'].x['slice']
      raise self.unt(n, f'signal metadata {attr}')
    if b.kind == 'bitscls':
      if attr == 'nbits': return V('int', f'({b.lean} : Int)', True)
      raise self.unt(n, f'class attribute {attr}')
    raise self.unt(n, f'attribute of a {b.kind}')

  def e_Subscript(self, n, env):
    if isinstance(n.value, ast.Name) and n.value.id in self.tables and n.value.id not in env.vars:
      td = env.vars.get('__table__')
      if td is not None:
        # inside the definition of the table: only `T[i-1]` of the table being defined
        s = n.slice
        if (n.value.id == td.lean and isinstance(s, ast.BinOp) and isinstance(s.op, ast.Sub) and isinstance(s.left, ast.Name)
            and s.left.id == td.x['ivar'] and self.const_int(s.right) == 1):
          return V('int', f'({td.x["tab"]} ({td.x["ivar"]}+{td.x["k"] - 1}))')
        raise self.unt(n, 'table entry may only use the previous entry of the same table')
      i = self.to_int(self.expr(n.slice, env), n.slice)
      N = self.table_len
      self.guard(f'(¬ idxOk {N} {i.lean})', 'IndexError', n)
      return V('int', f'({self.tables[n.value.id]} (idx {N} {i.lean}))')
    if isinstance(n.value, ast.Name) and n.value.id in env.vars and env.vars[n.value.id].kind == 'bytearr':
      arr = env.vars[n.value.id]
      i = self.index_value(self.expr(n.slice, env), n.slice, env)
      self.guard(f'(¬ idxOk {arr.x["len"]} {i.lean})', 'IndexError', n)
      return V('int', f'(({arr.lean} (idx {arr.x["len"]} {i.lean}) : Nat) : Int)', True)
    raise self.unt(n, 'subscript')

  def index_value(self, v, node, env):
    """a value used as an index / stored as a byte: ints as they are, a Bits object through `__index__`"""
    if v.kind == 'obj': return self.to_int(self.call_method(v, '__index__', [], {}, node, env), node)
    return self.to_int(v, node)

  def to_int(self, v, node):
    if v.kind == 'int': return v
    if v.kind == 'prop':
      if is_static(v): return V('int', '1' if v.x['static'] else '0', True)
      return V('int', f'(b2i {v.lean})', True)
    if v.kind == 'bool': return V('int', f'(b2i ({v.lean} = true))', True)
    if v.kind in ('opnd', 'optint', 'optnat'): raise NeedRefine(v.kind, v.lean)
    raise self.unt(node, f'a {v.kind} used as an int')

  def truth(self, v, node, env):
    """the value as the test of if / assert / while / conditional expression: a Bits object goes through `__bool__`"""
    if v.kind == 'obj': return self.call_method(v, '__bool__', [], {}, node, env)
    return v

  def to_prop(self, v, node):
    if v.kind == 'prop': return v.lean
    if v.kind == 'int': return f'({v.lean} ≠ 0)'
    if v.kind == 'bool': return f'({v.lean} = true)'
    if v.kind in ('opnd', 'optint', 'optnat'): raise NeedRefine(v.kind, v.lean)
    raise self.unt(node, f'truth value of a {v.kind}')

  DUNDER = {ast.Add: 'add', ast.Sub: 'sub', ast.Mult: 'mul', ast.FloorDiv: 'floordiv', ast.Mod: 'mod', ast.BitAnd: 'and',
            ast.BitOr: 'or', ast.BitXor: 'xor', ast.LShift: 'lshift', ast.RShift: 'rshift'}

  def e_BinOp(self, n, env):
    l = self.expr(n.left, env)
    r = self.expr(n.right, env)
    if type(n.op) not in self.DUNDER: raise self.unt(n, 'operator')
    if l.kind in ('opnd', 'optint', 'optnat'): raise NeedRefine(l.kind, l.lean)
    if r.kind in ('opnd', 'optint', 'optnat'): raise NeedRefine(r.kind, r.lean)
    d = self.DUNDER[type(n.op)]
    if l.kind == 'obj': return self.call_method(l, f'__{d}__', [r], {}, n, env)
    if r.kind == 'obj': return self.call_method(r, f'__r{d}__', [l], {}, n, env)
    a, b = self.to_int(l, n.left), self.to_int(r, n.right)
    op = type(n.op)
    if op is ast.Add: return V('int', f'({a.lean} + {b.lean})', a.nonneg and b.nonneg)
    if op is ast.Sub: return V('int', f'({a.lean} - {b.lean})')
    if op is ast.Mult: return V('int', f'({a.lean} * {b.lean})', a.nonneg and b.nonneg)
    if op in (ast.FloorDiv, ast.Mod):
      if not (b.x.get('const') not in (None, 0)): self.guard(f'({b.lean} = 0)', 'ZeroDivisionError', n)
      f = 'pyFloorDiv' if op is ast.FloorDiv else 'pyMod'
      return V('int', f'({f} {a.lean} {b.lean})')
    if op in (ast.LShift, ast.RShift):
      if not b.nonneg: self.guard(f'({b.lean} < 0)', 'ValueError', n)      # "negative shift count"
      f = 'pyShl' if op is ast.LShift else 'pyShr'
      return V('int', f'({f} {a.lean} {b.lean})', a.nonneg)
    if op is ast.BitAnd: return V('int', f'(pyAnd {a.lean} {b.lean})', a.nonneg or b.nonneg)
    if op is ast.BitOr: return V('int', f'(pyOr {a.lean} {b.lean})', a.nonneg and b.nonneg)
    if op is ast.BitXor: return V('int', f'(pyXor {a.lean} {b.lean})', a.nonneg and b.nonneg)
    raise self.unt(n, 'operator')

  def e_UnaryOp(self, n, env):
    v = self.expr(n.operand, env)
    if isinstance(n.op, ast.Not):
      if is_static(v): return static(not v.x['static'])
      return V('prop', f'(¬ {self.to_prop(v, n.operand)})')
    if v.kind in ('opnd', 'optint', 'optnat'): raise NeedRefine(v.kind, v.lean)
    if isinstance(n.op, ast.Invert):
      if v.kind == 'obj': return self.call_method(v, '__invert__', [], {}, n, env)
      return V('int', f'(pyNot {self.to_int(v, n.operand).lean})')
    if isinstance(n.op, ast.USub):
      a = self.to_int(v, n.operand)
      if 'const' in a.x: return V('int', self.int_lit(-a.x['const']), -a.x['const'] >= 0, const=-a.x['const'])
      return V('int', f'(-{a.lean})')
    if isinstance(n.op, ast.UAdd): return self.to_int(v, n.operand)
    raise self.unt(n, 'unary operator')

  def e_BoolOp(self, n, env):
    is_or = isinstance(n.op, ast.Or)
    props = []
    for operand in n.values:
      mark = len(self.pre)
      v = self.expr(operand, env)
      if v.kind not in ('prop', 'bool'):
        # `a or b` returns one of its operands: only for bool operands is that the truth value
        raise self.unt(operand, f'and/or operand is a {v.kind} (only bool operands are supported)')
      new = self.pre[mark:]
      if new and props:
        prefix = ' ∧ '.join((f'(¬ {p})' if is_or else p) for p in props)
        cond_new = []
        for a in new:
          if a[0] != 'guard': raise self.unt(operand, 'call of a definition in a short-circuited operand')
          cond_new.append(('guard', f'({prefix} ∧ {a[1]})', a[2], a[3]))
        self.pre[mark:] = cond_new
      if is_static(v):
        if v.x['static'] == is_or:        # decides the result; later operands are not evaluated
          if not props: return static(is_or)
          props.append('True' if is_or else 'False')
          break
        continue
      props.append(self.to_prop(v, operand))
    if not props: return static(not is_or)
    if len(props) == 1: return V('prop', props[0])
    return V('prop', '(' + (' ∨ ' if is_or else ' ∧ ').join(props) + ')')

  CMP = {ast.Eq: '=', ast.NotEq: '≠', ast.Lt: '<', ast.LtE: '≤', ast.Gt: '>', ast.GtE: '≥'}
  CMP_DUNDER = {ast.Eq: ('__eq__', '__eq__'), ast.NotEq: ('__ne__', '__ne__'), ast.Lt: ('__lt__', '__gt__'),
                ast.LtE: ('__le__', '__ge__'), ast.Gt: ('__gt__', '__lt__'), ast.GtE: ('__ge__', '__le__')}

  def e_Compare(self, n, env):
    operands = [n.left] + list(n.comparators)
    if any(isinstance(o, (ast.Is, ast.IsNot)) for o in n.ops):
      if len(n.ops) == 1 and not (isinstance(n.comparators[0], ast.Constant) and n.comparators[0].value is None):
        l = self.expr(n.left, env); r = self.expr(n.comparators[0], env)
        if l.kind == 'objid' and r.kind == 'objid':
          return V('prop', f'({l.lean} = {r.lean})' if isinstance(n.ops[0], ast.Is) else f'({l.lean} ≠ {r.lean})')
        raise self.unt(n, '`is` between values that are not object identities')
      if len(n.ops) != 1 or not (isinstance(n.comparators[0], ast.Constant) and n.comparators[0].value is None):
        raise self.unt(n, '`is` other than `is None`')
      v = self.expr(n.left, env)
      if v.kind in ('optint', 'optnat', 'opnd'): raise NeedRefine(v.kind, v.lean)
      return static((v.kind == 'none') == isinstance(n.ops[0], ast.Is))
    vals = []
    for o in operands:
      mark = len(self.pre)
      v = self.expr(o, env)
      if vals and len(self.pre) > mark and len(operands) > 2:
        raise self.unt(n, 'raising operand in a chained comparison')
      if v.kind in ('opnd', 'optint', 'optnat'): raise NeedRefine(v.kind, v.lean)
      vals.append(v)
    if any(v.kind == 'none' for v in vals):
      # None compared with an int (or None): == / != are decided by identity, an ordering raises TypeError
      if len(vals) == 2:
        if isinstance(n.ops[0], (ast.Eq, ast.NotEq)):
          return static((vals[0].kind == vals[1].kind) == isinstance(n.ops[0], ast.Eq))
        raise StaticRaise('TypeError', n)
      # a chain `a OP b OP c` is evaluated pair by pair and stops at the first false pair: an ordering against None
      # raises TypeError exactly when every earlier pair is true; otherwise the chain is false
      parts = []
      for (a, op, b, oa, ob) in zip(vals, n.ops, vals[1:], operands, operands[1:]):
        if type(op) not in self.CMP or isinstance(op, (ast.Eq, ast.NotEq)): raise self.unt(n, 'chained == with None')
        if a.kind == 'none' or b.kind == 'none':
          if not parts: raise StaticRaise('TypeError', n)
          self.guard('(' + ' ∧ '.join(parts) + ')', 'TypeError', n)
          return static(False)
        if a.kind == 'obj' or b.kind == 'obj': raise self.unt(n, 'chained comparison of Bits objects')
        parts.append(f'({self.to_int(a, oa).lean} {self.CMP[type(op)]} {self.to_int(b, ob).lean})')
    if any(v.kind == 'obj' for v in vals):
      if len(vals) != 2 or type(n.ops[0]) not in self.CMP_DUNDER: raise self.unt(n, 'chained comparison of Bits objects')
      d, r = self.CMP_DUNDER[type(n.ops[0])]
      if vals[0].kind == 'obj': return self.call_method(vals[0], d, [vals[1]], {}, n, env)
      return self.call_method(vals[1], r, [vals[0]], {}, n, env)        # int OP Bits: the reflected method of the Bits
    vals = [self.to_int(v, o) for v, o in zip(vals, operands)]
    parts = []
    for (a, op, b) in zip(vals, n.ops, vals[1:]):
      if type(op) not in self.CMP: raise self.unt(n, 'comparison operator')
      parts.append(f'({a.lean} {self.CMP[type(op)]} {b.lean})')
    return V('prop', parts[0] if len(parts) == 1 else '(' + ' ∧ '.join(parts) + ')')

  def e_IfExp(self, n, env):
    mark = len(self.pre)
    try:
      t = self.truth(self.expr(n.test, env), n.test, env)
    except NeedRefine as r:
      if r.kind != 'optint': raise
      del self.pre[mark:]
      stem = lname(re.sub(r'.*\.', '', r.lean))
      arms = []
      for pat, v in [('none', V('none')), (f'some {stem}_v', V('int', f'{stem}_v'))]:
        m2 = len(self.pre)
        a = self.to_int(self.e_IfExp(n, env.refine(r.lean, v)), n)
        if len(self.pre) > m2: raise self.unt(n, 'raising branch in a conditional expression over None')
        arms.append(f'| {pat} => {a.lean}')
      return V('int', f'(match {r.lean} with {" ".join(arms)})')
    if is_static(t): return self.expr(n.body if t.x['static'] else n.orelse, env)
    m2 = len(self.pre)
    a = self.expr(n.body, env); b = self.expr(n.orelse, env)
    if len(self.pre) > m2: raise self.unt(n, 'raising branch in a conditional expression')
    if a.kind == 'obj' and b.kind == 'obj':
      return bits_obj(f'(if {self.to_prop(t, n.test)} then {self.obj_B(a, n.body)} else {self.obj_B(b, n.orelse)})')
    a = self.to_int(a, n.body); b = self.to_int(b, n.orelse)
    return V('int', f'(if {self.to_prop(t, n.test)} then {a.lean} else {b.lean})', a.nonneg and b.nonneg)

  # ------------------------------------------------------------------------------------------ calls
  def e_Call(self, n, env):
    f = n.func
    if any(isinstance(a, ast.Starred) for a in n.args) or any(k.arg is None for k in n.keywords):
      raise self.unt(n, 'star arguments')
    def args(): return [self.expr(a, env) for a in n.args]
    def kws(): return {k.arg: self.expr(k.value, env) for k in n.keywords}
    if isinstance(f, ast.Name) and f.id not in env.vars:
      name = f.id
      if name == 'int' and len(n.args) == 1 and not n.keywords: return self.py_int(self.expr(n.args[0], env), n, env)
      if name == 'abs' and len(n.args) == 1 and not n.keywords:
        v = self.expr(n.args[0], env)
        if v.kind in ('opnd', 'optint', 'optnat'): raise NeedRefine(v.kind, v.lean)
        return V('int', f'(pyAbs {self.to_int(v, n).lean})', True)
      if name in ('isinstance', 'issubclass') and len(n.args) == 2 and not n.keywords:
        v = self.expr(n.args[0], env)
        if not isinstance(n.args[1], ast.Name): raise self.unt(n, 'class argument')
        return self.instance_test(name, v, n.args[1].id, n)
      if name == 'Bits': return self.call_ctor(None, args(), kws(), n, env)
      m = self.cfg.bits_alias.match(name)
      if m: return self.call_ctor(V('int', m.group(1), True, const=int(m.group(1))), args(), kws(), n, env)
      if self.fn.module == 'bits' and name in self.funcs['bits']:
        return self.inline(self.funcs['bits'][name], args(), kws(), n, env, must=True)
      mod = self.cfg.imports.get((self.fn.module, name), self.fn.module)
      if any(sp[1] == mod and sp[2] == name for sp in self.specs + self.cfg.external_specs) and name in self.funcs.get(mod, {}):
        fd = self.funcs[mod][name]
        return self.gen_call(mod, name, [v for _, v in self.bind_params(fd, args(), kws(), n)], n, env)
      if name in self.funcs.get('<builtins>', {}):
        r = self.inline(self.funcs['<builtins>'][name], args(), kws(), n, env, must=True)
        return r
      if self.fn.module == 'bits' and name in self.aliases:
        return self.call_alias(self.aliases[name], n, env)
      raise self.unt(n, f'call of {name}')
    if isinstance(f, ast.Name):
      c = env.vars[f.id]
      if c.kind == 'bitscls':
        return self.call_ctor(V('int', f'({c.lean} : Int)', True), args(), kws(), n, env)
      raise self.unt(n, f'call of a {c.kind}')
    if isinstance(f, ast.Attribute):
      if isinstance(f.value, ast.Name) and f.value.id in ('math', 'operator') and f.value.id not in env.vars:
        if f.value.id == 'operator' and f.attr == 'index' and len(n.args) == 1 and not n.keywords:
          v = self.expr(n.args[0], env)
          if v.kind == 'int': return v
          if v.kind == 'obj': return self.call_method(v, '__index__', [], {}, n, env)
          raise self.unt(n, f'operator.index of a {v.kind}')
        raise self.unt(n, f'{f.value.id}.{f.attr} (floating point / library function)')
      recv = self.expr(f.value, env)
      m = self.getattr(recv, f.attr, f, env)
      if m.kind != 'method': raise self.unt(n, 'call of a non-method attribute')
      if m.x['name'] == 'get_parent_object' and m.x['recv'].kind == 'signal':
        if n.args or n.keywords: raise self.unt(n, 'get_parent_object arguments')
        return V('objid', m.x['recv'].x['parent'])     # the parent object, known by its identity only
      if m.x['name'] == 'bit_length' and m.x['recv'].kind == 'int':
        if n.args or n.keywords: raise self.unt(n, 'bit_length arguments')
        return V('int', f'(pyBitLength {m.x["recv"].lean})', True)
      return self.call_method(m.x['recv'], m.x['name'], args(), kws(), n, env)
    raise self.unt(n, 'call form')

  def call_alias(self, target, n, env):
    # object_new = object.__new__ ; object_new( Bits ) creates a Bits object with no slot set
    if (isinstance(target, ast.Attribute) and isinstance(target.value, ast.Name) and target.value.id == 'object'
        and target.attr == '__new__' and len(n.args) == 1 and isinstance(n.args[0], ast.Name) and n.args[0].id == 'Bits'
        and not n.keywords):
      return mk_obj({}, origin=None, dirty=True)
    raise self.unt(n, 'call through an alias')

  def instance_test(self, fn, v, cls, n):
    if v.kind in ('opnd', 'optint', 'optnat'): raise NeedRefine(v.kind, v.lean)
    if fn == 'issubclass':
      if v.kind == 'bitscls' and cls == 'Bits': return static(True)
      raise self.unt(n, 'issubclass')
    if cls == 'Bits':
      if v.kind == 'obj': return static(True)
      if v.kind in ('int', 'prop', 'bool', 'other', 'none', 'slice', 'bitscls'): return static(False)
    if cls == 'slice':
      if v.kind == 'slice': return static(True)
      if v.kind in ('int', 'prop', 'bool', 'obj', 'other', 'none'): return static(False)
    if cls == 'int':
      if v.kind in ('int', 'prop', 'bool'): return static(True)
      if v.kind in ('obj', 'bitscls', 'none', 'slice'): return static(False)
    raise self.unt(n, f'isinstance of a {v.kind} against {cls}')

  def py_int(self, v, n, env):
    if v.kind in ('opnd', 'optint', 'optnat'): raise NeedRefine(v.kind, v.lean)
    if v.kind in ('int', 'prop', 'bool'): return self.to_int(v, n)
    if v.kind == 'obj': return self.call_method(v, '__int__', [], {}, n, env)
    if v.kind in ('other', 'none'): raise StaticRaise('TypeError', n)
    raise self.unt(n, f'int() of a {v.kind}')

  def bind_params(self, fdef, pos, kw, n, skip=0):
    a = fdef.args
    if a.vararg or a.kwarg or a.posonlyargs: raise self.unt(n, 'callee parameter form')
    names = [x.arg for x in a.args][skip:]
    defaults = dict(zip([x.arg for x in a.args][len(a.args) - len(a.defaults):], a.defaults))
    for x, d in zip(a.kwonlyargs, a.kw_defaults):
      names.append(x.arg)
      if d is not None: defaults[x.arg] = d
    if len(pos) > len(names): raise self.unt(n, 'too many arguments')
    out = dict(zip(names, pos))
    for k, v in kw.items():
      if k not in names or k in out: raise self.unt(n, f'keyword {k}')
      out[k] = v
    for nm in names:
      if nm not in out:
        if nm not in defaults: raise self.unt(n, f'missing argument {nm}')
        out[nm] = self.e_Constant(defaults[nm], None) if isinstance(defaults[nm], ast.Constant) else None
        if out[nm] is None: raise self.unt(n, 'non-constant default')
    return [(nm, out[nm]) for nm in names]

  def inline(self, fdef, pos, kw, n, env, must=False):
    """evaluate a straight-line function (assignments + one final return) in place; None if it is not of that form"""
    body = self.strip_doc(fdef.body)
    ok = body and isinstance(body[-1], ast.Return) and body[-1].value is not None and all(
      isinstance(s, ast.Assign) and len(s.targets) == 1 for s in body[:-1])
    if not ok:
      if must: raise self.unt(fdef, 'function is not straight-line (assignments + return)')
      return None
    e = Env(vars=dict(self.bind_params(fdef, pos, kw, n)), refined=env.refined)
    for s in body[:-1]:
      v = self.expr(s.value, e)
      t = s.targets[0]
      if isinstance(t, ast.Name): e = e.set(t.id, v)
      elif isinstance(t, ast.Attribute) and isinstance(t.value, ast.Name) and t.value.id in e.vars and e.vars[t.value.id].kind == 'obj':
        o = e.vars[t.value.id]
        if t.attr not in ('_nbits', '_uint'): raise self.unt(s, f'slot {t.attr}')
        fields = dict(o.x['fields']); fields[t.attr] = v
        e = e.set(t.value.id, mk_obj(fields, origin=o.x['origin'], dirty=True, reg=o.x['reg']))
      else: raise self.unt(s, 'assignment target in an inlined function')
    return self.expr(body[-1].value, e)

  def call_method(self, recv, name, pos, kw, n, env):
    if recv.kind != 'obj': raise self.unt(n, f'method {name} of a {recv.kind}')
    fdef = self.methods.get(name)
    if fdef is None: raise self.unt(n, f'Bits has no method {name}')
    if fdef.decorator_list: raise self.unt(fdef, 'call of a decorated method')
    body = self.strip_doc(fdef.body)
    if len(body) == 1 and isinstance(body[0], ast.Return):
      r = self.inline(fdef, [recv] + pos, kw, n, env)
      if r is not None: return r
    return self.gen_call('bits', name, [recv] + [v for _, v in self.bind_params(fdef, pos, kw, n, skip=1)], n, env)

  def call_ctor(self, width, pos, kw, n, env):
    fdef = self.methods.get('__init__')
    if fdef is None: raise self.unt(n, 'Bits.__init__ not found')
    if width is not None: pos = [width] + pos
    bound = self.bind_params(fdef, pos, kw, n, skip=1)
    return self.gen_call('bits', '__init__', [None] + [v for _, v in bound], n, env)

  def gen_call(self, module, py, argv, n, env):
    cands = [s for s in self.specs + self.cfg.external_specs if s[1] == module and s[2] == py and len(s[3]) == len(argv)]
    chosen = None
    for s in cands:
      texts = []
      for (p, kind), v in zip(s[3], argv):
        t = self.coerce(kind, v, n)
        if t is None: break
        texts.append(t)
      else:
        chosen = (s, [t for t in texts if t != '']); break
    if chosen is None: raise self.unt(n, f'no generated definition of {py} for argument kinds {[v.kind if v else None for v in argv]}')
    s, texts = chosen
    if s in self.specs:
      self.ensure(s)
      loops, name = self.gen_meta[s[0]].has_while, s[0]
    else:      # generated into another file (cfg.external_specs): referenced by its qualified name
      fd = self.methods.get(py) if module == 'bits' else self.funcs[module].get(py)
      if fd is None: raise self.unt(n, f'{py} not found in the source')
      loops, name = any(isinstance(x, ast.While) for x in ast.walk(fd)), self.cfg.external_prefix + s[0]
    if loops: raise self.unt(n, 'call of a definition that contains a while loop')
    call = f'({name} {" ".join(texts)})' if texts else name
    var = self.fn.fresh()
    self.pre.append(('bind', call, var, n, s[4]))
    res = s[4]
    if res == 'B':
      o = bits_obj(var); o.x['bound'] = var; return o
    if res == 'Int': return V('int', var, bound=var)
    if res == 'Bool': return V('bool', var, bound=var)
    raise self.unt(n, f'call of a definition with result {res}')

  def coerce(self, kind, v, n):
    if kind == 'new': return '' if v is None else None
    if v is None: return None
    if kind in ('bits',):
      return self.obj_B(v, n) if v.kind == 'obj' else None
    if kind == 'opnd':
      if v.kind == 'obj': return f'(.bits {self.obj_B(v, n)})'
      if v.kind in ('int', 'prop', 'bool'): return f'(.int {self.to_int(v, n).lean})'
      if v.kind == 'opnd': return v.lean
      if v.kind == 'other': return '.other'
      return None
    if kind == 'int': return self.to_int(v, n).lean if v.kind in ('int', 'prop', 'bool') else None
    if kind == 'bytearr': return f'{v.x["len"]} {v.lean}' if v.kind == 'bytearr' else None
    if kind == 'slice': return f'{v.x["start"]} {v.x["stop"]} {v.x["step"]}' if v.kind == 'slice' else None
    if kind == 'bool':
      if v.kind == 'bool': return v.lean
      if is_static(v): return 'true' if v.x['static'] else 'false'
      if v.kind == 'prop': return f'(decide {v.lean})'
      return None
    return None

  # ------------------------------------------------------------------------------------------ driver
  def run(self):
    parts = []
    if self.tables:
      try:
        parts.append(self.gen_tables() + '\n')
      except Untranslatable as e:
        self.failures.append(('tables', str(e)))
        parts.append('-- UNTRANSLATABLE tables: ' + str(e).replace('\n', ' ') + '\n')
        self.table_len = 1024
    else:
      parts.append('')
    for spec in self.specs:
      try:
        self.ensure(spec)
      except Untranslatable as e:
        self.failures.append((spec[0], str(e)))
    body = []
    for lean in self.order:
      body.append(self.finish_text(lean))
    for name, msg in self.failures:
      if name != 'tables': body.append(f'-- UNTRANSLATABLE {name}: ' + msg.replace('\n', ' ') + '\n')
    return self.cfg.header + parts[0] + '\n'.join(body) + self.cfg.footer

  def finish_text(self, lean):
    text = self.generated[lean]
    opt = self.gen_meta[lean].has_while
    def fix(m):
      return f'some ({m.group(1)})' if opt else m.group(1)
    text = re.sub(r'⟪([^⟫]*)⟫', fix, text)
    return text.replace('__FUEL__', '')

# Lean output nodes for loops
class LetFun:
  def __init__(self, head, body): self.head, self.body = head, body
class Fold:
  def __init__(self, fn, fun, tail): self.fn, self.fun, self.tail = fn, fun, tail
class Fold2:
  def __init__(self, fn, f1, f2, tail): self.fn, self.f1, self.f2, self.tail = fn, f1, f2, tail

def pp(n, ind):
  """print the output tree as Lean source; nested matches / non-leaf branches are parenthesised"""
  sp = ' ' * ind
  def arms(alts):
    out = []
    for pat, body in alts:
      if isinstance(body, Leaf): out.append(f'{sp}| {pat} => {body.text}')
      else: out.append(f'{sp}| {pat} => (\n{pp(body, ind + 2)}\n{sp})')
    return out
  if isinstance(n, Leaf): return sp + n.text
  if isinstance(n, LetFun): return f'{sp}({n.head}\n{pp(n.body, ind + 2)})'
  if isinstance(n, Fold): return f'{sp}{n.fn}\n{pp(n.fun, ind + 2)}\n{sp}  {n.tail}'
  if isinstance(n, Fold2): return f'{sp}{n.fn}\n{pp(n.f1, ind + 2)}\n{pp(n.f2, ind + 2)}\n{sp}  {n.tail}'
  if isinstance(n, If):
    if isinstance(n.then, Leaf): return f'{sp}if {n.cond} then {n.then.text} else\n{pp(n.els, ind)}'
    return f'{sp}if {n.cond} then (\n{pp(n.then, ind + 2)}\n{sp}) else\n{pp(n.els, ind)}'
  if isinstance(n, Let):
    if isinstance(n.val, str): return f'{sp}let {n.name} : {n.ty} := {n.val}\n{pp(n.body, ind)}'
    return f'{sp}let {n.name} : {n.ty} := (\n{pp(n.val, ind + 2)}\n{sp})\n{pp(n.body, ind)}'
  if isinstance(n, Match):
    if isinstance(n.scrut, str): head = [f'{sp}match {n.scrut} with']
    else: head = [f'{sp}match (\n{pp(n.scrut, ind + 2)}\n{sp}) with']
    return '\n'.join(head + arms(n.arms))
  raise TypeError(n)

def write_if_changed(path, text):
  try:
    with open(path) as f: old = f.read()
  except OSError: old = None
  if old == text: return False
  os.makedirs(os.path.dirname(path), exist_ok=True)
  tmp = path + '.tmp'
  with open(tmp, 'w') as f: f.write(text)
  os.replace(tmp, path)
  return True

