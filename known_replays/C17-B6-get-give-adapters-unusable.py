# get_give_ifcs.py: three adapters that cannot be used as shipped.
#  (a) GetRTL2GiveCL reads `s.get.msg`, but GetIfcRTL has `ret` (no `msg`)            -> VarNotDeclaredError at elaboration
#  (b) GiveIfcRTL.connect( other=CalleeIfcCL ) builds GetRTL2GiveCL( s.MsgType ); for a give interface MsgType is None
#      (the type is RetType), so the adapter's GetIfcRTL has no `ret` port              -> InvalidConnectionError
#      (this is the documented way to expose an RTL queue's deq as a CL method of the parent)
#  (c) RecvRTL2GiveFL: `s.recv.rdy @= s.entry is not None` (inverted) -> never ready; `deepcopy` is not imported; line_trace uses s.send
from pymtl3 import *
from pymtl3.stdlib.ifcs import SendIfcRTL, GetIfcFL
from pymtl3.stdlib.ifcs.get_give_ifcs import GetRTL2GiveCL, RecvRTL2GiveFL
from pymtl3.stdlib.queues import NormalQueueRTL

class A( Component ):
  def construct( s ):
    s.a = GetRTL2GiveCL( Bits8 )
try:
  A().elaborate(); print("(a) elaborated")
except Exception as e:
  print("(a)", type(e).__name__, [l for l in str(e).splitlines() if 'Field' in l or 'does not have' in l])

class Wrap( Component ):
  def construct( s ):
    s.deq = CalleeIfcCL()
    s.q = NormalQueueRTL( Bits8, 2 )
    connect( s.q.deq, s.deq )
class B( Component ):
  def construct( s ):
    s.w = Wrap()
try:
  B().elaborate(); print("(b) elaborated")
except Exception as e:
  print("(b)", type(e).__name__, [l.strip() for l in str(e).splitlines() if 'There is no' in l])

class Prod( Component ):
  def construct( s ):
    s.send = SendIfcRTL( Bits8 )
    @update
    def up():
      s.send.msg @= 0x42
      s.send.en  @= s.send.rdy
class Cons( Component ):
  def construct( s ):
    s.get = GetIfcFL()
    s.got = []
    @update_once
    def up():
      s.got.append( s.get() )
class C( Component ):
  def construct( s ):
    s.p = Prod(); s.a = RecvRTL2GiveFL( Bits8 ); s.c = Cons()
    connect( s.p.send, s.a.recv ); connect( s.c.get, s.a.give )
t = C(); t.elaborate(); t.apply( DefaultPassGroup() ); t.sim_reset()
n = 0
for _ in range(10):
  t.sim_tick(); n += int( t.p.send.en )
print("(c) RecvRTL2GiveFL: handshakes in 10 cycles with a producer that always offers and a consumer that always asks:", n, " delivered:", t.c.got)
