"""N9: `Pt( 300, 1 )` with x: Bits8 — run with the tree under test on PYTHONPATH.
unrepaired: ACCEPTED + simulation raises 'Value 0x12c is too wide for Bits8!';  repaired: REJECTED (PyMTLTypeError)."""
from pymtl3 import *
from pymtl3.passes.rtlir import BehavioralRTLIRGenPass, BehavioralRTLIRTypeCheckPass
@bitstruct
class Pt:
  x: Bits8
  y: Bits4
import textwrap, importlib.util, sys, os
tmp = []
for expr in ['Pt( 300, 1 )', 'Pt( 255, 16 )', 'Pt( 255, 15 )', 'Pt( 2*200, s.a )', 'Pt( 7, s.a )']:
  src = textwrap.dedent(f'''
    from pymtl3 import *
    @bitstruct
    class Pt:
      x: Bits8
      y: Bits4
    class C(Component):
      def construct(s):
        s.a = InPort(Bits4); s.out = OutPort(Pt)
        @update
        def up(): s.out @= {expr}
  ''')
  path = f'/root/scratch/C10/patches/_w{abs(hash(expr))}.py'; open(path, 'w').write(src)
  spec = importlib.util.spec_from_file_location(os.path.basename(path)[:-3], path); mod = importlib.util.module_from_spec(spec)
  sys.modules[spec.name] = mod; spec.loader.exec_module(mod); tmp.append(path)
  m = mod.C(); m.elaborate()
  try: m.apply(BehavioralRTLIRGenPass(m)); m.apply(BehavioralRTLIRTypeCheckPass(m)); v = 'ACCEPTED'
  except Exception as e: v = 'REJECTED ' + type(e).__name__ + ': ' + str(e).strip().splitlines()[-1][:110]
  m = mod.C(); m.elaborate(); m.apply(DefaultPassGroup())
  try: m.sim_eval_combinational(); r = 'sim ok ' + str(m.out)
  except Exception as e: r = 'sim RAISED ' + type(e).__name__ + ': ' + str(e).splitlines()[0][:80]
  print(f'{expr:22s} | {v} | {r}')
for p in tmp: os.remove(p)
