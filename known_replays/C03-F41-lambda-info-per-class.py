from pymtl3 import *
from pymtl3.passes.backends.verilog import *
class X(Component):
  def construct(s, k):
    s.in_ = InPort(8); s.out = OutPort(8)
    if k == 1:
      s.out //= lambda: s.in_ + 1
    else:
      s.out //= lambda: s.in_ + 100
a = X(1); a.elaborate()
b = X(2); b.elaborate()
for t in (a, b):
  t.set_metadata(VerilogTranslationPass.enable, True)
  t.apply(VerilogTranslationPass())
  txt = open(t.get_metadata(VerilogTranslationPass.translated_filename)).read()
  print([l.strip() for l in txt.splitlines() if "in_ +" in l or l.startswith('module')])
a.apply(DefaultPassGroup()); a.sim_reset(); a.in_ @= 5; a.sim_eval_combinational(); print('sim a.out =', a.out)
