# C14 known finding: an object that already has named descendants is bound again under another owner: only the object itself
# is renamed (last binding wins); its descendants keep the old name, but their parent / host now follow the new binding.
from pymtl3 import *
class Ifc(Interface):
  def construct(s): s.val = OutPort(Bits1)
class D(Component):
  def construct(s):
    s.ifc = Ifc(); s.out = OutPort(Bits8); s.out[0:4]
class Top(Component):
  def construct(s):
    s.d = D()
    s.whole_ifc = s.d.ifc     # interface with a child
    s.sl = s.d.out            # signal that already has a slice
top = Top(); top.elaborate()
v = top.d.ifc.val
print(repr(v), 'parent', repr(v.get_parent_object()), 'host', repr(v.get_host_component()))
sl = top.d.out[0:4]
print(repr(sl), 'host', repr(sl.get_host_component()))
bad = repr(v.get_host_component()) != 's.d' or repr(sl.get_host_component()) != 's.d'
print('C14 VIOLATED: host component is not the component the name says' if bad else 'C14 holds')
raise SystemExit(1 if bad else 0)
