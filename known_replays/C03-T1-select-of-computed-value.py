from pymtl3 import *
class Top( Component ):
  def construct( s ):
    s.a = InPort( Bits8 )
    s.b = InPort( Bits8 )
    s.c = InPort( Bits1 )
    s.o1 = OutPort( Bits1 )
    s.o2 = OutPort( Bits4 )
    s.o3 = OutPort( Bits1 )
    @update
    def up():
      s.o1 @= Bits8( s.a if s.c else s.b )[3]        # verilog: 8'( c ? a : b )[3'd3]   yosys: [3'd3]
      s.o2 @= trunc( s.a + s.b, 8 )[2:6]              # both: ( a + b )[3'd5:3'd2]
      s.o3 @= concat( s.a, s.b )[3]                   # verilog: { a, b }[4'd3] (valid)   yosys: [4'd3]
