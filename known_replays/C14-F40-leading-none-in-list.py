from pymtl3 import *
class T( Component ):
  def construct( s ):
    s.in_ = InPort( Bits8 )
    s.x = [ None, Wire( Bits8 ), Wire( Bits8 ) ]      # slot 0 deliberately empty
    s.out = OutPort( Bits8 )
    s.x[1] //= s.in_
    @update
    def up(): s.x[2] @= s.x[1] + 1
    s.out //= s.x[2]
t = T(); t.elaborate()
bad = []
for o in t._dsl.all_named_objects:
  try:
    r = repr(o)
    if eval(r, {'s': t}) is not o: bad.append(f'eval({r!r}) is another object')
  except Exception as e:
    bad.append(f'{type(o).__name__}: {type(e).__name__}: {e}')
print(sorted(repr(x) for x in t.get_all_object_filter(lambda x: x.is_signal())) if not bad else bad)
raise SystemExit(1 if bad else 0)
