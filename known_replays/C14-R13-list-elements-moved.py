# known finding C14-list-elements-moved-in-place: list methods that move already named elements of an assigned list attribute
from pymtl3 import *
def show( cls ):
  t = cls(); t.elaborate()
  objs = t.get_all_object_filter( lambda x: True )
  print( cls.__name__, sorted( repr(o) for o in objs ) )
  for o in objs:
    try:
      back = eval( repr(o), {'s': t} )
      if back is not o: print( '   eval(', repr(o), ') is another object' )
    except Exception as e:
      print( '   eval(', repr(o)[:40], ') raises', type(e).__name__ )
class InsertFront( Component ):
  def construct( s ):
    s.l = [ Wire(8), Wire(8) ]
    s.l.insert( 0, Wire(8) )      # old wires keep the names s.l[0], s.l[1] but sit at [1], [2]
class InsertFrontThenIadd( Component ):
  def construct( s ):
    s.l = [ Wire(8), Wire(8) ]
    s.l.insert( 0, Wire(8) )
    s.l += []                     # the repaired += names the unnamed wire after its position: two objects named s.l[0]
class PopThenIadd( Component ):
  def construct( s ):
    s.l = [ Wire(8), Wire(8) ]
    s.l.pop( 0 )
    s.l += [ Wire(8) ]            # two objects named s.l[1]
class SlotReplaced( Component ):
  def construct( s ):
    s.l = [ Wire(8), Wire(8) ]
    s.l[1] = Wire(8)              # the new wire has no name (C14-list-mutated-in-place); the replaced one leaves the design
for c in ( InsertFront, InsertFrontThenIadd, PopThenIadd, SlotReplaced ): show( c )
