from pymtl3 import *
IDX = 0                      # module-level name ...
class T( Component ):
  def construct( s ):
    IDX = 1                  # ... shadowed by a closure variable of the update block
    s.in_ = InPort( Bits8 ); s.regs = [ Wire( Bits8 ) for _ in range(2) ]; s.out = OutPort( Bits8 )
    @update_ff
    def ff():
      s.regs[IDX] <<= s.in_
    @update
    def o(): s.out @= s.regs[1]
t = T(); t.elaborate(); t.apply( DefaultPassGroup() ); t.sim_reset()
res = []
for v in [5, 9]:
  t.in_ @= v; t.sim_tick(); t.sim_eval_combinational(); res.append(int(t.out))
print(res); raise SystemExit(0 if res == [5, 9] else 1)
