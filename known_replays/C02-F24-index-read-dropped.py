from pymtl3 import *
from pymtl3.passes.mamba.PassGroups import Mamba2020, HeuTopoUnrollSim
from pymtl3.passes.PassGroups import DefaultPassGroup
@bitstruct
class E:
  tag: Bits4
  data: Bits4
class T( Component ):
  def construct( s ):
    s.addr = InPort( Bits4 )
    s.tab = [ InPort( E ) for _ in range(4) ]
    s.idx = Wire( Bits4 )
    s.out = OutPort( Bits4 )
    @update
    def a_read():
      s.out @= s.tab[ s.idx[0:2] ].data      # index = a slice of a wire written by another block, followed by a field
    @update
    def b_idx():
      s.idx @= s.addr + 1
bad = 0
for name, grp in [('default', DefaultPassGroup), ('heutopo', lambda: HeuTopoUnrollSim(print_line_trace=False)), ('mamba', lambda: Mamba2020(print_line_trace=False))]:
  t = T(); t.elaborate(); t.apply(grp()); t.sim_reset()
  reads = sorted(repr(x) for blk, rd in t._dsl.all_upblk_reads.items() if blk.__name__ == 'a_read' for x in rd)
  for k in range(4): t.tab[k] @= E(k, k + 10)
  res = []
  for a in [0, 1, 2]:
    t.addr @= a; t.sim_eval_combinational(); res.append(int(t.out)); t.sim_tick()
  want = [11, 12, 13]
  print(name, 'reads of a_read:', reads, 'out:', res, 'expected', want)
  if res != want or 's.idx' not in ' '.join(reads): bad = 1
raise SystemExit(bad)
