from pymtl3 import *
N = 3
class Base( Component ):
  def construct( s ):
    s.a = InPort( 8 ); s.o = OutPort( 8 ); s.o2 = OutPort( 8 )
    @update
    def up_a():
      s.o @= s.a + N
    s.more()
  def more( s ): pass
