from pymtl3 import *
from pymtl3.passes.backends.verilog import VerilogTranslationPass
from mod_a import Base
N = 5
class Derived( Base ):
  def more( s ):
    @update
    def up_b():
      s.o2 @= s.a + N
d = Derived(); d.elaborate()
d.set_metadata( VerilogTranslationPass.enable, True )
d.apply( VerilogTranslationPass() )
src = open( d.get_metadata( VerilogTranslationPass.translated_filename ) ).read()
print( "\n".join( l for l in src.split("\n") if "N" in l or "assign" in l or " o" in l ) )
d2 = Derived(); d2.elaborate(); d2.apply( DefaultPassGroup() ); d2.sim_reset(); d2.a @= 1; d2.sim_eval_combinational(); print( "pymtl o, o2 =", d2.o, d2.o2 )
