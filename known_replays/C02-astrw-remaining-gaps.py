"""
STATUS: items 1 and 2 below were repaired in /repo by 08c658f and 23004ac (this script now prints "yes" / s.x[*] for them; they are
regression shapes of harness/checks/c02_astrw.py: families `nested` and `shadow`); item 3 is unchanged (recorded probe `REJECTS`).

What the repaired DetectReadsWritesCalls (pymtl3/dsl/AstHelper.py) still does not record (B4, C02 astrw stream).
Run: /venv/bin/python known_replays/C02-astrw-remaining-gaps.py
Lean: the examples `innerCompare` / `paramIndex` of lean/PymtlVerif/Props/C02a.lean show the repaired behaviour.

1. An index expression that is followed by a field / another index / a slice / a call (`s.x[ E ].y`) is only visited when E is
   an Attribute, Subscript, Call, Name, Num, BinOp, UnaryOp or IfExp.  For every other expression class the signals inside E
   are not reads of the block: Compare (`s.x[ s.q == 1 ].y`), BoolOp, Tuple, Set, f-string, walrus, ...
2. A name that is bound without a Store-context `ast.Name` is still resolved to a module-level name of the same name when it is
   used as an index: a parameter of an @s.func function (`def hp( i ): return s.v[ i ]` with a module-level `i = 0` records
   s.v[0] only), a lambda parameter, `except E as i`, `import m as i`, a parameter of a nested def, a `match` capture.
3. A subscript whose base is a list / dict display or a parenthesised expression (`[ s.a, s.b ][ s.sel ]`, `( s.a + s.b )[0:4]`)
   stops the elaboration with a bare AssertionError (`assert isinstance( node, ast.Str )` in _get_full_name).
"""
import ast, types, warnings
warnings.simplefilter('ignore')
from pymtl3 import *
from pymtl3.dsl import AstHelper

def names(src, glob=None, closure=('s',)):
  f = types.SimpleNamespace(__globals__=glob or {'i': 0}, __code__=types.SimpleNamespace(co_freevars=closure), __name__='blk')
  rd, wr, fc = [], [], []
  try: AstHelper.extract_reads_writes_calls(None, f, ast.parse(src), rd, wr, fc)
  except Exception as e: return 'EXC ' + type(e).__name__, [], []
  flat = lambda l: ['.'.join(n + ''.join(f'[{i}]' for i in idx) for n, idx in x[0]) for x in l]
  return flat(rd), flat(wr), flat(fc)

print('1. index expression E in `s.o @= s.x[ E ].y`: is the read of s.q recorded?')
for k, e in {'Compare': 's.q == 1', 'BoolOp': 's.q and s.r', 'Tuple': '( s.q, 1 )', 'f-string': 'f"{s.q}"', 'Set': '{ s.q }', 'walrus': '( t := s.q )',
             'IfExp': 's.q if s.r else 1', 'BinOp': 's.q + 1', 'Call': 'int( s.q )', 'Call keyword': 'f( k=s.q )', 'Attribute': 's.q'}.items():
  rd, wr, fc = names(f'def f():\n  s.o @= s.x[ {e} ].y\n')
  print(f'   {k:14s} {e:22s} {"yes" if any(r.startswith("s.q") for r in rd) else "NO "}  reads = {rd}')
print('2. index name bound without a Store-context Name, module-level i = 0:')
for k, src in {'function parameter': 'def f( i ):\n  return s.x[ i ]\n', 'lambda parameter': 'def f():\n  g = lambda i: s.x[ i ]\n',
               'except ... as i': 'def f():\n  try:\n    pass\n  except E as i:\n    s.o @= s.x[ i ]\n', 'import m as i': 'def f():\n  import m as i\n  s.o @= s.x[ i ]\n',
               'nested def parameter': 'def f():\n  def g( i ):\n    return s.x[ i ]\n', 'for tuple target (repaired)': 'def f():\n  for i, v in z:\n    s.o @= s.x[ i ]\n'}.items():
  print(f'   {k:28s} reads = {names(src)[0]}')
print('3. display / parenthesised base:')
for src in ['def f():\n  s.o @= [ s.a, s.b ][ s.sel ]\n', 'def f():\n  s.o @= ( s.a + s.b )[0:4]\n']:
  print(f'   {src.splitlines()[1].strip():34s} -> {names(src)[0]}')

# the same on a simulated design: the block reads s.q through the comparison, the metadata does not say so
class CmpIndex( Component ):
  def construct( s ):
    s.q = InPort( 2 )
    s.ps = [ InPort( 8 ) for _ in range(2) ]
    s.w = [ Wire( 8 ) for _ in range(2) ]
    s.out = OutPort( 4 )
    @update
    def up_w():
      for k in range(2): s.w[k] @= s.ps[k]
    @update
    def up_out():
      s.out @= s.w[ s.q == 1 ][0:4]
top = CmpIndex(); top.elaborate()
blk = top._dsl.name_upblk['up_out']
print('CmpIndex.up_out: s.out @= s.w[ s.q == 1 ][0:4]   recorded reads =', sorted(map(repr, top._dsl.upblk_reads[blk])), ' (s.q is missing)')

i = 0
class ParamIndex( Component ):
  def construct( s ):
    s.v = [ InPort( 8 ) for _ in range(4) ]
    s.out = OutPort( 8 )
    @s.func
    def hp( i ):
      return s.v[ i ]
    @update
    def up():
      s.out @= hp( 2 )
top = ParamIndex(); top.elaborate()
print('ParamIndex.hp( i ): return s.v[ i ], called as hp( 2 )   func_reads =', sorted(map(repr, top._dsl.func_reads[top._dsl.name_func['hp']])), ' (s.v[2] is read)')
