from pymtl3 import *
class T( Component ):
  def construct( s ):
    s.l = [ Wire(8) for _ in range(2) ]
    s.l += [ Wire(8) ]
    s.m = [ Wire(8) for _ in range(2) ]
    s.m.append( Wire(8) )
t = T(); t.elaborate()
objs = t.get_all_object_filter( lambda x: True )
print( sorted( repr(o) for o in objs ) )
print( [ repr(x) for x in t.l ], [ repr(x) for x in t.m ] )
print( sorted( repr(x) for x in t.get_all_object_filter( lambda x: isinstance(x, Wire) ) ) )
print( len(t._dsl.all_signals) )
