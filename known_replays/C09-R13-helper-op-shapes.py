from pymtl3 import *
from pymtl3.passes.sim.GenDAGPass import GenDAGPass
from pymtl3.passes.sim.WrapGreenletPass import WrapGreenletPass
from pymtl3.passes.sim.SimpleSchedulePass import SimpleSchedulePass
from pymtl3.passes.sim.PrepareSimPass import PrepareSimPass
class T(Component):
  def construct(s):
    s.in_ = InPort(8); s.w = Wire(8); s.r1 = Wire(8); s.r2 = Wire(8)
    @s.func
    def helper(): s.w @= s.in_
    @update_ff
    def ff1(): helper(); s.r1 <<= s.in_
    @update_ff
    def ff2(): s.r2 <<= s.w
for order in (['ff1','ff2'], ['ff2','ff1']):
  t = T(); t.elaborate(); GenDAGPass()(t); WrapGreenletPass()(t); SimpleSchedulePass()(t)
  d = {b.__name__: b for b in t._sched.schedule_ff}
  t._sched.schedule_ff = [d[n] for n in order]
  PrepareSimPass(print_line_trace=False)(t); t.sim_reset()
  for v in (5, 9): t.in_ @= v; t.sim_tick()
  print(order, 'r2 =', t.r2, 'w =', t.w)
class U(Component):
  def construct(s):
    s.in_ = InPort(8); s.r = Wire(8); s.o = OutPort(8)
    @s.func
    def helper(): s.r <<= s.in_
    @update
    def up(): helper()
    @update
    def up2(): s.o @= s.r
t = U(); t.elaborate(); t.apply(DefaultPassGroup()); t.sim_reset()
for v in (5, 9): t.in_ @= v; t.sim_tick(); print('U r =', t.r, 'o =', t.o)
