from pymtl3 import *
class T( Component ):
  def construct( s ):
    s.sel = InPort( 3 ); s.r = Wire( 8 ); s.out = OutPort( 8 )
    s.out //= s.r
    @update_ff
    def ff():
      s.r[ s.sel ] <<= 1
try:
  t = T(); t.elaborate(); t.apply( DefaultPassGroup() ); t.sim_reset()
  t.sel @= 2; t.sim_tick(); t.sim_tick()
  print( "elaborated; r =", t.r )
except Exception as e:
  print( type(e).__name__, str(e)[:200] )
class T2( Component ):
  def construct( s ):
    s.sel = InPort( 3 ); s.r = Wire( 8 ); s.out = OutPort( 8 )
    s.out //= s.r
    @update_ff
    def ff():
      s.r[ 2 ] <<= 1
try:
  t = T2(); t.elaborate(); print("const idx elaborated")
except Exception as e:
  print( type(e).__name__, str(e)[:200] )
class T3( Component ):
  def construct( s ):
    s.x = Wire(8)
    @update
    def up(): s.x += 1
try:
  t = T3(); t.elaborate(); print("elaborated")
except Exception as e:
  print( type(e).__name__, str(e)[:200] )
