"""Minimal reproductions of defects noticed in the UNCHANGED tree (yosys backend).
Run:  cd _out/tmp && PYTHONPATH=<worktree> python ../preexisting.py
"""
import re, traceback
from pymtl3 import *
from pymtl3.passes.backends.yosys import YosysTranslationPass

def tr( cls ):
  a = cls()
  a.elaborate()
  a.set_metadata( YosysTranslationPass.enable, True )
  a.apply( YosysTranslationPass() )
  return open( a.get_metadata( YosysTranslationPass.translated_filename ) ).read()

def show( title, cls, pat ):
  print( "=" * 70 ); print( title )
  try:
    txt = tr( cls )
    for l in txt.split('\n'):
      if re.search( pat, l ): print( "   ", l.strip() )
  except Exception as e:
    print( "    raised", type(e).__name__, str(e).strip().split('\n')[-1][:150] )

# P1 -----------------------------------------------------------------
class IfcP1( Interface ):
  def construct( s, T ):
    s.msg = InPort( T )
class P1( Component ):
  def construct( s ):
    s.ifc = [ IfcP1(Bits8), IfcP1(Bits4) ]
    s.o = OutPort( Bits8 )
    @update
    def up():
      s.o @= s.ifc[0].msg + zext( s.ifc[1].msg, 8 )
show( "P1 list of interfaces with different parameters is typed by element 0 "
      "(InterfaceView.__eq__ compares the class name only): ifc[1].msg is Bits4 in PyMTL",
      P1, r'ifc__1__msg|o = ' )

# P2 -----------------------------------------------------------------
class InnerP2( Interface ):
  def construct( s ):
    s.msg = InPort( Bits4 )
    s.rdy = OutPort()
class OuterP2( Interface ):
  def construct( s ):
    s.inner = [ InnerP2() for _ in range(2) ]
class P2( Component ):
  def construct( s ):
    s.ifc = [ OuterP2() for _ in range(2) ]
    @update
    def up():
      for i in range(2):
        for j in range(2):
          s.ifc[i].inner[j].rdy @= s.ifc[i].inner[j].msg[0]
show( "P2 list of interfaces nested in a list of interfaces: the block uses ifc__inner__rdy / "
      "ifc__inner__msg, which are never declared (the wire forms are ifc__inner__0__msg ...)",
      P2, r'logic .* ifc__inner|ifc__inner__rdy\[' )

# P3 -----------------------------------------------------------------
@bitstruct
class SP3:
  a: Bits4
  b: Bits4
class P3( Component ):
  def construct( s ):
    s.in_ = InPort( SP3 )
    s.w   = Wire( SP3 )
    s.o   = OutPort( Bits4 )
    s.w //= s.in_
    @update
    def up():
      t = s.in_
      s.o @= t.a + s.w.b
show( "P3 the per-field forms of a struct wire / struct temporary are never tied to the whole form: "
      "w__b and __tmpvar__up_t__a are read but have no driver",
      P3, r'w__b|w =|__tmpvar__up_t' )

# P4 -----------------------------------------------------------------
@bitstruct
class InP4:
  a: Bits4
@bitstruct
class SP4:
  x: Bits3
  n: InP4
class P4( Component ):
  def construct( s ):
    s.in_ = InPort( SP4 )
    s.out = OutPort( SP4 )
    @update
    def up():
      s.out @= s.in_
show( "P4 output leaf of a nested struct (and of any packed array field) has two continuous drivers",
      P4, r'assign out__n__a' )

# P5 -----------------------------------------------------------------
class P5( Component ):
  def construct( s ):
    s.o = OutPort( Bits8 )
    @update
    def up():
      s.o @= 0
      for i in range( 8 ):
        for j in range( 8 ):
          if i < j:
            s.o[i] @= 1
show( "P5 loop variables are `integer` (signed) and are cast with 3'(...): a comparison of two loop "
      "variables is a SIGNED 3-bit comparison (i=1, j=5: 1 < -3 is false; Python: true)",
      P5, r'integer|if \(' )

# P6 -----------------------------------------------------------------
K = True
class P6( Component ):
  def construct( s ):
    s.in_ = InPort( Bits8 )
    s.o = OutPort( Bits8 )
    @update
    def up():
      s.o @= s.in_ + K
show( "P6 bool free variable is emitted as 8'dTrue", P6, r'o = ' )

# P7 -----------------------------------------------------------------
class P7( Component ):
  def construct( s ):
    s.in_ = InPort( Bits8 )
    s.o = OutPort( Bits8 )
    @update
    def up():
      s.o @= 0
      for i in range( 7, 0, -1 ):
        s.o[i] @= s.in_[i-1]
show( "P7 negative loop step crashes the yosys backend with AttributeError (SV backend accepts it)",
      P7, r'for' )

# P8 -----------------------------------------------------------------
@bitstruct
class SP8:
  a: Bits4
  b: Bits4
class P8( Component ):
  def construct( s ):
    s.C = SP8( 1, 2 )
    s.o = OutPort( SP8 )
    @update
    def up():
      s.o @= s.C
show( "P8 constant struct attribute with more than one field crashes with ValueError "
      "(braces of the concatenation are fed to str.format)", P8, r'o = ' )
