import sys
from pymtl3 import *
class Inc( Component ):
  def construct( s ):
    s.in_ = InPort( 8 ); s.out = OutPort( 8 )
    @update
    def up(): s.out @= s.in_ + 1
a = Inc(); a.set_param("top.elaborate") if False else None
a.elaborate(); a.apply( DefaultPassGroup( textwave=True ) ); a.sim_reset()
b = Inc(); b.elaborate(); b.apply( DefaultPassGroup( textwave=True ) )
na = len( a._tracing.text_sigs['s.in_'] ) if hasattr(a, '_tracing') else None
from pymtl3.passes.tracing.PrintTextWavePass import PrintTextWavePass
ra = a.get_metadata( PrintTextWavePass.textwave_dict ); rb = b.get_metadata( PrintTextWavePass.textwave_dict )
n0a, n0b = len( ra['s.in_'] ), len( rb['s.in_'] )
for v in (3, 5, 7):
  a.in_ @= v; a.sim_tick()
got_a = ra['s.in_'][n0a:]; got_b = rb['s.in_'][n0b:]
print( "a record:", got_a ); print( "b record (never ticked):", got_b )
ok = [ int(x, 2) for x in got_a ] == [3, 5, 7] and got_b == []
sys.exit( 0 if ok else 1 )
