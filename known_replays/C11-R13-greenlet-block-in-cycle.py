"""
Pre-existing (unchanged tree): WrapGreenletPass replaces blocks that call
blocking (FL) methods by greenlet wrappers in final_upblks/all_constraints,
but top._dag.constraint_objs is still keyed by the ORIGINAL block objects.
The schedule passes look up constraint_objs[(u, v)] (a defaultdict) with the
wrappers, get an empty set for every edge that touches a greenlet block, and
so do not snapshot the signals carried by those edges.
"""
from pymtl3 import *
from pymtl3.dsl import CalleeIfcFL, CallerIfcFL
from pymtl3.passes.PassGroups import DefaultPassGroup

class Lut( Component ):
  def construct( s ):
    s.look = CalleeIfcFL( method=s.look_ )
  def look_( s, v ):
    return v

class Top( Component ):
  def construct( s ):
    s.a = InPort( 8 )
    s.x = Wire( 8 ); s.y = Wire( 8 ); s.z = Wire( 8 )
    s.lut  = Lut()
    s.look = CallerIfcFL()
    s.look //= s.lut.look

    @update_once
    def up_g():                    # calls a blocking method -> greenlet
      s.x @= s.look( s.y )
    @update
    def up_b():
      s.z @= s.x & 0xf0            # the only edge without the greenlet block
    @update
    def up_c():
      s.y @= ( s.z >> 4 ) + s.a

from pymtl3.dsl.errors import UpblkCyclicError
top = Top()
top.elaborate()
try:
  top.apply( DefaultPassGroup() )
  print( "no UpblkCyclicError although the update_once block up_g is in the cycle up_g -> up_b -> up_c -> up_g" )
except UpblkCyclicError as e:
  print( "UpblkCyclicError raised (expected):", str(e).splitlines()[0] )
  raise SystemExit(0)
top.sim_reset()
bad = 0
for a in [ 0x20, 0x41, 0x13 ]:
  top.a @= a
  top.sim_tick()
  before = ( int(top.x), int(top.y), int(top.z) )
  for blk in top._dag.final_upblks:
    blk()
  after = ( int(top.x), int(top.y), int(top.z) )
  print( f"a={a:#04x}: (x,y,z) on return = {before}, after re-running every block = {after}" )
  bad |= before != after
print( "UNSTABLE state returned" if bad else "stable" )
