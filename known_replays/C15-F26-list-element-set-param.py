from pymtl3 import *
class A( Component ):
  def construct( s, k=1 ):
    s.out = OutPort( Bits8 )
    @update
    def up(): s.out @= k
class B( Component ):
  def construct( s, k=1 ):
    s.out = OutPort( Bits8 )
    @update
    def up(): s.out @= k + 100
class Top( Component ):
  def construct( s ):
    s.c = [ A() for _ in range(2) ]
    s.o = [ OutPort( Bits8 ) for _ in range(2) ]
    for i in range(2): s.o[i] //= s.c[i].out
def build(cls0):
  t = Top()
  t.set_param( 'top.c[0].construct', k=7 )
  t.elaborate()
  return t
t = build(A)
t.replace_component( t.c[0], B )
t.apply( DefaultPassGroup() ); t.sim_reset(); t.sim_eval_combinational()
print([int(x) for x in t.o])
assert [int(x) for x in t.o] == [107, 1]
