"""
Two defects that are present in the UNCHANGED tree (not part of the seeded change).
Both lose a read in the update-block metadata, so GenDAGPass emits no
writer-before-reader constraint and a legal schedule gives stale values.
Uses only GenDAGPass + SimpleSchedulePass + PrepareSimPass.
"""
import itertools
from pymtl3 import *
from pymtl3.passes.sim.GenDAGPass import GenDAGPass
from pymtl3.passes.sim.PrepareSimPass import PrepareSimPass
from pymtl3.passes.sim.SimpleSchedulePass import SimpleSchedulePass

# 1. Two lambda blocks of the same class whose generated names collide:
#    repr "s.x[0].out" and "s.x_0_.out" are both mangled to _lambda__s_x_0__out,
#    and the read/write analysis is cached per class and block name, so the
#    block of s.x[0] gets the reads of the block of s.x_0_.
class Sel( Component ):
  def construct( s, which ):
    s.a = InPort( 8 )
    s.b = InPort( 8 )
    s.out = OutPort( 8 )
    if which == 0:
      s.out //= lambda: s.a + 1
    else:
      s.out //= lambda: s.b + 1

class LambdaNames( Component ):
  def construct( s ):
    s.in_ = InPort( 8 )
    s.wa = Wire( 8 )
    s.wb = Wire( 8 )
    s.x    = [ Sel( 0 ) ]
    s.x_0_ = Sel( 1 )
    s.x[0].a //= s.wa
    s.x[0].b //= s.wb
    s.x_0_.a //= s.wa
    s.x_0_.b //= s.wb
    @update
    def up_wa(): s.wa @= s.in_ + 1
    @update
    def up_wb(): s.wb @= s.in_ + 2
def ref1( v ): return { 'x[0].out': (v+2) & 0xff, 'x_0_.out': (v+3) & 0xff }

# 2. A helper (@s.func) called inside an index that is followed by a slice
#    (or a field / another index): the call is not recorded, so the signals
#    the helper reads are not reads of the block.
class CallIndex( Component ):
  def construct( s ):
    s.in_ = InPort( 8 )
    s.out = OutPort( 8 )
    s.w   = Wire( 8 )
    s.vec = [ Wire( 8 ) for _ in range(2) ]
    @s.func
    def pick():
      return int( s.w[0] )
    @update
    def up_w():   s.w @= s.in_
    @update
    def up_vec():
      s.vec[0] @= 10
      s.vec[1] @= 20
    @update
    def up_out(): s.out @= s.vec[ pick() ][0:8]
def ref2( v ): return { 'out': 20 if v & 1 else 10 }

def read( top, name ):
  return int( eval( "top." + name ) )

def key( top, b ):
  return ( repr( top.get_update_block_host_component( b ) ) if b in top.get_all_update_blocks() else "net" ) + ":" + b.__name__

for cls, ref, v in [ ( LambdaNames, ref1, 5 ), ( CallIndex, ref2, 1 ) ]:
  probe = cls(); probe.elaborate(); GenDAGPass()( probe )
  rd, _, _ = probe.get_all_upblk_metadata()
  print( cls.__name__ )
  for b, r in rd.items():
    print( "   reads of", key( probe, b ), "=", sorted( map( repr, r ) ) )
  names = sorted( key( probe, b ) for b in probe._dag.final_upblks )
  n = bad = 0
  for order in itertools.permutations( names ):
    top = cls(); top.elaborate(); GenDAGPass()( top ); SimpleSchedulePass()( top )
    by = { key( top, b ): b for b in top._dag.final_upblks }
    sched = [ by[k] for k in order ]
    pos = { b: i for i, b in enumerate( sched ) }
    if not all( pos[a] < pos[b] for (a, b) in top._dag.all_constraints ): continue
    top._sched.update_schedule[:] = sched
    PrepareSimPass( print_line_trace=False )( top )
    top.in_ @= v
    top.sim_eval_combinational()
    n += 1
    exp = ref( v )
    got = { k: read( top, k ) for k in exp }
    if got != exp:
      bad += 1
      if bad == 1: print( "   legal order", list(order), "-> expected", exp, "observed", got )
  print( f"   {bad} of {n} legal linear extensions give values that differ from the dataflow equations" )
