from pymtl3 import *
class T( Component ):
  def construct( s ):
    s.in_ = InPort( 4 ); s.a = Wire( 4 ); s.o1 = OutPort( 4 ); s.o2 = OutPort( 4 )
    @update
    def up_sub():
      s.o1 @= concat( s.a, s.in_ )[4:8]
    @update
    def up_meth():
      s.o2 @= Bits4(1).__add__( s.a )
    @update
    def up_a():
      s.a @= s.in_ + 1
t = T(); t.elaborate()
from pymtl3.passes.sim.GenDAGPass import GenDAGPass
t.apply( GenDAGPass() )
cs = sorted( (a.__name__, b.__name__) for a, b in t._dag.all_constraints )
print( cs )
import sys
sys.exit( 0 if ('up_a','up_sub') in cs and ('up_a','up_meth') in cs else 1 )
