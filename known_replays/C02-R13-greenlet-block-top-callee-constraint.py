"""
Unchanged tree (after 1c4e841 / 12e6747): WrapGreenletPass replaces a block that calls a blocking method by its greenlet wrapper
in final_upblks / all_constraints / constraint_objs, but top._dag.top_level_callee_constraints is still keyed by the ORIGINAL
block.  OpenLoopCLPass.schedule_with_top_level_callee tests `xx in V` with the original block, which is no longer a vertex, and
silently drops the declared constraint U( up_g ) < M( s.pull ): depending on the vertex shuffle up_g is scheduled behind pull and
pull() returns the value of the previous cycle.
"""
import sys, random
sys.path.insert(0, '/verif')
from pymtl3 import *
from pymtl3.dsl import CalleeIfcFL, CallerIfcFL
from pymtl3.passes.autotick.OpenLoopCLPass import OpenLoopCLPass
from pymtl3.passes.sim.GenDAGPass import GenDAGPass
from pymtl3.passes.sim.WrapGreenletPass import WrapGreenletPass
class Lut( Component ):
  def construct( s ):
    s.look = CalleeIfcFL( method=s.look_ )
  def look_( s, v ):
    return v + 1
class Top( Component ):
  def construct( s ):
    s.v = 0
    s.a = Wire( Bits8 ); s.w = Wire( Bits8 )
    s.lut = Lut(); s.look = CallerIfcFL(); s.look //= s.lut.look
    @update
    def drive():
      s.a @= s.v
    @update_once
    def up_g():
      s.w @= s.look( s.a )
    s.add_constraints( M( s.push ) < U( drive ), U( up_g ) < M( s.pull ) )
  @method_port
  def push( s, v ): s.v = v
  @method_port
  def pull( s ): return int(s.w)
bad = 0
for seed in range(20):
  top = Top(); top.elaborate(); GenDAGPass()(top); WrapGreenletPass()(top)
  orig = top.get_update_block('up_g')
  keyed = [ (getattr(x,'__name__',x), getattr(y,'__name__',y)) for x, y in top._dag.top_level_callee_constraints if x is orig or y is orig ]
  random.seed(seed); OpenLoopCLPass(print_line_trace=False)(top)
  top.sim_reset()
  got = []
  for v in (5, 9):
    top.push(v); got.append(top.pull())
  if got != [6, 10]: bad += 1; print('seed', seed, 'pull() returned', got, 'expected [6, 10]; constraints still keyed by the original block:', keyed)
print('bad seeds', bad, 'of 20')
