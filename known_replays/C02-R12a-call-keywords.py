from pymtl3 import *
from pymtl3.passes.sim.GenDAGPass import GenDAGPass

class A( Component ):
  def construct( s ):
    s.in_ = InPort(8)
    s.w   = Wire(8)
    s.out = OutPort(16)
    @update
    def up_w(): s.w @= s.in_ + 1
    @update
    def up_kw():
      s.out @= zext( value=s.w, new_width=16 )

a = A()
a.elaborate()
rd, wr, _ = a.get_all_upblk_metadata()
for b, r in rd.items(): print(b.__name__, sorted(map(repr,r)))
GenDAGPass()( a )
names = { (x.__name__, y.__name__) for x,y in a._dag.all_constraints }
print( sorted(names) )
print( "up_w < up_kw constrained:", ('up_w','up_kw') in names )
a2 = A(); a2.elaborate(); a2.apply( DefaultPassGroup() ); a2.sim_reset(); a2.in_ @= 5; a2.sim_eval_combinational(); print(a2.out, [f.__name__ for f in a2._sched.update_schedule])
