import sys
from pymtl3 import *
from pymtl3.passes.backends.verilog import VerilogTranslationPass
i = 3
class T( Component ):
  def construct( s ):
    s.arr = [ b8(4), b8(5), b8(6), b8(7) ]
    s.out = OutPort( 8 )
    s.in_ = InPort( 8 )
    @update
    def up():
      s.out @= 0
      for i in range(3):
        s.out @= s.arr[i] + s.in_
d = T(); d.elaborate(); d.apply( DefaultPassGroup() ); d.sim_reset(); d.in_ @= 0; d.sim_eval_combinational(); print("pymtl out =", d.out)
d = T(); d.elaborate(); d.set_metadata( VerilogTranslationPass.enable, True )
try: d.apply( VerilogTranslationPass() )
except Exception as e: print("refused", type(e).__name__); sys.exit(0)
src = open( d.get_metadata( VerilogTranslationPass.translated_filename ) ).read()
body = src[ src.find("always_comb"): src.find("endmodule") ]; print( body )
sys.exit( 1 if "8'd7 + in_" in body else 0 )
