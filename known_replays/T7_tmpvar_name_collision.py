from pymtl3 import *
class Top( Component ):
  def construct( s ):
    s.a = InPort( Bits8 )
    s.o = OutPort( Bits8 )
    s.p = OutPort( Bits4 )
    @update
    def up():
      a_b = s.a + 1
      s.o @= a_b
    @update
    def up_a():
      b = s.a[0:4] ^ 5
      s.p @= b
