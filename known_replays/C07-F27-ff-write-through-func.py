from pymtl3 import *
class T( Component ):
  def construct( s ):
    s.in_ = InPort( Bits8 ); s.r = Wire( Bits8 ); s.out = OutPort( Bits8 )
    @s.func
    def setr():
      s.r <<= s.in_
    @update_ff
    def ff():
      setr()
    @update
    def o(): s.out @= s.r
t = T(); t.elaborate(); t.apply( DefaultPassGroup() ); t.sim_reset()
res = []
for v in [5, 9, 3]:
  t.in_ @= v; t.sim_eval_combinational(); t.sim_tick(); t.sim_eval_combinational(); res.append(int(t.out))
print(res, 'needs_double_buffer:', [ (repr(x), x._dsl.needs_double_buffer) for x in t._dsl.all_signals if repr(x)=='s.r'])
assert res == [5, 9, 3]
