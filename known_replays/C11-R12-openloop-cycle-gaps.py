# OpenLoopCLPass: (1) an update_once block inside a cycle, (2) a cycle of explicit constraints only -> UpblkCyclicError expected
import sys
from pymtl3.passes.sim.GenDAGPass import GenDAGPass
from pymtl3.passes.autotick.OpenLoopCLPass import OpenLoopCLPass
from pymtl3.passes.sim.WrapGreenletPass import WrapGreenletPass
from pymtl3.dsl.errors import UpblkCyclicError
from pymtl3 import *
class OLOnce( Component ):
  def construct( s ):
    s.v = 0
    s.in0 = Wire( Bits4 )
    s.a = Wire( Bits4 )
    s.b = Wire( Bits4 )
    @update
    def drive():
      s.in0 @= s.v
    @update
    def up_a():
      s.a @= s.b | s.in0
    @update_once
    def up_b():
      s.b @= s.a
    s.add_constraints( M( s.push ) < U( drive ), U( up_a ) < M( s.pull ), U( up_b ) < M( s.pull ) )
  @method_port
  def push( s, v ):
    s.v = v
  @method_port
  def pull( s ):
    return 0

from pymtl3 import *
class OLExpl( Component ):
  def construct( s ):
    s.x = Wire( Bits4 )
    s.y = Wire( Bits4 )
    @update
    def ua():
      s.x @= 1
    @update
    def ub():
      s.y @= 2
    s.add_constraints( U( ua ) < U( ub ), U( ub ) < U( ua ) )
  @method_port
  def pull( s ):
    return 0

bad = 0
for cls in (OLOnce, OLExpl):
  t = cls(); t.elaborate()
  try:
    t.apply( GenDAGPass() ); t.apply( WrapGreenletPass() ); t.apply( OpenLoopCLPass() ); out = 'scheduled'
  except UpblkCyclicError: out = 'UpblkCyclicError'
  except BaseException as e: out = type(e).__name__
  print( cls.__name__, out ); bad += out != 'UpblkCyclicError'
sys.exit( 1 if bad else 0 )
