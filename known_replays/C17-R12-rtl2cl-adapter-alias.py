# Probe 1: RTL producer -> (auto-inserted RecvRTL2SendCL adapter) -> CL queue
from pymtl3 import *
from pymtl3.stdlib.queues import PipeQueueCL, NormalQueueCL, BypassQueueCL
from pymtl3.stdlib.ifcs import SendIfcRTL

class Prod( Component ):
  def construct( s ):
    s.send = SendIfcRTL( Bits8 )
    s.cnt = Wire( Bits8 )
    s.accepted = []
    @update_ff
    def up():
      if s.reset: s.cnt <<= 0x10
      elif s.send.en: s.cnt <<= s.cnt + 1
    @update
    def c():
      s.send.msg @= s.cnt
      s.send.en  @= s.send.rdy
    @update_once
    def log():
      if s.send.en: s.accepted.append( int(s.send.msg) )

class Top( Component ):
  def construct( s, Q, n ):
    s.p = Prod()
    s.q = Q( num_entries=n )
    connect( s.p.send, s.q.enq )
    s.got = []
    s.cyc = 0
    @update_once
    def drain():
      s.cyc += 1
      if s.cyc > 8 and s.q.deq.rdy():
        s.got.append( int(s.q.deq()) )

for Q in (PipeQueueCL, NormalQueueCL, BypassQueueCL):
  t = Top( Q, 3 )
  t.elaborate(); t.apply( DefaultPassGroup() ); t.sim_reset()
  for _ in range(12): t.sim_tick()
  print(Q.__name__)
  print("  accepted :", [hex(x) for x in t.p.accepted])
  print("  delivered:", [hex(x) for x in t.got])
  print("  ids in queue identical objects:", len({id(x) for x in t.q.queue}), "distinct of", len(t.q.queue))
