from pymtl3 import *
@bitstruct
class Foo:
  v: Bits8
class Top( Component ):
  def construct( s ):
    s.a = InPort( Bits8 )
    s.b = InPort( Bits8 )
    s.f = InPort( Foo )
    s.o1 = OutPort( Bits1 )
    s.o2 = OutPort( Foo )
    s.o3 = OutPort( Bits1 )
    @update
    def up():
      s.o1 @= s.f == Foo( s.a & s.b )
      s.o2 @= Foo( s.a | s.b )
      s.o3 @= Foo( s.a ^ s.b ) != s.f
