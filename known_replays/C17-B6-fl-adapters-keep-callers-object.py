# RecvFL2SendRTL (send_recv_ifcs.py) and RecvCL2GiveFL (get_give_ifcs.py) store the caller's message object itself
# (`s.entry = msg`); RecvCL2SendRTL, RecvRTL2SendCL (since 7f778b6) and the stream adapters copy.  A caller that reuses its
# message object (exactly what an RTL signal does, and what RecvRTL2SendCL did before 7f778b6) loses the stored message.
from pymtl3 import *
from pymtl3.stdlib.ifcs import SendIfcFL, GetIfcFL, RecvIfcRTL
from pymtl3.stdlib.ifcs.send_recv_ifcs import RecvFL2SendRTL

class ProdFL( Component ):
  def construct( s ):
    s.send = SendIfcFL()
    s.msg = Bits8( 0x10 )
    s.accepted = []
    @update_once
    def up():
      s.send( s.msg )                       # blocks until the adapter has taken it
      s.accepted.append( int( s.msg ) )
      s.msg @= s.msg + 1                    # next message: the producer reuses its object
class ConsRTL( Component ):
  def construct( s ):
    s.recv = RecvIfcRTL( Bits8 )
    s.cyc = 0
    s.got = []
    @update_once
    def up():
      s.cyc += 1
    @update
    def up_rdy():
      s.recv.rdy @= s.cyc > 4               # stalls for the first cycles
    @update_once
    def log():
      if s.recv.en: s.got.append( int( s.recv.msg ) )
class T1( Component ):
  def construct( s ):
    s.p = ProdFL(); s.a = RecvFL2SendRTL( Bits8 ); s.c = ConsRTL()
    connect( s.p.send, s.a.recv ); connect( s.a.send, s.c.recv )
t = T1(); t.elaborate(); t.apply( DefaultPassGroup() ); t.sim_reset()
for _ in range(9): t.sim_tick()
print("RecvFL2SendRTL  accepted :", [hex(x) for x in t.p.accepted])
print("                delivered:", [hex(x) for x in t.c.got], "   (0x10 was accepted and never delivered; 0x11 delivered first)")

class ProdCL( Component ):
  def construct( s ):
    s.send = CallerIfcCL()
    s.msg = Bits8( 0x20 )
    s.accepted = []
    @update_once
    def up():
      if s.send.rdy():
        s.send( s.msg ); s.accepted.append( int( s.msg ) )
      s.msg @= s.msg + 1                    # rewritten in place every cycle
class ConsFL( Component ):
  def construct( s ):
    s.get = GetIfcFL()
    s.cyc = 0
    s.got = []
    @update_once
    def up():
      s.cyc += 1
      if s.cyc > 4: s.got.append( int( s.get() ) )
class T2( Component ):
  def construct( s ):
    s.p = ProdCL(); s.c = ConsFL()
    connect( s.c.get, s.p.send )            # GetIfcFL.connect inserts RecvCL2GiveFL
t = T2(); t.elaborate(); t.apply( DefaultPassGroup() ); t.sim_reset()
for _ in range(8): t.sim_tick()
print("RecvCL2GiveFL   accepted :", [hex(x) for x in t.p.accepted])
print("                delivered:", [hex(x) for x in t.c.got])
