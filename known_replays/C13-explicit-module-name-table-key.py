# C13 (fixed): a parametrized class that sets its explicit module name inside construct() and is used with two parameter
# values got two different `module RF_x` definitions, both instantiated as RF_x, without an error.
from pymtl3 import *
from pymtl3.passes.backends.verilog import VerilogTranslationPass
class RF(Component):
  def construct(s, nbits=8):
    s.in_ = InPort(nbits); s.out = OutPort(nbits)
    s.set_metadata(VerilogTranslationPass.explicit_module_name, 'RF_x')
    @update
    def up(): s.out @= s.in_ + 1
class Top(Component):
  def construct(s):
    s.i1 = InPort(8); s.i2 = InPort(16); s.o1 = OutPort(8); s.o2 = OutPort(16)
    s.a = RF(8); s.b = RF(16)
    s.a.in_ //= s.i1; s.b.in_ //= s.i2; s.o1 //= s.a.out; s.o2 //= s.b.out
t = Top(); t.elaborate(); t.set_metadata(VerilogTranslationPass.enable, True)
try:
  t.apply(VerilogTranslationPass())
except Exception as e:
  print('refused:', str(e).strip().splitlines()[-1][:200]); raise SystemExit(0)
import re
txt = open(t.get_metadata(VerilogTranslationPass.translated_filename)).read()
mods = re.findall(r'^module (\w+)', txt, re.M)
print('modules:', mods)
raise SystemExit(1 if len(mods) != len(set(mods)) else 0)
