from pymtl3 import *
@bitstruct
class Pt:
  x: Bits4
  y: Bits4
class Top( Component ):
  def construct( s ):
    s.a = InPort( Bits4 )
    s.q = OutPort( Bits1 )
    ks = Pt( 1, 2 )
    @update
    def up():
      s.q @= ks == Pt( s.a, 2 )
