import sys
from pymtl3 import *
from pymtl3.stdlib.mem import mk_mem_msg, MemMsgType
from pymtl3.stdlib.stream.magic_memory import MagicMemoryRTL
from pymtl3.stdlib.mem.MagicMemoryCL import MagicMemoryCL
Req, Resp = mk_mem_msg( 8, 32, 32 )
def run_rtl( reqs ):
  m = MagicMemoryRTL( 1, [(Req,Resp)] ); m.elaborate(); m.apply( DefaultPassGroup() ); m.sim_reset()
  m.write_mem( 0x10, bytearray([0x44,0x33,0x22,0x11]) )
  out = []
  m.ifc[0].resp.rdy @= 1
  for r in reqs + [None]*6:
    m.ifc[0].req.val @= 0
    if r is not None:
      m.ifc[0].req.val @= 1; m.ifc[0].req.msg @= r
    m.sim_tick()
    if m.ifc[0].resp.val: out.append( m.ifc[0].resp.msg.clone() )
  return out, bytes( m.read_mem( 0x10, 4 ) )
bad = 0
for op, f in [(MemMsgType.AMO_ADD, lambda m,a,w: (m+a) % (1<<w)), (MemMsgType.AMO_SWAP, lambda m,a,w: a), (MemMsgType.AMO_MAXU, lambda m,a,w: max(m,a)), (MemMsgType.AMO_XOR, lambda m,a,w: m^a)]:
  for ln in (1,2,3,0):
    nb = ln or 4; w = 8*nb
    try:
      out, img = run_rtl( [ Req( op, 7, 0x10, ln, 0xA1B2C3F5 ) ] )
    except Exception as e:
      print( f"op={int(op)} len={ln}: raised {type(e).__name__}: {str(e)[:70]}" ); bad += 1; continue
    old = 0x11223344 & ((1<<w)-1); a = 0xA1B2C3F5 & ((1<<w)-1)
    new = f(old, a, w)
    exp_img = ((0x11223344 & ~((1<<w)-1)) | new).to_bytes(4,'little')
    if len(out)!=1 or int(out[0].data)!=old or int(out[0].opaque)!=7 or img!=exp_img:
      print( f"op={int(op)} len={ln}: got {out} img={img.hex()} expected old={old:#x} img={exp_img.hex()}" ); bad += 1
print( "violations:", bad ); sys.exit( 1 if bad else 0 )
