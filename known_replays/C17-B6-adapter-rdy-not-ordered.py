# Two same-cycle laws of the CL queues are lost behind an adapter, depending on how the scheduler breaks a tie
# (the order of unconstrained blocks follows set iteration order, so several elaborations are tried):
#  (1) NormalQueueCL fed through RecvFL2SendCL: the queue orders `up_pulse` before the callers of enq.rdy / deq.rdy, but a block
#      that reaches enq.rdy() through the adapter's blocking `recv` is not such a caller for the scheduler (the adapter declares
#      M(recv) == M(send) only, nothing for send.rdy).  Scheduled before up_pulse, its message is delivered in the cycle it was
#      enqueued -- the behaviour of a bypass queue (cf. seeded change C17-11).
#  (2) PipeQueueCL behind RecvRTL2SendCL: M(deq) < M(enq) orders the method enq, not enq.rdy; the adapter samples enq.rdy() in its
#      own block `up_recv_rtl_rdy`.  Scheduled before the consumer, a full pipe queue does not accept in the cycle of a dequeue.
from pymtl3 import *
from pymtl3.stdlib.ifcs import SendIfcFL, SendIfcRTL
from pymtl3.stdlib.queues import NormalQueueCL, PipeQueueCL

class ProdFL( Component ):
  def construct( s ):
    s.send = SendIfcFL()
    s.n = 0x10
    s.sent = None
    @update_once
    def up_prod_fl():
      s.send( Bits8( s.n ) ); s.sent = s.n; s.n += 1
class ConsCL( Component ):
  def construct( s ):
    s.get = CallerIfcCL()
    s.got = None
    @update_once
    def up_cons():
      s.got = int( s.get() ) if s.get.rdy() else None
class T1( Component ):
  def construct( s ):
    s.p = ProdFL(); s.q = NormalQueueCL( 2 ); s.c = ConsCL()
    connect( s.p.send, s.q.enq ); connect( s.c.get, s.q.deq )
seen = {}
for k in range(60):
  t = T1(); t.elaborate(); t.apply( DefaultPassGroup() ); t.sim_reset()
  order = [ f.__name__ for f in t._sched.update_schedule if f.__name__ in ('up_prod_fl', 'up_pulse', 'up_cons') ]
  same = 0
  for _ in range(6):
    t.p.sent = None
    t.sim_tick()
    same += ( t.c.got is not None and t.c.got == t.p.sent )
  seen.setdefault( tuple(order), same )
print("(1) NormalQueueCL behind RecvFL2SendCL: block order -> messages delivered in the cycle they were enqueued (of 6 cycles)")
for o, n in seen.items(): print("   ", o, "->", n)

class ProdRTL( Component ):
  def construct( s ):
    s.send = SendIfcRTL( Bits8 )
    @update
    def up_prod():
      s.send.msg @= 1
      s.send.en  @= s.send.rdy
class T2( Component ):
  def construct( s ):
    s.p = ProdRTL(); s.q = PipeQueueCL( 1 ); s.c = ConsCL()
    connect( s.p.send, s.q.enq ); connect( s.c.get, s.q.deq )
seen = {}
for k in range(60):
  t = T2(); t.elaborate(); t.apply( DefaultPassGroup() ); t.sim_reset()
  order = [ f.__name__ for f in t._sched.update_schedule if f.__name__ in ('up_recv_rtl_rdy', 'up_cons', 'up_send_cl') ]
  acc = 0
  for _ in range(8):
    t.sim_tick(); acc += int( t.p.send.en )
  seen.setdefault( tuple(order), acc )
print("(2) full PipeQueueCL(1) behind RecvRTL2SendCL, consumer dequeues every cycle: block order -> enqueues accepted in 8 cycles")
for o, n in seen.items(): print("   ", o, "->", n)
