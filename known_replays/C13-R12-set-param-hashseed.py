from pymtl3 import *
from pymtl3.passes.backends.verilog import VerilogTranslationPass
import os, tempfile
class Alu( Component ):
  def construct( s, ops ):
    s.a = InPort( 8 ); s.b = InPort( 8 ); s.out = OutPort( 8 )
    if 'add' in ops:
      s.out //= lambda: s.a + s.b
    else:
      s.out //= lambda: s.a - s.b
os.chdir(tempfile.mkdtemp())
t = Alu( frozenset({'add','sub','xor','and'}) ); t.elaborate()
t.set_metadata( VerilogTranslationPass.enable, True ); t.apply( VerilogTranslationPass() )
print( t.get_metadata( VerilogTranslationPass.translated_top_module ) )
