from pymtl3 import *
i = 2      # a module-level name that an update block also uses as its loop variable
class T( Component ):
  def construct( s ):
    s.a = InPort( Bits4 ); s.o = OutPort( Bits4 ); s.w = Wire( Bits4 )
    @update
    def up_w():
      s.w @= s.a
    @update
    def up_o():
      for i in range(4):
        s.o[i] @= s.w[i]
t = T(); t.elaborate()
rd = sorted(repr(x) for blk, r in t._dsl.all_upblk_reads.items() if blk.__name__ == 'up_o' for x in r)
wr = sorted(repr(x) for blk, r in t._dsl.all_upblk_writes.items() if blk.__name__ == 'up_o' for x in r)
print('reads', rd, 'writes', wr)
ok = ('s.w' in rd or len(rd) == 4) and ('s.o' in wr or len(wr) == 4)
raise SystemExit(0 if ok else 1)
