from pymtl3 import *
@bitstruct
class Foo:
  v: Bits4
  k: Bits8
class Top( Component ):
  def construct( s ):
    s.x = InPort( Bits4 )
    s.o = OutPort( Foo )
    s.q = OutPort( Bits1 )
    s.N = 3
    @update
    def up():
      s.o @= Foo( s.x, 2*s.N )
      s.q @= Foo( s.x, 2*s.N ) == Foo( s.x, 6 )
