from pymtl3 import *
from pymtl3.passes.backends.verilog import VerilogTranslationPass
from pymtl3.passes.backends.yosys import YosysTranslationPass
@bitstruct
class Pt:
  x: Bits8
  y: Bits8
@bitstruct
class Q:
  p: Pt
  z: Bits8
K = Q( Pt(1,2), 3 )
class T( Component ):
  def construct( s ):
    s.o = OutPort( Pt ); s.o2 = OutPort( 8 )
    @update
    def up():
      s.o @= K.p
      s.o2 @= K.p.y
import sys
for P in (VerilogTranslationPass, YosysTranslationPass):
  d = T(); d.elaborate(); d.set_metadata( P.enable, True )
  try:
    d.apply( P() )
    src = open( d.get_metadata( P.translated_filename ) ).read()
    print( src[ src.find("always_comb"): src.find("endmodule") ] )
  except Exception as e: print( P.__name__, "refused:", type(e).__name__, str(e)[-200:] )
d = T(); d.elaborate(); d.apply(DefaultPassGroup()); d.sim_reset(); d.sim_eval_combinational(); print(d.o, d.o2)
