from pymtl3 import *
from pymtl3.dsl.errors import MultiWriterError
i = 0
class T( Component ):
  def construct( s ):
    s.out = [ Wire(8) for _ in range(4) ]
    s.w = [ Wire(8) for _ in range(2) ]
    s.o = OutPort(8)
    @update
    def up():
      for i, v in enumerate([1,2,3,4]): s.out[i] @= v
    @update
    def up2(): s.out[2] @= 7
    @update
    def up_w1(): s.w[1] @= 3
    @update
    def up_w0(): s.w[0] @= 3
    @update
    def up_sum(): s.o @= sum([ s.w[i] for i in range(2) ])
t = T()
try:
  t.elaborate(); print("elaborated: two writers of s.out[2] not detected"); ok = False
except MultiWriterError as e:
  print("MultiWriterError raised"); ok = True
class T2( Component ):
  def construct( s ):
    s.w = [ Wire(8) for _ in range(2) ]
    s.o = OutPort(8)
    @update
    def up_w1(): s.w[1] @= 3
    @update
    def up_w0(): s.w[0] @= 3
    @update
    def up_sum(): s.o @= sum([ s.w[i] for i in range(2) ])
t = T2(); t.elaborate()
rd = sorted( repr(x) for x in t._dsl.all_upblk_reads[ [b for b in t._dsl.all_upblk_reads if b.__name__=='up_sum'][0] ] )
print( rd )
import sys; sys.exit( 0 if ok and rd == ['s.w[0]','s.w[1]'] else 1 )
