from pymtl3 import *
class A( Component ):
  def construct( s ):
    s.a = InPort( Bits8 ); s.t = Wire( Bits8 ); s.out = OutPort( Bits8 )
    @update
    def up_t(): s.t @= s.a + 1
    @update
    def up(): s.out @= s.a
class B( A ):
  def construct( s ):
    s.a = InPort( Bits8 ); s.t = Wire( Bits8 ); s.out = OutPort( Bits8 )
    @update
    def up_t(): s.t @= s.a + 1
    @update
    def up(): s.out @= s.t          # same block name as in A, other source
x = A(); x.elaborate()                # the parent class is used first
bad = 0
for k in range(8):
  y = B(); y.elaborate()
  rd = sorted(repr(o) for blk, r in y._dsl.all_upblk_reads.items() if blk.__name__ == 'up' for o in r)
  y.apply( DefaultPassGroup() ); y.sim_reset(); y.a @= 5; y.sim_eval_combinational()
  if rd != ['s.t'] or int(y.out) != 6: bad += 1
print('reads of B.up:', rd, 'out', int(y.out), 'bad runs', bad)
raise SystemExit(1 if bad else 0)
