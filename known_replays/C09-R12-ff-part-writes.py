from pymtl3 import *
def run(T, n=2):
  try:
    t = T(); t.elaborate()
  except Exception as e:
    return type(e).__name__
  t.apply(DefaultPassGroup()); t.sim_reset(); t.sel @= 1; t.d @= 0xff
  for _ in range(n): t.sim_tick()
  return f'elaborated; r={t.r} l={[int(x) for x in t.l]}'
class A(Component):     # direct: variable slice bounds
  def construct(s):
    s.sel = InPort(2); s.d = InPort(8); s.r = Wire(8); s.l = [Wire(8) for _ in range(2)]
    @update_ff
    def ff(): s.r[s.sel:s.sel+2] <<= s.d[0:2]
class A2(Component):    # direct: closure constant + 1 as bound (common idiom)
  def construct(s):
    s.sel = InPort(2); s.d = InPort(8); s.r = Wire(8); s.l = [Wire(8) for _ in range(2)]
    K = 2
    @update_ff
    def ff(): s.r[K:K+2] <<= s.d[0:2]
class A3(Component):    # loop variable bounds on list element
  def construct(s):
    s.sel = InPort(2); s.d = InPort(8); s.r = Wire(8); s.l = [Wire(8) for _ in range(2)]
    @update_ff
    def ff():
      for i in range(2): s.l[i][i*2:i*2+2] <<= s.d[0:2]
class B(Component):     # helper: constant bit
  def construct(s):
    s.sel = InPort(2); s.d = InPort(8); s.r = Wire(8); s.l = [Wire(8) for _ in range(2)]
    @s.func
    def h(): s.r[2] <<= s.d[0]
    @update_ff
    def ff(): h()
class B2(Component):     # helper: variable bit
  def construct(s):
    s.sel = InPort(2); s.d = InPort(8); s.r = Wire(8); s.l = [Wire(8) for _ in range(2)]
    @s.func
    def h(): s.r[s.sel] <<= s.d[0]
    @update_ff
    def ff(): h()
class C(Component):     # control: K:K2 both closure names -> constant slice -> rejected
  def construct(s):
    s.sel = InPort(2); s.d = InPort(8); s.r = Wire(8); s.l = [Wire(8) for _ in range(2)]
    K = 2; K2 = 4
    @update_ff
    def ff(): s.r[K:K2] <<= s.d[0:2]
for T in (A, A2, A3, B, B2, C): print(T.__name__, run(T))
