from pymtl3 import *
class Top( Component ):
  def construct( s ):
    s.a = InPort( Bits8 )
    s.o = OutPort( Bits8 )
    s.p = OutPort( Bits8 )
    s.OFF = -2
    @update
    def up():
      if s.OFF < 0:
        s.o @= s.a + 1
      else:
        s.o @= s.a
      s.p @= s.a
      for i in range( 4 ):
        if i == s.OFF + 3:
          s.p @= ~s.a
