from pymtl3 import *
GOFF = -3
class Top( Component ):
  def construct( s ):
    s.a = InPort( Bits8 )
    s.o = OutPort( Bits8 )
    k = -2
    @update
    def up():
      if k < 0:
        s.o @= s.a + 1
      else:
        s.o @= s.a
      if GOFF < k:
        s.o @= ~s.a
