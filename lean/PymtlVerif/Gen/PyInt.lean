import PymtlVerif.Proofs.Slice
/-!
# Python `int` operators on Lean `Int` (hand-written support of the generated file `Gen/BitsGen.lean`)

The translator `tools/py2lean_bits.py` renders Python int expressions with the functions below; this file is
the (trusted) statement of what the Python operators do on unbounded two's-complement integers, together with the
lemmas that connect them with the `Nat` arithmetic of `Model/Bits.lean`.

* `pyAnd / pyOr / pyXor` — bitwise operators on two's-complement integers, by the sign cases
  (`-[n+1]` is `~n`): e.g. `a & ~n = a AND NOT n`, `~m & ~n = ~(m | n)`.
* `pyNot a = -a - 1`, `pyShl a n = a * 2^n`, `pyShr a n = ⌊a / 2^n⌋` (the guard `n < 0 → ValueError` is emitted by
  the translator), `pyFloorDiv = Int.fdiv`, `pyMod = Int.fmod` (floor division; guard `b = 0` emitted by the translator).
* `idxOk len i` / `idx len i` — Python list indexing: valid for `-len ≤ i < len`, negative indices count from the end.
* `mkB n v` — the Bits object with `_nbits = n`, `_uint = v` as a value of the model type `B` (fields are `Nat`).
* `whileF` — a `while` loop with explicit fuel (`none` = fuel exhausted).
-/
namespace PV.PyInt
open PV.Bits

/-! ## definitions -/

/-- a Bits object with slots `_nbits = n`, `_uint = v` -/
def mkB (n v : Int) : B := ⟨n.toNat, v.toNat⟩

/-- `int(b)` of a Python bool -/
def b2i (p : Prop) [Decidable p] : Int := if p then 1 else 0

/-- `lst[i]` does not raise IndexError for a list of length `len` -/
def idxOk (len : Nat) (i : Int) : Prop := -(len : Int) ≤ i ∧ i < (len : Int)
instance (len : Nat) (i : Int) : Decidable (idxOk len i) := inferInstanceAs (Decidable (_ ∧ _))

/-- the position `lst[i]` reads -/
def idx (len : Nat) (i : Int) : Nat := if i < 0 then (i + (len : Int)).toNat else i.toNat

def pyNot (a : Int) : Int := -a - 1
def pyShl (a n : Int) : Int := a <<< n.toNat
def pyShr (a n : Int) : Int := a >>> n.toNat
def pyFloorDiv (a b : Int) : Int := Int.fdiv a b
def pyMod (a b : Int) : Int := Int.fmod a b
def pyAbs (a : Int) : Int := (a.natAbs : Int)

/-- `a AND NOT b` on naturals: remove from `a` the bits it shares with `b` -/
def natAndNot (a b : Nat) : Nat := a ^^^ (a &&& b)

def pyAnd : Int → Int → Int
  | .ofNat a, .ofNat b => Int.ofNat (a &&& b)
  | .ofNat a, .negSucc b => Int.ofNat (natAndNot a b)
  | .negSucc a, .ofNat b => Int.ofNat (natAndNot b a)
  | .negSucc a, .negSucc b => Int.negSucc (a ||| b)

def pyOr : Int → Int → Int
  | .ofNat a, .ofNat b => Int.ofNat (a ||| b)
  | .ofNat a, .negSucc b => Int.negSucc (natAndNot b a)
  | .negSucc a, .ofNat b => Int.negSucc (natAndNot a b)
  | .negSucc a, .negSucc b => Int.negSucc (a &&& b)

def pyXor : Int → Int → Int
  | .ofNat a, .ofNat b => Int.ofNat (a ^^^ b)
  | .ofNat a, .negSucc b => Int.negSucc (a ^^^ b)
  | .negSucc a, .ofNat b => Int.negSucc (a ^^^ b)
  | .negSucc a, .negSucc b => Int.ofNat (a ^^^ b)

/-- `int.bit_length()` (of the absolute value) -/
def pyBitLength (a : Int) : Int := if a.natAbs = 0 then 0 else ((Nat.log2 a.natAbs + 1 : Nat) : Int)

/-- `while cond(st): st = body(st)` with fuel -/
def whileF {σ : Type} (fuel : Nat) (cond : σ → Bool) (body : σ → σ) (s : σ) : Option σ :=
  match fuel with
  | 0 => none
  | f + 1 => if cond s then whileF f cond body (body s) else some s

/-! sanity: the operators on concrete two's-complement values (as CPython computes them) -/
example : pyAnd (-3) 12 = 12 ∧ pyAnd 12 (-3) = 12 ∧ pyAnd (-4) (-6) = -8 ∧ pyAnd 13 7 = 5 := by decide
example : pyOr (-3) 12 = -3 ∧ pyOr 12 (-16) = -4 ∧ pyOr (-4) (-6) = -2 ∧ pyOr 9 3 = 11 := by decide
example : pyXor (-3) 12 = -15 ∧ pyXor 12 (-3) = -15 ∧ pyXor (-4) (-6) = 6 ∧ pyXor 9 3 = 10 := by decide
example : pyNot 5 = -6 ∧ pyNot (-1) = 0 ∧ pyShl (-3) 2 = -12 ∧ pyShr (-5) 1 = -3 ∧ pyShr 5 1 = 2 := by decide
example : pyFloorDiv (-7) 2 = -4 ∧ pyMod (-7) 2 = 1 ∧ pyMod 7 (-2) = -1 ∧ pyFloorDiv 7 2 = 3 := by decide
example : pyBitLength 0 = 0 ∧ pyBitLength 1 = 1 ∧ pyBitLength 255 = 8 ∧ pyBitLength 256 = 9 ∧ pyBitLength (-5) = 3 := by decide
example : idx 4 (-1) = 3 ∧ idx 4 2 = 2 ∧ idxOk 4 (-4) ∧ ¬ idxOk 4 4 ∧ ¬ idxOk 4 (-5) := by decide

/-! ## lemmas: objects, indices -/

theorem mkB_natCast (n : Nat) (k : Int) : mkB (n : Int) k = ⟨n, k.toNat⟩ := by simp [mkB]

theorem mkB_zero (n : Nat) : mkB (n : Int) 0 = ⟨n, 0⟩ := by simp [mkB]

theorem mkB_one (k : Int) : mkB 1 k = ⟨1, k.toNat⟩ := by simp [mkB]

theorem idxOk_natCast {len n : Nat} (h : n < len) : idxOk len (n : Int) := by
  unfold idxOk; omega

theorem idx_natCast (len n : Nat) : idx len (n : Int) = n := by
  unfold idx; have : ¬ ((n : Int) < 0) := by omega
  simp [this]

theorem idx_of_nonneg (len : Nat) (i : Int) (h : 0 ≤ i) : idx len i = i.toNat := by
  unfold idx; have : ¬ (i < 0) := by omega
  simp [this]

theorem b2i_toNat (p : Prop) [Decidable p] : (b2i p).toNat = if p then 1 else 0 := by
  unfold b2i; split <;> simp

/-! ## lemmas: bitwise operators on non-negative operands -/

theorem pyAnd_natCast (a b : Nat) : pyAnd (a : Int) (b : Int) = ((a &&& b : Nat) : Int) := rfl
theorem pyOr_natCast (a b : Nat) : pyOr (a : Int) (b : Int) = ((a ||| b : Nat) : Int) := rfl
theorem pyXor_natCast (a b : Nat) : pyXor (a : Int) (b : Int) = ((a ^^^ b : Nat) : Int) := rfl

theorem pyNot_natCast (m : Nat) : pyNot (m : Int) = Int.negSucc m := by
  unfold pyNot; omega

theorem pyAnd_natCast_not (a m : Nat) : pyAnd (a : Int) (pyNot (m : Int)) = ((natAndNot a m : Nat) : Int) := by
  rw [pyNot_natCast]; rfl

theorem testBit_natAndNot (a b i : Nat) : (natAndNot a b).testBit i = (a.testBit i && !b.testBit i) := by
  unfold natAndNot; rw [Nat.testBit_xor, Nat.testBit_and]
  cases a.testBit i <;> cases b.testBit i <;> rfl

theorem pyShl_natCast (a n : Nat) : pyShl (a : Int) (n : Int) = ((a <<< n : Nat) : Int) := by
  simp [pyShl]

theorem pyShl_natCast' (a : Int) (n : Nat) : pyShl a (n : Int) = a * 2 ^ n := by
  simp [pyShl, Int.shiftLeft_eq]

theorem pyShr_natCast (a n : Nat) : pyShr (a : Int) (n : Int) = ((a >>> n : Nat) : Int) := by
  simp [pyShr]

theorem pyFloorDiv_natCast (a b : Nat) : pyFloorDiv (a : Int) (b : Int) = ((a / b : Nat) : Int) := by
  unfold pyFloorDiv
  rw [Int.fdiv_eq_ediv_of_nonneg _ (by omega)]; simp

theorem pyMod_natCast (a b : Nat) : pyMod (a : Int) (b : Int) = ((a % b : Nat) : Int) := by
  unfold pyMod
  rw [Int.fmod_eq_emod_of_nonneg _ (by omega)]; simp

theorem pyAbs_gt_one (k : Int) : (pyAbs k > 1) ↔ (k.natAbs > 1) := by
  unfold pyAbs; omega

/-! ## `k & (2^n - 1)` is `k mod 2^n`, for every integer `k` -/

theorem natAndNot_mask (a n : Nat) : natAndNot (2 ^ n - 1) a = 2 ^ n - 1 - a % 2 ^ n := by
  apply Nat.eq_of_testBit_eq
  intro i
  rw [testBit_natAndNot, Nat.testBit_two_pow_sub_one]
  have hlt : a % 2 ^ n < 2 ^ n := Nat.mod_lt _ (Nat.two_pow_pos n)
  have e : 2 ^ n - 1 - a % 2 ^ n = 2 ^ n - (a % 2 ^ n + 1) := by omega
  rw [e, Nat.testBit_two_pow_sub_succ hlt, Nat.testBit_mod_two_pow]
  by_cases h : i < n <;> simp [h]

theorem pyAnd_upper (k : Int) (n : Nat) : pyAnd k ((upper n : Nat) : Int) = ((maskInt n k : Nat) : Int) := by
  unfold upper
  cases k with
  | ofNat a =>
    show ((a &&& (2 ^ n - 1) : Nat) : Int) = _
    rw [Nat.and_two_pow_sub_one_eq_mod]
    have : Int.ofNat a = (a : Int) := rfl
    rw [this, maskInt_natCast]
  | negSucc a =>
    show ((natAndNot (2 ^ n - 1) a : Nat) : Int) = _
    rw [natAndNot_mask]
    have hlt : a % 2 ^ n < 2 ^ n := Nat.mod_lt _ (Nat.two_pow_pos n)
    have hp : (0 : Int) < 2 ^ n := Int.pow_pos (by decide)
    congr 1
    unfold maskInt
    have e : Int.negSucc a % (2 ^ n : Int) = ((2 ^ n - 1 - a % 2 ^ n : Nat) : Int) := by
      have hd : (a : Int) = ((a % 2 ^ n : Nat) : Int) + (2 ^ n : Int) * ((a / 2 ^ n : Nat) : Int) := by
        have := (Nat.mod_add_div a (2 ^ n)).symm
        exact_mod_cast this
      have h2 : ((2 ^ n : Nat) : Int) = (2 : Int) ^ n := by simp
      have hk : Int.negSucc a = ((2 ^ n - 1 - a % 2 ^ n : Nat) : Int) + (2 ^ n : Int) * (-((a / 2 ^ n : Nat) : Int) - 1) := by
        rw [Int.negSucc_eq, Int.mul_sub, Int.mul_neg, Int.mul_one]
        omega
      rw [hk, Int.add_mul_emod_self_left, Int.emod_eq_of_lt (by omega) (by omega)]
    rw [e, Int.toNat_natCast]


/-! ## lemmas at the level of the constructed object (results stay in `Nat`) -/

theorem mkB_pyAnd_upper (n : Nat) (k : Int) : mkB (n : Int) (pyAnd k ((upper n : Nat) : Int)) = ⟨n, maskInt n k⟩ := by
  rw [pyAnd_upper, mkB_natCast, Int.toNat_natCast]

theorem toNat_pyAnd_upper (n : Nat) (k : Int) : (pyAnd k ((upper n : Nat) : Int)).toNat = maskInt n k := by
  rw [pyAnd_upper, Int.toNat_natCast]

theorem mkB_pyAnd (n a b : Nat) : mkB (n : Int) (pyAnd (a : Int) (b : Int)) = ⟨n, a &&& b⟩ := by
  rw [pyAnd_natCast, mkB_natCast, Int.toNat_natCast]
theorem mkB_pyOr (n a b : Nat) : mkB (n : Int) (pyOr (a : Int) (b : Int)) = ⟨n, a ||| b⟩ := by
  rw [pyOr_natCast, mkB_natCast, Int.toNat_natCast]
theorem mkB_pyXor (n a b : Nat) : mkB (n : Int) (pyXor (a : Int) (b : Int)) = ⟨n, a ^^^ b⟩ := by
  rw [pyXor_natCast, mkB_natCast, Int.toNat_natCast]
theorem mkB_pyFloorDiv (n a b : Nat) : mkB (n : Int) (pyFloorDiv (a : Int) (b : Int)) = ⟨n, a / b⟩ := by
  rw [pyFloorDiv_natCast, mkB_natCast, Int.toNat_natCast]
theorem mkB_pyMod (n a b : Nat) : mkB (n : Int) (pyMod (a : Int) (b : Int)) = ⟨n, a % b⟩ := by
  rw [pyMod_natCast, mkB_natCast, Int.toNat_natCast]
theorem mkB_pyShr (n a b : Nat) : mkB (n : Int) (pyShr (a : Int) (b : Int)) = ⟨n, a >>> b⟩ := by
  rw [pyShr_natCast, mkB_natCast, Int.toNat_natCast]

theorem maskInt_add_natCast (n a b : Nat) : maskInt n ((a : Int) + (b : Int)) = (a + b) % 2 ^ n := by
  rw [← Int.natCast_add, maskInt_natCast]
theorem maskInt_mul_natCast (n a b : Nat) : maskInt n ((a : Int) * (b : Int)) = (a * b) % 2 ^ n := by
  rw [← Int.natCast_mul, maskInt_natCast]
theorem maskInt_pyFloorDiv (n a b : Nat) : maskInt n (pyFloorDiv (a : Int) (b : Int)) = (a / b) % 2 ^ n := by
  rw [pyFloorDiv_natCast, maskInt_natCast]
theorem maskInt_pyMod (n a b : Nat) : maskInt n (pyMod (a : Int) (b : Int)) = (a % b) % 2 ^ n := by
  rw [pyMod_natCast, maskInt_natCast]
theorem maskInt_pyShl (n a b : Nat) : maskInt n (pyShl (a : Int) (b : Int)) = (a <<< b) % 2 ^ n := by
  rw [pyShl_natCast, maskInt_natCast]
theorem maskInt_pyNot (n a : Nat) : maskInt n (pyNot (a : Int)) = maskInt n (-(a : Int) - 1) := rfl

theorem mkB_b2i (p : Prop) [Decidable p] : mkB 1 (b2i p) = ⟨1, if p then 1 else 0⟩ := by
  rw [mkB_one, b2i_toNat]


/-! ## writing a field: `(sv & ~((1 << b) - (1 << a))) | (w << a)` is `pokeRaw` -/

theorem testBit_two_pow_sub_two_pow (a b i : Nat) (h : a ≤ b) :
    (2 ^ b - 2 ^ a).testBit i = (decide (a ≤ i) && decide (i < b)) := by
  have e : 2 ^ b - 2 ^ a = (2 ^ (b - a) - 1) * 2 ^ a := by
    rw [Nat.sub_mul, ← Nat.pow_add, Nat.sub_add_cancel h]; simp
  rw [e, Nat.testBit_mul_two_pow, Nat.testBit_two_pow_sub_one]
  by_cases h1 : a ≤ i <;> by_cases h2 : i < b <;> simp [h1, h2] <;> omega

theorem poke_nat (sv a b w : Nat) (hab : a ≤ b) (hw : w < 2 ^ (b - a)) :
    natAndNot sv (2 ^ b - 2 ^ a) ||| (w <<< a) = pokeRaw sv a b w := by
  apply Nat.eq_of_testBit_eq
  intro i
  rw [Nat.testBit_or, testBit_natAndNot, testBit_two_pow_sub_two_pow _ _ _ hab, Nat.testBit_shiftLeft,
      testBit_pokeRaw sv a b w i hab hw]
  by_cases h1 : a ≤ i <;> by_cases h2 : i < b <;> simp [h1, h2]
  have : w.testBit (i - a) = false :=
    Nat.testBit_lt_two_pow (Nat.lt_of_lt_of_le hw (Nat.pow_le_pow_right (by decide) (by omega)))
  simp [this]

theorem poke_int (sv a b w : Nat) (hab : a ≤ b) (hw : w < 2 ^ (b - a)) :
    pyOr (pyAnd (sv : Int) (pyNot (pyShl 1 (b : Int) - pyShl 1 (a : Int)))) (pyShl (w : Int) (a : Int))
      = ((pokeRaw sv a b w : Nat) : Int) := by
  have hp : 2 ^ a ≤ 2 ^ b := Nat.pow_le_pow_right (by decide) hab
  have e1 : pyShl 1 (b : Int) - pyShl 1 (a : Int) = ((2 ^ b - 2 ^ a : Nat) : Int) := by
    rw [pyShl_natCast', pyShl_natCast']
    have c1 : ((2 ^ a : Nat) : Int) = (2 : Int) ^ a := by simp
    have c2 : ((2 ^ b : Nat) : Int) = (2 : Int) ^ b := by simp
    omega
  rw [e1, pyAnd_natCast_not, pyShl_natCast, pyOr_natCast, poke_nat _ _ _ _ hab hw]

theorem poke1_int (sv j w : Nat) (hw : w < 2) :
    pyOr (pyAnd (sv : Int) (pyNot (pyShl 1 (j : Int)))) (pyShl (w : Int) (j : Int))
      = ((pokeRaw sv j (j + 1) w : Nat) : Int) := by
  have e : pyShl 1 (j : Int) = pyShl 1 ((j + 1 : Nat) : Int) - pyShl 1 (j : Int) := by
    rw [pyShl_natCast', pyShl_natCast', Int.pow_succ]; omega
  rw [e, poke_int sv j (j + 1) w (by omega) (by simpa using hw)]

theorem pyAnd_one (k : Int) : pyAnd k 1 = ((maskInt 1 k : Nat) : Int) := by
  have := pyAnd_upper k 1
  simpa [upper] using this

end PV.PyInt
