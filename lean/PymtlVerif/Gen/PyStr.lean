import PymtlVerif.Gen.PyMem
/-!
# Python strings as character-code lists, raising computations and generators
(hand-written support of the generated file `Gen/VcdSymGen.lean`, translator `tools/py2lean_vcdsym.py`)

* A Python `str` is rendered as the list of its character codes (`Str = List Nat`); `s[i]` is the one-character string
  `charAt s i` (IndexError outside `-len ≤ i < len`, negative indices count from the end: `PyInt.idxOk / idx`),
  `a + b` is `++`, `''.join([chr(i) for i in range(a, b)])` is `chrRange a b`, `len(s)` is `s.length`.
* `R α`: a computation that returns (`ok a`), raises (`raise e`) or runs out of loop fuel (`nofuel`);
  `whileR` is `while cond(st): st = body(st)` in this monad.
* A generator of the shape `<prologue>; while True: <body with one yield>` is rendered as its step function
  `counter state ↦ (yielded value, state at the next pass)`; `genState step init k` is the state before the k-th
  `next()` (k = 0 first) and `genNth step init k` the value that call yields.
-/
namespace PV.PyStr
open PV.Bits (Err)
open PV.PyInt PV.PyMem

abbrev Str := List Nat

/-- a computation that may raise or run out of loop fuel -/
inductive R (α : Type) where
  | ok (a : α)
  | raise (e : Err)
  | nofuel
deriving Repr, DecidableEq
export R (ok raise nofuel)

def bindR {α β : Type} (x : R α) (f : α → R β) : R β :=
  match x with
  | .nofuel => .nofuel
  | .raise e => .raise e
  | .ok a => f a

instance : Monad R where
  pure := R.ok
  bind := bindR

@[simp] theorem bind_ok {α β : Type} (a : α) (f : α → R β) : ((R.ok a : R α) >>= f) = f a := rfl
@[simp] theorem bindR_ok {α β : Type} (a : α) (f : α → R β) : bindR (R.ok a) f = f a := rfl
@[simp] theorem pure_eq_ok {α : Type} (a : α) : (pure a : R α) = R.ok a := rfl

/-- `''.join([chr(i) for i in range(a, b)])` -/
def chrRange (a b : Int) : Str := List.range' a.toNat (b.toNat - a.toNat)

/-- `s[i]` for a string `s`: a one-character string -/
def charAt (s : Str) (i : Int) : R Str :=
  if idxOk s.length i then ok [s.getD (idx s.length i) 0] else raise .index

/-- the guard of `//`, `%`, `divmod` -/
def nonzero (b : Int) : R Unit := if b = 0 then raise .zerodiv else ok ()

/-- `while cond(st): st = body(st)` with fuel, body may raise -/
def whileR {σ : Type} (fuel : Nat) (cond : σ → Bool) (body : σ → R σ) (s : σ) : R σ :=
  match fuel with
  | 0 => nofuel
  | f + 1 => if cond s then bindR (body s) (whileR f cond body) else ok s

/-- state of a generator before its k-th `next()` -/
def genState {σ α : Type} (step : σ → R (α × σ)) (init : σ) : Nat → R σ
  | 0 => ok init
  | k + 1 => bindR (genState step init k) (fun s => bindR (step s) (fun r => ok r.2))

/-- the value the k-th `next()` yields (k = 0 first) -/
def genNth {σ α : Type} (step : σ → R (α × σ)) (init : σ) (k : Nat) : R α :=
  bindR (genState step init k) (fun s => bindR (step s) (fun r => ok r.1))

example : chrRange 33 36 = [33, 34, 35] := by decide
example : charAt [65, 66, 67] (-1) = ok [67] ∧ charAt [65, 66, 67] 3 = raise .index := by decide
example : genNth (fun (n : Nat) => ok (n * n, n + 1)) 0 4 = ok 16 := by decide

end PV.PyStr
