import PymtlVerif.Gen.PyInt
/-!
# Python `bytearray`s and raising loops (hand-written support of the generated file `Gen/MemGen.lean`)

A Python `bytearray` `arr` is rendered by the translator as its length `arr_len : Nat` and its element function
`arr : Nat → Nat` (element i of the object is `arr i` for `i < arr_len`; item assignment never changes the length).
`arr[i]` is `arr (idx arr_len i)` behind the guard `idxOk arr_len i` (`PyInt.idxOk / idx`: Python list indexing,
negative indices count from the end), `arr[i] = v` is `arrSet arr (idx arr_len i) v` behind the same guard and
`0 ≤ v ≤ 255`.

`whileM` is `while cond(st): st = body(st)` where the body may raise: `none` = fuel exhausted,
`some (.error e)` = the body raised `e`, `some (.ok st)` = the loop ended in state `st`.
-/
namespace PV.PyMem
open PV.Bits

/-- `arr[i] = v` on the element function -/
def arrSet (arr : Nat → Nat) (i v : Nat) : Nat → Nat := fun j => if j = i then v else arr j

def whileM {σ : Type} (fuel : Nat) (cond : σ → Bool) (body : σ → Except Err σ) (s : σ) : Option (Except Err σ) :=
  match fuel with
  | 0 => none
  | f + 1 =>
    if cond s then
      match body s with
      | .error e => some (.error e)
      | .ok s' => whileM f cond body s'
    else some (.ok s)

theorem whileM_step {σ : Type} (f : Nat) (cond : σ → Bool) (body : σ → Except Err σ) (s s' : σ)
    (hc : cond s = true) (hb : body s = .ok s') : whileM (f + 1) cond body s = whileM f cond body s' := by
  simp [whileM, hc, hb]

theorem whileM_done {σ : Type} (f : Nat) (cond : σ → Bool) (body : σ → Except Err σ) (s : σ)
    (hc : cond s = false) : whileM (f + 1) cond body s = some (.ok s) := by
  simp [whileM, hc]

example : arrSet (fun _ => 0) 3 7 3 = 7 ∧ arrSet (fun _ => 0) 3 7 4 = 0 := by decide
example : whileM 5 (fun (s : Nat) => decide (s < 3)) (fun s => .ok (s + 1)) 0 = some (.ok 3) := by decide
example : whileM 2 (fun (s : Nat) => decide (s < 3)) (fun s => .ok (s + 1)) 0 = none := by decide
example : whileM 5 (fun (s : Nat) => decide (s < 3)) (fun s => if s = 1 then .error .index else .ok (s + 1)) 0
    = some (.error .index) := by decide

end PV.PyMem
