import PymtlVerif.Proofs.SccCond
import PymtlVerif.Proofs.SccTopo
/-!
Assembly of the Kosaraju / SCC-schedule proofs (`SccGraph`, `SccDfs`, `SccBfs`, `SccCond`, `SccTopo`) into the
statements used by `Props/C11s.lean`.
-/
namespace PV.Scc
open PV.Kahn

/-! ## partition -/

theorem flatten_nodup : ∀ (L : List (List Nat)), (∀ l ∈ L, l.Nodup) → L.Pairwise (fun a b => ∀ x ∈ a, x ∉ b) → L.flatten.Nodup := by
  intro L
  induction L with
  | nil => intro _ _; simp
  | cons a L ih =>
    intro hnd hp
    obtain ⟨h1, h2⟩ := List.pairwise_cons.mp hp
    rw [List.flatten_cons, List.nodup_append]
    refine ⟨hnd a List.mem_cons_self, ih (fun l hl => hnd l (List.mem_cons_of_mem _ hl)) h2, ?_⟩
    intro x hx y hy hxy
    subst hxy
    obtain ⟨l, hl, hxl⟩ := List.mem_flatten.mp hy
    exact h1 l hl x hx hxl

theorem KosFacts.partition {G GT : Graph} {V : List Nat} {k : Kos} (f : KosFacts G V k) (wf : WF G GT V) :
    (∀ g ∈ k.sccs, g ≠ []) ∧ k.sccs.flatten.Nodup ∧ ∀ x, x ∈ k.sccs.flatten ↔ x ∈ V := by
  refine ⟨?_, ?_, ?_⟩
  · intro g hg hnil
    obtain ⟨r, _, hr⟩ := f.comp g hg
    have := (hr r).mpr (Mutual.refl G r)
    rw [hnil] at this; simp at this
  · apply flatten_nodup _ f.nodup
    rw [List.pairwise_iff_getElem]
    intro i j hi hj hij x hx hx'
    have := f.disj i j _ _ (List.getElem?_eq_getElem hi) (List.getElem?_eq_getElem hj) x hx hx'
    omega
  · intro x
    rw [List.mem_flatten]
    constructor
    · rintro ⟨g, hg, hx⟩
      obtain ⟨r, hrV, hr⟩ := f.comp g hg
      exact mutual_mem wf ((hr x).mp hx) hrV
    · intro hx
      obtain ⟨g, hg, hxg⟩ := f.vscc_mem x hx
      exact ⟨g, List.mem_of_getElem? hg, hxg⟩

/-! ## strongly connected, inside the group -/

theorem mutual_path_to {G : Graph} {r : Nat} : ∀ {a x : Nat}, Reach G a x → Reach G r a → Reach G x r →
    RA G (fun y => Mutual G y r) a x := by
  intro a x h
  unfold Reach at h
  induction h with
  | refl _ => intro h1 h2; exact .refl ⟨h2, h1⟩
  | @head a b c _ he h ih =>
    intro h1 h2
    have hab : Reach G a b := Reach.edge he
    exact .head ⟨hab.trans ((RA.toReach h).trans h2), h1⟩ he (ih (h1.trans hab) h2)

theorem KosFacts.strongly {G : Graph} {V : List Nat} {k : Kos} (f : KosFacts G V k) {g : List Nat} (hg : g ∈ k.sccs)
    {x y : Nat} (hx : x ∈ g) (hy : y ∈ g) : RA G (fun z => z ∈ g) x y := by
  obtain ⟨r, _, hr⟩ := f.comp g hg
  have mx := (hr x).mp hx
  have my := (hr y).mp hy
  have p1 : RA G (fun z => Mutual G z r) x r := mutual_path mx.1 mx.2
  have p2 : RA G (fun z => Mutual G z r) r y := mutual_path_to my.2 (Reach.refl G r) my.1
  exact (p1.trans p2).mono (fun z hz => (hr z).mpr hz)

/-! ## the condensation handed to the sort -/

theorem cond_kosaraju {G GT : Graph} {V : List Nat} (wf : WF G GT V) (gn' : Graph)
    (hsame : ∀ i, (gn' i).Nodup ∧ ∀ j, j ∈ gn' i ↔ j ∈ (kosaraju G GT V).gn i) :
    Cond gn' (kosaraju G GT V).sccs.length := by
  refine ⟨fun i _ => (hsame i).1, ?_⟩
  intro i _ j hj
  exact gnew_increasing wf (((hsame i).2 j).mp hj)

theorem cond_kosaraju_self {G GT : Graph} {V : List Nat} (wf : WF G GT V) :
    Cond (kosaraju G GT V).gn (kosaraju G GT V).sccs.length :=
  cond_kosaraju wf _ (fun i => ⟨(gnew_spec G V (kosaraju G GT V).vmap).1 i, fun _ => Iff.rfl⟩)

/-- paths of an increasing graph go upwards: the condensation has no cycle -/
theorem reach_le {gn : Graph} {n : Nat} (hc : Cond gn n) {i j : Nat} (h : Reach gn i j) (hi : i < n) : i ≤ j := by
  unfold Reach at h
  induction h with
  | refl _ => exact Nat.le_refl _
  | @head a b c _ he _ ih =>
    obtain ⟨h1, h2⟩ := hc.inc a hi b he
    have := ih h2
    omega

/-! ## the schedule -/

theorem good_pairwise {E : List (Nat × Nat)} : ∀ (done : List Nat), Good E done →
    done.Pairwise (fun a b => a ≠ b ∧ (a, b) ∉ E) := by
  intro done
  induction done with
  | nil => intro _; exact List.Pairwise.nil
  | cons v done ih =>
    intro hg
    obtain ⟨hv, _, hg'⟩ := hg
    refine List.pairwise_cons.mpr ⟨?_, ih hg'⟩
    intro x hx
    refine ⟨fun h => hv (h ▸ hx), ?_⟩
    intro he
    exact hv (good_closed done hg' (v, x) he hx)

/-- everything about `scc_schedule`, for every worklist discipline and every iteration order of the sets `G_new[i]` -/
theorem schedule_facts {gn : Graph} {n : Nat} (hc : Cond gn n) (pick : List Nat → List Nat → Nat) :
    (topo pick gn n).done = true ∧
    (sccSchedule pick gn n).Nodup ∧ (∀ i, i ∈ sccSchedule pick gn n ↔ i < n) ∧ (sccSchedule pick gn n).length = n ∧
    (sccSchedule pick gn n).Pairwise (fun i j => i ≠ j ∧ i ∉ gn j) ∧
    (∀ i j, i < n → j ∈ gn i → ∃ pre post, sccSchedule pick gn n = pre ++ i :: post ∧ j ∈ post) ∧
    (∀ v u, (topo pick gn n).pred.lookup v = some (some u) → v ∈ gn u ∧
      ∃ pre post, sccSchedule pick gn n = pre ++ u :: post ∧ v ∈ post) := by
  obtain ⟨inv, hdone⟩ := topo_final hc pick n (Nat.le_refl _)
  have hall := topo_complete hc _ inv hdone
  change TInv gn n (topo pick gn n) at inv
  change ∀ v, v < n → v ∈ sccSchedule pick gn n at hall
  have hnd : (sccSchedule pick gn n).Nodup := nodup_of_reverse (good_nodup _ _ inv.good)
  have hmem : ∀ i, i ∈ sccSchedule pick gn n ↔ i < n := fun i => ⟨inv.lt i, hall i⟩
  have horder : ∀ i j, i < n → j ∈ gn i → ∃ pre post, sccSchedule pick gn n = pre ++ i :: post ∧ j ∈ post := by
    intro i j hi hj
    have hjn := (hc.inc i hi j hj).2
    obtain ⟨pre, post, hpp, hin⟩ := good_order _ _ inv.good (i, j) (mem_condEdgeList.mpr ⟨hi, hj⟩)
      (List.mem_reverse.mpr (hall j hjn))
    obtain ⟨p1, p2, hp12⟩ := List.append_of_mem hin
    refine ⟨p2.reverse, p1.reverse ++ j :: pre.reverse, ?_, by simp⟩
    have : sccSchedule pick gn n = ((topo pick gn n).out.reverse).reverse := by simp [sccSchedule]
    rw [this, hpp, hp12]
    simp [List.reverse_append]
  refine ⟨hdone, hnd, hmem, ?_, ?_, horder, ?_⟩
  · have h1 : (sccSchedule pick gn n).length ≤ n := by
      simpa using List.Nodup.length_le_of_subset hnd (fun x hx => List.mem_range.mpr ((hmem x).mp hx))
    have h2 : n ≤ (sccSchedule pick gn n).length := by
      simpa using List.Nodup.length_le_of_subset (List.nodup_range (n := n)) (fun x hx => (hmem x).mpr (List.mem_range.mp hx))
    omega
  · have := good_pairwise _ inv.good
    rw [List.pairwise_reverse] at this
    refine this.imp_of_mem ?_
    intro i j _ hj h
    refine ⟨fun e => h.1 e.symm, ?_⟩
    intro hin
    exact h.2 (mem_condEdgeList.mpr ⟨inv.lt j hj, hin⟩)
  · intro v u hl
    obtain ⟨hu, hv, _⟩ := inv.pred v u hl
    exact ⟨hv, horder u v hu hv⟩

/-- the block order obtained by expanding the schedule, each group in any internal order `perm` -/
theorem expand_order {sccs : List (List Nat)} {sched : List Nat} (perm : List Nat → List Nat)
    (hperm : ∀ g x, x ∈ perm g ↔ x ∈ g) {i j u v : Nat} {gi gj : List Nat}
    (hgi : sccs[i]? = some gi) (hgj : sccs[j]? = some gj) (hu : u ∈ gi) (hv : v ∈ gj)
    (hs : ∃ pre post, sched = pre ++ i :: post ∧ j ∈ post) :
    ∃ pre post, sched.flatMap (fun i => perm (sccs.getD i [])) = pre ++ u :: post ∧ v ∈ post := by
  obtain ⟨pre, post, rfl, hj⟩ := hs
  have e1 : sccs.getD i [] = gi := by rw [List.getD_eq_getElem?_getD, hgi]; rfl
  have e2 : sccs.getD j [] = gj := by rw [List.getD_eq_getElem?_getD, hgj]; rfl
  obtain ⟨a, b, hab⟩ := List.append_of_mem ((hperm gi u).mpr hu)
  refine ⟨pre.flatMap (fun i => perm (sccs.getD i [])) ++ a, b ++ post.flatMap (fun i => perm (sccs.getD i [])), ?_, ?_⟩
  · simp only [List.flatMap_append, List.flatMap_cons, e1, hab, List.append_assoc, List.cons_append]
  · apply List.mem_append_right
    rw [List.mem_flatMap]
    exact ⟨j, hj, by rw [e2]; exact (hperm gj v).mpr hv⟩

end PV.Scc
