import PymtlVerif.Proofs.VCD
/-!
Lemmas about the net table of `Model/VCD.lean` (`trimNet`, `trimLoop`, `mapNets`, `declare`, `declareAll`,
`netTable`): what the trimming loop keeps, where it puts the clock index, what the declaration walk adds.
Used by `Props/C16n.lean`.
-/
namespace PV.VCD

/-- what is left of the input nets: per net the whole signals, nets with nothing left removed -/
def keptOf (nets : List (List Member)) : List (List Member) :=
  (nets.map (·.filter Member.top)).filter (· ≠ [])

theorem keptOf_nil : keptOf [] = [] := rfl

theorem keptOf_cons (n : List Member) (ns : List (List Member)) :
    keptOf (n :: ns) = if n.filter Member.top = [] then keptOf ns else n.filter Member.top :: keptOf ns := by
  unfold keptOf
  by_cases h : n.filter Member.top = [] <;> simp [h]

theorem keptOf_append (a b : List (List Member)) : keptOf (a ++ b) = keptOf a ++ keptOf b := by
  simp [keptOf]

theorem mem_keptOf {k : List Member} {nets : List (List Member)} (h : k ∈ keptOf nets) :
    k ≠ [] ∧ ∃ n ∈ nets, k = n.filter Member.top := by
  unfold keptOf at h
  simp only [List.mem_filter, List.mem_map, decide_eq_true_eq] at h
  obtain ⟨⟨n, hn, rfl⟩, hne⟩ := h
  exact ⟨hne, n, hn, rfl⟩

/-! ### `trimNet` -/

theorem clk_top : Member.clk.top = true := rfl

theorem trimNet_filter (nk : Nat) (xs : List Member) (c : Option Nat) (nn : List Member) (c' : Option Nat)
    (h : trimNet nk xs c = some (nn, c')) : nn = xs.filter Member.top := by
  induction xs generalizing c nn c' with
  | nil => simp [trimNet] at h; simp [h.1]
  | cons x xs ih =>
    unfold trimNet at h
    by_cases ht : x.top = true
    · simp only [ht, if_true] at h
      by_cases hc : x = Member.clk
      · simp only [hc, if_true] at h
        cases c with
        | some _ => simp at h
        | none =>
          simp only [Option.map_eq_some_iff] at h
          obtain ⟨r, hr, hrr⟩ := h
          have := ih (some nk) r.1 r.2 (by simpa using hr)
          simp only [Prod.mk.injEq] at hrr
          rw [← hrr.1, this, hc]
          exact (List.filter_cons_of_pos rfl).symm
      · simp only [hc, if_false] at h
        simp only [Option.map_eq_some_iff] at h
        obtain ⟨r, hr, hrr⟩ := h
        have := ih c r.1 r.2 (by simpa using hr)
        simp only [Prod.mk.injEq] at hrr
        rw [← hrr.1, this]
        exact (List.filter_cons_of_pos ht).symm
    · have ht' : x.top = false := by simpa using ht
      simp only [ht', Bool.false_eq_true, if_false] at h
      have := ih c nn c' h
      rw [this]; simp [ht']

theorem trimNet_noclk (nk : Nat) (xs : List Member) (c : Option Nat) (h : Member.clk ∉ xs) :
    trimNet nk xs c = some (xs.filter Member.top, c) := by
  induction xs with
  | nil => simp [trimNet]
  | cons x xs ih =>
    have hx : x ≠ Member.clk := fun e => h (by simp [e])
    have hxs : Member.clk ∉ xs := fun e => h (by simp [e])
    unfold trimNet
    by_cases ht : x.top = true
    · simp [ht, hx, ih hxs]
    · simp [ht, ih hxs]

theorem trimNet_clk (nk : Nat) (xs : List Member) (h : xs.count Member.clk = 1) :
    trimNet nk xs none = some (xs.filter Member.top, some nk) := by
  induction xs with
  | nil => simp at h
  | cons x xs ih =>
    unfold trimNet
    by_cases hc : x = Member.clk
    · subst hc
      have h0 : xs.count Member.clk = 0 := by simpa [List.count_cons] using h
      have hn : Member.clk ∉ xs := List.count_eq_zero.mp h0
      have hf : List.filter Member.top (Member.clk :: xs) = Member.clk :: List.filter Member.top xs :=
        List.filter_cons_of_pos rfl
      simp [clk_top, trimNet_noclk nk xs (some nk) hn, hf]
    · have h1 : xs.count Member.clk = 1 := by
        rw [List.count_cons] at h
        have : (x == Member.clk) = false := by simpa using hc
        simpa [this] using h
      by_cases ht : x.top = true
      · simp [ht, hc, ih h1]
      · simp [ht, ih h1]

/-- a second `s.clk` trips the assertion -/
theorem trimNet_assert (nk : Nat) (xs : List Member) (j : Nat) (h : Member.clk ∈ xs) :
    trimNet nk xs (some j) = none := by
  induction xs with
  | nil => simp at h
  | cons x xs ih =>
    unfold trimNet
    by_cases hc : x = Member.clk
    · subst hc; simp [Member.top]
    · have hm : Member.clk ∈ xs := by
        rcases List.mem_cons.mp h with e | e
        · exact absurd e.symm hc
        · exact e
      by_cases ht : x.top = true
      · simp [ht, hc, ih hm]
      · simp [ht, ih hm]

/-! ### `trimLoop` -/

theorem trimLoop_kept (nets kept : List (List Member)) (c : Option Nat) (k : List (List Member)) (c' : Option Nat)
    (h : trimLoop nets kept c = some (k, c')) : k = kept ++ keptOf nets := by
  induction nets generalizing kept c with
  | nil => simp [trimLoop] at h; simp [h.1, keptOf_nil]
  | cons n ns ih =>
    unfold trimLoop at h
    cases hn : trimNet kept.length n c with
    | none => simp [hn] at h
    | some r =>
      obtain ⟨nn, c1⟩ := r
      simp only [hn] at h
      have hf := trimNet_filter _ _ _ _ _ hn
      have := ih _ _ h
      rw [this, keptOf_cons, ← hf]
      by_cases he : nn = [] <;> simp [he]

theorem trimLoop_noclk (nets kept : List (List Member)) (c : Option Nat) (h : ∀ n ∈ nets, Member.clk ∉ n) :
    trimLoop nets kept c = some (kept ++ keptOf nets, c) := by
  induction nets generalizing kept with
  | nil => simp [trimLoop, keptOf_nil]
  | cons n ns ih =>
    unfold trimLoop
    rw [trimNet_noclk _ _ _ (h n (by simp))]
    simp only
    rw [ih _ (fun m hm => h m (by simp [hm])), keptOf_cons]
    by_cases he : n.filter Member.top = [] <;> simp [he]

theorem filter_top_ne_nil {n : List Member} (h : Member.clk ∈ n) : n.filter Member.top ≠ [] := by
  intro e
  have : Member.clk ∈ n.filter Member.top := List.mem_filter.mpr ⟨h, rfl⟩
  rw [e] at this; simp at this

theorem trimLoop_clk (pre : List (List Member)) (net : List Member) (post kept : List (List Member))
    (hpre : ∀ n ∈ pre, Member.clk ∉ n) (hpost : ∀ n ∈ post, Member.clk ∉ n) (hnet : net.count Member.clk = 1) :
    trimLoop (pre ++ net :: post) kept none
      = some (kept ++ keptOf (pre ++ net :: post), some (kept.length + (keptOf pre).length)) := by
  induction pre generalizing kept with
  | nil =>
    have hmem : Member.clk ∈ net := List.count_pos_iff.mp (by omega)
    have hne := filter_top_ne_nil hmem
    simp only [List.nil_append, keptOf_nil, List.length_nil, Nat.add_zero]
    unfold trimLoop
    rw [trimNet_clk _ _ hnet]
    simp only [hne, if_false]
    rw [trimLoop_noclk _ _ _ hpost, keptOf_cons]
    simp [hne]
  | cons n ns ih =>
    simp only [List.cons_append]
    unfold trimLoop
    rw [trimNet_noclk _ _ _ (hpre n (by simp))]
    simp only
    rw [ih _ (fun m hm => hpre m (by simp [hm])), keptOf_cons, keptOf_cons]
    by_cases he : n.filter Member.top = []
    · simp [he]
    · simp [he]; omega

/-- removing a net that has no whole signal does not change what the loop computes -/
theorem trimLoop_drop (pre : List (List Member)) (d : List Member) (post kept : List (List Member)) (c : Option Nat)
    (hd : ∀ x ∈ d, x.top = false) :
    trimLoop (pre ++ d :: post) kept c = trimLoop (pre ++ post) kept c := by
  induction pre generalizing kept c with
  | nil =>
    have hclk : Member.clk ∉ d := fun h => by simpa [Member.top] using hd _ h
    have hf : d.filter Member.top = [] := by
      rw [List.filter_eq_nil_iff]; intro x hx; simp [hd x hx]
    simp only [List.nil_append]
    conv => lhs; unfold trimLoop
    rw [trimNet_noclk _ _ _ hclk, hf]
    simp
  | cons n ns ih =>
    simp only [List.cons_append]
    unfold trimLoop
    cases trimNet kept.length n c with
    | none => rfl
    | some r => simp only; exact ih _ _

/-- at most one `s.clk` among all members: either no net has it, or the nets split around the one that has it once -/
def ClkSplit (nets : List (List Member)) : Prop :=
  ∃ pre net post, nets = pre ++ net :: post ∧ (∀ n ∈ pre, Member.clk ∉ n) ∧ (∀ n ∈ post, Member.clk ∉ n) ∧
    net.count Member.clk = 1

theorem clk_cases (nets : List (List Member)) (h : nets.flatten.count Member.clk ≤ 1) :
    (∀ n ∈ nets, Member.clk ∉ n) ∨ ClkSplit nets := by
  induction nets with
  | nil => left; simp
  | cons n ns ih =>
    simp only [List.flatten_cons, List.count_append] at h
    by_cases h0 : n.count Member.clk = 0
    · have hn : Member.clk ∉ n := List.count_eq_zero.mp h0
      rcases ih (by omega) with hno | ⟨pre, net, post, e, h1, h2, h3⟩
      · left; intro m hm
        rcases List.mem_cons.mp hm with e | e
        · rw [e]; exact hn
        · exact hno m e
      · right
        refine ⟨n :: pre, net, post, by simp [e], ?_, h2, h3⟩
        intro m hm
        rcases List.mem_cons.mp hm with e | e
        · rw [e]; exact hn
        · exact h1 m e
    · right
      have hr : ns.flatten.count Member.clk = 0 := by omega
      have hnone : Member.clk ∉ ns.flatten := List.count_eq_zero.mp hr
      refine ⟨[], n, ns, rfl, by simp, ?_, by omega⟩
      intro m hm hc
      exact hnone (List.mem_flatten.mpr ⟨m, hm, hc⟩)

/-! ### the dict -/

theorem dictGet_set (d : Dict) (k : Member) (v : Nat) (x : Member) :
    dictGet (dictSet d k v) x = if k = x then some v else dictGet d x := by
  induction d with
  | nil => simp [dictSet, dictGet]
  | cons p r ih =>
    obtain ⟨k', v'⟩ := p
    unfold dictSet
    by_cases hk : k' = k
    · subst hk
      by_cases hx : k' = x <;> simp [dictGet, hx]
    · simp only [hk, if_false]
      by_cases hx : k' = x
      · subst hx; simp [dictGet, Ne.symm hk]
      · simp [dictGet, hx, ih]

theorem dictGet_mapNet (i : Nat) (xs : List Member) (d : Dict) (x : Member) :
    dictGet (mapNet i xs d) x = if x ∈ xs then some i else dictGet d x := by
  induction xs generalizing d with
  | nil => simp [mapNet]
  | cons y ys ih =>
    unfold mapNet
    rw [ih, dictGet_set]
    by_cases h1 : x ∈ ys
    · simp [h1]
    · by_cases h2 : y = x
      · simp [h2]
      · simp [h1, h2, Ne.symm h2]

theorem dictGet_mapNets_some (i : Nat) (ns : List (List Member)) (d : Dict) (x : Member) (j : Nat)
    (h : dictGet (mapNets i ns d) x = some j) :
    (dictGet d x = some j ∧ ∀ n ∈ ns, x ∉ n) ∨ ∃ k n, ns[k]? = some n ∧ x ∈ n ∧ j = i + k := by
  induction ns generalizing i d with
  | nil => left; simpa [mapNets] using h
  | cons n ns ih =>
    unfold mapNets at h
    rcases ih _ _ h with ⟨h1, h2⟩ | ⟨k, m, hk, hx, hj⟩
    · rw [dictGet_mapNet] at h1
      by_cases hn : x ∈ n
      · right
        simp only [hn, if_true, Option.some.injEq] at h1
        exact ⟨0, n, by simp, hn, by omega⟩
      · left
        simp only [hn, if_false] at h1
        refine ⟨h1, ?_⟩
        intro m hm
        rcases List.mem_cons.mp hm with e | e
        · rw [e]; exact hn
        · exact h2 m e
    · right
      exact ⟨k + 1, m, by simpa using hk, hx, by omega⟩

theorem dictGet_mapNets_none (i : Nat) (ns : List (List Member)) (d : Dict) (x : Member)
    (h : dictGet (mapNets i ns d) x = none) : dictGet d x = none ∧ ∀ n ∈ ns, x ∉ n := by
  induction ns generalizing i d with
  | nil => simpa [mapNets] using h
  | cons n ns ih =>
    unfold mapNets at h
    obtain ⟨h1, h2⟩ := ih _ _ h
    rw [dictGet_mapNet] at h1
    by_cases hn : x ∈ n
    · simp [hn] at h1
    · simp only [hn, if_false] at h1
      refine ⟨h1, ?_⟩
      intro m hm
      rcases List.mem_cons.mp hm with e | e
      · rw [e]; exact hn
      · exact h2 m e

/-- `signal_net_mapping` as first built: a signal is mapped to a net that contains it, or is in no kept net -/
theorem initMap_some (kept : List (List Member)) (x : Member) (j : Nat)
    (h : dictGet (mapNets 0 kept []) x = some j) : ∃ n, kept[j]? = some n ∧ x ∈ n := by
  rcases dictGet_mapNets_some 0 kept [] x j h with ⟨h1, _⟩ | ⟨k, n, hk, hx, hj⟩
  · simp [dictGet] at h1
  · exact ⟨n, by rw [hj]; simpa using hk, hx⟩

theorem initMap_none (kept : List (List Member)) (x : Member)
    (h : dictGet (mapNets 0 kept []) x = none) : ∀ n ∈ kept, x ∉ n :=
  (dictGet_mapNets_none 0 kept [] x h).2

/-! ### `declareAll` -/

/-- the nets `recurse_models` appends: one per declared signal that is in no kept net -/
def extraNets (m0 : Member → Option Nat) (xs : List Member) : List (List Member) :=
  (xs.filter (fun x => (m0 x).isNone)).map (fun x => [x])

theorem declareAll_spec (m0 : Member → Option Nat) (xs : List Member) (t : NetTab) (hnd : xs.Nodup)
    (hA : ∀ x ∈ xs, dictGet t.smap x = m0 x)
    (hB : ∀ x ∈ xs, ∀ j, m0 x = some j → ∃ n, t.nets[j]? = some n ∧ x ∈ n)
    (hC : Member.clk ∈ xs → m0 Member.clk = none → t.clk = none) :
    ∃ t' vs, declareAll t xs = some t' ∧
      t'.nets = t.nets ++ extraNets m0 xs ∧
      t'.vars = t.vars ++ vs ∧ vs.map (·.1) = xs ∧
      (∀ p ∈ vs, (m0 p.1 = some p.2 ∨ (m0 p.1 = none ∧ t'.nets[p.2]? = some [p.1])) ∧
                 ∃ n, t'.nets[p.2]? = some n ∧ p.1 ∈ n) ∧
      (if Member.clk ∈ xs ∧ m0 Member.clk = none then ∃ i, t'.clk = some i ∧ t'.nets[i]? = some [Member.clk]
       else t'.clk = t.clk) := by
  induction xs generalizing t with
  | nil => exact ⟨t, [], by simp [declareAll, extraNets]⟩
  | cons x xs ih =>
    have hnd' : xs.Nodup := (List.nodup_cons.mp hnd).2
    have hxn : x ∉ xs := (List.nodup_cons.mp hnd).1
    have hAx := hA x (by simp)
    cases hm : m0 x with
    | some j =>
      obtain ⟨n, hn, hxn'⟩ := hB x (by simp) j hm
      have hj : j < t.nets.length := by
        rcases Nat.lt_or_ge j t.nets.length with h | h
        · exact h
        · rw [List.getElem?_eq_none h] at hn; simp at hn
      let t1 : NetTab := { t with vars := t.vars ++ [(x, j)] }
      have hd : declare t x = some t1 := by
        unfold declare; rw [hAx, hm]; simp [hj, t1]
      obtain ⟨t', vs, h1, h2, h3, h4, h5, h6⟩ := ih t1 hnd'
        (fun y hy => hA y (by simp [hy]))
        (fun y hy => hB y (by simp [hy]))
        (fun hc hn0 => hC (by simp [hc]) hn0)
      refine ⟨t', (x, j) :: vs, ?_, ?_, ?_, ?_, ?_, ?_⟩
      · simp [declareAll, hd, h1]
      · rw [h2]; simp [extraNets, hm, t1]
      · rw [h3]; simp [t1]
      · simp [h4]
      · intro p hp
        rcases List.mem_cons.mp hp with e | e
        · subst e
          refine ⟨Or.inl hm, n, ?_, hxn'⟩
          rw [h2, List.getElem?_append_left (by simpa [t1] using hj)]
          simpa [t1] using hn
        · exact h5 p e
      · by_cases hxc : x = Member.clk
        · subst hxc
          have hc1 : ¬ (Member.clk ∈ xs ∧ m0 Member.clk = none) := fun h => hxn h.1
          have hc2 : ¬ (Member.clk ∈ Member.clk :: xs ∧ m0 Member.clk = none) := fun h => by simp [hm] at h
          simp only [hc1, if_false] at h6
          simp only [hc2, if_false]
          exact h6
        · have hiff : (Member.clk ∈ x :: xs ∧ m0 Member.clk = none) ↔ (Member.clk ∈ xs ∧ m0 Member.clk = none) := by
            simp [Ne.symm hxc]
          simp only [hiff]
          exact h6
    | none =>
      by_cases hxc : x = Member.clk
      · subst hxc
        have hclk : t.clk = none := hC (by simp) hm
        let t1 : NetTab := { nets := t.nets ++ [[Member.clk]], clk := some t.nets.length,
                             smap := dictSet t.smap Member.clk t.smap.length,
                             vars := t.vars ++ [(Member.clk, t.nets.length)] }
        have hd : declare t Member.clk = some t1 := by
          unfold declare; rw [hAx, hm]; simp [hclk, t1]
        obtain ⟨t', vs, h1, h2, h3, h4, h5, h6⟩ := ih t1 hnd'
          (fun y hy => by
            have hne : Member.clk ≠ y := fun e => hxn (e ▸ hy)
            simp only [t1, dictGet_set, hne, if_false]
            exact hA y (by simp [hy]))
          (fun y hy j hj => by
            obtain ⟨n, hn, hyn⟩ := hB y (by simp [hy]) j hj
            refine ⟨n, ?_, hyn⟩
            have hlt : j < t.nets.length := by
              rcases Nat.lt_or_ge j t.nets.length with h | h
              · exact h
              · rw [List.getElem?_eq_none h] at hn; simp at hn
            simp only [t1]
            rw [List.getElem?_append_left hlt]; exact hn)
          (fun hc _ => absurd hc hxn)
        have hc1 : ¬ (Member.clk ∈ xs ∧ m0 Member.clk = none) := fun h => hxn h.1
        simp only [hc1, if_false] at h6
        have hnet : t'.nets[t.nets.length]? = some [Member.clk] := by
          rw [h2]; simp [t1]
        refine ⟨t', (Member.clk, t.nets.length) :: vs, ?_, ?_, ?_, ?_, ?_, ?_⟩
        · simp [declareAll, hd, h1]
        · rw [h2]; simp [extraNets, hm, t1]
        · rw [h3]; simp [t1]
        · simp [h4]
        · intro p hp
          rcases List.mem_cons.mp hp with e | e
          · subst e
            exact ⟨Or.inr ⟨hm, hnet⟩, [Member.clk], hnet, by simp⟩
          · exact h5 p e
        · have hc2 : Member.clk ∈ Member.clk :: xs ∧ m0 Member.clk = none := ⟨by simp, hm⟩
          simp only [hc2, and_self, if_true]
          exact ⟨t.nets.length, by rw [h6], hnet⟩
      · let t1 : NetTab := { nets := t.nets ++ [[x]], clk := t.clk,
                             smap := dictSet t.smap x t.smap.length,
                             vars := t.vars ++ [(x, t.nets.length)] }
        have hd : declare t x = some t1 := by
          unfold declare; rw [hAx, hm]; simp [hxc, t1]
        obtain ⟨t', vs, h1, h2, h3, h4, h5, h6⟩ := ih t1 hnd'
          (fun y hy => by
            have hne : x ≠ y := fun e => hxn (e ▸ hy)
            simp only [t1, dictGet_set, hne, if_false]
            exact hA y (by simp [hy]))
          (fun y hy j hj => by
            obtain ⟨n, hn, hyn⟩ := hB y (by simp [hy]) j hj
            refine ⟨n, ?_, hyn⟩
            have hlt : j < t.nets.length := by
              rcases Nat.lt_or_ge j t.nets.length with h | h
              · exact h
              · rw [List.getElem?_eq_none h] at hn; simp at hn
            simp only [t1]
            rw [List.getElem?_append_left hlt]; exact hn)
          (fun hc hn0 => hC (by simp [hc]) hn0)
        have hnet : t'.nets[t.nets.length]? = some [x] := by
          rw [h2]; simp [t1]
        refine ⟨t', (x, t.nets.length) :: vs, ?_, ?_, ?_, ?_, ?_, ?_⟩
        · simp [declareAll, hd, h1]
        · rw [h2]; simp [extraNets, hm, t1]
        · rw [h3]; simp [t1]
        · simp [h4]
        · intro p hp
          rcases List.mem_cons.mp hp with e | e
          · subst e
            exact ⟨Or.inr ⟨hm, hnet⟩, [x], hnet, by simp⟩
          · exact h5 p e
        · have hiff : (Member.clk ∈ x :: xs ∧ m0 Member.clk = none) ↔ (Member.clk ∈ xs ∧ m0 Member.clk = none) := by
            simp [Ne.symm hxc]
          simp only [hiff]
          exact h6

/-! ### disjoint nets -/

theorem flatten_nodup_idx {α : Type} (l : List (List α)) (h : l.flatten.Nodup) (i j : Nat) (a b : List α) (x : α)
    (hi : l[i]? = some a) (hj : l[j]? = some b) (ha : x ∈ a) (hb : x ∈ b) : i = j := by
  induction l generalizing i j with
  | nil => simp at hi
  | cons n ns ih =>
    simp only [List.flatten_cons, List.nodup_append] at h
    obtain ⟨_, h2, h3⟩ := h
    cases i with
    | zero =>
      cases j with
      | zero => rfl
      | succ j =>
        simp only [List.getElem?_cons_zero, Option.some.injEq] at hi
        simp only [List.getElem?_cons_succ] at hj
        subst hi
        exact absurd rfl (h3 x ha x (List.mem_flatten.mpr ⟨b, List.mem_of_getElem? hj, hb⟩))
    | succ i =>
      cases j with
      | zero =>
        simp only [List.getElem?_cons_zero, Option.some.injEq] at hj
        simp only [List.getElem?_cons_succ] at hi
        subst hj
        exact absurd rfl (h3 x hb x (List.mem_flatten.mpr ⟨a, List.mem_of_getElem? hi, ha⟩))
      | succ j =>
        simp only [List.getElem?_cons_succ] at hi hj
        rw [ih h2 i j hi hj]

theorem flatten_singletons {α : Type} (xs : List α) : (xs.map (fun x => [x])).flatten = xs := by
  induction xs with
  | nil => rfl
  | cons x xs ih => simp [ih]

end PV.VCD
