import PymtlVerif.Proofs.SDecl
import PymtlVerif.Model.SDeclPath
/-!
# Operand rendering: token order, the rendered reference of an object path, its denotation (C03)
-/
namespace PV.SDecl
open PV.SV PV.Names

/-! ## the token stack of `gen_signal_expr` -/

theorem pushFrames_reverse (frames : List Frame) :
    (pushFrames frames).reverse = frames.reverse.flatMap fun f => Tk.attr f.name :: f.idxs.map Tk.idx := by
  induction frames with
  | nil => rfl
  | cons f fs ih =>
    simp [pushFrames, ih]

theorem tokens_eq (sl : Option (Nat × Nat)) (frames : List Frame) :
    tokens sl frames = (frames.reverse.flatMap fun f => Tk.attr f.name :: f.idxs.map Tk.idx) ++ sliceTk sl := by
  simp only [tokens, List.reverse_append, pushFrames_reverse]
  cases sl with
  | none => simp [sliceTk]
  | some p => simp [sliceTk]

/-! ## object paths and the expression `gen_signal_expr` builds for them -/

/-- wires exist in the current component only -/
def OPath.WireLocal (p : OPath) : Prop := p.isWire = true → p.comp = none ∧ p.ifcs = []

/-! ## rendering -/

/-- the state before the signal's attribute: identifier segments so far, nothing selected, every index still queued -/
structure Pre (e : SExp) (mk : SExp → String → SExp) (names : List String) (q : List Nat) : Prop where
  base : rend e false = some ⟨⟨names, []⟩, q⟩
  attr : ∀ a fin, rend (mk e a) fin =
    some (if fin then ⟨⟨names ++ [a], q.map Sel.idx⟩, []⟩ else ⟨⟨names ++ [a], []⟩, q⟩)

theorem rend_compIdx_foldl (e : SExp) (ix : List Nat) (r : Ref) (q : List Nat) (h : rend e false = some ⟨r, q⟩) (fin : Bool) :
    rend (ix.foldl SExp.compIdx e) (if ix = [] then false else fin) = some ⟨r, q ++ ix⟩ := by
  induction ix generalizing e q with
  | nil => simpa using h
  | cons i ix ih =>
    have h1 : rend (SExp.compIdx e i) false = some ⟨r, q ++ [i]⟩ := by simp [rend, h]
    have := ih (SExp.compIdx e i) (q ++ [i]) h1
    simp only [List.foldl_cons, List.append_assoc, List.singleton_append] at this ⊢
    by_cases hx : ix = []
    · subst hx
      simp only [List.foldl_nil, if_true] at this ⊢
      simp [rend, h]
    · simpa [hx] using this

theorem rend_compIdx_foldl_false (e : SExp) (ix : List Nat) (r : Ref) (q : List Nat) (h : rend e false = some ⟨r, q⟩) :
    rend (ix.foldl SExp.compIdx e) false = some ⟨r, q ++ ix⟩ := by
  have := rend_compIdx_foldl e ix r q h false
  simpa using this

theorem rend_ifcIdx_foldl_false (e : SExp) (ix : List Nat) (r : Ref) (q : List Nat) (h : rend e false = some ⟨r, q⟩) :
    rend (ix.foldl SExp.ifcIdx e) false = some ⟨r, q ++ ix⟩ := by
  induction ix generalizing e q with
  | nil => simpa using h
  | cons i ix ih =>
    have h1 : rend (SExp.ifcIdx e i) false = some ⟨r, q ++ [i]⟩ := by simp [rend, h]
    simpa using ih (SExp.ifcIdx e i) (q ++ [i]) h1

theorem pre_cur : Pre SExp.cur SExp.curAttr [] [] := by
  refine ⟨by simp [rend], ?_⟩
  intro a fin
  cases fin <;> simp [rend]

theorem pre_attr_of_base (e : SExp) (mk : SExp → String → SExp) (names : List String) (q : List Nat)
    (hmk : mk = SExp.subAttr ∨ mk = SExp.ifcAttr) (hb : rend e false = some ⟨⟨names, []⟩, q⟩) : Pre e mk names q := by
  refine ⟨hb, ?_⟩
  intro a fin
  rcases hmk with rfl | rfl <;> cases fin <;> simp [rend, hb, appAttr]

theorem pre_head (p : OPath) : Pre p.head.1 p.head.2 (match p.comp with | some c => [c.1] | none => [])
    (match p.comp with | some c => c.2 | none => []) := by
  unfold OPath.head
  cases hc : p.comp with
  | none => simpa using pre_cur
  | some c =>
    obtain ⟨n, ix⟩ := c
    have h0 : rend (SExp.curAttr SExp.cur n) false = some ⟨⟨[n], []⟩, []⟩ := by simp [rend]
    have := rend_compIdx_foldl_false _ ix _ _ h0
    exact pre_attr_of_base _ _ _ _ (Or.inl rfl) (by simpa using this)

theorem pre_goIfcs (e : SExp) (mk : SExp → String → SExp) (names : List String) (q : List Nat) (h : Pre e mk names q)
    (ifcs : List (String × List Nat)) :
    Pre (goIfcs e mk ifcs).1 (goIfcs e mk ifcs).2 (names ++ ifcs.map (·.1)) (q ++ ifcs.flatMap (·.2)) := by
  induction ifcs generalizing e mk names q with
  | nil => simpa [goIfcs] using h
  | cons l rest ih =>
    obtain ⟨n, ix⟩ := l
    have h1 : rend (mk e n) false = some ⟨⟨names ++ [n], []⟩, q⟩ := by simpa using h.attr n false
    have h2 := rend_ifcIdx_foldl_false _ ix _ _ h1
    have := ih _ SExp.ifcAttr _ _ (pre_attr_of_base _ _ _ _ (Or.inr rfl) h2)
    simpa [goIfcs, List.append_assoc] using this

/-- steps after the signal's attribute: list indices of the port / wire, then the packed steps -/
inductive TStep where
  | port (i : Nat)
  | wire (i : Nat)
  | packed (s : PStep)

def TStep.sexp (e : SExp) : TStep → SExp
  | .port i => .portIdx e i
  | .wire i => .wireIdx e i
  | .packed s => s.sexp e

def TStep.sel : TStep → Sel
  | .port i => .idx i
  | .wire i => .idx i
  | .packed s => s.sel

theorem rend_tstep (e : SExp) (t : TStep) (st : RSt) (h : rend e false = some st)
    (hw : (∃ i, t = .wire i) → st.q = []) (fin : Bool) :
    rend (t.sexp e) fin = some ⟨⟨st.ref.id, st.ref.sels ++ st.q.map Sel.idx ++ [t.sel]⟩, []⟩ := by
  cases t with
  | port i => simp [TStep.sexp, TStep.sel, rend, h, appSel]
  | wire i =>
    have hq := hw ⟨i, rfl⟩
    simp [TStep.sexp, TStep.sel, rend, h, hq]
  | packed s => cases s <;> simp [TStep.sexp, TStep.sel, PStep.sexp, PStep.sel, rend, h, appSel]

theorem rend_tsteps (ts : List TStep) (hne : ts ≠ []) (e : SExp) (st : RSt) (h : rend e false = some st)
    (hw : (∃ i, TStep.wire i ∈ ts) → st.q = []) (fin : Bool) :
    rend (ts.foldl TStep.sexp e) fin = some ⟨⟨st.ref.id, st.ref.sels ++ st.q.map Sel.idx ++ ts.map TStep.sel⟩, []⟩ := by
  induction ts generalizing e st with
  | nil => exact (hne rfl).elim
  | cons t ts ih =>
    have hw1 : (∃ i, t = .wire i) → st.q = [] := by
      rintro ⟨i, rfl⟩; exact hw ⟨i, by simp⟩
    by_cases hts : ts = []
    · subst hts
      simpa using rend_tstep e t st h hw1 fin
    · have h1 := rend_tstep e t st h hw1 false
      have := ih hts (t.sexp e) _ h1 (by intro _; rfl)
      simpa [List.append_assoc] using this

def OPath.tsteps (p : OPath) : List TStep :=
  p.sigIdx.map (if p.isWire then TStep.wire else TStep.port) ++ p.packed.map TStep.packed

theorem foldl_tsteps (p : OPath) (e : SExp) :
    p.tsteps.foldl TStep.sexp e
      = p.packed.foldl PStep.sexp (p.sigIdx.foldl (if p.isWire then SExp.wireIdx else SExp.portIdx) e) := by
  unfold OPath.tsteps
  rw [List.foldl_append, List.foldl_map, List.foldl_map]
  cases p.isWire <;> rfl

theorem tsteps_sel (p : OPath) : p.tsteps.map TStep.sel = p.sigIdx.map Sel.idx ++ p.packed.map PStep.sel := by
  unfold OPath.tsteps
  cases p.isWire <;> simp [TStep.sel, Function.comp_def]

theorem levels_names (p : OPath) :
    p.names = (match p.comp with | some c => [c.1] | none => []) ++ p.ifcs.map (·.1) ++ [p.sigName] := by
  unfold OPath.names OPath.levels
  cases p.comp <;> simp

theorem levels_allIdx (p : OPath) :
    p.allIdx = (match p.comp with | some c => c.2 | none => []) ++ p.ifcs.flatMap (·.2) ++ p.sigIdx := by
  unfold OPath.allIdx OPath.levels
  cases p.comp <;> simp

/-- **the rendered operand of an object path**: the `__`-joined names of all levels, then ALL list indices in the order of the
levels (outermost first, inside one level in the order of its dimensions), then the selects into the data type; the queue is
left empty -/
theorem render_opath (p : OPath) (hw : p.WireLocal) :
    render p.sexp = some ⟨⟨p.names, p.allIdx.map Sel.idx ++ p.packed.map PStep.sel⟩, []⟩ := by
  have hpre := pre_goIfcs _ _ _ _ (pre_head p) p.ifcs
  unfold render OPath.sexp
  simp only []
  rw [← foldl_tsteps]
  by_cases hts : p.tsteps = []
  · -- the signal's attribute is the outermost node: the queue is emitted there
    have h1 : p.sigIdx = [] := by
      have := congrArg List.length hts; simp [OPath.tsteps] at this; exact this.1
    have h2 : p.packed = [] := by
      have := congrArg List.length hts; simp [OPath.tsteps] at this; exact this.2
    rw [hts, List.foldl_nil, hpre.attr p.sigName true, levels_names, levels_allIdx, h1, h2]
    simp
  · have hb := hpre.attr p.sigName false
    simp only [Bool.false_eq_true, if_false] at hb
    have hq : (∃ i, TStep.wire i ∈ p.tsteps) → (RSt.mk ⟨(match p.comp with | some c => [c.1] | none => []) ++ p.ifcs.map (·.1) ++ [p.sigName], []⟩
        ((match p.comp with | some c => c.2 | none => []) ++ p.ifcs.flatMap (·.2))).q = [] := by
      rintro ⟨i, hi⟩
      have hwire : p.isWire = true := by
        unfold OPath.tsteps at hi
        cases hiw : p.isWire with
        | true => rfl
        | false => simp [hiw] at hi
      obtain ⟨hc, hi'⟩ := hw hwire
      simp [hc, hi']
    have := rend_tsteps p.tsteps hts _ _ hb hq true
    rw [this, tsteps_sel, levels_names, levels_allIdx]
    simp [List.append_assoc]

/-! ## values and denotations -/

/-- a packed value with the names of its struct fields -/
inductive PVal where
  | bits (w v : Nat)
  | arr (es : List PVal)
  | struct (fs : List (String × PVal))

def PVal.field (f : String) : List (String × PVal) → Option PVal
  | [] => none
  | (g, v) :: rest => if g = f then some v else PVal.field f rest

def bitsOf (v lo w : Nat) : PVal := .bits w ((v >>> lo) % 2 ^ w)

/-- PyMTL: field access, element of a list field, bit, slice `[lo:hi]` (bits `lo … hi-1`) -/
def stepPy : PVal → PStep → Option PVal
  | .struct fs, .fld f => PVal.field f fs
  | .arr es, .pidx i => es[i]?
  | .bits _ v, .bit i => some (bitsOf v i 1)
  | .bits _ v, .slice lo hi => some (bitsOf v lo (hi - lo))
  | _, _ => none

/-- SystemVerilog: member select, select of a packed dimension / of a bit, part select `[msb:lsb]` -/
def stepSV : PVal → Sel → Option PVal
  | .struct fs, .fld f => PVal.field f fs
  | .arr es, .idx i => es[i]?
  | .bits _ v, .idx i => some (bitsOf v i 1)
  | .bits _ v, .rng msb lsb => some (bitsOf v lsb (msb + 1 - lsb))
  | _, _ => none

def stepsPy : PVal → List PStep → Option PVal
  | v, [] => some v
  | v, s :: ss => (stepPy v s).bind fun v' => stepsPy v' ss

def stepsSV : PVal → List Sel → Option PVal
  | v, [] => some v
  | v, s :: ss => (stepSV v s).bind fun v' => stepsSV v' ss

/-- the kind of a step agrees with the value it is applied to (the type checker's business) and slices are not empty -/
def StepOk : PVal → PStep → Prop
  | .arr _, .pidx _ => True
  | .bits _ _, .bit _ => True
  | .bits _ _, .slice lo hi => lo < hi
  | .struct _, .fld _ => True
  | _, _ => False

theorem stepSV_sel (v : PVal) (s : PStep) (h : StepOk v s) : stepSV v s.sel = stepPy v s := by
  cases v <;> cases s <;> simp_all [StepOk, stepSV, stepPy, PStep.sel]
  rename_i w v lo hi
  congr 2
  omega

def StepsOk : PVal → List PStep → Prop
  | _, [] => True
  | v, s :: ss => StepOk v s ∧ ∀ v', stepPy v s = some v' → StepsOk v' ss

theorem stepsSV_sel (v : PVal) (ss : List PStep) (h : StepsOk v ss) : stepsSV v (ss.map PStep.sel) = stepsPy v ss := by
  induction ss generalizing v with
  | nil => rfl
  | cons s ss ih =>
    simp only [List.map_cons, stepsSV, stepsPy, stepSV_sel v s h.1]
    cases hv : stepPy v s with
    | none => rfl
    | some v' => simpa using ih v' (h.2 v' hv)

/-- **PyMTL reading** of a path: the value of the signal object, then the steps into it -/
def denotePy (ρ : List Seg → Option PVal) (p : OPath) : Option PVal := (ρ p.objPath).bind fun v => stepsPy v p.packed

/-- the first `n` selects must be plain indices: the element of the unpacked array -/
def splitSels : Nat → List Sel → Option (List Nat × List Sel)
  | 0, ss => some ([], ss)
  | n + 1, .idx i :: ss => (splitSels n ss).map fun r => (i :: r.1, r.2)
  | _ + 1, _ => none

/-- **SystemVerilog reading** of a rendered reference over an environment of unpacked arrays: the declaration of the identifier
says how many leading selects address the unpacked dimensions; the rest selects inside the packed value -/
def denoteSV (dimsOf : String → Option (List Nat)) (env : String → List Nat → Option PVal) (r : Ref) : Option PVal :=
  (dimsOf r.ident).bind fun ds => (splitSels ds.length r.sels).bind fun s =>
    (env r.ident s.1).bind fun v => stepsSV v s.2

/-- cut an index tuple into pieces of the given lengths -/
def splitBy : List Nat → List Nat → List (List Nat)
  | [], _ => []
  | n :: ns, ix => ix.take n :: splitBy ns (ix.drop n)

/-- the object that element `ix` of the array declared for family `f` stands for: the declared dimensions are the concatenation
of the dimensions of the levels, so the index tuple is cut level by level -/
def Family.objPath (f : Family) (ix : List Nat) : List Seg :=
  (f.levels.zip (splitBy (f.levels.map (·.dims.length)) ix)).flatMap fun p => Seg.name p.1.name :: p.2.map Seg.idx

def famOf (fams : List Family) (id : String) : Option Family := fams.find? fun f => flatId f.names == id

/-- the declarations of a module as a map identifier ↦ unpacked dimensions -/
def dimsOf (fams : List Family) (id : String) : Option (List Nat) := (famOf fams id).map Family.dims

/-- the environment of unpacked arrays that the declarations create from the PyMTL objects -/
def envOf (fams : List Family) (ρ : List Seg → Option PVal) (id : String) (ix : List Nat) : Option PVal :=
  (famOf fams id).bind fun f => ρ (f.objPath ix)

/-- path `p` addresses an element of family `f`: same names level by level, as many indices as the level has dimensions -/
def InFamily (p : OPath) (f : Family) : Prop :=
  f.levels.map (·.name) = p.levels.map (·.1) ∧ f.levels.map (·.dims.length) = p.levels.map (·.2.length)

theorem splitSels_map_idx (ix : List Nat) (rest : List Sel) :
    splitSels ix.length (ix.map Sel.idx ++ rest) = some (ix, rest) := by
  induction ix with
  | nil => simp [splitSels]
  | cons i ix ih => simp [splitSels, ih]

theorem splitBy_flatten (ls : List (List Nat)) : splitBy (ls.map List.length) ls.flatten = ls := by
  induction ls with
  | nil => rfl
  | cons l ls ih => simp [splitBy, ih]

theorem flatId_names (l : List String) : flatId (l.map Seg.name) = "__".intercalate l := by
  simp [flatId, List.map_map, Function.comp_def, Seg.str]

theorem objPath_eq (p : OPath) (f : Family) (h : InFamily p f) : f.objPath p.allIdx = p.objPath := by
  obtain ⟨h1, h2⟩ := h
  unfold Family.objPath OPath.allIdx OPath.objPath
  have e : p.levels.flatMap (·.2) = (p.levels.map (·.2)).flatten := by simp [List.flatMap]
  rw [h2, e]
  have : p.levels.map (fun l => l.2.length) = (p.levels.map (·.2)).map List.length := by simp [List.map_map, Function.comp_def]
  rw [this, splitBy_flatten]
  -- zip the family's levels with the path's index lists
  generalize p.levels = pl at h1 h2
  generalize f.levels = fl at h1 h2
  induction fl generalizing pl with
  | nil => cases pl with
    | nil => rfl
    | cons => simp at h1
  | cons a fl ih =>
    cases pl with
    | nil => simp at h1
    | cons b pl =>
      simp only [List.map_cons, List.cons.injEq] at h1 h2
      simp only [List.map_cons, List.zip_cons_cons, List.flatMap_cons, ih pl h1.2 h2.2, h1.1]

theorem dims_length (p : OPath) (f : Family) (h : InFamily p f) : f.dims.length = p.allIdx.length := by
  obtain ⟨_, h2⟩ := h
  unfold Family.dims OPath.allIdx
  have e1 : (f.levels.flatMap (·.dims)).length = (f.levels.map (·.dims.length)).sum := by
    simp [List.length_flatMap]
  have e2 : (p.levels.flatMap (·.2)).length = (p.levels.map (·.2.length)).sum := by
    simp [List.length_flatMap]
  rw [e1, e2, h2]

end PV.SDecl
