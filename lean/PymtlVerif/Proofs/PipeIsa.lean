import PymtlVerif.Model.Pipe
import PymtlVerif.Proofs.TinyRV0
/-!
The TinyRV0 ISA step (`Model/TinyRV0.lean`, written from the ISA document) expressed through the DATAPATH
functions of the pipeline model (`csTable ∘ decodeInstType`, `immgen`, `alu`): for every word that the ISA
decodes and every state in which the ISA executes it, `exec` is the "uniform" step `U.next` that reads
rs1 / rs2 / immediate / mngr2proc head through the control-table row of that word.  This is where the
control-signal table, the immediate generator and the ALU of the RTL are proved to implement the ten
instructions; the pipeline proof then never looks at individual instructions again.
-/
namespace PV.Pipe
open PV.TinyRV0 (W32 Inst decode decodeF fields exec rget rset loadWord storeWord sext12 sext13)

namespace U
/-- control-table row of an instruction word -/
def cs (w : Nat) : CS := csTable (decodeInstType w)
/-- `proc2mngr_en_D` / `mngr2proc_D` of that word -/
def p2m (w : Nat) : Bool := (cs w).csrw && (csrnum w == CSR_PROC2MNGR)
def m2p (w : Nat) : Bool := (cs w).csrr && (csrnum w == CSR_MNGR2PROC)
def imm (w : Nat) : Nat := immgen (cs w).imm_type w
def op1 (S : TinyRV0.State) (w : Nat) : Nat := rget S.regs (rs1 w)
def rs2v (S : TinyRV0.State) (w : Nat) : Nat := rget S.regs (rs2 w)
def op2 (S : TinyRV0.State) (w : Nat) : Nat :=
  if (cs w).op2_sel = 0 then rs2v S w else if (cs w).op2_sel = 1 then imm w
  else if (cs w).op2_sel = 2 then S.inp.headD 0 else 0
def aluv (S : TinyRV0.State) (w : Nat) : Nat := alu (cs w).alu_fn (op1 S w) (op2 S w)
/-- the value the W stage holds: ALU result, or the loaded word -/
def wb (S : TinyRV0.State) (w : Nat) : Nat :=
  if (cs w).wb_result_sel = 0 then aluv S w
  else if (cs w).wb_result_sel = 1 then loadWord S.mem (aluv S w) else 0
def taken (S : TinyRV0.State) (w : Nat) : Bool := (cs w).br_type && (op1 S w != op2 S w)
/-- the architectural effect of the word, through the datapath functions -/
def next (S : TinyRV0.State) (w : Nat) : TinyRV0.State where
  pc := if taken S w then (S.pc + imm w) % W32 else (S.pc + 4) % W32
  regs := if (cs w).rf_wen_pending then rset S.regs (rd w) (wb S w) else S.regs
  mem := if (cs w).dmemreq_type = st then storeWord S.mem (aluv S w) (rs2v S w) else S.mem
  inp := if m2p w then S.inp.tail else S.inp
  out := if p2m w then S.out ++ [aluv S w] else S.out
end U

/-- what the pipeline proof needs to know about the table row of a word the ISA accepts -/
structure RowOk (S : TinyRV0.State) (w : Nat) : Prop where
  /-- no accelerator access -/
  csrr_m2p : (U.cs w).csrr = U.m2p w
  csrw_p2m : (U.cs w).csrw = U.p2m w
  /-- `csrr mngr2proc` only executes with a non-empty input FIFO -/
  inp_ne : U.m2p w = true → S.inp ≠ []
  /-- a result that is used (register write, memory address, proc2mngr value) is computed from enabled operands -/
  wb_sel : (U.cs w).wb_result_sel = 0 ∨ ((U.cs w).wb_result_sel = 1 ∧ (U.cs w).dmemreq_type ≠ nr)
  ld_sel : (U.cs w).dmemreq_type = ld → (U.cs w).wb_result_sel = 1 ∧ (U.cs w).rf_wen_pending = true
  st_nowen : (U.cs w).dmemreq_type = st → (U.cs w).rf_wen_pending = false ∧ (U.cs w).rs2_en = true
  mem_type : (U.cs w).dmemreq_type = nr ∨ (U.cs w).dmemreq_type = ld ∨ (U.cs w).dmemreq_type = st
  nomem_sel : (U.cs w).dmemreq_type = nr → (U.cs w).wb_result_sel = 0
  p2m_nowen : U.p2m w = true → (U.cs w).rf_wen_pending = false
  p2m_nomem : U.p2m w = true → (U.cs w).dmemreq_type = nr
  br_en : (U.cs w).br_type = true → (U.cs w).rs1_en = true ∧ (U.cs w).rs2_en = true ∧ (U.cs w).op2_sel = 0 ∧
            (U.cs w).rf_wen_pending = false ∧ (U.cs w).dmemreq_type = nr ∧ U.p2m w = false ∧ (U.cs w).imm_type = 2
  /-- whenever the ALU result is used, the ALU function only reads operands whose register read is enabled -/
  alu_dep : ((U.cs w).rf_wen_pending = true ∨ (U.cs w).dmemreq_type ≠ nr ∨ U.p2m w = true) →
      ∀ a b a' b', ((U.cs w).rs1_en = true → a = a') →
        (((U.cs w).op2_sel ≠ 0 ∨ (U.cs w).rs2_en = true) → b = b') →
        alu (U.cs w).alu_fn a b = alu (U.cs w).alu_fn a' b'
  op2_sel_lt : (U.cs w).op2_sel ≤ 2
  m2p_sel : ((U.cs w).op2_sel = 2) = (U.m2p w = true)

theorem sext32_12 (v : Nat) : sext32 12 v = sext12 v := rfl

theorem immgen_I (w : Nat) : immgen 0 w = sext12 (fields w).immI := rfl

theorem immgen_S (w : Nat) : immgen 1 w = sext12 (fields w).immS := by
  have h : immgen 1 w = (let v := w / 2^25 % 128; if v < 64 then v else v + (134217728 - 128)) * 32 + w / 2^7 % 32 := rfl
  have hf : (fields w).immS = (w / 2^25 % 128) * 32 + w / 2^7 % 32 := rfl
  rw [h, hf]; unfold sext12 W32
  by_cases h1 : w / 2^25 % 128 < 64
  · rw [if_pos h1, if_pos (by omega)]
  · rw [if_neg h1, if_neg (by omega)]; omega

theorem immgen_B (w : Nat) : immgen 2 w = sext13 (fields w).immB := by
  have h : immgen 2 w = (if w / 2^31 % 2 = 1 then 1048575 else 0) * 4096
      + (w / 2^7 % 2) * 2048 + (w / 2^25 % 64) * 32 + (w / 2^8 % 16) * 2 := rfl
  have hf : (fields w).immB = (w / 2^31 % 2) * 4096 + (w / 2^7 % 2) * 2048 + (w / 2^25 % 64) * 32 + (w / 2^8 % 16) * 2 := rfl
  rw [h, hf]; unfold sext13 W32
  have h2 : w / 2^7 % 2 < 2 := by omega
  have h3 : w / 2^25 % 64 < 64 := by omega
  have h4 : w / 2^8 % 16 < 16 := by omega
  by_cases h1 : w / 2^31 % 2 = 1
  · rw [if_pos h1, h1, if_neg (by omega)]; omega
  · have h0 : w / 2^31 % 2 = 0 := by omega
    rw [if_neg h1, h0, if_pos (by omega)]

/-! ### the table row of every word the ISA decodes -/

section rows
variable (w : Nat)

theorem row_nop (h : w = 19) : U.cs w = ⟨y, br_na, n, imm_x, bm_x, n, alu_x, nr, wm_a, n, n, n⟩ := by
  subst h; decide
theorem row_add (h1 : w % 128 = 0x33) (h3 : w / 2^12 % 8 = 0) :
    U.cs w = ⟨y, br_na, y, imm_x, bm_rf, y, alu_add, nr, wm_a, y, n, n⟩ := by
  have : w ≠ 19 := by omega
  simp [U.cs, decodeInstType, opcode, funct3, this, h1, h3, csTable, ADD, NOP, CSRRX, CSRR, CSRW]
theorem row_sll (h1 : w % 128 = 0x33) (h3 : w / 2^12 % 8 = 1) :
    U.cs w = ⟨y, br_na, y, imm_x, bm_rf, y, alu_sll, nr, wm_a, y, n, n⟩ := by
  have : w ≠ 19 := by omega
  simp [U.cs, decodeInstType, opcode, funct3, this, h1, h3, csTable, SLL, ADD, NOP, CSRRX, CSRR, CSRW]
theorem row_srl (h1 : w % 128 = 0x33) (h3 : w / 2^12 % 8 = 5) :
    U.cs w = ⟨y, br_na, y, imm_x, bm_rf, y, alu_srl, nr, wm_a, y, n, n⟩ := by
  have : w ≠ 19 := by omega
  simp [U.cs, decodeInstType, opcode, funct3, this, h1, h3, csTable, SRL, SLL, ADD, NOP, CSRRX, CSRR, CSRW]
theorem row_and (h1 : w % 128 = 0x33) (h3 : w / 2^12 % 8 = 7) :
    U.cs w = ⟨y, br_na, y, imm_x, bm_rf, y, alu_and, nr, wm_a, y, n, n⟩ := by
  have : w ≠ 19 := by omega
  simp [U.cs, decodeInstType, opcode, funct3, this, h1, h3, csTable, AND, SRL, SLL, ADD, NOP, CSRRX, CSRR, CSRW,
    ADDI, LW, SW, BNE]
theorem row_addi (h19 : w ≠ 19) (h1 : w % 128 = 0x13) (h3 : w / 2^12 % 8 = 0) :
    U.cs w = ⟨y, br_na, y, imm_i, bm_imm, n, alu_add, nr, wm_a, y, n, n⟩ := by
  simp [U.cs, decodeInstType, opcode, funct3, h19, h1, h3, csTable, ADDI, SRL, SLL, ADD, NOP, CSRRX, CSRR, CSRW]
theorem row_lw (h1 : w % 128 = 0x03) (h3 : w / 2^12 % 8 = 2) :
    U.cs w = ⟨y, br_na, y, imm_i, bm_imm, n, alu_add, ld, wm_m, y, n, n⟩ := by
  have : w ≠ 19 := by omega
  simp [U.cs, decodeInstType, opcode, funct3, this, h1, h3, csTable, LW, ADDI, SRL, SLL, ADD, NOP, CSRRX, CSRR, CSRW]
theorem row_sw (h1 : w % 128 = 0x23) (h3 : w / 2^12 % 8 = 2) :
    U.cs w = ⟨y, br_na, y, imm_s, bm_imm, y, alu_add, st, wm_m, n, n, n⟩ := by
  have : w ≠ 19 := by omega
  simp [U.cs, decodeInstType, opcode, funct3, this, h1, h3, csTable, SW, LW, ADDI, SRL, SLL, ADD, NOP, CSRRX, CSRR, CSRW]
theorem row_bne (h1 : w % 128 = 0x63) (h3 : w / 2^12 % 8 = 1) :
    U.cs w = ⟨y, br_ne, y, imm_b, bm_rf, y, alu_x, nr, wm_x, n, n, n⟩ := by
  have : w ≠ 19 := by omega
  simp [U.cs, decodeInstType, opcode, funct3, this, h1, h3, csTable, BNE, SW, LW, ADDI, SRL, SLL, ADD, NOP, CSRRX, CSRR, CSRW]
theorem row_csrr (h1 : w % 128 = 0x73) (h3 : w / 2^12 % 8 = 2) (h7 : w / 2^25 % 128 ≠ 63) :
    U.cs w = ⟨y, br_na, n, imm_i, bm_csr, n, alu_cp1, nr, wm_a, y, y, n⟩ := by
  have : w ≠ 19 := by omega
  simp [U.cs, decodeInstType, opcode, funct3, funct7, this, h1, h3, h7, csTable, CSRR, CSRRX, NOP]
theorem row_csrw (h1 : w % 128 = 0x73) (h3 : w / 2^12 % 8 = 1) :
    U.cs w = ⟨y, br_na, y, imm_i, bm_imm, n, alu_cp0, nr, wm_a, n, n, y⟩ := by
  have : w ≠ 19 := by omega
  simp [U.cs, decodeInstType, opcode, funct3, this, h1, h3, csTable, CSRW, CSRR, CSRRX, NOP]
end rows

/-! ### every row the ISA can reach satisfies `RowOk`; `exec` is `U.next` -/

theorem rowOk_of (S : TinyRV0.State) (w : Nat) (c : CS) (hrow : U.cs w = c)
  (h1 : c.csrr = (c.csrr && (csrnum w == CSR_MNGR2PROC)))
  (h2 : c.csrw = (c.csrw && (csrnum w == CSR_PROC2MNGR)))
  (h3 : (c.csrr && (csrnum w == CSR_MNGR2PROC)) = true → S.inp ≠ [])
  (hc : c ∈ [ (⟨y, br_na, n, imm_x, bm_x, n, alu_x, nr, wm_a, n, n, n⟩ : CS),
              ⟨y, br_na, n, imm_i, bm_csr, n, alu_cp1, nr, wm_a, y, y, n⟩,
              ⟨y, br_na, y, imm_i, bm_imm, n, alu_cp0, nr, wm_a, n, n, y⟩,
              ⟨y, br_na, y, imm_x, bm_rf, y, alu_add, nr, wm_a, y, n, n⟩,
              ⟨y, br_na, y, imm_x, bm_rf, y, alu_sll, nr, wm_a, y, n, n⟩,
              ⟨y, br_na, y, imm_x, bm_rf, y, alu_srl, nr, wm_a, y, n, n⟩,
              ⟨y, br_na, y, imm_i, bm_imm, n, alu_add, nr, wm_a, y, n, n⟩,
              ⟨y, br_na, y, imm_i, bm_imm, n, alu_add, ld, wm_m, y, n, n⟩,
              ⟨y, br_na, y, imm_s, bm_imm, y, alu_add, st, wm_m, n, n, n⟩,
              ⟨y, br_ne, y, imm_b, bm_rf, y, alu_x, nr, wm_x, n, n, n⟩,
              ⟨y, br_na, y, imm_x, bm_rf, y, alu_and, nr, wm_a, y, n, n⟩ ]) : RowOk S w := by
  simp only [List.mem_cons, List.not_mem_nil, or_false] at hc
  rcases hc with hc | hc | hc | hc | hc | hc | hc | hc | hc | hc | hc <;> subst hc <;>
  constructor <;>
  simp_all [U.m2p, U.p2m, y, n, br_na, br_ne, imm_x, imm_i, imm_s, imm_b, bm_x, bm_rf, bm_imm, bm_csr,
    alu_x, alu_cp0, alu_cp1, alu_add, alu_sll, alu_srl, alu_and, nr, ld, st, wm_a, wm_m, wm_x, alu]

local macro "usimp" h:ident : tactic => `(tactic|
  simp [U.next, U.taken, U.wb, U.aluv, U.op1, U.op2, U.rs2v, U.imm, U.m2p, U.p2m, $h:ident, y, n, br_na, br_ne, imm_x, imm_i, imm_s,
    imm_b, bm_x, bm_rf, bm_imm, bm_csr, alu_x, alu_cp0, alu_cp1, alu_add, alu_sll, alu_srl, alu_and, nr, ld, st, wm_a,
    wm_m, wm_x, alu, immgen_I, immgen_S, immgen_B, rs1, rs2, rd, csrnum, fields])

theorem exec_uniform (S S' : TinyRV0.State) (w : Nat) (ins : Inst)
    (hd : decode w = some ins) (he : exec S ins = .ok S') : S' = U.next S w ∧ RowOk S w := by
  unfold decode at hd
  split at hd
  · unfold decodeF at hd
    have e1 : (fields w).opc = w % 128 := rfl
    have e2 : (fields w).f3 = w / 2^12 % 8 := rfl
    have e3 : (fields w).f7 = w / 2^25 % 128 := rfl
    rw [e1, e2, e3] at hd
    repeat' split at hd
    all_goals try (simp at hd; done)
    all_goals (injection hd with hd; subst hd)
    · -- add
      have hrow := row_add w ‹_› ‹_›
      refine ⟨?_, rowOk_of S w _ hrow (by simp [n]) (by simp [n]) (by simp [n]) (by simp)⟩
      simp only [exec] at he; cases he
      usimp hrow
    · -- sll
      have hrow := row_sll w ‹_› ‹_›
      refine ⟨?_, rowOk_of S w _ hrow (by simp [n]) (by simp [n]) (by simp [n]) (by simp)⟩
      simp only [exec] at he; cases he
      usimp hrow
    · -- srl
      have hrow := row_srl w ‹_› ‹_›
      refine ⟨?_, rowOk_of S w _ hrow (by simp [n]) (by simp [n]) (by simp [n]) (by simp)⟩
      simp only [exec] at he; cases he
      usimp hrow
    · -- and
      have hrow := row_and w ‹_› ‹_›
      refine ⟨?_, rowOk_of S w _ hrow (by simp [n]) (by simp [n]) (by simp [n]) (by simp)⟩
      simp only [exec] at he; cases he
      usimp hrow
    · -- addi (and the canonical nop)
      by_cases h19 : w = 19
      · have hrow := row_nop w h19
        refine ⟨?_, rowOk_of S w _ hrow (by simp [n]) (by simp [n]) (by simp [n]) (by simp)⟩
        simp only [exec] at he; cases he
        subst h19
        usimp hrow
        simp [rset]
      · have hrow := row_addi w h19 ‹_› ‹_›
        refine ⟨?_, rowOk_of S w _ hrow (by simp [n]) (by simp [n]) (by simp [n]) (by simp)⟩
        simp only [exec] at he; cases he
        usimp hrow
    · -- lw
      have hrow := row_lw w ‹_› ‹_›
      refine ⟨?_, rowOk_of S w _ hrow (by simp [n]) (by simp [n]) (by simp [n]) (by simp)⟩
      simp only [exec] at he
      split at he
      · cases he; usimp hrow
      · cases he
    · -- sw
      have hrow := row_sw w ‹_› ‹_›
      refine ⟨?_, rowOk_of S w _ hrow (by simp [n]) (by simp [n]) (by simp [n]) (by simp)⟩
      simp only [exec] at he
      split at he
      · cases he; usimp hrow
      · cases he
    · -- bne
      have hrow := row_bne w ‹_› ‹_›
      refine ⟨?_, rowOk_of S w _ hrow (by simp [n]) (by simp [n]) (by simp [n]) (by simp)⟩
      simp only [exec] at he
      split at he
      · rename_i hne; cases he; usimp hrow
        simp [fields] at hne; intro h'; exact absurd h' hne
      · rename_i hne; cases he; usimp hrow
        simp [fields] at hne; intro h'; exact absurd hne h'
    · -- csrr
      rename_i h7 h3 hrs1
      simp only [exec] at he
      split at he
      · rename_i hcsr
        have hc : w / 2^20 % 4096 = 4032 := hcsr
        have hrow := row_csrr w h7 h3 (by omega)
        split at he
        · cases he
        · rename_i v rest hinp; cases he
          refine ⟨?_, rowOk_of S w _ hrow (by simp [y, csrnum, CSR_MNGR2PROC, hc]) (by simp [n]) (by simp [hinp]) (by simp)⟩
          usimp hrow
          simp [hc, hinp, CSR_MNGR2PROC]
      · cases he
    · -- csrw
      rename_i h7 _ h3 hrd
      simp only [exec] at he
      split at he
      · rename_i hcsr
        have hc : w / 2^20 % 4096 = 1984 := hcsr
        have hrow := row_csrw w h7 h3
        cases he
        refine ⟨?_, rowOk_of S w _ hrow (by simp [n]) (by simp [y, csrnum, CSR_PROC2MNGR, hc]) (by simp [n]) (by simp)⟩
        usimp hrow
        simp [hc, CSR_PROC2MNGR]
      · cases he
  · simp at hd

end PV.Pipe
