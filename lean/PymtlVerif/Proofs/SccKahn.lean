import PymtlVerif.Proofs.Scc
/-!
The worklist sort of `schedule_intra_cycle` is a run of Kahn's algorithm (`Model/Kahn.lean`) for a suitable tie-break
oracle: every complete list whose reverse is `Good` is the output of `kahn pick'` for the oracle that picks the next
element of that list. So `PV.Kahn.kahn_sound` applies to `scc_schedule` literally.
-/
namespace PV.Scc
open PV.Kahn

theorem ready_congr (V : List Nat) (E : List (Nat × Nat)) {d1 d2 : List Nat} (h : ∀ x, x ∈ d1 ↔ x ∈ d2) :
    ready V E d1 = ready V E d2 := by
  unfold ready
  apply List.filter_congr
  intro v _
  have : (E.all fun e => decide (e.2 = v → e.1 ∈ d1)) = (E.all fun e => decide (e.2 = v → e.1 ∈ d2)) := by
    congr 1; funext e; simp only [h]
  rw [this]
  simp only [h]

/-- the oracle that follows the list `s`: the position, in the ready list, of the first element of `s` that is ready -/
def followPick (s : List Nat) (r : List Nat) : Nat := r.idxOf ((s.find? (fun x => decide (x ∈ r))).getD 0)

theorem find_first {pre post : List Nat} {v : Nat} {r : List Nat} (hpre : ∀ x ∈ pre, x ∉ r) (hv : v ∈ r) :
    ((pre ++ v :: post).find? (fun x => decide (x ∈ r))).getD 0 = v := by
  induction pre with
  | nil => simp [hv]
  | cons a pre ih =>
    have ha : a ∉ r := hpre a List.mem_cons_self
    simp only [List.cons_append, List.find?_cons, ha, decide_false]
    exact ih (fun x hx => hpre x (List.mem_cons_of_mem _ hx))

theorem good_suffix {E : List (Nat × Nat)} : ∀ (a b : List Nat), Good E (a ++ b) → Good E b := by
  intro a
  induction a with
  | nil => intro b h; exact h
  | cons x a ih => intro b h; exact ih b h.2.2

theorem follow_is_kahn (V : List Nat) (E : List (Nat × Nat)) (s : List Nat)
    (hend : ready V E s.reverse = []) :
    ∀ (post pre : List Nat), s = pre ++ post → Good E (pre ++ post).reverse → (∀ v ∈ post, v ∈ V) →
      ∀ fuel, post.length ≤ fuel → kahn (followPick s) V E fuel pre.reverse = s := by
  intro post
  induction post with
  | nil =>
    intro pre hs _ _ fuel _
    simp only [List.append_nil] at hs
    subst hs
    cases fuel with
    | zero => simp [kahn]
    | succ f =>
      unfold kahn
      split
      · simp
      · next r rs hr => rw [hend] at hr; cases hr
  | cons v post ih =>
    intro pre hs hgood hV fuel hfuel
    cases fuel with
    | zero => simp at hfuel
    | succ f =>
      -- v is ready after `pre`
      have hg' : Good E (v :: pre.reverse) := by
        have : (pre ++ v :: post).reverse = post.reverse ++ (v :: pre.reverse) := by simp
        rw [this] at hgood
        exact good_suffix _ _ hgood
      obtain ⟨hvn, hvp, _⟩ := hg'
      have hvr : v ∈ ready V E pre.reverse := by
        unfold ready
        refine List.mem_filter.mpr ⟨hV v List.mem_cons_self, ?_⟩
        simp only [Bool.and_eq_true, decide_eq_true_eq, List.all_eq_true]
        exact ⟨hvn, fun e he => hvp e he⟩
      have hpre : ∀ x ∈ pre, x ∉ ready V E pre.reverse := by
        intro x hx hr
        exact (mem_ready hr).2.1 (List.mem_reverse.mpr hx)
      unfold kahn
      split
      · next hr => rw [hr] at hvr; simp at hvr
      · next r rs hr =>
        have hidx : followPick s (r :: rs) = (r :: rs).idxOf v := by
          unfold followPick
          rw [hs, ← hr, find_first hpre hvr]
        have hlt : (r :: rs).idxOf v < (r :: rs).length := List.idxOf_lt_length_iff.mpr (hr ▸ hvr)
        have hget : (r :: rs)[followPick s (r :: rs) % (r :: rs).length]'(Nat.mod_lt _ (by simp)) = v := by
          have : followPick s (r :: rs) % (r :: rs).length = (r :: rs).idxOf v := by rw [hidx]; exact Nat.mod_eq_of_lt hlt
          simp only [this]
          exact List.getElem_idxOf hlt
        simp only [hget]
        have := ih (pre ++ [v]) (by rw [hs]; simp) (by simpa using hgood) (fun x hx => hV x (List.mem_cons_of_mem _ hx))
          f (by simp at hfuel; omega)
        simpa using this

/-- **`scc_schedule` is a Kahn run**: for every worklist discipline there is a tie-break oracle with which
`PV.Kahn.kahn` (over the group indices and the condensation edges) produces exactly `scc_schedule` -/
theorem schedule_is_kahn_run {gn : Graph} {n : Nat} (hc : Cond gn n) (pick : List Nat → List Nat → Nat) :
    ∃ pick', sccSchedule pick gn n = kahn pick' (List.range n) (condEdgeList gn n) n [] := by
  obtain ⟨inv, hdone⟩ := topo_final hc pick n (Nat.le_refl _)
  have hall := topo_complete hc _ inv hdone
  change TInv gn n (topo pick gn n) at inv
  change ∀ v, v < n → v ∈ sccSchedule pick gn n at hall
  obtain ⟨_, _, hmem, hlen, _⟩ := schedule_facts hc pick
  refine ⟨followPick (sccSchedule pick gn n), ?_⟩
  have hend : ready (List.range n) (condEdgeList gn n) (sccSchedule pick gn n).reverse = [] := by
    unfold ready
    rw [List.filter_eq_nil_iff]
    intro v hv
    have : v ∈ (sccSchedule pick gn n).reverse := List.mem_reverse.mpr (hall v (List.mem_range.mp hv))
    simp [this]
  have := follow_is_kahn (List.range n) (condEdgeList gn n) (sccSchedule pick gn n) hend (sccSchedule pick gn n) []
    (by simp) (by simpa [sccSchedule] using inv.good) (fun v hv => List.mem_range.mpr ((hmem v).mp hv)) n (by omega)
  simpa using this.symm

end PV.Scc
