import PymtlVerif.Proofs.PipeRef1
/-!
For every state reachable from power-on under ANY input list: no control word in X / M / W both writes a
register and sends to proc2mngr (rows of the control table never do, and the registers are only loaded from
rows).  Consequence: a stalled W stage (it stalls only on proc2mngr back-pressure) never writes the register
file, although `rf_wen_W` is not gated by `stall_W` in the code.
-/
namespace PV.Pipe

def Excl (s : State) : Prop :=
  (s.cx.proc2mngr_en = true → s.cx.rf_wen_pending = false) ∧
  (s.cm.proc2mngr_en = true → s.cm.rf_wen_pending = false) ∧
  (s.cw.proc2mngr_en = true → s.cw.rf_wen_pending = false)

theorem excl_init : Excl State.init := by
  refine ⟨?_, ?_, ?_⟩ <;> intro h <;> cases h

theorem excl_step {s : State} (h : Excl s) (i : EnvIn) : Excl (next s i) := by
  obtain ⟨hx, hm, hw⟩ := h
  have hD : (ctlX_next s).proc2mngr_en = true → (ctlX_next s).rf_wen_pending = false := by
    intro h
    simp only [ctlX_next, proc2mngr_en_D, Bool.and_eq_true] at h
    exact csTable_excl _ h.1
  rcases Bool.eq_false_or_eq_true i.reset with hr | hr
  · refine ⟨?_, ?_, ?_⟩ <;> simp only [next, hr, if_true] <;> assumption
  · refine ⟨?_, ?_, ?_⟩
    · simp only [next, hr]
      rcases Bool.eq_false_or_eq_true (reg_en_X s i) with a | a <;> simp [a] <;> assumption
    · simp only [next, hr]
      rcases Bool.eq_false_or_eq_true (reg_en_M s i) with a | a <;> simp [a, ctlM_next] <;> assumption
    · simp only [next, hr]
      rcases Bool.eq_false_or_eq_true (reg_en_W s i) with a | a <;> simp [a, ctlW_next] <;> assumption

theorem excl_run (envs : List EnvIn) : Excl (runS State.init envs) := by
  suffices ∀ s, Excl s → Excl (runS s envs) from this _ excl_init
  induction envs with
  | nil => intro s h; exact h
  | cons i is ih => intro s h; exact ih _ (excl_step h i)

/-- a register-file write comes from a valid, NON-STALLED W-stage instruction with `rf_wen_pending` -/
theorem rf_change_unstalled {s : State} (h : Excl s) (i : EnvIn) (hc : (next s i).rf ≠ s.rf) :
    s.val_W = true ∧ stall_W s i = false ∧ commit_inst s i = true ∧ s.cw.rf_wen_pending = true ∧
    s.cw.rf_waddr ≠ 0 ∧ (next s i).rf = s.rf.set s.cw.rf_waddr s.wb_result_W := by
  obtain ⟨a, b, c, d⟩ := rf_change s i hc
  have hs : stall_W s i = false := by
    rcases Bool.eq_false_or_eq_true (stall_W s i) with e | e
    · have : s.cw.proc2mngr_en = true := by simp [stall_W, ostall_W] at e; exact e.2.1.2
      rw [h.2.2 this] at b; cases b
    · exact e
  exact ⟨a, hs, by simp [commit_inst, a, hs], b, c, d⟩

end PV.Pipe
