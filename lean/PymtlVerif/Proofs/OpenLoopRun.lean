import PymtlVerif.Model.OpenLoop
/-!
Run-time part of `Model/OpenLoop.lean`: the wrapper indices, and the invariant of `actual_method` over arbitrary
sequences of top-level calls. Lemmas for `Props/C02o.lean`.
-/
namespace PV.OpenLoop

/-! ## `runRange`, `fullEvents` -/

def Ev.isRun : Ev → Bool
  | .run _ => true
  | .meth _ => false

/-- `my_idx_new` of a CalleePort at index `p`: the number of non-method entries before it -/
def npc (S : List Slot) (p : Nat) : Nat := (snm (S.take p)).length

theorem snm_append (A B : List Slot) : snm (A ++ B) = snm A ++ snm B := by simp [snm]

theorem runRange_self (a : Nat) : runRange a a = [] := by simp [runRange]

theorem runRange_of_le {a b : Nat} (h : b ≤ a) : runRange a b = [] := by
  have : b - a = 0 := by omega
  simp [runRange, this]

theorem runRange_append {a b c : Nat} (h1 : a ≤ b) (h2 : b ≤ c) : runRange a b ++ runRange b c = runRange a c := by
  unfold runRange
  rw [← List.map_append]
  congr 1
  have e1 : c - a = (b - a) + (c - b) := by omega
  have e2 : b = a + (b - a) := by omega
  have e3 : a + (b - a) = b := by omega
  rw [e1, ← List.range'_append_1, e3]

theorem runRange_zero (n : Nat) : runRange 0 n = (List.range n).map Ev.run := by
  simp [runRange, List.range_eq_range']

theorem filter_runRange (a b : Nat) : (runRange a b).filter Ev.isRun = runRange a b := by
  unfold runRange
  rw [List.filter_eq_self]
  intro e he
  obtain ⟨k, _, rfl⟩ := List.mem_map.mp he
  rfl

theorem fullEvents_append (A B : List Slot) : ∀ (p k : Nat),
    fullEvents (A ++ B) p k = fullEvents A p k ++ fullEvents B (p + A.length) (k + (snm A).length) := by
  induction A with
  | nil => intro p k; simp [fullEvents, snm]
  | cons x xs ih =>
    intro p k
    cases hx : x.isPort with
    | true =>
      simp only [List.cons_append, fullEvents, hx, if_true, ih, snm, List.filter_cons, Bool.not_true, List.length_cons]
      simp only [Bool.false_eq_true, if_false]
      rw [show p + 1 + xs.length = p + (xs.length + 1) by omega]
    | false =>
      simp only [List.cons_append, fullEvents, hx, snm, List.filter_cons, Bool.not_false, if_true, List.length_cons, ih]
      simp only [Bool.false_eq_true, if_false, List.cons_append]
      rw [show p + 1 + xs.length = p + (xs.length + 1) by omega,
        show k + 1 + (List.filter (fun x => !x.isPort) xs).length = k + ((List.filter (fun x => !x.isPort) xs).length + 1) by omega]

theorem fullEvents_length (A : List Slot) : ∀ (p k : Nat), (fullEvents A p k).length = A.length := by
  induction A with
  | nil => intro p k; rfl
  | cons x xs ih =>
    intro p k
    cases hx : x.isPort <;> simp [fullEvents, hx, ih]

/-- the `run` events of a stretch of the schedule are its non-method entries, numbered consecutively -/
theorem filter_fullEvents (A : List Slot) : ∀ (p k : Nat),
    (fullEvents A p k).filter Ev.isRun = runRange k (k + (snm A).length) := by
  induction A with
  | nil => intro p k; simp [fullEvents, snm, runRange]
  | cons x xs ih =>
    intro p k
    cases hx : x.isPort with
    | true =>
      simp only [fullEvents, hx, if_true, List.filter_cons, Ev.isRun, Bool.false_eq_true, if_false, ih, snm, Bool.not_true]
    | false =>
      simp only [fullEvents, hx, Bool.false_eq_true, if_false, List.filter_cons, Ev.isRun, if_true, ih, snm, Bool.not_false,
        List.length_cons]
      have h1 : runRange k (k + 1) = [Ev.run k] := by simp [runRange]
      rw [← List.singleton_append, ← h1, show k + 1 + (List.filter (fun x => !x.isPort) xs).length =
        k + ((List.filter (fun x => !x.isPort) xs).length + 1) by omega]
      exact runRange_append (by omega) (by omega)

theorem mem_fullEvents {A : List Slot} : ∀ {p k : Nat} {e : Ev}, e ∈ fullEvents A p k →
    (∀ q, e = Ev.meth q → p ≤ q) ∧ (∀ r, e = Ev.run r → k ≤ r) := by
  induction A with
  | nil => intro p k e h; simp [fullEvents] at h
  | cons x xs ih =>
    intro p k e h
    cases hx : x.isPort with
    | true =>
      simp only [fullEvents, hx, if_true, List.mem_cons] at h
      rcases h with rfl | h
      · exact ⟨fun q hq => (by cases hq; exact Nat.le_refl _), fun r hr => (by cases hr)⟩
      · obtain ⟨h1, h2⟩ := ih h
        exact ⟨fun q hq => by have := h1 q hq; omega, h2⟩
    | false =>
      simp only [fullEvents, hx, Bool.false_eq_true, if_false, List.mem_cons] at h
      rcases h with rfl | h
      · exact ⟨fun q hq => (by cases hq), fun r hr => (by cases hr; exact Nat.le_refl _)⟩
      · obtain ⟨h1, h2⟩ := ih h
        exact ⟨fun q hq => by have := h1 q hq; omega, fun r hr => by have := h2 r hr; omega⟩

theorem fullEvents_nodup (A : List Slot) : ∀ (p k : Nat), (fullEvents A p k).Nodup := by
  induction A with
  | nil => intro p k; simp [fullEvents]
  | cons x xs ih =>
    intro p k
    cases hx : x.isPort with
    | true =>
      simp only [fullEvents, hx, if_true, List.nodup_cons]
      refine ⟨fun h => ?_, ih _ _⟩
      have := (mem_fullEvents h).1 p rfl
      omega
    | false =>
      simp only [fullEvents, hx, Bool.false_eq_true, if_false, List.nodup_cons]
      refine ⟨fun h => ?_, ih _ _⟩
      have := (mem_fullEvents h).2 k rfl
      omega

/-- the event of the entry at index `q` of the schedule: the method of the port, or `schedule_no_method[npc q]` -/
theorem fullEvents_getElem (S : List Slot) (q : Nat) (hq : q < S.length) :
    (fullEvents S 0 0)[q]'(by rw [fullEvents_length]; exact hq) = if S[q].isPort then Ev.meth q else Ev.run (npc S q) := by
  have hS : S = S.take q ++ S[q] :: S.drop (q + 1) := by
    rw [List.getElem_cons_drop, List.take_append_drop]
  have hlen : (S.take q).length = q := by simp; omega
  have key : fullEvents S 0 0 = fullEvents (S.take q) 0 0 ++
      (if S[q].isPort then Ev.meth q else Ev.run (npc S q)) :: fullEvents (S.drop (q + 1)) (q + 1)
        (if S[q].isPort then npc S q else npc S q + 1) := by
    conv => lhs; rw [hS]
    rw [fullEvents_append, hlen]
    simp only [Nat.zero_add, fullEvents, npc]
    cases S[q].isPort <;> simp
  have hl : (fullEvents (S.take q) 0 0).length = q := by rw [fullEvents_length, hlen]
  simp only [key]
  rw [List.getElem_append_right (by omega)]
  simp [hl]

/-! ## the wrapper indices -/

theorem lastIdx_none (x : Slot) : ∀ (l : List Slot) (k : Nat), x ∉ l → lastIdx x l k = none := by
  intro l
  induction l with
  | nil => intro k _; rfl
  | cons y ys ih =>
    intro k h
    have h1 : x ∉ ys := fun h' => h (List.mem_cons_of_mem _ h')
    have h2 : y ≠ x := fun h' => h (h' ▸ List.mem_cons_self)
    simp [lastIdx, ih (k + 1) h1, h2]

/-- `mapping[x]` is the position of the last `x` -/
theorem lastIdx_last (x : Slot) (b : List Slot) (hb : x ∉ b) : ∀ (a : List Slot) (k : Nat),
    lastIdx x (a ++ x :: b) k = some (k + a.length) := by
  intro a
  induction a with
  | nil => intro k; simp [lastIdx, lastIdx_none x b (k + 1) hb]
  | cons y ys ih =>
    intro k
    simp only [List.cons_append, lastIdx, ih (k + 1), List.length_cons]
    congr 1; omega

theorem takeWhile_ports (T : List Slot) (f : Slot) (B : List Slot) (hT : ∀ x ∈ T, x.isPort = true) (hf : f.isPort = false) :
    (T ++ f :: B).takeWhile Slot.isPort = T := by
  induction T with
  | nil => simp [hf]
  | cons y ys ih =>
    simp only [List.cons_append, List.takeWhile, hT y List.mem_cons_self]
    rw [ih (fun x hx => hT x (List.mem_cons_of_mem _ hx))]

theorem snm_ports (T : List Slot) (hT : ∀ x ∈ T, x.isPort = true) : snm T = [] := by
  unfold snm
  rw [List.filter_eq_nil_iff]
  intro x hx
  simp [hT x hx]

/-- the wrapper of a port followed by ports `T` and then the function `f`, which does not occur again later -/
theorem wrapAt_decomposed (A T B : List Slot) (v : Nat) (f : Slot) (hT : ∀ x ∈ T, x.isPort = true) (hf : f.isPort = false)
    (hfB : f ∉ snm B) :
    wrapAt (A ++ Slot.port v :: (T ++ f :: B)) A.length = some ⟨A.length, (snm A).length⟩ := by
  unfold wrapAt
  have h1 : (A ++ Slot.port v :: (T ++ f :: B))[A.length]? = some (Slot.port v) := by simp
  have hdrop : (A ++ Slot.port v :: (T ++ f :: B)).drop (A.length + 1) = T ++ f :: B := by
    rw [show A ++ Slot.port v :: (T ++ f :: B) = (A ++ [Slot.port v]) ++ (T ++ f :: B) by simp]
    exact List.drop_left' (by simp)
  have h2 : nextFunc (A ++ Slot.port v :: (T ++ f :: B)) A.length = A.length + 1 + T.length := by
    unfold nextFunc
    rw [hdrop, takeWhile_ports T f B hT hf]
  have h3 : (A ++ Slot.port v :: (T ++ f :: B))[A.length + 1 + T.length]? = some f := by
    rw [show A ++ Slot.port v :: (T ++ f :: B) = (A ++ Slot.port v :: T) ++ f :: B by simp]
    rw [List.getElem?_append_right (by simp; omega)]
    have : A.length + 1 + T.length - (A ++ Slot.port v :: T).length = 0 := by simp; omega
    rw [this]; rfl
  have h4 : snm (A ++ Slot.port v :: (T ++ f :: B)) = snm A ++ f :: snm B := by
    rw [snm_append]
    have : snm (Slot.port v :: (T ++ f :: B)) = f :: snm B := by
      have e : snm (Slot.port v :: (T ++ f :: B)) = snm (T ++ f :: B) := by simp [snm, Slot.isPort]
      rw [e, snm_append, snm_ports T hT]
      simp [snm, hf]
    rw [this]
  rw [h1]
  simp only [h2, h3, h4, lastIdx_last f (snm B) hfB (snm A) 0]
  simp

/-- a port that is followed by some non-method entry splits the schedule as `wrapAt_decomposed` wants -/
theorem decompose (S : List Slot) (p : Nat) (v : Nat) (hp : S[p]? = some (Slot.port v))
    (hlater : ∃ q, p < q ∧ ∃ x, S[q]? = some x ∧ x.isPort = false) :
    ∃ T f B, S = S.take p ++ Slot.port v :: (T ++ f :: B) ∧ (∀ x ∈ T, x.isPort = true) ∧ f.isPort = false := by
  have hpl : p < S.length := by
    rcases Nat.lt_or_ge p S.length with h | h
    · exact h
    · rw [List.getElem?_eq_none h] at hp; cases hp
  have hSp : S[p] = Slot.port v := by
    rw [List.getElem?_eq_getElem hpl] at hp; exact Option.some.inj hp
  have hS : S = S.take p ++ Slot.port v :: S.drop (p + 1) := by
    rw [← hSp, List.getElem_cons_drop, List.take_append_drop]
  obtain ⟨q, hq, x, hx, hxp⟩ := hlater
  have hql : q < S.length := by
    rcases Nat.lt_or_ge q S.length with h | h
    · exact h
    · rw [List.getElem?_eq_none h] at hx; cases hx
  have hxmem : x ∈ S.drop (p + 1) := by
    rw [List.mem_iff_getElem?]
    refine ⟨q - (p + 1), ?_⟩
    rw [List.getElem?_drop, show p + 1 + (q - (p + 1)) = q by omega]
    exact hx
  have hsplit := List.takeWhile_append_dropWhile (p := Slot.isPort) (l := S.drop (p + 1))
  have hT : ∀ y ∈ (S.drop (p + 1)).takeWhile Slot.isPort, y.isPort = true := by
    have := List.all_takeWhile (p := Slot.isPort) (l := S.drop (p + 1))
    rw [List.all_eq_true] at this
    exact this
  cases hd : (S.drop (p + 1)).dropWhile Slot.isPort with
  | nil =>
    exfalso
    rw [hd, List.append_nil] at hsplit
    have := hT x (by rw [hsplit]; exact hxmem)
    rw [hxp] at this; cases this
  | cons f B =>
    refine ⟨(S.drop (p + 1)).takeWhile Slot.isPort, f, B, ?_, hT, ?_⟩
    · rw [← hd, hsplit]; exact hS
    · have := List.head_dropWhile_not Slot.isPort (l := S.drop (p + 1)) (by rw [hd]; simp)
      simpa [hd] using this

/-- what the run-time theorems need of a schedule: no function occurs twice in `schedule_no_method`, and the last entry
is a function (`ffs` is never empty) -/
structure SchedOK (S : List Slot) : Prop where
  nodup : (snm S).Nodup
  last : ∃ x, S.getLast? = some x ∧ x.isPort = false

/-- **wrapper indices**: `my_idx_orig = p`, `my_idx_new` = the number of non-method entries before `p` -/
theorem wrapAt_spec {S : List Slot} (ok : SchedOK S) {p v : Nat} (hp : S[p]? = some (Slot.port v)) :
    wrapAt S p = some ⟨p, npc S p⟩ := by
  have hpl : p < S.length := by
    rcases Nat.lt_or_ge p S.length with h | h
    · exact h
    · rw [List.getElem?_eq_none h] at hp; cases hp
  obtain ⟨x, hx, hxp⟩ := ok.last
  have hlast : S[S.length - 1]? = some x := by rw [← List.getLast?_eq_getElem?]; exact hx
  have hne : p ≠ S.length - 1 := by
    intro h; rw [← h, hp] at hlast
    have := Option.some.inj hlast; subst this; cases hxp
  obtain ⟨T, f, B, hS, hT, hf⟩ := decompose S p v hp ⟨S.length - 1, by omega, x, hlast, hxp⟩
  have hlen : (S.take p).length = p := by simp; omega
  have hsnm : snm S = snm (S.take p) ++ f :: snm B := by
    conv => lhs; rw [hS]
    rw [snm_append]
    have e : snm (Slot.port v :: (T ++ f :: B)) = snm (T ++ f :: B) := by simp [snm, Slot.isPort]
    rw [e, snm_append, snm_ports T hT]
    simp [snm, hf]
  have hfB : f ∉ snm B := by
    have := ok.nodup
    rw [hsnm, List.nodup_append] at this
    exact (List.nodup_cons.mp this.2.1).1
  have := wrapAt_decomposed (S.take p) T B v f hT hf hfB
  rw [← hS, hlen] at this
  rw [this]; rfl

theorem wrapAt_some {S : List Slot} {p : Nat} {w : Wrap} (h : wrapAt S p = some w) : ∃ v, S[p]? = some (Slot.port v) := by
  unfold wrapAt at h
  split at h
  · next v hv => exact ⟨v, hv⟩
  · cases h

theorem npc_add (S : List Slot) (a d : Nat) : npc S (a + d) = npc S a + (snm ((S.drop a).take d)).length := by
  unfold npc
  rw [List.take_add, snm_append, List.length_append]

theorem npc_le_of_le (S : List Slot) {a b : Nat} (h : a ≤ b) : npc S a ≤ npc S b := by
  obtain ⟨d, rfl⟩ := Nat.exists_eq_add_of_le h
  rw [npc_add]; omega

/-! ## the calls -/

/-- the call of the CalleePort at index `p`, with the wrapper indices of `wrapAt_spec` -/
def callS (S : List Slot) (s : St) (p : Nat) : St := callW (snm S).length ⟨p, npc S p⟩ s

def execS (S : List Slot) (s : St) (calls : List Nat) : St := calls.foldl (callS S) s

theorem callAt_eq {S : List Slot} (ok : SchedOK S) (s : St) {p v : Nat} (hp : S[p]? = some (Slot.port v)) :
    callAt S s p = some (callS S s p) := by
  unfold callAt callS
  rw [wrapAt_spec ok hp]; rfl

theorem exec_eq {S : List Slot} (ok : SchedOK S) : ∀ (calls : List Nat) (s : St),
    (∀ p ∈ calls, ∃ v, S[p]? = some (Slot.port v)) → exec S s calls = some (execS S s calls) := by
  intro calls
  induction calls with
  | nil => intro s _; rfl
  | cons p ps ih =>
    intro s h
    obtain ⟨v, hv⟩ := h p List.mem_cons_self
    simp only [exec, callAt_eq ok s hv, Option.bind_some, execS, List.foldl_cons]
    exact ih _ (fun q hq => h q (List.mem_cons_of_mem _ hq))

theorem exec_some {S : List Slot} : ∀ (calls : List Nat) (s r : St), exec S s calls = some r →
    ∀ p ∈ calls, ∃ v, S[p]? = some (Slot.port v) := by
  intro calls
  induction calls with
  | nil => intro s r _ p hp; simp at hp
  | cons q qs ih =>
    intro s r h p hp
    simp only [exec] at h
    cases hc : callAt S s q with
    | none => simp [hc] at h
    | some s' =>
      rw [hc, Option.bind_some] at h
      rcases List.mem_cons.mp hp with rfl | hp
      · unfold callAt at hc
        cases hw : wrapAt S p with
        | none => simp [hw] at hc
        | some w => exact wrapAt_some hw
      · exact ih s' r h p hp

/-- invariant of the log and the two indices -/
structure Inv (S : List Slot) (s : St) : Prop where
  jle : s.j ≤ S.length
  ieq : s.i = npc S s.j
  cur_sub : s.cur.Sublist (fullEvents (S.take s.j) 0 0)
  cur_run : s.cur.filter Ev.isRun = runRange 0 s.i
  done_sub : ∀ c ∈ s.done, c.Sublist (fullEvents S 0 0)
  done_run : ∀ c ∈ s.done, c.filter Ev.isRun = runRange 0 (snm S).length

theorem inv_init (S : List Slot) : Inv S St.init :=
  ⟨Nat.zero_le _, by simp [St.init, npc, snm], by simp [St.init], by simp [St.init, runRange], by simp [St.init], by simp [St.init]⟩

theorem npc_length (S : List Slot) : npc S S.length = (snm S).length := by simp [npc]

/-- finishing the cycle: `while i < len(schedule_no_method): …` -/
theorem inv_flush {S : List Slot} {s : St} (inv : Inv S s) :
    Inv S ⟨0, 0, s.cycles + 1, s.done ++ [s.cur ++ runRange s.i (snm S).length], []⟩ := by
  have hS : S = S.take s.j ++ S.drop s.j := (List.take_append_drop _ _).symm
  have hlen : (S.take s.j).length = s.j := by simp only [List.length_take]; exact Nat.min_eq_left inv.jle
  have hfull : fullEvents S 0 0 = fullEvents (S.take s.j) 0 0 ++ fullEvents (S.drop s.j) s.j s.i := by
    conv => lhs; rw [hS]
    rw [fullEvents_append, hlen, inv.ieq]; simp [npc]
  have hN : (snm S).length = s.i + (snm (S.drop s.j)).length := by
    conv => lhs; rw [hS]
    rw [snm_append, List.length_append, inv.ieq]; rfl
  have hrr : runRange s.i (snm S).length = (fullEvents (S.drop s.j) s.j s.i).filter Ev.isRun := by
    rw [filter_fullEvents, hN]
  refine ⟨Nat.zero_le _, by simp [npc, snm], by simp, by simp [runRange], ?_, ?_⟩
  · intro c hc
    rcases List.mem_append.mp hc with hc | hc
    · exact inv.done_sub c hc
    · simp only [List.mem_singleton] at hc; subst hc
      rw [hfull, hrr]
      exact List.Sublist.append inv.cur_sub List.filter_sublist
  · intro c hc
    rcases List.mem_append.mp hc with hc | hc
    · exact inv.done_run c hc
    · simp only [List.mem_singleton] at hc; subst hc
      rw [List.filter_append, inv.cur_run, filter_runRange]
      exact runRange_append (Nat.zero_le _) (by omega)

theorem take_succ_port {S : List Slot} {p v : Nat} (hp : S[p]? = some (Slot.port v)) : S.take (p + 1) = S.take p ++ [Slot.port v] := by
  rw [List.take_add_one, hp]; rfl

theorem npc_succ_port {S : List Slot} {p v : Nat} (hp : S[p]? = some (Slot.port v)) : npc S (p + 1) = npc S p := by
  unfold npc
  rw [take_succ_port hp, snm_append]
  simp [snm, Slot.isPort]

/-- catching up and calling: `while i < my_idx_new: …; j = my_idx_orig + 1; method()` -/
theorem inv_advance {S : List Slot} {s : St} (inv : Inv S s) {p v : Nat} (hp : S[p]? = some (Slot.port v)) (hj : s.j ≤ p) :
    Inv S { s with i := if s.i < npc S p then npc S p else s.i, j := p + 1,
                   cur := s.cur ++ runRange s.i (npc S p) ++ [Ev.meth p] } ∧
    (if s.i < npc S p then npc S p else s.i) = npc S p := by
  have hpl : p < S.length := by
    rcases Nat.lt_or_ge p S.length with h | h
    · exact h
    · rw [List.getElem?_eq_none h] at hp; cases hp
  have hile : s.i ≤ npc S p := by rw [inv.ieq]; exact npc_le_of_le S hj
  have hi' : (if s.i < npc S p then npc S p else s.i) = npc S p := by
    split
    · rfl
    · omega
  refine ⟨?_, hi'⟩
  obtain ⟨d, rfl⟩ := Nat.exists_eq_add_of_le hj
  have hnp : npc S (s.j + d) = s.i + (snm ((S.drop s.j).take d)).length := by rw [npc_add, inv.ieq]
  have htake : S.take (s.j + d + 1) = S.take s.j ++ (S.drop s.j).take d ++ [Slot.port v] := by
    rw [take_succ_port hp, List.take_add]
  have hlen : (S.take s.j).length = s.j := by simp only [List.length_take]; exact Nat.min_eq_left inv.jle
  have hlen2 : ((S.drop s.j).take d).length = d := by simp; omega
  have hfull : fullEvents (S.take (s.j + d + 1)) 0 0 =
      fullEvents (S.take s.j) 0 0 ++ fullEvents ((S.drop s.j).take d) s.j s.i ++ [Ev.meth (s.j + d)] := by
    rw [htake, fullEvents_append, fullEvents_append, hlen, List.length_append, hlen, hlen2]
    simp only [Nat.zero_add, fullEvents, Slot.isPort, if_true]
    rw [inv.ieq]; rfl
  refine ⟨by simp only; omega, ?_, ?_, ?_, inv.done_sub, inv.done_run⟩
  · simp only [hi']; exact (npc_succ_port hp).symm
  · simp only
    rw [hfull]
    refine List.Sublist.append (List.Sublist.append inv.cur_sub ?_) (List.Sublist.refl _)
    rw [hnp, ← filter_fullEvents ((S.drop s.j).take d) s.j s.i]
    exact List.filter_sublist
  · simp only [hi']
    rw [List.filter_append, List.filter_append, inv.cur_run, filter_runRange]
    simp only [List.filter_cons, Ev.isRun, Bool.false_eq_true, if_false, List.filter_nil, List.append_nil]
    exact runRange_append (Nat.zero_le _) hile

theorem inv_call {S : List Slot} {s : St} (inv : Inv S s) {p v : Nat} (hp : S[p]? = some (Slot.port v)) : Inv S (callS S s p) := by
  unfold callS callW
  by_cases hj : s.j > p
  · simp only [hj, if_true]
    exact (inv_advance (inv_flush inv) hp (Nat.zero_le _)).1
  · simp only [hj, if_false]
    exact (inv_advance inv hp (by omega)).1

theorem inv_exec {S : List Slot} : ∀ (calls : List Nat) (s : St), Inv S s →
    (∀ p ∈ calls, ∃ v, S[p]? = some (Slot.port v)) → Inv S (execS S s calls) := by
  intro calls
  induction calls with
  | nil => intro s h _; exact h
  | cons p ps ih =>
    intro s h hc
    obtain ⟨v, hv⟩ := hc p List.mem_cons_self
    simp only [execS, List.foldl_cons]
    exact ih _ (inv_call h hv) (fun q hq => hc q (List.mem_cons_of_mem _ hq))

/-- **the plan of one call**, in closed form -/
theorem callS_eq {S : List Slot} {s : St} (inv : Inv S s) {p v : Nat} (hp : S[p]? = some (Slot.port v)) :
    callS S s p =
      if s.j ≤ p then
        ⟨npc S p, p + 1, s.cycles, s.done, s.cur ++ runRange (npc S s.j) (npc S p) ++ [Ev.meth p]⟩
      else
        ⟨npc S p, p + 1, s.cycles + 1, s.done ++ [s.cur ++ runRange (npc S s.j) (snm S).length],
          runRange 0 (npc S p) ++ [Ev.meth p]⟩ := by
  unfold callS callW
  by_cases hj : s.j > p
  · have h2 : ¬ s.j ≤ p := by omega
    simp only [hj, if_true, h2, if_false]
    have := (inv_advance (inv_flush inv) hp (Nat.zero_le _)).2
    simp only at this
    simp only [this, inv.ieq, List.nil_append]
  · have h2 : s.j ≤ p := by omega
    simp only [hj, if_false, h2, if_true]
    have := (inv_advance inv hp h2).2
    rw [this, inv.ieq]

/-! ## methods in call order, cycle count -/

def Ev.methIdx : Ev → Option Nat
  | .meth p => some p
  | .run _ => none

def methsOf (s : St) : List Nat := (s.done.flatten ++ s.cur).filterMap Ev.methIdx

theorem filterMap_runRange (a b : Nat) : (runRange a b).filterMap Ev.methIdx = [] := by
  unfold runRange
  rw [List.filterMap_eq_nil_iff]
  intro e he
  obtain ⟨k, _, rfl⟩ := List.mem_map.mp he
  rfl

theorem methsOf_call (S : List Slot) (s : St) (p : Nat) : methsOf (callS S s p) = methsOf s ++ [p] := by
  unfold callS callW methsOf
  by_cases hj : s.j > p
  · simp [hj, List.filterMap_append, filterMap_runRange, Ev.methIdx]
  · simp [hj, List.filterMap_append, filterMap_runRange, Ev.methIdx]

theorem methsOf_exec (S : List Slot) : ∀ (calls : List Nat) (s : St), methsOf (execS S s calls) = methsOf s ++ calls := by
  intro calls
  induction calls with
  | nil => intro s; simp [execS]
  | cons p ps ih =>
    intro s
    simp only [execS, List.foldl_cons]
    have := ih (callS S s p)
    simp only [execS] at this
    rw [this, methsOf_call]; simp

/-- the number of calls that end the running cycle, when the previous call was served at `orig_schedule_index = j` -/
def descFrom : Nat → List Nat → Nat
  | _, [] => 0
  | j, p :: ps => (if j > p then 1 else 0) + descFrom (p + 1) ps

theorem callS_cycles (S : List Slot) (s : St) (p : Nat) :
    (callS S s p).cycles = s.cycles + (if s.j > p then 1 else 0) ∧ (callS S s p).j = p + 1 ∧
    (callS S s p).done.length = s.done.length + (if s.j > p then 1 else 0) := by
  unfold callS callW
  by_cases hj : s.j > p <;> simp [hj]

theorem execS_cycles (S : List Slot) : ∀ (calls : List Nat) (s : St),
    (execS S s calls).cycles = s.cycles + descFrom s.j calls ∧
    (execS S s calls).done.length = s.done.length + descFrom s.j calls := by
  intro calls
  induction calls with
  | nil => intro s; simp [execS, descFrom]
  | cons p ps ih =>
    intro s
    simp only [execS, List.foldl_cons, descFrom]
    obtain ⟨h1, h2, h3⟩ := callS_cycles S s p
    have := ih (callS S s p)
    simp only [execS] at this
    rw [this.1, this.2, h1, h2, h3]
    omega

/-! ## order of two entries inside a cycle -/

/-- in a duplicate-free list `b` cannot come before `a` in a sublist if it comes after `a` in the list -/
theorem no_swap {α : Type} {L l1 l2 : List α} {a b : α} (hnd : L.Nodup) (hL : L = l1 ++ a :: l2) (hb : b ∈ l2) :
    ¬ [b, a].Sublist L := by
  intro h
  subst hL
  rw [List.nodup_append] at hnd
  obtain ⟨_, h2, h3⟩ := hnd
  obtain ⟨hal2, hl2⟩ := List.nodup_cons.mp h2
  have hba : b ≠ a := fun e => hal2 (e ▸ hb)
  obtain ⟨s1, s2, hs, hs1, hs2⟩ := List.sublist_append_iff.mp h
  match s1, hs with
  | [], hs =>
    simp only [List.nil_append] at hs; subst hs
    cases hs2 with
    | cons _ h' => exact hal2 (h'.subset (by simp))
    | cons_cons _ _ => exact hba rfl
  | [x], hs =>
    simp only [List.cons_append, List.nil_append, List.cons.injEq] at hs
    obtain ⟨rfl, rfl⟩ := hs
    exact h3 b (hs1.subset (by simp)) b (List.mem_cons_of_mem _ hb) rfl
  | [x, y], hs =>
    simp only [List.cons_append, List.nil_append, List.cons.injEq] at hs
    obtain ⟨rfl, rfl, _⟩ := hs
    exact h3 a (hs1.subset (by simp)) a List.mem_cons_self rfl
  | x :: y :: z :: r, hs => simp at hs

/-- two members of a sublist of a duplicate-free list stand in the order of the list -/
theorem sublist_order {α : Type} {L c l1 l2 : List α} {a b : α} (hc : c.Sublist L) (hnd : L.Nodup) (hL : L = l1 ++ a :: l2)
    (hb : b ∈ l2) (hac : a ∈ c) (hbc : b ∈ c) : ∃ m1 m2, c = m1 ++ a :: m2 ∧ b ∈ m2 := by
  obtain ⟨m1, m2, rfl⟩ := List.append_of_mem hac
  refine ⟨m1, m2, rfl, ?_⟩
  have hne : b ≠ a := by
    intro e; subst e
    rw [hL, List.nodup_append] at hnd
    exact (List.nodup_cons.mp hnd.2.1).1 hb
  rcases List.mem_append.mp hbc with h | h
  · exfalso
    obtain ⟨n1, n2, rfl⟩ := List.append_of_mem h
    apply no_swap hnd hL hb
    refine List.Sublist.trans ?_ hc
    have : [b, a] = [b] ++ [a] := rfl
    rw [this]
    exact List.Sublist.append (List.singleton_sublist.mpr (by simp)) (List.singleton_sublist.mpr (by simp))
  · rcases List.mem_cons.mp h with h | h
    · exact absurd h hne
    · exact h

/-! ## frame: the log already there does not influence what the calls do -/

/-- put an earlier log in front of a state's log: `c` cycles counted before, `d` their events, `pre` the events of the
cycle that was running -/
def prefixLog (c : Nat) (d : List (List Ev)) (pre : List Ev) (s : St) : St :=
  match s.done with
  | [] => ⟨s.i, s.j, c + s.cycles, d, pre ++ s.cur⟩
  | c0 :: rest => ⟨s.i, s.j, c + s.cycles, d ++ (pre ++ c0) :: rest, s.cur⟩

theorem callS_prefix (S : List Slot) (c : Nat) (d : List (List Ev)) (pre : List Ev) (s : St) (p : Nat) :
    callS S (prefixLog c d pre s) p = prefixLog c d pre (callS S s p) := by
  obtain ⟨i, j, cy, dn, cur⟩ := s
  cases dn with
  | nil =>
    by_cases hj : j > p
    · simp [callS, callW, prefixLog, hj, Nat.add_assoc]
    · simp [callS, callW, prefixLog, hj]
  | cons c0 rest =>
    by_cases hj : j > p
    · simp [callS, callW, prefixLog, hj, Nat.add_assoc]
    · simp [callS, callW, prefixLog, hj]

theorem execS_prefix (S : List Slot) (c : Nat) (d : List (List Ev)) (pre : List Ev) : ∀ (calls : List Nat) (s : St),
    execS S (prefixLog c d pre s) calls = prefixLog c d pre (execS S s calls) := by
  intro calls
  induction calls with
  | nil => intro s; rfl
  | cons p ps ih =>
    intro s
    simp only [execS, List.foldl_cons, callS_prefix]
    exact ih _

theorem prefixLog_self (s : St) : prefixLog s.cycles s.done s.cur ⟨s.i, s.j, 0, [], []⟩ = s := by
  simp [prefixLog]

end PV.OpenLoop
