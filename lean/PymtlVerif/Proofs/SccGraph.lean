import PymtlVerif.Model.Scc
/-!
Graph vocabulary for the Kosaraju proofs: restricted reachability `RA`, well-formedness of `(G, G_T, V)`,
the generic lemmas about the bounded loop `iter`, the "unvisited" measure and degree sums.
-/
namespace PV.Scc

/-- there is a path `u → … → v` in `G` every vertex of which (end points included) satisfies `P` -/
inductive RA (G : Graph) (P : Nat → Prop) : Nat → Nat → Prop
  | refl {u : Nat} : P u → RA G P u u
  | head {u v w : Nat} : P u → v ∈ G u → RA G P v w → RA G P u w

/-- plain reachability in `G` -/
def Reach (G : Graph) : Nat → Nat → Prop := RA G (fun _ => True)

/-- `u` and `v` lie on a common cycle (or are equal): they reach each other -/
def Mutual (G : Graph) (u v : Nat) : Prop := Reach G u v ∧ Reach G v u

namespace RA
variable {G : Graph} {P Q : Nat → Prop}

theorem left {u v : Nat} (h : RA G P u v) : P u := by cases h <;> assumption
theorem right {u v : Nat} (h : RA G P u v) : P v := by
  induction h with
  | refl h => exact h
  | head _ _ _ ih => exact ih

theorem trans {u v w : Nat} (h1 : RA G P u v) (h2 : RA G P v w) : RA G P u w := by
  induction h1 with
  | refl _ => exact h2
  | head hp he _ ih => exact .head hp he (ih h2)

theorem tail {u v w : Nat} (h : RA G P u v) (he : w ∈ G v) (hw : P w) : RA G P u w :=
  h.trans (.head h.right he (.refl hw))

theorem mono (hpq : ∀ x, P x → Q x) {u v : Nat} (h : RA G P u v) : RA G Q u v := by
  induction h with
  | refl h => exact .refl (hpq _ h)
  | head hp he _ ih => exact .head (hpq _ hp) he ih

/-- a set closed under the `P`-successors is closed under `P`-paths -/
theorem closed {S : Nat → Prop} (hS : ∀ x, S x → ∀ y ∈ G x, P y → S y) {u v : Nat} (h : RA G P u v) (hu : S u) : S v := by
  induction h with
  | refl _ => exact hu
  | head _ he h ih => exact ih (hS _ hu _ he h.left)

/-- a path either avoids `S` or can be cut at a vertex of `S` -/
theorem split (S : Nat → Prop) {u v : Nat} (h : RA G P u v) :
    RA G (fun x => P x ∧ ¬ S x) u v ∨ ∃ s, S s ∧ RA G P u s ∧ RA G P s v := by
  induction h with
  | @refl u hp =>
    by_cases hs : S u
    · exact .inr ⟨u, hs, .refl hp, .refl hp⟩
    · exact .inl (.refl ⟨hp, hs⟩)
  | @head u v w hp he h ih =>
    by_cases hs : S u
    · exact .inr ⟨u, hs, .refl hp, .head hp he h⟩
    · rcases ih with ih | ⟨s, hss, h1, h2⟩
      · exact .inl (.head ⟨hp, hs⟩ he ih)
      · exact .inr ⟨s, hss, .head hp he h1, h2⟩

end RA

theorem Reach.refl (G : Graph) (u : Nat) : Reach G u u := RA.refl trivial
theorem Reach.trans {G : Graph} {u v w : Nat} (h1 : Reach G u v) (h2 : Reach G v w) : Reach G u w := RA.trans h1 h2
theorem Reach.edge {G : Graph} {u v : Nat} (h : v ∈ G u) : Reach G u v := RA.head trivial h (RA.refl trivial)
theorem RA.toReach {G : Graph} {P : Nat → Prop} {u v : Nat} (h : RA G P u v) : Reach G u v := h.mono (fun _ _ => trivial)

theorem Mutual.refl (G : Graph) (u : Nat) : Mutual G u u := ⟨Reach.refl G u, Reach.refl G u⟩
theorem Mutual.symm {G : Graph} {u v : Nat} (h : Mutual G u v) : Mutual G v u := ⟨h.2, h.1⟩
theorem Mutual.trans {G : Graph} {u v w : Nat} (h1 : Mutual G u v) (h2 : Mutual G v w) : Mutual G u w :=
  ⟨h1.1.trans h2.1, h2.2.trans h1.2⟩

/-- the situation of `kosaraju_scc(G, G_T)`: the keys `V` are distinct, every edge has both ends in `V`
(`if u in V and v in V`), and `G_T` is the transpose of `G` -/
structure WF (G GT : Graph) (V : List Nat) : Prop where
  nodup : V.Nodup
  src : ∀ u v, v ∈ G u → u ∈ V
  dst : ∀ u v, v ∈ G u → v ∈ V
  transp : ∀ u v, u ∈ GT v ↔ v ∈ G u

theorem WF.reach_mem {G GT : Graph} {V : List Nat} (wf : WF G GT V) {P : Nat → Prop} {u v : Nat} (h : RA G P u v) (hu : u ∈ V) : v ∈ V := by
  induction h with
  | refl _ => exact hu
  | head _ he _ ih => exact ih (wf.dst _ _ he)

/-- the graph built from an edge sequence by `G[u].append(v); G_T[v].append(u)` is well formed -/
theorem wf_adjOf (V : List Nat) (E : List (Nat × Nat)) (hV : V.Nodup) (hE : ∀ e ∈ E, e.1 ∈ V ∧ e.2 ∈ V) :
    WF (adjOf E) (adjTOf E) V := by
  have mem1 : ∀ u v, v ∈ adjOf E u ↔ (u, v) ∈ E := by
    intro u v; unfold adjOf
    simp only [List.mem_map, List.mem_filter, beq_iff_eq]
    constructor
    · rintro ⟨⟨a, b⟩, ⟨h, rfl⟩, rfl⟩; exact h
    · intro h; exact ⟨(u, v), ⟨h, rfl⟩, rfl⟩
  have mem2 : ∀ u v, u ∈ adjTOf E v ↔ (u, v) ∈ E := by
    intro u v; unfold adjTOf
    simp only [List.mem_map, List.mem_filter, beq_iff_eq]
    constructor
    · rintro ⟨⟨a, b⟩, ⟨h, rfl⟩, rfl⟩; exact h
    · intro h; exact ⟨(u, v), ⟨h, rfl⟩, rfl⟩
  refine ⟨hV, ?_, ?_, ?_⟩
  · intro u v h; exact (hE _ ((mem1 u v).mp h)).1
  · intro u v h; exact (hE _ ((mem1 u v).mp h)).2
  · intro u v; rw [mem1, mem2]

/-! ## the bounded loop -/

section iter
variable {σ : Type} (done : σ → Bool) (step : σ → σ)

theorem iter_done_eq (n : Nat) (s : σ) (h : done s = true) : iter done step n s = s := by
  cases n <;> simp [iter, h]

theorem iter_step (n : Nat) (s : σ) (h : done s = false) : iter done step (n + 1) s = iter done step n (step s) := by
  simp [iter, h]

/-- an invariant with a strictly decreasing measure: the loop ends (with `done`) inside the fuel, and the invariant holds -/
theorem iter_inv (Inv : σ → Prop) (μ : σ → Nat)
    (hstep : ∀ s, Inv s → done s = false → Inv (step s) ∧ μ (step s) < μ s) :
    ∀ (n : Nat) (s : σ), Inv s → μ s ≤ n → Inv (iter done step n s) ∧ done (iter done step n s) = true := by
  intro n
  induction n with
  | zero =>
    intro s hi hm
    refine ⟨hi, ?_⟩
    cases hd : done s with
    | true => simpa [iter] using hd
    | false => have := (hstep s hi hd).2; omega
  | succ n ih =>
    intro s hi hm
    cases hd : done s with
    | true => rw [iter_done_eq done step _ s hd]; exact ⟨hi, hd⟩
    | false =>
      rw [iter_step done step n s hd]
      obtain ⟨hi', hlt⟩ := hstep s hi hd
      exact ih _ hi' (by omega)

/-- once the loop has ended, more fuel changes nothing -/
theorem iter_more (n d : Nat) (s : σ) (h : done (iter done step n s) = true) :
    iter done step (n + d) s = iter done step n s := by
  induction n generalizing s with
  | zero =>
    simp only [iter] at h
    simp only [Nat.zero_add, iter]
    exact iter_done_eq done step d s h
  | succ n ih =>
    cases hd : done s with
    | true => rw [iter_done_eq done step _ s hd, iter_done_eq done step _ s hd]
    | false =>
      rw [iter_step done step n s hd] at h ⊢
      rw [show n + 1 + d = (n + d) + 1 from by omega, iter_step done step _ s hd]
      exact ih _ h

end iter

/-! ## the number of vertices not yet visited -/

def unv : List Nat → List Nat → Nat
  | [], _ => 0
  | a :: V, vis => (if a ∈ vis then 0 else 1) + unv V vis

theorem unv_le (V vis : List Nat) : unv V vis ≤ V.length := by
  induction V with
  | nil => simp [unv]
  | cons a V ih => simp only [unv, List.length_cons]; split <;> omega

theorem unv_mono (V : List Nat) {vis vis' : List Nat} (h : ∀ x, x ∈ vis → x ∈ vis') : unv V vis' ≤ unv V vis := by
  induction V with
  | nil => simp [unv]
  | cons a V ih =>
    simp only [unv]
    by_cases ha : a ∈ vis
    · have : a ∈ vis' := h a ha
      simp only [ha, this, if_true]; omega
    · by_cases ha' : a ∈ vis'
      · simp only [ha, ha', if_true, if_false]; omega
      · simp only [ha, ha', if_false]; omega

theorem unv_cons_lt (V : List Nat) {vis : List Nat} {u : Nat} (hu : u ∈ V) (hn : u ∉ vis) : unv V (u :: vis) < unv V vis := by
  induction V with
  | nil => simp at hu
  | cons a V ih =>
    have hmono : unv V (u :: vis) ≤ unv V vis := unv_mono V (fun x hx => List.mem_cons_of_mem _ hx)
    simp only [unv]
    by_cases hau : a = u
    · subst hau
      simp only [List.mem_cons_self, if_true, hn, if_false]; omega
    · rcases List.mem_cons.mp hu with h | h
      · exact absurd h.symm hau
      · have := ih h
        by_cases ha : a ∈ vis
        · have : a ∈ u :: vis := List.mem_cons_of_mem _ ha
          simp only [ha, this, if_true]; omega
        · have : a ∉ u :: vis := by simp [hau, ha]
          simp only [ha, this, if_false]; omega

/-! ## degree sums over duplicate-free sublists -/

theorem sum_map_erase (f : Nat → Nat) {a : Nat} {V : List Nat} (h : a ∈ V) :
    (V.map f).sum = f a + ((V.erase a).map f).sum := by
  induction V with
  | nil => simp at h
  | cons b V ih =>
    by_cases hab : b = a
    · subst hab; simp
    · have : a ∈ V := by
        rcases List.mem_cons.mp h with h | h
        · exact absurd h.symm hab
        · exact h
      rw [List.erase_cons_tail (by simpa using hab)]
      simp only [List.map_cons, List.sum_cons]
      rw [ih this]; omega

theorem sum_map_le_of_subset (f : Nat → Nat) : ∀ (l V : List Nat), l.Nodup → (∀ x ∈ l, x ∈ V) →
    (l.map f).sum + l.length ≤ (V.map f).sum + V.length := by
  intro l
  induction l with
  | nil => intro V _ _; simp
  | cons a l ih =>
    intro V hnd hsub
    have ha : a ∈ V := hsub a List.mem_cons_self
    obtain ⟨hal, hnd'⟩ := List.nodup_cons.mp hnd
    have hsub' : ∀ x ∈ l, x ∈ V.erase a := by
      intro x hx
      have hxa : x ≠ a := fun h => hal (h ▸ hx)
      exact (List.mem_erase_of_ne hxa).mpr (hsub x (List.mem_cons_of_mem _ hx))
    have := ih (V.erase a) hnd' hsub'
    rw [sum_map_erase f ha]
    have hlen : (V.erase a).length + 1 = V.length := by
      rw [List.length_erase_of_mem ha]
      have : 0 < V.length := List.length_pos_of_mem ha
      omega
    simp only [List.map_cons, List.sum_cons, List.length_cons]
    omega

end PV.Scc
