import PymtlVerif.Proofs.SDeclRender
/-!
# `gen_signal_expr` on a well-typed object path yields `OPath.sexp` (C03)

`construct_attr` / `construct_index` / `construct_slice` choose the node class from the RTLIR type of the base; for a path that is
well typed in the component's table (the sub-component slot, the interfaces, the port / wire exist with as many indices as they
have list dimensions; the steps into the data type fit it) the classes are those of `OPath.sexp`.
-/
namespace PV.SDecl
open PV.SV PV.Names

def PStep.tk : PStep → Tk
  | .fld f => .attr f
  | .pidx i => .idx i
  | .bit i => .idx i
  | .slice lo hi => .slice lo hi

def lvToks (l : String × List Nat) : List Tk := Tk.attr l.1 :: l.2.map Tk.idx

/-- the tokens `gen_signal_expr` applies for the path (`tokens_in_order`: outermost object first, attribute then indices) -/
def OPath.toks (p : OPath) : List Tk := p.levels.flatMap lvToks ++ p.packed.map PStep.tk

theorem constructAll_append (n : SExp × RT) (a b : List Tk) :
    constructAll n (a ++ b) = (constructAll n a).bind fun n' => constructAll n' b := by
  induction a generalizing n with
  | nil => simp [constructAll]
  | cons t a ih =>
    simp only [List.cons_append, constructAll]
    cases construct n t with
    | none => simp
    | some n' => simpa using ih n'

/-- indexing a list of `X` down to its element -/
theorem constructAll_idx (X : RT) (mk : SExp → Nat → SExp)
    (hc : ∀ e d ds i, construct (e, RT.arr (d :: ds) X) (Tk.idx i) = some (mk e i, mkArr ds X))
    (e : SExp) (dims ix : List Nat) (h : ix.length = dims.length) :
    constructAll (e, mkArr dims X) (ix.map Tk.idx) = some (ix.foldl mk e, X) := by
  induction dims generalizing e ix with
  | nil =>
    have : ix = [] := List.eq_nil_of_length_eq_zero (by simpa using h)
    subst this
    simp [constructAll, mkArr]
  | cons d ds ih =>
    cases ix with
    | nil => simp at h
    | cons i ix =>
      have h' : ix.length = ds.length := by simpa using h
      have e1 : mkArr (d :: ds) X = RT.arr (d :: ds) X := by simp [mkArr]
      simp only [List.map_cons, constructAll, e1, hc, List.foldl_cons]
      exact ih (mk e i) ix h'

def sigRT (wire : Bool) (ty : PTy) : RT := if wire then .wire ty else .port ty

/-- the steps into the data type fit it; a bit / slice is the last step -/
def PackedTyped : PTy → List PStep → Prop
  | _, [] => True
  | .struct _ fs, .fld f :: r => ∃ p, fs.find f = some p ∧ PackedTyped p.2 r
  | .arr _ e, .pidx _ :: r => PackedTyped e r
  | .vec _, [.bit _] => True
  | .vec _, [.slice _ _] => True
  | _, _ => False

theorem constructAll_packed (wire : Bool) (ty : PTy) (ss : List PStep) (h : PackedTyped ty ss) (e : SExp) :
    ∃ t, constructAll (e, sigRT wire ty) (ss.map PStep.tk) = some (ss.foldl PStep.sexp e, t) := by
  induction ss generalizing ty e with
  | nil => exact ⟨_, rfl⟩
  | cons s ss ih =>
    cases s with
    | fld f =>
      cases ty with
      | struct nm fs =>
        obtain ⟨p, hp, hr⟩ := h
        obtain ⟨t, ht⟩ := ih p.2 hr (SExp.structAttr e f)
        refine ⟨t, ?_⟩
        cases wire <;> simpa [constructAll, construct, sigRT, PStep.tk, PStep.sexp, hp] using ht
      | vec w => cases ss <;> simp [PackedTyped] at h
      | arr n t => simp [PackedTyped] at h
    | pidx i =>
      cases ty with
      | arr n t' =>
        obtain ⟨t, ht⟩ := ih t' h (SExp.packedIdx e i)
        refine ⟨t, ?_⟩
        cases wire <;> simpa [constructAll, construct, sigRT, PStep.tk, PStep.sexp] using ht
      | vec w => cases ss <;> simp [PackedTyped] at h
      | struct nm fs => simp [PackedTyped] at h
    | bit i =>
      cases ty with
      | vec w =>
        cases ss with
        | nil => cases wire <;> exact ⟨_, rfl⟩
        | cons => simp [PackedTyped] at h
      | arr n t => simp [PackedTyped] at h
      | struct nm fs => simp [PackedTyped] at h
    | slice lo hi =>
      cases ty with
      | vec w =>
        cases ss with
        | nil => cases wire <;> exact ⟨_, rfl⟩
        | cons => simp [PackedTyped] at h
      | arr n t => simp [PackedTyped] at h
      | struct nm fs => simp [PackedTyped] at h

theorem hc_port (t : PTy) : ∀ e d ds i, construct (e, RT.arr (d :: ds) (.port t)) (Tk.idx i) = some (SExp.portIdx e i, mkArr ds (.port t)) := by
  intro e d ds i; simp [construct, nextDim]
theorem hc_wire (t : PTy) : ∀ e d ds i, construct (e, RT.arr (d :: ds) (.wire t)) (Tk.idx i) = some (SExp.wireIdx e i, mkArr ds (.wire t)) := by
  intro e d ds i; simp [construct, nextDim]
theorem hc_ifc (ms : Members) : ∀ e d ds i, construct (e, RT.arr (d :: ds) (.ifc ms)) (Tk.idx i) = some (SExp.ifcIdx e i, mkArr ds (.ifc ms)) := by
  intro e d ds i; simp [construct, nextDim]
theorem hc_sub (k : Sub) : ∀ e d ds i, construct (e, RT.arr (d :: ds) (.sub k)) (Tk.idx i) = some (SExp.compIdx e i, mkArr ds (.sub k)) := by
  intro e d ds i; simp [construct, nextDim]

/-- `get_property` of the three kinds of scopes -/
def RT.prop : RT → String → Option RT
  | .cur T, a => T.prop a
  | .sub k, a => k.prop a
  | .ifc ms, a => ms.prop a
  | _, _ => none

/-- the attribute node `construct_attr` makes under a scope -/
def RT.mkAttr : RT → SExp → String → SExp
  | .cur _ => SExp.curAttr
  | .sub _ => SExp.subAttr
  | _ => SExp.ifcAttr

def RT.IsScope : RT → Prop
  | .cur _ => True
  | .sub _ => True
  | .ifc _ => True
  | _ => False

theorem construct_attr_scope (scope : RT) (hs : scope.IsScope) (e : SExp) (a : String) (t : RT) (h : scope.prop a = some t) :
    construct (e, scope) (Tk.attr a) = some (scope.mkAttr e a, t) := by
  cases scope <;> simp_all [RT.IsScope, RT.prop, RT.mkAttr, construct]

theorem constructAll_level (scope : RT) (hs : scope.IsScope) (e : SExp) (n : String) (ix dims : List Nat) (X : RT)
    (mk : SExp → Nat → SExp) (hp : scope.prop n = some (mkArr dims X))
    (hc : ∀ e d ds i, construct (e, RT.arr (d :: ds) X) (Tk.idx i) = some (mk e i, mkArr ds X))
    (hl : ix.length = dims.length) :
    constructAll (e, scope) (lvToks (n, ix)) = some (ix.foldl mk (scope.mkAttr e n), X) := by
  simp only [lvToks, constructAll, construct_attr_scope scope hs e n _ hp]
  exact constructAll_idx X mk hc _ dims ix hl

/-- the interface levels exist below `scope`, each with as many indices as list dimensions; `fin` = the innermost scope -/
def LevelsTyped : RT → List (String × List Nat) → RT → Prop
  | s, [], fin => fin = s
  | s, (n, ix) :: rest, fin =>
    ∃ dims ms, s.prop n = some (mkArr dims (.ifc ms)) ∧ ix.length = dims.length ∧ LevelsTyped (.ifc ms) rest fin

theorem constructAll_levels (ifcs : List (String × List Nat)) (scope fin : RT) (hs : scope.IsScope)
    (h : LevelsTyped scope ifcs fin) (e : SExp) :
    constructAll (e, scope) (ifcs.flatMap lvToks) = some ((goIfcs e scope.mkAttr ifcs).1, fin) ∧
    (goIfcs e scope.mkAttr ifcs).2 = fin.mkAttr ∧ fin.IsScope := by
  induction ifcs generalizing scope e with
  | nil =>
    have : fin = scope := h
    subst this
    exact ⟨by simp [constructAll, goIfcs], by simp [goIfcs], hs⟩
  | cons l rest ih =>
    obtain ⟨n, ix⟩ := l
    obtain ⟨dims, ms, hp, hl, hr⟩ := h
    have h1 := constructAll_level scope hs e n ix dims (.ifc ms) SExp.ifcIdx hp (hc_ifc ms) hl
    have h2 := ih (.ifc ms) trivial hr (ix.foldl SExp.ifcIdx (scope.mkAttr e n))
    simp only [List.flatMap_cons, constructAll_append, h1, Option.bind_some, goIfcs]
    exact h2

/-- **the path is well typed in the table** -/
structure OPath.TypedIn (p : OPath) (T : Table) : Prop where
  /-- wires belong to the current component -/
  wireLocal : p.WireLocal
  ok : ∃ (scope fin : RT) (ty : PTy) (sdims : List Nat),
    -- the sub-component level (or the component itself)
    (match p.comp with
      | none => scope = .cur T
      | some c => ∃ cd k, T.prop c.1 = some (mkArr cd (.sub k)) ∧ c.2.length = cd.length ∧ scope = .sub k) ∧
    -- the interface levels, the signal with as many indices as it has list dimensions, the steps into its data type
    LevelsTyped scope p.ifcs fin ∧ fin.prop p.sigName = some (mkArr sdims (sigRT p.isWire ty)) ∧
    p.sigIdx.length = sdims.length ∧ PackedTyped ty p.packed

/-- **`gen_signal_expr` on a well-typed path builds `OPath.sexp`.** -/
theorem constructAll_opath (T : Table) (p : OPath) (h : p.TypedIn T) :
    ∃ t, constructAll (SExp.cur, RT.cur T) p.toks = some (p.sexp, t) := by
  obtain ⟨_, scope, fin, ty, sdims, hcomp, hlv, hsig, hsl, hpk⟩ := h
  obtain ⟨comp, ifcs, sigName, sigIdx, isWire, packed⟩ := p
  simp only at hcomp hlv hsig hsl hpk
  -- 1. the head: the state after the sub-component level
  obtain ⟨e0, he0, hmk, hsc, hhead⟩ : ∃ e0, constructAll (SExp.cur, RT.cur T) ((match comp with | some c => [c] | none => []).flatMap lvToks)
      = some (e0, scope) ∧ (OPath.head ⟨comp, ifcs, sigName, sigIdx, isWire, packed⟩).2 = scope.mkAttr ∧ scope.IsScope ∧
        (OPath.head ⟨comp, ifcs, sigName, sigIdx, isWire, packed⟩).1 = e0 := by
    cases comp with
    | none =>
      subst hcomp
      exact ⟨SExp.cur, by simp [constructAll], rfl, trivial, rfl⟩
    | some c =>
      obtain ⟨cd, k, hp, hl, rfl⟩ := hcomp
      obtain ⟨n, ix⟩ := c
      have := constructAll_level (RT.cur T) trivial SExp.cur n ix cd (.sub k) SExp.compIdx hp (hc_sub k) hl
      exact ⟨_, by simpa using this, rfl, trivial, by simp [OPath.head, RT.mkAttr]⟩
  -- 2. the interface levels
  have h2 := constructAll_levels ifcs scope fin hsc hlv e0
  -- 3. the signal
  have h3 : constructAll ((goIfcs e0 scope.mkAttr ifcs).1, fin) (lvToks (sigName, sigIdx))
      = some (sigIdx.foldl (if isWire then SExp.wireIdx else SExp.portIdx)
                ((goIfcs e0 scope.mkAttr ifcs).2 (goIfcs e0 scope.mkAttr ifcs).1 sigName), sigRT isWire ty) := by
    rw [h2.2.1]
    cases isWire with
    | false =>
      simpa [sigRT] using constructAll_level fin h2.2.2 _ sigName sigIdx sdims (.port ty) SExp.portIdx (by simpa [sigRT] using hsig) (hc_port ty) hsl
    | true =>
      simpa [sigRT] using constructAll_level fin h2.2.2 _ sigName sigIdx sdims (.wire ty) SExp.wireIdx (by simpa [sigRT] using hsig) (hc_wire ty) hsl
  -- 4. the steps into the data type
  obtain ⟨t, h4⟩ := constructAll_packed isWire ty packed hpk
    (sigIdx.foldl (if isWire then SExp.wireIdx else SExp.portIdx)
      ((goIfcs e0 scope.mkAttr ifcs).2 (goIfcs e0 scope.mkAttr ifcs).1 sigName))
  refine ⟨t, ?_⟩
  have hl : (OPath.mk comp ifcs sigName sigIdx isWire packed).levels
      = (match comp with | some c => [c] | none => []) ++ ifcs ++ [(sigName, sigIdx)] := by
    cases comp <;> rfl
  unfold OPath.toks OPath.sexp
  rw [hl]
  simp only [List.flatMap_append, List.flatMap_cons, List.flatMap_nil, List.append_nil, constructAll_append, he0,
    Option.bind_some, h2.1, h3, h4, hmk, hhead]

end PV.SDecl
