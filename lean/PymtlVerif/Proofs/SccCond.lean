import PymtlVerif.Proofs.SccBfs
/-!
What `kosaraju_scc` returns: the groups are the strongly connected components, `v_SCC` maps every vertex to the index of
its group, the condensation `G_new` has exactly the inter-group edges, and every such edge goes from an earlier created
group to a later created one (so the condensation is acyclic).
-/
namespace PV.Scc

/-- summary of phase 1 + phase 2 for the model's `kosaraju` -/
structure KosFacts (G : Graph) (V : List Nat) (k : Kos) : Prop where
  /-- every vertex is in the group `v_SCC` says -/
  vscc_mem : ∀ x ∈ V, ∃ g, k.sccs[vscc k.vmap x]? = some g ∧ x ∈ g
  /-- `v_SCC[x]` never raises KeyError -/
  lookup_some : ∀ x ∈ V, ∃ i, k.vmap.lookup x = some i
  /-- a group contains only vertices, and is the component of one of them -/
  comp : ∀ g ∈ k.sccs, ∃ r ∈ V, ∀ x, x ∈ g ↔ Mutual G x r
  nodup : ∀ g ∈ k.sccs, g.Nodup
  disj : ∀ (i j : Nat) (gi gj : List Nat), k.sccs[i]? = some gi → k.sccs[j]? = some gj → ∀ x, x ∈ gi → x ∈ gj → i = j
  order : ∀ (i j : Nat) (gi gj : List Nat), k.sccs[i]? = some gi → k.sccs[j]? = some gj → ∀ u ∈ gi, ∀ v ∈ gj, v ∈ G u → i ≤ j

theorem mutual_mem {G GT : Graph} {V : List Nat} (wf : WF G GT V) {x r : Nat} (h : Mutual G x r) (hr : r ∈ V) : x ∈ V :=
  ra_src_mem wf h.1 hr

theorem kosaraju_facts {G GT : Graph} {V : List Nat} (wf : WF G GT V) : KosFacts G V (kosaraju G GT V) := by
  have inv := phase2_inv wf
  obtain ⟨_, hpoV, _⟩ := postOrder_facts wf
  obtain ⟨hdone, hvis, hscc, hnd, hdisj, _, horder, hvmap⟩ := inv
  have key : ∀ x ∈ V, ∃ i g, (phase2 GT V (postOrder G V).reverse).vmap.lookup x = some i ∧
      (phase2 GT V (postOrder G V).reverse).sccs[i]? = some g ∧ x ∈ g := by
    intro x hx
    have hxv := hdone x (List.mem_reverse.mpr ((hpoV x).mpr hx))
    obtain ⟨g, hg, hxg⟩ := (hvis x).mp hxv
    obtain ⟨i, hi⟩ := List.getElem?_of_mem hg
    exact ⟨i, g, (hvmap x i).mpr ⟨g, hi, hxg⟩, hi, hxg⟩
  refine ⟨?_, ?_, hscc, hnd, hdisj, horder⟩
  rotate_left
  · intro x hx
    obtain ⟨i, _, hl, _, _⟩ := key x hx
    exact ⟨i, hl⟩
  intro x hx
  obtain ⟨i, g, hl, hi, hxg⟩ := key x hx
  refine ⟨g, ?_, hxg⟩
  show (phase2 GT V (postOrder G V).reverse).sccs[vscc (phase2 GT V (postOrder G V).reverse).vmap x]? = some g
  unfold vscc; rw [hl]; exact hi

namespace KosFacts
variable {G GT : Graph} {V : List Nat} {k : Kos}

theorem vscc_lt (f : KosFacts G V k) {x : Nat} (hx : x ∈ V) : vscc k.vmap x < k.sccs.length := by
  obtain ⟨g, hg, _⟩ := f.vscc_mem x hx
  exact (List.getElem?_eq_some_iff.mp hg).1

/-- membership in a group, by index, is `v_SCC` -/
theorem mem_iff_vscc (f : KosFacts G V k) {x i : Nat} {g : List Nat} (hx : x ∈ V) (hg : k.sccs[i]? = some g) :
    x ∈ g ↔ vscc k.vmap x = i := by
  obtain ⟨g', hg', hxg'⟩ := f.vscc_mem x hx
  constructor
  · intro hxg; exact f.disj _ _ _ _ hg' hg x hxg' hxg
  · intro h; rw [h, hg] at hg'; cases hg'; exact hxg'

/-- two vertices have the same group iff they reach each other -/
theorem vscc_eq_iff (f : KosFacts G V k) {x y : Nat} (hx : x ∈ V) (hy : y ∈ V) :
    vscc k.vmap x = vscc k.vmap y ↔ Mutual G x y := by
  obtain ⟨g, hg, hxg⟩ := f.vscc_mem x hx
  obtain ⟨r, _, hr⟩ := f.comp g (List.mem_of_getElem? hg)
  constructor
  · intro h
    have hyg : y ∈ g := (f.mem_iff_vscc hy hg).mpr h.symm
    exact ((hr x).mp hxg).trans ((hr y).mp hyg).symm
  · intro h
    have hyg : y ∈ g := (hr y).mpr (h.symm.trans ((hr x).mp hxg))
    exact ((f.mem_iff_vscc hy hg).mp hyg).symm

/-- creation order: an edge between different groups goes from the earlier created group to the later one -/
theorem edge_order (f : KosFacts G V k) (wf : WF G GT V) {u v : Nat} (he : v ∈ G u) (hne : vscc k.vmap u ≠ vscc k.vmap v) :
    vscc k.vmap u < vscc k.vmap v := by
  obtain ⟨gu, hgu, hu⟩ := f.vscc_mem u (wf.src u v he)
  obtain ⟨gv, hgv, hv⟩ := f.vscc_mem v (wf.dst u v he)
  have := f.order _ _ _ _ hgu hgv u hu v hv he
  omega

end KosFacts

/-! ## `G_new` -/

def edgeList (G : Graph) (V : List Nat) : List (Nat × Nat) := V.flatMap (fun u => (G u).map (fun v => (u, v)))

theorem mem_edgeList {G : Graph} {V : List Nat} {u v : Nat} : (u, v) ∈ edgeList G V ↔ u ∈ V ∧ v ∈ G u := by
  unfold edgeList
  simp only [List.mem_flatMap, List.mem_map, Prod.mk.injEq]
  constructor
  · rintro ⟨a, ha, b, hb, rfl, rfl⟩; exact ⟨ha, hb⟩
  · rintro ⟨h1, h2⟩; exact ⟨u, h1, v, h2, rfl, rfl⟩

theorem gnew_eq_foldl (G : Graph) (V : List Nat) (vm : List (Nat × Nat)) :
    gnewRows G V vm = (edgeList G V).foldl (fun rows e => addEdge vm rows e.1 e.2) [] := by
  unfold gnewRows edgeList
  generalize ([] : List (List Nat)) = g0
  induction V generalizing g0 with
  | nil => rfl
  | cons u V ih =>
    simp only [List.foldl_cons, List.flatMap_cons, List.foldl_append, List.foldl_map]
    exact ih _

theorem rowOf_setRow : ∀ (rows : List (List Nat)) (i : Nat) (r : List Nat) (j : Nat),
    rowOf (setRow rows i r) j = if j = i then r else rowOf rows j := by
  intro rows
  induction rows with
  | nil =>
    intro i
    induction i with
    | zero => intro r j; cases j <;> simp [setRow, rowOf]
    | succ k ih =>
      intro r j
      cases j with
      | zero => simp [setRow, rowOf]
      | succ j =>
        have := ih r j
        simp only [rowOf, setRow, List.getD_cons_succ, Nat.add_right_cancel_iff] at this ⊢
        rw [this]; simp
  | cons x xs ih =>
    intro i r j
    cases i with
    | zero => cases j <;> simp [setRow, rowOf]
    | succ k =>
      cases j with
      | zero => simp [setRow, rowOf]
      | succ j =>
        have := ih k r j
        simp only [rowOf, setRow, List.getD_cons_succ, Nat.add_right_cancel_iff] at this ⊢
        exact this

/-- `gn` holds exactly the pairs of different group indices of the edges in `S`, each once -/
def GnSpec (vm : List (Nat × Nat)) (gn : Graph) (S : List (Nat × Nat)) : Prop :=
  (∀ i, (gn i).Nodup) ∧ ∀ i j, j ∈ gn i ↔ i ≠ j ∧ ∃ e ∈ S, vscc vm e.1 = i ∧ vscc vm e.2 = j

theorem addEdge_pos (vm : List (Nat × Nat)) (rows : List (List Nat)) (u v : Nat)
    (h : vscc vm u ≠ vscc vm v ∧ vscc vm v ∉ rowOf rows (vscc vm u)) :
    rowOf (addEdge vm rows u v) = fun i => if i = vscc vm u then rowOf rows (vscc vm u) ++ [vscc vm v] else rowOf rows i := by
  have : addEdge vm rows u v = setRow rows (vscc vm u) (rowOf rows (vscc vm u) ++ [vscc vm v]) := by
    unfold addEdge; exact if_pos h
  rw [this]
  funext i
  exact rowOf_setRow _ _ _ _

theorem addEdge_neg (vm : List (Nat × Nat)) (rows : List (List Nat)) (u v : Nat)
    (h : ¬ (vscc vm u ≠ vscc vm v ∧ vscc vm v ∉ rowOf rows (vscc vm u))) : addEdge vm rows u v = rows := by
  unfold addEdge; exact if_neg h

theorem addEdge_spec (vm : List (Nat × Nat)) (rows : List (List Nat)) (S : List (Nat × Nat)) (u v : Nat)
    (h : GnSpec vm (rowOf rows) S) : GnSpec vm (rowOf (addEdge vm rows u v)) (S ++ [(u, v)]) := by
  obtain ⟨hnd, hmem⟩ := h
  generalize hgn : rowOf rows = gn at hnd hmem
  by_cases hc : vscc vm u ≠ vscc vm v ∧ vscc vm v ∉ rowOf rows (vscc vm u)
  · rw [addEdge_pos vm rows u v hc, hgn]
    rw [hgn] at hc
    obtain ⟨hne, hnot⟩ := hc
    refine ⟨?_, ?_⟩
    · intro i
      by_cases hi : i = vscc vm u
      · simp only [hi, if_true]
        rw [List.nodup_append]
        refine ⟨hnd _, by simp, ?_⟩
        intro a ha b hb hab
        simp at hb; subst hb; subst hab; exact hnot ha
      · simp only [hi, if_false]; exact hnd i
    · intro i j
      by_cases hi : i = vscc vm u
      · subst hi
        simp only [if_true, List.mem_append, List.mem_singleton, hmem]
        constructor
        · rintro (⟨h1, e, he, h2, h3⟩ | rfl)
          · exact ⟨h1, e, .inl he, h2, h3⟩
          · exact ⟨hne, (u, v), .inr rfl, rfl, rfl⟩
        · rintro ⟨h1, e, he | rfl, h2, h3⟩
          · exact .inl ⟨h1, e, he, h2, h3⟩
          · exact .inr h3.symm
      · simp only [hi, if_false, hmem, List.mem_append, List.mem_singleton]
        constructor
        · rintro ⟨h1, e, he, h2, h3⟩; exact ⟨h1, e, .inl he, h2, h3⟩
        · rintro ⟨h1, e, he | rfl, h2, h3⟩
          · exact ⟨h1, e, he, h2, h3⟩
          · exact absurd h2.symm hi
  · rw [addEdge_neg vm rows u v hc, hgn]
    rw [hgn] at hc
    refine ⟨hnd, ?_⟩
    intro i j
    rw [hmem]
    simp only [List.mem_append, List.mem_singleton]
    constructor
    · rintro ⟨h1, e, he, h2, h3⟩; exact ⟨h1, e, .inl he, h2, h3⟩
    · rintro ⟨h1, e, he | rfl, h2, h3⟩
      · exact ⟨h1, e, he, h2, h3⟩
      · refine ⟨h1, ?_⟩
        simp only at h2 h3
        subst h2; subst h3
        have : vscc vm v ∈ gn (vscc vm u) := by
          by_cases hin : vscc vm v ∈ gn (vscc vm u)
          · exact hin
          · exact absurd ⟨h1, hin⟩ hc
        exact ((hmem _ _).mp this).2

theorem foldl_addEdge_spec (vm : List (Nat × Nat)) : ∀ (es : List (Nat × Nat)) (rows : List (List Nat)) (S : List (Nat × Nat)),
    GnSpec vm (rowOf rows) S → GnSpec vm (rowOf (es.foldl (fun rows e => addEdge vm rows e.1 e.2) rows)) (S ++ es) := by
  intro es
  induction es with
  | nil => intro rows S h; simpa using h
  | cons e es ih =>
    intro rows S h
    simp only [List.foldl_cons]
    have := ih _ _ (addEdge_spec vm rows S e.1 e.2 h)
    simpa [List.append_assoc] using this

/-- **`G_new`**: `j ∈ G_new[i]` iff `i ≠ j` and some edge `u → v` of `G` has `v_SCC[u] = i`, `v_SCC[v] = j`; no duplicates -/
theorem gnew_spec (G : Graph) (V : List Nat) (vm : List (Nat × Nat)) :
    (∀ i, (rowOf (gnewRows G V vm) i).Nodup) ∧
    ∀ i j, j ∈ rowOf (gnewRows G V vm) i ↔ i ≠ j ∧ ∃ u ∈ V, ∃ v ∈ G u, vscc vm u = i ∧ vscc vm v = j := by
  have h0 : GnSpec vm (rowOf []) [] := ⟨by simp [rowOf], by simp [rowOf]⟩
  have := foldl_addEdge_spec vm (edgeList G V) _ _ h0
  rw [← gnew_eq_foldl, List.nil_append] at this
  refine ⟨this.1, ?_⟩
  intro i j
  rw [this.2]
  constructor
  · rintro ⟨h1, ⟨u, v⟩, he, h2, h3⟩
    obtain ⟨hu, hv⟩ := mem_edgeList.mp he
    exact ⟨h1, u, hu, v, hv, h2, h3⟩
  · rintro ⟨h1, u, hu, v, hv, h2, h3⟩
    exact ⟨h1, (u, v), mem_edgeList.mpr ⟨hu, hv⟩, h2, h3⟩

/-- every edge of the condensation goes from a lower to a higher group index (both below `len(SCCs)`) -/
theorem gnew_increasing {G GT : Graph} {V : List Nat} (wf : WF G GT V) {i j : Nat}
    (h : j ∈ (kosaraju G GT V).gn i) : i < j ∧ j < (kosaraju G GT V).sccs.length := by
  have f := kosaraju_facts wf
  obtain ⟨hne, u, hu, v, hv, h1, h2⟩ := ((gnew_spec G V (kosaraju G GT V).vmap).2 i j).mp h
  subst h1; subst h2
  exact ⟨f.edge_order wf hv hne, f.vscc_lt (wf.dst u v hv)⟩

end PV.Scc
