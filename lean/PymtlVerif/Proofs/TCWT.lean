import PymtlVerif.Proofs.TC
/-!
C10 → C03: the typing invariant that acceptance by the RTLIR type checker guarantees on clean blocks,
as a *declarative* judgement `WT Γ e w k` ("`e` is well typed at width `w` with kind `k`") that does
not mention the checker's algorithm:

* the operands of a max-width operator (`+ - * & | ^ %`) and of a comparison are typed at the *same*
  width, one of them certainly a `Bits` of that width;
* a literal, loop variable, implicit temporary or folded non-negative constant is typed at *any* width
  that holds it ("re-sized to the context");
* a shift amount is typed at the width of the shifted value; a `Bits<n>( … )` cast does not change the width;
* `zext/sext` widen, `trunc` narrows, `concat` adds, a bit is 1 wide, a constant slice `[l:u]` is `u-l` wide;
* the right-hand side of an assignment is typed at the width of its target (`WTS`).

`checkE_WT` / `checkS_WTS`: accepted + clean ⇒ well typed at the static width the checker assigned.
-/
namespace PV.TC
open PV.Bits

/-- `bits`: certainly a `Bits<w>`; `lit`: a Python int that fits `w` bits; `soft`: one or the other -/
inductive Kind where | bits | soft | lit
deriving DecidableEq, Repr

def kindOf (a : Ann) (hard : Bool) : Kind := if hard then .bits else if a.ex then .soft else .lit

def Kind.join : Kind → Kind → Kind
  | .bits, .bits => .bits
  | .lit, .lit => .lit
  | _, _ => .soft

/-- value of a constant integer expression (what `eval_const_binop` / `visit_UnaryOp` fold) -/
def constVal : Expr → Option Int
  | .num v => some v
  | .un op e => (constVal e).map (intUn op)
  | .bin op l r =>
    match constVal l, constVal r with
    | some a, some b => (match intBin op a b with | .ok v => some v | .error _ => none)
    | _, _ => none
  | _ => none

inductive WT (Γ : Env) : Expr → Nat → Kind → Prop
  | sig (x w : Nat) : 1 ≤ w → w < 1024 → WT Γ (.sig x w) w .bits
  | num (v w : Nat) : v < 2 ^ w → WT Γ (.num v) w .lit
  | lv (i w0 w : Nat) : Γ.lvs.lookup i = some w0 → w0 ≤ w → WT Γ (.lv i) w .lit
  | tmpB (t w : Nat) : Γ.tmps.lookup t = some (w, true) → WT Γ (.tmp t) w .bits
  | tmpL (t w0 w : Nat) : Γ.tmps.lookup t = some (w0, false) → w0 ≤ w → WT Γ (.tmp t) w .lit
  | const (e : Expr) (v : Int) (w : Nat) : constVal e = some v → 0 ≤ v → v < 2 ^ w → WT Γ e w .lit
  | un (op : UOp) (e : Expr) (w : Nat) : WT Γ e w .bits → WT Γ (.un op e) w .bits
  | binL (op : Op) (l r : Expr) (w : Nat) (k : Kind) :
      op.isShift = false → WT Γ l w .bits → WT Γ r w k → WT Γ (.bin op l r) w .bits
  | binR (op : Op) (l r : Expr) (w : Nat) (k : Kind) :
      op.isShift = false → WT Γ l w k → WT Γ r w .bits → WT Γ (.bin op l r) w .bits
  | shift (op : Op) (l r : Expr) (w : Nat) (k : Kind) :
      op.isShift = true → WT Γ l w .bits → WT Γ r w k → WT Γ (.bin op l r) w .bits
  | cmpL (op : CmpOp) (l r : Expr) (w : Nat) (k : Kind) : WT Γ l w .bits → WT Γ r w k → WT Γ (.cmp op l r) 1 .bits
  | cmpR (op : CmpOp) (l r : Expr) (w : Nat) (k : Kind) : WT Γ l w k → WT Γ r w .bits → WT Γ (.cmp op l r) 1 .bits
  | iteI (c t f : Expr) (w : Nat) (k1 k2 : Kind) :
      intOnly c = true → WT Γ t w k1 → WT Γ f w k2 → WT Γ (.ite c t f) w (k1.join k2)
  | iteW (c t f : Expr) (wc w : Nat) (kc k1 k2 : Kind) :
      WT Γ c wc kc → WT Γ t w k1 → WT Γ f w k2 → WT Γ (.ite c t f) w (k1.join k2)
  | cast (n : Nat) (e : Expr) (k : Kind) : 1 ≤ n → n < 1024 → WT Γ e n k → WT Γ (.cast n e) n .bits
  | widen (kd : ExtK) (ty : Bool) (e : Expr) (w n : Nat) (k : Kind) :
      kd ≠ .trunc → w ≤ n → n < 1024 → WT Γ e w k → WT Γ (.ext kd ty e n) n .bits
  | trunc (ty : Bool) (e : Expr) (w n : Nat) (k : Kind) :
      1 ≤ n → n ≤ w → n < 1024 → WT Γ e w k → WT Γ (.ext .trunc ty e n) n .bits
  | red (op : ROp) (e : Expr) (w : Nat) (k : Kind) : WT Γ e w k → WT Γ (.red op e) 1 .bits
  | cat (l r : Expr) (w1 w2 : Nat) (k1 k2 : Kind) :
      WT Γ l w1 k1 → WT Γ r w2 k2 → w1 + w2 < 1024 → WT Γ (.cat l r) (w1 + w2) .bits
  | idxI (x w : Nat) (i : Expr) : 1 ≤ w → w < 1024 → intOnly i = true → WT Γ (.idx x w i) 1 .bits
  | idxW (x w : Nat) (i : Expr) (wi : Nat) (k : Kind) :
      1 ≤ w → w < 1024 → WT Γ i wi k → WT Γ (.idx x w i) 1 .bits
  | slc (x w : Nat) (lo hi : Expr) (l u : Int) :
      w < 1024 → constVal lo = some l → constVal hi = some u → 0 ≤ l → l < u → u ≤ w →
      WT Γ (.slc x w lo hi) (u - l).toNat .bits
  | slcP (x w : Nat) (lo nn : Expr) (sz : Int) :
      w < 1024 → intOnly lo = true → constVal nn = some sz → 1 ≤ sz →
      WT Γ (.slc x w lo (.bin .add lo nn)) sz.toNat .bits

/-- a term of kind `lit` can be typed at any larger width -/
theorem WT.lit_mono {Γ : Env} {e : Expr} {w : Nat} {k : Kind} (h : WT Γ e w k) :
    k = .lit → ∀ w', w ≤ w' → WT Γ e w' .lit := by
  induction h with
  | num v w hv =>
    intro _ w' hw
    exact .num v w' (Nat.lt_of_lt_of_le hv (Nat.pow_le_pow_right (by decide) hw))
  | lv i w0 w h1 h2 => intro _ w' hw; exact .lv i w0 w' h1 (by omega)
  | tmpL t w0 w h1 h2 => intro _ w' hw; exact .tmpL t w0 w' h1 (by omega)
  | const e v w h1 h2 h3 =>
    intro _ w' hw
    refine .const e v w' h1 h2 (Int.lt_of_lt_of_le h3 ?_)
    have := Nat.pow_le_pow_right (by decide : 2 > 0) hw
    exact_mod_cast this
  | iteI c t f w k1 k2 hc _ _ iht ihf =>
    intro hk w' hw
    have h1 : k1 = .lit := by cases k1 <;> cases k2 <;> simp_all [Kind.join]
    have h2 : k2 = .lit := by cases k1 <;> cases k2 <;> simp_all [Kind.join]
    exact .iteI c t f w' .lit .lit hc (iht h1 w' hw) (ihf h2 w' hw)
  | iteW c t f wc w kc k1 k2 hcw _ _ _ iht ihf =>
    intro hk w' hw
    have h1 : k1 = .lit := by cases k1 <;> cases k2 <;> simp_all [Kind.join]
    have h2 : k2 = .lit := by cases k1 <;> cases k2 <;> simp_all [Kind.join]
    exact .iteW c t f wc w' kc .lit .lit hcw (iht h1 w' hw) (ihf h2 w' hw)
  | sig | tmpB | un | binL | binR | shift | cmpL | cmpR | cast | widen | trunc | red | cat | idxI | idxW | slc | slcP =>
    intro hk; cases hk

/-! ## `hard` implies explicit; annotations of the rules -/

theorem binRule_ex {op : Op} {tl tr t : AT} (h : binRule op tl tr = .ok t) :
    t.ann.ex = (if op.isShift then tl.ann.ex else (tl.ann.ex || tr.ann.ex)) := by
  unfold binRule at h
  simp only at h
  split at h
  · next hs =>
    simp only [hs, ↓reduceIte]
    cases hf : foldBin op tl.ann tr.ann tl.ann.w tl.ann.ex with
    | error e => simp [hf] at h
    | ok a =>
      simp only [hf] at h; cases h
      rcases foldBin_cases hf with rfl | ⟨_, _, _, _, _, _, _, rfl⟩ <;> rfl
  · next hs =>
    simp only [hs, Bool.false_eq_true, ↓reduceIte]
    cases hu : unify tl tr with
    | error e => simp [hu] at h
    | ok p =>
      simp only [hu] at h
      cases hf : foldBin op tl.ann tr.ann (max tl.ann.w tr.ann.w) (tl.ann.ex || tr.ann.ex) with
      | error e => simp [hf] at h
      | ok a =>
        simp only [hf] at h; cases h
        rcases foldBin_cases hf with rfl | ⟨_, _, _, _, _, _, _, rfl⟩ <;> rfl

theorem hard_ex (Γ : Env) : ∀ (e : Expr) (t : AT), checkE Γ e = .ok t → hardE Γ e = true → t.ann.ex = true := by
  intro e
  induction e with
  | sig x w => intro t h _; simp only [checkE] at h; cases h; rfl
  | num v => intro t _ hh; simp [hardE] at hh
  | lv i => intro t _ hh; simp [hardE] at hh
  | tmp i =>
    intro t h hh
    simp only [checkE] at h
    cases hl : Γ.tmps.lookup i with
    | none => simp [hl] at h
    | some p =>
      obtain ⟨w, ex⟩ := p
      simp only [hl] at h; cases h
      simpa [hardE, hl] using hh
  | un op a ih =>
    intro t h hh
    obtain ⟨te, he, rfl⟩ := checkE_un_inv h
    exact ih te he (by simpa [hardE] using hh)
  | bin op l r ihl ihr =>
    intro t h hh
    obtain ⟨tl, tr, hl, hr, hb⟩ := checkE_bin_inv h
    rw [binRule_ex hb]
    simp only [hardE] at hh
    cases hs : op.isShift
    · simp only [hs, Bool.false_eq_true, ↓reduceIte, Bool.or_eq_true] at hh ⊢
      rcases hh with hh | hh
      · exact Or.inl (ihl tl hl hh)
      · exact Or.inr (ihr tr hr hh)
    · simp only [hs, ↓reduceIte] at hh ⊢
      exact ihl tl hl hh
  | cmp op l r _ _ =>
    intro t h _
    obtain ⟨tl, tr, _, _, hb⟩ := checkE_cmp_inv h
    unfold cmpRule at hb
    split at hb
    · cases hb
    · cases hb; rfl
  | ite c a b _ iha ihb =>
    intro t h hh
    obtain ⟨tc, tt, tf, _, ha, hb, hrule⟩ := checkE_ite_inv h
    rw [(iteRule_ann hrule).1]
    simp only [hardE, Bool.and_eq_true] at hh
    simp [iha tt ha hh.1]
  | cast n a _ => intro t h _; obtain ⟨te, _, rfl⟩ := checkE_cast_inv h; rfl
  | ext k ty a n _ =>
    intro t h _
    obtain ⟨te, _, hr⟩ := checkE_ext_inv h
    unfold extRule at hr
    repeat' split at hr
    all_goals (cases hr <;> rfl)
  | red op a _ => intro t h _; obtain ⟨te, _, rfl⟩ := checkE_red_inv h; rfl
  | cat l r _ _ => intro t h _; obtain ⟨tl, tr, _, _, rfl⟩ := checkE_cat_inv h; rfl
  | idx x w i _ => intro t h _; obtain ⟨ti, _, hr⟩ := checkE_idx_inv h; rw [idxRule_ann hr]
  | slc x w lo hi _ _ =>
    intro t h _
    obtain ⟨tl, tr, _, _, hb⟩ := checkE_slc_inv h
    unfold slcRule at hb
    repeat' split at hb
    all_goals (cases hb <;> rfl)

theorem kindOf_lit {a : Ann} {h : Bool} (hh : h = true → a.ex = true) (hex : a.ex = false) : kindOf a h = .lit := by
  cases h
  · simp [kindOf, hex]
  · simp [hh rfl] at hex

/-- re-type the operand of a `Bits<W>` operation at width `W` -/
theorem WT.at_width {Γ : Env} {e : Expr} {a : Ann} {h : Bool} {W : Nat}
    (hwt : WT Γ e a.w (kindOf a h)) (hh : h = true → a.ex = true)
    (hex : a.ex = true → a.w = W) (him : a.ex = false → a.w ≤ W) : WT Γ e W (kindOf a h) := by
  cases hx : a.ex
  · have hk := kindOf_lit hh hx
    rw [hk] at hwt ⊢
    exact hwt.lit_mono rfl W (him hx)
  · rw [← hex hx]; exact hwt

/-! ## accepted + clean ⇒ well typed -/

theorem intOnly_constVal (Γ : Env) : ∀ (e : Expr), intOnly e = true → ∀ t, checkE Γ e = .ok t →
    ∀ v, t.ann.val = some v → constVal e = some v := by
  intro e
  induction e with
  | num n => intro _ t h v hv; simp only [checkE] at h; cases h; simp at hv; simp [constVal, hv]
  | lv i =>
    intro _ t h v hv
    simp only [checkE] at h
    cases hl : Γ.lvs.lookup i with
    | none => simp [hl] at h
    | some w => simp only [hl] at h; cases h; simp at hv
  | un op a ih =>
    intro hi t h v hv
    simp only [intOnly] at hi
    obtain ⟨te, he, rfl⟩ := checkE_un_inv h
    simp only [unRule, ann_n1, Option.map_eq_some_iff] at hv
    obtain ⟨v0, h0, rfl⟩ := hv
    simp [constVal, ih hi te he v0 h0]
  | bin op l r ihl ihr =>
    intro hi t h v hv
    simp only [intOnly, Bool.and_eq_true] at hi
    obtain ⟨tl, tr, hl, hr, hb⟩ := checkE_bin_inv h
    obtain ⟨l', r', h1, h2, h3⟩ := binRule_val hb hv
    simp [constVal, ihl hi.1 tl hl l' h1, ihr hi.2 tr hr r' h2, h3]
  | cmp op l r _ _ =>
    intro _ t h v hv
    obtain ⟨tl, tr, _, _, hb⟩ := checkE_cmp_inv h
    unfold cmpRule at hb
    split at hb
    · cases hb
    · cases hb; simp at hv
  | sig _ _ | tmp _ | ite _ _ _ _ _ _ | cast _ _ _ | ext _ _ _ _ _ | red _ _ _ | cat _ _ _ _ | idx _ _ _ _
  | slc _ _ _ _ _ _ => intro hi; simp [intOnly] at hi

theorem checkE_WT_aux (Γ : Env) : ∀ (e : Expr) (t : AT), checkE Γ e = .ok t → issuesE Γ e = [] →
    WT Γ e t.ann.w (kindOf t.ann (hardE Γ e)) ∧
    (t.ann.ex = false → ∀ v, t.ann.val = some v → constVal e = some v) := by
  intro e
  induction e with
  | sig x w =>
    intro t h hc
    simp only [checkE] at h; cases h
    simp only [issuesE] at hc
    obtain ⟨h1, h2⟩ := widthIssues_nil hc
    exact ⟨.sig x w h1 h2, fun hx => by simp at hx⟩
  | num v =>
    intro t h _
    simp only [checkE] at h; cases h
    exact ⟨.num v _ (nbitsOf_fits v), fun _ w hw => by simp at hw; simp [constVal, hw]⟩
  | lv i =>
    intro t h _
    simp only [checkE] at h
    cases hl : Γ.lvs.lookup i with
    | none => simp [hl] at h
    | some w =>
      simp only [hl] at h; cases h
      exact ⟨.lv i w w hl (Nat.le_refl _), fun _ v hv => by simp at hv⟩
  | tmp i =>
    intro t h _
    simp only [checkE] at h
    cases hl : Γ.tmps.lookup i with
    | none => simp [hl] at h
    | some p =>
      obtain ⟨w, ex⟩ := p
      simp only [hl] at h; cases h
      refine ⟨?_, fun _ v hv => by simp at hv⟩
      cases ex
      · simpa [kindOf, hardE, hl] using WT.tmpL i w w hl (Nat.le_refl _)
      · simpa [kindOf, hardE, hl] using WT.tmpB i w hl
  | un op a ih =>
    intro t h hc
    obtain ⟨te, he, rfl⟩ := checkE_un_inv h
    simp only [issuesE, he, annOf_ok, List.append_eq_nil_iff] at hc
    obtain ⟨hce, hcu⟩ := hc
    have hh : hardE Γ a = true := by
      unfold unIssues at hcu
      cases hhe : hardE Γ a
      · simp only [hhe, Bool.false_eq_true, ↓reduceIte] at hcu; split at hcu <;> cases hcu
      · rfl
    have ihe := (ih te he hce).1
    have hex := hard_ex Γ a te he hh
    simp only [hardE, hh, kindOf, ↓reduceIte, unRule, ann_n1] at ihe ⊢
    exact ⟨.un op a _ ihe, fun hx => by simp [hex] at hx⟩
  | bin op l r ihl ihr =>
    intro t h hc
    obtain ⟨tl, tr, hl, hr, hb⟩ := checkE_bin_inv h
    simp only [issuesE, hl, hr, h, annOf_ok, List.append_eq_nil_iff] at hc
    obtain ⟨⟨hcl, hcr⟩, hcb⟩ := hc
    obtain ⟨w1, c1⟩ := ihl tl hl hcl
    obtain ⟨w2, c2⟩ := ihr tr hr hcr
    have hxl := hard_ex Γ l tl hl
    have hxr := hard_ex Γ r tr hr
    have hbex := binRule_ex hb
    unfold binRule at hb
    unfold binIssues at hcb
    cases hs : op.isShift
    · -- max-width operator
      simp only [hs, Bool.false_eq_true, ↓reduceIte] at hb hcb hbex
      cases hu : unify tl tr with
      | error e => simp [hu] at hb
      | ok p =>
        obtain ⟨tl', tr'⟩ := p
        simp only [hu] at hb
        obtain ⟨u1, u2, u3⟩ := unify_ok hu
        cases hf : foldBin op tl.ann tr.ann (max tl.ann.w tr.ann.w) (tl.ann.ex || tr.ann.ex) with
        | error e => simp [hf] at hb
        | ok a =>
          simp only [hf] at hb; cases hb
          simp only [ann_n2] at hcb hbex ⊢
          rcases foldBin_cases hf with rfl | ⟨lv', rv', v, hlv, hrv, hv, hex0, rfl⟩
          · by_cases hh : (hardE Γ l || hardE Γ r) = true
            · refine ⟨?_, fun _ v hv => by simp at hv⟩
              simp only [hardE, hs, Bool.false_eq_true, ↓reduceIte, hh, kindOf]
              simp only [Bool.or_eq_true] at hh
              rcases hh with hh | hh
              · have hle := hxl hh
                have hW : max tl.ann.w tr.ann.w = tl.ann.w := by
                  cases hre : tr.ann.ex
                  · have := u2 hle hre; omega
                  · have := u1 hle hre; omega
                rw [hW]
                have a1 : WT Γ l tl.ann.w .bits := by simpa [kindOf, hh] using w1
                have a2 := w2.at_width hxr (fun hre => (u1 hle hre).symm) (fun hre => u2 hle hre)
                exact .binL op l r _ _ hs a1 a2
              · have hre := hxr hh
                have hW : max tl.ann.w tr.ann.w = tr.ann.w := by
                  cases hle : tl.ann.ex
                  · have := u3 hle hre; omega
                  · have := u1 hle hre; omega
                rw [hW]
                have a2 : WT Γ r tr.ann.w .bits := by simpa [kindOf, hh] using w2
                have a1 := w1.at_width hxl (fun hle => u1 hle hre) (fun hle => u3 hle hre)
                exact .binR op l r _ _ hs a1 a2
            · simp only [hh, Bool.false_eq_true, ↓reduceIte, foldedNonneg] at hcb
              split at hcb <;> simp at hcb
          · have hle : tl.ann.ex = false := by cases h1 : tl.ann.ex <;> simp_all
            have hre : tr.ann.ex = false := by cases h1 : tr.ann.ex <;> simp_all
            have hh1 : hardE Γ l = false := by
              cases h1 : hardE Γ l
              · rfl
              · simp [hxl h1] at hle
            have hh2 : hardE Γ r = false := by
              cases h1 : hardE Γ r
              · rfl
              · simp [hxr h1] at hre
            simp only [hh1, hh2, Bool.or_self, Bool.false_eq_true, ↓reduceIte, hle, hre, Bool.not_false,
              Bool.and_self] at hcb
            by_cases hn : foldedNonneg ⟨nbitsInt v, false, some v⟩ = true
            · obtain ⟨v', hv', h0⟩ := foldedNonneg_iff.mp hn
              cases hv'
              have hcv : constVal (.bin op l r) = some v := by
                simp [constVal, c1 hle _ hlv, c2 hre _ hrv, hv]
              refine ⟨?_, fun _ v' hv' => by simp at hv'; subst hv'; exact hcv⟩
              simp only [hardE, hs, Bool.false_eq_true, ↓reduceIte, hh1, hh2, kindOf, hle, hre, Bool.or_self]
              exact .const _ v _ hcv h0 (fits_nbitsInt v h0).2
            · simp [hn] at hcb
    · -- shift
      simp only [hs, ↓reduceIte] at hb hcb hbex
      cases hf : foldBin op tl.ann tr.ann tl.ann.w tl.ann.ex with
      | error e => simp [hf] at hb
      | ok a =>
        simp only [hf] at hb; cases hb
        simp only [ann_n2] at hcb hbex ⊢
        rcases foldBin_cases hf with rfl | ⟨lv', rv', v, hlv, hrv, hv, hex0, rfl⟩
        · cases hhl : hardE Γ l with
          | true =>
            simp only [hhl, ↓reduceIte] at hcb
            refine ⟨?_, fun _ v hv => by simp at hv⟩
            simp only [hardE, hs, ↓reduceIte, hhl, kindOf]
            have a1 : WT Γ l tl.ann.w .bits := by simpa [kindOf, hhl] using w1
            have a2 : WT Γ r tl.ann.w (kindOf tr.ann (hardE Γ r)) := by
              refine w2.at_width hxr ?_ ?_
              · intro hre
                simp only [hre, ↓reduceIte] at hcb
                by_cases hw : tr.ann.w = tl.ann.w
                · exact hw
                · simp [hw] at hcb
              · intro hre
                simp only [hre, Bool.false_eq_true, ↓reduceIte] at hcb
                by_cases hw : tr.ann.w ≤ tl.ann.w
                · exact hw
                · simp [hw] at hcb
            exact .shift op l r _ _ hs a1 a2
          | false =>
            simp only [hhl, Bool.false_eq_true, ↓reduceIte, foldedNonneg] at hcb
            split at hcb <;> (try split at hcb) <;> simp at hcb
        · have hhl : hardE Γ l = false := by
            cases h1 : hardE Γ l
            · rfl
            · simp [hxl h1] at hex0
          simp only [hhl, Bool.false_eq_true, ↓reduceIte] at hcb
          by_cases hi : (!tl.ann.ex && !tr.ann.ex) = true
          · simp only [hi, ↓reduceIte] at hcb
            have hre : tr.ann.ex = false := by cases h1 : tr.ann.ex <;> simp_all
            by_cases hn : foldedNonneg ⟨nbitsInt v, tl.ann.ex, some v⟩ = true
            · obtain ⟨v', hv', h0⟩ := foldedNonneg_iff.mp hn
              cases hv'
              have hcv : constVal (.bin op l r) = some v := by
                simp [constVal, c1 hex0 _ hlv, c2 hre _ hrv, hv]
              refine ⟨?_, fun _ v' hv' => by simp at hv'; subst hv'; exact hcv⟩
              simp only [hardE, hs, ↓reduceIte, hhl, kindOf, hex0, Bool.false_eq_true]
              exact .const _ v _ hcv h0 (fits_nbitsInt v h0).2
            · simp [hn] at hcb
          · simp only [hi, Bool.false_eq_true, ↓reduceIte] at hcb
            split at hcb <;> simp at hcb
  | cmp op l r ihl ihr =>
    intro t h hc
    obtain ⟨tl, tr, hl, hr, hb⟩ := checkE_cmp_inv h
    simp only [issuesE, hl, hr, annOf_ok, List.append_eq_nil_iff] at hc
    obtain ⟨⟨hcl, hcr⟩, hcb⟩ := hc
    obtain ⟨w1, _⟩ := ihl tl hl hcl
    obtain ⟨w2, _⟩ := ihr tr hr hcr
    have hxl := hard_ex Γ l tl hl
    have hxr := hard_ex Γ r tr hr
    unfold cmpRule at hb
    cases hu : unify tl tr with
    | error e => simp [hu] at hb
    | ok p =>
      simp only [hu] at hb; cases hb
      obtain ⟨u1, u2, u3⟩ := unify_ok hu
      unfold cmpIssues softKind at hcb
      by_cases hh : (hardE Γ l || hardE Γ r) = true
      · refine ⟨?_, fun hx => by simp at hx⟩
        simp only [hardE, hh, kindOf, ↓reduceIte, ann_n2]
        simp only [Bool.or_eq_true] at hh
        rcases hh with hh | hh
        · have hle := hxl hh
          have a1 : WT Γ l tl.ann.w .bits := by simpa [kindOf, hh] using w1
          have a2 := w2.at_width hxr (fun hre => (u1 hle hre).symm) (fun hre => u2 hle hre)
          exact .cmpL op l r _ _ a1 a2
        · have hre := hxr hh
          have a2 : WT Γ r tr.ann.w .bits := by simpa [kindOf, hh] using w2
          have a1 := w1.at_width hxl (fun hle => u1 hle hre) (fun hle => u3 hle hre)
          exact .cmpR op l r _ _ a1 a2
      · simp only [hh, Bool.false_eq_true, ↓reduceIte] at hcb
        split at hcb <;> simp at hcb
  | ite c a b ihc iha ihb =>
    intro t h hc
    obtain ⟨tc, tt, tf, hcc, hca, hcb, hrule⟩ := checkE_ite_inv h
    simp only [issuesE, hca, hcb, h, annOf_ok, List.append_eq_nil_iff] at hc
    obtain ⟨⟨⟨hpc, hia⟩, hib⟩, hiw⟩ := hc
    obtain ⟨hex, hval⟩ := iteRule_ann hrule
    obtain ⟨w1, _⟩ := iha tt hca hia
    obtain ⟨w2, _⟩ := ihb tf hcb hib
    have hxa := hard_ex Γ a tt hca
    have hxb := hard_ex Γ b tf hcb
    unfold iteIssues at hiw
    split at hiw
    · next hw =>
      obtain ⟨q1, q2, q3, q4⟩ := hw
      refine ⟨?_, fun _ v hv => by simp [hval] at hv⟩
      have a1 := w1.at_width hxa q3 (fun _ => q1)
      have a2 := w2.at_width hxb q4 (fun _ => q2)
      have hk : kindOf t.ann (hardE Γ (.ite c a b)) = (kindOf tt.ann (hardE Γ a)).join (kindOf tf.ann (hardE Γ b)) := by
        simp only [hardE, kindOf, hex]
        cases h1 : hardE Γ a <;> cases h2 : hardE Γ b <;> cases h3 : tt.ann.ex <;> cases h4 : tf.ann.ex <;>
          simp_all [Kind.join]
      rw [hk]
      by_cases hio : intOnly c = true
      · exact .iteI c a b _ _ _ hio a1 a2
      · simp only [hio, Bool.false_eq_true, ↓reduceIte] at hpc
        exact .iteW c a b _ _ _ _ _ (ihc tc hcc hpc).1 a1 a2
    · cases hiw
  | cast n a ih =>
    intro t h hc
    obtain ⟨te, he, rfl⟩ := checkE_cast_inv h
    simp only [issuesE, he, annOf_ok, List.append_eq_nil_iff, castIssues] at hc
    obtain ⟨hce, hcw, hcc⟩ := hc
    obtain ⟨h1, h2⟩ := widthIssues_nil hcw
    obtain ⟨w1, _⟩ := ih te he hce
    refine ⟨?_, fun hx => by simp [castRule] at hx⟩
    simp only [hardE, kindOf, ↓reduceIte, castRule, ann_n1]
    refine .cast n a _ h1 h2 (w1.at_width (hard_ex Γ a te he) ?_ ?_)
    · intro hex
      simp only [hex, ↓reduceIte] at hcc
      by_cases hw : te.ann.w = n
      · exact hw
      · simp [hw] at hcc
    · intro hex
      simp only [hex, Bool.false_eq_true, ↓reduceIte] at hcc
      by_cases hw : te.ann.w ≤ n
      · exact hw
      · simp [hw] at hcc
  | ext k ty a n ih =>
    intro t h hc
    obtain ⟨te, he, hr⟩ := checkE_ext_inv h
    simp only [issuesE, List.append_eq_nil_iff] at hc
    obtain ⟨hce, hcw⟩ := hc
    obtain ⟨h1, h2⟩ := widthIssues_nil hcw
    obtain ⟨w1, _⟩ := ih te he hce
    unfold extRule at hr
    cases k with
    | trunc =>
      simp only at hr
      split at hr
      · cases hr
      · split at hr
        · cases hr
        · cases hr
          exact ⟨.trunc ty a _ n _ h1 (by omega) h2 w1, fun hx => by simp at hx⟩
    | zext =>
      simp only at hr
      split at hr
      · cases hr
      · cases hr
        exact ⟨.widen .zext ty a _ n _ (by decide) (by omega) h2 w1, fun hx => by simp at hx⟩
    | sext =>
      simp only at hr
      split at hr
      · cases hr
      · cases hr
        exact ⟨.widen .sext ty a _ n _ (by decide) (by omega) h2 w1, fun hx => by simp at hx⟩
  | red op a ih =>
    intro t h hc
    obtain ⟨te, he, rfl⟩ := checkE_red_inv h
    simp only [issuesE] at hc
    obtain ⟨w1, _⟩ := ih te he hc
    exact ⟨.red op a _ _ w1, fun hx => by simp at hx⟩
  | cat l r ihl ihr =>
    intro t h hc
    obtain ⟨tl, tr, hl, hr, rfl⟩ := checkE_cat_inv h
    simp only [issuesE, hl, hr, annOf_ok, List.append_eq_nil_iff] at hc
    obtain ⟨⟨hcl, hcr⟩, hcw⟩ := hc
    obtain ⟨_, h2⟩ := widthIssues_nil hcw
    obtain ⟨w1, _⟩ := ihl tl hl hcl
    obtain ⟨w2, _⟩ := ihr tr hr hcr
    exact ⟨.cat l r _ _ _ _ w1 w2 h2, fun hx => by simp at hx⟩
  | idx x w i ih =>
    intro t h hc
    obtain ⟨ti, hi, hr⟩ := checkE_idx_inv h
    simp only [issuesE, List.append_eq_nil_iff] at hc
    obtain ⟨hcw, hpi⟩ := hc
    obtain ⟨h1, h2⟩ := widthIssues_nil hcw
    rw [idxRule_ann hr]
    refine ⟨?_, fun hx => by simp at hx⟩
    by_cases hio : intOnly i = true
    · exact .idxI x w i h1 h2 hio
    · simp only [hio, Bool.false_eq_true, ↓reduceIte] at hpi
      exact .idxW x w i _ _ h1 h2 (ih ti hi hpi).1
  | slc x w lo hi ihlo ihhi =>
    intro t h hc
    obtain ⟨tlo, thi, hlo, hhi, hr⟩ := checkE_slc_inv h
    simp only [issuesE, hlo, hhi, annOf_ok, List.append_eq_nil_iff] at hc
    obtain ⟨hcw, hcb⟩ := hc
    obtain ⟨_, hw2⟩ := widthIssues_nil hcw
    have hio : intOnly lo = true ∧ intOnly hi = true := by
      by_cases hb : (intOnly lo && intOnly hi) = true
      · simpa using hb
      · split at hcb <;> simp [hb] at hcb
    refine ⟨?_, fun hx => by obtain ⟨n, hn⟩ := slcRule_ann_shape hr; simp [hn] at hx⟩
    cases hvl : tlo.ann.val with
    | some l =>
      cases hvu : thi.ann.val with
      | some u =>
        obtain ⟨h1, h2, h3, hann⟩ := slcRule_const hr hvl hvu
        rw [hann]
        exact .slc x w lo hi l u hw2 (intOnly_constVal Γ lo hio.1 tlo hlo l hvl)
          (intOnly_constVal Γ hi hio.2 thi hhi u hvu) h2 h1 h3
      | none =>
        obtain ⟨sz, nn, tN, rfl, hcN, hsz, hge, hann⟩ := slcRule_plus_inv Γ hhi hr (by simp [hvu])
        rw [hann]
        simp only [intOnly, Bool.and_eq_true] at hio
        exact .slcP x w lo nn sz hw2 hio.1 (intOnly_constVal Γ nn hio.2.2 tN hcN sz hsz) hge
    | none =>
      obtain ⟨sz, nn, tN, rfl, hcN, hsz, hge, hann⟩ := slcRule_plus_inv Γ hhi hr (by simp [hvl])
      rw [hann]
      simp only [intOnly, Bool.and_eq_true] at hio
      exact .slcP x w lo nn sz hw2 hio.1 (intOnly_constVal Γ nn hio.2.2 tN hcN sz hsz) hge

theorem checkE_WT (Γ : Env) (e : Expr) (t : AT) (h : checkE Γ e = .ok t) (hc : issuesE Γ e = []) :
    WT Γ e t.ann.w (kindOf t.ann (hardE Γ e)) := (checkE_WT_aux Γ e t h hc).1

/-- well-typed statements: the right-hand side of an assignment is typed at the width of its target
    (a literal right-hand side re-sized to it), a temporary holds a `Bits` or a literal, loop bounds are
    non-negative constants; `envAfter` threads the temporaries the checker records -/
inductive WTS : Env → Stmt → Prop
  | skip (Γ : Env) : WTS Γ .skip
  | seq (Γ : Env) (a b : Stmt) : WTS Γ a → WTS (envAfter Γ a) b → WTS Γ (.seq a b)
  | asg (Γ : Env) (tgt e : Expr) (w : Nat) (k : Kind) :
      isTarget tgt = true → WT Γ tgt w .bits → WT Γ e w k → WTS Γ (.asg tgt e)
  | tasg (Γ : Env) (t : Nat) (e : Expr) (w : Nat) (k : Kind) : WT Γ e w k → k ≠ .soft → WTS Γ (.tasg t e)
  | ifsI (Γ : Env) (c : Expr) (b o : Stmt) :
      intOnly c = true → WTS Γ b → WTS (envAfter Γ b) o → WTS Γ (.ifs c b o)
  | ifsW (Γ : Env) (c : Expr) (b o : Stmt) (w : Nat) (k : Kind) :
      WT Γ c w k → WTS Γ b → WTS (envAfter Γ b) o → WTS Γ (.ifs c b o)
  | for_ (Γ : Env) (i : Nat) (a b c : Int) (body : Stmt) :
      0 ≤ a → 0 ≤ b → c ≠ 0 → WTS { Γ with lvs := (i, loopWidth a b c) :: Γ.lvs } body →
      WTS Γ (.for_ i a b c body)

theorem target_hard (Γ : Env) (tgt : Expr) (h : isTarget tgt = true) : hardE Γ tgt = true := by
  cases tgt <;> simp_all [isTarget, hardE]

theorem checkS_WTS : ∀ (s : Stmt) (Γ Γ' : Env) (a : AS), checkS Γ s = .ok (Γ', a) → issuesS Γ s = [] →
    WTS Γ s := by
  intro s
  induction s with
  | skip => intro Γ Γ' a _ _; exact .skip Γ
  | seq s1 s2 ih1 ih2 =>
    intro Γ Γ' a h hc
    simp only [checkS] at h
    cases h1 : checkS Γ s1 with
    | error e => simp [h1] at h
    | ok p1 =>
      obtain ⟨Γ1, a1⟩ := p1
      cases h2 : checkS Γ1 s2 with
      | error e => simp [h1, h2] at h
      | ok p2 =>
        obtain ⟨Γ2, a2⟩ := p2
        simp only [issuesS, envAfter_ok h1, List.append_eq_nil_iff] at hc
        exact .seq Γ s1 s2 (ih1 Γ Γ1 a1 h1 hc.1) (by rw [envAfter_ok h1]; exact ih2 Γ1 Γ2 a2 h2 hc.2)
  | asg tgt e =>
    intro Γ Γ' a h hc
    obtain ⟨hT, _, tt, te, hct, hce, hr⟩ := checkS_asg_inv h
    simp only [issuesS, List.append_eq_nil_iff] at hc
    obtain ⟨hit, hie⟩ := hc
    have w1 := checkE_WT Γ tgt tt hct hit
    have w2 := checkE_WT Γ e te hce hie
    simp only [target_hard Γ tgt hT, kindOf, ↓reduceIte] at w1
    exact .asg Γ tgt e tt.ann.w _ hT w1 (w2.at_width (hard_ex Γ e te hce) (asgRule_ok hr).1 (asgRule_ok hr).2)
  | tasg t e =>
    intro Γ Γ' a h hc
    obtain ⟨te, he, _, _⟩ := checkS_tasg_inv h
    simp only [issuesS, he, annOf_ok, List.append_eq_nil_iff] at hc
    obtain ⟨⟨hie, _⟩, hsoft⟩ := hc
    refine .tasg Γ t e _ _ (checkE_WT Γ e te he hie) ?_
    cases hh : hardE Γ e <;> cases hx : te.ann.ex <;> simp_all [kindOf]
  | ifs c b o ihb iho =>
    intro Γ Γ' a h hc
    simp only [checkS] at h
    cases hcc : checkE Γ c with
    | error e => simp [hcc] at h
    | ok tc =>
      cases h1 : checkS Γ b with
      | error e => simp [hcc, h1] at h
      | ok p1 =>
        obtain ⟨Γ1, a1⟩ := p1
        cases h2 : checkS Γ1 o with
        | error e => simp [hcc, h1, h2] at h
        | ok p2 =>
          obtain ⟨Γ2, a2⟩ := p2
          simp only [issuesS, envAfter_ok h1, List.append_eq_nil_iff, posIssues] at hc
          obtain ⟨⟨hpc, hcb⟩, hco⟩ := hc
          have wb := ihb Γ Γ1 a1 h1 hcb
          have wo : WTS (envAfter Γ b) o := by rw [envAfter_ok h1]; exact iho Γ1 Γ2 a2 h2 hco
          by_cases hio : intOnly c = true
          · exact .ifsI Γ c b o hio wb wo
          · simp only [hio, Bool.false_eq_true, ↓reduceIte] at hpc
            exact .ifsW Γ c b o _ _ (checkE_WT Γ c tc hcc hpc) wb wo
  | for_ i a b c body ih =>
    intro Γ Γ' as h hc
    simp only [checkS] at h
    split at h
    · cases h
    · split at h
      · cases h
      · split at h
        · cases h
        · next h1 h2 h3 =>
          cases hb : checkS { Γ with lvs := (i, loopWidth a b c) :: Γ.lvs } body with
          | error e => simp [hb] at h
          | ok p1 =>
            obtain ⟨Γ1, a1⟩ := p1
            simp only [issuesS] at hc
            exact .for_ Γ i a b c body (by omega) (by omega) h3 (ih _ Γ1 a1 hb hc)

end PV.TC
