import PymtlVerif.Proofs.Names
import Std.Data.String.ToNat
/-!
# Lemmas about `__`-joined identifiers and struct type names (`Model/Names.lean`, C13)

* `hasDunderL_iff`, `okNameL_iff`: the Boolean well-formedness test of a user name is the stated property;
* `seg_cancel`: a segment without `__` followed by nothing or by the separator can be read back uniquely (a segment
  may END in `_`, the next one never STARTS with `_`);
* `flatId_inj_aux`: `"__".join` is injective on paths of well-formed segments;
* `tok_cancel`, `tyL_inj`, `fieldStrL_inj`: a field list of vectors / lists of vectors can be read back from
  `Struct.get_field_str`.
-/
namespace PV.Names

/-! ## character lists -/

/-- `__` does not occur -/
def NoDunder (a : List Char) : Prop := ∀ p q, a ≠ p ++ '_' :: '_' :: q

/-- Prop form of `okNameL`: starts with a character that is neither `_` nor a digit, contains no `__` -/
def OkL (a : List Char) : Prop := (∃ c r, a = c :: r ∧ c ≠ '_' ∧ c.isDigit = false) ∧ NoDunder a

theorem hasDunderL_iff (a : List Char) : hasDunderL a = true ↔ ∃ p q, a = p ++ '_' :: '_' :: q := by
  induction a with
  | nil =>
    simp only [hasDunderL, Bool.false_eq_true, false_iff]
    rintro ⟨p, q, h⟩
    cases p <;> simp at h
  | cons c r ih =>
    simp only [hasDunderL, Bool.or_eq_true, Bool.and_eq_true, beq_iff_eq, ih]
    constructor
    · rintro (⟨hc, hr⟩ | ⟨p, q, h⟩)
      · cases r with
        | nil => simp at hr
        | cons x r' =>
          simp only [List.head?_cons, Option.some.injEq] at hr
          exact ⟨[], r', by simp [hc, hr]⟩
      · exact ⟨c :: p, q, by simp [h]⟩
    · rintro ⟨p, q, h⟩
      cases p with
      | nil =>
        simp only [List.nil_append, List.cons.injEq] at h
        exact Or.inl ⟨h.1, by simp [h.2]⟩
      | cons x p' =>
        simp only [List.cons_append, List.cons.injEq] at h
        exact Or.inr ⟨p', q, h.2⟩

theorem hasDunderL_false_iff (a : List Char) : hasDunderL a = false ↔ NoDunder a := by
  constructor
  · intro h p q e
    have := (hasDunderL_iff a).mpr ⟨p, q, e⟩
    rw [h] at this
    exact Bool.noConfusion this
  · intro h
    cases hd : hasDunderL a with
    | false => rfl
    | true =>
      obtain ⟨p, q, e⟩ := (hasDunderL_iff a).mp hd
      exact absurd e (h p q)

theorem okNameL_iff (a : List Char) : okNameL a = true ↔ OkL a := by
  cases a with
  | nil =>
    simp only [okNameL, Bool.false_eq_true, false_iff]
    rintro ⟨⟨c, r, h, _⟩, _⟩
    cases h
  | cons c r =>
    simp only [okNameL, Bool.and_eq_true, bne_iff_ne, ne_eq, Bool.not_eq_true', hasDunderL_false_iff]
    constructor
    · rintro ⟨⟨h1, h2⟩, h3⟩
      exact ⟨⟨c, r, rfl, h1, h2⟩, h3⟩
    · rintro ⟨⟨c', r', e, h1, h2⟩, h3⟩
      simp only [List.cons.injEq] at e
      obtain ⟨rfl, rfl⟩ := e
      exact ⟨⟨h1, h2⟩, h3⟩

theorem noDunder_of_not_mem (a : List Char) (h : '_' ∉ a) : NoDunder a := by
  intro p q e
  apply h
  rw [e]
  simp

/-- what may follow a segment: nothing, or the separator followed by something that does not start with `_` -/
def TailShape (T : List Char) : Prop := T = [] ∨ ∃ r, T = '_' :: '_' :: r ∧ r.head? ≠ some '_'

/-- A segment without `__` followed by the end or by the separator is read back uniquely. -/
theorem seg_cancel (a a' T T' : List Char) (ha : NoDunder a) (ha' : NoDunder a')
    (hT : TailShape T) (hT' : TailShape T') (h : a ++ T = a' ++ T') : a = a' ∧ T = T' := by
  have key : ∀ (a a' T T' : List Char), NoDunder a' → TailShape T → TailShape T' →
      ∀ d, a' = a ++ d → T = d ++ T' → d = [] := by
    intro a a' T T' ha' hT hT' d h1 h2
    cases d with
    | nil => rfl
    | cons c d =>
      exfalso
      rcases hT with hT | ⟨r, hT, hr⟩
      · rw [hT] at h2; simp at h2
      · rw [hT] at h2
        simp only [List.cons_append, List.cons.injEq] at h2
        obtain ⟨hc, h2⟩ := h2
        cases d with
        | nil =>
          simp only [List.nil_append] at h2
          rcases hT' with hT' | ⟨r', hT', _⟩
          · rw [hT'] at h2; simp at h2
          · rw [hT'] at h2
            simp only [List.cons.injEq, true_and] at h2
            apply hr
            rw [h2]
            rfl
        | cons c2 d =>
          simp only [List.cons_append, List.cons.injEq] at h2
          exact ha' a d (by rw [h1, ← hc, ← h2.1])
  rcases List.append_eq_append_iff.mp h with ⟨d, h1, h2⟩ | ⟨d, h1, h2⟩
  · have := key a a' T T' ha' hT hT' d h1 h2
    subst this; simp at h1 h2; exact ⟨h1.symm, h2⟩
  · have := key a' a T' T ha hT' hT d h1 h2
    subst this; simp at h1 h2; exact ⟨h1, h2.symm⟩

/-! ## segments -/

theorem repr_digits (i : Nat) : ∀ c ∈ (toString i).toList, c.isDigit = true := by
  intro c hc
  rw [Nat.toString_eq_repr, Nat.toList_repr] at hc
  exact Nat.isDigit_of_mem_toDigits (by omega) (by omega) hc

theorem repr_ne_nil (i : Nat) : (toString i).toList ≠ [] := by
  rw [Nat.toString_eq_repr, Nat.toList_repr]
  exact Nat.toDigits_ne_nil

theorem repr_head (i : Nat) : ∃ c r, (toString i).toList = c :: r ∧ c.isDigit = true := by
  cases h : (toString i).toList with
  | nil => exact absurd h (repr_ne_nil i)
  | cons c r => exact ⟨c, r, rfl, repr_digits i c (by rw [h]; simp)⟩

theorem repr_no_underscore (i : Nat) : '_' ∉ (toString i).toList := by
  intro h
  have := repr_digits i _ h
  revert this; decide

/-- the character list of a well-formed segment starts with a character other than `_` and contains no `__` -/
theorem seg_shape (s : Seg) (h : s.ok = true) :
    (∃ c r, s.str.toList = c :: r ∧ c ≠ '_') ∧ NoDunder s.str.toList := by
  cases s with
  | name n =>
    obtain ⟨⟨c, r, e, hc, _⟩, hn⟩ := (okNameL_iff _).mp h
    exact ⟨⟨c, r, e, hc⟩, hn⟩
  | idx i =>
    refine ⟨?_, noDunder_of_not_mem _ (repr_no_underscore i)⟩
    obtain ⟨c, r, e, hc⟩ := repr_head i
    refine ⟨c, r, e, ?_⟩
    rintro rfl
    revert hc; decide

theorem seg_str_inj (s t : Seg) (hs : s.ok = true) (ht : t.ok = true) (e : s.str.toList = t.str.toList) : s = t := by
  have clash : ∀ (n : String) (i : Nat), okName n = true → n.toList = (toString i).toList → False := by
    intro n i hn e
    obtain ⟨⟨c, r, e1, _, hc⟩, _⟩ := (okNameL_iff _).mp hn
    have := repr_digits i c (by rw [← e, e1]; simp)
    rw [hc] at this
    exact Bool.noConfusion this
  cases s with
  | name n =>
    cases t with
    | name n' => simp only [Seg.str] at e; rw [String.toList_inj.mp e]
    | idx i => exact (clash n i hs e).elim
  | idx i =>
    cases t with
    | name n' => exact (clash n' i ht e.symm).elim
    | idx i' =>
      simp only [Seg.str] at e
      have e2 : Nat.repr i = Nat.repr i' := String.toList_inj.mp e
      rw [Nat.repr_injective e2]

/-- what follows the first segment in `flatId` -/
def tailL : List Seg → List Char
  | [] => []
  | t :: r => '_' :: '_' :: (flatId (t :: r)).toList

theorem flatId_cons_toList (s : Seg) (r : List Seg) : (flatId (s :: r)).toList = s.str.toList ++ tailL r := by
  cases r with
  | nil => simp [flatId, tailL]
  | cons t r =>
    simp only [flatId, List.map_cons, String.intercalate_cons_cons, String.toList_append, tailL]
    simp

theorem tailL_shape (r : List Seg) (h : ∀ s ∈ r, s.ok = true) : TailShape (tailL r) := by
  cases r with
  | nil => exact Or.inl rfl
  | cons t r =>
    refine Or.inr ⟨_, rfl, ?_⟩
    rw [flatId_cons_toList]
    obtain ⟨⟨c, r', e, hc⟩, _⟩ := seg_shape t (h t (by simp))
    rw [e]
    simp only [List.cons_append, List.head?_cons, ne_eq, Option.some.injEq]
    exact hc

theorem flatId_inj_aux (p q : List Seg) (hp : ∀ s ∈ p, s.ok = true) (hq : ∀ s ∈ q, s.ok = true)
    (h : (flatId p).toList = (flatId q).toList) : p = q := by
  induction p generalizing q with
  | nil =>
    cases q with
    | nil => rfl
    | cons t q =>
      exfalso
      rw [flatId_cons_toList] at h
      obtain ⟨⟨c, r, e, _⟩, _⟩ := seg_shape t (hq t (by simp))
      rw [e] at h
      simp [flatId] at h
  | cons s p ih =>
    cases q with
    | nil =>
      exfalso
      rw [flatId_cons_toList] at h
      obtain ⟨⟨c, r, e, _⟩, _⟩ := seg_shape s (hp s (by simp))
      rw [e] at h
      simp [flatId] at h
    | cons t q =>
      rw [flatId_cons_toList, flatId_cons_toList] at h
      have hs := hp s (by simp)
      have ht := hq t (by simp)
      have hp' : ∀ x ∈ p, x.ok = true := fun x hx => hp x (List.mem_cons_of_mem _ hx)
      have hq' : ∀ x ∈ q, x.ok = true := fun x hx => hq x (List.mem_cons_of_mem _ hx)
      obtain ⟨e1, e2⟩ := seg_cancel _ _ _ _ (seg_shape s hs).2 (seg_shape t ht).2 (tailL_shape p hp') (tailL_shape q hq') h
      rw [seg_str_inj s t hs ht e1]
      congr 1
      cases p with
      | nil =>
        cases q with
        | nil => rfl
        | cons t' q' => simp [tailL] at e2
      | cons s' p' =>
        cases q with
        | nil => simp [tailL] at e2
        | cons t' q' =>
          simp only [tailL, List.cons.injEq, true_and] at e2
          exact ih (t' :: q') hp' hq' e2

/-! ## struct names -/

/-- a type string: starts with a digit, contains no `_` -/
def TyL (y : List Char) : Prop := (∃ c r, y = c :: r ∧ c.isDigit = true) ∧ '_' ∉ y

/-- what may follow a field token: nothing, or the separator followed by a name (which starts with a character that is
neither `_` nor a digit) -/
def TailShapeN (R : List Char) : Prop := R = [] ∨ ∃ c r, R = '_' :: '_' :: c :: r ∧ c ≠ '_' ∧ c.isDigit = false

theorem ty_cancel (y y' R R' : List Char) (hy : '_' ∉ y) (hy' : '_' ∉ y')
    (hR : R = [] ∨ ∃ r, R = '_' :: r) (hR' : R' = [] ∨ ∃ r, R' = '_' :: r) (h : y ++ R = y' ++ R') :
    y = y' ∧ R = R' := by
  have key : ∀ (y y' R R' : List Char), '_' ∉ y' → (R = [] ∨ ∃ r, R = '_' :: r) →
      ∀ d, y' = y ++ d → R = d ++ R' → d = [] := by
    intro y y' R R' hy' hR d h1 h2
    cases d with
    | nil => rfl
    | cons c d =>
      exfalso
      rcases hR with hR | ⟨r, hR⟩
      · rw [hR] at h2; simp at h2
      · rw [hR] at h2
        simp only [List.cons_append, List.cons.injEq] at h2
        apply hy'
        rw [h1, ← h2.1]
        simp
  rcases List.append_eq_append_iff.mp h with ⟨d, h1, h2⟩ | ⟨d, h1, h2⟩
  · have := key y y' R R' hy' hR d h1 h2
    subst this; simp at h1 h2; exact ⟨h1.symm, h2⟩
  · have := key y' y R' R hy hR' d h1 h2
    subst this; simp at h1 h2; exact ⟨h1, h2.symm⟩

/-- A field token `name_type` followed by the end or by the separator and the next name is read back uniquely: the
name may contain single `_`, digits, and may end in `_`. -/
theorem tok_cancel (a a' y y' R R' : List Char) (ha : OkL a) (ha' : OkL a') (hy : TyL y) (hy' : TyL y')
    (hR : TailShapeN R) (hR' : TailShapeN R') (h : a ++ '_' :: (y ++ R) = a' ++ '_' :: (y' ++ R')) :
    a = a' ∧ y = y' ∧ R = R' := by
  have key : ∀ (a a' y y' R R' : List Char), NoDunder a' → TyL y → TyL y' → TailShapeN R →
      ∀ d, a' = a ++ d → '_' :: (y ++ R) = d ++ '_' :: (y' ++ R') → d = [] := by
    intro a a' y y' R R' ha' hy hy' hR d h1 h2
    cases d with
    | nil => rfl
    | cons c d' =>
      exfalso
      simp only [List.cons_append, List.cons.injEq] at h2
      obtain ⟨hc, h2⟩ := h2
      obtain ⟨⟨cy', ry', ey', hdy'⟩, _⟩ := hy'
      rcases List.append_eq_append_iff.mp h2 with ⟨e, h3, h4⟩ | ⟨e, h3, h4⟩
      · -- d' = y ++ e, R = e ++ '_' :: y' ++ R'
        rcases hR with hR | ⟨x, r, hR, hx1, hx2⟩
        · rw [hR] at h4
          cases e <;> simp at h4
        · rw [hR] at h4
          cases e with
          | nil =>
            simp only [List.nil_append, List.cons.injEq, true_and] at h4
            rw [ey'] at h4
            simp only [List.cons_append, List.cons.injEq] at h4
            rw [← h4.1] at hdy'
            revert hdy'; decide
          | cons e1 e' =>
            simp only [List.cons_append, List.cons.injEq] at h4
            obtain ⟨he1, h4⟩ := h4
            cases e' with
            | nil =>
              simp only [List.nil_append, List.cons.injEq, true_and] at h4
              rw [ey'] at h4
              simp only [List.cons_append, List.cons.injEq] at h4
              rw [← h4.1, hx2] at hdy'
              exact Bool.noConfusion hdy'
            | cons e2 e'' =>
              simp only [List.cons_append, List.cons.injEq] at h4
              apply ha' (a ++ '_' :: y) e''
              rw [h1, ← hc, h3, ← he1, ← h4.1]
              simp
      · -- y = d' ++ e, e ++ R = '_' :: y' ++ R'
        cases e with
        | nil =>
          -- as above with an empty remainder
          simp only [List.nil_append] at h4
          simp only [List.append_nil] at h3
          rcases hR with hR | ⟨x, r, hR, hx1, hx2⟩
          · rw [hR] at h4; simp at h4
          · rw [hR] at h4
            simp only [List.cons.injEq, true_and] at h4
            rw [ey'] at h4
            simp only [List.cons_append, List.cons.injEq] at h4
            obtain ⟨h5, _⟩ := h4
            rw [h5] at hdy'
            revert hdy'; decide
        | cons e1 e' =>
          simp only [List.cons_append, List.cons.injEq] at h4
          apply hy.2
          rw [h3, ← h4.1]
          simp
  have hn : a = a' := by
    rcases List.append_eq_append_iff.mp h with ⟨d, h1, h2⟩ | ⟨d, h1, h2⟩
    · have := key a a' y y' R R' ha'.2 hy hy' hR d h1 h2
      subst this; simpa using h1.symm
    · have := key a' a y' y R' R ha.2 hy' hy hR' d h1 h2
      subst this; simpa using h1
  subst hn
  simp only [List.append_cancel_left_eq, List.cons.injEq, true_and] at h
  have tl : ∀ R, TailShapeN R → (R = [] ∨ ∃ r, R = '_' :: r) := by
    intro R hR
    rcases hR with hR | ⟨c, r, hR, _⟩
    · exact Or.inl hR
    · exact Or.inr ⟨_, hR⟩
  obtain ⟨e1, e2⟩ := ty_cancel y y' R R' hy.2 hy'.2 (tl R hR) (tl R' hR') h
  exact ⟨rfl, e1, e2⟩

/-! ### type strings of vectors and lists of vectors -/

/-- `'x'.join(str(d))` -/
def dimsL : List Nat → List Char
  | [] => []
  | [d] => (toString d).toList
  | d :: e :: r => (toString d).toList ++ 'x' :: dimsL (e :: r)

theorem dimsL_eq (dims : List Nat) : ("x".intercalate (dims.map toString)).toList = dimsL dims := by
  induction dims with
  | nil => simp [dimsL]
  | cons d r ih =>
    cases r with
    | nil => simp [dimsL]
    | cons e r =>
      simp only [List.map_cons, String.intercalate_cons_cons, String.toList_append, dimsL]
      simp only [List.map_cons] at ih
      rw [ih]
      simp

theorem digits_cancel (a a' T T' : List Char) (ha : ∀ c ∈ a, c.isDigit = true) (ha' : ∀ c ∈ a', c.isDigit = true)
    (hT : T = [] ∨ ∃ r, T = 'x' :: r) (hT' : T' = [] ∨ ∃ r, T' = 'x' :: r) (h : a ++ T = a' ++ T') :
    a = a' ∧ T = T' := by
  have key : ∀ (a a' T T' : List Char), (∀ c ∈ a', c.isDigit = true) → (T = [] ∨ ∃ r, T = 'x' :: r) →
      ∀ d, a' = a ++ d → T = d ++ T' → d = [] := by
    intro a a' T T' ha' hT d h1 h2
    cases d with
    | nil => rfl
    | cons c d =>
      exfalso
      rcases hT with hT | ⟨r, hT⟩
      · rw [hT] at h2; simp at h2
      · rw [hT] at h2
        simp only [List.cons_append, List.cons.injEq] at h2
        have := ha' c (by rw [h1]; simp)
        rw [← h2.1] at this
        revert this; decide
  rcases List.append_eq_append_iff.mp h with ⟨d, h1, h2⟩ | ⟨d, h1, h2⟩
  · have := key a a' T T' ha' hT d h1 h2
    subst this; simp at h1 h2; exact ⟨h1.symm, h2⟩
  · have := key a' a T' T ha hT' d h1 h2
    subst this; simp at h1 h2; exact ⟨h1, h2.symm⟩

theorem toString_nat_inj (m n : Nat) (h : (toString m).toList = (toString n).toList) : m = n := by
  have e2 : Nat.repr m = Nat.repr n := String.toList_inj.mp h
  exact Nat.repr_injective e2

theorem dimsL_shape (r : List Nat) : (r = [] ∧ dimsL r = []) ∨ (r ≠ [] ∧ dimsL r ≠ []) := by
  cases r with
  | nil => exact Or.inl ⟨rfl, rfl⟩
  | cons d r =>
    refine Or.inr ⟨by simp, ?_⟩
    cases r with
    | nil => exact repr_ne_nil d
    | cons e r =>
      simp only [dimsL]
      intro h
      have := congrArg List.length h
      simp at this

theorem dimsL_inj (ds ds' : List Nat) (h : dimsL ds = dimsL ds') : ds = ds' := by
  induction ds generalizing ds' with
  | nil =>
    rcases dimsL_shape ds' with ⟨e, _⟩ | ⟨_, e⟩
    · exact e.symm
    · exact absurd h.symm e
  | cons d r ih =>
    cases ds' with
    | nil =>
      rcases dimsL_shape (d :: r) with ⟨e, _⟩ | ⟨_, e⟩
      · cases e
      · exact absurd h e
    | cons d' r' =>
      have sh : ∀ (d : Nat) (r : List Nat), ∃ T, dimsL (d :: r) = (toString d).toList ++ T ∧
          (T = [] ∨ ∃ q, T = 'x' :: q) ∧ (r = [] → T = []) ∧ (∀ e q, r = e :: q → T = 'x' :: dimsL (e :: q)) := by
        intro d r
        cases r with
        | nil => exact ⟨[], by simp [dimsL], Or.inl rfl, fun _ => rfl, fun e q h => (by cases h)⟩
        | cons e q => exact ⟨'x' :: dimsL (e :: q), by simp [dimsL], Or.inr ⟨_, rfl⟩, fun h => (by cases h),
            fun e' q' h => (by cases h; rfl)⟩
      obtain ⟨T, e1, s1, n1, c1⟩ := sh d r
      obtain ⟨T', e1', s1', n1', c1'⟩ := sh d' r'
      rw [e1, e1'] at h
      obtain ⟨hd, hT⟩ := digits_cancel _ _ _ _ (repr_digits d) (repr_digits d') s1 s1' h
      rw [toString_nat_inj d d' hd]
      congr 1
      cases r with
      | nil =>
        cases r' with
        | nil => rfl
        | cons e' q' =>
          rw [n1 rfl, c1' e' q' rfl] at hT
          cases hT
      | cons e q =>
        cases r' with
        | nil =>
          rw [c1 e q rfl, n1' rfl] at hT
          cases hT
        | cons e' q' =>
          rw [c1 e q rfl, c1' e' q' rfl] at hT
          simp only [List.cons.injEq, true_and] at hT
          exact ih (e' :: q') hT

/-- `get_full_name` of a vector or a list of vectors, as a character list -/
def tyL : DT → List Char
  | .vec n => (toString n).toList
  | .arr dims (.vec n) => (toString n).toList ++ 'x' :: dimsL dims
  | _ => []

theorem fullName_flatLeaf (t : DT) (h : t.flatLeaf = true) : t.fullName.toList = tyL t := by
  cases t with
  | vec n => simp [DT.fullName, tyL]
  | struct c fs => simp [DT.flatLeaf] at h
  | arr dims sub =>
    cases sub with
    | vec n =>
      simp only [DT.fullName, String.toList_append, dimsL_eq, tyL]
      simp
    | struct c fs => simp [DT.flatLeaf] at h
    | arr d s => simp [DT.flatLeaf] at h

theorem tyL_TyL (t : DT) (h : t.flatLeaf = true) : TyL (tyL t) := by
  have x_not : ∀ ds : List Nat, '_' ∉ dimsL ds := by
    intro ds
    induction ds with
    | nil => simp [dimsL]
    | cons d r ih =>
      cases r with
      | nil => exact repr_no_underscore d
      | cons e q =>
        simp only [dimsL, List.mem_append, List.mem_cons, not_or]
        exact ⟨repr_no_underscore d, by decide, ih⟩
  cases t with
  | vec n =>
    obtain ⟨c, r, e, hc⟩ := repr_head n
    exact ⟨⟨c, r, e, hc⟩, repr_no_underscore n⟩
  | struct c fs => simp [DT.flatLeaf] at h
  | arr dims sub =>
    cases sub with
    | vec n =>
      obtain ⟨c, r, e, hc⟩ := repr_head n
      refine ⟨⟨c, r ++ 'x' :: dimsL dims, by simp only [tyL, e, List.cons_append], hc⟩, ?_⟩
      simp only [tyL, List.mem_append, List.mem_cons, not_or]
      exact ⟨repr_no_underscore n, by decide, x_not dims⟩
    | struct c fs => simp [DT.flatLeaf] at h
    | arr d s => simp [DT.flatLeaf] at h

theorem tyL_inj (t t' : DT) (h : t.flatLeaf = true) (h' : t'.flatLeaf = true) (e : tyL t = tyL t') : t = t' := by
  have x_nd : ('x').isDigit = false := by decide
  have vec_arr : ∀ (n m : Nat) (ds : List Nat), (toString n).toList = (toString m).toList ++ 'x' :: dimsL ds → False := by
    intro n m ds e
    have := repr_digits n 'x' (by rw [e]; simp)
    rw [x_nd] at this
    exact Bool.noConfusion this
  cases t with
  | vec n =>
    cases t' with
    | vec m => simp only [tyL] at e; rw [toString_nat_inj n m e]
    | struct c fs => simp [DT.flatLeaf] at h'
    | arr ds sub =>
      cases sub with
      | vec m => simp only [tyL] at e; exact (vec_arr n m ds e).elim
      | struct c fs => simp [DT.flatLeaf] at h'
      | arr d s => simp [DT.flatLeaf] at h'
  | struct c fs => simp [DT.flatLeaf] at h
  | arr ds sub =>
    cases sub with
    | struct c fs => simp [DT.flatLeaf] at h
    | arr d s => simp [DT.flatLeaf] at h
    | vec n =>
      cases t' with
      | vec m => simp only [tyL] at e; exact (vec_arr m n ds e.symm).elim
      | struct c fs => simp [DT.flatLeaf] at h'
      | arr ds' sub' =>
        cases sub' with
        | struct c fs => simp [DT.flatLeaf] at h'
        | arr d s => simp [DT.flatLeaf] at h'
        | vec m =>
          simp only [tyL] at e
          obtain ⟨e1, e2⟩ := digits_cancel _ _ _ _ (repr_digits n) (repr_digits m) (Or.inr ⟨_, rfl⟩) (Or.inr ⟨_, rfl⟩) e
          simp only [List.cons.injEq, true_and] at e2
          rw [toString_nat_inj n m e1, dimsL_inj ds ds' e2]

/-! ### field lists -/

/-- `Struct.get_field_str` of a list of vector / list-of-vector fields, as a character list -/
def fieldStrL : List (String × DT) → List Char
  | [] => []
  | [(n, t)] => n.toList ++ '_' :: tyL t
  | (n, t) :: f :: fs => n.toList ++ '_' :: (tyL t ++ '_' :: '_' :: fieldStrL (f :: fs))

def flatFields (fs : List (String × DT)) : Prop := ∀ f ∈ fs, okName f.1 = true ∧ f.2.flatLeaf = true

theorem flatStruct_iff (fs : List (String × DT)) : flatStruct fs = true ↔ fs ≠ [] ∧ flatFields fs := by
  simp only [flatStruct, Bool.and_eq_true, Bool.not_eq_true', List.isEmpty_eq_false_iff, List.all_eq_true, flatFields]

theorem fieldStr_toList (fs : List (String × DT)) (h : flatFields fs) : (fieldStr fs).toList = fieldStrL fs := by
  induction fs with
  | nil => simp [fieldStr, fieldStrL]
  | cons f fs ih =>
    obtain ⟨n, t⟩ := f
    have ht := (h (n, t) (by simp)).2
    cases fs with
    | nil =>
      simp only [fieldStr, String.toList_append, fieldStrL, fullName_flatLeaf t ht]
      simp
    | cons g gs =>
      simp only [fieldStr, String.toList_append, fieldStrL, fullName_flatLeaf t ht]
      rw [ih (fun f hf => h f (List.mem_cons_of_mem _ hf))]
      simp

/-- what follows the first token of a field string -/
def fieldTail : List (String × DT) → List Char
  | [] => []
  | f :: fs => '_' :: '_' :: fieldStrL (f :: fs)

theorem fieldStrL_cons (n : String) (t : DT) (fs : List (String × DT)) :
    fieldStrL ((n, t) :: fs) = n.toList ++ '_' :: (tyL t ++ fieldTail fs) := by
  cases fs with
  | nil => simp [fieldStrL, fieldTail]
  | cons f fs => simp [fieldStrL, fieldTail]

theorem fieldStrL_head (n : String) (t : DT) (fs : List (String × DT)) (hn : okName n = true) :
    ∃ c r, fieldStrL ((n, t) :: fs) = c :: r ∧ c ≠ '_' ∧ c.isDigit = false := by
  obtain ⟨⟨c, r, e, h1, h2⟩, _⟩ := (okNameL_iff _).mp hn
  rw [fieldStrL_cons]
  exact ⟨c, r ++ '_' :: (tyL t ++ fieldTail fs), by rw [e]; simp, h1, h2⟩

theorem fieldTail_shape (fs : List (String × DT)) (h : flatFields fs) : TailShapeN (fieldTail fs) := by
  cases fs with
  | nil => exact Or.inl rfl
  | cons f fs =>
    obtain ⟨n, t⟩ := f
    obtain ⟨c, r, e, h1, h2⟩ := fieldStrL_head n t fs (h (n, t) (by simp)).1
    exact Or.inr ⟨c, r, by simp [fieldTail, e], h1, h2⟩

theorem fieldStrL_inj (fs fs' : List (String × DT)) (h : flatFields fs) (h' : flatFields fs')
    (e : fieldStrL fs = fieldStrL fs') : fs = fs' := by
  induction fs generalizing fs' with
  | nil =>
    cases fs' with
    | nil => rfl
    | cons f fs' =>
      obtain ⟨n, t⟩ := f
      obtain ⟨c, r, e1, _⟩ := fieldStrL_head n t fs' (h' (n, t) (by simp)).1
      rw [e1] at e
      simp [fieldStrL] at e
  | cons f fs ih =>
    obtain ⟨n, t⟩ := f
    cases fs' with
    | nil =>
      obtain ⟨c, r, e1, _⟩ := fieldStrL_head n t fs (h (n, t) (by simp)).1
      rw [e1] at e
      simp [fieldStrL] at e
    | cons f' fs' =>
      obtain ⟨n', t'⟩ := f'
      rw [fieldStrL_cons, fieldStrL_cons] at e
      have hf : okName n = true ∧ t.flatLeaf = true := h (n, t) (by simp)
      have hf' : okName n' = true ∧ t'.flatLeaf = true := h' (n', t') (by simp)
      have hr : flatFields fs := fun f hf => h f (List.mem_cons_of_mem _ hf)
      have hr' : flatFields fs' := fun f hf => h' f (List.mem_cons_of_mem _ hf)
      obtain ⟨e1, e2, e3⟩ := tok_cancel _ _ _ _ _ _ ((okNameL_iff _).mp hf.1) ((okNameL_iff _).mp hf'.1)
        (tyL_TyL t hf.2) (tyL_TyL t' hf'.2) (fieldTail_shape fs hr) (fieldTail_shape fs' hr') e
      rw [String.toList_inj.mp e1, tyL_inj t t' hf.2 hf'.2 e2]
      congr 1
      cases fs with
      | nil =>
        cases fs' with
        | nil => rfl
        | cons g gs => simp [fieldTail] at e3
      | cons g gs =>
        cases fs' with
        | nil => simp [fieldTail] at e3
        | cons g' gs' =>
          simp only [fieldTail, List.cons.injEq, true_and] at e3
          exact ih (g' :: gs') hr hr' e3

theorem fieldStrL_has_underscore (fs : List (String × DT)) (h : fs ≠ []) : '_' ∈ fieldStrL fs := by
  cases fs with
  | nil => exact absurd rfl h
  | cons f fs =>
    obtain ⟨n, t⟩ := f
    rw [fieldStrL_cons]
    simp

end PV.Names
