import PymtlVerif.Proofs.NetsDfs
/-!
# The walk of `_check_port_in_nets` (`walk`)

`S=[writer]; visited={writer}; while S: u=S.pop(); for v in adjacency[u]: if v not in visited:
visited.add(v); S.append(v); check(u,v)`.

* `walk_sound`: every checked pair `(u,v)` is a connection, `v` had not been seen, and `u` is connected
  to the writer by connections among nodes seen before `v` — so `u` stays connected to the writer when
  the connection `u–v` is removed: the pair is oriented away from the writer;
* `walk_snd_nodup`: no node is the driven side of two checked pairs, the writer of none;
* `walk_complete`: with fuel `|N| + 1` every node of the net other than the writer is the driven side of
  a checked pair.
-/
namespace PV.Nets

variable {S : List Edge} {adjf : Nat → List Nat}

theorem mem_walk_cons (f : Nat) (u : Nat) (St V : List Nat) (p : Nat × Nat) :
    p ∈ walk adjf (f + 1) (u :: St) V ↔
      (p.1 = u ∧ p.2 ∈ adjf u ∧ p.2 ∉ V) ∨
      p ∈ walk adjf f (((adjf u).filter (fun v => decide (v ∉ V))).reverse ++ St) ((adjf u).filter (fun v => decide (v ∉ V)) ++ V) := by
  simp only [walk, List.mem_append, List.mem_map, List.mem_filter, decide_eq_true_eq]
  constructor
  · rintro (⟨v, ⟨hv, hvV⟩, rfl⟩ | h)
    · exact Or.inl ⟨rfl, hv, hvV⟩
    · exact Or.inr h
  · rintro (⟨h1, h2, h3⟩ | h)
    · exact Or.inl ⟨p.2, ⟨h2, h3⟩, by rw [← h1]⟩
    · exact Or.inr h

/-- every checked pair is a connection whose far end is new and whose near end is connected to the
writer through nodes seen earlier -/
theorem walk_sound (hadj : ∀ u v, v ∈ adjf u ↔ Step S u v) (w : Nat) :
    ∀ (f : Nat) (St V : List Nat), (∀ x ∈ St, x ∈ V) → (∀ x ∈ V, Reach (within V S) w x) →
    ∀ p ∈ walk adjf f St V, Step S p.1 p.2 ∧ p.2 ∉ V ∧
      ∃ V', p.2 ∉ V' ∧ Reach (within V' S) w p.1 := by
  intro f
  induction f with
  | zero => intro St V _ _ p hp; simp [walk] at hp
  | succ f ih =>
    intro St V hSt hconn p hp
    cases St with
    | nil => simp [walk] at hp
    | cons u St0 =>
      rcases (mem_walk_cons f u St0 V p).mp hp with ⟨h1, h2, h3⟩ | hrec
      · refine ⟨by rw [h1]; exact (hadj u p.2).mp h2, h3, V, h3, ?_⟩
        rw [h1]; exact hconn u (hSt u (List.mem_cons_self ..))
      · have hu : u ∈ V := hSt u (List.mem_cons_self ..)
        have hmem : ∀ v, v ∈ (adjf u).filter (fun v => decide (v ∉ V)) ↔ Step S u v ∧ v ∉ V := by
          intro v; simp only [List.mem_filter, decide_eq_true_eq, hadj]
        have := ih _ _ (by
            intro x hx
            rcases List.mem_append.mp hx with hx | hx
            · exact List.mem_append_left _ (List.mem_reverse.mp hx)
            · exact List.mem_append_right _ (hSt x (List.mem_cons_of_mem _ hx)))
          (by
            intro x hx
            rcases List.mem_append.mp hx with hx | hx
            · have r1 : Reach (within ((adjf u).filter (fun v => decide (v ∉ V)) ++ V) S) w u :=
                reach_within_mono (fun y hy => List.mem_append_right _ hy) (hconn u hu)
              exact Reach.step r1 ((step_within _ _ _ _).mpr
                ⟨((hmem x).mp hx).1, List.mem_append_right _ hu, List.mem_append_left _ hx⟩)
            · exact reach_within_mono (fun y hy => List.mem_append_right _ hy) (hconn x hx))
          p hrec
        obtain ⟨a, b, V', c, d⟩ := this
        exact ⟨a, fun h => b (List.mem_append_right _ h), V', c, d⟩

/-- the pair `(u,v)` is oriented away from the writer: `u` remains connected to the writer when the
connection between `u` and `v` is removed -/
theorem walk_oriented (hadj : ∀ u v, v ∈ adjf u ↔ Step S u v) (w : Nat) (f : Nat) (p : Nat × Nat)
    (hp : p ∈ walk adjf f [w] [w]) :
    Step S p.1 p.2 ∧ p.2 ≠ w ∧ ∀ e : Edge, (e = (p.1, p.2) ∨ e = (p.2, p.1)) → Reach (S.erase e) w p.1 := by
  obtain ⟨hs, hv, V', hV', hr⟩ := walk_sound hadj w f [w] [w] (fun x hx => hx)
    (by intro x hx; simp only [List.mem_singleton] at hx; subst hx; exact Reach.refl _) p hp
  refine ⟨hs, by simpa using hv, ?_⟩
  rintro e (rfl | rfl)
  · exact reach_within_erase (Or.inr hV') hr
  · exact reach_within_erase (Or.inl hV') hr

/-- no node is the driven side of two checked pairs, and no node already seen is one -/
theorem walk_snd_nodup (hnd : ∀ u, (adjf u).Nodup) :
    ∀ (f : Nat) (St V : List Nat), ((walk adjf f St V).map (·.2)).Nodup ∧ ∀ p ∈ walk adjf f St V, p.2 ∉ V := by
  intro f
  induction f with
  | zero => intro St V; simp [walk]
  | succ f ih =>
    intro St V
    cases St with
    | nil => simp [walk]
    | cons u St0 =>
      obtain ⟨ih1, ih2⟩ := ih (((adjf u).filter (fun v => decide (v ∉ V))).reverse ++ St0)
        ((adjf u).filter (fun v => decide (v ∉ V)) ++ V)
      refine ⟨?_, ?_⟩
      · simp only [walk, List.map_append, List.map_map, Function.comp_def, List.map_id']
        rw [List.nodup_append]
        refine ⟨(hnd u).filter _, ih1, ?_⟩
        intro a ha b hb hab
        subst hab
        obtain ⟨p, hp, rfl⟩ := List.mem_map.mp hb
        exact ih2 p hp (List.mem_append_left _ ha)
      · intro p hp
        rcases (mem_walk_cons f u St0 V p).mp hp with ⟨_, _, h3⟩ | hrec
        · exact h3
        · exact fun h => ih2 p hrec (List.mem_append_right _ h)

/-! ### completeness -/

/-- members of `N` not yet seen -/
def unseen (N V : List Nat) : Nat := (N.filter (fun x => decide (x ∉ V))).length

theorem unseen_cons_lt (N V : List Nat) (a : Nat) (ha : a ∈ N) (hV : a ∉ V) : unseen N (a :: V) < unseen N V := by
  unfold unseen
  apply filter_length_lt (x := a)
  · intro x hx
    simp only [decide_eq_true_eq, List.mem_cons, not_or] at hx ⊢
    exact hx.2
  · exact ha
  · simp [hV]
  · simp

theorem unseen_append_le (N V : List Nat) : ∀ (new : List Nat), new.Nodup → (∀ x ∈ new, x ∈ N ∧ x ∉ V) →
    unseen N (new ++ V) + new.length ≤ unseen N V := by
  intro new
  induction new with
  | nil => intro _ _; simp
  | cons a l ih =>
    intro hnd hsub
    have hnd' := List.nodup_cons.mp hnd
    have h1 := ih hnd'.2 (fun x hx => hsub x (List.mem_cons_of_mem _ hx))
    have ha := hsub a (List.mem_cons_self ..)
    have h2 : unseen N (a :: (l ++ V)) < unseen N (l ++ V) :=
      unseen_cons_lt N (l ++ V) a ha.1 (by
        intro h
        rcases List.mem_append.mp h with h | h
        · exact hnd'.1 h
        · exact ha.2 h)
    simp only [List.cons_append, List.length_cons]
    omega

/-- with enough fuel, everything seen at the end (`V` and the driven sides of the checked pairs) is
closed under connections -/
theorem walk_closed (hadj : ∀ u v, v ∈ adjf u ↔ Step S u v) (hnd : ∀ u, (adjf u).Nodup) (N : List Nat)
    (hN : ∀ x ∈ N, ∀ y, Step S x y → y ∈ N) :
    ∀ (f : Nat) (St V : List Nat), (∀ x ∈ V, x ∈ N) → (∀ x ∈ St, x ∈ V) →
    (∀ x ∈ V, x ∉ St → ∀ y, Step S x y → y ∈ V) → St.length + unseen N V < f →
    ∀ x, (x ∈ V ∨ x ∈ (walk adjf f St V).map (·.2)) → ∀ y, Step S x y →
      (y ∈ V ∨ y ∈ (walk adjf f St V).map (·.2)) := by
  intro f
  induction f with
  | zero => intro St V _ _ _ h; omega
  | succ f ih =>
    intro St V hVN hSt hproc hfuel x hx y hs
    cases St with
    | nil =>
      simp only [walk, List.map_nil, List.not_mem_nil, or_false] at hx ⊢
      exact hproc x hx (by simp) y hs
    | cons u St0 =>
      have hu : u ∈ V := hSt u (List.mem_cons_self ..)
      have hmem : ∀ v, v ∈ (adjf u).filter (fun v => decide (v ∉ V)) ↔ Step S u v ∧ v ∉ V := by
        intro v; simp only [List.mem_filter, decide_eq_true_eq, hadj]
      have hnewN : ∀ v ∈ (adjf u).filter (fun v => decide (v ∉ V)), v ∈ N ∧ v ∉ V := by
        intro v hv
        exact ⟨hN u (hVN u hu) v ((hmem v).mp hv).1, ((hmem v).mp hv).2⟩
      have hle := unseen_append_le N V _ ((hnd u).filter _) hnewN
      have key := ih (((adjf u).filter (fun v => decide (v ∉ V))).reverse ++ St0)
        ((adjf u).filter (fun v => decide (v ∉ V)) ++ V)
        (by
          intro z hz
          rcases List.mem_append.mp hz with hz | hz
          · exact (hnewN z hz).1
          · exact hVN z hz)
        (by
          intro z hz
          rcases List.mem_append.mp hz with hz | hz
          · exact List.mem_append_left _ (List.mem_reverse.mp hz)
          · exact List.mem_append_right _ (hSt z (List.mem_cons_of_mem _ hz)))
        (by
          intro z hz hzSt y' hs'
          rcases List.mem_append.mp hz with hz | hz
          · exact absurd (List.mem_append_left _ (List.mem_reverse.mpr hz)) hzSt
          · by_cases hzu : z = u
            · subst hzu
              by_cases hy : y' ∈ V
              · exact List.mem_append_right _ hy
              · exact List.mem_append_left _ ((hmem y').mpr ⟨hs', hy⟩)
            · have : z ∉ u :: St0 := by
                intro h
                rcases List.mem_cons.mp h with h | h
                · exact hzu h
                · exact hzSt (List.mem_append_right _ h)
              exact List.mem_append_right _ (hproc z hz this y' hs'))
        (by simp only [List.length_append, List.length_reverse, List.length_cons] at hfuel ⊢; omega)
      -- the sets "seen at the end" coincide
      have same : ∀ z, (z ∈ V ∨ z ∈ (walk adjf (f + 1) (u :: St0) V).map (·.2)) ↔
          (z ∈ (adjf u).filter (fun v => decide (v ∉ V)) ++ V ∨
            z ∈ (walk adjf f (((adjf u).filter (fun v => decide (v ∉ V))).reverse ++ St0)
              ((adjf u).filter (fun v => decide (v ∉ V)) ++ V)).map (·.2)) := by
        intro z
        simp only [walk, List.map_append, List.map_map, Function.comp_def, List.map_id', List.mem_append]
        constructor
        · rintro (h | h | h)
          · exact Or.inl (Or.inr h)
          · exact Or.inl (Or.inl h)
          · exact Or.inr h
        · rintro ((h | h) | h)
          · exact Or.inr (Or.inl h)
          · exact Or.inl h
          · exact Or.inr (Or.inr h)
      rw [same] at hx ⊢
      exact key x hx y hs

/-- every member of the writer's net other than the writer is the driven side of a checked pair -/
theorem walk_complete (hadj : ∀ u v, v ∈ adjf u ↔ Step S u v) (hnd : ∀ u, (adjf u).Nodup) (N : List Nat) (w : Nat)
    (hw : w ∈ N) (hN : ∀ x ∈ N, ∀ y, Step S x y → y ∈ N) (y : Nat) (hr : Reach S w y) (hne : y ≠ w) :
    ∃ u, (u, y) ∈ walk adjf (N.length + 1) [w] [w] := by
  have hfuel : [w].length + unseen N [w] < N.length + 1 := by
    have : unseen N [w] < N.length := by
      have h := filter_length_lt (l := N) (p := fun _ => true) (q := fun x => decide (x ∉ [w]))
        (fun _ _ => rfl) hw rfl (by simp)
      have e : (N.filter (fun _ => true)).length = N.length := by simp
      unfold unseen
      omega
    simp only [List.length_singleton]; omega
  have closed := walk_closed hadj hnd N hN (N.length + 1) [w] [w]
    (by intro x hx; simp only [List.mem_singleton] at hx; subst hx; exact hw) (fun x hx => hx)
    (by intro x hx hxs; exact absurd hx hxs) hfuel
  have all : ∀ z, Reach S w z → (z ∈ [w] ∨ z ∈ (walk adjf (N.length + 1) [w] [w]).map (·.2)) := by
    intro z hz
    induction hz with
    | refl => exact Or.inl (List.mem_singleton.mpr rfl)
    | step _ hs ih => exact closed _ ih _ hs
  rcases all y hr with h | h
  · exact absurd (List.mem_singleton.mp h) hne
  · obtain ⟨p, hp, rfl⟩ := List.mem_map.mp h
    exact ⟨p.1, hp⟩

end PV.Nets
