import PymtlVerif.Proofs.PipeRef0
/-!
LEVEL 3, part 1: preservation of the simple clauses of `Inv` (exclusive control words, WAIT implies empty
D/X, nothing valid before the first fetch) and of the architectural clauses (W stage, register file,
proc2mngr stream).
-/
namespace PV.Pipe
open PV.TinyRV0 (W32 Mem loadWord storeWord rget rset)

/-! ### the X-stage control word of an ISA instruction -/

theorem ctlX_of_fields (w : Nat) :
    (ctlX_of w).rf_wen_pending = (U.cs w).rf_wen_pending ∧ (ctlX_of w).alu_fn = (U.cs w).alu_fn ∧
    (ctlX_of w).rf_waddr = rd w ∧ (ctlX_of w).proc2mngr_en = U.p2m w ∧
    (ctlX_of w).dmemreq_type = (U.cs w).dmemreq_type ∧ (ctlX_of w).wb_result_sel = (U.cs w).wb_result_sel ∧
    (ctlX_of w).br_type = (U.cs w).br_type := ⟨rfl, rfl, rfl, rfl, rfl, rfl, rfl⟩

theorem ctlX_of_xcel {S : TinyRV0.State} {w : Nat} (h : RowOk S w) : (ctlX_of w).xcelreq = false := by
  have h1 := h.csrr_m2p
  have h2 := h.csrw_p2m
  have e : (ctlX_of w).xcelreq = xcelreq_D { inst_D := w } := rfl
  rw [e]
  have e1 : cs { inst_D := w } = U.cs w := rfl
  simp only [xcelreq_D, e1, U.m2p, U.p2m] at *
  rcases Bool.eq_false_or_eq_true (U.cs w).csrr with a | a <;> rcases Bool.eq_false_or_eq_true (U.cs w).csrw with b | b <;>
    simp_all

theorem ctlX_next_eq (s : State) : ctlX_next s = ctlX_of s.inst_D := rfl

theorem csTable_excl (t : Nat) : (csTable t).csrw = true → (csTable t).rf_wen_pending = false := by
  intro h
  by_cases h0 : t = NOP
  · subst h0; revert h; decide
  by_cases h1 : t = CSRRX
  · subst h1; revert h; decide
  by_cases h2 : t = CSRR
  · subst h2; revert h; decide
  by_cases h3 : t = CSRW
  · subst h3; revert h; decide
  by_cases h4 : t = ADD
  · subst h4; revert h; decide
  by_cases h5 : t = SLL
  · subst h5; revert h; decide
  by_cases h6 : t = SRL
  · subst h6; revert h; decide
  by_cases h7 : t = ADDI
  · subst h7; revert h; decide
  by_cases h8 : t = LW
  · subst h8; revert h; decide
  by_cases h9 : t = SW
  · subst h9; revert h; decide
  by_cases h10 : t = BNE
  · subst h10; revert h; decide
  by_cases h11 : t = AND
  · subst h11; revert h; decide
  simp [csTable, h0, h1, h2, h3, h4, h5, h6, h7, h8, h9, h10, h11, n] at h

section step
variable {p : Prog} {N : Nat} {s : State} {E : Env} {c : Nat} {i : EnvIn}

theorem excl_next (I : Inv p N s E c) (hr : i.reset = false) :
    ((next s i).cx.proc2mngr_en = true → (next s i).cx.rf_wen_pending = false) ∧
    ((next s i).cm.proc2mngr_en = true → (next s i).cm.rf_wen_pending = false) ∧
    ((next s i).cw.proc2mngr_en = true → (next s i).cw.rf_wen_pending = false) := by
  obtain ⟨hx, hm, hw⟩ := I.excl
  have hD : (ctlX_next s).proc2mngr_en = true → (ctlX_next s).rf_wen_pending = false := by
    intro h
    simp only [ctlX_next, proc2mngr_en_D, Bool.and_eq_true] at h
    exact csTable_excl _ h.1
  refine ⟨?_, ?_, ?_⟩
  · simp only [next, hr]
    rcases Bool.eq_false_or_eq_true (reg_en_X s i) with a | a <;> simp [a] <;> assumption
  · simp only [next, hr]
    rcases Bool.eq_false_or_eq_true (reg_en_M s i) with a | a <;> simp [a, ctlM_next] <;> assumption
  · simp only [next, hr]
    rcases Bool.eq_false_or_eq_true (reg_en_W s i) with a | a <;> simp [a, ctlW_next] <;> assumption

theorem wt_next (I : Inv p N s E c) (hr : i.reset = false) :
    (next s i).drop_wait = true → (next s i).val_D = false ∧ (next s i).val_X = false := by
  obtain ⟨_, hD, hX, _, _, hW⟩ := next_vals s i hr
  intro h
  rw [hW] at h
  rcases Bool.eq_false_or_eq_true s.drop_wait with hw | hw
  · -- already waiting: D and X empty, F stalled or invalid
    obtain ⟨hd, hx⟩ := I.wt hw
    have h1 : next_val_F s i = false := next_val_F_of_wait s i hw
    have h2 : next_val_D s i = false := by simp [next_val_D, hd]
    rw [hD, hX, h1, h2, hd, hx]; simp
  · -- entering WAIT: a squash
    simp [hw] at h
    have hq : osquash_X s i = true := (squash_F_origin s i h.1).2
    obtain ⟨a, b, _⟩ := squash_effect s i hr hq
    exact ⟨a, b⟩

theorem f0_next (_I : Inv p N s E c) (hr : i.reset = false) :
    (next s i).val_F = false → (next s i).val_D = false ∧ (next s i).val_X = false ∧ (next s i).val_M = false ∧
      (next s i).val_W = false ∧ (next s i).drop_wait = false ∧ c' s i c = 0 ∧ (next s i).pc_F = 0x1fc := by
  obtain ⟨hF, _⟩ := next_vals s i hr
  intro h
  rw [hF] at h
  have hv : s.val_F = false := by
    rcases Bool.eq_false_or_eq_true (reg_en_F s i) with a | a <;> simp_all
  have hen : reg_en_F s i = true := by simp [reg_en_F, stall_F, hv]
  simp [hen] at h

/-- M not stalled with a pending load: the response is at the head (queue or arriving) and it is the ISA's word -/
theorem load_value (_hR : Runs p N) (I : Inv p N s E c) (hE : envOk p E i (out s i)) (hv : s.val_M = true)
    (hj : iM s c < N) (hs : stall_M s i = false)
    (hl : (U.cs (wordAt p (iM s c))).dmemreq_type = ld) :
    dmemresp_data s i = loadWord (isaAt p (iM s c)).mem (U.aluv (isaAt p (iM s c)) (wordAt p (iM s c))) := by
  have M := I.m hv hj
  obtain ⟨hq, hd⟩ := M.ldv hl
  have hrdy : dmemresp_rdy s i = true := by
    simp [stall_M, hv, ostall_M, ostall_dmem_M, M.dty, hl, ld, nr] at hs
    exact hs.1.1
  simp only [dmemresp_data, BypQ.deq_ret]
  rcases Bool.eq_false_or_eq_true s.dmemresp_q.full with hf | hf
  · rw [hf]; simp only [if_true]; exact hq hf
  · rw [hf]; simp only [Bool.false_eq_true, if_false]
    simp [dmemresp_rdy, BypQ.deq_rdy, hf] at hrdy
    obtain ⟨_, _, hdm, _⟩ := hE
    obtain ⟨_, r, rest, hr, hval⟩ := hdm hrdy.2
    exact hval _ (hd r (by rw [hr]; simp))

theorem w_next (hR : Runs p N) (I : Inv p N s E c) (hE : envOk p E i (out s i)) :
    (next s i).val_W = true → c' s i c < N → WOk p (next s i) (c' s i c) := by
  have hr := hE.1
  obtain ⟨_, _, _, _, hW, _⟩ := next_vals s i hr
  intro hv hc
  rcases Bool.eq_false_or_eq_true (stall_W s i) with hs | hs
  · -- held
    obtain ⟨h1, h2, h3⟩ := hold_W s i hr hs
    have hc0 : c' s i c = c := by simp [c', commit_inst, hs]
    rw [hc0] at hc ⊢
    have W := I.w (stall_W_val s i hs) hc
    exact ⟨by rw [h2]; exact W.wen, by rw [h2]; exact W.waddr, by rw [h2]; exact W.p2m, by rw [h3]; exact W.val⟩
  · -- loaded from M
    have hc0 : c' s i c = iM s c := by simp [c', commit_inst, hs, iM]
    simp [reg_en_W, hs] at hW
    rw [hW] at hv
    have hvm : s.val_M = true := by simp [next_val_M] at hv; exact hv.1
    have hsm : stall_M s i = false := by simp [next_val_M] at hv; exact hv.2
    rw [hc0] at hc ⊢
    have M := I.m hvm hc
    have R := (runs_step hR hc).2
    have e1 : (next s i).cw = ctlW_next s := by simp [next, hr, reg_en_W, hs]
    have e2 : (next s i).wb_result_W = bypass_M s i := by simp [next, hr, reg_en_W, hs]
    refine ⟨by rw [e1]; exact M.wen, by rw [e1]; exact M.waddr, by rw [e1]; exact M.p2m, ?_⟩
    intro hu
    rw [e2]
    simp only [bypass_M, M.sel, U.wb]
    rcases R.wb_sel with h0 | ⟨h1, hn⟩
    · simp only [h0, if_true]; exact M.val h0 hu
    · have hld : (U.cs (wordAt p (iM s c))).dmemreq_type = ld := by
        rcases R.mem_type with a | a | a
        · exact absurd a hn
        · exact a
        · rcases hu with u | u
          · rw [(R.st_nowen a).1] at u; cases u
          · exact absurd (R.p2m_nomem u) hn
      simp only [h1, show (1 : Nat) = 0 ↔ False by decide, if_false, if_true]
      exact load_value hR I hE hvm hc hsm hld

theorem rf_next (hR : Runs p N) (I : Inv p N s E c) (_hE : envOk p E i (out s i)) :
    c' s i c ≤ N → (next s i).rf = (isaAt p (c' s i c)).regs := by
  intro hc
  have e : (next s i).rf = rf_write s.rf (rf_wen_W s) s.cw.rf_waddr s.wb_result_W := rfl
  rw [e]
  rcases Bool.eq_false_or_eq_true (commit_inst s i) with hci | hci
  · -- a commit
    have hv : s.val_W = true := by simp [commit_inst] at hci; exact hci.1
    have hc1 : c' s i c = c + 1 := by simp [c', hci]
    rw [hc1] at hc ⊢
    have hcN : c < N := by omega
    have W := I.w hv hcN
    rw [(runs_step hR hcN).1, I.rf (by omega)]
    simp only [U.next, rf_write, rf_wen_W, hv, Bool.true_and, W.wen, W.waddr]
    rcases Bool.eq_false_or_eq_true (U.cs (wordAt p c)).rf_wen_pending with a | a
    · simp only [a, Bool.true_and, if_true, rset]
      have hw := W.val (Or.inl a)
      by_cases h0 : rd (wordAt p c) = 0
      · simp [h0]
      · simp [h0, hw]
    · simp [a]
  · -- no commit: no write (an invalid W, or a stalled one, which is a proc2mngr send)
    have hc0 : c' s i c = c := by simp [c', hci]
    rw [hc0] at hc ⊢
    rw [← I.rf hc]
    have : rf_wen_W s = false := by
      rcases Bool.eq_false_or_eq_true s.val_W with hv | hv
      · have hs : stall_W s i = true := by simp [commit_inst, hv] at hci; exact hci
        have : s.cw.proc2mngr_en = true := by simp [stall_W, ostall_W, hv] at hs; exact hs.1
        simp [rf_wen_W, I.excl.2.2 this]
      · simp [rf_wen_W, hv]
    simp [rf_write, this]

theorem out_next (hR : Runs p N) (I : Inv p N s E c) (_hE : envOk p E i (out s i)) :
    c' s i c ≤ N → (envNext E i (out s i)).out = (isaAt p (c' s i c)).out := by
  intro hc
  have e : (envNext E i (out s i)).out = E.out ++ (if proc2mngr_en s i then [s.wb_result_W] else []) := rfl
  rw [e]
  rcases Bool.eq_false_or_eq_true (commit_inst s i) with hci | hci
  · have hv : s.val_W = true := by simp [commit_inst] at hci; exact hci.1
    have hs : stall_W s i = false := by simp [commit_inst] at hci; exact hci.2
    have hc1 : c' s i c = c + 1 := by simp [c', hci]
    rw [hc1] at hc ⊢
    have hcN : c < N := by omega
    have W := I.w hv hcN
    have R := (runs_step hR hcN).2
    rw [(runs_step hR hcN).1, I.out (by omega)]
    simp only [U.next, proc2mngr_en, hv, hs, W.p2m, Bool.true_and, Bool.not_false]
    rcases Bool.eq_false_or_eq_true (U.p2m (wordAt p c)) with a | a
    · have hw := W.val (Or.inr a)
      have h0 := R.nomem_sel (R.p2m_nomem a)
      simp only [a, if_true, hw, U.wb, h0]
    · simp [a]
  · have hc0 : c' s i c = c := by simp [c', hci]
    rw [hc0] at hc ⊢
    rw [← I.out hc]
    have : proc2mngr_en s i = false := by
      simp only [proc2mngr_en]
      simp only [commit_inst] at hci
      rw [hci]; rfl
    simp [this]

end step
end PV.Pipe
