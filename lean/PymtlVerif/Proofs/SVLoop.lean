import PymtlVerif.Proofs.SVStmt
/-
C03, `for` loops of the SystemVerilog backend.  Core Lean only.
-/
namespace PV.SVProofs
open PV.SV PV.VTr

/-! ### the emitted `for` loop, SystemVerilog side only -/

/-- one iteration of the emitted loop at index `i`: the body, then `v = v + step` -/
def svIter (cb : Bool) (Γ' : Env) (v : String) (B : Stmt) (step : Nat) (s : XS) (i : Nat) : XS :=
  let s1 := exec cb Γ' B s
  { s1 with σ := s1.σ.set (v, 0) (i + step) }

section loop
variable (cb : Bool) (Γ' : Env) (v : String) (B : Stmt) (stop step ew pw : Nat)

/-- loop condition `v < ew'd stop` of the emitted loop -/
def loopCond (s : XS) : Bool :=
  eval cb Γ' s.σ (selfWidth Γ' (.bin .lt (.ident v) (.lit ew stop))) (.bin .lt (.ident v) (.lit ew stop)) != 0

/-- body and increment `v = v + pw'd step` of the emitted loop -/
def loopBody (s : XS) : XS :=
  let s1 := exec cb Γ' B s
  { s1 with σ := s1.σ.set (v, 0) (evalRhs cb Γ' s1.σ 32 (.bin .add (.ident v) (.lit pw step))) }

variable {cb Γ' v B stop step ew pw}

theorem loopCond_eq (hv : Γ' v = some intDecl) (hstop : stop < 2 ^ ew) (s : XS)
    (hi : s.σ.get (v, 0) < 2 ^ 32) :
    loopCond cb Γ' v stop ew s = decide (s.σ.get (v, 0) < stop) := by
  simp [loopCond, eval, evalC, signedOf, selfWidth, loc, hv, intDecl, readLoc, binVal, PTy.width,
    Nat.mod_eq_of_lt hstop, Nat.mod_eq_of_lt hi, b2n]
  by_cases h : s.σ.get (v, 0) < stop <;> simp [h]

theorem loopBody_eq (hv : Γ' v = some intDecl) (hstep : step < 2 ^ pw) (s : XS)
    (hpres : (exec cb Γ' B s).σ.get (v, 0) = s.σ.get (v, 0))
    (hi : s.σ.get (v, 0) + step < 2 ^ 32) :
    loopBody cb Γ' v B step pw s = svIter cb Γ' v B step s (s.σ.get (v, 0)) := by
  have h1 : s.σ.get (v, 0) < 2 ^ 32 := by omega
  have hd : (2:Nat) ^ 32 ∣ 2 ^ max 32 (max 32 pw) := Nat.pow_dvd_pow 2 (by omega)
  simp only [loopBody, svIter]
  congr 2
  simp only [evalRhs, eval, evalC, signedOf, selfWidth, loc, hv, intDecl, readLoc, binVal, PTy.width, hpres,
    Nat.mod_eq_of_lt hstep]
  simp [Nat.mod_eq_of_lt h1, Nat.mod_mod_of_dvd _ hd, Nat.mod_eq_of_lt hi]

theorem pyRange_lt {i stop step n : Nat} (h : i < stop) :
    pyRange i stop step false (n + 1) = i :: pyRange (i + step) stop step false n := by
  simp [pyRange, h]

theorem pyRange_ge {i stop step n : Nat} (h : ¬ i < stop) : pyRange i stop step false n = [] := by
  cases n <;> simp [pyRange, h]

/-- the loop runs the iterations of `range(i, stop, step)` -/
theorem iter_range (hv : Γ' v = some intDecl) (hstop : stop < 2 ^ ew) (hstep : step < 2 ^ pw)
    (hbound : stop + step < 2 ^ 32)
    (hpres : ∀ t, (exec cb Γ' B t).σ.get (v, 0) = t.σ.get (v, 0)) :
    ∀ (n f i : Nat) (s : XS), s.σ.get (v, 0) = i → i < 2 ^ 32 → stop ≤ i + n * step →
      (pyRange i stop step false n).length < f →
      iter (loopCond cb Γ' v stop ew) (loopBody cb Γ' v B step pw) f s =
        (pyRange i stop step false n).foldl (svIter cb Γ' v B step) s := by
  intro n
  induction n with
  | zero =>
    intro f i s hi h32 hn hf
    cases f with
    | zero => simp at hf
    | succ f =>
      have : ¬ i < stop := by omega
      simp [iter, loopCond_eq hv hstop s (hi ▸ h32), hi, this, pyRange_ge this]
  | succ n ih =>
    intro f i s hi h32 hn hf
    cases f with
    | zero => simp at hf
    | succ f =>
      by_cases hlt : i < stop
      · rw [pyRange_lt hlt] at hf ⊢
        simp only [List.length_cons, List.foldl_cons] at hf ⊢
        have hb : loopBody cb Γ' v B step pw s = svIter cb Γ' v B step s i := by
          rw [loopBody_eq hv hstep s (hpres s) (by omega), hi]
        have hg : (svIter cb Γ' v B step s i).σ.get (v, 0) = i + step := by
          simp [svIter, Store.get_set_eq]
        have hn' : stop ≤ i + step + n * step := by
          rw [Nat.succ_mul] at hn; omega
        simp only [iter, loopCond_eq hv hstop s (hi ▸ h32), hi, hlt, decide_true, if_true, hb]
        exact ih f (i + step) _ hg (by omega) hn' (by omega)
      · simp [iter, loopCond_eq hv hstop s (hi ▸ h32), hi, hlt, pyRange_ge hlt]

end loop

/-- the emitted loop is the `while` loop `iter` started with `x = start` -/
theorem exec_for_unfold (cb : Bool) (Γ : Env) (blk x : String) (start stop step sw ew pw : Nat)
    (body : RStmt) (s : XS) (hstart : start < 2 ^ sw) (hs32 : start < 2 ^ 32) :
    exec cb Γ (trStmt .verilog (.for_ blk x start stop step false sw ew pw body)) s =
      iter (loopCond cb (Γ.extend x intDecl) x stop ew)
        (loopBody cb (Γ.extend x intDecl) x (trStmt .verilog body) step pw) loopFuel
        { s with σ := s.σ.set (x, 0) start } := by
  have hv : (Γ.extend x intDecl) x = some intDecl := by simp [Env.extend]
  have hinit : evalRhs cb (Γ.extend x intDecl) s.σ intDecl.ty.width (.lit sw start) = start := by
    simp [evalRhs, eval, evalC, intDecl, PTy.width, Nat.mod_eq_of_lt hstart, Nat.mod_eq_of_lt hs32]
  simp only [trStmt, loopVarName, exec, Bool.false_eq_true, if_false, if_true, hv, hinit]
  rfl

/-- **The emitted `for` loop (SystemVerilog backend, positive step), SystemVerilog side only.**
    `for (int unsigned x = sw'd start; x < ew'd stop; x = x + pw'd step) B` runs, from the state in
    which `x = start`, one `svIter` (body `B`, then `x = i + step`) for each `i` of
    `range(start, stop, step)`.
    Side conditions: the literals fit their widths, `stop + step < 2^32` (the `int unsigned` loop
    variable does not wrap), the body does not change the loop variable, `n` is a sufficient fuel for
    `pyRange` (`start + stop + 1` always is), and the range has fewer than `loopFuel = 4096` elements. -/
theorem for_sv (cb : Bool) (Γ : Env) (blk x : String) (start stop step sw ew pw : Nat) (body : RStmt)
    (n : Nat) (s : XS)
    (hstart : start < 2 ^ sw) (hstop : stop < 2 ^ ew) (hstep : step < 2 ^ pw)
    (hs32 : start < 2 ^ 32) (hbound : stop + step < 2 ^ 32)
    (hpres : ∀ t, (exec cb (Γ.extend x intDecl) (trStmt .verilog body) t).σ.get (x, 0) = t.σ.get (x, 0))
    (hn : stop ≤ start + n * step)
    (hlen : (pyRange start stop step false n).length < loopFuel) :
    exec cb Γ (trStmt .verilog (.for_ blk x start stop step false sw ew pw body)) s =
      (pyRange start stop step false n).foldl
        (svIter cb (Γ.extend x intDecl) x (trStmt .verilog body) step)
        { s with σ := s.σ.set (x, 0) start } := by
  have hv : (Γ.extend x intDecl) x = some intDecl := by simp [Env.extend]
  rw [exec_for_unfold cb Γ blk x start stop step sw ew pw body s hstart hs32]
  exact iter_range (cb := cb) (B := trStmt .verilog body) hv hstop hstep hbound hpres n loopFuel start
    { s with σ := s.σ.set (x, 0) start } (by simp [Store.get_set_eq]) hs32 hn hlen

/-- `start + stop + 1` is a sufficient fuel -/
theorem pyRange_fuel_ok (start stop step : Nat) (hpos : 0 < step) :
    stop ≤ start + (start + stop + 1) * step := by
  have : start + stop + 1 ≤ (start + stop + 1) * step := Nat.le_mul_of_pos_right _ hpos
  omega

/-! ### evaluation only reads declared variables -/

/-- the stores agree on every declared variable (and on every cell other than element 0 of an
    undeclared name: the only cells on which the two executions may differ are the scalar cells of loop
    variables that are out of scope) -/
def AgreeS (Γ : Env) (σ σ' : Store) : Prop :=
  ∀ k : Key, (Γ k.1 ≠ none ∨ k.2 ≠ 0) → σ.get k = σ'.get k

theorem AgreeS.refl (Γ : Env) (σ : Store) : AgreeS Γ σ σ := fun _ _ => rfl

theorem loc_declared {cb Γ σ} {e : Expr} {l : Loc} (h : loc cb Γ σ e = some l) : Γ l.x ≠ none := by
  induction e generalizing l with
  | ident x =>
    simp only [loc] at h
    split at h <;> simp at h
    next d hd => subst h; simp [hd]
  | member e f ih =>
    simp only [loc] at h
    split at h
    · next hl => split at h <;> simp at h; subst h; have := ih hl; exact this
    · simp at h
  | index e i ih _ =>
    simp only [loc] at h
    split at h
    all_goals first | (simp at h; done) | (next hl => simp at h; subst h; have := ih hl; exact this)
  | range e hi lo ih _ _ =>
    simp only [loc] at h
    split at h
    · next hl _ _ => simp at h; subst h; have := ih hl; exact this
    · simp at h
  | plusSel e b w ih _ _ =>
    simp only [loc] at h
    split at h
    · next hl _ => simp at h; subst h; have := ih hl; exact this
    · simp at h
  | _ => simp [loc] at h

theorem readLoc_ext {Γ σ σ'} (ha : AgreeS Γ σ σ') {l : Loc} (hd : Γ l.x ≠ none) :
    readLoc σ l = readLoc σ' l := by
  simp only [readLoc, ha (l.x, l.elem) (Or.inl hd)]

theorem eval_loc_ext {cb Γ σ σ'} (ha : AgreeS Γ σ σ') (e : Expr) :
    (∀ W S, evalC cb Γ σ W S e = evalC cb Γ σ' W S e) ∧ loc cb Γ σ e = loc cb Γ σ' e := by
  have sel : ∀ e : Expr, loc cb Γ σ e = loc cb Γ σ' e →
      ∀ l, loc cb Γ σ' e = some l → readLoc σ l = readLoc σ' l := by
    intro e he l hl
    exact readLoc_ext ha (loc_declared (he ▸ hl))
  induction e with
  | lit w v => simp [evalC, loc]
  | num v => simp [evalC, loc]
  | ident x =>
    have hl : loc cb Γ σ (.ident x) = loc cb Γ σ' (.ident x) := by simp [loc]
    refine ⟨fun W S => ?_, hl⟩
    simp only [evalC, hl]
    split
    · next l h => exact sel _ hl l h
    · rfl
  | member e f ih =>
    have hl : loc cb Γ σ (.member e f) = loc cb Γ σ' (.member e f) := by simp only [loc, ih.2]
    refine ⟨fun W S => ?_, hl⟩
    simp only [evalC, hl]
    split
    · next l h => exact sel _ hl l h
    · rfl
  | index e i ihe ihi =>
    have hl : loc cb Γ σ (.index e i) = loc cb Γ σ' (.index e i) := by simp only [loc, ihe.2, ihi.1]
    refine ⟨fun W S => ?_, hl⟩
    simp only [evalC, hl, ihe.1, ihi.1]
    split
    · next l h => exact sel _ hl l h
    · rfl
  | range e hi lo ihe _ _ =>
    have hl : loc cb Γ σ (.range e hi lo) = loc cb Γ σ' (.range e hi lo) := by simp only [loc, ihe.2]
    refine ⟨fun W S => ?_, hl⟩
    simp only [evalC, hl, ihe.1]
    split
    · next l h => exact sel _ hl l h
    · rfl
  | plusSel e b w ihe ihb _ =>
    have hl : loc cb Γ σ (.plusSel e b w) = loc cb Γ σ' (.plusSel e b w) := by
      simp only [loc, ihe.2, ihb.1]
    refine ⟨fun W S => ?_, hl⟩
    simp only [evalC, hl]
    split
    · next l h => exact sel _ hl l h
    · rfl
  | cat1 e ih => simp [evalC, loc, ih.1]
  | concat a b iha ihb => simp [evalC, loc, iha.1, ihb.1]
  | repl n e _ ihe => simp [evalC, loc, ihe.1]
  | un op e ih => cases op <;> simp [evalC, loc, ih.1]
  | bin op a b iha ihb => cases op <;> simp [evalC, loc, iha.1, ihb.1]
  | cond c t f ihc iht ihf => simp [evalC, loc, ihc.1, iht.1, ihf.1]
  | cast w e ih => simp [evalC, loc, ih.1]
  | sgn e ih => simp [evalC, loc, ih.1]

theorem eval_ext {cb Γ σ σ'} (ha : AgreeS Γ σ σ') (W : Nat) (e : Expr) :
    eval cb Γ σ W e = eval cb Γ σ' W e := (eval_loc_ext ha e).1 W _

theorem loc_ext {cb Γ σ σ'} (ha : AgreeS Γ σ σ') (e : Expr) : loc cb Γ σ e = loc cb Γ σ' e :=
  (eval_loc_ext ha e).2

theorem agreeS_writeLoc {Γ σ σ'} (ha : AgreeS Γ σ σ') (l : Loc) (v : Nat) :
    AgreeS Γ (writeLoc σ l v) (writeLoc σ' l v) := by
  intro k hk
  unfold writeLoc
  split
  · by_cases hkl : k = (l.x, l.elem)
    · subst hkl; simp only [Store.get_set_eq, ha _ hk]
    · simp only [Store.get_set_ne _ _ _ _ hkl, ha _ hk]
  · exact ha k hk

/-! ### the Python semantics does not depend on the declaration of an unmentioned name -/

/-- no signal or temporary named `x` occurs in the expression -/
def freshE (x : String) : RExpr → Prop
  | .sig y _ => y ≠ x
  | .tmpvar y _ _ => y ≠ x
  | .num _ _ | .castC _ _ | .const _ _ _ | .freevar _ _ _ | .loopvar _ _ _ => True
  | .cast _ e | .field e _ _ | .slice e _ _ _ _ | .cat1 e | .zext _ e | .sext _ e | .trunc _ e
  | .reduce _ e | .inv e => freshE x e
  | .index e i _ | .partsel e i _ | .concat e i | .bin _ e i | .cmp _ e i => freshE x e ∧ freshE x i
  | .ifexp c t f => freshE x c ∧ freshE x t ∧ freshE x f

theorem evalPy_extend {be : Backend} {Γ : Env} {σ : Store} {x : String} {d : Decl} (e : RExpr)
    (h : freshE x e) :
    evalPy be (Γ.extend x d) σ e = evalPy be Γ σ e ∧ refPy be (Γ.extend x d) σ e = refPy be Γ σ e := by
  induction e with
  | sig y w => simp only [freshE] at h; simp [evalPy, refPy, Env.extend, h]
  | tmpvar y w ex => simp only [freshE] at h; simp [evalPy, refPy, Env.extend, h]
  | num | castC | const | freevar | loopvar => simp [evalPy, refPy]
  | cast w e ih | cat1 e ih | zext w e ih | sext w e ih | trunc w e ih | reduce op e ih | inv e ih =>
    simp only [freshE] at h; simp [evalPy, refPy, ih h]
  | field e f w ih | slice e lo hi lw uw ih =>
    simp only [freshE] at h; simp [evalPy, refPy, ih h]
  | index e i w ihe ihi | partsel e i w ihe ihi =>
    simp only [freshE] at h; simp [evalPy, refPy, ihe h.1, ihi h.2]
  | concat a b iha ihb | bin op a b iha ihb | cmp op a b iha ihb =>
    simp only [freshE] at h; simp [evalPy, refPy, iha h.1, ihb h.2]
  | ifexp c t f ihc iht ihf =>
    simp only [freshE] at h; simp [evalPy, refPy, ihc h.1, iht h.2.1, ihf h.2.2]

/-- a target that does not mention `x` is not stored in `x` -/
theorem refPy_fresh {be : Backend} {Γ : Env} {σ : Store} {x : String} {e : RExpr} {l : Loc}
    (hf : freshE x e) (h : refPy be Γ σ e = some l) : l.x ≠ x := by
  induction e generalizing l with
  | sig y w => simp only [refPy] at h; split at h <;> simp at h; subst h; exact hf
  | tmpvar y w ex => simp only [refPy] at h; split at h <;> simp at h; subst h; exact hf
  | field e f w ih =>
    simp only [refPy] at h
    split at h
    · next hre => split at h <;> simp at h; subst h; have := ih hf hre; exact this
    · simp at h
  | index e i w ih _ =>
    simp only [refPy] at h
    split at h
    all_goals first | (simp at h; done) |
      (next hre _ => split at h <;> simp at h; subst h; have := ih hf.1 hre; exact this)
  | slice e lo hi lw uw ih =>
    simp only [refPy] at h
    split at h
    · next hre => split at h <;> simp at h; subst h; have := ih hf hre; exact this
    · simp at h
  | partsel e b w ih _ =>
    simp only [refPy] at h
    split at h
    · next hre _ => split at h <;> simp at h; subst h; have := ih hf.1 hre; exact this
    · simp at h
  | _ => simp [refPy] at h

/-- no signal or temporary named `x` occurs in the statement, and no nested loop re-uses `x` -/
def freshS (x : String) : RStmt → Prop
  | .skip => True
  | .assign _ l r => freshE x l ∧ freshE x r
  | .ite c t e => freshE x c ∧ freshS x t ∧ freshS x e
  | .seq a b => freshS x a ∧ freshS x b
  | .for_ _ y _ _ _ _ _ _ _ body => y ≠ x ∧ freshS x body

/-- one step of the Python loop -/
def pyStep (Γ : Env) (x : String) (body : RStmt) (acc : Option XS) (i : Nat) : Option XS := do
  let s ← acc
  execPy .verilog Γ body { s with σ := s.σ.set (x, 0) i }

theorem execPy_for (Γ : Env) (blk x : String) (start stop step : Nat) (neg : Bool) (sw ew pw : Nat)
    (body : RStmt) (s : XS) :
    execPy .verilog Γ (.for_ blk x start stop step neg sw ew pw body) s =
      (pyRange start stop step neg (start + stop + 1)).foldl (pyStep Γ x body) (some s) := by
  simp only [execPy, loopVarName]; rfl

theorem foldl_pyStep_none (Γ : Env) (x : String) (body : RStmt) (L : List Nat) :
    L.foldl (pyStep Γ x body) none = none := by
  induction L with
  | nil => rfl
  | cons i L ih => simpa [pyStep] using ih

theorem execPy_extend {Γ : Env} {x : String} {d : Decl} (s : RStmt) (h : freshS x s) (p : XS) :
    execPy .verilog (Γ.extend x d) s p = execPy .verilog Γ s p := by
  induction s generalizing p with
  | skip => simp [execPy]
  | assign blk l r =>
    simp only [freshS] at h
    simp [execPy, (evalPy_extend l h.1).2, (evalPy_extend r h.2).1]
  | ite c t e iht ihe =>
    simp only [freshS] at h
    simp [execPy, (evalPy_extend c h.1).1, iht h.2.1, ihe h.2.2]
  | seq a b iha ihb =>
    simp only [freshS] at h
    simp [execPy, iha h.1, ihb h.2]
  | for_ blk y start stop step neg sw ew pw body ih =>
    simp only [freshS] at h
    rw [execPy_for, execPy_for]
    congr 1
    funext acc i
    cases acc with
    | none => rfl
    | some s => simp [pyStep, ih h.2]

/-- a statement that does not mention `x` leaves the cell of `x` alone -/
theorem execPy_pres {Γ : Env} {x : String} (s : RStmt) (h : freshS x s) {p p' : XS}
    (he : execPy .verilog Γ s p = some p') : p'.σ.get (x, 0) = p.σ.get (x, 0) := by
  induction s generalizing p p' with
  | skip => simp [execPy] at he; subst he; rfl
  | assign blk l r =>
    simp only [freshS] at h
    cases hre : refPy .verilog Γ p.σ l with
    | none => simp [execPy, hre] at he
    | some lc =>
    cases hev : evalPy .verilog Γ p.σ r with
    | none => simp [execPy, hre, hev] at he
    | some v =>
      have hx := refPy_fresh h.1 hre
      simp only [execPy, hre, hev, Option.bind_eq_bind, Option.bind_some] at he
      split at he
      · cases blk
        · simp at he; subst he; rfl
        · simp at he; subst he
          exact get_writeLoc_ne _ _ _ _ (fun hh => hx hh.symm)
      · simp at he
  | ite c t e iht ihe =>
    simp only [freshS] at h
    cases hev : evalPy .verilog Γ p.σ c with
    | none => simp [execPy, hev] at he
    | some vc =>
      simp [execPy, hev] at he
      by_cases hz : vc = 0
      · simp [hz] at he; exact ihe h.2.2 he
      · simp [hz] at he; exact iht h.2.1 he
  | seq a b iha ihb =>
    simp only [freshS] at h
    cases hea : execPy .verilog Γ a p with
    | none => simp [execPy, hea] at he
    | some p1 =>
      simp [execPy, hea] at he
      rw [ihb h.2 he, iha h.1 hea]
  | for_ blk y start stop step neg sw ew pw body ih =>
    simp only [freshS] at h
    rw [execPy_for] at he
    generalize pyRange start stop step neg (start + stop + 1) = L at he
    induction L generalizing p with
    | nil => simp at he; subst he; rfl
    | cons i L ihL =>
      simp only [List.foldl_cons] at he
      cases hb : pyStep Γ y body (some p) i with
      | none => rw [hb, foldl_pyStep_none] at he; simp at he
      | some p1 =>
        rw [hb] at he
        rw [ihL he]
        simp only [pyStep, Option.bind_eq_bind, Option.bind_some] at hb
        rw [ih h.2 hb]
        exact Store.get_set_ne _ _ _ _ (by intro hh; simp at hh; exact h.1 hh.symm)

/-! ### statements with loops: simulation -/

def AgreeX (Γ : Env) (p q : XS) : Prop :=
  AgreeS Γ p.σ q.σ ∧ p.nba = q.nba ∧ p.fuelOut = q.fuelOut

theorem AgreeX.refl (Γ : Env) (p : XS) : AgreeX Γ p p := ⟨AgreeS.refl Γ p.σ, rfl, rfl⟩

/-- typing invariant of statements with loops.  A loop (SystemVerilog backend, ascending range):
    the loop variable is not the name of a declared variable or of a constant, the body does not
    mention a signal of that name nor re-uses it as a loop variable, the bounds fit their literals,
    the loop variable does not wrap and the range has fewer than `loopFuel` elements. -/
inductive WTsL (be : Backend) (C : List (String × Nat)) : Env → RStmt → Prop
  | skip {Γ} : WTsL be C Γ .skip
  | assign {Γ blk l r ty} : WTm be Γ C (some ⟨ty, []⟩) l → WT be Γ C r → r.width = ty.width →
      (∀ v, (root l, v) ∉ C) → WTsL be C Γ (.assign blk l r)
  | assignTmp {Γ blk x w r ty} : Γ x = some ⟨ty, []⟩ → ty.width = w → WT be Γ C r → r.width = w →
      (∀ v, (x, v) ∉ C) → WTsL be C Γ (.assign blk (.tmpvar x w false) r)
  | ite {Γ c t e} : WT be Γ C c → WTsL be C Γ t → WTsL be C Γ e → WTsL be C Γ (.ite c t e)
  | seq {Γ a b} : WTsL be C Γ a → WTsL be C Γ b → WTsL be C Γ (.seq a b)
  | for_ {Γ blk x start stop step sw ew pw body} : be = .verilog → Γ x = none → (∀ v, (x, v) ∉ C) →
      0 < step → start < 2 ^ sw → stop < 2 ^ ew → step < 2 ^ pw → start < 2 ^ 32 →
      stop + step < 2 ^ 32 → (pyRange start stop step false (start + stop + 1)).length < loopFuel →
      freshS x body → WTsL be C (Γ.extend x intDecl) body →
      WTsL be C Γ (.for_ blk x start stop step false sw ew pw body)

theorem WTs.toL {be Γ C s} (h : WTs be Γ C s) : WTsL be C Γ s := by
  induction h with
  | skip => exact .skip
  | assign h1 h2 h3 h4 => exact .assign h1 h2 h3 h4
  | assignTmp h1 h2 h3 h4 h5 => exact .assignTmp h1 h2 h3 h4 h5
  | ite h1 _ _ iht ihe => exact .ite h1 iht ihe
  | seq _ _ iha ihb => exact .seq iha ihb

theorem assign_sim {be : Backend} {cb : Bool} {Γ : Env} {C : List (String × Nat)} {blk : Bool}
    {l r : RExpr} {p p' q : XS} (hC : HoldsC p.σ C) (ha : AgreeX Γ p q) (hr : WT be Γ C r)
    (hsr : signSafe be r = true)
    (hl : ∀ lc, refPy be Γ p.σ l = some lc →
      loc cb Γ p.σ (trLhs be l) = some lc ∧ lc.ty.width = r.width ∧ ∀ v, (lc.x, v) ∉ C)
    (h : execPy be Γ (.assign blk l r) p = some p') :
    AgreeX Γ p' (exec cb Γ (trStmt be (.assign blk l r)) q) ∧ HoldsC p'.σ C := by
  obtain ⟨a1, a2, a3⟩ := ha
  cases hre : refPy be Γ p.σ l with
  | none => simp [execPy, hre] at h
  | some lc =>
  cases hev : evalPy be Γ p.σ r with
  | none => simp [execPy, hre, hev] at h
  | some v =>
    obtain ⟨l1, l2, l3⟩ := hl lc hre
    obtain ⟨r1, r2, r3⟩ := expr_correct be cb Γ C p.σ hC hr hsr hev
    rw [loc_ext a1] at l1
    have hrhs : evalRhs cb Γ q.σ lc.width (tr be r) = v := by
      simp [evalRhs, Loc.width, l2, r2, ← eval_ext a1, r1, Nat.mod_eq_of_lt r3]
    rw [← l2] at r3
    cases blk with
    | true =>
      simp [execPy, hre, hev, r3] at h; subst h
      simp only [trStmt, exec, l1, hrhs]
      exact ⟨⟨agreeS_writeLoc a1 lc v, a2, a3⟩, holdsC_writeLoc hC lc v l3⟩
    | false =>
      simp [execPy, hre, hev, r3] at h; subst h
      simp only [trStmt, exec, l1, hrhs]
      exact ⟨⟨a1, by simp [a2], a3⟩, hC⟩

theorem agreeS_extend {Γ : Env} {σ σ' : Store} {x : String} {d : Decl} {i : Nat}
    (ha : AgreeS Γ σ σ') (hq : σ'.get (x, 0) = i) : AgreeS (Γ.extend x d) (σ.set (x, 0) i) σ' := by
  intro k hk
  by_cases hkx : k = (x, 0)
  · subst hkx; rw [Store.get_set_eq, hq]
  · rw [Store.get_set_ne _ _ _ _ hkx]
    apply ha
    rcases hk with hk | hk
    · by_cases h1 : k.1 = x
      · right; intro h2; apply hkx; exact Prod.ext h1 h2
      · left; simpa [Env.extend, h1] using hk
    · exact Or.inr hk

theorem agreeS_restrict {Γ : Env} {σ σ' : Store} {x : String} {d : Decl} {v : Nat} (hx : Γ x = none)
    (ha : AgreeS (Γ.extend x d) σ σ') : AgreeS Γ σ (σ'.set (x, 0) v) := by
  intro k hk
  have hkx : k ≠ (x, 0) := by
    intro h; subst h; simp [hx] at hk
  rw [Store.get_set_ne _ _ _ _ hkx]
  apply ha
  rcases hk with hk | hk
  · left; by_cases h1 : k.1 = x
    · simp [Env.extend, h1]
    · simpa [Env.extend, h1] using hk
  · exact Or.inr hk

theorem holdsC_set {σ : Store} {C : List (String × Nat)} (hC : HoldsC σ C) {x : String}
    (hx : ∀ v, (x, v) ∉ C) (i : Nat) : HoldsC (σ.set (x, 0) i) C := by
  intro c v hm
  rw [Store.get_set_ne _ _ _ _ (by intro h; simp at h; subst h; exact hx v hm)]
  exact hC c v hm

/-- the loop: simulation of the Python `for` by the emitted `while` loop -/
theorem loop_sim {cb : Bool} {Γ : Env} {C : List (String × Nat)} {x : String} {body : RStmt}
    {stop step ew pw : Nat} (hx : Γ x = none) (hxC : ∀ v, (x, v) ∉ C) (hstop : stop < 2 ^ ew)
    (hstep : step < 2 ^ pw) (hbound : stop + step < 2 ^ 32) (hfresh : freshS x body)
    (ihb : ∀ p p' q : XS, execPy .verilog (Γ.extend x intDecl) body p = some p' → HoldsC p.σ C →
      AgreeX (Γ.extend x intDecl) p q →
      AgreeX (Γ.extend x intDecl) p' (exec cb (Γ.extend x intDecl) (trStmt .verilog body) q) ∧
        HoldsC p'.σ C) :
    ∀ (n f i : Nat) (p p' q : XS), AgreeX Γ p q → q.σ.get (x, 0) = i → i < 2 ^ 32 →
      stop ≤ i + n * step → (pyRange i stop step false n).length < f → HoldsC p.σ C →
      (pyRange i stop step false n).foldl (pyStep Γ x body) (some p) = some p' →
      AgreeX Γ p' (iter (loopCond cb (Γ.extend x intDecl) x stop ew)
        (loopBody cb (Γ.extend x intDecl) x (trStmt .verilog body) step pw) f q) ∧ HoldsC p'.σ C := by
  have hv : (Γ.extend x intDecl) x = some intDecl := by simp [Env.extend]
  intro n
  induction n with
  | zero =>
    intro f i p p' q ha hi h32 hn hf hC hp
    cases f with
    | zero => simp at hf
    | succ f =>
      have hge : ¬ i < stop := by omega
      simp [pyRange_ge hge] at hp; subst hp
      simp [iter, loopCond_eq hv hstop q (hi ▸ h32), hi, hge]
      exact ⟨ha, hC⟩
  | succ n ih =>
    intro f i p p' q ha hi h32 hn hf hC hp
    cases f with
    | zero => simp at hf
    | succ f =>
      by_cases hlt : i < stop
      · rw [pyRange_lt hlt] at hf hp
        simp only [List.length_cons, List.foldl_cons] at hf hp
        cases hb : pyStep Γ x body (some p) i with
        | none => rw [hb, foldl_pyStep_none] at hp; simp at hp
        | some p2 =>
          rw [hb] at hp
          simp only [pyStep, Option.bind_eq_bind, Option.bind_some] at hb
          obtain ⟨a1, a2, a3⟩ := ha
          have hpres := execPy_pres body hfresh hb
          rw [← execPy_extend (d := intDecl) body hfresh] at hb
          obtain ⟨⟨b1, b2, b3⟩, hC2⟩ := ihb _ p2 q hb (holdsC_set hC hxC i)
            ⟨agreeS_extend a1 hi, a2, a3⟩
          simp only [Store.get_set_eq] at hpres
          have hq2 : (exec cb (Γ.extend x intDecl) (trStmt .verilog body) q).σ.get (x, 0) = i := by
            rw [← b1 (x, 0) (Or.inl (by simp [hv])), hpres]
          have hbody : loopBody cb (Γ.extend x intDecl) x (trStmt .verilog body) step pw q =
              svIter cb (Γ.extend x intDecl) x (trStmt .verilog body) step q i := by
            rw [loopBody_eq hv hstep q (by rw [hq2, hi]) (by omega), hi]
          have hn' : stop ≤ i + step + n * step := by
            rw [Nat.succ_mul] at hn; omega
          simp only [iter, loopCond_eq hv hstop q (hi ▸ h32), hi, hlt, decide_true, if_true, hbody]
          apply ih f (i + step) p2 p' _ _ _ (by omega) hn' (by omega) hC2 hp
          · exact ⟨agreeS_restrict hx b1, b2, b3⟩
          · simp [svIter, Store.get_set_eq]
      · simp [pyRange_ge hlt] at hp; subst hp
        simp [iter, loopCond_eq hv hstop q (hi ▸ h32), hi, hlt]
        exact ⟨ha, hC⟩

/-- **Semantic preservation for statements with loops** (loops: SystemVerilog backend, ascending
    ranges).  If the PyMTL simulation executes the statement without exception from `p` to `p'`, the
    emitted statement, started in any state `q` that agrees with `p` on the declared variables, ends in
    a state that agrees with `p'` on the declared variables and has the same pending non-blocking
    updates, and no loop runs out of fuel.  (The two stores may differ on the cells of loop variables
    that are out of scope: Python keeps the last value, SystemVerilog the exit value.) -/
theorem stmt_sim (be : Backend) (cb : Bool) (C : List (String × Nat)) {Γ : Env} {s : RStmt}
    (hwt : WTsL be C Γ s) (hs : signSafeS be s = true) {p p' q : XS} (h : execPy be Γ s p = some p')
    (hC : HoldsC p.σ C)
    (ha : AgreeX Γ p q) : AgreeX Γ p' (exec cb Γ (trStmt be s) q) ∧ HoldsC p'.σ C := by
  induction hwt generalizing p p' q with
  | skip => simp [execPy] at h; subst h; exact ⟨ha, hC⟩
  | @assign Γ blk l r ty hl hr hw hx =>
    simp [signSafeS] at hs
    apply assign_sim hC ha hr hs.2 _ h
    intro lc hre
    obtain ⟨h1, h2, h3, h4, h5⟩ := ref_correctT be cb Γ C p.σ hC hl hs.1 hre
    refine ⟨by rw [trLhs_of_WTm hl]; exact h1, by rw [h3, hw], ?_⟩
    rw [refPy_root hre]; exact hx
  | @assignTmp Γ blk x w r ty hx hw hr hrw hnc =>
    simp [signSafeS] at hs
    apply assign_sim hC ha hr hs.2 _ h
    intro lc hre
    simp [refPy, hx] at hre; subst hre
    exact ⟨by simp [trLhs, loc, hx], by simp [hw, hrw], hnc⟩
  | @ite Γ c t e hc _ _ iht ihe =>
    simp [signSafeS] at hs
    cases hev : evalPy be Γ p.σ c with
    | none => simp [execPy, hev] at h
    | some vc =>
      obtain ⟨c1, c2, c3⟩ := expr_correct be cb Γ C p.σ hC hc hs.1.1 hev
      rw [eval_ext ha.1] at c1
      simp [execPy, hev] at h
      by_cases hz : vc = 0
      · simp [hz] at h
        simp only [trStmt, exec, c2, c1, hz]
        exact ihe hs.2 h hC ha
      · simp [hz] at h
        simp only [trStmt, exec, c2, c1]
        simp only [ne_eq, hz, not_false_eq_true, if_true]
        exact iht hs.1.2 h hC ha
  | @seq Γ a b _ _ iha ihb =>
    simp [signSafeS] at hs
    cases hea : execPy be Γ a p with
    | none => simp [execPy, hea] at h
    | some p1 =>
      simp [execPy, hea] at h
      obtain ⟨a1, a2⟩ := iha hs.1 hea hC ha
      simp only [trStmt, exec]
      exact ihb hs.2 h a2 a1
  | @for_ Γ blk x start stop step sw ew pw body hbe hx hxC hpos hstart hstop hstep hs32 hbound hlen
      hfresh _ ihb =>
    subst hbe
    simp [signSafeS] at hs
    rw [execPy_for] at h
    rw [exec_for_unfold cb Γ blk x start stop step sw ew pw body q hstart hs32]
    obtain ⟨a1, a2, a3⟩ := ha
    have ha0 : AgreeX Γ p { q with σ := q.σ.set (x, 0) start } := by
      refine ⟨?_, a2, a3⟩
      intro k hk
      have hkx : k ≠ (x, 0) := by intro h; subst h; simp [hx] at hk
      simp only [Store.get_set_ne _ _ _ _ hkx]; exact a1 k hk
    exact loop_sim hx hxC hstop hstep hbound hfresh (fun p p' q h1 h2 h3 => ihb hs h1 h2 h3)
      (start + stop + 1) loopFuel start p p' _ ha0 (by simp [Store.get_set_eq]) hs32
      (pyRange_fuel_ok start stop step hpos) hlen hC h

/-- `stmt_sim` from a common start state -/
theorem stmt_correct_loops (be : Backend) (cb : Bool) (C : List (String × Nat)) {Γ : Env} {s : RStmt}
    (hwt : WTsL be C Γ s) (hs : signSafeS be s = true) {p p' : XS} (h : execPy be Γ s p = some p')
    (hC : HoldsC p.σ C) :
    AgreeX Γ p' (exec cb Γ (trStmt be s) p) ∧ HoldsC p'.σ C :=
  stmt_sim be cb C hwt hs h hC (AgreeX.refl Γ p)


/-! ### sanity: the invariants are inhabited -/

/-- `sext(16, a[2:6]) + zext(16, m[a[0:2]])` -/
def exE : RExpr :=
  .bin .add (.sext 16 (.slice (.sig "a" 8) 2 6 3 3))
    (.zext 16 (.index (.sig "m" 8) (.slice (.sig "a" 8) 0 2 3 3) 8))

theorem exE_wt (be : Backend) (Γ : Env) (h1 : Γ "a" = some ⟨.vec 8, []⟩)
    (h2 : Γ "m" = some ⟨.vec 8, [4]⟩) : WT be Γ [] exE := by
  have ha : WTm be Γ [] (some ⟨.vec 8, []⟩) (.sig "a" 8) := .rsig h1
  have hm : WTm be Γ [] (some ⟨.vec 8, [4]⟩) (.sig "m" 8) := .rsig h2
  refine .arith ?_ ?_ rfl (by decide)
  · exact .sextSlice ha (by decide) (by decide) (by decide) (by decide) (by decide)
  · refine .zext (.ofRef (.ridxU hm ?_) rfl (by decide)) (by decide)
    exact .ofRef (.rslice ha (by decide) (by decide) (by decide) (by decide)) rfl (by decide)

def exΓ : Env := fun x =>
  if x = "a" then some ⟨.vec 8, []⟩ else if x = "m" then some ⟨.vec 8, [4]⟩
  else if x = "o" then some ⟨.vec 16, []⟩ else none

/-- `for i in range(0, 4, 1): o <<= exE` -/
def exS : RStmt := .for_ "blk" "i" 0 4 1 false 32 32 32 (.assign false (.sig "o" 16) exE)

theorem exS_wt : WTsL .verilog [] exΓ exS := by
  refine .for_ rfl (by simp [exΓ]) (by simp) (by decide) (by decide) (by decide) (by decide) (by decide)
    (by decide) (by decide) ?_ ?_
  · simp [freshS, freshE, exE]
  · exact .assign (ty := .vec 16) (.rsig (by simp [Env.extend, exΓ]))
      (exE_wt _ _ (by simp [Env.extend, exΓ]) (by simp [Env.extend, exΓ])) rfl (by simp)

-- #print axioms PV.SVProofs.for_sv
-- #print axioms PV.SVProofs.stmt_sim
-- #print axioms PV.SVProofs.stmt_correct_loops

end PV.SVProofs
