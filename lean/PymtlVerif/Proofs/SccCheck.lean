import PymtlVerif.Proofs.SccGraph
/-!
Soundness of the executable checkers of `Model/Scc.lean` (`scc check`): a partition that passes them is the
decomposition into strongly connected components, listed in a topological order of the condensation. They are evaluated
on the partitions read back from the real schedules of DynamicSchedulePass, Mamba2020Pass and OpenLoopCLPass.
-/
namespace PV.Scc

theorem mem_adjOf {E : List (Nat × Nat)} {u v : Nat} : v ∈ adjOf E u ↔ (u, v) ∈ E := by
  unfold adjOf
  simp only [List.mem_map, List.mem_filter, beq_iff_eq]
  constructor
  · rintro ⟨⟨a, b⟩, ⟨h, rfl⟩, rfl⟩; exact h
  · intro h; exact ⟨(u, v), ⟨h, rfl⟩, rfl⟩

theorem mem_adjTOf {E : List (Nat × Nat)} {u v : Nat} : u ∈ adjTOf E v ↔ (u, v) ∈ E := by
  unfold adjTOf
  simp only [List.mem_map, List.mem_filter, beq_iff_eq]
  constructor
  · rintro ⟨⟨a, b⟩, ⟨h, rfl⟩, rfl⟩; exact h
  · intro h; exact ⟨(u, v), ⟨h, rfl⟩, rfl⟩

/-- a path in the transposed graph is a reversed path -/
theorem reach_transpose {E : List (Nat × Nat)} {r v : Nat} (h : Reach (adjTOf E) r v) : Reach (adjOf E) v r := by
  unfold Reach at h
  induction h with
  | refl _ => exact Reach.refl _ _
  | @head a b c _ he _ ih =>
    have : a ∈ adjOf E b := mem_adjOf.mpr (mem_adjTOf.mp he)
    exact RA.tail ih this trivial

theorem mem_foldl_insert (new : List Nat) : ∀ (S : List Nat) (x : Nat),
    x ∈ new.foldl (fun acc v => if v ∈ acc then acc else acc ++ [v]) S → x ∈ S ∨ x ∈ new := by
  induction new with
  | nil => intro S x h; exact .inl h
  | cons a new ih =>
    intro S x h
    simp only [List.foldl_cons] at h
    rcases ih _ x h with h | h
    · by_cases ha : a ∈ S
      · rw [if_pos ha] at h; exact .inl h
      · rw [if_neg ha] at h
        rcases List.mem_append.mp h with h | h
        · exact .inl h
        · simp at h; subst h; exact .inr List.mem_cons_self
    · exact .inr (List.mem_cons_of_mem _ h)

/-- everything `closure` returns is reachable from a start vertex -/
theorem closure_sound (G : Graph) (dom : List Nat) (r : Nat) : ∀ (n : Nat) (S : List Nat), (∀ s ∈ S, Reach G r s) →
    ∀ v ∈ closure G dom n S, Reach G r v := by
  intro n
  induction n with
  | zero => intro S hS v hv; exact hS v hv
  | succ n ih =>
    intro S hS v hv
    simp only [closure] at hv
    refine ih _ ?_ v hv
    intro s hs
    rcases mem_foldl_insert _ _ _ hs with h | h
    · exact hS s h
    · obtain ⟨h1, _⟩ := List.mem_filter.mp h
      obtain ⟨a, ha, hsa⟩ := List.mem_flatMap.mp h1
      exact (hS a ha).trans (Reach.edge hsa)

theorem stronglyB_sound (E : List (Nat × Nat)) (g : List Nat) (h : stronglyB (adjOf E) (adjTOf E) g = true) :
    ∀ x ∈ g, ∀ y ∈ g, Reach (adjOf E) x y := by
  cases g with
  | nil => simp [stronglyB] at h
  | cons r t =>
    simp only [stronglyB, List.all_eq_true, Bool.and_eq_true, decide_eq_true_eq] at h
    have fwd : ∀ v ∈ r :: t, Reach (adjOf E) r v := fun v hv =>
      closure_sound _ _ r _ [r] (by intro s hs; simp at hs; subst hs; exact Reach.refl _ _) v (h v hv).1
    have bwd : ∀ v ∈ r :: t, Reach (adjOf E) v r := fun v hv =>
      reach_transpose (closure_sound _ _ r _ [r] (by intro s hs; simp at hs; subst hs; exact Reach.refl _ _) v (h v hv).2)
    intro x hx y hy
    exact (bwd x hx).trans (fwd y hy)

theorem groupOf_spec {groups : List (List Nat)} {x : Nat} (h : x ∈ groups.flatten) :
    ∃ hlt : groupOf groups x < groups.length, x ∈ groups[groupOf groups x] := by
  obtain ⟨g, hg, hx⟩ := List.mem_flatten.mp h
  have hlt : groupOf groups x < groups.length := List.findIdx_lt_length_of_exists ⟨g, hg, by simpa using hx⟩
  refine ⟨hlt, ?_⟩
  have := List.findIdx_getElem (p := fun g => decide (x ∈ g)) (xs := groups) (w := hlt)
  exact of_decide_eq_true this

theorem idxOf_inj {l : List Nat} {a b : Nat} (ha : a ∈ l) (hb : b ∈ l) (h : l.idxOf a = l.idxOf b) : a = b := by
  have h1 := List.getElem_idxOf (List.idxOf_lt_length_iff.mpr ha)
  have h2 := List.getElem_idxOf (List.idxOf_lt_length_iff.mpr hb)
  rw [← h1, ← h2]
  congr 1

/-- **soundness of `scc check`**: if the partition / strongly-connected / order checkers all accept `(groups, order)` for the
graph `(V, E)`, then two vertices are in the same group iff they reach each other (the groups are exactly the strongly
connected components), every group index occurs in `order`, and every edge between two groups goes forward in `order` -/
theorem check_sound (V : List Nat) (E : List (Nat × Nat)) (groups : List (List Nat)) (order : List Nat)
    (hp : partitionB V groups = true) (hs : groups.all (stronglyB (adjOf E) (adjTOf E)) = true)
    (ho : orderPermB groups order = true) (ht : orderTopoB E groups order = true) :
    (∀ x ∈ V, ∀ y ∈ V, groupOf groups x = groupOf groups y ↔ Mutual (adjOf E) x y) ∧
    (∀ i, i < groups.length → i ∈ order) ∧ order.Nodup ∧
    (∀ e ∈ E, groupOf groups e.1 ≠ groupOf groups e.2 →
      order.idxOf (groupOf groups e.1) < order.idxOf (groupOf groups e.2)) := by
  simp only [partitionB, Bool.and_eq_true, List.all_eq_true, decide_eq_true_eq] at hp
  obtain ⟨⟨⟨_, _⟩, hcover⟩, _⟩ := hp
  simp only [orderPermB, Bool.and_eq_true, List.all_eq_true, decide_eq_true_eq, List.mem_range] at ho
  obtain ⟨⟨⟨hnd, _⟩, _⟩, hall⟩ := ho
  simp only [orderTopoB, List.all_eq_true, Bool.or_eq_true, beq_iff_eq, decide_eq_true_eq] at ht
  have hedge : ∀ e ∈ E, groupOf groups e.1 ≠ groupOf groups e.2 →
      order.idxOf (groupOf groups e.1) < order.idxOf (groupOf groups e.2) := by
    intro e he hne
    rcases ht e he with h | h
    · exact absurd h hne
    · exact h
  refine ⟨?_, hall, hnd, hedge⟩
  -- positions never decrease along a path
  have hmono : ∀ x y, Reach (adjOf E) x y → order.idxOf (groupOf groups x) ≤ order.idxOf (groupOf groups y) := by
    intro x y h
    unfold Reach at h
    induction h with
    | refl _ => exact Nat.le_refl _
    | @head a b c _ he _ ih =>
      have hab : (a, b) ∈ E := mem_adjOf.mp he
      by_cases heq : groupOf groups a = groupOf groups b
      · rw [heq]; exact ih
      · have := hedge (a, b) hab heq
        simp only at this
        omega
  intro x hx y hy
  obtain ⟨hxl, hxg⟩ := groupOf_spec (hcover x hx)
  obtain ⟨hyl, hyg⟩ := groupOf_spec (hcover y hy)
  constructor
  · intro heq
    have hg : groups[groupOf groups x] ∈ groups := List.getElem_mem _
    have hsg := stronglyB_sound E _ (List.all_eq_true.mp hs _ hg)
    have hyg' : y ∈ groups[groupOf groups x] := by
      have : groups[groupOf groups x] = groups[groupOf groups y] := by congr 1
      rw [this]; exact hyg
    exact ⟨hsg x hxg y hyg', hsg y hyg' x hxg⟩
  · intro hm
    have h1 := hmono x y hm.1
    have h2 := hmono y x hm.2
    exact idxOf_inj (hall _ hxl) (hall _ hyl) (by omega)

end PV.Scc
