import PymtlVerif.Model.CallGraph
/-!
# Lemmas about `Model/CallGraph.lean` (the `dfs` expansion of `@s.func` calls in `_collect_vars`)

`Reach` is the reflexive-transitive closure of `calls`, `ReachPlus` the transitive one.  The main lemmas:

* `dfs_ok_mem`      — a successful `dfs` visits exactly the functions reachable from its start;
* `dfs_err_cycle`   — a `cycle` error exhibits a reachable function that lies on a call cycle (invariant: every
                      member of the path reaches the current function);
* `dfs_ok_acyclic`  — a successful `dfs` has seen no reachable function on a cycle;
* `dfs_fuel`        — with a duplicate-free path whose members are functions and `fuel + |path| ≥ F + 2` the fuel
                      is never exhausted (pigeonhole `nodup_length_le`);
* `dfs_mono`         — one more unit of fuel does not change a result that is not `fuel`;
* `loop_spec`, `enter_get` — the accumulating dict loop.
-/
namespace PV.CallGraph

/-! ### the call graph -/

/-- `f` can be reached from `u` through zero or more calls -/
inductive Reach (T : Table) : Nat → Nat → Prop
  | refl (u : Nat) : Reach T u u
  | step {u v w : Nat} : v ∈ T.calls u → Reach T v w → Reach T u w

/-- one or more calls -/
def ReachPlus (T : Table) (u w : Nat) : Prop := ∃ v, v ∈ T.calls u ∧ Reach T v w

/-- reachable from one of the calls of a block -/
def ReachFrom (T : Table) (roots : List Nat) (f : Nat) : Prop := ∃ c, c ∈ roots ∧ Reach T c f

theorem calls_of_ge {T : Table} {u : Nat} (h : T.F ≤ u) : T.calls u = [] := by
  have : T.funcs[u]? = none := List.getElem?_eq_none (by simpa [Table.F] using h)
  simp [Table.calls, this]

theorem reads_of_ge {T : Table} {u : Nat} (h : T.F ≤ u) : T.reads u = [] := by
  have : T.funcs[u]? = none := List.getElem?_eq_none (by simpa [Table.F] using h)
  simp [Table.reads, this]

theorem writes_of_ge {T : Table} {u : Nat} (h : T.F ≤ u) : T.writes u = [] := by
  have : T.funcs[u]? = none := List.getElem?_eq_none (by simpa [Table.F] using h)
  simp [Table.writes, this]

theorem lt_of_mem_reads {T : Table} {f x : Nat} (h : x ∈ T.reads f) : f < T.F := by
  apply Nat.lt_of_not_le; intro hge; rw [reads_of_ge hge] at h; simp at h

theorem lt_of_mem_writes {T : Table} {f x : Nat} (h : x ∈ T.writes f) : f < T.F := by
  apply Nat.lt_of_not_le; intro hge; rw [writes_of_ge hge] at h; simp at h

theorem lt_of_mem_calls {T : Table} {f x : Nat} (h : x ∈ T.calls f) : f < T.F := by
  apply Nat.lt_of_not_le; intro hge; rw [calls_of_ge hge] at h; simp at h

theorem Reach.trans {T : Table} {u v w : Nat} (h1 : Reach T u v) (h2 : Reach T v w) : Reach T u w := by
  induction h1 with
  | refl => exact h2
  | step hc _ ih => exact Reach.step hc (ih h2)

theorem Reach.tail {T : Table} {u v w : Nat} (h1 : Reach T u v) (h2 : w ∈ T.calls v) : Reach T u w :=
  h1.trans (Reach.step h2 (Reach.refl w))

/-- a non-trivial path ends with a call -/
theorem Reach.cases_tail {T : Table} {u w : Nat} (h : Reach T u w) : u = w ∨ ∃ p, Reach T u p ∧ w ∈ T.calls p := by
  induction h with
  | refl => exact Or.inl rfl
  | @step u v w hc _ ih =>
    right
    rcases ih with ih | ⟨p, hp, hw⟩
    · subst ih; exact ⟨u, Reach.refl u, hc⟩
    · exact ⟨p, Reach.step hc hp, hw⟩

theorem reach_of_ge {T : Table} {u f : Nat} (h : T.F ≤ u) (hr : Reach T u f) : f = u := by
  cases hr with
  | refl => rfl
  | step hc _ => rw [calls_of_ge h] at hc; simp at hc

/-- a function on a cycle is called by a function it reaches -/
theorem ReachPlus.pred {T : Table} {f : Nat} (h : ReachPlus T f f) : ∃ p, Reach T f p ∧ f ∈ T.calls p := by
  obtain ⟨v, hv, hr⟩ := h
  rcases hr.cases_tail with h | ⟨p, hp, hf⟩
  · subst h; exact ⟨v, Reach.refl v, hv⟩
  · exact ⟨p, Reach.step hv hp, hf⟩

theorem ReachPlus.of_pred {T : Table} {f p : Nat} (h1 : Reach T f p) (h2 : f ∈ T.calls p) : ReachPlus T f f := by
  cases h1 with
  | refl => exact ⟨f, h2, Reach.refl f⟩
  | step hc hr => exact ⟨_, hc, hr.tail h2⟩

/-! ### pigeonhole -/

theorem nodup_length_le (n : Nat) : ∀ (l : List Nat), l.Nodup → (∀ a ∈ l, a < n) → l.length ≤ n := by
  induction n with
  | zero =>
    intro l _ h
    cases l with
    | nil => simp
    | cons a t => exact absurd (h a List.mem_cons_self) (Nat.not_lt_zero a)
  | succ n ih =>
    intro l hn h
    have h1 : (l.erase n).Nodup := hn.erase n
    have h2 : ∀ a ∈ l.erase n, a < n := by
      intro a ha
      have := (hn.mem_erase_iff).mp ha
      have := h a this.2
      omega
    have h3 := ih (l.erase n) h1 h2
    have h4 : (l.erase n).length = if n ∈ l then l.length - 1 else l.length := List.length_erase
    split at h4 <;> omega

/-- a duplicate-free path whose members other than `u` are functions has at most `F + 1` members -/
theorem path_length_le {F u : Nat} {l : List Nat} (hn : l.Nodup) (h : ∀ a ∈ l, a ≠ u → a < F) : l.length ≤ F + 1 := by
  have h1 : (l.erase u).Nodup := hn.erase u
  have h2 : ∀ a ∈ l.erase u, a < F := by
    intro a ha
    have := (hn.mem_erase_iff).mp ha
    exact h a this.2 this.1
  have h3 := nodup_length_le F _ h1 h2
  have h4 : (l.erase u).length = if u ∈ l then l.length - 1 else l.length := List.length_erase
  split at h4 <;> omega

/-! ### `callsLoop` -/

theorem callsLoop_ok {rec : List Nat → Nat → Except Err (List Nat)} {anc : List Nat} :
    ∀ {vs r : List Nat}, callsLoop rec anc vs = .ok r →
      (∀ v ∈ vs, v ∉ anc ∧ ∃ rv, rec (v :: anc) v = .ok rv) ∧
      (∀ f, f ∈ r ↔ ∃ v ∈ vs, ∃ rv, rec (v :: anc) v = .ok rv ∧ f ∈ rv) := by
  intro vs
  induction vs with
  | nil =>
    intro r h
    simp only [callsLoop, Except.ok.injEq] at h
    subst h
    simp
  | cons v vs ih =>
    intro r h
    unfold callsLoop at h
    split at h
    · cases h
    · next hv =>
      split at h
      · cases h
      · next rv hrv =>
        split at h
        · cases h
        · next rs hrs =>
          simp only [Except.ok.injEq] at h
          subst h
          obtain ⟨ih1, ih2⟩ := ih hrs
          constructor
          · intro w hw
            rcases List.mem_cons.mp hw with hw | hw
            · subst hw; exact ⟨hv, rv, hrv⟩
            · exact ih1 w hw
          · intro f
            rw [List.mem_append, ih2 f]
            constructor
            · rintro (hf | ⟨w, hw, rw', h1, h2⟩)
              · exact ⟨v, List.mem_cons_self, rv, hrv, hf⟩
              · exact ⟨w, List.mem_cons_of_mem _ hw, rw', h1, h2⟩
            · rintro ⟨w, hw, rw', h1, h2⟩
              rcases List.mem_cons.mp hw with hw | hw
              · subst hw
                rw [hrv] at h1
                cases h1
                exact Or.inl h2
              · exact Or.inr ⟨w, hw, rw', h1, h2⟩

theorem callsLoop_err {rec : List Nat → Nat → Except Err (List Nat)} {anc : List Nat} {e : Err} :
    ∀ {vs : List Nat}, callsLoop rec anc vs = .error e →
      ∃ v ∈ vs, (v ∈ anc ∧ e = .cycle) ∨ (v ∉ anc ∧ rec (v :: anc) v = .error e) := by
  intro vs
  induction vs with
  | nil => intro h; simp [callsLoop] at h
  | cons v vs ih =>
    intro h
    unfold callsLoop at h
    split at h
    · next hv =>
      cases h
      exact ⟨v, List.mem_cons_self, Or.inl ⟨hv, rfl⟩⟩
    · next hv =>
      split at h
      · next e' he' =>
        cases h
        exact ⟨v, List.mem_cons_self, Or.inr ⟨hv, he'⟩⟩
      · split at h
        · next e' he' =>
          cases h
          obtain ⟨w, hw, h⟩ := ih he'
          exact ⟨w, List.mem_cons_of_mem _ hw, h⟩
        · cases h

/-! ### `dfs` -/

theorem dfs_succ_lt {T : Table} {n : Nat} {anc : List Nat} {u : Nat} (hu : u < T.F) :
    dfs T (n + 1) anc u = match callsLoop (dfs T n) anc (T.calls u) with
      | .error e => .error e
      | .ok r => .ok (u :: r) := by
  simp only [dfs, hu, ↓reduceIte]
  cases callsLoop (dfs T n) anc (T.calls u) <;> rfl

theorem dfs_succ_ge {T : Table} {n : Nat} {anc : List Nat} {u : Nat} (hu : T.F ≤ u) :
    dfs T (n + 1) anc u = .ok [] := by
  simp [dfs, Nat.not_lt.mpr hu]

/-- the sub-calls of a successful `dfs` on a function -/
theorem dfs_ok_inv {T : Table} {n : Nat} {anc : List Nat} {u : Nat} {vis : List Nat} (hu : u < T.F)
    (h : dfs T (n + 1) anc u = .ok vis) :
    ∃ r, callsLoop (dfs T n) anc (T.calls u) = .ok r ∧ vis = u :: r := by
  rw [dfs_succ_lt hu] at h
  split at h
  · cases h
  · next r hr => cases h; exact ⟨r, hr, rfl⟩

/-- soundness and completeness of the visit: exactly the reachable functions -/
theorem dfs_ok_mem {T : Table} : ∀ (n : Nat) {anc : List Nat} {u : Nat} {vis : List Nat},
    dfs T n anc u = .ok vis → ∀ f, f ∈ vis ↔ (f < T.F ∧ Reach T u f) := by
  intro n
  induction n with
  | zero => intro anc u vis h; simp [dfs] at h
  | succ n ih =>
    intro anc u vis h f
    by_cases hu : u < T.F
    · obtain ⟨r, hr, hv⟩ := dfs_ok_inv hu h
      subst hv
      obtain ⟨h1, h2⟩ := callsLoop_ok hr
      rw [List.mem_cons, h2 f]
      constructor
      · rintro (hf | ⟨v, hv, rv, hrv, hfv⟩)
        · subst hf; exact ⟨hu, Reach.refl f⟩
        · have := (ih hrv f).mp hfv
          exact ⟨this.1, Reach.step hv this.2⟩
      · rintro ⟨hf, hr⟩
        cases hr with
        | refl => exact Or.inl rfl
        | step hc hr' =>
          obtain ⟨_, rv, hrv⟩ := h1 _ hc
          exact Or.inr ⟨_, hc, rv, hrv, (ih hrv f).mpr ⟨hf, hr'⟩⟩
    · have hge : T.F ≤ u := Nat.le_of_not_lt hu
      rw [dfs_succ_ge hge] at h
      cases h
      constructor
      · intro hf; simp at hf
      · rintro ⟨hf, hr⟩
        have := reach_of_ge hge hr
        omega

/-- a `cycle` error: some reachable function lies on a call cycle.  Invariant: every member of the path reaches the
current function. -/
theorem dfs_err_cycle {T : Table} : ∀ (n : Nat) {anc : List Nat} {u : Nat},
    dfs T n anc u = .error .cycle → (∀ a ∈ anc, Reach T a u) → ∃ f, Reach T u f ∧ ReachPlus T f f := by
  intro n
  induction n with
  | zero => intro anc u h; simp [dfs] at h
  | succ n ih =>
    intro anc u h hinv
    by_cases hu : u < T.F
    · rw [dfs_succ_lt hu] at h
      split at h
      · next e he =>
        cases h
        obtain ⟨v, hv, hcase⟩ := callsLoop_err he
        rcases hcase with ⟨hva, _⟩ | ⟨_, hrec⟩
        · -- `v` is on the path: u → v →* u
          exact ⟨u, Reach.refl u, v, hv, hinv v hva⟩
        · have hinv' : ∀ a ∈ v :: anc, Reach T a v := by
            intro a ha
            rcases List.mem_cons.mp ha with ha | ha
            · subst ha; exact Reach.refl a
            · exact (hinv a ha).tail hv
          obtain ⟨f, hf, hc⟩ := ih hrec hinv'
          exact ⟨f, Reach.step hv hf, hc⟩
      · cases h
    · rw [dfs_succ_ge (Nat.le_of_not_lt hu)] at h
      cases h

/-- a successful `dfs`: no function reachable from `u` calls a member of the path -/
theorem dfs_ok_no_back {T : Table} : ∀ (n : Nat) {anc : List Nat} {u : Nat} {vis : List Nat},
    dfs T n anc u = .ok vis → ∀ {a w : Nat}, a ∈ anc → Reach T u w → a ∉ T.calls w := by
  intro n
  induction n with
  | zero => intro anc u vis h; simp [dfs] at h
  | succ n ih =>
    intro anc u vis h a w ha hr hcall
    by_cases hu : u < T.F
    · obtain ⟨r, hr', _⟩ := dfs_ok_inv hu h
      obtain ⟨h1, _⟩ := callsLoop_ok hr'
      cases hr with
      | refl => exact (h1 a hcall).1 ha
      | step hc hrest =>
        obtain ⟨_, rv, hrv⟩ := h1 _ hc
        exact ih hrv (List.mem_cons_of_mem _ ha) hrest hcall
    · have hge := Nat.le_of_not_lt hu
      have := reach_of_ge hge hr
      subst this
      rw [calls_of_ge hge] at hcall
      simp at hcall

/-- a successful `dfs` whose start is on the path (as `caller = { call: ... }` makes it) has met no cycle -/
theorem dfs_ok_acyclic {T : Table} : ∀ (n : Nat) {anc : List Nat} {u : Nat} {vis : List Nat},
    dfs T n anc u = .ok vis → u ∈ anc → ∀ {f : Nat}, Reach T u f → ¬ ReachPlus T f f := by
  intro n
  induction n with
  | zero => intro anc u vis h; simp [dfs] at h
  | succ n ih =>
    intro anc u vis h hmem f hr hcyc
    cases hr with
    | refl =>
      obtain ⟨p, hp, hcall⟩ := hcyc.pred
      exact dfs_ok_no_back (n + 1) h hmem hp hcall
    | step hc hrest =>
      have hu := lt_of_mem_calls hc
      obtain ⟨r, hr', _⟩ := dfs_ok_inv hu h
      obtain ⟨h1, _⟩ := callsLoop_ok hr'
      obtain ⟨_, rv, hrv⟩ := h1 _ hc
      exact ih hrv List.mem_cons_self hrest hcyc

/-- the fuel is never what stops `dfs`: the path is duplicate-free, its members other than the current node are
functions, and `fuel + |path| ≥ F + 2` -/
theorem dfs_fuel {T : Table} : ∀ (n : Nat) {anc : List Nat} {u : Nat},
    anc.Nodup → (∀ a ∈ anc, a ≠ u → a < T.F) → T.F + 2 ≤ n + anc.length → dfs T n anc u ≠ .error .fuel := by
  intro n
  induction n with
  | zero =>
    intro anc u hn hlt hlen
    have := path_length_le hn hlt
    omega
  | succ n ih =>
    intro anc u hn hlt hlen h
    by_cases hu : u < T.F
    · rw [dfs_succ_lt hu] at h
      split at h
      · next e he =>
        cases h
        obtain ⟨v, hv, hcase⟩ := callsLoop_err he
        rcases hcase with ⟨_, hne⟩ | ⟨hva, hrec⟩
        · cases hne
        · refine ih (List.nodup_cons.mpr ⟨hva, hn⟩) ?_ ?_ hrec
          · intro a ha hav
            rcases List.mem_cons.mp ha with ha | ha
            · exact absurd ha hav
            · by_cases hau : a = u
              · subst hau; exact hu
              · exact hlt a ha hau
          · simp only [List.length_cons]; omega
      · cases h
    · rw [dfs_succ_ge (Nat.le_of_not_lt hu)] at h
      cases h

/-! ### `visit`: all calls of one block -/

theorem visit_ok_mem {T : Table} {roots vis : List Nat} (h : visit T roots = .ok vis) (f : Nat) :
    f ∈ vis ↔ (f < T.F ∧ ReachFrom T roots f) := by
  obtain ⟨h1, h2⟩ := callsLoop_ok h
  rw [h2 f]
  constructor
  · rintro ⟨c, hc, rv, hrv, hf⟩
    have := (dfs_ok_mem _ hrv f).mp hf
    exact ⟨this.1, c, hc, this.2⟩
  · rintro ⟨hf, c, hc, hr⟩
    obtain ⟨_, rv, hrv⟩ := h1 c hc
    exact ⟨c, hc, rv, hrv, (dfs_ok_mem _ hrv f).mpr ⟨hf, hr⟩⟩

theorem visit_ne_fuel {T : Table} {roots : List Nat} : visit T roots ≠ .error .fuel := by
  intro h
  obtain ⟨v, _, hcase⟩ := callsLoop_err h
  rcases hcase with ⟨hv, _⟩ | ⟨_, hrec⟩
  · simp at hv
  · refine dfs_fuel (T.F + 1) (by simp) ?_ ?_ hrec
    · intro a ha hav; simp at ha; exact absurd ha hav
    · simp

theorem visit_err_iff {T : Table} {roots : List Nat} :
    (∃ e, visit T roots = .error e) ↔ ∃ f, ReachFrom T roots f ∧ ReachPlus T f f := by
  constructor
  · rintro ⟨e, h⟩
    have he : e = .cycle := by
      cases e with
      | cycle => rfl
      | fuel => exact absurd h visit_ne_fuel
    subst he
    obtain ⟨v, hv, hcase⟩ := callsLoop_err h
    rcases hcase with ⟨hva, _⟩ | ⟨_, hrec⟩
    · simp at hva
    · obtain ⟨f, hf, hc⟩ := dfs_err_cycle _ hrec (by
        intro a ha; simp at ha; subst ha; exact Reach.refl a)
      exact ⟨f, ⟨v, hv, hf⟩, hc⟩
  · rintro ⟨f, ⟨c, hc, hr⟩, hcyc⟩
    cases hv : visit T roots with
    | error e => exact ⟨e, rfl⟩
    | ok vis =>
      exfalso
      obtain ⟨h1, _⟩ := callsLoop_ok hv
      obtain ⟨_, rv, hrv⟩ := h1 c hc
      exact dfs_ok_acyclic _ hrv List.mem_cons_self hr hcyc

theorem visit_err_cycle {T : Table} {roots : List Nat} {e : Err} (h : visit T roots = .error e) : e = .cycle := by
  cases e with
  | cycle => rfl
  | fuel => exact absurd h visit_ne_fuel

/-! ### fuel monotonicity -/

/-- a loop whose recursive calls do not run out of fuel gives the same result with any `rec'` that agrees there -/
theorem callsLoop_mono {rec rec' : List Nat → Nat → Except Err (List Nat)}
    (hrec : ∀ anc v, rec anc v ≠ .error .fuel → rec' anc v = rec anc v) (anc : List Nat) :
    ∀ vs, callsLoop rec anc vs ≠ .error .fuel → callsLoop rec' anc vs = callsLoop rec anc vs := by
  intro vs
  induction vs with
  | nil => intro _; rfl
  | cons v vs ih =>
    intro h
    unfold callsLoop at h ⊢
    split
    · rfl
    · next hv =>
      simp only [hv, ↓reduceIte] at h
      cases h1 : rec (v :: anc) v with
      | error e =>
        have : rec (v :: anc) v ≠ .error .fuel := by
          intro h2; rw [h2] at h; exact h rfl
        rw [hrec _ _ this, h1]
      | ok r =>
        rw [hrec _ _ (by rw [h1]; intro hh; cases hh), h1]
        rw [h1] at h
        simp only at h ⊢
        cases h2 : callsLoop rec anc vs with
        | error e =>
          have : callsLoop rec anc vs ≠ .error .fuel := by
            intro h3; rw [h3] at h; exact h rfl
          rw [ih this, h2]
        | ok rs =>
          rw [ih (by rw [h2]; intro hh; cases hh), h2]

theorem dfs_mono (T : Table) : ∀ (n : Nat) (anc : List Nat) (u : Nat),
    dfs T n anc u ≠ .error .fuel → dfs T (n + 1) anc u = dfs T n anc u := by
  intro n
  induction n with
  | zero => intro anc u h; exact absurd rfl h
  | succ n ih =>
    intro anc u h
    by_cases hu : u < T.F
    · rw [dfs_succ_lt hu] at h ⊢
      rw [dfs_succ_lt hu]
      have hne : callsLoop (dfs T n) anc (T.calls u) ≠ .error .fuel := by
        intro h2; rw [h2] at h; exact h rfl
      rw [callsLoop_mono (rec := dfs T n) (rec' := dfs T (n + 1)) (fun a v hh => ih a v hh) anc _ hne]
    · rw [dfs_succ_ge (Nat.le_of_not_lt hu), dfs_succ_ge (Nat.le_of_not_lt hu)]

/-! ### the dicts -/

theorem Dict.get_set_same (d : Dict) (k : Nat) (v : List Nat) : (d.set k v).get k = v := by
  induction d with
  | nil => simp [Dict.set, Dict.get]
  | cons a rest ih =>
    obtain ⟨k', v'⟩ := a
    unfold Dict.set
    split
    · simp [Dict.get]
    · next h => simp [Dict.get, h, ih]

theorem Dict.get_set_ne (d : Dict) {k k' : Nat} (v : List Nat) (h : k' ≠ k) : (d.set k v).get k' = d.get k' := by
  induction d with
  | nil => simp [Dict.set, Dict.get, Ne.symm h]
  | cons a rest ih =>
    obtain ⟨k'', v''⟩ := a
    unfold Dict.set
    split
    · next h' => subst h'; simp [Dict.get, Ne.symm h]
    · next h' =>
      by_cases h'' : k'' = k'
      · simp [Dict.get, h'']
      · simp [Dict.get, h'', ih]

theorem Dict.get_orInto_same (d : Dict) (k : Nat) (v : List Nat) : (d.orInto k v).get k = d.get k ++ v := by
  induction d with
  | nil => simp [Dict.orInto, Dict.get]
  | cons a rest ih =>
    obtain ⟨k', v'⟩ := a
    unfold Dict.orInto
    split
    · next h => simp [Dict.get, h]
    · next h => simp [Dict.get, h, ih]

theorem Dict.get_orInto_ne (d : Dict) {k k' : Nat} (v : List Nat) (h : k' ≠ k) : (d.orInto k v).get k' = d.get k' := by
  induction d with
  | nil => simp [Dict.orInto, Dict.get, Ne.symm h]
  | cons a rest ih =>
    obtain ⟨k'', v''⟩ := a
    unfold Dict.orInto
    split
    · next h' => subst h'; simp [Dict.get, Ne.symm h]
    · next h' =>
      by_cases h'' : k'' = k'
      · simp [Dict.get, h'']
      · simp [Dict.get, h'', ih]

/-! ### merging the visited functions into the entry of one block -/

theorem merge_foldl (T : Table) (k : Nat) (isff : Bool) : ∀ (vis : List Nat) (st : State),
    let st' := vis.foldl (State.merge T k isff) st
    st'.reads.get k = st.reads.get k ++ vis.flatMap T.reads ∧
    st'.writes.get k = st.writes.get k ++ vis.flatMap T.writes ∧
    (∀ k', k' ≠ k → st'.reads.get k' = st.reads.get k' ∧ st'.writes.get k' = st.writes.get k') ∧
    st'.marks = st.marks ++ (if isff then (vis.flatMap T.writes).map T.top else []) := by
  intro vis
  induction vis with
  | nil => intro st; simp
  | cons f rest ih =>
    intro st
    simp only [List.foldl_cons]
    obtain ⟨h1, h2, h3, h4⟩ := ih (State.merge T k isff st f)
    refine ⟨?_, ?_, ?_, ?_⟩
    · rw [h1]; simp [State.merge, Dict.get_orInto_same]
    · rw [h2]; simp [State.merge, Dict.get_orInto_same]
    · intro k' hk'
      obtain ⟨h5, h6⟩ := h3 k' hk'
      rw [h5, h6]
      simp [State.merge, Dict.get_orInto_ne _ _ hk']
    · rw [h4]
      cases isff <;> simp [State.merge]

/-- the signals one block marks -/
def marksOf (T : Table) (b : Blk) : List Nat :=
  match expand T b with
  | .ok e => e.marks
  | .error _ => []

theorem expand_ok_of_visit {T : Table} {b : Blk} {vis : List Nat} (h : visit T b.calls = .ok vis) :
    expand T b = .ok (expandWith T b vis) := by
  simp [expand, h]

theorem expand_ok_inv {T : Table} {b : Blk} {e : Expanded} (h : expand T b = .ok e) :
    ∃ vis, visit T b.calls = .ok vis ∧ e = expandWith T b vis := by
  unfold expand at h
  split at h
  · cases h
  · next vis hv => cases h; exact ⟨vis, hv, rfl⟩

theorem expand_err_inv {T : Table} {b : Blk} {e : Err} (h : expand T b = .error e) : visit T b.calls = .error e := by
  unfold expand at h
  split at h
  · next e' hv => cases h; exact hv
  · cases h

/-- one block of the loop -/
theorem block_spec {T : Table} {st st' : State} {kb : Nat × Blk} (h : State.block T st kb = .ok st') :
    ∃ e, expand T kb.2 = .ok e ∧
      st'.reads.get kb.1 = st.reads.get kb.1 ++ (e.reads.drop kb.2.reads.length) ∧
      st'.writes.get kb.1 = st.writes.get kb.1 ++ (e.writes.drop kb.2.writes.length) ∧
      (∀ k', k' ≠ kb.1 → st'.reads.get k' = st.reads.get k' ∧ st'.writes.get k' = st.writes.get k') ∧
      st'.marks = st.marks ++ e.marks := by
  unfold State.block at h
  split at h
  · cases h
  · next vis hv =>
    cases h
    obtain ⟨h1, h2, h3, h4⟩ := merge_foldl T kb.1 kb.2.isff vis st
    refine ⟨_, expand_ok_of_visit hv, ?_, ?_, h3, ?_⟩
    · rw [h1]; simp [expandWith]
    · rw [h2]; simp [expandWith]
    · rw [h4]; simp [expandWith]

theorem block_err {T : Table} {st : State} {kb : Nat × Blk} {e : Err} (h : State.block T st kb = .error e) :
    expand T kb.2 = .error e := by
  unfold State.block at h
  split at h
  · next e' hv => cases h; simp [expand, hv]
  · cases h

theorem block_ok_of_expand {T : Table} {st : State} {kb : Nat × Blk} {e : Expanded} (h : expand T kb.2 = .ok e) :
    ∃ st', State.block T st kb = .ok st' := by
  obtain ⟨vis, hv, _⟩ := expand_ok_inv h
  exact ⟨vis.foldl (State.merge T kb.1 kb.2.isff) st, by simp [State.block, hv]⟩

/-! ### the loop over the blocks -/

abbrev keys (blocks : List (Nat × Blk)) : List Nat := blocks.map Prod.fst

theorem loop_ok_iff {T : Table} : ∀ (blocks : List (Nat × Blk)) (st : State),
    (∃ st', loop T st blocks = .ok st') ↔ ∀ kb ∈ blocks, ∃ e, expand T kb.2 = .ok e := by
  intro blocks
  induction blocks with
  | nil => intro st; simp [loop]
  | cons kb rest ih =>
    intro st
    constructor
    · rintro ⟨st', h⟩
      unfold loop at h
      split at h
      · cases h
      · next st1 h1 =>
        obtain ⟨e, he, _⟩ := block_spec h1
        intro kb' hkb'
        rcases List.mem_cons.mp hkb' with hkb' | hkb'
        · subst hkb'; exact ⟨e, he⟩
        · exact (ih st1).mp ⟨st', h⟩ kb' hkb'
    · intro hall
      obtain ⟨e, he⟩ := hall kb List.mem_cons_self
      obtain ⟨st1, h1⟩ := block_ok_of_expand (st := st) he
      obtain ⟨st', h'⟩ := (ih st1).mpr (fun kb' hkb' => hall kb' (List.mem_cons_of_mem _ hkb'))
      exact ⟨st', by simp [loop, h1, h']⟩

theorem loop_err {T : Table} : ∀ (blocks : List (Nat × Blk)) (st : State) {e : Err},
    loop T st blocks = .error e → ∃ kb ∈ blocks, expand T kb.2 = .error e := by
  intro blocks
  induction blocks with
  | nil => intro st e h; simp [loop] at h
  | cons kb rest ih =>
    intro st e h
    unfold loop at h
    split at h
    · next e' h1 => cases h; exact ⟨kb, List.mem_cons_self, block_err h1⟩
    · next st1 _ =>
      obtain ⟨kb', hkb', he⟩ := ih st1 h
      exact ⟨kb', List.mem_cons_of_mem _ hkb', he⟩

/-- what the loop does to the dicts: a block's entry gets the reads / writes of the functions it reaches appended,
other keys are untouched, the marks of the blocks are appended in order -/
theorem loop_spec {T : Table} : ∀ (blocks : List (Nat × Blk)) (st st' : State),
    loop T st blocks = .ok st' → (keys blocks).Nodup →
      (∀ kb ∈ blocks, ∃ e, expand T kb.2 = .ok e ∧
        st'.reads.get kb.1 = st.reads.get kb.1 ++ e.reads.drop kb.2.reads.length ∧
        st'.writes.get kb.1 = st.writes.get kb.1 ++ e.writes.drop kb.2.writes.length) ∧
      (∀ k, k ∉ keys blocks → st'.reads.get k = st.reads.get k ∧ st'.writes.get k = st.writes.get k) ∧
      st'.marks = st.marks ++ blocks.flatMap (fun kb => marksOf T kb.2) := by
  intro blocks
  induction blocks with
  | nil =>
    intro st st' h _
    simp only [loop, Except.ok.injEq] at h
    subst h
    simp
  | cons kb rest ih =>
    intro st st' h hnd
    unfold loop at h
    split at h
    · cases h
    · next st1 h1 =>
      have hnd' : (keys rest).Nodup := (List.nodup_cons.mp hnd).2
      have hk : kb.1 ∉ keys rest := (List.nodup_cons.mp hnd).1
      obtain ⟨e, he, b1, b2, b3, b4⟩ := block_spec h1
      obtain ⟨i1, i2, i3⟩ := ih st1 st' h hnd'
      refine ⟨?_, ?_, ?_⟩
      · intro kb' hkb'
        rcases List.mem_cons.mp hkb' with hkb' | hkb'
        · subst hkb'
          obtain ⟨j1, j2⟩ := i2 kb'.1 hk
          exact ⟨e, he, by rw [j1, b1], by rw [j2, b2]⟩
        · obtain ⟨e', he', j1, j2⟩ := i1 kb' hkb'
          have hne : kb'.1 ≠ kb.1 := by
            intro heq
            apply hk
            rw [← heq]
            exact List.mem_map_of_mem hkb'
          obtain ⟨j3, j4⟩ := b3 kb'.1 hne
          exact ⟨e', he', by rw [j1, j3], by rw [j2, j4]⟩
      · intro k hk'
        have hk1 : k ≠ kb.1 := by
          intro heq; apply hk'; simp [keys, heq]
        have hk2 : k ∉ keys rest := by
          intro hmem; apply hk'; simp only [keys, List.map_cons]; exact List.mem_cons_of_mem _ hmem
        obtain ⟨j1, j2⟩ := i2 k hk2
        obtain ⟨j3, j4⟩ := b3 k hk1
        exact ⟨by rw [j1, j3], by rw [j2, j4]⟩
      · rw [i3, b4]
        simp [marksOf, he]

/-! ### entering the own sets -/

theorem enter_notin : ∀ (blocks : List (Nat × Blk)) (st : State) (k : Nat), k ∉ keys blocks →
    (blocks.foldl State.enter st).reads.get k = st.reads.get k ∧
    (blocks.foldl State.enter st).writes.get k = st.writes.get k := by
  intro blocks
  induction blocks with
  | nil => intro st k _; simp
  | cons kb rest ih =>
    intro st k hk
    have hk1 : k ≠ kb.1 := by intro heq; apply hk; simp [keys, heq]
    have hk2 : k ∉ keys rest := by
      intro hmem; apply hk; simp only [keys, List.map_cons]; exact List.mem_cons_of_mem _ hmem
    simp only [List.foldl_cons]
    obtain ⟨j1, j2⟩ := ih (State.enter st kb) k hk2
    rw [j1, j2]
    simp [State.enter, Dict.get_set_ne _ _ hk1]

theorem enter_get : ∀ (blocks : List (Nat × Blk)) (st : State), (keys blocks).Nodup → ∀ kb ∈ blocks,
    (blocks.foldl State.enter st).reads.get kb.1 = kb.2.reads ∧
    (blocks.foldl State.enter st).writes.get kb.1 = kb.2.writes := by
  intro blocks
  induction blocks with
  | nil => intro st _ kb h; simp at h
  | cons kb0 rest ih =>
    intro st hnd kb hkb
    have hnd' : (keys rest).Nodup := (List.nodup_cons.mp hnd).2
    have hk : kb0.1 ∉ keys rest := (List.nodup_cons.mp hnd).1
    simp only [List.foldl_cons]
    rcases List.mem_cons.mp hkb with hkb | hkb
    · subst hkb
      obtain ⟨j1, j2⟩ := enter_notin rest (State.enter st kb) kb.1 hk
      rw [j1, j2]
      simp [State.enter, Dict.get_set_same]
    · exact ih _ hnd' kb hkb

theorem enter_marks : ∀ (blocks : List (Nat × Blk)) (st : State), (blocks.foldl State.enter st).marks = st.marks := by
  intro blocks
  induction blocks with
  | nil => intro st; rfl
  | cons kb rest ih => intro st; simp only [List.foldl_cons]; rw [ih]; rfl

theorem take_drop_expand {T : Table} {b : Blk} {e : Expanded} (h : expand T b = .ok e) :
    b.reads ++ e.reads.drop b.reads.length = e.reads ∧ b.writes ++ e.writes.drop b.writes.length = e.writes := by
  obtain ⟨vis, _, he⟩ := expand_ok_inv h
  subst he
  simp [expandWith]

end PV.CallGraph
