import PymtlVerif.Proofs.BStructProg
/-!
Helper lemmas for `Props/C06g.lean`, heap-level part: the canonical `@=` / `<<=` / `_flip` / clone /
`__init__` programs of `Model/BStructProg.lean` evaluate to the heap functions of `Model/BitStruct.lean`.
Core Lean only.
-/
namespace PV.BStructProg
open PV.BitStruct
open PV.Bits (B Reg)

/-- the tree shape of an instance of a class of shape `T` (independent of the heap) -/
inductive IShape : Inst → Ty → Prop
  | leaf (c n : Nat) : IShape (.leaf c) (.bits n)
  | unit : IShape .unit .unit
  | pair {a b A B} : IShape a A → IShape b B → IShape (.pair a b) (.pair A B)
  | anil {T} : IShape .anil (.arr 0 T)
  | acons {x xs k T} : IShape x T → IShape xs (.arr k T) → IShape (.acons x xs) (.arr (k+1) T)

theorem ishape_of_hasTy (h : Heap) : ∀ (i : Inst) (T : Ty), HasTy (read h i) T → IShape i T := by
  intro i
  induction i with
  | leaf c => intro T ht; simp only [PV.BitStruct.read] at ht; cases ht; exact IShape.leaf _ _
  | unit => intro T ht; simp only [PV.BitStruct.read] at ht; cases ht; exact IShape.unit
  | anil => intro T ht; simp only [PV.BitStruct.read] at ht; cases ht; exact IShape.anil
  | pair a b iha ihb =>
    intro T ht; simp only [PV.BitStruct.read] at ht
    cases ht with
    | pair h1 h2 => exact IShape.pair (iha _ h1) (ihb _ h2)
  | acons a b iha ihb =>
    intro T ht; simp only [PV.BitStruct.read] at ht
    cases ht with
    | acons h1 h2 => exact IShape.acons (iha _ h1) (ihb _ h2)

theorem ishape_arr_succ {xs : Inst} {k : Nat} {t : Ty} (h : IShape xs (.arr (k+1) t)) :
    ∃ x r, xs = .acons x r ∧ IShape x t ∧ IShape r (.arr k t) := by
  cases h with
  | acons hx hr => exact ⟨_, _, rfl, hx, hr⟩

theorem ishape_arr_zero {xs : Inst} {t : Ty} (h : IShape xs (.arr 0 t)) : xs = .anil := by
  cases h; rfl

theorem ishape_not_list {x : Inst} {A : Ty} (h : IShape x A) (ha : isArr A = false) : isListI x = false := by
  cases h <;> simp [isListI, isArr] at ha ⊢

/-! ### paths on instances -/

theorem getI_append (v : Inst) (p q : Path) : getI v (p ++ q) = (getI v p).bind (getI · q) := by
  induction p generalizing v with
  | nil => simp [getI]
  | cons s p ih =>
    simp only [List.cons_append, getI]
    cases stepI v s with
    | none => simp
    | some w => simp [ih]

theorem getI_snoc {root : Inst} {p : Path} {x : Inst} (h : getI root p = some x) (s : Step) :
    getI root (p ++ [s]) = stepI x s := by
  rw [getI_append, h]; simp [getI]

def TailI (s c : Inst) (i : Nat) : Prop := ∀ j, fieldI c j = fieldI s (i + j)
def ETailI (X c : Inst) (k : Nat) : Prop := ∀ j, elemI c j = elemI X (k + j)

theorem TailI.head {s a b : Inst} {i : Nat} (h : TailI s (.pair a b) i) : fieldI s i = some a := by
  have := h 0; simpa [fieldI] using this.symm
theorem TailI.tail {s a b : Inst} {i : Nat} (h : TailI s (.pair a b) i) : TailI s b (i + 1) := by
  intro j; have := h (j + 1); simp only [fieldI] at this; rw [this]; congr 1; omega
theorem ETailI.head {X x xs : Inst} {k : Nat} (h : ETailI X (.acons x xs) k) : elemI X k = some x := by
  have := h 0; simpa [elemI] using this.symm
theorem ETailI.tail {X x xs : Inst} {k : Nat} (h : ETailI X (.acons x xs) k) : ETailI X xs (k + 1) := by
  intro j; have := h (j + 1); simp only [elemI] at this; rw [this]; congr 1; omega
theorem TailI.refl (s : Inst) : TailI s s 0 := fun j => by simp
theorem ETailI.refl (s : Inst) : ETailI s s 0 := fun j => by simp

theorem TailI.get {s a b : Inst} {i : Nat} (h : TailI s (.pair a b) i) : getI s [.fld i] = some a := by
  simp [getI, stepI, h.head]

/-! ### `@=` / `<<=` -/

def dup (p : Path) : Path × Path := (p, p)

theorem runAug_append (op : Heap → Nat → Nat → Except Err Heap) (env : HEnv) (l1 l2 : List (Path × Path)) (h : Heap) :
    runAug op env h (l1 ++ l2) =
      match runAug op env h l1 with
      | .ok h1 => runAug op env h1 l2
      | .error e => .error e := by
  induction l1 generalizing h with
  | nil => simp [runAug]
  | cons st rest ih =>
    simp only [List.cons_append, runAug]
    cases getI env.self st.1 with
    | none => simp
    | some a =>
      cases getI env.other st.2 with
      | none => simp
      | some b =>
        simp only []
        cases elemOp op h a b with
        | error e => simp
        | ok h1 => simp [ih]

theorem aug_arr (op : Heap → Nat → Nat → Except Err Heap) (env : HEnv) (t : Ty) (q : Path) (X Y : Inst)
    (hX : getI env.self q = some X) (hY : getI env.other q = some Y)
    (ih : ∀ (h : Heap) (x y : Inst) (p : Path), IShape x t → IShape y t → getI env.self p = some x → getI env.other p = some y →
      runAug op env h ((elemPaths t p).map dup) = zipWithM op h x y) :
    ∀ (k s : Nat) (h : Heap) (xs ys : Inst), IShape xs (.arr k t) → IShape ys (.arr k t) → ETailI X xs s → ETailI Y ys s →
      runAug op env h ((flatFrom (fun j => elemPaths t (q ++ [.idx j])) s k).map dup) = zipWithM op h xs ys := by
  intro k
  induction k with
  | zero =>
    intro s h xs ys h1 h2 _ _
    rw [ishape_arr_zero h1, ishape_arr_zero h2]; simp [flatFrom, runAug, zipWithM]
  | succ k ihk =>
    intro s h xs ys h1 h2 t1 t2
    obtain ⟨x, r, rfl, hx, hr⟩ := ishape_arr_succ h1
    obtain ⟨y, r', rfl, hy, hr'⟩ := ishape_arr_succ h2
    simp only [flatFrom, List.map_append, zipWithM]
    rw [runAug_append]
    rw [ih h x y _ hx hy (by rw [getI_snoc hX]; simpa [stepI] using t1.head)
      (by rw [getI_snoc hY]; simpa [stepI] using t2.head)]
    cases zipWithM op h x y with
    | error e => rfl
    | ok h1' => exact ihk (s + 1) h1' r r' hr hr' t1.tail t2.tail

theorem aug_elem (op : Heap → Nat → Nat → Except Err Heap) (env : HEnv) : ∀ (A : Ty) (h : Heap) (x y : Inst) (p : Path),
    IShape x A → IShape y A → getI env.self p = some x → getI env.other p = some y →
    runAug op env h ((elemPaths A p).map dup) = zipWithM op h x y := by
  intro A
  have base : ∀ (A : Ty), isArr A = false → ∀ (h : Heap) (x y : Inst) (p : Path),
      IShape x A → IShape y A → getI env.self p = some x → getI env.other p = some y →
      runAug op env h ([p].map dup) = zipWithM op h x y := by
    intro A ha h x y p hx _ gx gy
    simp only [List.map, runAug, dup, gx, gy, elemOp, ishape_not_list hx ha]
    cases zipWithM op h x y <;> simp
  induction A with
  | bits n => intro h x y p; simpa [elemPaths] using base (.bits n) rfl h x y p
  | unit => intro h x y p; simpa [elemPaths] using base .unit rfl h x y p
  | pair A R _ _ => intro h x y p; simpa [elemPaths] using base (.pair A R) rfl h x y p
  | arr k t iht =>
    intro h x y p hx hy gx gy
    simp only [elemPaths]
    exact aug_arr op env t p x y gx gy iht k 0 h x y hx hy (ETailI.refl x) (ETailI.refl y)

theorem aug_fields (op : Heap → Nat → Nat → Except Err Heap) (dst src : Inst) : ∀ (R : Ty) (i : Nat) (h : Heap) (c d : Inst),
    IShape c R → IShape d R → Chain R → WF R → TailI dst c i → TailI src d i →
    runAug op ⟨dst, src⟩ h ((fieldElemPaths R i).map dup) = zipWithM op h c d := by
  intro R
  induction R with
  | bits n => intro i h c d _ _ hc; exact absurd hc (by simp [Chain])
  | arr k t _ => intro i h c d _ _ hc; exact absurd hc (by simp [Chain])
  | unit =>
    intro i h c d h1 h2 _ _ _ _
    cases h1; cases h2; simp [fieldElemPaths, runAug, zipWithM]
  | pair A R _ ihR =>
    intro i h c d h1 h2 _ hw t1 t2
    cases h1 with
    | @pair a b _ _ ha hb =>
      cases h2 with
      | @pair a' b' _ _ ha' hb' =>
        simp only [fieldElemPaths, List.map_append, zipWithM]
        rw [runAug_append, aug_elem op ⟨dst, src⟩ A h a a' _ ha ha' t1.get t2.get]
        cases zipWithM op h a a' with
        | error e => rfl
        | ok h1' => exact ihR (i + 1) h1' b b' hb hb' hw.2.2 hw.2.1 t1.tail t2.tail

/-! ### `_flip` -/

theorem runFlip_append (self : Inst) (l1 l2 : List Path) (h : Heap) :
    runFlip self h (l1 ++ l2) =
      match runFlip self h l1 with
      | .ok h1 => runFlip self h1 l2
      | .error e => .error e := by
  induction l1 generalizing h with
  | nil => simp [runFlip]
  | cons p rest ih =>
    simp only [List.cons_append, runFlip]
    cases getI self p with
    | none => simp
    | some a =>
      simp only []
      cases isListI a with
      | true => simp
      | false =>
        simp only [Bool.false_eq_true, ↓reduceIte]
        cases PV.BitStruct.flip h a with
        | error e => simp
        | ok h1 => simp [ih]

theorem flip_arr (self : Inst) (t : Ty) (q : Path) (X : Inst) (hX : getI self q = some X)
    (ih : ∀ (h : Heap) (x : Inst) (p : Path), IShape x t → getI self p = some x →
      runFlip self h (elemPaths t p) = PV.BitStruct.flip h x) :
    ∀ (k s : Nat) (h : Heap) (xs : Inst), IShape xs (.arr k t) → ETailI X xs s →
      runFlip self h (flatFrom (fun j => elemPaths t (q ++ [.idx j])) s k) = PV.BitStruct.flip h xs := by
  intro k
  induction k with
  | zero =>
    intro s h xs h1 _
    rw [ishape_arr_zero h1]; simp [flatFrom, runFlip, PV.BitStruct.flip]
  | succ k ihk =>
    intro s h xs h1 t1
    obtain ⟨x, r, rfl, hx, hr⟩ := ishape_arr_succ h1
    simp only [flatFrom, PV.BitStruct.flip]
    rw [runFlip_append, ih h x _ hx (by rw [getI_snoc hX]; simpa [stepI] using t1.head)]
    cases PV.BitStruct.flip h x with
    | error e => rfl
    | ok h1' => exact ihk (s + 1) h1' r hr t1.tail

theorem flip_elem (self : Inst) : ∀ (A : Ty) (h : Heap) (x : Inst) (p : Path),
    IShape x A → getI self p = some x → runFlip self h (elemPaths A p) = PV.BitStruct.flip h x := by
  intro A
  have base : ∀ (A : Ty), isArr A = false → ∀ (h : Heap) (x : Inst) (p : Path),
      IShape x A → getI self p = some x → runFlip self h [p] = PV.BitStruct.flip h x := by
    intro A ha h x p hx gx
    simp only [runFlip, gx, ishape_not_list hx ha, Bool.false_eq_true, ↓reduceIte]
    cases PV.BitStruct.flip h x <;> simp
  induction A with
  | bits n => intro h x p; simpa [elemPaths] using base (.bits n) rfl h x p
  | unit => intro h x p; simpa [elemPaths] using base .unit rfl h x p
  | pair A R _ _ => intro h x p; simpa [elemPaths] using base (.pair A R) rfl h x p
  | arr k t iht =>
    intro h x p hx gx
    simp only [elemPaths]
    exact flip_arr self t p x gx iht k 0 h x hx (ETailI.refl x)

theorem flip_fields (self : Inst) : ∀ (R : Ty) (i : Nat) (h : Heap) (c : Inst),
    IShape c R → Chain R → WF R → TailI self c i →
    runFlip self h (fieldElemPaths R i) = PV.BitStruct.flip h c := by
  intro R
  induction R with
  | bits n => intro i h c _ hc; exact absurd hc (by simp [Chain])
  | arr k t _ => intro i h c _ hc; exact absurd hc (by simp [Chain])
  | unit =>
    intro i h c h1 _ _ _
    cases h1; simp [fieldElemPaths, runFlip, PV.BitStruct.flip]
  | pair A R _ ihR =>
    intro i h c h1 _ hw t1
    cases h1 with
    | @pair a b _ _ ha hb =>
      simp only [fieldElemPaths, PV.BitStruct.flip]
      rw [runFlip_append, flip_elem self A h a _ ha t1.get]
      cases PV.BitStruct.flip h a with
      | error e => rfl
      | ok h1' => exact ihR (i + 1) h1' b hb hw.2.2 hw.2.1 t1.tail

/-! ### clone / `__deepcopy__` -/

/-- the argument list of a struct instance -/
def chainI : Inst → Inst
  | .pair a b => .acons a (chainI b)
  | _ => .anil

theorem clone_arr (env : HEnv) (t : Ty) (X : Inst) (f : Nat → Expr)
    (ih : ∀ (h : Heap) (j : Nat) (x : Inst), elemI X j = some x → IShape x t → evalH env h (f j) = some (PV.BitStruct.clone h x)) :
    ∀ (k s : Nat) (h : Heap) (xs : Inst), IShape xs (.arr k t) → ETailI X xs s →
      evalH env h (unroll.go f s k) = some (PV.BitStruct.clone h xs) := by
  intro k
  induction k with
  | zero =>
    intro s h xs h1 _
    rw [ishape_arr_zero h1]; simp [unroll.go, evalH, PV.BitStruct.clone]
  | succ k ihk =>
    intro s h xs h1 t1
    obtain ⟨x, r, rfl, hx, hr⟩ := ishape_arr_succ h1
    simp only [unroll.go, evalH, PV.BitStruct.clone]
    rw [ih h s x t1.head hx]
    simp only []
    rw [ihk (s + 1) _ r hr t1.tail]

theorem clone_elem (self other : Inst) : ∀ (A : Ty) (h : Heap) (x : Inst) (p : Path),
    IShape x A → getI self p = some x → evalH ⟨self, other⟩ h (unroll .clone A p) = some (PV.BitStruct.clone h x) := by
  intro A
  have base : ∀ (A : Ty), isArr A = false → ∀ (h : Heap) (x : Inst) (p : Path),
      IShape x A → getI self p = some x → evalH ⟨self, other⟩ h (.clone p) = some (PV.BitStruct.clone h x) := by
    intro A ha h x p hx gx
    simp [evalH, gx, ishape_not_list hx ha]
  induction A with
  | bits n => intro h x p; simpa [unroll] using base (.bits n) rfl h x p
  | unit => intro h x p; simpa [unroll] using base .unit rfl h x p
  | pair A R _ _ => intro h x p; simpa [unroll] using base (.pair A R) rfl h x p
  | arr k t iht =>
    intro h x p hx gx
    simp only [unroll]
    apply clone_arr ⟨self, other⟩ t x _ _ k 0 h x hx (ETailI.refl x)
    intro h' j y hj hy
    apply iht h' y _ hy
    rw [getI_snoc gx]; simpa [stepI] using hj

theorem clone_fields (self other : Inst) : ∀ (R : Ty) (i : Nat) (h : Heap) (c : Inst),
    IShape c R → Chain R → WF R → TailI self c i →
    evalH ⟨self, other⟩ h (cloneArgs R i) = some ((PV.BitStruct.clone h c).1, chainI (PV.BitStruct.clone h c).2) := by
  intro R
  induction R with
  | bits n => intro i h c _ hc; exact absurd hc (by simp [Chain])
  | arr k t _ => intro i h c _ hc; exact absurd hc (by simp [Chain])
  | unit =>
    intro i h c h1 _ _ _
    cases h1; simp [cloneArgs, evalH, PV.BitStruct.clone, chainI]
  | pair A R _ ihR =>
    intro i h c h1 _ hw t1
    cases h1 with
    | @pair a b _ _ ha hb =>
      simp only [cloneArgs, evalH, PV.BitStruct.clone]
      rw [clone_elem self other A h a _ ha t1.get]
      simp only []
      rw [ihR (i + 1) _ b hb hw.2.2 hw.2.1 t1.tail]
      simp [chainI]

/-- `self.__class__( <clones> )` = the generated `__init__` applied to the field-wise clone -/
theorem evalClone_eq {T : Ty} (hw : WF T) (hc : Chain T) (h : Heap) (self : Inst) (hs : IShape self T) :
    evalClone T (cloneArgs T 0) h self =
      newI (PV.BitStruct.clone h self).1 T (chainI (PV.BitStruct.clone h self).2) := by
  simp only [evalClone, evalH]
  rw [clone_fields self self T 0 h self hs hc hw (TailI.refl self)]
  simp

/-! ### the generated `__init__` with every argument given -/

theorem hasTy_read_pair {h : Heap} {c : Inst} {A R : Ty} (ht : HasTy (PV.BitStruct.read h c) (.pair A R)) :
    ∃ a b, c = .pair a b ∧ HasTy (PV.BitStruct.read h a) A ∧ HasTy (PV.BitStruct.read h b) R := by
  cases c with
  | pair a b =>
    simp only [PV.BitStruct.read] at ht
    cases ht with
    | pair h1 h2 => exact ⟨a, b, rfl, h1, h2⟩
  | leaf c => simp only [PV.BitStruct.read] at ht; cases ht
  | unit => simp only [PV.BitStruct.read] at ht; cases ht
  | anil => simp only [PV.BitStruct.read] at ht; cases ht
  | acons _ _ => simp only [PV.BitStruct.read] at ht; cases ht

/-- one field: `_type_f(x)` re-wraps a Bits in a new object, `x or …` keeps the object -/
theorem wrapI_spec (hk : Heap) (A : Ty) (a : Inst) (ht : HasTy (PV.BitStruct.read hk a) A) (hin : InHeap hk a)
    (nd : (cells a).Nodup) (nx : ∀ x ∈ cells a, (hk.cell x).next = none) :
    ∃ h1 a', wrapI hk A a = some (h1, a') ∧ hk.size ≤ h1.size ∧ (∀ x, x < hk.size → h1.cell x = hk.cell x) ∧
      PV.BitStruct.read h1 a' = PV.BitStruct.read hk a ∧
      (∀ x ∈ cells a', (x ∈ cells a ∧ ∀ n, A ≠ .bits n) ∨ (hk.size ≤ x ∧ x < h1.size)) ∧ (cells a').Nodup ∧
      (∀ x ∈ cells a', (h1.cell x).next = none) := by
  have keep : (∀ n, A ≠ .bits n) → wrapI hk A a = some (hk, a) := by
    intro hA
    cases A with
    | bits n => exact absurd rfl (hA n)
    | unit => simp [wrapI]
    | pair _ _ => simp [wrapI]
    | arr _ _ => simp [wrapI]
  cases A with
  | bits n =>
    cases a with
    | leaf c =>
      simp only [PV.BitStruct.read] at ht
      have hn : (hk.cell c).cur.n = n := by cases ht; rfl
      obtain ⟨s1, s2, s3, s4⟩ := alloc_spec hk ⟨(hk.cell c).cur, none⟩
      refine ⟨(hk.alloc ⟨(hk.cell c).cur, none⟩).1, .leaf (hk.alloc ⟨(hk.cell c).cur, none⟩).2,
        by simp only [wrapI, hn, ↓reduceIte], by omega, fun x hx => s4 x (by omega), ?_, ?_, by simp [cells], ?_⟩
      · simp only [PV.BitStruct.read]; rw [s2, s3]
      · intro x hx; simp only [cells, List.mem_singleton] at hx; right; rw [hx, s2]; omega
      · intro x hx; simp only [cells, List.mem_singleton] at hx; rw [hx, s2, s3]
    | unit => simp only [PV.BitStruct.read] at ht; cases ht
    | pair _ _ => simp only [PV.BitStruct.read] at ht; cases ht
    | anil => simp only [PV.BitStruct.read] at ht; cases ht
    | acons _ _ => simp only [PV.BitStruct.read] at ht; cases ht
  | unit => exact ⟨hk, a, keep (by simp), Nat.le_refl _, fun _ _ => rfl, rfl, fun x hx => Or.inl ⟨hx, by simp⟩, nd, nx⟩
  | pair _ _ => exact ⟨hk, a, keep (by simp), Nat.le_refl _, fun _ _ => rfl, rfl, fun x hx => Or.inl ⟨hx, by simp⟩, nd, nx⟩
  | arr _ _ => exact ⟨hk, a, keep (by simp), Nat.le_refl _, fun _ _ => rfl, rfl, fun x hx => Or.inl ⟨hx, by simp⟩, nd, nx⟩

/-- `C(a0, a1, …)` on argument objects `c` with pairwise distinct leaves: the new instance reads like the arguments,
its leaves are pairwise distinct, each is either a leaf of a non-Bits argument (kept) or a new object -/
theorem newI_spec : ∀ (R : Ty), Chain R → WF R → ∀ (hk : Heap) (c : Inst),
    HasTy (PV.BitStruct.read hk c) R → InHeap hk c → (cells c).Nodup → (∀ x ∈ cells c, (hk.cell x).next = none) →
    ∃ h2 i2, newI hk R (chainI c) = some (h2, i2) ∧ hk.size ≤ h2.size ∧ (∀ x, x < hk.size → h2.cell x = hk.cell x) ∧
      PV.BitStruct.read h2 i2 = PV.BitStruct.read hk c ∧
      (∀ x ∈ cells i2, x ∈ cells c ∨ (hk.size ≤ x ∧ x < h2.size)) ∧ (cells i2).Nodup ∧
      (∀ x ∈ cells i2, (h2.cell x).next = none) := by
  intro R
  induction R with
  | bits n => intro hc; exact absurd hc (by simp [Chain])
  | arr k t _ => intro hc; exact absurd hc (by simp [Chain])
  | unit =>
    intro _ _ hk c ht _ _ _
    have : c = .unit := by
      cases c <;> simp only [PV.BitStruct.read] at ht <;> first | rfl | cases ht
    subst this
    exact ⟨hk, .unit, by simp [chainI, newI], Nat.le_refl _, fun _ _ => rfl, rfl, by simp [cells], by simp [cells], by simp [cells]⟩
  | pair A R _ ihR =>
    intro _ hw hk c ht hin nd nx
    obtain ⟨a, b, rfl, hta, htb⟩ := hasTy_read_pair ht
    simp only [cells] at nd nx hin
    rw [List.nodup_append] at nd
    obtain ⟨nda, ndb, ndx⟩ := nd
    have hina : InHeap hk a := fun x hx => hin x (by simp [cells, hx])
    have hinb : InHeap hk b := fun x hx => hin x (by simp [cells, hx])
    obtain ⟨h1, a', e1, sz1, old1, r1, rg1, nd1, nx1⟩ := wrapI_spec hk A a hta hina nda (fun x hx => nx x (by simp [hx]))
    have hrb : PV.BitStruct.read h1 b = PV.BitStruct.read hk b := read_congr _ _ _ (fun x hx => by rw [old1 x (hinb x hx)])
    obtain ⟨h2, r', e2, sz2, old2, r2, rg2, nd2, nx2⟩ := ihR hw.2.2 hw.2.1 h1 b (by rw [hrb]; exact htb)
      (fun x hx => Nat.lt_of_lt_of_le (hinb x hx) sz1) ndb
      (fun x hx => by rw [old1 x (hinb x hx)]; exact nx x (by simp [hx]))
    have a'lt : ∀ x ∈ cells a', x < h1.size := by
      intro x hx
      rcases rg1 x hx with ⟨hxa, _⟩ | hr
      · exact Nat.lt_of_lt_of_le (hina x hxa) sz1
      · exact hr.2
    refine ⟨h2, .pair a' r', by simp [chainI, newI, e1, e2], Nat.le_trans sz1 sz2, ?_, ?_, ?_, ?_, ?_⟩
    · intro x hx; rw [old2 x (Nat.lt_of_lt_of_le hx sz1), old1 x hx]
    · simp only [PV.BitStruct.read]
      rw [r2, hrb, read_congr h1 h2 a' (fun x hx => by rw [old2 x (a'lt x hx)]), r1]
    · intro x hx
      simp only [cells, List.mem_append] at hx ⊢
      rcases hx with hx | hx
      · rcases rg1 x hx with ⟨hxa, _⟩ | hr
        · exact Or.inl (Or.inl hxa)
        · exact Or.inr ⟨hr.1, Nat.lt_of_lt_of_le hr.2 sz2⟩
      · rcases rg2 x hx with hxb | hr
        · exact Or.inl (Or.inr hxb)
        · exact Or.inr ⟨Nat.le_trans sz1 hr.1, hr.2⟩
    · simp only [cells]
      rw [List.nodup_append]
      refine ⟨nd1, nd2, ?_⟩
      intro x hx y hy e
      subst e
      have := a'lt x hx
      rcases rg2 x hy with hxb | hr
      · rcases rg1 x hx with ⟨hxa, _⟩ | hr1
        · exact ndx x hxa x hxb rfl
        · have := hinb x hxb; omega
      · omega
    · intro x hx
      simp only [cells, List.mem_append] at hx
      rcases hx with hx | hx
      · rw [old2 x (a'lt x hx)]; exact nx1 x hx
      · exact nx2 x hx

theorem hasTy_read_clone (h : Heap) (i : Inst) (hin : InHeap h i) :
    Fresh h (PV.BitStruct.clone h i).1 (PV.BitStruct.clone h i).2 ∧
    PV.BitStruct.read (PV.BitStruct.clone h i).1 (PV.BitStruct.clone h i).2 = PV.BitStruct.read h i := by
  rw [clone_eq_build h i hin]; exact build_spec h (PV.BitStruct.read h i)

/-- the clone program: a new instance that reads like the source and whose leaf objects are all new -/
theorem evalClone_spec {T : Ty} (hw : WF T) (hc : Chain T) (h : Heap) (self : Inst)
    (ht : HasTy (PV.BitStruct.read h self) T) (hin : InHeap h self) :
    ∃ h' i', evalClone T (cloneArgs T 0) h self = some (h', i') ∧
      PV.BitStruct.read h' i' = PV.BitStruct.read h self ∧ Fresh h h' i' := by
  rw [evalClone_eq hw hc h self (ishape_of_hasTy h self T ht)]
  obtain ⟨f, r⟩ := hasTy_read_clone h self hin
  obtain ⟨h2, i2, e, sz, old, rd, rg, nd, nx⟩ := newI_spec T hc hw _ _ (by rw [r]; exact ht)
    (fun x hx => (f.range x hx).2) f.nodup f.next_none
  refine ⟨h2, i2, e, by rw [rd, r], ⟨Nat.le_trans f.size_le sz, ?_, ?_, nd, nx⟩⟩
  · intro x hx; rw [old x (Nat.lt_of_lt_of_le hx f.size_le), f.old x hx]
  · intro x hx
    rcases rg x hx with hxc | hr
    · exact ⟨(f.range x hxc).1, Nat.lt_of_lt_of_le (f.range x hxc).2 sz⟩
    · exact ⟨Nat.le_trans f.size_le hr.1, hr.2⟩

/-! ### the `__init__` program -/

/-- the arguments from position `k` on are the fields of `c` -/
def ArgsAt (args : List (Option Inst)) (c : Inst) (k : Nat) : Prop :=
  ∀ j x, fieldI c j = some x → args[k + j]? = some (some x)

theorem ArgsAt.head {args : List (Option Inst)} {a b : Inst} {k : Nat} (h : ArgsAt args (.pair a b) k) :
    args[k]? = some (some a) := by simpa using h 0 a (by simp [fieldI])

theorem ArgsAt.tail {args : List (Option Inst)} {a b : Inst} {k : Nat} (h : ArgsAt args (.pair a b) k) :
    ArgsAt args b (k + 1) := by
  intro j x hx
  have := h (j + 1) x (by simpa [fieldI] using hx)
  rw [← this]; congr 1; omega

/-- called with every argument, the `__init__` program is `newI` (what `C( … )` means in the other programs) -/
theorem init_given (args : List (Option Inst)) : ∀ (R : Ty), Chain R → WF R → ∀ (k : Nat) (h : Heap) (c : Inst),
    IShape c R → ArgsAt args c k → evalInit args h k (initStmts R k) = newI h R (chainI c) := by
  intro R
  induction R with
  | bits n => intro hc; exact absurd hc (by simp [Chain])
  | arr k t _ => intro hc; exact absurd hc (by simp [Chain])
  | unit => intro _ _ k h c hs _; cases hs; simp [initStmts, evalInit, chainI, newI]
  | pair A R _ ihR =>
    intro _ hw k h c hs ha
    cases hs with
    | @pair a b _ _ hsa hsb =>
      have tl := fun h1 => ihR hw.2.2 hw.2.1 (k + 1) h1 b hsb ha.tail
      have hd := ha.head
      cases A with
      | bits n =>
        cases hsa with
        | leaf cc _ =>
          simp only [initStmts, evalInit, ne_eq, not_true_eq_false, ↓reduceIte, evalRhs, hd, chainI, newI, wrapI]
          by_cases hn : (h.cell cc).cur.n = n
          · simp only [hn, ↓reduceIte, tl]
          · simp only [hn, ↓reduceIte]
      | unit => simp only [initStmts, evalInit, ne_eq, not_true_eq_false, ↓reduceIte, evalRhs, hd, chainI, newI, wrapI, tl]
      | pair _ _ => simp only [initStmts, evalInit, ne_eq, not_true_eq_false, ↓reduceIte, evalRhs, hd, chainI, newI, wrapI, tl]
      | arr _ _ => simp only [initStmts, evalInit, ne_eq, not_true_eq_false, ↓reduceIte, evalRhs, hd, chainI, newI, wrapI, tl]

theorem paste_eval (env : HEnv) (e : Expr) (z : Val) (he : ∀ h, evalH env h e = some (build h z)) :
    ∀ (k : Nat) (h : Heap), evalH env h (dfltExpr.pasteN e k) = some (build h (consN z k)) := by
  intro k
  induction k with
  | zero => intro h; simp [dfltExpr.pasteN, evalH, consN, build]
  | succ k ih => intro h; simp [dfltExpr.pasteN, evalH, consN, build, he, ih]

/-- the default expression of a field builds a zero instance, every leaf a new object -/
theorem dflt_eval (env : HEnv) : ∀ (A : Ty) (h : Heap), evalH env h (dfltExpr A) = some (build h (zeroV A)) := by
  intro A
  induction A with
  | bits n => intro h; simp [dfltExpr, evalH, isArr]
  | unit => intro h; simp [dfltExpr, evalH, isArr]
  | pair A R _ _ => intro h; simp [dfltExpr, evalH, isArr]
  | arr k t iht => intro h; simp only [dfltExpr, zeroV]; exact paste_eval env _ _ iht k h

/-- called without arguments, the `__init__` program builds the zero instance leaf by leaf -/
theorem init_default (args : List (Option Inst)) : ∀ (R : Ty), Chain R → WF R → ∀ (k : Nat) (h : Heap),
    (∀ j, j < nFields R → args[k + j]? = some none) →
    evalInit args h k (initStmts R k) = some (build h (zeroV R)) := by
  intro R
  induction R with
  | bits n => intro hc; exact absurd hc (by simp [Chain])
  | arr k t _ => intro hc; exact absurd hc (by simp [Chain])
  | unit => intro _ _ k h _; simp [initStmts, evalInit, zeroV, build]
  | pair A R _ ihR =>
    intro _ hw k h ha
    have hd : args[k]? = some none := by simpa using ha 0 (by simp [nFields])
    have tl := fun h1 => ihR hw.2.2 hw.2.1 (k + 1) h1 (fun j hj => by
      have := ha (j + 1) (by simp only [nFields]; omega)
      rw [← this]; congr 1; omega)
    cases A with
    | bits n => simp [initStmts, evalInit, evalRhs, hd, tl, zeroV, build]
    | unit => simp [initStmts, evalInit, evalRhs, hd, tl, zeroV, build, dflt_eval]
    | pair _ _ => simp [initStmts, evalInit, evalRhs, hd, tl, zeroV, build, dflt_eval]
    | arr _ _ => simp [initStmts, evalInit, evalRhs, hd, tl, dflt_eval]; simp [zeroV, build]

end PV.BStructProg
