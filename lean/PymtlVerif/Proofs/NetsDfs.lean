import PymtlVerif.Proofs.Nets
import PymtlVerif.Proofs.NetsElab
/-!
# The code's `pred`-based loop test (`ffRun` / `ffRoots` / `ffLoop`) against `hasLoop`

* `ffLoop_false_sound`: if the stack machine ends without firing, the merged connection graph has
  no cycle (no invariant about the stack is needed: the test made at every pop says that the
  popped node has at most one visited neighbour, so the visited subgraph grows as a forest);
* `ffLoop_acyclic`: on a graph without cycle the stack machine never fires and ends within its fuel
  (invariant: the stack has no duplicates and no visited node, every stacked node has its `pred`
  visited and adjacent, the visited part of the current component is connected, every neighbour of
  a visited node is visited or stacked).

Together: `ffLoop E = some false ↔ hasLoop E = false`. What is not proved is that on a graph
*with* a cycle the machine stops within its fuel (it can then only fire or run out of fuel, and
running out of fuel is an infrastructure error of the driver, never a verdict).
-/
namespace PV.Nets

/-! ## edges inside a node set -/

def within (V : List Nat) (S : List Edge) : List Edge :=
  S.filter (fun e => decide (e.1 ∈ V) && decide (e.2 ∈ V))

theorem step_within (V : List Nat) (S : List Edge) (a b : Nat) :
    Step (within V S) a b ↔ Step S a b ∧ a ∈ V ∧ b ∈ V := by
  unfold Step within
  simp only [List.mem_filter, Bool.and_eq_true, decide_eq_true_eq]
  constructor
  · rintro (⟨h, ha, hb⟩ | ⟨h, hb, ha⟩)
    · exact ⟨Or.inl h, ha, hb⟩
    · exact ⟨Or.inr h, ha, hb⟩
  · rintro ⟨h | h, ha, hb⟩
    · exact Or.inl ⟨h, ha, hb⟩
    · exact Or.inr ⟨h, hb, ha⟩

theorem reach_within_mono {V V' : List Nat} {S : List Edge} (h : ∀ x ∈ V, x ∈ V') {a b : Nat}
    (hr : Reach (within V S) a b) : Reach (within V' S) a b := by
  apply reach_mono _ hr
  intro x y hs
  rw [step_within] at hs ⊢
  exact ⟨hs.1, h _ hs.2.1, h _ hs.2.2⟩

theorem reach_within_erase {V : List Nat} {S : List Edge} {e : Edge} (he : e.1 ∉ V ∨ e.2 ∉ V) {a b : Nat}
    (hr : Reach (within V S) a b) : Reach (S.erase e) a b := by
  apply reach_mono _ hr
  intro x y hs
  rw [step_within] at hs
  obtain ⟨hs, hx, hy⟩ := hs
  unfold Step at hs ⊢
  rcases hs with h | h
  · refine Or.inl ((List.mem_erase_of_ne ?_).mpr h)
    intro heq; rw [← heq] at he; simp only at he
    rcases he with he | he
    · exact he hx
    · exact he hy
  · refine Or.inr ((List.mem_erase_of_ne ?_).mpr h)
    intro heq; rw [← heq] at he; simp only at he
    rcases he with he | he
    · exact he hy
    · exact he hx

theorem hasCycle_of_self {S : List Edge} {u : Nat} (h : Step S u u) : HasCycle S := by
  have : (u, u) ∈ S := by rcases h with h | h <;> exact h
  exact ⟨(u, u), this, Reach.refl u⟩

/-- a node outside `V` with two different neighbours in `V` that are connected inside `V` lies on a cycle -/
theorem hasCycle_of_two {S : List Edge} {V : List Nat} {u p v : Nat} (hu : u ∉ V) (hp : p ∈ V) (hv : v ∈ V)
    (hne : p ≠ v) (h1 : Step S u p) (h2 : Step S u v) (hr : Reach (within V S) p v) : HasCycle S := by
  have hup : u ≠ p := fun e => hu (e ▸ hp)
  have huv : u ≠ v := fun e => hu (e ▸ hv)
  -- the edge u-v survives the removal of the edge u-p
  have keep : ∀ e : Edge, (e = (u, p) ∨ e = (p, u)) → Step (S.erase e) u v := by
    intro e he
    unfold Step at h2 ⊢
    rcases h2 with h | h
    · refine Or.inl ((List.mem_erase_of_ne ?_).mpr h)
      rcases he with rfl | rfl
      · intro heq; exact hne (by cases heq; rfl)
      · intro heq; cases heq; exact hup rfl
    · refine Or.inr ((List.mem_erase_of_ne ?_).mpr h)
      rcases he with rfl | rfl
      · intro heq; cases heq; exact hup rfl
      · intro heq; exact hne (by cases heq; rfl)
  rcases h1 with h | h
  · refine ⟨(u, p), h, ?_⟩
    have r1 : Reach (S.erase (u, p)) u v := Reach.single (keep _ (Or.inl rfl))
    have r2 : Reach (S.erase (u, p)) v p := reach_within_erase (Or.inl hu) (reach_symm hr)
    exact reach_trans r1 r2
  · refine ⟨(p, u), h, ?_⟩
    have r1 : Reach (S.erase (p, u)) v u := Reach.single (keep _ (Or.inr rfl)).symm
    have r2 : Reach (S.erase (p, u)) p v := reach_within_erase (Or.inr hu) hr
    exact reach_trans r2 r1

/-! ## `lookupPred` -/

theorem lookupPred_append_new (new : List Nat) (u : Nat) (P : List (Nat × Nat)) (x : Nat) :
    lookupPred (new.map (fun v => (v, u)) ++ P) x = if x ∈ new then some u else lookupPred P x := by
  induction new with
  | nil => simp
  | cons a l ih =>
    unfold lookupPred at ih ⊢
    simp only [List.map_cons, List.cons_append, List.find?_cons]
    by_cases hax : a = x
    · subst hax; simp
    · have : (a == x) = false := by simpa using hax
      simp only [this]
      rw [ih]
      have hxa : x ≠ a := fun e => hax e.symm
      simp [List.mem_cons, hxa]

theorem lookupPred_mem {P : List (Nat × Nat)} {x p : Nat} (h : lookupPred P x = some p) : (x, p) ∈ P := by
  unfold lookupPred at h
  cases hf : P.find? (fun q => q.1 == x) with
  | none => rw [hf] at h; cases h
  | some q =>
    rw [hf] at h
    simp only [Option.map_some, Option.some.injEq] at h
    have hm := List.mem_of_find?_eq_some hf
    have hk := List.find?_some hf
    simp only [beq_iff_eq] at hk
    have : q = (x, p) := Prod.ext hk h
    rw [← this]; exact hm

/-! ## forests grown one leaf at a time -/

/-- every edge joins a node that does not occur in the later edges to something else -/
def Fresh : List Edge → Prop
  | [] => True
  | e :: T => e.1 ≠ e.2 ∧ ((∀ x, ¬ Step T e.2 x) ∨ (∀ x, ¬ Step T e.1 x)) ∧ Fresh T

theorem cyc_false_of_fresh : ∀ (L : List Edge), Fresh L → cyc L = false := by
  intro L
  induction L with
  | nil => intro _; rfl
  | cons e T ih =>
    rintro ⟨hne, hiso, hT⟩
    simp only [cyc, ih hT, Bool.false_or, decide_eq_false_iff_not, mem_component]
    intro hr
    rcases hiso with h | h
    · obtain ⟨c, hc⟩ := reach_ne_step (reach_symm hr) (Ne.symm hne)
      exact h c hc
    · obtain ⟨c, hc⟩ := reach_ne_step hr hne
      exact h c hc

theorem step_map_normEdge (L : List Edge) (a b : Nat) : Step (L.map normEdge) a b ↔ Step L a b := by
  unfold Step
  simp only [List.mem_map]
  constructor
  · rintro (⟨⟨x, y⟩, he, h⟩ | ⟨⟨x, y⟩, he, h⟩)
    · unfold normEdge at h; split at h <;> cases h
      · exact Or.inl he
      · exact Or.inr he
    · unfold normEdge at h; split at h <;> cases h
      · exact Or.inr he
      · exact Or.inl he
  · rintro (h | h)
    · by_cases hab : a ≤ b
      · exact Or.inl ⟨(a, b), h, by simp [normEdge, hab]⟩
      · exact Or.inr ⟨(a, b), h, by simp [normEdge, hab]⟩
    · by_cases hab : b ≤ a
      · exact Or.inr ⟨(b, a), h, by simp [normEdge, hab]⟩
      · exact Or.inl ⟨(b, a), h, by simp [normEdge, hab]⟩

theorem fresh_map_normEdge : ∀ (L : List Edge), Fresh L → Fresh (L.map normEdge) := by
  intro L
  induction L with
  | nil => intro _; trivial
  | cons e T ih =>
    rintro ⟨hne, hiso, hT⟩
    obtain ⟨a, b⟩ := e
    simp only at hne hiso
    simp only [List.map_cons]
    have iso' : (∀ x, ¬ Step (T.map normEdge) b x) ∨ (∀ x, ¬ Step (T.map normEdge) a x) := by
      rcases hiso with h | h
      · exact Or.inl (fun x hx => h x ((step_map_normEdge T b x).mp hx))
      · exact Or.inr (fun x hx => h x ((step_map_normEdge T a x).mp hx))
    unfold normEdge
    split
    · exact ⟨hne, iso', ih hT⟩
    · exact ⟨Ne.symm hne, iso'.symm, ih hT⟩

theorem fresh_dedup : ∀ (L : List Edge), Fresh L → Fresh (dedup L) := by
  intro L
  induction L with
  | nil => intro _; trivial
  | cons e T ih =>
    rintro ⟨hne, hiso, hT⟩
    simp only [dedup]
    split
    · exact ih hT
    · refine ⟨hne, ?_, ih hT⟩
      have sub : ∀ a b, Step (dedup T) a b → Step T a b := by
        intro a b h; exact h.imp (mem_dedup T _).mp (mem_dedup T _).mp
      rcases hiso with h | h
      · exact Or.inl (fun x hx => h x (sub _ _ hx))
      · exact Or.inr (fun x hx => h x (sub _ _ hx))

theorem hasLoop_false_of_fresh {L : List Edge} (h : Fresh L) : hasLoop L = false := by
  unfold hasLoop simple
  exact cyc_false_of_fresh _ (fresh_dedup _ (fresh_map_normEdge _ h))

/-! ## soundness of "did not fire" -/

variable {S : List Edge} {adjf : Nat → List Nat}

/-- what is known about the visited set while nothing has fired -/
structure Grown (S : List Edge) (V : List Nat) (P : List (Nat × Nat)) (L : List Edge) : Prop where
  fresh : Fresh L
  edges : ∀ a b, Step L a b ↔ (Step S a b ∧ a ∈ V ∧ b ∈ V)
  pne : ∀ pr ∈ P, pr.1 ≠ pr.2

theorem ffRun_false_sound (hadj : ∀ u v, v ∈ adjf u ↔ Step S u v) :
    ∀ (f : Nat) (Q V : List Nat) (P : List (Nat × Nat)) (L : List Edge) (Vout : List Nat),
    Grown S V P L → ffRun adjf f Q V P = some (false, Vout) →
    ∃ (P' : List (Nat × Nat)) (L' : List Edge), Grown S Vout P' L' ∧ (∀ x ∈ V, x ∈ Vout) ∧ (∀ q ∈ Q.head?, q ∈ Vout) := by
  intro f
  induction f with
  | zero => intro Q V P L Vout _ h; simp [ffRun] at h
  | succ f ih =>
    intro Q V P L Vout hG h
    cases Q with
    | nil =>
      simp only [ffRun, Option.some.injEq, Prod.mk.injEq, true_and] at h
      subst h
      exact ⟨P, L, hG, fun x hx => hx, by simp⟩
    | cons u Q' =>
      simp only [ffRun] at h
      by_cases hfire : ((adjf u).any fun v => decide (v ∈ (if u ∈ V then V else u :: V)) && (lookupPred P u != some v)) = true
      · rw [if_pos hfire] at h; cases h
      · rw [if_neg hfire] at h
        -- the step did not fire
        have hnf : ∀ v, Step S u v → v ∈ (if u ∈ V then V else u :: V) → lookupPred P u = some v := by
          intro v hs hv
          have := hfire
          simp only [List.any_eq_true, Bool.and_eq_true, decide_eq_true_eq, bne_iff_ne, ne_eq, not_exists, not_and,
            Decidable.not_not] at this
          exact this v ((hadj u v).mpr hs) hv
        have hP' : ∀ pr ∈ (List.filter (fun v => decide (v ∉ (if u ∈ V then V else u :: V))) (adjf u)).map (fun v => (v, u)) ++ P,
            pr.1 ≠ pr.2 := by
          intro pr hpr
          rcases List.mem_append.mp hpr with hm | hm
          · simp only [List.mem_map, List.mem_filter, decide_eq_true_eq] at hm
            obtain ⟨v, ⟨_, hv⟩, rfl⟩ := hm
            simp only
            intro e; subst e
            apply hv
            split
            · assumption
            · exact List.mem_cons_self ..
          · exact hG.pne pr hm
        by_cases huV : u ∈ V
        · simp only [huV, if_true] at h hnf hP'
          obtain ⟨P2, L2, hG2, hsub, _⟩ := ih _ V _ L Vout ⟨hG.fresh, hG.edges, hP'⟩ h
          exact ⟨P2, L2, hG2, hsub, by simp only [List.head?_cons, Option.mem_def, Option.some.injEq]; rintro q rfl; exact hsub _ huV⟩
        · simp only [huV, if_false] at h hnf hP'
          -- no self connection, at most one visited neighbour
          have noself : ¬ Step S u u := by
            intro hs
            have := hnf u hs (List.mem_cons_self ..)
            exact hG.pne _ (lookupPred_mem this) rfl
          have nb : ∀ v, Step S u v → v ∈ V → lookupPred P u = some v :=
            fun v hs hv => hnf v hs (List.mem_cons_of_mem _ hv)
          have finish : ∀ L1, Grown S (u :: V) ((List.filter (fun v => decide (v ∉ u :: V)) (adjf u)).map (fun v => (v, u)) ++ P) L1 →
              ∃ P' L', Grown S Vout P' L' ∧ (∀ x ∈ V, x ∈ Vout) ∧ (∀ q ∈ (u :: Q').head?, q ∈ Vout) := by
            intro L1 hG1
            obtain ⟨P2, L2, hG2, hsub, _⟩ := ih _ (u :: V) _ L1 Vout hG1 h
            refine ⟨P2, L2, hG2, fun x hx => hsub x (List.mem_cons_of_mem _ hx), ?_⟩
            simp only [List.head?_cons, Option.mem_def, Option.some.injEq]
            rintro q rfl; exact hsub _ (List.mem_cons_self ..)
          by_cases hex : ∃ p, Step S u p ∧ p ∈ V
          · obtain ⟨p, hsp, hpV⟩ := hex
            have hpu : p ≠ u := fun e => huV (e ▸ hpV)
            apply finish ((p, u) :: L)
            refine ⟨⟨hpu, Or.inl ?_, hG.fresh⟩, ?_, hP'⟩
            · intro x hx; exact huV ((hG.edges u x).mp hx).2.1
            · intro a b
              constructor
              · intro hs
                rcases step_cons hs with hs | ⟨rfl, rfl⟩ | ⟨rfl, rfl⟩
                · obtain ⟨h1, h2, h3⟩ := (hG.edges a b).mp hs
                  exact ⟨h1, List.mem_cons_of_mem _ h2, List.mem_cons_of_mem _ h3⟩
                · exact ⟨hsp.symm, List.mem_cons_of_mem _ hpV, List.mem_cons_self ..⟩
                · exact ⟨hsp, List.mem_cons_self .., List.mem_cons_of_mem _ hpV⟩
              · rintro ⟨hs, ha, hb⟩
                have uniq : ∀ v, Step S u v → v ∈ V → v = p := by
                  intro v hsv hv
                  have e1 := nb v hsv hv
                  have e2 := nb p hsp hpV
                  rw [e1] at e2; cases e2; rfl
                rcases List.mem_cons.mp ha with ea | ha'
                · rcases List.mem_cons.mp hb with eb | hb'
                  · rw [ea, eb] at hs; exact absurd hs noself
                  · rw [ea] at hs
                    have := uniq b hs hb'
                    rw [ea, this]
                    exact Or.inr (List.mem_cons_self ..)
                · rcases List.mem_cons.mp hb with eb | hb'
                  · rw [eb] at hs
                    have := uniq a hs.symm ha'
                    rw [eb, this]
                    exact Or.inl (List.mem_cons_self ..)
                  · exact step_cons_of_step ((hG.edges a b).mpr ⟨hs, ha', hb'⟩)
          · apply finish L
            refine ⟨hG.fresh, ?_, hP'⟩
            intro a b
            constructor
            · intro hs
              obtain ⟨h1, h2, h3⟩ := (hG.edges a b).mp hs
              exact ⟨h1, List.mem_cons_of_mem _ h2, List.mem_cons_of_mem _ h3⟩
            · rintro ⟨hs, ha, hb⟩
              rcases List.mem_cons.mp ha with ea | ha'
              · rcases List.mem_cons.mp hb with eb | hb'
                · rw [ea, eb] at hs; exact absurd hs noself
                · rw [ea] at hs; exact absurd ⟨b, hs, hb'⟩ hex
              · rcases List.mem_cons.mp hb with eb | hb'
                · rw [eb] at hs; exact absurd ⟨a, hs.symm, ha'⟩ hex
                · exact (hG.edges a b).mpr ⟨hs, ha', hb'⟩

theorem ffRoots_false_sound (hadj : ∀ u v, v ∈ adjf u ↔ Step S u v) (fuel : Nat) :
    ∀ (rs V : List Nat) (L : List Edge), (∀ a b, Step L a b ↔ (Step S a b ∧ a ∈ V ∧ b ∈ V)) → Fresh L →
    ffRoots adjf fuel rs V = some false →
    ∃ (V' : List Nat) (L' : List Edge), Fresh L' ∧ (∀ a b, Step L' a b ↔ (Step S a b ∧ a ∈ V' ∧ b ∈ V')) ∧ (∀ x ∈ V, x ∈ V') ∧ (∀ r ∈ rs, r ∈ V') := by
  intro rs
  induction rs with
  | nil => intro V L he hf _; exact ⟨V, L, hf, he, fun x hx => hx, by simp⟩
  | cons r rs ih =>
    intro V L he hf h
    simp only [ffRoots] at h
    split at h
    · next hr =>
      obtain ⟨V', L', a, b, c, d⟩ := ih V L he hf h
      refine ⟨V', L', a, b, c, ?_⟩
      intro x hx
      rcases List.mem_cons.mp hx with rfl | hx
      · exact c _ hr
      · exact d x hx
    · split at h
      · cases h
      · cases h
      · next V1 hrun =>
        obtain ⟨P1, L1, hG1, hsub, hhead⟩ := ffRun_false_sound hadj fuel [r] V [] L V1 ⟨hf, he, by simp⟩ hrun
        obtain ⟨V', L', a, b, c, d⟩ := ih V1 L1 hG1.edges hG1.fresh h
        refine ⟨V', L', a, b, fun x hx => c x (hsub x hx), ?_⟩
        intro x hx
        rcases List.mem_cons.mp hx with rfl | hx
        · exact c _ (hhead x (by simp))
        · exact d x hx

theorem adjf_simple (E : List Edge) (u v : Nat) : v ∈ sortDedup (adj (simple E) u) ↔ Step (simple E) u v := by
  rw [mem_sortDedup, mem_adj]

/-- if the code's loop test ends without firing, there is no loop -/
theorem ffLoop_false_sound (E : List Edge) (h : ffLoop E = some false) : hasLoop E = false := by
  unfold ffLoop at h
  simp only at h
  obtain ⟨V', L', hf, he, _, hall⟩ := ffRoots_false_sound (S := simple E) (adjf_simple E) _ (nodesOf (simple E)) [] []
    (by intro a b; simp [Step]) trivial h
  have hstep : ∀ a b, Step L' a b ↔ Step E a b := by
    intro a b
    rw [he, ← step_simple E a b]
    constructor
    · exact fun h => h.1
    · intro hs
      exact ⟨hs, hall a ((mem_nodesOf _ a).mpr ⟨b, hs⟩), hall b ((mem_nodesOf _ b).mpr ⟨a, hs.symm⟩)⟩
  rw [← hasLoop_congr hstep]
  exact hasLoop_false_of_fresh hf

/-! ## on a graph without cycle the stack machine never fires -/

structure Good (S : List Edge) (V0 : List Nat) (r : Nat) (Q V : List Nat) (P : List (Nat × Nat)) : Prop where
  qnd : Q.Nodup
  qv : ∀ q ∈ Q, q ∉ V
  pred : ∀ q ∈ Q, ∃ p, lookupPred P q = some p ∧ p ∈ V ∧ p ∉ V0 ∧ Step S p q
  v0 : ∀ x ∈ V0, x ∈ V
  conn : ∀ x ∈ V, x ∉ V0 → Reach (within V S) r x
  nbr : ∀ x ∈ V, x ∉ V0 → ∀ y, Step S x y → y ∈ V ∨ y ∈ Q

theorem unvisited_cons_lt (S : List Edge) (V : List Nat) (u : Nat) (hu : u ∈ nodesOf S) (hV : u ∉ V) :
    unvisited S (u :: V) < unvisited S V := by
  unfold unvisited
  apply filter_length_lt (x := u)
  · intro x hx
    simp only [decide_eq_true_eq, List.mem_cons, not_or] at hx ⊢
    exact hx.2
  · exact hu
  · simp [hV]
  · simp

theorem ffRun_good (hac : ¬ HasCycle S) (hadj : ∀ u v, v ∈ adjf u ↔ Step S u v) (hnd : ∀ u, (adjf u).Nodup)
    (V0 : List Nat) (r : Nat) (closed0 : ∀ x ∈ V0, ∀ y, Step S x y → y ∈ V0) :
    ∀ (f : Nat) (Q V : List Nat) (P : List (Nat × Nat)), Good S V0 r Q V P → unvisited S V < f →
    ∃ Vout, ffRun adjf f Q V P = some (false, Vout) ∧ (∀ x ∈ V, x ∈ Vout) ∧
      (∀ x ∈ Vout, ∀ y, Step S x y → y ∈ Vout) := by
  intro f
  induction f with
  | zero => intro Q V P _ h; omega
  | succ f ih =>
    intro Q V P hG hfuel
    cases Q with
    | nil =>
      refine ⟨V, by simp [ffRun], fun x hx => hx, ?_⟩
      intro x hx y hs
      by_cases hx0 : x ∈ V0
      · exact hG.v0 _ (closed0 x hx0 y hs)
      · rcases hG.nbr x hx hx0 y hs with h | h
        · exact h
        · cases h
    | cons u Q' =>
      have huV : u ∉ V := hG.qv u (List.mem_cons_self ..)
      obtain ⟨p, hpl, hpV, hp0, hpu⟩ := hG.pred u (List.mem_cons_self ..)
      have huN : u ∈ nodesOf S := (mem_nodesOf S u).mpr ⟨p, hpu.symm⟩
      have hu0 : u ∉ V0 := fun h => huV (hG.v0 _ h)
      have hQ' := List.nodup_cons.mp hG.qnd
      -- nothing fires
      have nofire : ((adjf u).any fun v => decide (v ∈ u :: V) && (lookupPred P u != some v)) = false := by
        rw [Bool.eq_false_iff]
        intro hf
        simp only [List.any_eq_true, Bool.and_eq_true, decide_eq_true_eq, bne_iff_ne, ne_eq] at hf
        obtain ⟨v, hv, hvV, hne⟩ := hf
        have hs : Step S u v := (hadj u v).mp hv
        rcases List.mem_cons.mp hvV with rfl | hvV
        · exact hac (hasCycle_of_self hs)
        · have hv0 : v ∉ V0 := fun h => hu0 (closed0 v h u hs.symm)
          have hpv : p ≠ v := fun e => hne (by rw [hpl, e])
          have hr : Reach (within V S) p v := reach_trans (reach_symm (hG.conn p hpV hp0)) (hG.conn v hvV hv0)
          exact hac (hasCycle_of_two huV hpV hvV hpv hpu.symm hs hr)
      -- the next state is good again
      have hmemnew : ∀ v, v ∈ (adjf u).filter (fun v => decide (v ∉ u :: V)) ↔ Step S u v ∧ v ∉ u :: V := by
        intro v; simp only [List.mem_filter, decide_eq_true_eq, hadj]
      have disj : ∀ v, v ∈ (adjf u).filter (fun v => decide (v ∉ u :: V)) → v ∉ Q' := by
        intro v hv hvQ
        obtain ⟨hsv, hvV'⟩ := (hmemnew v).mp hv
        obtain ⟨p', _, hp'V, hp'0, hp'v⟩ := hG.pred v (List.mem_cons_of_mem _ hvQ)
        have hup' : u ≠ p' := fun e => huV (e ▸ hp'V)
        have r1 : Reach (within (u :: V) S) u p := Reach.single ((step_within _ _ _ _).mpr
          ⟨hpu.symm, List.mem_cons_self .., List.mem_cons_of_mem _ hpV⟩)
        have r2 : Reach (within (u :: V) S) p p' := reach_within_mono (fun x hx => List.mem_cons_of_mem _ hx)
          (reach_trans (reach_symm (hG.conn p hpV hp0)) (hG.conn p' hp'V hp'0))
        exact hac (hasCycle_of_two hvV' (List.mem_cons_self ..) (List.mem_cons_of_mem _ hp'V) hup' hsv.symm hp'v.symm
          (reach_trans r1 r2))
      have hG' : Good S V0 r (((adjf u).filter (fun v => decide (v ∉ u :: V))).reverse ++ Q') (u :: V)
          (((adjf u).filter (fun v => decide (v ∉ u :: V))).map (fun v => (v, u)) ++ P) := by
        refine ⟨?_, ?_, ?_, ?_, ?_, ?_⟩
        · rw [List.nodup_append]
          refine ⟨(List.reverse_perm _).symm.nodup ((hnd u).filter _), hQ'.2, ?_⟩
          intro a ha b hb hab
          subst hab
          exact disj a (List.mem_reverse.mp ha) hb
        · intro q hq
          rcases List.mem_append.mp hq with hq | hq
          · exact ((hmemnew q).mp (List.mem_reverse.mp hq)).2
          · intro hqV
            rcases List.mem_cons.mp hqV with e | hqV'
            · exact hQ'.1 (e ▸ hq)
            · exact hG.qv q (List.mem_cons_of_mem _ hq) hqV'
        · intro q hq
          rw [lookupPred_append_new]
          rcases List.mem_append.mp hq with hq | hq
          · have hq' := List.mem_reverse.mp hq
            refine ⟨u, by rw [if_pos hq'], List.mem_cons_self .., hu0, ((hmemnew q).mp hq').1⟩
          · have hnot : q ∉ (adjf u).filter (fun v => decide (v ∉ u :: V)) := fun h => disj q h hq
            obtain ⟨p', h1, h2, h3, h4⟩ := hG.pred q (List.mem_cons_of_mem _ hq)
            exact ⟨p', by rw [if_neg hnot]; exact h1, List.mem_cons_of_mem _ h2, h3, h4⟩
        · intro x hx; exact List.mem_cons_of_mem _ (hG.v0 x hx)
        · intro x hx hx0
          rcases List.mem_cons.mp hx with rfl | hx
          · have r1 : Reach (within (x :: V) S) r p :=
              reach_within_mono (fun y hy => List.mem_cons_of_mem _ hy) (hG.conn p hpV hp0)
            exact Reach.step r1 ((step_within _ _ _ _).mpr ⟨hpu, List.mem_cons_of_mem _ hpV, List.mem_cons_self ..⟩)
          · exact reach_within_mono (fun y hy => List.mem_cons_of_mem _ hy) (hG.conn x hx hx0)
        · intro x hx hx0 y hs
          rcases List.mem_cons.mp hx with rfl | hx
          · by_cases hy : y ∈ x :: V
            · exact Or.inl hy
            · exact Or.inr (List.mem_append_left _ (List.mem_reverse.mpr ((hmemnew y).mpr ⟨hs, hy⟩)))
          · rcases hG.nbr x hx hx0 y hs with h | h
            · exact Or.inl (List.mem_cons_of_mem _ h)
            · rcases List.mem_cons.mp h with rfl | h
              · exact Or.inl (List.mem_cons_self ..)
              · exact Or.inr (List.mem_append_right _ h)
      have hlt := unvisited_cons_lt S V u huN huV
      obtain ⟨Vout, hrun, hsub, hcl⟩ := ih _ _ _ hG' (by omega)
      refine ⟨Vout, ?_, fun x hx => hsub x (List.mem_cons_of_mem _ hx), hcl⟩
      simp only [ffRun, huV, if_false, nofire, Bool.false_eq_true]
      exact hrun

/-- the run from a fresh root -/
theorem ffRun_root (hac : ¬ HasCycle S) (hadj : ∀ u v, v ∈ adjf u ↔ Step S u v) (hnd : ∀ u, (adjf u).Nodup)
    (V0 : List Nat) (r : Nat) (closed0 : ∀ x ∈ V0, ∀ y, Step S x y → y ∈ V0) (hr : r ∉ V0) (hrN : r ∈ nodesOf S)
    (f : Nat) (hf : unvisited S V0 < f) :
    ∃ Vout, ffRun adjf f [r] V0 [] = some (false, Vout) ∧ (∀ x ∈ V0, x ∈ Vout) ∧
      (∀ x ∈ Vout, ∀ y, Step S x y → y ∈ Vout) := by
  cases f with
  | zero => omega
  | succ f =>
    have nofire : ((adjf r).any fun v => decide (v ∈ r :: V0) && (lookupPred [] r != some v)) = false := by
      rw [Bool.eq_false_iff]
      intro hfire
      simp only [List.any_eq_true, Bool.and_eq_true, decide_eq_true_eq] at hfire
      obtain ⟨v, hv, hvV, _⟩ := hfire
      have hs : Step S r v := (hadj r v).mp hv
      rcases List.mem_cons.mp hvV with rfl | hvV
      · exact hac (hasCycle_of_self hs)
      · exact hr (closed0 v hvV r hs.symm)
    have hmemnew : ∀ v, v ∈ (adjf r).filter (fun v => decide (v ∉ r :: V0)) ↔ Step S r v ∧ v ∉ r :: V0 := by
      intro v; simp only [List.mem_filter, decide_eq_true_eq, hadj]
    have hG : Good S V0 r (((adjf r).filter (fun v => decide (v ∉ r :: V0))).reverse ++ []) (r :: V0)
        (((adjf r).filter (fun v => decide (v ∉ r :: V0))).map (fun v => (v, r)) ++ []) := by
      refine ⟨?_, ?_, ?_, ?_, ?_, ?_⟩
      · simp only [List.append_nil]; exact (List.reverse_perm _).symm.nodup ((hnd r).filter _)
      · intro q hq
        simp only [List.append_nil] at hq
        exact ((hmemnew q).mp (List.mem_reverse.mp hq)).2
      · intro q hq
        simp only [List.append_nil] at hq
        have hq' := List.mem_reverse.mp hq
        rw [lookupPred_append_new]
        exact ⟨r, by rw [if_pos hq'], List.mem_cons_self .., hr, ((hmemnew q).mp hq').1⟩
      · intro x hx; exact List.mem_cons_of_mem _ hx
      · intro x hx hx0
        rcases List.mem_cons.mp hx with rfl | hx
        · exact Reach.refl _
        · exact absurd hx hx0
      · intro x hx hx0 y hs
        rcases List.mem_cons.mp hx with rfl | hx
        · by_cases hy : y ∈ x :: V0
          · exact Or.inl hy
          · exact Or.inr (List.mem_append_left _ (List.mem_reverse.mpr ((hmemnew y).mpr ⟨hs, hy⟩)))
        · exact absurd hx hx0
    have hlt := unvisited_cons_lt S V0 r hrN hr
    obtain ⟨Vout, hrun, hsub, hcl⟩ := ffRun_good hac hadj hnd V0 r closed0 f _ _ _ hG (by omega)
    refine ⟨Vout, ?_, fun x hx => hsub x (List.mem_cons_of_mem _ hx), hcl⟩
    simp only [ffRun, hr, if_false, nofire, Bool.false_eq_true]
    exact hrun

theorem ffRoots_acyclic (hac : ¬ HasCycle S) (hadj : ∀ u v, v ∈ adjf u ↔ Step S u v) (hnd : ∀ u, (adjf u).Nodup)
    (fuel : Nat) (hfuel : (nodesOf S).length < fuel) :
    ∀ (rs V : List Nat), (∀ r ∈ rs, r ∈ nodesOf S) → (∀ x ∈ V, ∀ y, Step S x y → y ∈ V) →
    ffRoots adjf fuel rs V = some false := by
  intro rs
  induction rs with
  | nil => intro V _ _; rfl
  | cons r rs ih =>
    intro V hrs hcl
    simp only [ffRoots]
    by_cases hr : r ∈ V
    · simp only [hr, if_true]
      exact ih V (fun x hx => hrs x (List.mem_cons_of_mem _ hx)) hcl
    · simp only [hr, if_false]
      obtain ⟨Vout, hrun, _, hcl'⟩ := ffRun_root hac hadj hnd V r hcl hr (hrs r (List.mem_cons_self ..)) fuel
        (Nat.lt_of_le_of_lt (unvisited_le S V) hfuel)
      rw [hrun]
      exact ih Vout (fun x hx => hrs x (List.mem_cons_of_mem _ hx)) hcl'

/-- on a graph without loop the code's test ends, within its fuel, without firing -/
theorem ffLoop_acyclic (E : List Edge) (h : hasLoop E = false) : ffLoop E = some false := by
  have hac : ¬ HasCycle (simple E) := by
    intro hc
    have := (cyc_iff (simple E)).mpr hc
    unfold hasLoop at h
    rw [h] at this; cases this
  unfold ffLoop
  simp only
  apply ffRoots_acyclic hac (adjf_simple E) (fun u => sorted_nodup (sorted_sortDedup _))
  · omega
  · intro r hr; exact hr
  · intro x hx; cases hx

/-- the code's `pred`-based test and the incremental test agree on "no loop" -/
theorem ffLoop_false_iff (E : List Edge) : ffLoop E = some false ↔ hasLoop E = false :=
  ⟨ffLoop_false_sound E, ffLoop_acyclic E⟩

/-! ## the stack machine always stops within its fuel

Every stacked node is unvisited and was pushed by a visited neighbour, and no node is stacked twice
by the same neighbour. Hence a node that is stacked twice has two different visited neighbours and
the test fires when it is popped; otherwise every pop visits a new node. -/

structure StackInv (S : List Edge) (Qp : List (Nat × Nat)) (V : List Nat) : Prop where
  nd : Qp.Nodup
  ok : ∀ qw ∈ Qp, qw.1 ∉ V ∧ qw.2 ∈ V ∧ Step S qw.2 qw.1

theorem map_pair_nodup {l : List Nat} (h : l.Nodup) (u : Nat) : (l.map (fun v => (v, u))).Nodup := by
  unfold List.Nodup
  rw [List.pairwise_map]
  exact List.Pairwise.imp (fun hne heq => hne (congrArg Prod.fst heq)) h

theorem ffRun_total (hadj : ∀ u v, v ∈ adjf u ↔ Step S u v) (hnd : ∀ u, (adjf u).Nodup) :
    ∀ (f : Nat) (Qp : List (Nat × Nat)) (V : List Nat) (P : List (Nat × Nat)), StackInv S Qp V → unvisited S V < f →
    ∃ b Vout, ffRun adjf f (Qp.map (·.1)) V P = some (b, Vout) := by
  intro f
  induction f with
  | zero => intro Qp V P _ h; omega
  | succ f ih =>
    intro Qp V P hI hfuel
    cases Qp with
    | nil => exact ⟨false, V, by simp [ffRun]⟩
    | cons uw rest =>
      obtain ⟨u, w⟩ := uw
      obtain ⟨huV, hwV, hwu⟩ := hI.ok (u, w) (List.mem_cons_self ..)
      simp only at huV hwV hwu
      have hnd' := List.nodup_cons.mp hI.nd
      simp only [List.map_cons, ffRun, huV, if_false]
      by_cases hfire : ((adjf u).any fun v => decide (v ∈ u :: V) && (lookupPred P u != some v)) = true
      · exact ⟨true, u :: V, by rw [if_pos hfire]⟩
      · rw [if_neg hfire]
        have hnf : ∀ v, Step S u v → v ∈ u :: V → lookupPred P u = some v := by
          intro v hs hv
          have := hfire
          simp only [List.any_eq_true, Bool.and_eq_true, decide_eq_true_eq, bne_iff_ne, ne_eq, not_exists, not_and,
            Decidable.not_not] at this
          exact this v ((hadj u v).mpr hs) hv
        -- u is not stacked a second time
        have hu_rest : ∀ qw ∈ rest, qw.1 ≠ u := by
          rintro ⟨q, w'⟩ hq he
          simp only at he; subst he
          obtain ⟨_, hw'V, hw'u⟩ := hI.ok (q, w') (List.mem_cons_of_mem _ hq)
          simp only at hw'V hw'u
          have e1 := hnf w hwu.symm (List.mem_cons_of_mem _ hwV)
          have e2 := hnf w' hw'u.symm (List.mem_cons_of_mem _ hw'V)
          rw [e1] at e2
          cases e2
          exact hnd'.1 hq
        have hmemnew : ∀ v, v ∈ (adjf u).filter (fun v => decide (v ∉ u :: V)) ↔ Step S u v ∧ v ∉ u :: V := by
          intro v; simp only [List.mem_filter, decide_eq_true_eq, hadj]
        have hI' : StackInv S ((((adjf u).filter (fun v => decide (v ∉ u :: V))).reverse.map (fun v => (v, u))) ++ rest) (u :: V) := by
          refine ⟨?_, ?_⟩
          · rw [List.nodup_append]
            refine ⟨map_pair_nodup ((List.reverse_perm _).symm.nodup ((hnd u).filter _)) u, hnd'.2, ?_⟩
            intro a ha b hb hab
            subst hab
            simp only [List.mem_map] at ha
            obtain ⟨v, _, rfl⟩ := ha
            exact huV (hI.ok _ (List.mem_cons_of_mem _ hb)).2.1
          · intro qw hq
            rcases List.mem_append.mp hq with hq | hq
            · simp only [List.mem_map, List.mem_reverse] at hq
              obtain ⟨v, hv, rfl⟩ := hq
              exact ⟨((hmemnew v).mp hv).2, List.mem_cons_self .., ((hmemnew v).mp hv).1⟩
            · obtain ⟨a, b, c⟩ := hI.ok qw (List.mem_cons_of_mem _ hq)
              refine ⟨?_, List.mem_cons_of_mem _ b, c⟩
              intro h
              rcases List.mem_cons.mp h with e | h
              · exact hu_rest qw hq e
              · exact a h
        have huN : u ∈ nodesOf S := (mem_nodesOf S u).mpr ⟨w, hwu.symm⟩
        have hlt := unvisited_cons_lt S V u huN huV
        obtain ⟨b, Vout, hrun⟩ := ih _ (u :: V) ((((adjf u).filter (fun v => decide (v ∉ u :: V))).map (fun v => (v, u))) ++ P) hI' (by omega)
        refine ⟨b, Vout, ?_⟩
        rw [← hrun]
        congr 1
        simp [List.map_append, List.map_map, Function.comp_def]

theorem ffRun_total_root (hadj : ∀ u v, v ∈ adjf u ↔ Step S u v) (hnd : ∀ u, (adjf u).Nodup)
    (V : List Nat) (r : Nat) (hr : r ∉ V) (hrN : r ∈ nodesOf S) (f : Nat) (hf : unvisited S V < f) :
    ∃ b Vout, ffRun adjf f [r] V [] = some (b, Vout) := by
  cases f with
  | zero => omega
  | succ f =>
    simp only [ffRun, hr, if_false]
    by_cases hfire : ((adjf r).any fun v => decide (v ∈ r :: V) && (lookupPred [] r != some v)) = true
    · exact ⟨true, r :: V, by rw [if_pos hfire]⟩
    · rw [if_neg hfire]
      have hmemnew : ∀ v, v ∈ (adjf r).filter (fun v => decide (v ∉ r :: V)) ↔ Step S r v ∧ v ∉ r :: V := by
        intro v; simp only [List.mem_filter, decide_eq_true_eq, hadj]
      have hI' : StackInv S (((adjf r).filter (fun v => decide (v ∉ r :: V))).reverse.map (fun v => (v, r))) (r :: V) := by
        refine ⟨map_pair_nodup ((List.reverse_perm _).symm.nodup ((hnd r).filter _)) r, ?_⟩
        intro qw hq
        simp only [List.mem_map, List.mem_reverse] at hq
        obtain ⟨v, hv, rfl⟩ := hq
        exact ⟨((hmemnew v).mp hv).2, List.mem_cons_self .., ((hmemnew v).mp hv).1⟩
      have hlt := unvisited_cons_lt S V r hrN hr
      obtain ⟨b, Vout, hrun⟩ := ffRun_total hadj hnd f _ (r :: V) (((adjf r).filter (fun v => decide (v ∉ r :: V))).map (fun v => (v, r)) ++ []) hI' (by omega)
      refine ⟨b, Vout, ?_⟩
      rw [← hrun]
      congr 1
      simp [List.map_map, Function.comp_def]

theorem ffRoots_total (hadj : ∀ u v, v ∈ adjf u ↔ Step S u v) (hnd : ∀ u, (adjf u).Nodup)
    (fuel : Nat) (hfuel : (nodesOf S).length < fuel) :
    ∀ (rs V : List Nat), (∀ r ∈ rs, r ∈ nodesOf S) → ∃ b, ffRoots adjf fuel rs V = some b := by
  intro rs
  induction rs with
  | nil => intro V _; exact ⟨false, rfl⟩
  | cons r rs ih =>
    intro V hrs
    simp only [ffRoots]
    by_cases hr : r ∈ V
    · simp only [hr, if_true]
      exact ih V (fun x hx => hrs x (List.mem_cons_of_mem _ hx))
    · simp only [hr, if_false]
      obtain ⟨b, Vout, hrun⟩ := ffRun_total_root hadj hnd V r hr (hrs r (List.mem_cons_self ..)) fuel
        (Nat.lt_of_le_of_lt (unvisited_le S V) hfuel)
      rw [hrun]
      cases b with
      | true => exact ⟨true, rfl⟩
      | false => exact ih Vout (fun x hx => hrs x (List.mem_cons_of_mem _ hx))

/-- the fuel of `ffLoop` always suffices -/
theorem ffLoop_total (E : List Edge) : ∃ b, ffLoop E = some b := by
  unfold ffLoop
  simp only
  apply ffRoots_total (S := simple E) (adjf_simple E) (fun u => sorted_nodup (sorted_sortDedup _))
  · omega
  · intro r hr; exact hr

/-- the code's `pred`-based loop test, as a stack machine over sets iterated in increasing order,
computes exactly the loop verdict -/
theorem ffLoop_eq (E : List Edge) : ffLoop E = some (hasLoop E) := by
  obtain ⟨b, hb⟩ := ffLoop_total E
  cases b with
  | false => rw [hb, ffLoop_false_sound E hb]
  | true =>
    cases hl : hasLoop E with
    | true => exact hb
    | false => rw [ffLoop_acyclic E hl] at hb; cases hb

/-- the same for **any** order in which the adjacency sets and the signal set are iterated: `adjf u`
may list the neighbours of `u` in any order (without repetition), `rs` may list the nodes in any
order (repetitions and already visited nodes are skipped by the code) -/
theorem ffRoots_eq_any_order (E : List Edge) (adjf : Nat → List Nat) (rs : List Nat) (fuel : Nat)
    (hadj : ∀ u v, v ∈ adjf u ↔ Step (simple E) u v) (hnd : ∀ u, (adjf u).Nodup)
    (hrs : ∀ r, r ∈ rs ↔ r ∈ nodesOf (simple E)) (hfuel : (nodesOf (simple E)).length < fuel) :
    ffRoots adjf fuel rs [] = some (hasLoop E) := by
  obtain ⟨b, hb⟩ := ffRoots_total (S := simple E) hadj hnd fuel hfuel rs [] (fun r hr => (hrs r).mp hr)
  have sound : ffRoots adjf fuel rs [] = some false → hasLoop E = false := by
    intro h
    obtain ⟨V', L', hf, he, _, hall⟩ := ffRoots_false_sound (S := simple E) hadj fuel rs [] []
      (by intro a b; simp [Step]) trivial h
    have hstep : ∀ a b, Step L' a b ↔ Step E a b := by
      intro a b
      rw [he, ← step_simple E a b]
      constructor
      · exact fun h => h.1
      · intro hs
        exact ⟨hs, hall a ((hrs a).mpr ((mem_nodesOf _ a).mpr ⟨b, hs⟩)),
          hall b ((hrs b).mpr ((mem_nodesOf _ b).mpr ⟨a, hs.symm⟩))⟩
    rw [← hasLoop_congr hstep]
    exact hasLoop_false_of_fresh hf
  cases b with
  | false => rw [hb, sound hb]
  | true =>
    cases hl : hasLoop E with
    | true => exact hb
    | false =>
      have hac : ¬ HasCycle (simple E) := by
        intro hc
        have := (cyc_iff (simple E)).mpr hc
        unfold hasLoop at hl
        rw [hl] at this; cases this
      have := ffRoots_acyclic hac hadj hnd fuel hfuel rs [] (fun r hr => (hrs r).mp hr) (by intro x hx; cases hx)
      rw [this] at hb; cases hb

end PV.Nets
