import PymtlVerif.Proofs.PipeRef5
/-!
LEVEL 3, part 6: consequences of the invariant in terms of observables only (register file, proc2mngr
messages on the interface, commit pulses), and an environment that satisfies the assumption for every
program (the assumption is not vacuous).
-/
namespace PV.Pipe
open PV.TinyRV0 (W32 Mem loadWord storeWord rget rset)

/-- proc2mngr messages sent on the interface during a trace -/
def sent : State → List EnvIn → List Nat
  | _, [] => []
  | s, i :: is => (if (out s i).proc2mngr_en then [(out s i).proc2mngr_msg] else []) ++ sent (next s i) is

theorem envRun_out (E : Env) (s : State) (envs : List EnvIn) : (envRun E s envs).out = E.out ++ sent s envs := by
  induction envs generalizing E s with
  | nil => simp [envRun, sent]
  | cons i is ih => simp [envRun, sent, ih, envNext, List.append_assoc]

/-- what an observer of the architectural state sees at each commit: the register file after the edge
and the proc2mngr messages received so far (including the one sent in that cycle) -/
def commitObs : Env → State → List EnvIn → List (List Nat × List Nat)
  | _, _, [] => []
  | E, s, i :: is =>
    (if commit_inst s i then [((next s i).rf, (envNext E i (out s i)).out)] else []) ++
      commitObs (envNext E i (out s i)) (next s i) is

/-- the ISA's register file and output stream after instructions `c+1 .. c+k` -/
def isaObs (p : Prog) (c k : Nat) : List (List Nat × List Nat) :=
  (List.range k).map fun j => ((isaAt p (c + j + 1)).regs, (isaAt p (c + j + 1)).out)

theorem isaObs_succ (p : Prog) (c k : Nat) :
    isaObs p c (k + 1) = ((isaAt p (c + 1)).regs, (isaAt p (c + 1)).out) :: isaObs p (c + 1) k := by
  simp only [isaObs, List.range_succ_eq_map, List.map_cons, List.map_map]
  simp only [Nat.add_zero, List.cons.injEq, true_and]
  apply List.map_congr_left
  intro j _
  simp only [Function.comp]
  rw [show c + (j + 1) + 1 = c + 1 + j + 1 by omega]

theorem commitObs_eq {p : Prog} {N : Nat} (hR : Runs p N) :
    ∀ (envs : List EnvIn) {s : State} {E : Env} {c : Nat}, Inv p N s E c → EnvTrace p E s envs →
      c + commitCount s envs ≤ N → commitObs E s envs = isaObs p c (commitCount s envs)
  | [], _, _, _, _, _, _ => by simp [commitObs, commitCount, isaObs]
  | i :: is, s, E, c, I, hT, hc => by
    obtain ⟨hE, hT'⟩ := hT
    have I' := inv_step hR I hE
    simp only [commitCount] at hc ⊢
    have ih := commitObs_eq hR is I' hT' (by simp only [c']; omega)
    simp only [commitObs, ih]
    rcases Bool.eq_false_or_eq_true (commit_inst s i) with h | h
    · have hc' : c' s i c = c + 1 := by simp [c', h]
      rw [hc'] at I' ⊢
      simp only [h, if_true, Bool.toNat_true, Nat.add_comm 1, isaObs_succ]
      rw [I'.rf (by simp [h] at hc; omega), I'.out (by simp [h] at hc; omega)]
      rfl
    · have hc' : c' s i c = c := by simp [c', h]
      rw [hc']
      simp [h]

/-! ### an environment that meets the assumption, for every program -/

/-- answer everything as early as the protocol allows, always ready -/
def idealIn (p : Prog) (E : Env) (s : State) : EnvIn where
  reset := false
  imem_req_rdy := true
  imem_resp_en := !E.ipend.isEmpty && !s.imemresp_q.full
  imem_resp_data := loadWord p.mem0 (E.ipend.headD 0)
  dmem_req_rdy := true
  dmem_resp_en := !E.dresp.isEmpty && !s.dmemresp_q.full
  dmem_resp_data := (E.dresp.headD none).getD 0
  mngr2proc_en := !E.src.isEmpty && !s.mngr2proc_q.full
  mngr2proc_msg := E.src.headD 0
  proc2mngr_rdy := true
  xcel_req_rdy := true
  xcel_resp_en := false
  xcel_resp_data := 0

def idealTrace (p : Prog) : Nat → Env → State → List EnvIn
  | 0, _, _ => []
  | n + 1, E, s =>
    let i := idealIn p E s
    i :: idealTrace p n (envNext E i (out s i)) (next s i)

theorem ideal_ok (p : Prog) (E : Env) (s : State) : envOk p E (idealIn p E s) (out s (idealIn p E s)) := by
  refine ⟨rfl, ?_, ?_, ?_⟩
  · intro h
    simp only [idealIn, Bool.and_eq_true, Bool.not_eq_true'] at h
    refine ⟨by simp [out, BypQ.enq_rdy, idealIn, h.2], ?_⟩
    cases hp : E.ipend with
    | nil => simp [hp] at h
    | cons a rest => exact ⟨a, rest, rfl, by simp [idealIn, hp]⟩
  · intro h
    simp only [idealIn, Bool.and_eq_true, Bool.not_eq_true'] at h
    refine ⟨by simp [out, BypQ.enq_rdy, idealIn, h.2], ?_⟩
    cases hp : E.dresp with
    | nil => simp [hp] at h
    | cons r rest => exact ⟨r, rest, rfl, by intro v hv; simp [idealIn, hp, hv]⟩
  · intro h
    simp only [idealIn, Bool.and_eq_true, Bool.not_eq_true'] at h
    refine ⟨by simp [out, BypQ.enq_rdy, idealIn, h.2], ?_⟩
    cases hp : E.src with
    | nil => simp [hp] at h
    | cons v rest => exact ⟨v, rest, rfl, by simp [idealIn, hp]⟩

theorem idealTrace_ok (p : Prog) : ∀ (n : Nat) (E : Env) (s : State), EnvTrace p E s (idealTrace p n E s)
  | 0, _, _ => trivial
  | n + 1, E, s => ⟨ideal_ok p E s, idealTrace_ok p n _ _⟩

/-- the state produced by a reset cycle from power-on is a `PostReset` state -/
theorem postReset_of_reset (i : EnvIn) (hr : i.reset = true) : PostReset (next State.init i) := by
  constructor <;> simp [next, hr, State.init, BypQ.next, rf_write, rf_wen_W]

end PV.Pipe
