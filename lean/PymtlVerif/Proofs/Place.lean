import PymtlVerif.Model.Place
/-!
Lemmas about `Model/Place.lean` used by `Props/C09p.lean`.
-/
namespace PV.Place

/-! ## bound names -/

theorem Tgt.mem_names_iff (x : String) (t : Tgt) : x ∈ t.names ↔ t.Binds x := by
  induction t with
  | name y =>
    simp only [Tgt.names, List.mem_singleton]
    constructor
    · intro h; subst h; exact .name
    · intro h; cases h; rfl
  | pair a b iha ihb =>
    simp only [Tgt.names, List.mem_append, iha, ihb]
    constructor
    · rintro (h | h)
      · exact .left h
      · exact .right h
    · intro h
      cases h with
      | left h => exact Or.inl h
      | right h => exact Or.inr h
  | starred t ih =>
    simp only [Tgt.names, ih]
    constructor
    · intro h; exact .starred h
    · intro h; cases h with | starred h => exact h
  | other =>
    simp only [Tgt.names, List.not_mem_nil, false_iff]
    intro h; cases h

theorem Scope.mem_bound_iff (sc : Scope) (x : String) : x ∈ sc.bound ↔ ∃ t ∈ sc.tgts, t.Binds x := by
  simp [Scope.bound, List.mem_flatMap, Tgt.mem_names_iff]

/-! ## index classification -/

theorem classify_bound (sc : Scope) (x : String) (hb : x ∈ sc.bound) (hc : lookup sc.closure x = none) :
    classify sc (.name x) = .star := by
  simp [classify, hc, hb]

theorem classify_sound (sc : Scope) (hwf : sc.WF) (ρ : Rt) (e : IExpr) (n : Nat) (h : classify sc e = .const n) :
    evalIdx sc ρ e = n := by
  cases e with
  | num m => simpa [classify, evalIdx] using h
  | dyn k => simp [classify] at h
  | name x =>
    simp only [classify] at h
    by_cases hb : x ∈ sc.bound
    · have hc := hwf x hb
      simp [hc, hb] at h
    · cases hc : lookup sc.closure x with
      | some v =>
        simp only [hc, SIdx.const.injEq] at h
        simp [evalIdx, hb, hc, h]
      | none =>
        cases hg : lookup sc.globals x with
        | some v =>
          simp [hc, hb, hg] at h
          simp [evalIdx, hb, hc, hg, h]
        | none => simp [hc, hb, hg] at h

/-! ## expansion -/

theorem expand_nil_path (st : List Step) : ∀ o ∈ expand [] st, o.path = [] := by
  intro o ho
  match st, ho with
  | [], ho => simp [expand, RObj.whole0] at ho; simp [ho]
  | .idx .star :: _, ho => simp [expand] at ho; simp [ho]
  | .idx (.const _) :: _, ho => simp [expand] at ho; simp [ho]
  | .slc _ _ :: _, ho => simp [expand] at ho; simp [ho]

theorem expand_nil_ne (st : List Step) : expand [] st ≠ [] := by
  match st with
  | [] => simp [expand]
  | .idx .star :: _ => simp [expand]
  | .idx (.const _) :: _ => simp [expand]
  | .slc _ _ :: _ => simp [expand]

/-- a step applied to a signal: the object is a slice object or part-marked -/
theorem expand_nil_cut (s : Step) (st : List Step) : ∀ o ∈ expand [] (s :: st), o.cut = true := by
  intro o ho
  match s, ho with
  | .idx .star, ho => simp [expand] at ho; simp [ho, RObj.cut]
  | .idx (.const _), ho => simp [expand] at ho; simp [ho, RObj.cut]
  | .slc _ _, ho => simp [expand] at ho; simp [ho, RObj.cut]

/-- the static object set contains the element every run of the statement writes to -/
theorem expand_covers (sc : Scope) (hwf : sc.WF) (ρ : Rt) (tl : List Step) :
    ∀ (dims : List Nat) (subs : List IExpr) (p : List Nat),
      dynPath dims (subs.map (evalIdx sc ρ)) = some p →
      ∃ o ∈ expand dims (subs.map (fun e => .idx (classify sc e)) ++ tl), o.path = p := by
  intro dims
  induction dims with
  | nil =>
    intro subs p h
    simp only [dynPath, Option.some.injEq] at h
    subst h
    have hne := expand_nil_ne (subs.map (fun e => Step.idx (classify sc e)) ++ tl)
    obtain ⟨o, ho⟩ := List.exists_mem_of_ne_nil _ hne
    exact ⟨o, ho, expand_nil_path _ o ho⟩
  | cons d ds ih =>
    intro subs p h
    cases subs with
    | nil => simp [dynPath] at h
    | cons e es =>
      simp only [List.map_cons, dynPath] at h
      by_cases hv : evalIdx sc ρ e < d
      · simp only [hv, if_true, Option.map_eq_some_iff] at h
        obtain ⟨p', hp', rfl⟩ := h
        obtain ⟨o, ho, hop⟩ := ih es p' hp'
        simp only [List.map_cons, List.cons_append]
        cases hc : classify sc e with
        | star =>
          refine ⟨{ o with path := evalIdx sc ρ e :: o.path }, ?_, by simp [hop]⟩
          simp only [expand, List.mem_flatMap, List.mem_range, List.mem_map]
          exact ⟨evalIdx sc ρ e, hv, o, ho, rfl⟩
        | const n =>
          have hn := classify_sound sc hwf ρ e n hc
          refine ⟨{ o with path := n :: o.path }, ?_, by simp [hop, hn]⟩
          have hnd : n < d := hn ▸ hv
          simp only [expand, hnd, if_true, List.mem_map]
          exact ⟨o, ho, rfl⟩
      · simp [hv] at h

/-- more subscripts than list dimensions, or a step after as many: every recorded object is a bit / slice / run-time
selected part of a signal -/
theorem expand_cut (f : IExpr → Step) (hf : ∀ e, ∃ i, f e = .idx i) (tl : List Step) :
    ∀ (dims : List Nat) (subs : List IExpr),
      (dims.length < subs.length ∨ (dims.length ≤ subs.length ∧ tl ≠ [])) →
      ∀ o ∈ expand dims (subs.map f ++ tl), o.cut = true := by
  intro dims
  induction dims with
  | nil =>
    intro subs hlen o ho
    cases subs with
    | nil =>
      have htne : tl ≠ [] := by
        rcases hlen with h | h
        · simp at h
        · exact h.2
      cases tl with
      | nil => exact absurd rfl htne
      | cons s st => exact expand_nil_cut s st o (by simpa using ho)
    | cons e es =>
      simp only [List.map_cons, List.cons_append] at ho
      exact expand_nil_cut _ _ o ho
  | cons d ds ih =>
    intro subs hlen o ho
    cases subs with
    | nil =>
      rcases hlen with h | h
      · simp at h
      · simp at h
    | cons e es =>
      have hlen' : ds.length < es.length ∨ (ds.length ≤ es.length ∧ tl ≠ []) := by
        rcases hlen with h | h
        · left; simpa using h
        · right; exact ⟨by simpa using h.1, h.2⟩
      obtain ⟨i, hi⟩ := hf e
      simp only [List.map_cons, List.cons_append, hi] at ho
      cases i with
      | star =>
        simp only [expand, List.mem_flatMap, List.mem_range, List.mem_map] at ho
        obtain ⟨_, _, o', ho', rfl⟩ := ho
        have := ih es hlen' o' ho'
        simpa [RObj.cut] using this
      | const n =>
        by_cases hn : n < d
        · simp only [expand, hn, if_true, List.mem_map] at ho
          obtain ⟨o', ho', rfl⟩ := ho
          have := ih es hlen' o' ho'
          simpa [RObj.cut] using this
        · simp [expand, hn] at ho

theorem allPaths_whole (ds : List Nat) : ∀ o ∈ (allPaths ds).map RObj.whole0, o.whole = true := by
  intro o ho
  simp only [List.mem_map] at ho
  obtain ⟨_, _, rfl⟩ := ho
  rfl

theorem expand_nosteps_whole (ds : List Nat) : ∀ o ∈ expand ds [], o.whole = true := by
  intro o ho
  cases ds with
  | nil => simp [expand] at ho; subst ho; rfl
  | cons d ds => simp only [expand] at ho; exact allPaths_whole _ o ho

/-- no more subscripts than list dimensions and a further step only on a Python list: every recorded object is a whole signal -/
theorem expand_whole (f : IExpr → Step) (hf : ∀ e, ∃ i, f e = .idx i) (tl : List Step)
    (htl : tl = [] ∨ ∃ s, tl = [s]) :
    ∀ (dims : List Nat) (subs : List IExpr),
      subs.length ≤ dims.length → (tl = [] ∨ subs.length < dims.length) →
      ∀ o ∈ expand dims (subs.map f ++ tl), o.whole = true := by
  intro dims
  induction dims with
  | nil =>
    intro subs hlen htl' o ho
    have hs : subs = [] := by cases subs with | nil => rfl | cons _ _ => simp at hlen
    subst hs
    have ht : tl = [] := by
      rcases htl' with h | h
      · exact h
      · simp at h
    subst ht
    exact expand_nosteps_whole [] o (by simpa using ho)
  | cons d ds ih =>
    intro subs hlen htl' o ho
    cases subs with
    | nil =>
      rcases htl with h | ⟨s, h⟩
      · subst h
        exact expand_nosteps_whole (d :: ds) o (by simpa using ho)
      · subst h
        simp only [List.map_nil, List.nil_append] at ho
        match s, ho with
        | .idx .star, ho =>
          simp only [expand, List.mem_flatMap, List.mem_range, List.mem_map] at ho
          obtain ⟨_, _, o', ho', rfl⟩ := ho
          have := expand_nosteps_whole ds o' ho'
          simpa [RObj.whole] using this
        | .idx (.const n), ho =>
          by_cases hn : n < d
          · simp only [expand, hn, if_true, List.mem_map] at ho
            obtain ⟨o', ho', rfl⟩ := ho
            have := expand_nosteps_whole ds o' ho'
            simpa [RObj.whole] using this
          · simp [expand, hn] at ho
        | .slc lo hi, ho =>
          simp only [expand, List.mem_flatMap, List.mem_map] at ho
          obtain ⟨_, _, _, _, rfl⟩ := ho
          rfl
    | cons e es =>
      have hlen' : es.length ≤ ds.length := by simpa using hlen
      have htl'' : tl = [] ∨ es.length < ds.length := by
        rcases htl' with h | h
        · exact Or.inl h
        · right; simpa using h
      obtain ⟨i, hi⟩ := hf e
      simp only [List.map_cons, List.cons_append, hi] at ho
      cases i with
      | star =>
        simp only [expand, List.mem_flatMap, List.mem_range, List.mem_map] at ho
        obtain ⟨_, _, o', ho', rfl⟩ := ho
        have := ih es hlen' htl'' o' ho'
        simpa [RObj.whole] using this
      | const n =>
        by_cases hn : n < d
        · simp only [expand, hn, if_true, List.mem_map] at ho
          obtain ⟨o', ho', rfl⟩ := ho
          have := ih es hlen' htl'' o' ho'
          simpa [RObj.whole] using this
        · simp [expand, hn] at ho

theorem tailSteps_short (sc : Scope) (tl : Tail) : tailSteps sc tl = [] ∨ ∃ s, tailSteps sc tl = [s] := by
  cases tl <;> simp [tailSteps]

theorem tailSteps_nil_iff (sc : Scope) (tl : Tail) : tailSteps sc tl = [] ↔ tl = .none := by
  cases tl <;> simp [tailSteps]

theorem subSteps_idx (sc : Scope) : ∀ e, ∃ i, (fun e => Step.idx (classify sc e)) e = .idx i := fun _ => ⟨_, rfl⟩

theorem applyField_path (tl : List Step) (o : RObj) : (applyField tl o).path = o.path := by
  unfold applyField
  split
  · rfl
  · split <;> rfl

theorem applyField_not_whole (tl : List Step) (o : RObj) : (applyField tl o).whole = false := by
  obtain ⟨p, f, sl, pt⟩ := o
  unfold applyField
  split
  · next h => cases f <;> cases sl <;> cases pt <;> simp_all [RObj.whole]
  · split <;> simp [RObj.whole]

theorem applyField_cut (tl : List Step) (o : RObj) : (applyField tl o).cut = (o.cut || !tl.isEmpty) := by
  obtain ⟨p, f, sl, pt⟩ := o
  unfold applyField
  split
  · next h => cases sl <;> cases pt <;> simp_all [RObj.cut]
  · next h =>
    split
    · cases sl <;> cases pt <;> simp_all [RObj.cut]
    · simp [RObj.cut]
    · simp [RObj.cut]

end PV.Place
