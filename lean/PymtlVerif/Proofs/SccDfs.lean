import PymtlVerif.Proofs.SccGraph
/-!
Phase 1 of `kosaraju_scc`: the iterative "push all successors, test `visited` on pop, `(u, True)` marker" DFS
computes the post-order of the recursive DFS (`DfsL`, a big-step relation), within the fuel granted by the model.
Facts about the recursive DFS: what it visits, closure under successors, and the *suffix property* of the
post-order (`Gkl`) on which Kosaraju's second phase rests.
-/
namespace PV.Scc

/-- big-step recursive DFS over a list of start vertices: `DfsL G vis us vis' po k` — started with visited set `vis`,
the calls `dfs(u)` for `u` in `us` (in order) end with visited set `vis'`, append `po` to the post-order, and the
iterative loop spends `k` iterations on them -/
inductive DfsL (G : Graph) : List Nat → List Nat → List Nat → List Nat → Nat → Prop
  | nil {vis : List Nat} : DfsL G vis [] vis [] 0
  | skip {vis us vis' po : List Nat} {u k : Nat} : u ∈ vis → DfsL G vis us vis' po k → DfsL G vis (u :: us) vis' po (k + 1)
  | visit {vis us vis1 po1 vis2 po2 : List Nat} {u k1 k2 : Nat} : u ∉ vis →
      DfsL G (u :: vis) (G u) vis1 po1 k1 → DfsL G vis1 us vis2 po2 k2 →
      DfsL G vis (u :: us) vis2 (po1 ++ u :: po2) (k1 + k2 + 2)

namespace DfsL
variable {G : Graph}

/-- the visited set grows by exactly the post-order -/
theorem vis_iff {vis us vis' po : List Nat} {k : Nat} (h : DfsL G vis us vis' po k) :
    ∀ x, x ∈ vis' ↔ x ∈ vis ∨ x ∈ po := by
  induction h with
  | nil => intro x; simp
  | skip _ _ ih => exact ih
  | visit _ _ _ ih1 ih2 =>
    intro x
    rw [ih2, ih1]
    simp only [List.mem_cons, List.mem_append]
    grind

/-- only unvisited vertices enter the post-order, each once -/
theorem fresh {vis us vis' po : List Nat} {k : Nat} (h : DfsL G vis us vis' po k) :
    po.Nodup ∧ ∀ x ∈ po, x ∉ vis := by
  induction h with
  | nil => simp
  | skip _ _ ih => exact ih
  | @visit vis us vis1 po1 vis2 po2 u k1 k2 hu h1 h2 ih1 ih2 =>
    obtain ⟨nd1, f1⟩ := ih1
    obtain ⟨nd2, f2⟩ := ih2
    have hv1 := h1.vis_iff
    refine ⟨?_, ?_⟩
    · rw [List.nodup_append]
      refine ⟨nd1, ?_, ?_⟩
      · rw [List.nodup_cons]
        refine ⟨?_, nd2⟩
        intro hin; exact f2 u hin ((hv1 u).mpr (.inl List.mem_cons_self))
      · intro a ha b hb hab
        subst hab
        rcases List.mem_cons.mp hb with rfl | hb
        · exact f1 a ha List.mem_cons_self
        · exact f2 a hb ((hv1 a).mpr (.inr ha))
    · intro x hx
      rcases List.mem_append.mp hx with hx | hx
      · intro hxv; exact f1 x hx (List.mem_cons_of_mem _ hxv)
      · rcases List.mem_cons.mp hx with rfl | hx
        · exact hu
        · intro hxv; exact f2 x hx ((hv1 x).mpr (.inl (List.mem_cons_of_mem _ hxv)))

/-- on return every start vertex is visited, and every successor of a vertex of the post-order is visited -/
theorem closed {vis us vis' po : List Nat} {k : Nat} (h : DfsL G vis us vis' po k) :
    (∀ u ∈ us, u ∈ vis') ∧ ∀ w ∈ po, ∀ y ∈ G w, y ∈ vis' := by
  induction h with
  | nil => simp
  | @skip vis us vis' po u k hu h ih =>
    refine ⟨?_, ih.2⟩
    intro x hx
    rcases List.mem_cons.mp hx with rfl | hx
    · exact (h.vis_iff x).mpr (.inl hu)
    · exact ih.1 x hx
  | @visit vis us vis1 po1 vis2 po2 u k1 k2 hu h1 h2 ih1 ih2 =>
    have hv1 := h1.vis_iff
    have hv2 := h2.vis_iff
    have up : ∀ x, x ∈ vis1 → x ∈ vis2 := fun x hx => (hv2 x).mpr (.inl hx)
    refine ⟨?_, ?_⟩
    · intro x hx
      rcases List.mem_cons.mp hx with rfl | hx
      · exact up _ ((hv1 x).mpr (.inl List.mem_cons_self))
      · exact ih2.1 x hx
    · intro w hw y hy
      rcases List.mem_append.mp hw with hw | hw
      · exact up _ (ih1.2 w hw y hy)
      · rcases List.mem_cons.mp hw with rfl | hw
        · exact up _ (ih1.1 y hy)
        · exact ih2.2 w hw y hy

/-- every vertex of the post-order is reached from a start vertex by a path of vertices unvisited at the start -/
theorem reached {vis us vis' po : List Nat} {k : Nat} (h : DfsL G vis us vis' po k) :
    ∀ w ∈ po, ∃ u ∈ us, RA G (fun x => x ∉ vis) u w := by
  induction h with
  | nil => simp
  | skip _ _ ih =>
    intro w hw
    obtain ⟨u, hu, hr⟩ := ih w hw
    exact ⟨u, List.mem_cons_of_mem _ hu, hr⟩
  | @visit vis us vis1 po1 vis2 po2 u k1 k2 hu h1 h2 ih1 ih2 =>
    intro w hw
    rcases List.mem_append.mp hw with hw | hw
    · obtain ⟨s, hs, hr⟩ := ih1 w hw
      exact ⟨u, List.mem_cons_self, .head hu hs (hr.mono (fun x hx hxv => hx (List.mem_cons_of_mem _ hxv)))⟩
    · rcases List.mem_cons.mp hw with rfl | hw
      · exact ⟨w, List.mem_cons_self, .refl hu⟩
      · obtain ⟨s, hs, hr⟩ := ih2 w hw
        refine ⟨s, List.mem_cons_of_mem _ hs, hr.mono ?_⟩
        intro x hx hxv
        exact hx ((h1.vis_iff x).mpr (.inl (List.mem_cons_of_mem _ hxv)))

/-- the exact number of loop iterations -/
theorem steps {vis us vis' po : List Nat} {k : Nat} (h : DfsL G vis us vis' po k) :
    k = us.length + po.length + degSum G po := by
  induction h with
  | nil => simp [degSum]
  | skip _ _ ih => simp only [List.length_cons]; omega
  | visit _ _ _ ih1 ih2 =>
    simp only [degSum, List.length_cons, List.length_append, List.map_append, List.map_cons, List.sum_append, List.sum_cons] at *
    omega

/-- the post-order stays inside the vertex set -/
theorem sub {GT : Graph} {V : List Nat} (wf : WF G GT V) {vis us vis' po : List Nat} {k : Nat} (h : DfsL G vis us vis' po k)
    (hus : ∀ u ∈ us, u ∈ V) : ∀ x ∈ po, x ∈ V := by
  intro x hx
  obtain ⟨u, hu, hr⟩ := h.reached x hx
  exact wf.reach_mem hr (hus u hu)

/-- the recursive DFS terminates on every well-formed finite graph -/
theorem exists_run {GT : Graph} {V : List Nat} (wf : WF G GT V) :
    ∀ (n : Nat) (vis : List Nat), unv V vis ≤ n → ∀ us, (∀ u ∈ us, u ∈ V) → ∃ vis' po k, DfsL G vis us vis' po k := by
  intro n
  induction n with
  | zero =>
    intro vis hn us
    induction us with
    | nil => intro _; exact ⟨vis, [], 0, .nil⟩
    | cons u us ih =>
      intro hus
      by_cases hu : u ∈ vis
      · obtain ⟨vis', po, k, h⟩ := ih (fun x hx => hus x (List.mem_cons_of_mem _ hx))
        exact ⟨vis', po, k + 1, .skip hu h⟩
      · have := unv_cons_lt V (hus u List.mem_cons_self) hu
        omega
  | succ n ihn =>
    intro vis hn us
    induction us generalizing vis with
    | nil => intro _; exact ⟨vis, [], 0, .nil⟩
    | cons u us ih =>
      intro hus
      by_cases hu : u ∈ vis
      · obtain ⟨vis', po, k, h⟩ := ih vis hn (fun x hx => hus x (List.mem_cons_of_mem _ hx))
        exact ⟨vis', po, k + 1, .skip hu h⟩
      · have hlt := unv_cons_lt V (hus u List.mem_cons_self) hu
        obtain ⟨vis1, po1, k1, h1⟩ := ihn (u :: vis) (by omega) (G u) (fun x hx => wf.dst u x hx)
        have hmono : unv V vis1 ≤ unv V vis :=
          unv_mono V (fun x hx => (h1.vis_iff x).mpr (.inl (List.mem_cons_of_mem _ hx)))
        obtain ⟨vis2, po2, k2, h2⟩ := ih vis1 (by omega) (fun x hx => hus x (List.mem_cons_of_mem _ hx))
        exact ⟨vis2, po1 ++ u :: po2, k1 + k2 + 2, .visit hu h1 h2⟩

end DfsL

/-! ## the iterative loop simulates the recursive DFS -/

theorem pushAll_eq (vs : List Nat) (st : List (Nat × Bool)) :
    pushAll vs st = vs.reverse.map (fun v => (v, false)) ++ st := by
  unfold pushAll
  induction vs generalizing st with
  | nil => rfl
  | cons v vs ih => simp [List.foldl_cons, ih]

theorem pushAll_reverse (vs : List Nat) (st : List (Nat × Bool)) :
    pushAll vs.reverse st = vs.map (fun v => (v, false)) ++ st := by
  rw [pushAll_eq, List.reverse_reverse]

/-- the loop, started with the entries `(u, False)` for `u` in `us` on top of `rest`, arrives after `k` iterations at
`rest` with the visited set and post-order of the recursive DFS -/
theorem dfs_sim {G : Graph} {vis us vis' po' : List Nat} {k : Nat} (h : DfsL G vis us vis' po' k) :
    ∀ (rest : List (Nat × Bool)) (po : List Nat) (fuel : Nat),
      iter D1.done (step1 G) (fuel + k) ⟨us.map (fun v => (v, false)) ++ rest, vis, po⟩ =
      iter D1.done (step1 G) fuel ⟨rest, vis', po ++ po'⟩ := by
  induction h with
  | nil => intro rest po fuel; simp
  | @skip vis us vis' po' u k hu h ih =>
    intro rest po fuel
    rw [show fuel + (k + 1) = (fuel + k) + 1 from by omega]
    rw [iter_step _ _ _ _ (by simp [D1.done])]
    have : step1 G ⟨(u :: us).map (fun v => (v, false)) ++ rest, vis, po⟩ = ⟨us.map (fun v => (v, false)) ++ rest, vis, po⟩ := by
      simp [step1, hu]
    rw [this]
    exact ih rest po fuel
  | @visit vis us vis1 po1 vis2 po2 u k1 k2 hu h1 h2 ih1 ih2 =>
    intro rest po fuel
    rw [show fuel + (k1 + k2 + 2) = ((fuel + k2 + 1) + k1) + 1 from by omega]
    rw [iter_step _ _ _ _ (by simp [D1.done])]
    have e1 : step1 G ⟨(u :: us).map (fun v => (v, false)) ++ rest, vis, po⟩ =
        ⟨(G u).map (fun v => (v, false)) ++ ((u, true) :: (us.map (fun v => (v, false)) ++ rest)), u :: vis, po⟩ := by
      simp [step1, hu, pushAll_reverse]
    rw [e1, ih1 _ po (fuel + k2 + 1)]
    rw [iter_step _ _ _ _ (by simp [D1.done])]
    have e2 : step1 G ⟨(u, true) :: (us.map (fun v => (v, false)) ++ rest), vis1, po ++ po1⟩ =
        ⟨us.map (fun v => (v, false)) ++ rest, vis1, po ++ po1 ++ [u]⟩ := by
      simp [step1]
    rw [e2, ih2 rest _ fuel]
    simp [List.append_assoc]

/-- `for u in vertices:` with enough fuel per root is the recursive DFS over `vertices` -/
theorem foldl_dfsRoot {G GT : Graph} {V : List Nat} (wf : WF G GT V) (F : Nat) (hF : fuel1 G V ≤ F) :
    ∀ (us vis vis' po' : List Nat) (k : Nat), DfsL G vis us vis' po' k → (∀ u ∈ us, u ∈ V) →
      ∀ po0, us.foldl (dfsRoot G F) (vis, po0) = (vis', po0 ++ po') := by
  intro us
  induction us with
  | nil =>
    intro vis vis' po' k h _ po0
    cases h; simp
  | cons u us ih =>
    intro vis vis' po' k h hus po0
    have hus' : ∀ x ∈ us, x ∈ V := fun x hx => hus x (List.mem_cons_of_mem _ hx)
    cases h with
    | skip hu h =>
      simp only [List.foldl_cons]
      have hroot : dfsRoot G F (vis, po0) u = (vis, po0) := by
        unfold dfsRoot
        have hF1 : F = (F - 1) + 1 := by unfold fuel1 at hF; omega
        rw [hF1, iter_step _ _ _ _ (by simp [D1.done])]
        have : step1 G ⟨[(u, false)], vis, po0⟩ = ⟨[], vis, po0⟩ := by simp [step1, hu]
        rw [this, iter_done_eq _ _ _ _ (by simp [D1.done])]
      rw [hroot]
      exact ih vis vis' po' _ h hus' po0
    | @visit _ _ vis1 po1 _ po2 _ k1 k2 hu h1 h2 =>
      simp only [List.foldl_cons]
      have hone : DfsL G vis [u] vis1 (po1 ++ [u]) (k1 + 0 + 2) := .visit hu h1 .nil
      have hsub := hone.sub wf (by intro x hx; simp at hx; subst hx; exact hus _ List.mem_cons_self)
      have hnd := hone.fresh.1
      have hk := hone.steps
      have hbound := sum_map_le_of_subset (fun v => (G v).length) (po1 ++ [u]) V hnd hsub
      have hkF : k1 + 0 + 2 ≤ F := by
        unfold fuel1 degSum at hF
        unfold degSum at hk
        simp only [List.length_cons, List.length_nil] at hk
        omega
      have hroot : dfsRoot G F (vis, po0) u = (vis1, po0 ++ (po1 ++ [u])) := by
        unfold dfsRoot
        have := dfs_sim hone [] po0 (F - (k1 + 0 + 2))
        rw [show F - (k1 + 0 + 2) + (k1 + 0 + 2) = F from by omega] at this
        simp only [List.map_cons, List.map_nil, List.append_nil] at this
        rw [this, iter_done_eq _ _ _ _ (by simp [D1.done])]
      rw [hroot]
      have := ih vis1 vis' po2 _ h2 hus' (po0 ++ (po1 ++ [u]))
      rw [this]
      simp [List.append_assoc]

/-- **fuel sufficiency and meaning of phase 1**: the model's `phase1` is the recursive DFS from the empty visited set -/
theorem phase1_spec {G GT : Graph} {V : List Nat} (wf : WF G GT V) :
    ∃ vis k, DfsL G [] V vis (postOrder G V) k ∧ phase1 G V = (vis, postOrder G V) := by
  obtain ⟨vis, po, k, h⟩ := DfsL.exists_run wf (unv V []) [] (Nat.le_refl _) V (fun _ hu => hu)
  have := foldl_dfsRoot wf (fuel1 G V) (Nat.le_refl _) V [] vis po k h (fun _ hu => hu) []
  have hp : phase1 G V = (vis, po) := by unfold phase1; simpa using this
  have hpo : postOrder G V = po := by unfold postOrder; rw [hp]
  rw [hpo]
  exact ⟨vis, k, h, hp⟩

/-- more fuel changes nothing -/
theorem phase1_fuel {G GT : Graph} {V : List Nat} (wf : WF G GT V) (F : Nat) (hF : fuel1 G V ≤ F) :
    V.foldl (dfsRoot G F) ([], []) = phase1 G V := by
  obtain ⟨vis, k, h, hp⟩ := phase1_spec wf
  rw [hp]
  simpa using foldl_dfsRoot wf F hF V [] vis _ k h (fun _ hu => hu) []

/-! ## the suffix property of a DFS post-order -/

/-- for every suffix `l2` of the post-order: a vertex of the post-order that reaches (by unvisited vertices) some vertex
of `l2` lies on a common cycle with a vertex of `l2` -/
def Gkl (G : Graph) (vis po : List Nat) : Prop :=
  ∀ l1 l2, po = l1 ++ l2 → ∀ x ∈ po, ∀ v ∈ l2, RA G (fun y => y ∉ vis) x v →
    ∃ a ∈ l2, RA G (fun y => y ∉ vis) a x ∧ RA G (fun y => y ∉ vis) x a

theorem append_snoc_split {α : Type} {l1 l2 p : List α} {u : α} (h : p ++ [u] = l1 ++ l2) (hne : l2 ≠ []) :
    ∃ t, l2 = t ++ [u] ∧ p = l1 ++ t := by
  rcases List.eq_nil_or_concat l2 with h2 | ⟨t, b, h2⟩
  · exact absurd h2 hne
  · subst h2
    rw [List.concat_eq_append, ← List.append_assoc] at h
    have := List.append_inj' h rfl
    obtain ⟨h1, h3⟩ := this
    simp at h3
    subst h3
    exact ⟨t, by simp, h1⟩

theorem gkl_snoc {G : Graph} {vis po1 : List Nat} {u : Nat} (hu : u ∉ vis) (ih : Gkl G (u :: vis) po1)
    (hreach : ∀ w ∈ po1, RA G (fun y => y ∉ vis) u w) : Gkl G vis (po1 ++ [u]) := by
  intro l1 l2 hsplit x hx v hv hr
  have hne : l2 ≠ [] := by intro h; subst h; simp at hv
  obtain ⟨t, rfl, rfl⟩ := append_snoc_split hsplit hne
  have hul2 : u ∈ t ++ [u] := by simp
  rcases List.mem_append.mp hx with hx1 | hx1
  · -- x in po1
    rcases hr.split (fun y => y = u) with havoid | ⟨s, hs, h1, _⟩
    · have hr' : RA G (fun y => y ∉ u :: vis) x v :=
        havoid.mono (fun y hy => by simp only [List.mem_cons, not_or]; exact ⟨hy.2, hy.1⟩)
      have hvu : v ≠ u := by
        have := hr'.right; simp only [List.mem_cons, not_or] at this; exact this.1
      have hvt : v ∈ t := by
        rcases List.mem_append.mp hv with h | h
        · exact h
        · simp at h; exact absurd h hvu
      obtain ⟨a, ha, r1, r2⟩ := ih l1 t rfl x hx1 v hvt hr'
      have weaken : ∀ y, y ∉ u :: vis → y ∉ vis := fun y hy hyv => hy (List.mem_cons_of_mem _ hyv)
      exact ⟨a, List.mem_append_left _ ha, r1.mono weaken, r2.mono weaken⟩
    · have hs' : s = u := hs
      subst hs'
      exact ⟨s, hul2, hreach x hx1, h1⟩
  · simp at hx1; subst hx1
    exact ⟨x, hul2, .refl hu, .refl hu⟩

theorem gkl_append {G : Graph} {vis visa pa pb : List Nat} (iha : Gkl G vis pa) (ihb : Gkl G visa pb)
    (hvisa : ∀ y, y ∈ visa ↔ y ∈ vis ∨ y ∈ pa)
    (hclosed : ∀ w ∈ pa, ∀ y ∈ G w, y ∉ vis → y ∈ pa)
    (hdisj : ∀ w ∈ pb, w ∉ visa) : Gkl G vis (pa ++ pb) := by
  intro l1 l2 hsplit x hx v hv hr
  have weaken : ∀ y, y ∉ visa → y ∉ vis := fun y hy hyv => hy ((hvisa y).mpr (.inl hyv))
  have stay : ∀ s, s ∈ pa → ∀ z, RA G (fun y => y ∉ vis) s z → z ∈ pa := by
    intro s hs z hz
    exact RA.closed (S := fun y => y ∈ pa) (fun a ha b hb hpb => hclosed a ha b hb hpb) hz hs
  have pb_not_pa : ∀ w, w ∈ pb → w ∉ pa := fun w hw hwa => hdisj w hw ((hvisa w).mpr (.inr hwa))
  rcases List.append_eq_append_iff.mp hsplit with ⟨t, hl1, hpb⟩ | ⟨t, hpa, hl2⟩
  · -- l1 = pa ++ t, pb = t ++ l2 : the suffix lies inside pb
    have hvpb : v ∈ pb := by rw [hpb]; exact List.mem_append_right _ hv
    rcases List.mem_append.mp hx with hx | hx
    · exact absurd (stay x hx v hr) (pb_not_pa v hvpb)
    · rcases hr.split (fun y => y ∈ pa) with havoid | ⟨s, hs, _, h2⟩
      · have hr' : RA G (fun y => y ∉ visa) x v :=
          havoid.mono (fun y hy hyv => by rcases (hvisa y).mp hyv with h | h; exact hy.1 h; exact hy.2 h)
        obtain ⟨a, ha, r1, r2⟩ := ihb t l2 hpb x hx v hv hr'
        exact ⟨a, ha, r1.mono weaken, r2.mono weaken⟩
      · exact absurd (stay s hs v h2) (pb_not_pa v hvpb)
  · -- pa = l1 ++ t, l2 = t ++ pb
    rcases List.mem_append.mp hx with hx | hx
    · have hvpa : v ∈ pa := stay x hx v hr
      have hvt : v ∈ t := by
        rw [hl2] at hv
        rcases List.mem_append.mp hv with h | h
        · exact h
        · exact absurd hvpa (pb_not_pa v h)
      obtain ⟨a, ha, r1, r2⟩ := iha l1 t hpa x hx v hvt hr
      exact ⟨a, by rw [hl2]; exact List.mem_append_left _ ha, r1, r2⟩
    · have hxl2 : x ∈ l2 := by rw [hl2]; exact List.mem_append_right _ hx
      rcases hr.split (fun y => y ∈ pa) with havoid | ⟨s, hs, _, h2⟩
      · have hr' : RA G (fun y => y ∉ visa) x v :=
          havoid.mono (fun y hy hyv => by rcases (hvisa y).mp hyv with h | h; exact hy.1 h; exact hy.2 h)
        have hvpb : v ∈ pb := by
          rw [hl2] at hv
          rcases List.mem_append.mp hv with h | h
          · have : v ∈ pa := by rw [hpa]; exact List.mem_append_right _ h
            exact absurd ((hvisa v).mpr (.inr this)) hr'.right
          · exact h
        obtain ⟨a, ha, r1, r2⟩ := ihb [] pb rfl x hx v hvpb hr'
        exact ⟨a, by rw [hl2]; exact List.mem_append_right _ ha, r1.mono weaken, r2.mono weaken⟩
      · have hx' : x ∉ vis := hr.left
        exact ⟨x, hxl2, .refl hx', .refl hx'⟩

theorem DfsL.gkl {G : Graph} {vis us vis' po : List Nat} {k : Nat} (h : DfsL G vis us vis' po k) : Gkl G vis po := by
  induction h with
  | nil => intro l1 l2 _ x hx; simp at hx
  | skip _ _ ih => exact ih
  | @visit vis us vis1 po1 vis2 po2 u k1 k2 hu h1 h2 ih1 ih2 =>
    have hone : DfsL G vis [u] vis1 (po1 ++ [u]) (k1 + 0 + 2) := .visit hu h1 .nil
    have hsn : Gkl G vis (po1 ++ [u]) := by
      apply gkl_snoc hu ih1
      intro w hw
      obtain ⟨s, hs, hr⟩ := h1.reached w hw
      exact .head hu hs (hr.mono (fun y hy hyv => hy (List.mem_cons_of_mem _ hyv)))
    have := gkl_append (pa := po1 ++ [u]) (pb := po2) hsn ih2 hone.vis_iff
      (by
        intro w hw y hy hyv
        have := hone.closed.2 w hw y hy
        rcases (hone.vis_iff y).mp this with h | h
        · exact absurd h hyv
        · exact h)
      h2.fresh.2
    simpa [List.append_assoc] using this

end PV.Scc
