import PymtlVerif.Model.Kahn
namespace PV.Kahn
variable {α : Type} [DecidableEq α]

/-- invariant of the accumulated (reversed) output: no duplicates, and every emitted vertex had all its
    predecessors emitted strictly earlier -/
def Good (E : List (α × α)) : List α → Prop
  | [] => True
  | v :: done => v ∉ done ∧ (∀ e ∈ E, e.2 = v → e.1 ∈ done) ∧ Good E done

theorem mem_ready {V : List α} {E : List (α × α)} {done : List α} {v : α} (h : v ∈ ready V E done) :
    v ∈ V ∧ v ∉ done ∧ ∀ e ∈ E, e.2 = v → e.1 ∈ done := by
  unfold ready at h
  obtain ⟨hv, hp⟩ := List.mem_filter.mp h
  simp only [Bool.and_eq_true, decide_eq_true_eq, List.all_eq_true] at hp
  exact ⟨hv, hp.1, fun e he => hp.2 e he⟩

theorem kahn_good (pick : List α → Nat) (V : List α) (E : List (α × α)) :
    ∀ (fuel : Nat) (done : List α), Good E done → ∃ out, kahn pick V E fuel done = out.reverse ∧ Good E out := by
  intro fuel
  induction fuel with
  | zero => intro done h; exact ⟨done, rfl, h⟩
  | succ fuel ih =>
    intro done h
    unfold kahn
    split
    · exact ⟨done, rfl, h⟩
    · next r rs hr =>
      apply ih
      have hm : (r :: rs)[pick (r :: rs) % (r :: rs).length]'(Nat.mod_lt _ (by simp)) ∈ ready V E done := by
        rw [hr]; exact List.getElem_mem _
      obtain ⟨_, hnd, hp⟩ := mem_ready hm
      exact ⟨hnd, hp, h⟩

/-- in a Good list, the source of every edge into an element occurs *after* it (the list is reversed output) -/
theorem good_order (E : List (α × α)) : ∀ (out : List α), Good E out →
    ∀ e ∈ E, e.2 ∈ out → ∃ pre post, out = pre ++ e.2 :: post ∧ e.1 ∈ post := by
  intro out
  induction out with
  | nil => intro _ e _ h; simp at h
  | cons v out ih =>
    intro hg e he hin
    obtain ⟨hnd, hp, hg'⟩ := hg
    by_cases hv : e.2 = v
    · exact ⟨[], out, by simp [hv], hp e he hv⟩
    · have : e.2 ∈ out := by
        rcases List.mem_cons.mp hin with h | h
        · exact absurd h hv
        · exact h
      obtain ⟨pre, post, hpp, hmem⟩ := ih hg' e he this
      exact ⟨v :: pre, post, by simp [hpp], hmem⟩

omit [DecidableEq α] in
theorem good_nodup (E : List (α × α)) : ∀ (out : List α), Good E out → out.Nodup := by
  intro out
  induction out with
  | nil => intro _; exact List.nodup_nil
  | cons v out ih => intro h; exact List.nodup_cons.mpr ⟨h.1, ih h.2.2⟩

/-- headline: whatever the tie-break, the schedule has no duplicates and respects every edge whose
    target was scheduled -/
theorem kahn_sound (pick : List α → Nat) (V : List α) (E : List (α × α)) (fuel : Nat) :
    (kahn pick V E fuel []).Nodup ∧
    ∀ e ∈ E, e.2 ∈ kahn pick V E fuel [] →
      ∃ pre post, kahn pick V E fuel [] = pre ++ e.1 :: post ∧ e.2 ∈ post := by
  obtain ⟨out, hout, hg⟩ := kahn_good pick V E fuel [] trivial
  rw [hout]
  refine ⟨?_, ?_⟩
  · have hn := good_nodup E out hg
    unfold List.Nodup at *
    exact List.pairwise_reverse.mpr (hn.imp (fun h => Ne.symm h))
  · intro e he hin
    have hin' : e.2 ∈ out := List.mem_reverse.mp hin
    obtain ⟨pre, post, hpp, hmem⟩ := good_order E out hg e he hin'
    -- out = pre ++ e.2 :: post with e.1 ∈ post ; reverse: post.reverse ++ e.2 :: pre.reverse
    obtain ⟨p1, p2, hp12⟩ := List.append_of_mem hmem
    refine ⟨p2.reverse, p1.reverse ++ e.2 :: pre.reverse, ?_, by simp⟩
    rw [hpp, hp12]
    simp [List.reverse_append]

end PV.Kahn

namespace PV.Kahn
variable {α : Type} [DecidableEq α]

omit [DecidableEq α] in
theorem good_nodup' (E : List (α × α)) (out : List α) (h : Good E out) : out.Nodup := by
  induction out with
  | nil => exact List.nodup_nil
  | cons v out ih => exact List.nodup_cons.mpr ⟨h.1, ih h.2.2⟩

theorem not_ready {V : List α} {E : List (α × α)} {done : List α} {v : α}
    (hv : v ∈ V) (hnd : v ∉ done) (hnr : v ∉ ready V E done) : ∃ e ∈ E, e.2 = v ∧ e.1 ∉ done := by
  unfold ready at hnr
  have : ¬ ((decide (v ∉ done) && E.all (fun e => decide (e.2 = v → e.1 ∈ done))) = true) := by
    intro h; exact hnr (List.mem_filter.mpr ⟨hv, h⟩)
  simp only [Bool.and_eq_true, decide_eq_true_eq, List.all_eq_true, not_and] at this
  have h2 := this hnd
  simp only [Classical.not_forall] at h2
  obtain ⟨e, he, hx⟩ := h2
  obtain ⟨h3, h4⟩ := hx
  exact ⟨e, he, h3, h4⟩

/-- when Kahn's loop stops (for lack of ready vertices or of fuel = |V|), every vertex it did not emit has
a predecessor it did not emit: the leftovers are closed under predecessors, i.e. they contain a cycle.
This is exactly the situation in which `check_schedule` raises UpblkCyclicError; conversely, if no such
closed set exists (the graph is acyclic) every vertex is emitted. -/
theorem kahn_leftover (pick : List α → Nat) (V : List α) (E : List (α × α)) :
    ∀ (fuel : Nat) (done : List α), Good E done → (∀ x ∈ done, x ∈ V) → V.length ≤ fuel + done.length →
      ∀ v ∈ V, v ∉ kahn pick V E fuel done → ∃ e ∈ E, e.2 = v ∧ e.1 ∉ kahn pick V E fuel done := by
  intro fuel
  induction fuel with
  | zero =>
    intro done hg hsub hlen v hv hnot
    exfalso
    simp only [kahn, List.mem_reverse] at hnot
    have hnd : (v :: done).Nodup := List.nodup_cons.mpr ⟨hnot, good_nodup' E done hg⟩
    have hss : (v :: done) ⊆ V := by
      intro x hx
      rcases List.mem_cons.mp hx with rfl | hx
      · exact hv
      · exact hsub x hx
    have := List.Nodup.length_le_of_subset hnd hss
    simp at this; omega
  | succ fuel ih =>
    intro done hg hsub hlen v hv hnot
    unfold kahn at hnot ⊢
    split at hnot
    · next hr =>
      simp only [List.mem_reverse] at hnot
      have hnr : v ∉ ready V E done := by rw [hr]; simp
      obtain ⟨e, he, h1, h2⟩ := not_ready hv hnot hnr
      exact ⟨e, he, h1, by simpa using h2⟩
    · next r rs hr =>
      have hm : (r :: rs)[pick (r :: rs) % (r :: rs).length]'(Nat.mod_lt _ (by simp)) ∈ ready V E done := by
        rw [hr]; exact List.getElem_mem _
      obtain ⟨hinV, hnd, hp⟩ := mem_ready hm
      have := ih (((r :: rs)[pick (r :: rs) % (r :: rs).length]'(Nat.mod_lt _ (by simp))) :: done)
        ⟨hnd, hp, hg⟩
        (by intro x hx; rcases List.mem_cons.mp hx with rfl | hx; exact hinV; exact hsub x hx)
        (by simp; omega) v hv hnot
      exact this

end PV.Kahn
