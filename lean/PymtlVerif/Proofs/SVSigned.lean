import PymtlVerif.Proofs.SVStmt
/-
C12: the signedness of the Yosys backend's loop variables (`integer __loopvar__<blk>_<i>`, every use rendered
`N'(__loopvar__<blk>_<i>)`).  Concrete witnesses for `Props/C12.lean`: `i < j` and `i % j` for two loop variables
of three bits are well typed, PyMTL evaluates them as unsigned numbers, the emitted text compares / divides
two's-complement numbers (IEEE 1800-2017 §6.24.1, §11.8.1).  Core Lean only.
-/
namespace PV.SVProofs
open PV.SV PV.VTr

/-- the two loop variables of block `up` as the two backends declare them -/
def sgΓ : Env := fun x =>
  if x = "__loopvar__up_i" ∨ x = "__loopvar__up_j" ∨ x = "i" ∨ x = "j" then some ⟨.vec 32, []⟩
  else if x = "o" then some ⟨.vec 3, []⟩ else none

/-- `i`, `j` hold the given values (under both spellings of their names) -/
def sgσ (i j : Nat) : Store :=
  (((Store.empty.set ("__loopvar__up_i", 0) i).set ("__loopvar__up_j", 0) j).set ("i", 0) i).set ("j", 0) j

def lvI : RExpr := .loopvar "up" "i" 3
def lvJ : RExpr := .loopvar "up" "j" 3

/-- `i < j` for `i, j in range(8)` -/
def exLt : RExpr := .cmp .lt lvI lvJ
/-- `i % j` -/
def exMod : RExpr := .bin .mod lvI lvJ
/-- `i + j`, `i == j`, `( i + j ) < s.x`-like shapes stay correct -/
def exAdd : RExpr := .bin .add lvI lvJ
def exEq : RExpr := .cmp .eq lvI lvJ
def exLtLit : RExpr := .cmp .lt lvI (.num 3 5)

theorem lv_wt (be : Backend) (x : String) (hx : x = "i" ∨ x = "j") : WT be sgΓ [] (.loopvar "up" x 3) := by
  refine .loopvar ?_ (by decide) (by decide)
  rcases hx with rfl | rfl <;> cases be <;> simp [loopVarName, sgΓ]

theorem exLt_wt (be : Backend) : WT be sgΓ [] exLt := .cmp (lv_wt be _ (.inl rfl)) (lv_wt be _ (.inr rfl)) rfl
theorem exMod_wt (be : Backend) : WT be sgΓ [] exMod :=
  .arith (lv_wt be _ (.inl rfl)) (lv_wt be _ (.inr rfl)) rfl (by decide)
theorem exAdd_wt (be : Backend) : WT be sgΓ [] exAdd :=
  .arith (lv_wt be _ (.inl rfl)) (lv_wt be _ (.inr rfl)) rfl (by decide)
theorem exEq_wt (be : Backend) : WT be sgΓ [] exEq := .cmp (lv_wt be _ (.inl rfl)) (lv_wt be _ (.inr rfl)) rfl
theorem exLtLit_wt (be : Backend) : WT be sgΓ [] exLtLit :=
  .cmp (lv_wt be _ (.inl rfl)) (.num (by decide) (by decide)) rfl

theorem exLt_notSafe : signSafe .yosys exLt = false := by
  simp [exLt, lvI, lvJ, signSafe, sgnOf, tr, signedOf, RCmp.ordering]
theorem exMod_notSafe : signSafe .yosys exMod = false := by
  simp [exMod, lvI, lvJ, signSafe, sgnOf, tr, signedOf]
theorem exAdd_safe : signSafe .yosys exAdd = true := by
  simp [exAdd, lvI, lvJ, signSafe, sgnOf, tr, signedOf]
theorem exEq_safe : signSafe .yosys exEq = true := by
  simp [exEq, lvI, lvJ, signSafe, sgnOf, tr, signedOf, RCmp.ordering]
theorem exLtLit_safe : signSafe .yosys exLtLit = true := by
  simp [exLtLit, lvI, signSafe, sgnOf, tr, signedOf, RCmp.ordering]

/-- PyMTL: `1 < 5` -/
theorem exLt_py (be : Backend) : evalPy be sgΓ (sgσ 1 5) exLt = some 1 := by
  cases be <;> simp [exLt, lvI, lvJ, evalPy, loopVarName, sgσ, Store.get, Store.set, Store.getL, Store.setL,
    Store.empty, pyCmp, b2n]

/-- the text of the Yosys backend: `3'(i) < 3'(j)` is the signed comparison `1 < -3` -/
theorem exLt_yosys (cb : Bool) : eval cb sgΓ (sgσ 1 5) exLt.width (tr .yosys exLt) = 0 := by
  cases cb <;> simp [exLt, lvI, lvJ, RExpr.width, tr, trCmp, eval, evalC, signedOf, selfWidth, loopVarName, loc, sgΓ,
    sgσ, readLoc, Store.get, Store.set, Store.getL, Store.setL, Store.empty, binVal, toInt, isNeg, ext, PTy.width, b2n]

/-- the text of the SystemVerilog backend (`int unsigned i`): unsigned, as PyMTL -/
theorem exLt_verilog (cb : Bool) : eval cb sgΓ (sgσ 1 5) exLt.width (tr .verilog exLt) = 1 := by
  cases cb <;> simp [exLt, lvI, lvJ, RExpr.width, tr, trCmp, eval, evalC, signedOf, selfWidth, loopVarName, loc, sgΓ,
    sgσ, readLoc, Store.get, Store.set, Store.getL, Store.setL, Store.empty, binVal, ext, PTy.width, b2n]

/-- PyMTL: `5 % 3 = 2` -/
theorem exMod_py (be : Backend) : evalPy be sgΓ (sgσ 5 3) exMod = some 2 := by
  cases be <;> simp [exMod, lvI, lvJ, evalPy, loopVarName, sgσ, Store.get, Store.set, Store.getL, Store.setL,
    Store.empty, pyBin]

/-- the text of the Yosys backend: `3'(i) % 3'(j)` is the signed remainder `-3 % 3 = 0` -/
theorem exMod_yosys (cb : Bool) : eval cb sgΓ (sgσ 5 3) exMod.width (tr .yosys exMod) = 0 := by
  cases cb <;> simp [exMod, lvI, lvJ, RExpr.width, tr, trBin, eval, evalC, signedOf, selfWidth, loopVarName, loc, sgΓ,
    sgσ, readLoc, Store.get, Store.set, Store.getL, Store.setL, Store.empty, binVal, toInt, ofInt, isNeg, ext, PTy.width]

/-- `s.o @= i + j` -/
def exAsg : RStmt := .assign true (.sig "o" 3) exAdd

theorem exAsg_wt (be : Backend) : WTs be sgΓ [] exAsg :=
  .assign (ty := .vec 3) (.rsig (by simp [sgΓ])) (exAdd_wt be) rfl (by simp)

theorem exAsg_safe : signSafeS .yosys exAsg = true := by
  simp [exAsg, signSafeS, signSafe, exAdd_safe]

theorem sg_holdsC (i j : Nat) : HoldsC (sgσ i j) [] := by intro x v h; simp at h

end PV.SVProofs
