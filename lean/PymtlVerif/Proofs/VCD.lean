import PymtlVerif.Model.VCD
/-!
Lemmas for C16 (`Props/C16.lean`): `to_vcd_str` parses back and is injective, the symbol generator is
injective, and the invariant that ties the reader's state to `last_values` through a dump.
-/
namespace PV.VCD
open PV.Bits

/-! ### `to_vcd_str` -/

theorem length_binDigits (w v : Nat) : (binDigits w v).length = w := by
  induction w generalizing v with
  | zero => rfl
  | succ w ih => simp [binDigits, ih]

theorem parseBinAux_append (acc : Nat) (xs ys : List Char) :
    parseBinAux acc (xs ++ ys) = (parseBinAux acc xs).bind (fun a => parseBinAux a ys) := by
  induction xs generalizing acc with
  | nil => rfl
  | cons c cs ih =>
    simp only [List.cons_append, parseBinAux]
    split
    · exact ih _
    · split
      · exact ih _
      · rfl

theorem parseBinAux_binDigits (w v acc : Nat) :
    parseBinAux acc (binDigits w v) = some (acc * 2 ^ w + v % 2 ^ w) := by
  induction w generalizing v acc with
  | zero => simp [binDigits, parseBinAux, Nat.mod_one]
  | succ w ih =>
    rw [binDigits, parseBinAux_append, ih]
    have hm : v % 2 ^ (w + 1) = v % 2 + 2 * (v / 2 % 2 ^ w) := by
      rw [Nat.pow_succ', Nat.mod_mul]
    have hp : 2 ^ (w + 1) = 2 * 2 ^ w := Nat.pow_succ'
    rcases Nat.mod_two_eq_zero_or_one v with h | h
    · simp [h, parseBinAux]
      rw [hm, hp, h, Nat.mul_add, ← Nat.mul_assoc, Nat.mul_comm 2 acc, Nat.mul_assoc]; omega
    · simp [h, parseBinAux]
      rw [hm, hp, h, Nat.mul_add, ← Nat.mul_assoc, Nat.mul_comm 2 acc, Nat.mul_assoc]; omega

theorem str_toList (w v : Nat) :
    (str w v).toList = if w = 1 then [if v % 2 = 1 then '1' else '0'] else 'b' :: binDigits w v ++ [' '] := by
  unfold str toVcdStr
  by_cases h : w = 1
  · simp [h]; split <;> rfl
  · simp [h]

theorem parse_str (w v : Nat) : parseVcdStr w (str w v) = some (v % 2 ^ w) := by
  by_cases h : w = 1
  · subst h
    unfold parseVcdStr str toVcdStr
    rcases Nat.mod_two_eq_zero_or_one v with h | h <;> simp [h]
  · unfold parseVcdStr
    rw [str_toList]
    simp [h, length_binDigits, parseBinAux_binDigits]

theorem str_inj (w v w' v' : Nat) (h : str w v = str w' v') : w = w' ∧ v % 2 ^ w = v' % 2 ^ w' := by
  have hl := congrArg (fun s => s.toList.length) h
  simp only [str_toList] at hl
  have hw : w = w' := by
    by_cases h1 : w = 1 <;> by_cases h2 : w' = 1
    · omega
    · have := congrArg String.toList h
      rw [str_toList, str_toList] at this
      simp [h1, h2] at this
    · have := congrArg String.toList h
      rw [str_toList, str_toList] at this
      simp [h1, h2] at this
    · simp [h1, h2, length_binDigits] at hl; exact hl
  subst hw
  refine ⟨rfl, ?_⟩
  have := congrArg (parseVcdStr w) h
  rw [parse_str, parse_str] at this
  exact Option.some.inj this


theorem parse_wav (w v : Nat) : parseWav w (wavStr w v) = some (v % 2 ^ w) := by
  unfold parseWav wavStr
  simp [length_binDigits, parseBinAux_binDigits]

/-! ### symbols -/

def digVal : List Nat → Nat
  | [] => 0
  | d :: r => d * 94 ^ r.length + digVal r

theorem symLoop_val (f q : Nat) (code : List Nat) (h : q ≤ f) :
    digVal (symLoop f q code) = q * 94 ^ code.length + digVal code := by
  induction f generalizing q code with
  | zero => have : q = 0 := by omega
            subst this; simp [symLoop]
  | succ f ih =>
    unfold symLoop
    by_cases hq : q = 0
    · subst hq; simp
    · simp only [hq, if_false]
      rw [ih _ _ (by omega)]
      simp only [digVal, List.length_cons, Nat.pow_succ]
      have := Nat.div_add_mod q 94
      generalize 94 ^ code.length = P
      calc q / 94 * (P * 94) + (q % 94 * P + digVal code)
          = (94 * (q / 94) + q % 94) * P + digVal code := by
            rw [Nat.add_mul, Nat.mul_comm P 94, ← Nat.mul_assoc, Nat.mul_comm (q/94) 94]; omega
        _ = q * P + digVal code := by rw [this]

theorem symLoop_lt (f q : Nat) (code : List Nat) (h : ∀ d ∈ code, d < 94) :
    ∀ d ∈ symLoop f q code, d < 94 := by
  induction f generalizing q code with
  | zero => simpa [symLoop] using h
  | succ f ih =>
    unfold symLoop
    by_cases hq : q = 0
    · simpa [hq] using h
    · simp only [hq, if_false]
      apply ih
      intro d hd
      rcases List.mem_cons.mp hd with rfl | hd
      · exact Nat.mod_lt _ (by decide)
      · exact h d hd

theorem symDigits_val (n : Nat) : digVal (symDigits n) = n := by
  unfold symDigits
  rw [symLoop_val _ _ _ (Nat.div_le_self n 94)]
  simp [digVal]; have := Nat.div_add_mod n 94; omega

theorem symDigits_lt (n : Nat) : ∀ d ∈ symDigits n, d < 94 := by
  unfold symDigits
  apply symLoop_lt
  intro d hd; simp at hd; subst hd; exact Nat.mod_lt _ (by decide)

theorem symChar_toNat : ∀ d : Fin 94, (symChar d.val).toNat = 33 + d.val := by decide

theorem symbol_inj (a b : Nat) (h : symbol a = symbol b) : a = b := by
  unfold symbol at h
  have h1 := congrArg String.toList h
  simp only [String.toList_ofList] at h1
  have h2 := congrArg (List.map (fun c : Char => c.toNat - 33)) h1
  simp only [List.map_map] at h2
  have key : ∀ n, List.map ((fun c : Char => c.toNat - 33) ∘ symChar) (symDigits n) = symDigits n := by
    intro n
    conv => rhs; rw [← List.map_id (symDigits n)]
    apply List.map_congr_left
    intro d hd
    have := symChar_toNat ⟨d, symDigits_lt n d hd⟩
    simp only [Function.comp, id] ; simp at this; omega
  rw [key, key] at h2
  have := congrArg digVal h2
  rwa [symDigits_val, symDigits_val] at this

/-! ### reader state vs `last_values` -/


/-- apply value lines to a reader state -/
def push (st : St) : List Ev → St
  | [] => st
  | .chg v s :: es => push ((s, v) :: st) es
  | .time _ :: es => push st es

def AllChg (evs : List Ev) : Prop := ∀ e ∈ evs, ∃ v s, e = Ev.chg v s

theorem stateAt_append_chg (T : Nat) (st : St) (evs rest : List Ev) (h : AllChg evs) :
    stateAt T st (evs ++ rest) = stateAt T (push st evs) rest := by
  induction evs generalizing st with
  | nil => rfl
  | cons e es ih =>
    obtain ⟨v, s, rfl⟩ := h e (by simp)
    simp only [List.cons_append, stateAt, push]
    exact ih _ (fun e he => h e (by simp [he]))

/-- the symbols written by the lines `evs` -/
def symsOf : List Ev → List String
  | [] => []
  | .chg _ s :: es => s :: symsOf es
  | .time _ :: es => symsOf es

theorem get_push_other (st : St) (evs : List Ev) (k : String) (h : k ∉ symsOf evs) :
    (push st evs).get k = st.get k := by
  induction evs generalizing st with
  | nil => rfl
  | cons e es ih =>
    cases e with
    | time t => simp only [push]; exact ih _ (by simpa [symsOf] using h)
    | chg v s =>
      simp only [push]
      simp only [symsOf, List.mem_cons, not_or] at h
      rw [ih _ h.2]
      simp [St.get, Ne.symm h.1]

theorem stepNets_allChg (ds : List (Nat × Nat)) (vs : List Nat) (ls : List String) :
    AllChg (stepNets ds vs ls).1 := by
  induction ds generalizing vs ls with
  | nil => intro e he; simp [stepNets] at he
  | cons p ds ih =>
    obtain ⟨w, j⟩ := p
    cases vs with
    | nil => intro e he; simp [stepNets] at he
    | cons v vs =>
      cases ls with
      | nil => intro e he; simp [stepNets] at he
      | cons l ls =>
        intro e he
        simp only [stepNets] at he
        split at he
        · rcases List.mem_cons.mp he with rfl | he
          · exact ⟨_, _, rfl⟩
          · exact ih vs ls e he
        · exact ih vs ls e he

theorem stepNets_syms (ds : List (Nat × Nat)) (vs : List Nat) (ls : List String) :
    ∀ s ∈ symsOf (stepNets ds vs ls).1, ∃ p ∈ ds, s = symbol p.2 := by
  induction ds generalizing vs ls with
  | nil => intro e he; simp [stepNets, symsOf] at he
  | cons p ds ih =>
    obtain ⟨w, j⟩ := p
    cases vs with
    | nil => intro e he; simp [stepNets, symsOf] at he
    | cons v vs =>
      cases ls with
      | nil => intro e he; simp [stepNets, symsOf] at he
      | cons l ls =>
        intro s hs
        simp only [stepNets] at hs
        split at hs
        · simp only [symsOf] at hs
          rcases List.mem_cons.mp hs with rfl | hs
          · exact ⟨(w, j), by simp, rfl⟩
          · obtain ⟨p, hp, e⟩ := ih vs ls s hs
            exact ⟨p, by simp [hp], e⟩
        · obtain ⟨p, hp, e⟩ := ih vs ls s hs
          exact ⟨p, by simp [hp], e⟩

/-- weak invariant between reader state and `last_values`: whenever `last_values[i]` could be a value
    string of net i, the file so far says the same about net i -/
def Inv (st : St) : List (Nat × Nat) → List String → Prop
  | (w, j) :: ds, l :: ls => (∀ v, l = str w v → st.get (symbol j) = some l) ∧ Inv st ds ls
  | [], _ => True
  | _ :: _, [] => False

/-- reader state and `last_values` both hold exactly the values `vs` -/
def Holds (st : St) : List (Nat × Nat) → List Nat → List String → Prop
  | (w, j) :: ds, v :: vs, l :: ls => st.get (symbol j) = some (str w v) ∧ l = str w v ∧ Holds st ds vs ls
  | [], [], _ => True
  | _, _, _ => False

theorem Holds.inv {st ds vs ls} (h : Holds st ds vs ls) : Inv st ds ls := by
  induction ds generalizing vs ls with
  | nil => simp [Inv]
  | cons p ds ih =>
    obtain ⟨w, j⟩ := p
    cases vs with
    | nil => simp [Holds] at h
    | cons v vs =>
      cases ls with
      | nil => simp [Holds] at h
      | cons l ls =>
        obtain ⟨h1, h2, h3⟩ := h
        exact ⟨fun _ _ => by rw [h1, h2], ih h3⟩

theorem Inv.frame {st st' : St} {ds ls} (h : Inv st ds ls)
    (hf : ∀ p ∈ ds, st'.get (symbol p.2) = st.get (symbol p.2)) : Inv st' ds ls := by
  induction ds generalizing ls with
  | nil => simp [Inv]
  | cons p ds ih =>
    obtain ⟨w, j⟩ := p
    cases ls with
    | nil => simp [Inv] at h
    | cons l ls =>
      obtain ⟨h1, h2⟩ := h
      refine ⟨fun v hv => ?_, ih h2 (fun p hp => hf p (by simp [hp]))⟩
      rw [hf (w, j) (by simp)]; exact h1 v hv

theorem Holds.frame {st st' : St} {ds vs ls} (h : Holds st ds vs ls)
    (hf : ∀ p ∈ ds, st'.get (symbol p.2) = st.get (symbol p.2)) : Holds st' ds vs ls := by
  induction ds generalizing vs ls with
  | nil => cases vs <;> simp_all [Holds]
  | cons p ds ih =>
    obtain ⟨w, j⟩ := p
    cases vs with
    | nil => simp [Holds] at h
    | cons v vs =>
      cases ls with
      | nil => simp [Holds] at h
      | cons l ls =>
        obtain ⟨h1, h2, h3⟩ := h
        refine ⟨?_, h2, ih h3 (fun p hp => hf p (by simp [hp]))⟩
        rw [hf (w, j) (by simp)]; exact h1

/-- one call of `dump_vcd_inner`: afterwards file and `last_values` agree with the sampled values -/
theorem stepNets_holds (ds : List (Nat × Nat)) (vs : List Nat) (ls : List String) (st : St)
    (hinv : Inv st ds ls) (hlen : vs.length = ds.length) (hnd : (ds.map (·.2)).Nodup) :
    Holds (push st (stepNets ds vs ls).1) ds vs (stepNets ds vs ls).2 := by
  induction ds generalizing vs ls st with
  | nil => cases vs <;> simp_all [Holds]
  | cons p ds ih =>
    obtain ⟨w, j⟩ := p
    cases vs with
    | nil => simp at hlen
    | cons v vs =>
      cases ls with
      | nil => simp [Inv] at hinv
      | cons l ls =>
        obtain ⟨h1, h2⟩ := hinv
        simp only [List.map_cons, List.nodup_cons] at hnd
        have hlen' : vs.length = ds.length := by simpa using hlen
        have hnot : ∀ st0 : St, (push st0 (stepNets ds vs ls).1).get (symbol j) = st0.get (symbol j) := by
          intro st0
          apply get_push_other
          intro hmem
          obtain ⟨p, hp, e⟩ := stepNets_syms ds vs ls _ hmem
          have := symbol_inj _ _ e
          exact hnd.1 (by rw [this]; exact List.mem_map_of_mem hp)
        simp only [stepNets]
        split
        · next hne =>
          simp only [push]
          refine ⟨?_, rfl, ?_⟩
          · rw [hnot]; simp [St.get]
          · apply ih vs ls _ _ hlen' hnd.2
            apply h2.frame
            intro p hp
            have : symbol j ≠ symbol p.2 := by
              intro e; have := symbol_inj _ _ e
              exact hnd.1 (by rw [this]; exact List.mem_map_of_mem hp)
            simp [St.get, this]
        · next heq =>
          have heq : l = str w v := by simpa using heq
          refine ⟨?_, heq, ih vs ls st h2 hlen' hnd.2⟩
          rw [hnot, h1 v heq, heq]

/-- what a reader sees in cycle c+t of the blocks written from cycle c on -/
theorem cycles_holds (ds : List (Nat × Nat)) (cs : String) (hnd : (ds.map (·.2)).Nodup)
    (hcs : ∀ p ∈ ds, symbol p.2 ≠ cs)
    (tr : List (List Nat)) (c : Nat) (st : St) (last : List String)
    (hinv : Inv st ds last) (hrows : ∀ row ∈ tr, row.length = ds.length)
    (t : Nat) (ht : t < tr.length) :
    ∃ ls, Holds (stateAt (100 * (c + t)) st (cycles ds cs c last tr)) ds tr[t] ls := by
  induction tr generalizing c st last t with
  | nil => simp at ht
  | cons vs rest ih =>
    have hlen : vs.length = ds.length := hrows vs (by simp)
    have hstep := stepNets_holds ds vs last st hinv hlen hnd
    simp only [cycles]
    rw [List.append_assoc, stateAt_append_chg _ _ _ _ (stepNets_allChg ds vs last)]
    cases t with
    | zero =>
      refine ⟨(stepNets ds vs last).2, ?_⟩
      have : stateAt (100 * (c + 0)) (push st (stepNets ds vs last).1)
          (clockTail c cs ++ cycles ds cs (c + 1) (stepNets ds vs last).2 rest)
          = push st (stepNets ds vs last).1 := by
        simp [clockTail, stateAt]
      rw [this]; exact hstep
    | succ t =>
      have e : 100 * (c + (t + 1)) = 100 * ((c + 1) + t) := by omega
      have h1 : ¬ (100 * (c + 1 + t) < 100 * c + 50) := by omega
      have h2 : ¬ (100 * (c + 1 + t) < 100 * c + 50 + 50) := by omega
      rw [e]
      simp only [clockTail, List.cons_append, List.nil_append, stateAt, h1, h2, if_false]
      simp only [List.getElem_cons_succ]
      apply ih (c + 1) _ _ _ (fun row hr => hrows row (by simp [hr])) t (by simpa using ht)
      apply hstep.inv.frame
      intro p hp
      have := hcs p hp
      simp [St.get, Ne.symm this]

/-- reader state after the header lines -/
theorem get_push_header (strs : List String) (base : Nat) (st : St) (j : Nat) :
    (push st ((strs.zipIdx base).map (fun p => Ev.chg p.1 (symbol p.2)))).get (symbol j)
      = (if base ≤ j then strs[j - base]? else none).or (st.get (symbol j)) := by
  induction strs generalizing base st with
  | nil => simp [push]
  | cons s strs ih =>
    simp only [List.zipIdx_cons, List.map_cons, push]
    rw [ih]
    by_cases h1 : base + 1 ≤ j
    · have h2 : base ≤ j := by omega
      have h3 : j - base = (j - (base + 1)) + 1 := by omega
      have h4 : symbol base ≠ symbol j := fun e => by have := symbol_inj _ _ e; omega
      simp [h1, h2, h3, St.get, h4]
    · by_cases h2 : base = j
      · subst h2; simp [St.get, h1]
      · have h3 : ¬ base ≤ j := by omega
        have h4 : symbol base ≠ symbol j := fun e => h2 (symbol_inj _ _ e)
        simp [h1, h3, St.get, h4]

theorem Inv.of_index (st : St) (ds : List (Nat × Nat)) (ls : List String) (hlen : ds.length ≤ ls.length)
    (h : ∀ i (h1 : i < ds.length) (h2 : i < ls.length) v, ls[i] = str ds[i].1 v →
        st.get (symbol ds[i].2) = some ls[i]) : Inv st ds ls := by
  induction ds generalizing ls with
  | nil => simp [Inv]
  | cons p ds ih =>
    obtain ⟨w, j⟩ := p
    cases ls with
    | nil => simp at hlen
    | cons l ls =>
      refine ⟨fun v hv => ?_, ih ls (by simpa using hlen) (fun i h1 h2 v hv => ?_)⟩
      · exact h 0 (by simp) (by simp) v hv
      · exact h (i + 1) (by simpa using h1) (by simpa using h2) v hv

theorem Holds.index {st ds vs ls} (h : Holds st ds vs ls) :
    vs.length = ds.length ∧ ∀ i (h1 : i < ds.length) (h2 : i < vs.length),
      st.get (symbol ds[i].2) = some (str ds[i].1 vs[i]) := by
  induction ds generalizing vs ls with
  | nil => cases vs <;> simp_all [Holds]
  | cons p ds ih =>
    obtain ⟨w, j⟩ := p
    cases vs with
    | nil => simp [Holds] at h
    | cons v vs =>
      cases ls with
      | nil => simp [Holds] at h
      | cons l ls =>
        obtain ⟨h1, h2, h3⟩ := h
        obtain ⟨e, f⟩ := ih h3
        refine ⟨by simp [e], fun i hi1 hi2 => ?_⟩
        cases i with
        | zero => exact h1
        | succ i => exact f i (by simpa using hi1) (by simpa using hi2)

/-! ### the net table -/

/-- condition under which the `last_values` indexing slip of `dump_vcd_inner` is harmless: from the clock
    net on, two neighbouring nets of equal width have equal default values -/
def QuirkSafe (d : Design) (init : List Nat) : Prop :=
  ∀ i, d.clk ≤ i → d.widths[i]? = d.widths[i + 1]? → init[i]? = init[i + 1]?

theorem details_get? (d : Design) (i : Nat) :
    (details d)[i]? = if i < d.clk then d.widths[i]?.map (fun w => (w, i))
                      else d.widths[i + 1]?.map (fun w => (w, i + 1)) := by
  simp [details, List.getElem?_eraseIdx, List.getElem?_zipIdx]

theorem details_length (d : Design) (hk : d.clk < d.widths.length) :
    (details d).length = d.widths.length - 1 := by
  simp [details, List.length_eraseIdx, hk]

theorem details_nodup (d : Design) : ((details d).map (·.2)).Nodup := by
  have h1 : ((details d).map (·.2)).Sublist (d.widths.zipIdx.map (·.2)) :=
    (List.eraseIdx_sublist _ _).map _
  have h2 : d.widths.zipIdx.map (·.2) = List.range' 0 d.widths.length := List.zipIdx_map_snd 0 _
  exact h1.nodup (by rw [h2]; exact List.nodup_range' 1)

theorem details_mem (d : Design) (p : Nat × Nat) (hp : p ∈ details d) :
    p.2 ≠ d.clk ∧ d.widths[p.2]? = some p.1 := by
  obtain ⟨i, hi, hp⟩ := List.mem_eraseIdx_iff_getElem?.mp hp
  rw [List.getElem?_zipIdx] at hp
  cases hw : d.widths[i]? with
  | none => simp [hw] at hp
  | some w =>
    simp [hw] at hp
    subst hp
    exact ⟨hi, hw⟩

theorem header_get (d : Design) (init : List Nat) (x : String) (j : Nat) (hj : j ≠ d.clk) :
    St.get ((symbol d.clk, x) :: push [] (headerEvs (headerStrs d init))) (symbol j)
      = (headerStrs d init)[j]? := by
  have hne : symbol d.clk ≠ symbol j := fun e => hj (symbol_inj _ _ e).symm
  simp only [St.get, hne, if_false, headerEvs]
  rw [get_push_header]
  simp [St.get]

theorem headerStrs_get? (d : Design) (init : List Nat) (j : Nat) :
    (headerStrs d init)[j]? = match d.widths[j]?, init[j]? with
      | some w, some v => some (str w v)
      | _, _ => none := by
  simp only [headerStrs, List.getElem?_zipWith]
  cases d.widths[j]? <;> cases init[j]? <;> rfl

theorem init_inv (d : Design) (init : List Nat) (x : String) (hk : d.clk < d.widths.length)
    (hi : init.length = d.widths.length) (hq : QuirkSafe d init) :
    Inv ((symbol d.clk, x) :: push [] (headerEvs (headerStrs d init))) (details d) (headerStrs d init) := by
  have hslen : (headerStrs d init).length = d.widths.length := by simp [headerStrs, hi]
  apply Inv.of_index
  · rw [details_length d hk, hslen]; omega
  · intro i h1 h2 v hv
    have hd := details_get? d i
    rw [List.getElem?_eq_getElem h1] at hd
    have hs := headerStrs_get? d init i
    rw [List.getElem?_eq_getElem h2] at hs
    rw [details_length d hk] at h1
    by_cases hik : i < d.clk
    · simp only [hik, if_true] at hd
      have hw : i < d.widths.length := by omega
      rw [List.getElem?_eq_getElem hw] at hd
      simp only [Option.map_some, Option.some.injEq] at hd
      rw [hd]
      simp only
      rw [header_get d init x i (by omega)]
      exact List.getElem?_eq_getElem h2
    · simp only [hik, if_false] at hd
      have hw : i + 1 < d.widths.length := by omega
      have hw0 : i < d.widths.length := by omega
      rw [List.getElem?_eq_getElem hw] at hd
      simp only [Option.map_some, Option.some.injEq] at hd
      rw [hd] at hv ⊢
      simp only at hv ⊢
      rw [header_get d init x (i + 1) (by omega), headerStrs_get?]
      have hi0 : i < init.length := by omega
      have hi1 : i + 1 < init.length := by omega
      rw [List.getElem?_eq_getElem hw0, List.getElem?_eq_getElem hi0] at hs
      simp only [Option.some.injEq] at hs
      rw [List.getElem?_eq_getElem hw, List.getElem?_eq_getElem hi1]
      simp only
      rw [hs] at hv ⊢
      have hwe := (str_inj _ _ _ _ hv).1
      have := hq i (by omega) (by
        rw [List.getElem?_eq_getElem hw0, List.getElem?_eq_getElem hw, hwe])
      rw [List.getElem?_eq_getElem hi0, List.getElem?_eq_getElem hi1] at this
      simp only [Option.some.injEq] at this
      simp only [← hwe, ← this]

theorem headerEvs_allChg (strs : List String) : AllChg (headerEvs strs) := by
  intro e he
  simp only [headerEvs, List.mem_map] at he
  obtain ⟨p, _, rfl⟩ := he
  exact ⟨_, _, rfl⟩

/-- reader state in cycle t of a whole dump -/
theorem dump_holds (d : Design) (init : List Nat) (tr : List (List Nat)) (hk : d.clk < d.widths.length)
    (hi : init.length = d.widths.length) (hq : QuirkSafe d init)
    (hrows : ∀ row ∈ tr, row.length = (details d).length) (t : Nat) (ht : t < tr.length) :
    ∃ ls, Holds (stateAt (100 * t) [] (dump d init tr)) (details d) tr[t] ls := by
  unfold dump
  simp only
  rw [List.append_assoc, stateAt_append_chg _ _ _ _ (headerEvs_allChg _)]
  simp only [List.cons_append, List.nil_append, stateAt, Nat.not_lt_zero, if_false]
  have := cycles_holds (details d) (symbol d.clk) (details_nodup d)
    (fun p hp e => (details_mem d p hp).1 (symbol_inj _ _ e)) tr 0 _ _
    (init_inv d init "1" hk hi hq) hrows t ht
  simpa using this

/-! ### the clock lines -/

/-- the clock lines of `n` cycles starting with cycle `c`: falls at 100c+50, rises again at 100c+100 -/
def clockExp : Nat → Nat → List (Nat × String)
  | _, 0 => []
  | c, n + 1 => (100 * c + 50, "0") :: (100 * c + 50 + 50, "1") :: clockExp (c + 1) n

theorem edgesOf_append_other (cs : String) (now : Option Nat) (evs rest : List Ev)
    (hall : AllChg evs) (h : now = none ∨ cs ∉ symsOf evs) :
    edgesOf cs now (evs ++ rest) = edgesOf cs now rest := by
  induction evs with
  | nil => rfl
  | cons e es ih =>
    obtain ⟨v, s, rfl⟩ := hall e (by simp)
    have hall' : AllChg es := fun e he => hall e (by simp [he])
    rcases h with h | h
    · subst h
      simp only [List.cons_append, edgesOf]
      exact ih hall' (Or.inl rfl)
    · simp only [symsOf, List.mem_cons, not_or] at h
      simp only [List.cons_append, edgesOf]
      cases now with
      | none => exact ih hall' (Or.inr h.2)
      | some t =>
        simp only [Ne.symm h.1, if_false]
        exact ih hall' (Or.inr h.2)

theorem edges_cycles (ds : List (Nat × Nat)) (cs : String) (hcs : ∀ p ∈ ds, symbol p.2 ≠ cs)
    (tr : List (List Nat)) (c : Nat) (last : List String) (now : Option Nat) :
    edgesOf cs now (cycles ds cs c last tr) = clockExp c tr.length := by
  induction tr generalizing c last now with
  | nil => simp [cycles, edgesOf, clockExp]
  | cons vs rest ih =>
    simp only [cycles, List.length_cons, clockExp]
    rw [List.append_assoc, edgesOf_append_other _ _ _ _ (stepNets_allChg ds vs last)]
    · simp only [clockTail, List.cons_append, List.nil_append, edgesOf, if_true]
      rw [ih]
    · right
      intro hmem
      obtain ⟨p, hp, e⟩ := stepNets_syms ds vs last _ hmem
      exact hcs p hp e.symm

theorem edges_dump (d : Design) (init : List Nat) (tr : List (List Nat)) :
    edgesOf (symbol d.clk) none (dump d init tr) = (0, "1") :: clockExp 0 tr.length := by
  unfold dump
  simp only
  rw [List.append_assoc, edgesOf_append_other _ _ _ _ (headerEvs_allChg _) (Or.inl rfl)]
  simp only [List.cons_append, List.nil_append, edgesOf, if_true]
  rw [edges_cycles _ _ (fun p hp e => (details_mem d p hp).1 (symbol_inj _ _ e))]

theorem clockExp_ge (c n : Nat) : ∀ e ∈ clockExp c n, 100 * c + 50 ≤ e.1 := by
  induction n generalizing c with
  | zero => simp [clockExp]
  | succ n ih =>
    intro e he
    simp only [clockExp, List.mem_cons] at he
    rcases he with rfl | rfl | he
    · simp
    · simp
    · have := ih (c + 1) e he; omega

/-- inside cycle t's window [100t, 100t+100) of the lines `(100c, 1) :: clockExp c n` there are exactly the
    rise at 100t and the fall at 100t+50 -/
theorem clock_window (c n t : Nat) (h1 : c ≤ t) (h2 : t < c + n) :
    ((100 * c, "1") :: clockExp c n).filter (fun e => 100 * t ≤ e.1 ∧ e.1 < 100 * t + 100)
      = [(100 * t, "1"), (100 * t + 50, "0")] := by
  induction n generalizing c with
  | zero => omega
  | succ n ih =>
    by_cases hct : c = t
    · subst hct
      have hrest : (clockExp (c + 1) n).filter (fun e => 100 * c ≤ e.1 ∧ e.1 < 100 * c + 100) = [] := by
        rw [List.filter_eq_nil_iff]
        intro e he
        have := clockExp_ge (c + 1) n e he
        simp only [decide_eq_true_eq]; omega
      have hr : ((100 * c + 50 + 50, "1") :: clockExp (c + 1) n).filter
          (fun e => 100 * c ≤ e.1 ∧ e.1 < 100 * c + 100) = [] := by
        rw [List.filter_cons]
        have : ¬ (100 * c ≤ 100 * c + 50 + 50 ∧ 100 * c + 50 + 50 < 100 * c + 100) := by omega
        simp only [this, decide_false, Bool.false_eq_true, if_false]
        exact hrest
      simp only [clockExp]
      rw [List.filter_cons, List.filter_cons, hr]
      simp
    · have e1 : 100 * c + 50 + 50 = 100 * (c + 1) := by omega
      simp only [clockExp]
      rw [List.filter_cons, List.filter_cons, e1]
      have a1 : ¬ (100 * t ≤ 100 * c ∧ 100 * c < 100 * t + 100) := by omega
      have a2 : ¬ (100 * t ≤ 100 * c + 50 ∧ 100 * c + 50 < 100 * t + 100) := by omega
      simp only [a1, a2, decide_false, Bool.false_eq_true, if_false]
      exact ih (c + 1) (by omega) (by omega)

end PV.VCD
