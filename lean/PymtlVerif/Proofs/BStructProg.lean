import PymtlVerif.Model.BStructProg
import PymtlVerif.Proofs.BitStructHeap
/-!
Helper lemmas for `Props/C06g.lean`: evaluating the canonical programs of `Model/BStructProg.lean`
gives the model functions of `Model/BitStruct.lean` (value-level part: to_bits, from_bits, ==, hash).
Core Lean only. The heap-level part is in `Proofs/BStructProgHeap.lean`.
-/
namespace PV.BStructProg
open PV.BitStruct
open PV.Bits (B Reg)

/-! ### well-formed type descriptions -/

/-- a field list: what may follow a field in a `.pair` chain -/
def Chain : Ty → Prop
  | .unit => True
  | .pair _ _ => True
  | _ => False

/-- every `.pair` tail is a field list again (structs are `.pair` chains ending in `.unit`) and every
leaf is at least one bit wide (there is no `Bits0`) -/
def WF : Ty → Prop
  | .bits n => 1 ≤ n
  | .unit => True
  | .pair A R => WF A ∧ WF R ∧ Chain R
  | .arr _ t => WF t

/-! ### paths -/

theorem getV_append (v : Val) (p q : Path) : getV v (p ++ q) = (getV v p).bind (getV · q) := by
  induction p generalizing v with
  | nil => simp [getV]
  | cons s p ih =>
    simp only [List.cons_append, getV]
    cases stepV v s with
    | none => simp
    | some w => simp [ih]

theorem getV_snoc {root : Val} {p : Path} {x : Val} (h : getV root p = some x) (s : Step) :
    getV root (p ++ [s]) = stepV x s := by
  rw [getV_append, h]; simp [getV]

/-- `c` is the field list of `s` from field `i` on -/
def TailV (s c : Val) (i : Nat) : Prop := ∀ j, fieldVal c j = fieldVal s (i + j)

/-- `c` is the list `X` from element `k` on -/
def ETailV (X c : Val) (k : Nat) : Prop := ∀ j, elemVal c j = elemVal X (k + j)

theorem TailV.head {s a b : Val} {i : Nat} (h : TailV s (.pair a b) i) : fieldVal s i = some a := by
  have := h 0; simpa [fieldVal] using this.symm

theorem TailV.tail {s a b : Val} {i : Nat} (h : TailV s (.pair a b) i) : TailV s b (i + 1) := by
  intro j; have := h (j + 1); simp only [fieldVal] at this; rw [this]; congr 1; omega

theorem ETailV.head {X x xs : Val} {k : Nat} (h : ETailV X (.acons x xs) k) : elemVal X k = some x := by
  have := h 0; simpa [elemVal] using this.symm

theorem ETailV.tail {X x xs : Val} {k : Nat} (h : ETailV X (.acons x xs) k) : ETailV X xs (k + 1) := by
  intro j; have := h (j + 1); simp only [elemVal] at this; rw [this]; congr 1; omega

theorem TailV.refl (s : Val) : TailV s s 0 := fun j => by simp
theorem ETailV.refl (s : Val) : ETailV s s 0 := fun j => by simp

/-- what `tbPaths T i p` talks about: for a field list the tail from field `i` of the struct at `p`,
otherwise the value at `p` -/
def SubV (root : Val) : Ty → Nat → Path → Val → Prop
  | .unit, i, p, v => ∃ s, getV root p = some s ∧ TailV s v i
  | .pair _ _, i, p, v => ∃ s, getV root p = some s ∧ TailV s v i
  | _, _, p, v => getV root p = some v

theorem subV_of_get {root : Val} (T : Ty) {p : Path} {v : Val} (h : getV root p = some v) : SubV root T 0 p v := by
  cases T with
  | bits n => exact h
  | arr k t => exact h
  | unit => exact ⟨v, h, TailV.refl v⟩
  | pair A R => exact ⟨v, h, TailV.refl v⟩

theorem subV_chain {root : Val} {T : Ty} (hc : Chain T) {i : Nat} {p : Path} {v s : Val}
    (h : getV root p = some s) (ht : TailV s v i) : SubV root T i p v := by
  cases T with
  | bits n => exact absurd hc (by simp [Chain])
  | arr k t => exact absurd hc (by simp [Chain])
  | unit => exact ⟨s, h, ht⟩
  | pair A R => exact ⟨s, h, ht⟩

/-! ### `mapOpt` -/

theorem mapOpt_append {α β} (f : α → Option β) (xs ys : List α) (a b : List β)
    (h1 : mapOpt f xs = some a) (h2 : mapOpt f ys = some b) : mapOpt f (xs ++ ys) = some (a ++ b) := by
  induction xs generalizing a with
  | nil => simp only [mapOpt, Option.some.injEq] at h1; subst h1; simpa using h2
  | cons x xs ih =>
    simp only [mapOpt] at h1
    cases hx : f x with
    | none => simp [hx] at h1
    | some y =>
      cases hxs : mapOpt f xs with
      | none => simp [hx, hxs] at h1
      | some ys' =>
        simp [hx, hxs] at h1; subst h1
        simp [mapOpt, hx, ih ys' hxs]

/-! ### to_bits -/

theorem hasTy_arr_succ {xs : Val} {k : Nat} {t : Ty} (h : HasTy xs (.arr (k+1) t)) :
    ∃ x r, xs = .acons x r ∧ HasTy x t ∧ HasTy r (.arr k t) := by
  cases h with
  | acons hx hr => exact ⟨_, _, rfl, hx, hr⟩

theorem hasTy_arr_zero {xs : Val} {t : Ty} (h : HasTy xs (.arr 0 t)) : xs = .anil := by
  cases h; rfl

def tbRead (root : Val) (p : Path) : Option B := (getV root p).bind asBits

theorem tb_arr (root : Val) (t : Ty) (q : Path) (X : Val) (hX : getV root q = some X)
    (ih : ∀ (v : Val) (p : Path), HasTy v t → getV root p = some v →
      mapOpt (tbRead root) (tbPaths t 0 p) = some (concatArgs v)) :
    ∀ (k s : Nat) (xs : Val), HasTy xs (.arr k t) → ETailV X xs s →
      mapOpt (tbRead root) (revFrom (fun j => tbPaths t 0 (q ++ [.idx j])) s k) = some (concatArgs xs) := by
  intro k
  induction k with
  | zero => intro s xs h _; rw [hasTy_arr_zero h]; simp [revFrom, mapOpt, concatArgs]
  | succ k ihk =>
    intro s xs h ht
    obtain ⟨x, r, rfl, hx, hr⟩ := hasTy_arr_succ h
    simp only [revFrom, concatArgs]
    apply mapOpt_append
    · exact ihk (s + 1) r hr ht.tail
    · apply ih x _ hx
      rw [getV_snoc hX]; simp only [stepV]; exact ht.head

theorem tb_main : ∀ (T : Ty), WF T → ∀ (root v : Val) (i : Nat) (p : Path), HasTy v T → SubV root T i p v →
    mapOpt (tbRead root) (tbPaths T i p) = some (concatArgs v) := by
  intro T
  induction T with
  | bits n =>
    intro _ root v i p h hs
    cases h with
    | bits n x hx =>
      simp only [SubV] at hs
      simp [tbPaths, mapOpt, tbRead, hs, asBits, concatArgs]
  | unit =>
    intro _ root v i p h _
    cases h; simp [tbPaths, mapOpt, concatArgs]
  | pair A R ihA ihR =>
    intro hw root v i p h hs
    obtain ⟨wA, wR, cR⟩ := hw
    cases h with
    | @pair a b _ _ ha hb =>
      obtain ⟨s, hg, ht⟩ := hs
      simp only [tbPaths, concatArgs]
      apply mapOpt_append
      · apply ihA wA root a 0 _ ha
        apply subV_of_get
        rw [getV_snoc hg]; simp only [stepV]; exact ht.head
      · exact ihR wR root b (i + 1) p hb (subV_chain cR hg ht.tail)
  | arr k t iht =>
    intro hw root v i p h hs
    simp only [SubV] at hs
    simp only [tbPaths]
    exact tb_arr root t p v hs (fun x q hx hq => iht hw root x 0 q hx (subV_of_get t hq)) k 0 v h (ETailV.refl v)

theorem evalToBits_canonical {T : Ty} (hw : WF T) {v : Val} (h : HasTy v T) :
    evalToBits (tbPaths T 0 []) v = some (toBitsPy v) := by
  have := tb_main T hw v v 0 [] h (subV_of_get T (by simp [getV]))
  simp only [evalToBits, toBitsPy]
  change (mapOpt (tbRead v) _).map _ = _
  rw [this]; rfl

/-! ### from_bits -/

/-- the argument list of a struct value -/
def chainV : Val → Val
  | .pair a b => .acons a (chainV b)
  | _ => .anil

theorem wrapV_hasTy {a : Val} {A : Ty} (h : HasTy a A) : wrapV A a = some a := by
  cases h <;> simp [wrapV]

theorem newV_chain {r : Val} {R : Ty} (h : HasTy r R) : WF R → Chain R → newV R (chainV r) = some r := by
  induction h with
  | bits n v h => intro _ hc; exact absurd hc (by simp [Chain])
  | unit => intro _ _; simp [chainV, newV]
  | @pair a b A B ha hb _ ihb =>
    intro hw _
    simp [chainV, newV, wrapV_hasTy ha, ihb hw.2.1 hw.2.2]
  | anil => intro _ hc; exact absurd hc (by simp [Chain])
  | acons _ _ _ _ => intro _ hc; exact absurd hc (by simp [Chain])

theorem fromBitsAt_snd (T : Ty) (e b : Nat) (h : T.width ≤ e) : (fromBitsAt T e b).2 = e - T.width := by
  rw [fromBitsAt_eq T e b h]

theorem hasTy_fromBitsAt (T : Ty) (e b : Nat) (h : T.width ≤ e) : HasTy (fromBitsAt T e b).1 T := by
  rw [fromBitsAt_eq T e b h]; exact hasTy_fromBits T _

theorem fb_arr (env : VEnv) (f : Nat → Expr × Nat) (g : Nat → Val × Nat) (w n : Nat)
    (hfg : ∀ e, w ≤ e → e ≤ n → evalV env (f e).1 = some (g e).1 ∧ (f e).2 = (g e).2 ∧ (g e).2 = e - w) :
    ∀ (k e : Nat) (acc : Expr) (accV : Val), k * w ≤ e → e ≤ n → evalV env acc = some accV →
      evalV env (fbArr f k e acc).1 = some (iterArr g k e accV).1 ∧ (fbArr f k e acc).2 = (iterArr g k e accV).2 := by
  intro k
  induction k with
  | zero => intro e acc accV _ _ ha; simp [fbArr, iterArr, ha]
  | succ k ih =>
    intro e acc accV hk hn ha
    have e' : (k + 1) * w = k * w + w := by rw [Nat.add_mul]; simp
    obtain ⟨h1, h2, h3⟩ := hfg e (by omega) hn
    simp only [fbArr, iterArr]
    rw [h2]
    apply ih
    · rw [h3]; omega
    · rw [h3]; omega
    · simp [evalV, h1, ha]

theorem fb_main (env : VEnv) : ∀ (T : Ty), WF T →
    (∀ e, T.width ≤ e → e ≤ env.bits.n →
      evalV env (fbExpr T e).1 = some (fromBitsAt T e env.bits.v).1 ∧ (fbExpr T e).2 = (fromBitsAt T e env.bits.v).2) ∧
    (Chain T → ∀ e, T.width ≤ e → e ≤ env.bits.n →
      evalV env (fbExpr.fbArgs T e).1 = some (chainV (fromBitsAt T e env.bits.v).1) ∧
      (fbExpr.fbArgs T e).2 = (fromBitsAt T e env.bits.v).2) := by
  intro T
  induction T with
  | bits n =>
    intro hw
    refine ⟨?_, fun hc => absurd hc (by simp [Chain])⟩
    intro e h1 h2
    simp only [Ty.width] at h1
    simp only [WF] at hw
    obtain ⟨sf, ot, ⟨bn, bv⟩⟩ := env
    simp only [fbExpr, fromBitsAt, evalV]
    rw [PV.C05.get_slice bn bv (e - n) e (by omega) h2]
    have : e - (e - n) = n := by omega
    simp [this, slice_eq]
  | unit =>
    intro _
    refine ⟨?_, ?_⟩
    · intro e _ _; simp [fbExpr, fromBitsAt, evalV, newV]
    · intro _ e _ _; simp [fbExpr.fbArgs, fromBitsAt, evalV, chainV]
  | pair A R ihA ihR =>
    intro hw
    obtain ⟨wA, wR, cR⟩ := hw
    have key : ∀ e, (Ty.pair A R).width ≤ e → e ≤ env.bits.n →
        evalV env (fbExpr.fbArgs (.pair A R) e).1 = some (chainV (fromBitsAt (.pair A R) e env.bits.v).1) ∧
        (fbExpr.fbArgs (.pair A R) e).2 = (fromBitsAt (.pair A R) e env.bits.v).2 := by
      intro e h1 h2
      simp only [Ty.width] at h1
      obtain ⟨a1, a2⟩ := (ihA wA).1 e (by omega) h2
      have hs := fromBitsAt_snd A e env.bits.v (by omega)
      obtain ⟨r1, r2⟩ := (ihR wR).2 cR (fromBitsAt A e env.bits.v).2 (by rw [hs]; omega) (by rw [hs]; omega)
      simp only [fbExpr.fbArgs, fromBitsAt, evalV, a2, a1, r1, r2, chainV]
      exact ⟨trivial, trivial⟩
    refine ⟨?_, fun _ => key⟩
    intro e h1 h2
    obtain ⟨k1, k2⟩ := key e h1 h2
    have hT := hasTy_fromBitsAt (.pair A R) e env.bits.v h1
    simp only [fbExpr.fbArgs] at k1 k2
    simp only [fbExpr, evalV]
    refine ⟨?_, k2⟩
    simp only [evalV] at k1
    rw [k1]
    simp only [Option.bind_some]
    exact newV_chain hT ⟨wA, wR, cR⟩ trivial
  | arr k t iht =>
    intro hw
    refine ⟨?_, fun hc => absurd hc (by simp [Chain])⟩
    intro e h1 h2
    simp only [Ty.width] at h1
    simp only [fbExpr, fromBitsAt]
    apply fb_arr env (fbExpr t) (fun e' => fromBitsAt t e' env.bits.v) t.width env.bits.n _ k e .nil .anil h1 h2 (by simp [evalV])
    intro e' h3 h4
    obtain ⟨x1, x2⟩ := (iht hw).1 e' h3 h4
    exact ⟨x1, x2, fromBitsAt_snd t e' env.bits.v h3⟩

theorem evalFromBits_canonical {T : Ty} (hw : WF T) (hc : Chain T) (other : B) :
    evalFromBits T (fbExpr.fbArgs T (nbitsPy T)).1 other = fromBitsPy T other := by
  simp only [evalFromBits, fromBitsPy]
  by_cases hn : nbitsPy T = other.n
  · simp only [hn, ne_eq, not_true_eq_false, ↓reduceIte]
    have hwid : T.width ≤ other.n := by rw [← hn, nbitsPy_eq]; exact Nat.le_refl _
    obtain ⟨k1, _⟩ := (fb_main ⟨.unit, .unit, other⟩ T hw).2 hc other.n hwid (Nat.le_refl _)
    simp only [evalV] at k1 ⊢
    rw [k1]
    simp only [Option.bind_some]
    rw [newV_chain (hasTy_fromBitsAt T other.n other.v hwid) hw hc]
  · simp [hn]

/-! ### `==` -/

def fieldsV : Val → List Val
  | .pair a b => a :: fieldsV b
  | _ => []

theorem eqPaths_get {T : Ty} {c : Val} (h : HasTy c T) : ∀ (s : Val) (i : Nat), TailV s c i →
    mapOpt (getV s) (eqPaths T i) = some (fieldsV c) := by
  induction h with
  | bits n v h => intro s i _; simp [eqPaths, mapOpt, fieldsV]
  | unit => intro s i _; simp [eqPaths, mapOpt, fieldsV]
  | anil => intro s i _; simp [eqPaths, mapOpt, fieldsV]
  | acons _ _ _ _ => intro s i _; simp [eqPaths, mapOpt, fieldsV]
  | @pair a b A B ha hb _ ihb =>
    intro s i ht
    have h0 : getV s [.fld i] = some a := by simp [getV, stepV, ht.head]
    simp [eqPaths, mapOpt, fieldsV, h0, ihb s (i + 1) ht.tail]

theorem eqList_fields {T : Ty} {v : Val} (h : HasTy v T) : ∀ {w : Val}, HasTy w T → Chain T → WF T →
    eqList (fieldsV v) (fieldsV w) = eqPy v w := by
  induction h with
  | bits n v h => intro w _ hc; exact absurd hc (by simp [Chain])
  | unit => intro w hw _ _; cases hw; simp [fieldsV, eqList, eqPy]
  | anil => intro w _ hc; exact absurd hc (by simp [Chain])
  | acons _ _ _ _ => intro w _ hc; exact absurd hc (by simp [Chain])
  | @pair a b A B ha hb _ ihb =>
    intro w hw _ hwf
    cases hw with
    | pair hc hd => simp [fieldsV, eqList, eqPy, ihb hd hwf.2.2 hwf.2.1]

theorem evalEq_canonical {T : Ty} (hw : WF T) (hc : Chain T) (sameClass : Bool) {v w : Val}
    (hv : HasTy v T) (hw' : HasTy w T) :
    evalEq (eqPaths T 0) (eqPaths T 0) sameClass v w = some (eqCls sameClass v w) := by
  simp [evalEq, eqPaths_get hv v 0 (TailV.refl v), eqPaths_get hw' w 0 (TailV.refl w), eqCls,
    eqList_fields hv hw' hc hw]

/-! ### hash -/

/-- evaluating `[ p[0], p[1], … ]` (tuple displays or list displays) over the list dimensions of a field rebuilds
the field's value -/
theorem unroll_go_self (env : VEnv) (t : Ty) (X : Val) (f : Nat → Expr)
    (ih : ∀ j x, elemVal X j = some x → HasTy x t → evalV env (f j) = some x) :
    ∀ (k s : Nat) (xs : Val), HasTy xs (.arr k t) → ETailV X xs s →
      evalV env (unroll.go f s k) = some xs := by
  intro k
  induction k with
  | zero => intro s xs h _; rw [hasTy_arr_zero h]; simp [unroll.go, evalV]
  | succ k ihk =>
    intro s xs h ht
    obtain ⟨x, r, rfl, hx, hr⟩ := hasTy_arr_succ h
    simp [unroll.go, evalV, ih s x ht.head hx, ihk (s + 1) r hr ht.tail]

theorem unrollT_self (self other : Val) (bb : B) : ∀ (A : Ty) (q : Path) (X : Val), HasTy X A → getV self q = some X →
    evalV ⟨self, other, bb⟩ (unrollT .self A q) = some X := by
  intro A
  induction A with
  | bits n => intro q X _ hq; simp [unrollT, evalV, hq]
  | unit => intro q X _ hq; simp [unrollT, evalV, hq]
  | pair A R _ _ => intro q X _ hq; simp [unrollT, evalV, hq]
  | arr k t iht =>
    intro q X hX hq
    simp only [unrollT, evalV]
    apply unroll_go_self ⟨self, other, bb⟩ t X _ _ k 0 X hX (ETailV.refl X)
    intro j x hj hx
    apply iht _ x hx
    rw [getV_snoc hq]; simpa [stepV] using hj

theorem hashArgs_eval {T : Ty} {c : Val} (h : HasTy c T) : ∀ (s : Val) (i : Nat), TailV s c i →
    evalV ⟨s, s, default⟩ (hashArgs T i) = some (chainV c) := by
  induction h with
  | bits n v h => intro s i _; simp [hashArgs, evalV, chainV]
  | unit => intro s i _; simp [hashArgs, evalV, chainV]
  | anil => intro s i _; simp [hashArgs, evalV, chainV]
  | acons _ _ _ _ => intro s i _; simp [hashArgs, evalV, chainV]
  | @pair a b A B ha hb _ ihb =>
    intro s i ht
    have h0 : getV s [.fld i] = some a := by simp [getV, stepV, ht.head]
    simp [hashArgs, evalV, chainV, unrollT_self s s default A _ a ha h0, ihb s (i + 1) ht.tail]

theorem hashRest_chainV {α : Type} (hb : Nat → Nat → α) (ht : List α → α) {v : Val} {T : Ty} (h : HasTy v T) :
    Chain T → WF T → hashV.hashRest hb ht (chainV v) = hashV.hashRest hb ht v := by
  induction h with
  | bits n v h => intro hc; exact absurd hc (by simp [Chain])
  | unit => intro _ _; simp [chainV, hashV.hashRest]
  | anil => intro hc; exact absurd hc (by simp [Chain])
  | acons _ _ _ _ => intro hc; exact absurd hc (by simp [Chain])
  | @pair a b A B ha hb' _ ihb =>
    intro _ hw
    simp [chainV, hashV.hashRest, ihb hw.2.2 hw.2.1]

theorem hashV_chainV {α : Type} (hb : Nat → Nat → α) (ht : List α → α) {v : Val} {T : Ty} (h : HasTy v T)
    (hc : Chain T) (hw : WF T) : hashV hb ht (chainV v) = hashV hb ht v := by
  cases h with
  | bits n v h => exact absurd hc (by simp [Chain])
  | unit => simp [chainV, hashV]
  | anil => exact absurd hc (by simp [Chain])
  | acons _ _ => exact absurd hc (by simp [Chain])
  | @pair a b A B ha hb' =>
    simp only [chainV, hashV]
    rw [hashRest_chainV hb ht hb' hw.2.2 hw.2.1]

theorem chainV_inj {T : Ty} {v : Val} (h : HasTy v T) : ∀ {w : Val}, HasTy w T → Chain T → WF T →
    chainV v = chainV w → v = w := by
  induction h with
  | bits n v h => intro w _ hc; exact absurd hc (by simp [Chain])
  | unit => intro w hw _ _ _; cases hw; rfl
  | anil => intro w _ hc; exact absurd hc (by simp [Chain])
  | acons _ _ _ _ => intro w _ hc; exact absurd hc (by simp [Chain])
  | @pair a b A B ha hb _ ihb =>
    intro w hw _ hwf e
    cases hw with
    | pair hc hd =>
      simp only [chainV, Val.acons.injEq] at e
      rw [e.1, ihb hd hwf.2.2 hwf.2.1 e.2]

end PV.BStructProg
