import PymtlVerif.Proofs.Nets
/-!
# Lemmas for C09 over `Model/Nets.lean`

* well-formed designs have a symmetric `rel`;
* the verdict of `elaborate` is a function of the undirected edge *set* (and of the set of
  components in which a pair is connected);
* `_check_upblk_writes` fires iff two different blocks write related objects;
* the decision tables (operators, port directions) against declarative readings.
-/
namespace PV.Nets

/-! ## symmetry of `rel` in well-formed designs -/

def Design.SlicesOk (D : Design) : Prop := ∀ o ∈ D.objs, SliceOk o

theorem Design.obj_sliceOk {D : Design} (h : D.SlicesOk) (i : Nat) : SliceOk (D.obj i) := by
  unfold Design.obj
  rw [List.getD_eq_getElem?_getD]
  by_cases hi : i < D.objs.length
  · rw [List.getElem?_eq_getElem hi]; exact h _ (List.getElem_mem hi)
  · rw [List.getElem?_eq_none (by omega)]
    intro s hs; cases hs

theorem Design.rel_symm {D : Design} (h : D.SlicesOk) (i j : Nat) : D.rel i j = D.rel j i :=
  related_symm _ _ (D.obj_sliceOk h i) (D.obj_sliceOk h j)

/-! ## the verdict depends on the connect statements only through the edge set -/

theorem step_simple (E : List Edge) (a b : Nat) : Step (simple E) a b ↔ Step E a b := by
  unfold Step
  rw [mem_simple, mem_simple]
  constructor
  · rintro (⟨e, he, h⟩ | ⟨e, he, h⟩)
    · obtain ⟨x, y⟩ := e
      unfold normEdge at h
      split at h
      · cases h; exact Or.inl he
      · cases h; exact Or.inr he
    · obtain ⟨x, y⟩ := e
      unfold normEdge at h
      split at h
      · cases h; exact Or.inr he
      · cases h; exact Or.inl he
  · rintro (h | h)
    · by_cases hab : a ≤ b
      · exact Or.inl ⟨(a, b), h, by simp [normEdge, hab]⟩
      · exact Or.inr ⟨(a, b), h, by simp [normEdge, hab]⟩
    · by_cases hab : b ≤ a
      · exact Or.inr ⟨(b, a), h, by simp [normEdge, hab]⟩
      · exact Or.inl ⟨(b, a), h, by simp [normEdge, hab]⟩

theorem normEdge_of_step {e : Edge} {a b : Nat} (he : (a, b) = e ∨ (b, a) = e) :
    normEdge e = normEdge (a, b) := by
  rcases he with rfl | rfl
  · rfl
  · exact normEdge_swap (a, b)

/-- the loop verdict is a function of the undirected edge set -/
theorem hasLoop_congr {E E' : List Edge} (h : ∀ a b, Step E a b ↔ Step E' a b) : hasLoop E = hasLoop E' := by
  have key : ∀ {E E' : List Edge}, (∀ a b, Step E a b → Step E' a b) →
      ∀ x, (∃ e ∈ E, normEdge e = x) → (∃ e ∈ E', normEdge e = x) := by
    rintro E E' h x ⟨⟨a, b⟩, he, rfl⟩
    rcases h a b (Or.inl he) with h' | h'
    · exact ⟨(a, b), h', rfl⟩
    · exact ⟨(b, a), h', normEdge_swap (a, b)⟩
  have hs : (simple E).Perm (simple E') :=
    simple_perm_of_mem_iff (fun x => ⟨key (fun a b => (h a b).mp) x, key (fun a b => (h a b).mpr) x⟩)
  have := hasCycle_perm hs
  unfold hasLoop
  rw [Bool.eq_iff_iff, cyc_iff, cyc_iff]
  exact this

/-- replace the list of connect statements -/
def Design.withConns (D : Design) (c : List (Nat × Nat × Nat)) : Design := { D with conns := c }

theorem pass_withConns (D : Design) (c : List (Nat × Nat × Nat)) :
    ∀ (pending : List (List Nat)) (st : RState), pass (D.withConns c) pending st = pass D pending st := by
  intro pending
  induction pending with
  | nil => intro st; rfl
  | cons N rest ih =>
    intro st
    have : stepNet (D.withConns c) st N = stepNet D st N := rfl
    simp only [pass, this]
    cases stepNet D st N with
    | error e => rfl
    | ok st1 => exact ih st1

theorem rounds_withConns (D : Design) (c : List (Nat × Nat × Nat)) :
    ∀ (f : Nat) (st : RState), rounds (D.withConns c) f st = rounds D f st := by
  intro f
  induction f with
  | zero => intro st; rfl
  | succ f ih =>
    intro st
    simp only [rounds, pass_withConns]
    split
    · rfl
    · cases pass D st.headless { st with headless := [] } with
      | error e => rfl
      | ok st1 =>
        simp only
        split
        · rfl
        · exact ih st1

theorem resolve_withConns (D : Design) (c : List (Nat × Nat × Nat)) (h : (D.withConns c).nets = D.nets) :
    resolve (D.withConns c) = resolve D := by
  unfold resolve
  rw [rounds_withConns, h]
  have : initMarks (D.withConns c) = initMarks D := by
    unfold initMarks
    rw [h]
    rfl
  rw [this]

theorem adj_simple_congr {E E' : List Edge} (h : ∀ a b, Step E a b ↔ Step E' a b) (u : Nat) :
    sortDedup (adj (simple E) u) = sortDedup (adj (simple E') u) := by
  apply sortDedup_congr
  intro x
  rw [mem_adj, mem_adj, step_simple, step_simple]
  exact h u x

/-- the whole outcome of `elaborate` is unchanged when the connect statements are replaced by
statements with the same undirected edge set and the same "connected in component" relation -/
theorem elaborate_congr (D : Design) (c : List (Nat × Nat × Nat))
    (hstep : ∀ a b, Step (D.withConns c).edges a b ↔ Step D.edges a b)
    (hconn : ∀ p u v, connectedIn (D.withConns c) p u v = connectedIn D p u v) :
    elaborate (D.withConns c) = elaborate D := by
  have hnets : (D.withConns c).nets = D.nets := nets_congr hstep
  have hloop : hasLoop (D.withConns c).edges = hasLoop D.edges := hasLoop_congr hstep
  have hres := resolve_withConns D c hnets
  have hedge : ∀ u v, edgeErr (D.withConns c) u v = edgeErr D u v := by
    intro u v
    unfold edgeErr
    simp only [hconn]
    rfl
  have hport : ∀ hd, portNetErrs (D.withConns c) hd = portNetErrs D hd := by
    intro hd
    unfold portNetErrs
    have : (fun u => sortDedup (adj (simple (D.withConns c).edges) u)) = (fun u => sortDedup (adj (simple D.edges) u)) :=
      funext (adj_simple_congr hstep)
    simp only [this, hedge]
  unfold elaborate
  have h1 : opErrs (D.withConns c) = opErrs D := rfl
  have h4 : upblkErrs (D.withConns c) = upblkErrs D := rfl
  have h5 : portUpblkErrs (D.withConns c) = portUpblkErrs D := rfl
  simp only [h1, h4, h5, hloop, hres, hport]

theorem connectedIn_iff (D : Design) (p u v : Nat) :
    connectedIn D p u v = true ↔ ((u, v, p) ∈ D.conns ∨ (v, u, p) ∈ D.conns) := by
  unfold connectedIn
  simp only [List.any_eq_true, Bool.and_eq_true, Bool.or_eq_true, beq_iff_eq]
  constructor
  · rintro ⟨⟨a, b, c⟩, he, hc, (⟨h1, h2⟩ | ⟨h1, h2⟩)⟩
    · simp only at hc h1 h2; subst hc h1 h2; exact Or.inl he
    · simp only at hc h1 h2; subst hc h1 h2; exact Or.inr he
  · rintro (h | h)
    · exact ⟨_, h, rfl, Or.inl ⟨rfl, rfl⟩⟩
    · exact ⟨_, h, rfl, Or.inr ⟨rfl, rfl⟩⟩

/-- permuting the connect statements changes nothing -/
theorem elaborate_perm (D : Design) (c : List (Nat × Nat × Nat)) (hp : c.Perm D.conns) :
    elaborate (D.withConns c) = elaborate D := by
  apply elaborate_congr
  · intro a b
    exact step_perm (hp.map _) a b
  · intro p u v
    rw [Bool.eq_iff_iff, connectedIn_iff, connectedIn_iff]
    show ((u, v, p) ∈ c ∨ (v, u, p) ∈ c) ↔ _
    rw [hp.mem_iff, hp.mem_iff]

/-- swap the two sides of the connect statements selected by `p` (by position) -/
def flipConns (p : Nat → Bool) (c : List (Nat × Nat × Nat)) : List (Nat × Nat × Nat) :=
  c.mapIdx (fun i e => if p i then (e.2.1, e.1, e.2.2) else e)

theorem mem_flipConns (p : Nat → Bool) (c : List (Nat × Nat × Nat)) (u v q : Nat) :
    ((u, v, q) ∈ flipConns p c ∨ (v, u, q) ∈ flipConns p c) ↔ ((u, v, q) ∈ c ∨ (v, u, q) ∈ c) := by
  unfold flipConns
  simp only [List.mem_mapIdx]
  constructor
  · rintro (⟨i, hi, h⟩ | ⟨i, hi, h⟩)
    · split at h
      · have h1 : c[i].2.1 = u := congrArg Prod.fst h
        have h2 : c[i].1 = v := congrArg (fun t => t.2.1) h
        have h3 : c[i].2.2 = q := congrArg (fun t => t.2.2) h
        have : c[i] = (v, u, q) := by rw [← h1, ← h2, ← h3]
        exact Or.inr (this ▸ List.getElem_mem hi)
      · exact Or.inl (h ▸ List.getElem_mem hi)
    · split at h
      · have h1 : c[i].2.1 = v := congrArg Prod.fst h
        have h2 : c[i].1 = u := congrArg (fun t => t.2.1) h
        have h3 : c[i].2.2 = q := congrArg (fun t => t.2.2) h
        have : c[i] = (u, v, q) := by rw [← h1, ← h2, ← h3]
        exact Or.inl (this ▸ List.getElem_mem hi)
      · exact Or.inr (h ▸ List.getElem_mem hi)
  · rintro (h | h)
    · obtain ⟨i, hi, he⟩ := List.getElem_of_mem h
      by_cases hp : p i = true
      · exact Or.inr ⟨i, hi, by simp [hp, he]⟩
      · exact Or.inl ⟨i, hi, by simp [hp, he]⟩
    · obtain ⟨i, hi, he⟩ := List.getElem_of_mem h
      by_cases hp : p i = true
      · exact Or.inl ⟨i, hi, by simp [hp, he]⟩
      · exact Or.inr ⟨i, hi, by simp [hp, he]⟩

/-- swapping the two sides of any of the connect statements changes nothing -/
theorem elaborate_flip (D : Design) (p : Nat → Bool) :
    elaborate (D.withConns (flipConns p D.conns)) = elaborate D := by
  apply elaborate_congr
  · intro a b
    have key : ∀ (c : List (Nat × Nat × Nat)) (x y : Nat),
        Step (c.map (fun e => (e.1, e.2.1))) x y ↔ ∃ q, (x, y, q) ∈ c ∨ (y, x, q) ∈ c := by
      intro c x y
      unfold Step
      simp only [List.mem_map, Prod.mk.injEq]
      constructor
      · rintro (⟨⟨a1, a2, a3⟩, he, h1, h2⟩ | ⟨⟨a1, a2, a3⟩, he, h1, h2⟩)
        · simp only at h1 h2; subst h1 h2; exact ⟨a3, Or.inl he⟩
        · simp only at h1 h2; subst h1 h2; exact ⟨a3, Or.inr he⟩
      · rintro ⟨q, h | h⟩
        · exact Or.inl ⟨_, h, rfl, rfl⟩
        · exact Or.inr ⟨_, h, rfl, rfl⟩
    show Step ((flipConns p D.conns).map _) a b ↔ Step (D.conns.map _) a b
    rw [key, key]
    exact exists_congr (fun q => mem_flipConns p D.conns a b q)
  · intro q u v
    rw [Bool.eq_iff_iff, connectedIn_iff, connectedIn_iff]
    exact mem_flipConns p D.conns u v q

/-! ## well-formed designs (what the driver checks before answering) -/

structure Design.WF (D : Design) : Prop where
  slices : D.SlicesOk
  keyInj : ∀ i j, i < D.objs.length → j < D.objs.length → (D.obj i).key = (D.obj j).key → i = j
  wrange : ∀ w ∈ D.writes, w.2 < D.objs.length
  wsig : ∀ w ∈ D.writes, (D.obj w.2).kind ≠ .const

theorem Design.obj_eq_getElem (D : Design) {i : Nat} (hi : i < D.objs.length) : D.obj i = D.objs[i] := by
  unfold Design.obj
  rw [List.getD_eq_getElem?_getD, List.getElem?_eq_getElem hi]; rfl

theorem Design.mem_writes (D : Design) (b o : Nat) :
    (b, o) ∈ D.writes ↔ ∃ blk, D.blks[b]? = some blk ∧ ∃ op, (o, op) ∈ blk.writes := by
  unfold Design.writes
  simp only [List.mem_flatMap, List.mem_range, List.mem_map, Prod.mk.injEq]
  constructor
  · rintro ⟨b', hb', ⟨o', op⟩, hw, rfl, rfl⟩
    refine ⟨D.blks[b'], by simp [hb'], op, ?_⟩
    rw [List.getD_eq_getElem?_getD, List.getElem?_eq_getElem hb'] at hw
    exact hw
  · rintro ⟨blk, hblk, op, hw⟩
    have hb : b < D.blks.length := by
      rcases Nat.lt_or_ge b D.blks.length with h | h
      · exact h
      · rw [List.getElem?_eq_none h] at hblk; cases hblk
    refine ⟨b, hb, (o, op), ?_, rfl, rfl⟩
    rw [List.getD_eq_getElem?_getD, hblk]
    exact hw

theorem wf_sound {D : Design} (h : D.wf = true) : D.WF := by
  unfold Design.wf at h
  simp only [Bool.and_eq_true, decide_eq_true_eq, List.all_eq_true, bne_iff_ne, ne_eq] at h
  obtain ⟨⟨⟨⟨hk, hs⟩, _⟩, hb⟩, _⟩ := h
  refine ⟨?_, ?_, ?_, ?_⟩
  · intro o ho s hsl
    have := hs o ho
    rw [hsl] at this
    simpa using this
  · intro i j hi hj hkey
    have hnd : (D.objs.map Obj.key).Nodup := hk ▸ nodup_dedup _
    rw [D.obj_eq_getElem hi, D.obj_eq_getElem hj] at hkey
    have hi' : i < (D.objs.map Obj.key).length := by simpa using hi
    have hj' : j < (D.objs.map Obj.key).length := by simpa using hj
    have : (D.objs.map Obj.key)[i] = (D.objs.map Obj.key)[j] := by simpa using hkey
    exact (List.getElem_inj hnd).mp this
  · rintro ⟨b, o⟩ hw
    obtain ⟨blk, hblk, op, hw'⟩ := (D.mem_writes b o).mp hw
    have := (hb blk (List.mem_of_getElem? hblk)).1.2 (o, op) hw'
    exact this.1
  · rintro ⟨b, o⟩ hw
    obtain ⟨blk, hblk, op, hw'⟩ := (D.mem_writes b o).mp hw
    have := (hb blk (List.mem_of_getElem? hblk)).1.2 (o, op) hw'
    exact this.2

/-! ## `_check_upblk_writes` -/

/-- two different update blocks write related objects -/
def BlockConflict (D : Design) : Prop :=
  ∃ b1 o1 b2 o2, (b1, o1) ∈ D.writes ∧ (b2, o2) ∈ D.writes ∧ b1 ≠ b2 ∧ D.rel o1 o2 = true

theorem mem_writersOf (D : Design) (o b : Nat) : b ∈ writersOf D o ↔ (b, o) ∈ D.writes := by
  unfold writersOf
  rw [mem_dedup]
  simp only [List.mem_map, List.mem_filter, beq_iff_eq]
  constructor
  · rintro ⟨⟨b', o'⟩, ⟨hw, rfl⟩, rfl⟩; exact hw
  · intro h; exact ⟨(b, o), ⟨h, rfl⟩, rfl⟩

theorem mem_writtenObjs (D : Design) (o : Nat) : o ∈ writtenObjs D ↔ ∃ b, (b, o) ∈ D.writes := by
  unfold writtenObjs
  rw [mem_dedup]
  simp only [List.mem_map]
  constructor
  · rintro ⟨⟨b, o'⟩, hw, rfl⟩; exact ⟨b, hw⟩
  · rintro ⟨b, hw⟩; exact ⟨(b, o), hw, rfl⟩

theorem head?_mem_some {l : List Nat} (h : l ≠ []) : ∃ b, l.head? = some b ∧ b ∈ l := by
  cases l with
  | nil => exact absurd rfl h
  | cons b r => exact ⟨b, rfl, List.mem_cons_self ..⟩

theorem two_of_length {l : List Nat} (hnd : l.Nodup) (h : 1 < l.length) : ∃ a b, a ∈ l ∧ b ∈ l ∧ a ≠ b := by
  match l, hnd, h with
  | a :: b :: r, hnd, _ =>
    refine ⟨a, b, by simp, by simp, ?_⟩
    intro e; subst e
    exact (List.nodup_cons.mp hnd).1 (List.mem_cons_self ..)

theorem length_of_two {l : List Nat} {a b : Nat} (ha : a ∈ l) (hb : b ∈ l) (hne : a ≠ b) : 1 < l.length := by
  have := length_ge_two_of_mem ha hb hne
  omega

theorem related_self (a : Obj) (hk : a.kind ≠ .const) (hs : SliceOk a) : related a a = true := by
  unfold related
  have : (a.kind != .const) = true := by simpa using hk
  simp only [this, Bool.true_and, beq_self_eq_true]
  cases hA : a.slice with
  | none => simp [(isPrefix_iff a.fields a.fields).mpr (List.prefix_refl _)]
  | some x =>
    unfold overlap
    have := hs x hA
    simp [this]

theorem related_of_struct {x o : Obj} (hx : x.kind ≠ .const) (ho : o.kind ≠ .const)
    (h : properAnc x o = true ∨ sibOverlap x o = true) : related x o = true := by
  unfold related
  have h1 : (x.kind != .const) = true := by simpa using hx
  have h2 : (o.kind != .const) = true := by simpa using ho
  rcases h with h | h
  · unfold properAnc at h
    simp only [Bool.and_eq_true, Bool.or_eq_true, beq_iff_eq, decide_eq_true_eq, Option.isNone_iff_eq_none] at h
    obtain ⟨⟨⟨hsid, hsl⟩, hp⟩, _⟩ := h
    simp only [h1, h2, hsid, beq_self_eq_true, Bool.true_and, hsl]
    cases o.slice <;> simp [hp]
  · unfold sibOverlap at h
    simp only [Bool.and_eq_true, beq_iff_eq] at h
    obtain ⟨⟨hsid, hf⟩, hm⟩ := h
    simp only [h1, h2, hsid, beq_self_eq_true, Bool.true_and]
    cases hX : x.slice with
    | none => rw [hX] at hm; cases o.slice <;> simp at hm
    | some a =>
      cases hO : o.slice with
      | none => rw [hX, hO] at hm; simp at hm
      | some b =>
        rw [hX, hO] at hm
        simp only at hm ⊢
        simp [hf, hm]

theorem struct_of_related {x o : Obj} (h : related x o = true) (hkey : x.key ≠ o.key) :
    properAnc x o = true ∨ properAnc o x = true ∨ sibOverlap x o = true := by
  unfold related at h
  simp only [Bool.and_eq_true, bne_iff_ne, ne_eq, beq_iff_eq] at h
  obtain ⟨⟨⟨_, _⟩, hsid⟩, hm⟩ := h
  unfold properAnc sibOverlap
  cases hX : x.slice with
  | none =>
    cases hO : o.slice with
    | none =>
      rw [hX, hO] at hm
      simp only [Bool.or_eq_true] at hm
      rcases hm with hm | hm
      · have hp := (isPrefix_iff _ _).mp hm
        rcases Nat.lt_or_ge x.fields.length o.fields.length with hl | hl
        · left; simp [hsid, hm, hl]
        · exfalso
          apply hkey
          have : x.fields = o.fields := hp.eq_of_length_le hl
          unfold Obj.key
          rw [hsid, this, hX, hO]
      · have hp := (isPrefix_iff _ _).mp hm
        rcases Nat.lt_or_ge o.fields.length x.fields.length with hl | hl
        · right; left; simp [hsid, hm, hl]
        · exfalso
          apply hkey
          have : o.fields = x.fields := hp.eq_of_length_le hl
          unfold Obj.key
          rw [hsid, this, hX, hO]
    | some b =>
      rw [hX, hO] at hm
      left; simp [hsid, hm]
  | some a =>
    cases hO : o.slice with
    | none =>
      rw [hX, hO] at hm
      right; left; simp [hsid, hm]
    | some b =>
      rw [hX, hO] at hm
      simp only [Bool.and_eq_true, beq_iff_eq] at hm
      right; right; simp [hsid, hm.1, hm.2]

theorem sibOverlap_symm {x o : Obj} (hx : SliceOk x) (ho : SliceOk o) (h : sibOverlap x o = true) : sibOverlap o x = true := by
  unfold sibOverlap at h ⊢
  simp only [Bool.and_eq_true, beq_iff_eq] at h ⊢
  obtain ⟨⟨h1, h2⟩, h3⟩ := h
  refine ⟨⟨h1.symm, h2.symm⟩, ?_⟩
  cases hX : x.slice with
  | none => rw [hX] at h3; simp at h3
  | some a =>
    cases hO : o.slice with
    | none => rw [hX, hO] at h3; simp at h3
    | some b =>
      rw [hX, hO] at h3
      simp only at h3 ⊢
      rw [overlap_symm b a (ho b hO) (hx a hX)]; exact h3

/-- `_check_upblk_writes` raises iff two different blocks write related objects -/
theorem upblk_iff (D : Design) (hwf : D.WF) : upblkErrs D ≠ [] ↔ BlockConflict D := by
  have hne : upblkErrs D ≠ [] ↔ (writtenObjs D).any (upblkErrObj D) = true := by
    unfold upblkErrs
    split <;> simp_all
  rw [hne, List.any_eq_true]
  have hsig : ∀ o, o ∈ writtenObjs D → (D.obj o).kind ≠ .const := by
    intro o ho
    obtain ⟨b, hb⟩ := (mem_writtenObjs D o).mp ho
    exact hwf.wsig _ hb
  have fires_len : ∀ o b1 b2, (b1, o) ∈ D.writes → (b2, o) ∈ D.writes → b1 ≠ b2 →
      ∃ o' ∈ writtenObjs D, upblkErrObj D o' = true := by
    intro o b1 b2 h1 h2 hne
    refine ⟨o, (mem_writtenObjs D o).mpr ⟨b1, h1⟩, ?_⟩
    unfold upblkErrObj
    have := length_of_two ((mem_writersOf D o b1).mpr h1) ((mem_writersOf D o b2).mpr h2) hne
    simp [this]
  constructor
  · rintro ⟨o, ho, hf⟩
    unfold upblkErrObj at hf
    simp only [Bool.or_eq_true, decide_eq_true_eq, List.any_eq_true, Bool.and_eq_true, bne_iff_ne, ne_eq] at hf
    rcases hf with hf | ⟨x, hx, ⟨hxo, hst⟩, hhead⟩
    · obtain ⟨b1, b2, h1, h2, hne⟩ := two_of_length (nodup_dedup _) hf
      exact ⟨b1, o, b2, o, (mem_writersOf D o b1).mp h1, (mem_writersOf D o b2).mp h2, hne,
        related_self _ (hsig o ho) (D.obj_sliceOk hwf.slices o)⟩
    · obtain ⟨bx, hbx⟩ := (mem_writtenObjs D x).mp hx
      obtain ⟨bo, hbo⟩ := (mem_writtenObjs D o).mp ho
      have nx : writersOf D x ≠ [] := List.ne_nil_of_mem ((mem_writersOf D x bx).mpr hbx)
      have no : writersOf D o ≠ [] := List.ne_nil_of_mem ((mem_writersOf D o bo).mpr hbo)
      obtain ⟨c1, hc1, hm1⟩ := head?_mem_some nx
      obtain ⟨c2, hc2, hm2⟩ := head?_mem_some no
      rw [hc1, hc2] at hhead
      refine ⟨c1, x, c2, o, (mem_writersOf D x c1).mp hm1, (mem_writersOf D o c2).mp hm2, ?_, ?_⟩
      · intro e; apply hhead; rw [e]
      · exact related_of_struct (hsig x hx) (hsig o ho) (by simpa using hst)
  · rintro ⟨b1, o1, b2, o2, h1, h2, hne, hrel⟩
    by_cases ho : o1 = o2
    · subst ho; exact fires_len o1 b1 b2 h1 h2 hne
    · have hk : (D.obj o1).key ≠ (D.obj o2).key := fun e =>
        ho (hwf.keyInj o1 o2 (hwf.wrange _ h1) (hwf.wrange _ h2) e)
      have m1 := (mem_writtenObjs D o1).mpr ⟨b1, h1⟩
      have m2 := (mem_writtenObjs D o2).mpr ⟨b2, h2⟩
      have n1 : writersOf D o1 ≠ [] := List.ne_nil_of_mem ((mem_writersOf D o1 b1).mpr h1)
      have n2 : writersOf D o2 ≠ [] := List.ne_nil_of_mem ((mem_writersOf D o2 b2).mpr h2)
      obtain ⟨c1, hc1, hm1⟩ := head?_mem_some n1
      obtain ⟨c2, hc2, hm2⟩ := head?_mem_some n2
      by_cases hcc : c1 = c2
      · subst hcc
        by_cases hb : b1 = c1
        · subst hb
          exact fires_len o2 b2 b1 h2 ((mem_writersOf D o2 b1).mp hm2) (Ne.symm hne)
        · exact fires_len o1 b1 c1 h1 ((mem_writersOf D o1 c1).mp hm1) hb
      · have hheads : (writersOf D o1).head? ≠ (writersOf D o2).head? := by
          rw [hc1, hc2]; intro e; cases e; exact hcc rfl
        have fire : ∀ x o, x ∈ writtenObjs D → o ∈ writtenObjs D → x ≠ o →
            (properAnc (D.obj x) (D.obj o) = true ∨ sibOverlap (D.obj x) (D.obj o) = true) →
            (writersOf D x).head? ≠ (writersOf D o).head? → ∃ o' ∈ writtenObjs D, upblkErrObj D o' = true := by
          intro x o hx ho' hxo hst hh
          refine ⟨o, ho', ?_⟩
          unfold upblkErrObj
          simp only [Bool.or_eq_true, decide_eq_true_eq, List.any_eq_true, Bool.and_eq_true, bne_iff_ne, ne_eq]
          exact Or.inr ⟨x, hx, ⟨hxo, by simpa using hst⟩, hh⟩
        rcases struct_of_related hrel hk with hs | hs | hs
        · exact fire o1 o2 m1 m2 ho (Or.inl hs) hheads
        · exact fire o2 o1 m2 m1 (Ne.symm ho) (Or.inl hs) (Ne.symm hheads)
        · exact fire o1 o2 m1 m2 ho (Or.inr hs) hheads

/-- update block `b` writes an object that contains bit `bit` -/
def BlkDrives (D : Design) (b : Nat) (bit : Bit) : Prop := ∃ o, (b, o) ∈ D.writes ∧ covers (D.obj o) bit

/-- … iff some signal bit is written by two different update blocks -/
theorem upblk_iff_bits (D : Design) (L : Leaves) (hwf : D.WF) (hL : ∀ w ∈ D.writes, WfObj L (D.obj w.2)) :
    upblkErrs D ≠ [] ↔ ∃ bit b1 b2, b1 ≠ b2 ∧ ValidBit L bit ∧ BlkDrives D b1 bit ∧ BlkDrives D b2 bit := by
  rw [upblk_iff D hwf]
  constructor
  · rintro ⟨b1, o1, b2, o2, h1, h2, hne, hrel⟩
    obtain ⟨bit, hv, c1, c2⟩ := (related_iff_overlap L _ _ (hL _ h1) (hL _ h2)).mp hrel
    exact ⟨bit, b1, b2, hne, hv, ⟨o1, h1, c1⟩, ⟨o2, h2, c2⟩⟩
  · rintro ⟨bit, b1, b2, hne, hv, ⟨o1, h1, c1⟩, ⟨o2, h2, c2⟩⟩
    exact ⟨b1, o1, b2, o2, h1, h2, hne, (related_iff_overlap L _ _ (hL _ h1) (hL _ h2)).mpr ⟨bit, hv, c1, c2⟩⟩

/-! ## decision tables against declarative readings -/

/-- the assignment a block may make to a signal: `@=` in `update`; `<<=` on a top-level signal in
`update_ff` -/
def LegalOp (ff : Bool) (op : Op) (isTop : Bool) : Prop :=
  (ff = false ∧ op = .at) ∨ (ff = true ∧ op = .ff ∧ isTop = true)

theorem opErr_none_iff (ff : Bool) (op : Op) (isTop : Bool) : opErr ff op isTop = none ↔ LegalOp ff op isTop := by
  unfold opErr LegalOp
  cases ff <;> cases op <;> cases isTop <;> simp

/-- which error class the operator table gives -/
theorem opErr_class (ff : Bool) (op : Op) (isTop : Bool) (e : Err) (h : opErr ff op isTop = some e) :
    (ff = false ∧ e = .updateBlockWrite) ∨ (ff = true ∧ op ≠ .ff ∧ e = .updateFFBlockWrite) ∨
    (ff = true ∧ op = .ff ∧ isTop = false ∧ e = .updateFFNonTop) := by
  unfold opErr at h
  cases ff <;> cases op <;> cases isTop <;> simp at h <;> simp [← h]

def OpDefect (D : Design) : Prop :=
  ∃ b ∈ D.blks, ∃ w ∈ b.writes, ¬ LegalOp b.ff w.2 (D.obj w.1).isTop

theorem opErrs_iff (D : Design) : opErrs D ≠ [] ↔ OpDefect D := by
  unfold opErrs OpDefect
  constructor
  · intro h
    obtain ⟨e, he⟩ := List.exists_mem_of_ne_nil _ h
    simp only [List.mem_flatMap, List.mem_filterMap] at he
    obtain ⟨b, hb, w, hw, hs⟩ := he
    refine ⟨b, hb, w, hw, ?_⟩
    rw [← opErr_none_iff]; rw [hs]; simp
  · rintro ⟨b, hb, w, hw, hl⟩
    rw [← opErr_none_iff] at hl
    cases he : opErr b.ff w.2 (D.obj w.1).isTop with
    | none => exact absurd he hl
    | some e =>
      apply List.ne_nil_of_mem (a := e)
      simp only [List.mem_flatMap, List.mem_filterMap]
      exact ⟨b, hb, w, hw, he⟩

/-- what a block of component `h` may read: anything but a wire of another component -/
def LegalRead (D : Design) (h o : Nat) : Prop := (D.obj o).kind = .wire → (D.obj o).host = h

/-- what a block of component `h` may write: its own output ports and wires, the input ports of
its children -/
def LegalWrite (D : Design) (h o : Nat) : Prop :=
  match (D.obj o).kind with
  | .inp => D.parent (D.obj o).host = some h
  | .outp => (D.obj o).host = h
  | .wire => (D.obj o).host = h
  | .const => True

theorem readErr_none_iff (D : Design) (h o : Nat) : readErr D h o = none ↔ LegalRead D h o := by
  unfold readErr LegalRead
  cases hk : (D.obj o).kind <;> simp [hk]

theorem writeErr_none_iff (D : Design) (h o : Nat) : writeErr D h o = none ↔ LegalWrite D h o := by
  unfold writeErr LegalWrite
  cases hk : (D.obj o).kind <;> simp [hk]

theorem writeErr_type (D : Design) (h o : Nat) (e : Err) (he : writeErr D h o = some e) :
    ((D.obj o).kind = .inp ∧ e = .signalType 2) ∨ ((D.obj o).kind = .outp ∧ e = .signalType 3) ∨
    ((D.obj o).kind = .wire ∧ e = .signalType 4) := by
  unfold writeErr at he
  cases hk : (D.obj o).kind <;> simp [hk] at he <;> simp [← he.2]

def PortUpblkDefect (D : Design) : Prop :=
  (∃ b ∈ D.blks, ∃ r ∈ b.reads, ¬ LegalRead D b.host r) ∨ (∃ b ∈ D.blks, ∃ w ∈ b.writes, ¬ LegalWrite D b.host w.1)

theorem portUpblkErrs_iff (D : Design) : portUpblkErrs D ≠ [] ↔ PortUpblkDefect D := by
  unfold portUpblkErrs PortUpblkDefect
  constructor
  · intro h
    obtain ⟨e, he⟩ := List.exists_mem_of_ne_nil _ h
    simp only [List.mem_append, List.mem_flatMap, List.mem_filterMap] at he
    rcases he with ⟨b, hb, r, hr, hs⟩ | ⟨b, hb, w, hw, hs⟩
    · left; refine ⟨b, hb, r, hr, ?_⟩; rw [← readErr_none_iff, hs]; simp
    · right; refine ⟨b, hb, w, hw, ?_⟩; rw [← writeErr_none_iff, hs]; simp
  · rintro (⟨b, hb, r, hr, hl⟩ | ⟨b, hb, w, hw, hl⟩)
    · rw [← readErr_none_iff] at hl
      cases he : readErr D b.host r with
      | none => exact absurd he hl
      | some e =>
        apply List.ne_nil_of_mem (a := e)
        simp only [List.mem_append, List.mem_flatMap, List.mem_filterMap]
        exact Or.inl ⟨b, hb, r, hr, he⟩
    · rw [← writeErr_none_iff] at hl
      cases he : writeErr D b.host w.1 with
      | none => exact absurd he hl
      | some e =>
        apply List.ne_nil_of_mem (a := e)
        simp only [List.mem_append, List.mem_flatMap, List.mem_filterMap]
        exact Or.inr ⟨b, hb, w, hw, he⟩

/-- the data flows `_check_port_in_nets` allows along one connection, `u` being nearer to the
writer than `v`: inside a component to its output ports and wires (or from an output port back to
an input port when the connection was made in the parent); from a child's output port up to the
parent's output ports and wires; from the parent down into a child's input port; from an output
port of one child to an input port of a sibling -/
def LegalFlow (D : Design) (u v : Nat) : Prop :=
  let ku := (D.obj u).kind; let kv := (D.obj v).kind
  let wh := (D.obj u).host; let rh := (D.obj v).host
  (wh = rh ∧ (kv = .outp ∨ kv = .wire ∨
      (ku = .outp ∧ kv = .inp ∧ ∃ p, D.parent wh = some p ∧ connectedIn D p u v = true))) ∨
  (wh ≠ rh ∧ D.parent wh = some rh ∧ ku = .outp ∧ (kv = .outp ∨ kv = .wire)) ∨
  (wh ≠ rh ∧ D.parent wh ≠ some rh ∧ D.parent rh = some wh ∧ kv = .inp) ∨
  (wh ≠ rh ∧ D.parent wh ≠ some rh ∧ D.parent rh ≠ some wh ∧ D.parent wh = D.parent rh ∧ ku = .outp ∧ kv = .inp)

theorem edgeErr_none_iff (D : Design) (u v : Nat) : edgeErr D u v = none ↔ LegalFlow D u v := by
  unfold edgeErr LegalFlow
  simp only [beq_iff_eq, Bool.or_eq_true, Bool.and_eq_true]
  by_cases h1 : (D.obj u).host = (D.obj v).host
  · simp only [h1, if_true, true_and, ne_eq, not_true_eq_false, false_and, or_false]
    cases hkv : (D.obj v).kind <;> cases hku : (D.obj u).kind <;> simp <;>
      (cases hp : D.parent (D.obj v).host <;> simp) <;> (split <;> simp_all)
  · simp only [h1, if_false, false_and, false_or, ne_eq, not_false_eq_true, true_and]
    by_cases h2 : D.parent (D.obj u).host = some (D.obj v).host
    · simp only [h2, if_true, true_and, not_true_eq_false, false_and, or_false]
      cases hkv : (D.obj v).kind <;> cases hku : (D.obj u).kind <;> simp
    · simp only [h2, if_false, false_and, false_or, not_false_eq_true, true_and]
      by_cases h3 : D.parent (D.obj v).host = some (D.obj u).host
      · simp only [h3, if_true, true_and, not_true_eq_false, false_and, or_false]
        cases hkv : (D.obj v).kind <;> simp
      · simp only [h3, if_false, false_and, false_or, not_false_eq_true, true_and]
        by_cases h4 : D.parent (D.obj u).host = D.parent (D.obj v).host
        · simp only [h4, if_true, true_and]
          cases hkv : (D.obj v).kind <;> cases hku : (D.obj u).kind <;> simp
        · simp [h4]

/-! ## the verdict of `elaborate` -/

/-- a net none of whose members is driven from elsewhere -/
def NoWriter (D : Design) : Prop := ∃ N ∈ D.nets, ∀ x ∈ N, ¬ Src D (rep N) x

/-- a connection that is walked from a net's writer in a direction the port table forbids
(the walk itself is the model's rendering of the code's traversal, not specified further) -/
def PortNetDefect (D : Design) : Prop :=
  ∃ st, resolve D = .ok st ∧ ∃ wn ∈ st.headed,
    ∃ p ∈ walk (fun u => sortDedup (adj (simple D.edges) u)) (wn.2.length + 1) [wn.1] [wn.1], ¬ LegalFlow D p.1 p.2

theorem drivenBy_of_src {D : Design} {st : RState} (hI : Inv D st) (hP : Part D st [])
    (hfin : ∀ N ∈ st.headless, N.filter (drivenBy D st.marks) = []) {r x : Nat} (h : Src D r x) :
    drivenBy D st.marks x = true := by
  rcases (src_iff_srcT hI hP hfin r x).mp h with h | ⟨m, hm, _, hr⟩
  · exact (drivenBy_iff D _ x).mpr (Or.inl h)
  · exact (drivenBy_iff D _ x).mpr (Or.inr ⟨m, hm, hr⟩)

theorem net_split {D : Design} {st : RState} (hP : Part D st []) {N : List Nat} (hN : N ∈ D.nets) :
    (∃ w, (w, N) ∈ st.headed) ∨ N ∈ st.headless := by
  have := hP.mem_iff.mpr hN
  simp only [List.append_nil, List.mem_append, List.mem_map] at this
  rcases this with ⟨wn, hwn, rfl⟩ | h
  · exact Or.inl ⟨wn.1, hwn⟩
  · exact Or.inr h

/-- writer resolution raises `MultiWriterError` iff some net has two independently driven members -/
theorem resolve_error_iff (D : Design) (hsym : ∀ i j, D.rel i j = D.rel j i) :
    (∃ e, resolve D = .error e) ↔ Bad D := by
  obtain ⟨hok, herr⟩ := resolve_spec hsym
  constructor
  · rintro ⟨e, he⟩; exact (herr e he).2
  · rintro ⟨N, hN, x, hx, y, hy, hne, sx, sy⟩
    cases hr : resolve D with
    | error e => exact ⟨e, rfl⟩
    | ok st =>
      exfalso
      obtain ⟨hI, hP, hfin⟩ := hok st hr
      rcases net_split hP hN with ⟨w, hh⟩ | hl
      · have h1 := hI.key _ hh x hx ((src_iff_srcT hI hP hfin _ _).mp sx)
        have h2 := hI.key _ hh y hy ((src_iff_srcT hI hP hfin _ _).mp sy)
        exact hne (h1.trans h2.symm)
      · have hm : x ∈ N.filter (drivenBy D st.marks) :=
          List.mem_filter.mpr ⟨hx, drivenBy_of_src hI hP hfin sx⟩
        rw [hfin N hl] at hm
        cases hm

/-- nets are left without a writer iff some net has no independently driven member -/
theorem resolve_headless_iff (D : Design) (hsym : ∀ i j, D.rel i j = D.rel j i) {st : RState}
    (hr : resolve D = .ok st) : st.headless ≠ [] ↔ NoWriter D := by
  obtain ⟨hI, hP, hfin⟩ := (resolve_spec hsym).1 st hr
  constructor
  · intro h
    obtain ⟨N, hN⟩ := List.exists_mem_of_ne_nil _ h
    have hNn : N ∈ D.nets := hP.mem_iff.mp (by simp [hN])
    refine ⟨N, hNn, ?_⟩
    intro x hx hs
    have hm : x ∈ N.filter (drivenBy D st.marks) := List.mem_filter.mpr ⟨hx, drivenBy_of_src hI hP hfin hs⟩
    rw [hfin N hN] at hm
    cases hm
  · rintro ⟨N, hN, hno⟩
    rcases net_split hP hN with ⟨w, hh⟩ | hl
    · exact absurd (hI.srcT_sound (hI.wsrc _ hh)) (hno w (hI.hnets _ hh).2.1)
    · exact List.ne_nil_of_mem hl

theorem portNetErrs_iff (D : Design) (hd : List (Nat × List Nat)) :
    portNetErrs D hd ≠ [] ↔ ∃ wn ∈ hd,
      ∃ p ∈ walk (fun u => sortDedup (adj (simple D.edges) u)) (wn.2.length + 1) [wn.1] [wn.1], ¬ LegalFlow D p.1 p.2 := by
  unfold portNetErrs
  constructor
  · intro h
    obtain ⟨e, he⟩ := List.exists_mem_of_ne_nil _ h
    simp only [List.mem_flatMap, List.mem_filterMap] at he
    obtain ⟨wn, hwn, p, hp, hs⟩ := he
    refine ⟨wn, hwn, p, hp, ?_⟩
    rw [← edgeErr_none_iff, hs]; simp
  · rintro ⟨wn, hwn, p, hp, hl⟩
    rw [← edgeErr_none_iff] at hl
    cases he : edgeErr D p.1 p.2 with
    | none => exact absurd he hl
    | some e =>
      apply List.ne_nil_of_mem (a := e)
      simp only [List.mem_flatMap, List.mem_filterMap]
      exact ⟨wn, hwn, p, hp, he⟩

/-- a structural defect, stated without reference to any processing order except for the walk of
`PortNetDefect` -/
def Defect (D : Design) : Prop :=
  OpDefect D ∨ HasCycle (simple D.edges) ∨ Bad D ∨ BlockConflict D ∨ PortUpblkDefect D ∨ NoWriter D ∨ PortNetDefect D

theorem isEmpty_false_iff {α : Type} (l : List α) : (!l.isEmpty) = true ↔ l ≠ [] := by
  cases l <;> simp

/-- the model rejects a design iff it has a structural defect -/
theorem verdict_iff (D : Design) (hwf : D.WF) : (elaborate D).verdict.isSome = true ↔ Defect D := by
  have hsym := D.rel_symm hwf.slices
  have hv : ∀ o : Outcome, o.verdict.isSome = true ↔ o.errs ≠ [] := by
    intro o; unfold Outcome.verdict; cases o.errs <;> simp
  rw [hv]
  unfold elaborate Defect
  by_cases h1 : opErrs D ≠ []
  · simp only [(isEmpty_false_iff _).mpr h1, if_true]
    exact ⟨fun _ => Or.inl ((opErrs_iff D).mp h1), fun _ => h1⟩
  · have h1' : (!(opErrs D).isEmpty) = false := by
      cases h : opErrs D with
      | nil => rfl
      | cons a l => exact absurd (by rw [h]; simp) h1
    have n1 : ¬ OpDefect D := fun h => h1 ((opErrs_iff D).mpr h)
    simp only [h1', Bool.false_eq_true, if_false]
    by_cases h2 : hasLoop D.edges = true
    · simp only [h2, if_true]
      exact ⟨fun _ => Or.inr (Or.inl ((cyc_iff _).mp h2)), fun _ => by simp⟩
    · have n2 : ¬ HasCycle (simple D.edges) := fun h => h2 ((cyc_iff _).mpr h)
      simp only [h2]
      cases hr : resolve D with
      | error e =>
        simp only
        exact ⟨fun _ => Or.inr (Or.inr (Or.inl ((resolve_error_iff D hsym).mp ⟨e, hr⟩))), fun _ => by simp⟩
      | ok st =>
        have n3 : ¬ Bad D := by
          intro h
          obtain ⟨e, he⟩ := (resolve_error_iff D hsym).mpr h
          rw [hr] at he; cases he
        simp only
        by_cases h4 : upblkErrs D ≠ []
        · simp only [(isEmpty_false_iff _).mpr h4, if_true]
          exact ⟨fun _ => Or.inr (Or.inr (Or.inr (Or.inl ((upblk_iff D hwf).mp h4)))), fun _ => h4⟩
        · have h4' : (!(upblkErrs D).isEmpty) = false := by
            cases h : upblkErrs D with
            | nil => rfl
            | cons a l => exact absurd (by rw [h]; simp) h4
          have n4 : ¬ BlockConflict D := fun h => h4 ((upblk_iff D hwf).mpr h)
          simp only [h4', Bool.false_eq_true, if_false]
          by_cases h5 : portUpblkErrs D ≠ []
          · simp only [(isEmpty_false_iff _).mpr h5, if_true]
            exact ⟨fun _ => Or.inr (Or.inr (Or.inr (Or.inr (Or.inl ((portUpblkErrs_iff D).mp h5))))), fun _ => h5⟩
          · have h5' : (!(portUpblkErrs D).isEmpty) = false := by
              cases h : portUpblkErrs D with
              | nil => rfl
              | cons a l => exact absurd (by rw [h]; simp) h5
            have n5 : ¬ PortUpblkDefect D := fun h => h5 ((portUpblkErrs_iff D).mpr h)
            simp only [h5', Bool.false_eq_true, if_false]
            by_cases h6 : st.headless ≠ []
            · simp only [(isEmpty_false_iff _).mpr h6, if_true]
              exact ⟨fun _ => Or.inr (Or.inr (Or.inr (Or.inr (Or.inr (Or.inl ((resolve_headless_iff D hsym hr).mp h6)))))),
                fun _ => by simp⟩
            · have h6' : (!st.headless.isEmpty) = false := by
                cases h : st.headless with
                | nil => rfl
                | cons a l => exact absurd (by rw [h]; simp) h6
              have n6 : ¬ NoWriter D := fun h => h6 ((resolve_headless_iff D hsym hr).mpr h)
              simp only [h6', Bool.false_eq_true, if_false]
              by_cases h7 : portNetErrs D st.headed ≠ []
              · simp only [(isEmpty_false_iff _).mpr h7, if_true]
                refine ⟨fun _ => ?_, fun _ => h7⟩
                exact Or.inr (Or.inr (Or.inr (Or.inr (Or.inr (Or.inr ⟨st, hr, (portNetErrs_iff D _).mp h7⟩)))))
              · have h7' : (!(portNetErrs D st.headed).isEmpty) = false := by
                  cases h : portNetErrs D st.headed with
                  | nil => rfl
                  | cons a l => exact absurd (by rw [h]; simp) h7
                simp only [h7', Bool.false_eq_true, if_false]
                constructor
                · intro h; exact absurd rfl h
                · rintro (h | h | h | h | h | h | ⟨st', hr', h⟩)
                  · exact absurd h n1
                  · exact absurd h n2
                  · exact absurd h n3
                  · exact absurd h n4
                  · exact absurd h n5
                  · exact absurd h n6
                  · rw [hr] at hr'; cases hr'
                    exact absurd ((portNetErrs_iff D _).mpr h) h7

/-! ## the class of the verdict -/

theorem readErr_type (D : Design) (h o : Nat) (e : Err) (he : readErr D h o = some e) : e = .signalType 1 := by
  unfold readErr at he
  simp only at he
  split at he
  · cases he; rfl
  · cases he

theorem edgeErr_type (D : Design) (u v : Nat) (e : Err) (he : edgeErr D u v = some e) :
    e = .invalidConnection ∨ ∃ k, 5 ≤ k ∧ k ≤ 9 ∧ e = .signalType k := by
  unfold edgeErr at he
  simp only at he
  repeat' split at he
  all_goals first
    | (cases he; exact Or.inl rfl)
    | (cases he; exact Or.inr ⟨_, by omega, by omega, rfl⟩)
    | cases he

def Err.isOp : Err → Bool
  | .updateBlockWrite | .updateFFBlockWrite | .updateFFNonTop => true
  | _ => false

theorem isEmpty_not_true {α : Type} {l : List α} (h : l ≠ []) : (!l.isEmpty) = true := (isEmpty_false_iff l).mpr h
theorem isEmpty_not_false {α : Type} {l : List α} (h : l = []) : (!l.isEmpty) = false := by subst h; rfl

/-- the stage at which `elaborate` stops, and what it reports there -/
theorem elaborate_cases (D : Design) :
    (opErrs D ≠ [] ∧ elaborate D = ⟨1, opErrs D, [], []⟩) ∨
    (opErrs D = [] ∧ hasLoop D.edges = true ∧ elaborate D = ⟨2, [.invalidConnection], [], []⟩) ∨
    (opErrs D = [] ∧ hasLoop D.edges = false ∧ ∃ e, resolve D = .error e ∧ elaborate D = ⟨3, [e], [], []⟩) ∨
    (opErrs D = [] ∧ hasLoop D.edges = false ∧ ∃ st, resolve D = .ok st ∧
      ((upblkErrs D ≠ [] ∧ elaborate D = ⟨4, upblkErrs D, st.headed, st.headless⟩) ∨
       (upblkErrs D = [] ∧ portUpblkErrs D ≠ [] ∧ elaborate D = ⟨5, portUpblkErrs D, st.headed, st.headless⟩) ∨
       (upblkErrs D = [] ∧ portUpblkErrs D = [] ∧ st.headless ≠ [] ∧
          elaborate D = ⟨6, [.noWriter], st.headed, st.headless⟩) ∨
       (upblkErrs D = [] ∧ portUpblkErrs D = [] ∧ st.headless = [] ∧ portNetErrs D st.headed ≠ [] ∧
          elaborate D = ⟨7, portNetErrs D st.headed, st.headed, st.headless⟩) ∨
       (upblkErrs D = [] ∧ portUpblkErrs D = [] ∧ st.headless = [] ∧ portNetErrs D st.headed = [] ∧
          elaborate D = ⟨0, [], st.headed, st.headless⟩))) := by
  by_cases h1 : opErrs D = []
  · right
    have e1 := isEmpty_not_false h1
    by_cases h2 : hasLoop D.edges = true
    · exact Or.inl ⟨h1, h2, by unfold elaborate; simp only [e1, h2, Bool.false_eq_true, if_false, if_true]⟩
    · have h2' : hasLoop D.edges = false := by simpa using h2
      right
      cases hr : resolve D with
      | error e =>
        exact Or.inl ⟨h1, h2', e, rfl, by unfold elaborate; simp only [e1, h2', hr, Bool.false_eq_true, if_false]⟩
      | ok st =>
        right
        refine ⟨h1, h2', st, rfl, ?_⟩
        by_cases h4 : upblkErrs D = []
        · have e4 := isEmpty_not_false h4
          right
          by_cases h5 : portUpblkErrs D = []
          · have e5 := isEmpty_not_false h5
            right
            by_cases h6 : st.headless = []
            · have e6 := isEmpty_not_false h6
              right
              by_cases h7 : portNetErrs D st.headed = []
              · exact Or.inr ⟨h4, h5, h6, h7, by
                  unfold elaborate
                  simp only [e1, h2', hr, e4, e5, e6, isEmpty_not_false h7, Bool.false_eq_true, if_false]⟩
              · exact Or.inl ⟨h4, h5, h6, h7, by
                  unfold elaborate
                  simp only [e1, h2', hr, e4, e5, e6, isEmpty_not_true h7, Bool.false_eq_true, if_false, if_true]⟩
            · exact Or.inl ⟨h4, h5, h6, by
                unfold elaborate
                simp only [e1, h2', hr, e4, e5, isEmpty_not_true h6, Bool.false_eq_true, if_false, if_true]⟩
          · exact Or.inl ⟨h4, h5, by
              unfold elaborate
              simp only [e1, h2', hr, e4, isEmpty_not_true h5, Bool.false_eq_true, if_false, if_true]⟩
        · exact Or.inl ⟨h4, by
            unfold elaborate
            simp only [e1, h2', hr, isEmpty_not_true h4, Bool.false_eq_true, if_false, if_true]⟩
  · exact Or.inl ⟨h1, by unfold elaborate; simp only [isEmpty_not_true h1, if_true]⟩

/-- the class of the error the model reports belongs to the defect that the design has, in the
order in which `elaborate` looks for defects -/
theorem verdict_class (D : Design) (hwf : D.WF) (e : Err) (h : (elaborate D).verdict = some e) :
    (OpDefect D ∧ e.isOp = true) ∨
    (HasCycle (simple D.edges) ∧ e = .invalidConnection) ∨
    ((Bad D ∨ BlockConflict D) ∧ e = .multiWriter) ∨
    (PortUpblkDefect D ∧ ∃ k, 1 ≤ k ∧ k ≤ 4 ∧ e = .signalType k) ∨
    (NoWriter D ∧ e = .noWriter) ∨
    (PortNetDefect D ∧ (e = .invalidConnection ∨ ∃ k, 5 ≤ k ∧ k ≤ 9 ∧ e = .signalType k)) := by
  have hsym := D.rel_symm hwf.slices
  have hm : e ∈ (elaborate D).errs := by
    unfold Outcome.verdict at h; exact List.mem_of_mem_head? h
  rcases elaborate_cases D with ⟨h1, he⟩ | ⟨_, h2, he⟩ | ⟨_, _, e0, hr, he⟩ | ⟨_, _, st, hr, hc⟩
  · rw [he] at hm
    simp only [opErrs, List.mem_flatMap, List.mem_filterMap] at hm
    obtain ⟨b, _, w, _, hs⟩ := hm
    refine Or.inl ⟨(opErrs_iff D).mp h1, ?_⟩
    rcases opErr_class _ _ _ _ hs with ⟨_, rfl⟩ | ⟨_, _, rfl⟩ | ⟨_, _, _, rfl⟩ <;> rfl
  · rw [he] at hm
    simp only [List.mem_singleton] at hm
    exact Or.inr (Or.inl ⟨(cyc_iff _).mp h2, hm⟩)
  · rw [he] at hm
    simp only [List.mem_singleton] at hm
    have := (resolve_spec hsym).2 e0 hr
    exact Or.inr (Or.inr (Or.inl ⟨Or.inl this.2, hm.trans this.1⟩))
  · rcases hc with ⟨h4, he⟩ | ⟨_, h5, he⟩ | ⟨_, _, h6, he⟩ | ⟨_, _, _, h7, he⟩ | ⟨_, _, _, _, he⟩
    · rw [he] at hm
      have : e = .multiWriter := by
        simp only [upblkErrs] at hm
        split at hm
        · simpa using hm
        · cases hm
      exact Or.inr (Or.inr (Or.inl ⟨Or.inr ((upblk_iff D hwf).mp h4), this⟩))
    · rw [he] at hm
      refine Or.inr (Or.inr (Or.inr (Or.inl ⟨(portUpblkErrs_iff D).mp h5, ?_⟩)))
      simp only [portUpblkErrs, List.mem_append, List.mem_flatMap, List.mem_filterMap] at hm
      rcases hm with ⟨b, _, r, _, hs⟩ | ⟨b, _, w, _, hs⟩
      · exact ⟨1, by omega, by omega, readErr_type _ _ _ _ hs⟩
      · rcases writeErr_type _ _ _ _ hs with ⟨_, rfl⟩ | ⟨_, rfl⟩ | ⟨_, rfl⟩
        · exact ⟨2, by omega, by omega, rfl⟩
        · exact ⟨3, by omega, by omega, rfl⟩
        · exact ⟨4, by omega, by omega, rfl⟩
    · rw [he] at hm
      simp only [List.mem_singleton] at hm
      exact Or.inr (Or.inr (Or.inr (Or.inr (Or.inl ⟨(resolve_headless_iff D hsym hr).mp h6, hm⟩))))
    · rw [he] at hm
      refine Or.inr (Or.inr (Or.inr (Or.inr (Or.inr ⟨⟨st, hr, (portNetErrs_iff D _).mp h7⟩, ?_⟩))))
      simp only [portNetErrs, List.mem_flatMap, List.mem_filterMap] at hm
      obtain ⟨_, _, p, _, hs⟩ := hm
      exact edgeErr_type _ _ _ _ hs
    · rw [he] at hm; cases hm

end PV.Nets
