import PymtlVerif.Model.Hier
/-!
# Lemmas about `Model/Hier.lean` used by `Props/C14.lean`
-/
namespace PV.Hier

/-! ## proper prefixes -/

/-- all proper prefixes, shortest first -/
def properPrefixes {α} : List α → List (List α)
  | [] => []
  | a :: l => [] :: (properPrefixes l).map (a :: ·)

theorem properPrefixes_append {α} (a b : List α) :
    properPrefixes (a ++ b) = properPrefixes a ++ (properPrefixes b).map (a ++ ·) := by
  induction a with
  | nil => simp [properPrefixes]
  | cons x a ih => simp [properPrefixes, ih, List.map_map, Function.comp_def]

theorem mem_properPrefixes {α} {q l : List α} :
    q ∈ properPrefixes l ↔ ∃ t r, l = q ++ t :: r := by
  induction l generalizing q with
  | nil => simp [properPrefixes]
  | cons a l ih =>
    simp only [properPrefixes, List.mem_cons, List.mem_map]
    constructor
    · rintro (rfl | ⟨q', hq', rfl⟩)
      · exact ⟨a, l, rfl⟩
      · obtain ⟨t, r, rfl⟩ := ih.1 hq'
        exact ⟨t, r, rfl⟩
    · rintro ⟨t, r, h⟩
      cases q with
      | nil => exact Or.inl rfl
      | cons b q' =>
        simp only [List.cons_append, List.cons.injEq] at h
        obtain ⟨rfl, rfl⟩ := h
        exact Or.inr ⟨q', ih.2 ⟨t, r, rfl⟩, rfl⟩

theorem length_lt_of_mem_properPrefixes {α} {q l : List α} (h : q ∈ properPrefixes l) :
    q.length < l.length := by
  obtain ⟨t, r, rfl⟩ := mem_properPrefixes.1 h
  simp

/-! ## first bindings -/

theorem lookup_of_mem_firsts {β} {l : List (String × β)} {k : String} {v : β}
    (h : (k, v) ∈ firsts l) : l.lookup k = some v := by
  induction l with
  | nil => simp [firsts] at h
  | cons p r ih =>
    obtain ⟨k', v'⟩ := p
    simp only [firsts, List.mem_cons, List.mem_filter] at h
    rcases h with h | ⟨h, hne⟩
    · cases h; simp [List.lookup]
    · have hne' : (k == k') = false := by
        simp only [bne_iff_ne, ne_eq] at hne
        simpa using hne
      simp [List.lookup, hne', ih h]

/-! ## nested-list indexing and the queue walk -/

theorem getPath_append {α} (v : SVal α) (a b : List Nat) :
    getPath v (a ++ b) = (getPath v a).bind (getPath · b) := by
  induction a generalizing v with
  | nil => simp [getPath]
  | cons i r ih =>
    cases v with
    | one d => simp [getPath]
    | many xs =>
      simp only [List.cons_append, getPath]
      cases xs[i]? with
      | none => simp
      | some w => simpa using ih w

theorem getPath_one_cons {α} (d : Node α) (i : Nat) (r : List Nat) : getPath (.one d) (i :: r) = none := rfl

/-- indexing strictly inside the path of a leaf goes through lists only -/
theorem getPath_prefix_many {α} {v : SVal α} {a : List Nat} {i : Nat} {r : List Nat} {d : Node α}
    (h : getPath v (a ++ i :: r) = some (.one d)) : ∃ xs, getPath v a = some (.many xs) := by
  rw [getPath_append] at h
  cases hv : getPath v a with
  | none => simp [hv] at h
  | some w =>
    cases w with
    | one c => simp [hv, getPath] at h
    | many xs => exact ⟨xs, rfl⟩

theorem mem_enumIdx {α} {ix : List Nat} {k : Nat} {xs : List (SVal α)} {v : SVal α} {p : List Nat} :
    (v, p) ∈ enumIdx ix k xs ↔ ∃ i, xs[i]? = some v ∧ p = ix ++ [k + i] := by
  induction xs generalizing k with
  | nil => simp [enumIdx]
  | cons w r ih =>
    simp only [enumIdx, List.mem_cons, Prod.mk.injEq, ih]
    constructor
    · rintro (⟨rfl, rfl⟩ | ⟨i, hi, rfl⟩)
      · exact ⟨0, by simp⟩
      · exact ⟨i + 1, by simpa using hi, by simp; omega⟩
    · rintro ⟨i, hi, rfl⟩
      cases i with
      | zero => left; simpa using hi.symm
      | succ j => right; exact ⟨j, by simpa using hi, by simp; omega⟩

/-- **The queue walk names every leaf with its index path, and nothing else.** -/
theorem mem_bfs {α} (q : List (SVal α × List Nat)) (d : Node α) (ix : List Nat) :
    (d, ix) ∈ bfs q ↔ ∃ v pre suf, (v, pre) ∈ q ∧ ix = pre ++ suf ∧ getPath v suf = some (.one d) := by
  induction q using bfs.induct with
  | case1 => simp [bfs]
  | case2 c jx q ih =>
    rw [bfs]
    simp only [List.mem_cons, Prod.mk.injEq, ih]
    constructor
    · rintro (⟨rfl, rfl⟩ | ⟨v, pre, suf, hm, rfl, hp⟩)
      · exact ⟨.one d, ix, [], Or.inl ⟨rfl, rfl⟩, by simp, rfl⟩
      · exact ⟨v, pre, suf, Or.inr hm, rfl, hp⟩
    · rintro ⟨v, pre, suf, (⟨rfl, rfl⟩ | hm), rfl, hp⟩
      · cases suf with
        | nil => simp [getPath] at hp; left; exact ⟨hp.symm, by simp⟩
        | cons i r => simp [getPath] at hp
      · exact Or.inr ⟨v, pre, suf, hm, rfl, hp⟩
  | case3 xs jx q ih =>
    rw [bfs, ih]
    constructor
    · rintro ⟨v, pre, suf, hm, rfl, hp⟩
      rcases List.mem_append.1 hm with hm | hm
      · exact ⟨v, pre, suf, List.mem_cons_of_mem _ hm, rfl, hp⟩
      · obtain ⟨i, hi, rfl⟩ := mem_enumIdx.1 hm
        refine ⟨.many xs, jx, i :: suf, List.mem_cons_self, by simp, ?_⟩
        simp [getPath, hi, hp]
    · rintro ⟨v, pre, suf, hm, rfl, hp⟩
      rcases List.mem_cons.1 hm with h | hm
      · cases h
        cases suf with
        | nil => simp [getPath] at hp
        | cons i r =>
          simp only [getPath] at hp
          cases hi : xs[i]? with
          | none => simp [hi] at hp
          | some w =>
            simp only [hi] at hp
            exact ⟨w, jx ++ [i], r, List.mem_append_right _ (mem_enumIdx.2 ⟨i, hi, by simp⟩), by simp, hp⟩
      · exact ⟨v, pre, suf, List.mem_append_left _ hm, rfl, hp⟩

theorem mem_setattrNames {α} {sv : SVal α} {d : Node α} {ix : List Nat} :
    (d, ix) ∈ setattrNames sv ↔ getPath sv ix = some (.one d) := by
  cases sv with
  | one c =>
    cases ix with
    | nil => simp [setattrNames, getPath, eq_comm]
    | cons i r => simp [setattrNames, getPath]
  | many xs =>
    simp only [setattrNames, mem_bfs]
    constructor
    · rintro ⟨v, pre, suf, hm, rfl, hp⟩
      obtain ⟨i, hi, rfl⟩ := mem_enumIdx.1 hm
      simp [getPath, hi, hp]
    · intro h
      cases ix with
      | nil => simp [getPath] at h
      | cons i r =>
        simp only [getPath] at h
        cases hi : xs[i]? with
        | none => simp [hi] at h
        | some w =>
          simp only [hi] at h
          exact ⟨w, [i], r, mem_enumIdx.2 ⟨i, hi, by simp⟩, by simp, h⟩

theorem mem_bfs_single {α} {fv : SVal α} {d : Node α} {ix : List Nat} :
    (d, ix) ∈ bfs [(fv, [])] ↔ getPath fv ix = some (.one d) := by
  rw [mem_bfs]
  constructor
  · rintro ⟨v, pre, suf, hm, rfl, hp⟩
    simp at hm; obtain ⟨rfl, rfl⟩ := hm; simpa using hp
  · intro h; exact ⟨fv, [], ix, by simp, by simp, h⟩

/-! ## expression evaluation -/

theorem run_append (st : State) (a b : List Tok) :
    run st (a ++ b) = (run st a).bind (run · b) := by
  induction a generalizing st with
  | nil => simp [run]
  | cons t a ih =>
    simp only [List.cons_append, run]
    cases step st t with
    | none => simp
    | some st' => exact ih st'

theorem run_idx_static {sv w : SVal DTag} {ix : List Nat} (pos : Pos) (h : getPath sv ix = some w) :
    run (pos, toVal sv) (ix.map .idx) = some (pos ++ ix.map .idx, toVal w) := by
  induction ix generalizing sv pos with
  | nil => simp [getPath] at h; simp [run, h]
  | cons i r ih =>
    cases sv with
    | one d => simp [getPath] at h
    | many xs =>
      simp only [getPath] at h
      cases hi : xs[i]? with
      | none => simp [hi] at h
      | some v =>
        simp only [hi] at h
        have hs : step (pos, toVal (.many xs)) (.idx i) = some (pos ++ [.idx i], toVal v) := by
          simp [toVal, step, hi]
        simp only [List.map_cons, run, hs]
        rw [ih (pos ++ [Tok.idx i]) h]; simp

theorem run_idx_field {k : SigKind} {fv w : SVal TTag} {ix : List Nat} (pos : Pos) (h : getPath fv ix = some w) :
    run (pos, toFVal k fv) (ix.map .idx) = some (pos ++ ix.map .idx, toFVal k w) := by
  induction ix generalizing fv pos with
  | nil => simp [getPath] at h; simp [run, h]
  | cons i r ih =>
    cases fv with
    | one d => simp [getPath] at h
    | many xs =>
      simp only [getPath] at h
      cases hi : xs[i]? with
      | none => simp [hi] at h
      | some v =>
        simp only [hi] at h
        have hs : step (pos, toFVal k (.many xs)) (.idx i) = some (pos ++ [.idx i], toFVal k v) := by
          simp [toFVal, step, hi]
        simp only [List.map_cons, run, hs]
        rw [ih (pos ++ [Tok.idx i]) h]; simp

theorem run_slot {d : Desc} {name : String} {sv w : SVal DTag} {ix : List Nat} (pos : Pos)
    (hl : (slotsOf d).lookup name = some sv) (h : getPath sv ix = some w) :
    run (pos, .node d) (suffixOf name ix) = some (pos ++ suffixOf name ix, toVal w) := by
  simp only [suffixOf, run, step, hl, Option.map_some]
  rw [run_idx_static _ h]; simp

theorem run_field {k : SigKind} {fs : List (String × SVal TTag)} {sl : Option (Nat × Nat)} {a : String}
    {fv w : SVal TTag} {ix : List Nat} (pos : Pos)
    (hl : fs.lookup a = some fv) (h : getPath fv ix = some w) :
    run (pos, .sig k (.mk .struct fs) sl) (suffixOf a ix) = some (pos ++ suffixOf a ix, toFVal k w) := by
  simp only [suffixOf, run, step, hl, Option.map_some]
  rw [run_idx_field _ h]; simp

theorem isObj_toVal_one (c : Desc) : (toVal (.one c)).isObj = true := by
  obtain ⟨tag, slots⟩ := c
  cases tag <;> simp [toVal, PyVal.isObj]

theorem kind_toVal_one (c : Desc) : (toVal (.one c)).kind? = some (kindOfTag c.tag) := by
  obtain ⟨tag, slots⟩ := c
  cases tag <;> simp [toVal, PyVal.kind?, Node.tag, kindOfTag]

/-- a proper, non-empty prefix of `.<name>[i]…` names a Python list -/
theorem suffix_prefix_split {name : String} {ix : List Nat} {a : List Tok} {t : Tok} {r : List Tok}
    (h : suffixOf name ix = a ++ t :: r) (ha : a ≠ []) :
    ∃ jx j rx, ix = jx ++ j :: rx ∧ a = suffixOf name jx := by
  cases a with
  | nil => exact absurd rfl ha
  | cons b a' =>
    simp only [suffixOf, List.cons_append, List.cons.injEq] at h
    obtain ⟨rfl, h⟩ := h
    -- ix.map idx = a' ++ t :: r
    obtain ⟨l₁, l₂, rfl, h1, h2⟩ := List.map_eq_append_iff.1 h
    cases l₂ with
    | nil => simp at h2
    | cons j rx =>
      exact ⟨l₁, j, rx, rfl, by simp [suffixOf, h1]⟩

/-! ## what the induction over `Reach` carries -/

structure Inv (root : Desc) (x : Item) : Prop where
  full : x.1.full = .root :: x.1.pos
  hrun : run ([], rootVal root) x.1.pos = some (x.1.pos, x.2)
  obj : x.2.isObj = true
  kind : x.2.kind? = some x.1.kind
  slice : ∀ k ty sl, x.2 = .sig k ty sl → x.1.slice = sl
  noroot : ∀ t ∈ x.1.pos, t ≠ .root

/-- one creation step: `y` is named / created directly under `p` -/
inductive Step (p y : Item) : Prop where
  | slot : y ∈ slotItems p → Step p y
  | field (a : String) : y ∈ fieldItems p a → Step p y
  | slice (lo hi : Nat) : sliceItem p lo hi = some y → Step p y

structure StepFacts (p y : Item) (sfx : List Tok) : Prop where
  full : y.1.full = p.1.full ++ sfx
  pos : y.1.pos = p.1.pos ++ sfx
  hrun : run (p.1.pos, p.2) sfx = some (y.1.pos, y.2)
  mid : ∀ a t r, sfx = a ++ t :: r → a ≠ [] → ∃ st, run (p.1.pos, p.2) a = some st ∧ st.2.isObj = false
  parent : y.1.parent = some p.1.pos
  shape : ∃ t r, sfx = t :: r ∧ t ≠ .root ∧ ∀ u ∈ r, ∃ i, u = .idx i
  obj : y.2.isObj = true
  kind : p.2.kind? = some p.1.kind → y.2.kind? = some y.1.kind
  slice : ∀ k ty sl, y.2 = .sig k ty sl → y.1.slice = sl

theorem mem_slotItems {p y : Item} (h : y ∈ slotItems p) :
    ∃ d name sv c ix, p.2 = .node d ∧ (slotsOf d).lookup name = some sv ∧ isPublic name = true ∧
      getPath sv ix = some (.one c) ∧ y = (childRec p.1 name ix c, toVal (.one c)) := by
  obtain ⟨pr, pv⟩ := p
  cases pv with
  | node d =>
    simp only [slotItems, List.mem_flatMap, List.mem_filter, List.mem_map] at h
    obtain ⟨⟨name, sv⟩, ⟨hm, hpub⟩, ⟨c, ix⟩, hc, rfl⟩ := h
    exact ⟨d, name, sv, c, ix, rfl, lookup_of_mem_firsts hm, hpub, mem_setattrNames.1 hc, rfl⟩
  | lst xs => simp [slotItems] at h
  | sig k ty sl => simp [slotItems] at h
  | flst k xs => simp [slotItems] at h

theorem mem_fieldItems {p y : Item} {a : String} (h : y ∈ fieldItems p a) :
    ∃ k fs sl fv t ix, p.2 = .sig k (.mk .struct fs) sl ∧ fs.lookup a = some fv ∧
      getPath fv ix = some (.one t) ∧ y = (fieldRec p.1 a ix, .sig k t none) := by
  obtain ⟨pr, pv⟩ := p
  cases pv with
  | sig k ty sl =>
    obtain ⟨tag, fs⟩ := ty
    cases tag with
    | bits n => simp [fieldItems] at h
    | struct =>
      simp only [fieldItems] at h
      cases hl : fs.lookup a with
      | none => simp [hl] at h
      | some fv =>
        simp only [hl, List.mem_map] at h
        obtain ⟨⟨t, ix⟩, ht, rfl⟩ := h
        exact ⟨k, fs, sl, fv, t, ix, rfl, hl, mem_bfs_single.1 ht, rfl⟩
  | node d => simp [fieldItems] at h
  | lst xs => simp [fieldItems] at h
  | flst k xs => simp [fieldItems] at h

theorem sliceItem_eq_some {p y : Item} {lo hi : Nat} (h : sliceItem p lo hi = some y) :
    ∃ k n s, p.2 = .sig k (.mk (.bits n) s) none ∧ lo < hi ∧ hi ≤ n ∧
      y = (sliceRec p.1 lo hi, .sig k (.mk (.bits (hi - lo)) []) (some (lo, hi))) := by
  obtain ⟨pr, pv⟩ := p
  cases pv with
  | sig k ty sl =>
    obtain ⟨tag, s⟩ := ty
    cases tag with
    | struct => simp [sliceItem] at h
    | bits n =>
      cases sl with
      | some q => simp [sliceItem] at h
      | none =>
        simp only [sliceItem] at h
        split at h
        · rename_i hc
          simp only [Option.some.injEq] at h
          exact ⟨k, n, s, rfl, hc.1, hc.2, h.symm⟩
        · simp at h
  | node d => simp [sliceItem] at h
  | lst xs => simp [sliceItem] at h
  | flst k xs => simp [sliceItem] at h

theorem suffixOf_shape (name : String) (ix : List Nat) :
    ∃ t r, suffixOf name ix = t :: r ∧ t ≠ .root ∧ ∀ u ∈ r, ∃ i, u = Tok.idx i :=
  ⟨.attr name, ix.map .idx, rfl, by simp, by simp⟩

theorem step_facts {p y : Item} (h : Step p y) : ∃ sfx, StepFacts p y sfx := by
  cases h with
  | slot h =>
    obtain ⟨d, name, sv, c, ix, hp, hl, _, hg, rfl⟩ := mem_slotItems h
    refine ⟨suffixOf name ix, ⟨rfl, rfl, ?_, ?_, rfl, suffixOf_shape _ _, isObj_toVal_one c, ?_, ?_⟩⟩
    · rw [hp]; exact run_slot _ hl hg
    · intro a t r hs ha
      obtain ⟨jx, j, rx, rfl, rfl⟩ := suffix_prefix_split hs ha
      obtain ⟨xs, hxs⟩ := getPath_prefix_many hg
      rw [hp]
      exact ⟨_, run_slot _ hl hxs, by simp [toVal, PyVal.isObj]⟩
    · intro _; simpa [childRec] using kind_toVal_one c
    · intro k ty sl hv
      obtain ⟨tag, slots⟩ := c
      cases tag <;> simp [toVal] at hv
      obtain ⟨_, _, rfl⟩ := hv
      simp [childRec]
  | field a h =>
    obtain ⟨k, fs, sl, fv, t, ix, hp, hl, hg, rfl⟩ := mem_fieldItems h
    refine ⟨suffixOf a ix, ⟨rfl, rfl, ?_, ?_, rfl, suffixOf_shape _ _, rfl, ?_, ?_⟩⟩
    · rw [hp]; exact run_field _ hl hg
    · intro a' t' r hs ha
      obtain ⟨jx, j, rx, rfl, rfl⟩ := suffix_prefix_split hs ha
      obtain ⟨xs, hxs⟩ := getPath_prefix_many hg
      rw [hp]
      exact ⟨_, run_field _ hl hxs, by simp [toFVal, PyVal.isObj]⟩
    · intro hk
      rw [hp] at hk
      simpa [fieldRec, PyVal.kind?] using hk
    · intro k' ty' sl' hv
      simp only [PyVal.sig.injEq] at hv
      obtain ⟨_, _, rfl⟩ := hv
      simp [fieldRec]
  | slice lo hi h =>
    obtain ⟨k, n, s, hp, h1, h2, rfl⟩ := sliceItem_eq_some h
    refine ⟨[.slice lo hi], ⟨rfl, rfl, ?_, ?_, rfl, ⟨_, _, rfl, by simp, by simp⟩, rfl, ?_, ?_⟩⟩
    · rw [hp]; simp [run, step, sliceStep, h1, h2, sliceRec]
    · intro a t r hs ha
      cases a with
      | nil => exact absurd rfl ha
      | cons b a' =>
        simp only [List.cons_append, List.cons.injEq] at hs
        have := hs.2
        cases a' <;> simp at this
    · intro hk
      rw [hp] at hk
      simpa [sliceRec, PyVal.kind?] using hk
    · intro k' ty' sl' hv
      simp only [PyVal.sig.injEq] at hv
      obtain ⟨_, _, rfl⟩ := hv
      simp [sliceRec]

theorem inv_root (root : Desc) : Inv root (rootItem root) := by
  refine ⟨rfl, rfl, isObj_toVal_one root, ?_, ?_, by simp [rootItem, rootRec]⟩
  · simpa [rootItem, rootRec, rootVal] using kind_toVal_one root
  · intro k ty sl hv
    obtain ⟨tag, slots⟩ := root
    cases tag <;> simp [rootItem, rootVal, toVal] at hv
    obtain ⟨_, _, rfl⟩ := hv
    simp [rootItem, rootRec]

theorem inv_step {root : Desc} {p y : Item} {sfx : List Tok} (hp : Inv root p) (hs : StepFacts p y sfx) :
    Inv root y := by
  refine ⟨?_, ?_, hs.obj, hs.kind hp.kind, hs.slice, ?_⟩
  · rw [hs.full, hs.pos, hp.full]; rfl
  · rw [hs.pos, run_append, hp.hrun]; simpa [hs.pos] using hs.hrun
  · intro t ht
    rw [hs.pos] at ht
    rcases List.mem_append.1 ht with ht | ht
    · exact hp.noroot t ht
    · obtain ⟨t0, r, rfl, h0, hr⟩ := hs.shape
      rcases List.mem_cons.1 ht with rfl | ht
      · exact h0
      · obtain ⟨i, rfl⟩ := hr t ht; simp

theorem reach_cases {root : Desc} {y : Item} (h : Reach root y) :
    y = rootItem root ∨ ∃ p, Reach root p ∧ Step p y := by
  cases h with
  | root => exact Or.inl rfl
  | slot hp hy => exact Or.inr ⟨_, hp, .slot hy⟩
  | field hp hy => exact Or.inr ⟨_, hp, .field _ hy⟩
  | slice hp hy => exact Or.inr ⟨_, hp, .slice _ _ hy⟩

theorem reach_step {root : Desc} {p y : Item} (hp : Reach root p) (h : Step p y) : Reach root y := by
  cases h with
  | slot h => exact .slot hp h
  | field a h => exact .field hp h
  | slice lo hi h => exact .slice hp h

/-- induction principle: root, and one creation step -/
theorem reach_induction {root : Desc} {motive : Item → Prop}
    (hroot : motive (rootItem root))
    (hstep : ∀ p y, Reach root p → motive p → Step p y → motive y) :
    ∀ {x}, Reach root x → motive x := by
  intro x h
  induction h with
  | root => exact hroot
  | slot hp hy ih => exact hstep _ _ hp ih (.slot hy)
  | field hp hy ih => exact hstep _ _ hp ih (.field _ hy)
  | slice hp hy ih => exact hstep _ _ hp ih (.slice _ _ hy)

theorem reach_inv {root : Desc} {x : Item} (h : Reach root x) : Inv root x := by
  refine reach_induction (motive := Inv root) (inv_root root) ?_ h
  intro p y _ ih hs
  obtain ⟨sfx, hf⟩ := step_facts hs
  exact inv_step ih hf

theorem resolve_extend {root : Desc} {p : Item} (hp : Inv root p) (a : List Tok) :
    resolve root (p.1.full ++ a) = run (p.1.pos, p.2) a := by
  rw [hp.full]
  simp only [List.cons_append, resolve, run_append, hp.hrun, Option.bind_some]

/-! ## which prefixes of a name evaluate to objects -/

/-- does the expression `q` evaluate to a value satisfying `P`? -/
def names (P : PyVal → Bool) (root : Desc) (q : Name) : Bool :=
  match resolve root q with
  | some st => P st.2
  | none => false

/-- `q` evaluates to a NamedObject -/
abbrev namesObj := names PyVal.isObj
/-- `q` evaluates to a Component -/
abbrev namesComp := names PyVal.isComp
/-- `q` evaluates to a Signal -/
abbrev namesSig := names PyVal.isSig

/-- the proper prefixes of a name that evaluate to a NamedObject, shortest first -/
def objPrefixes (root : Desc) (full : Name) : List Name := (properPrefixes full).filter (namesObj root)

theorem isObj_of_isComp {v : PyVal} (h : v.isComp = true) : v.isObj = true := by
  cases v <;> simp_all [PyVal.isComp, PyVal.kind?, PyVal.isObj]

theorem isObj_of_isSig {v : PyVal} (h : v.isSig = true) : v.isObj = true := by
  cases v <;> simp_all [PyVal.isSig, PyVal.isObj]

theorem names_self {root : Desc} {p : Item} (hp : Inv root p) (P : PyVal → Bool) :
    names P root p.1.full = P p.2 := by
  have := resolve_extend hp []
  simp only [List.append_nil, run] at this
  simp [names, this]

/-- one creation step adds exactly the parent's name to the object-valued proper prefixes -/
theorem filter_prefixes_step {root : Desc} {p y : Item} {sfx : List Tok} (hp : Inv root p)
    (hs : StepFacts p y sfx) (P : PyVal → Bool) (hP : ∀ v, P v = true → v.isObj = true) :
    (properPrefixes y.1.full).filter (names P root) =
      (properPrefixes p.1.full).filter (names P root) ++ (if P p.2 then [p.1.full] else []) := by
  obtain ⟨t, r, rfl, -, -⟩ := hs.shape
  rw [hs.full, properPrefixes_append, List.filter_append]
  congr 1
  simp only [properPrefixes, List.map_cons, List.append_nil, List.filter_cons, names_self hp]
  have : List.filter (names P root) (List.map (fun x => p.1.full ++ x) (List.map (fun x => t :: x) (properPrefixes r))) = [] := by
    rw [List.filter_eq_nil_iff]
    intro q hq
    simp only [List.mem_map] at hq
    obtain ⟨_, ⟨a', ha', rfl⟩, rfl⟩ := hq
    obtain ⟨t', r', hr⟩ := mem_properPrefixes.1 ha'
    obtain ⟨st, hst, hno⟩ := hs.mid (t :: a') t' r' (by simp [hr]) (by simp)
    simp only [names, resolve_extend hp, hst]
    intro hPv
    rw [hP _ hPv] at hno
    exact absurd hno (by simp)
  rw [this]

theorem objPrefixes_step {root : Desc} {p y : Item} {sfx : List Tok} (hp : Inv root p)
    (hs : StepFacts p y sfx) : objPrefixes root y.1.full = objPrefixes root p.1.full ++ [p.1.full] := by
  have := filter_prefixes_step hp hs PyVal.isObj (fun _ h => h)
  simpa [objPrefixes, hp.obj] using this

/-! ## a record is determined by its name -/

theorem root_full_ne_step {root : Desc} {p y : Item} {sfx : List Tok} (hp : Inv root p)
    (hs : StepFacts p y sfx) : y.1.full ≠ [.root] := by
  obtain ⟨t, r, rfl, -, -⟩ := hs.shape
  rw [hs.full, hp.full]; simp

theorem map_idx_injective {a b : List Nat} (h : a.map Tok.idx = b.map Tok.idx) : a = b := by
  induction a generalizing b with
  | nil => cases b <;> simp_all
  | cons x a ih =>
    cases b with
    | nil => simp at h
    | cons y b =>
      simp only [List.map_cons, List.cons.injEq, Tok.idx.injEq] at h
      rw [h.1, ih h.2]

theorem suffixOf_injective {n1 n2 : String} {i1 i2 : List Nat} (h : suffixOf n1 i1 = suffixOf n2 i2) :
    n1 = n2 ∧ i1 = i2 := by
  simp only [suffixOf, List.cons.injEq, Tok.attr.injEq] at h
  exact ⟨h.1, map_idx_injective h.2⟩

/-- two objects created directly under the same parent with the same name are the same object -/
theorem step_functional {p x y : Item} (hx : Step p x) (hy : Step p y) (h : x.1.full = y.1.full) : x = y := by
  cases hx with
  | slot hx =>
    obtain ⟨d, name, sv, c, ix, hp, hl, _, hg, rfl⟩ := mem_slotItems hx
    cases hy with
    | slot hy =>
      obtain ⟨d', name', sv', c', ix', hp', hl', _, hg', rfl⟩ := mem_slotItems hy
      simp only [childRec, List.append_cancel_left_eq] at h
      obtain ⟨rfl, rfl⟩ := suffixOf_injective h
      rw [hp] at hp'; cases hp'
      rw [hl] at hl'; cases hl'
      rw [hg] at hg'; cases hg'
      rfl
    | field a hy =>
      obtain ⟨k, fs, sl, fv, t, ix', hp', _⟩ := mem_fieldItems hy
      rw [hp] at hp'; cases hp'
    | slice lo hi hy =>
      obtain ⟨k, n, s, hp', _⟩ := sliceItem_eq_some hy
      rw [hp] at hp'; cases hp'
  | field a hx =>
    obtain ⟨k, fs, sl, fv, t, ix, hp, hl, hg, rfl⟩ := mem_fieldItems hx
    cases hy with
    | slot hy =>
      obtain ⟨d', name', sv', c', ix', hp', _⟩ := mem_slotItems hy
      rw [hp] at hp'; cases hp'
    | field a' hy =>
      obtain ⟨k', fs', sl', fv', t', ix', hp', hl', hg', rfl⟩ := mem_fieldItems hy
      simp only [fieldRec, List.append_cancel_left_eq] at h
      obtain ⟨rfl, rfl⟩ := suffixOf_injective h
      rw [hp] at hp'; cases hp'
      rw [hl] at hl'; cases hl'
      rw [hg] at hg'; cases hg'
      rfl
    | slice lo hi hy =>
      obtain ⟨k', n, s, hp', _⟩ := sliceItem_eq_some hy
      rw [hp] at hp'; cases hp'
  | slice lo hi hx =>
    obtain ⟨k, n, s, hp, h1, h2, rfl⟩ := sliceItem_eq_some hx
    cases hy with
    | slot hy =>
      obtain ⟨d', name', sv', c', ix', hp', _⟩ := mem_slotItems hy
      rw [hp] at hp'; cases hp'
    | field a' hy =>
      obtain ⟨k', fs', sl', fv', t', ix', hp', _⟩ := mem_fieldItems hy
      rw [hp] at hp'; cases hp'
    | slice lo' hi' hy =>
      obtain ⟨k', n', s', hp', h1', h2', rfl⟩ := sliceItem_eq_some hy
      simp only [sliceRec, List.append_cancel_left_eq, List.cons.injEq, Tok.slice.injEq, and_true] at h
      obtain ⟨rfl, rfl⟩ := h
      rw [hp] at hp'; cases hp'
      rfl

theorem objPrefixes_root (root : Desc) : objPrefixes root [.root] = [] := by
  simp [objPrefixes, properPrefixes, names, resolve]

theorem full_determines {root : Desc} {x : Item} (hx : Reach root x) :
    ∀ {y}, Reach root y → x.1.full = y.1.full → x = y := by
  refine reach_induction (motive := fun x => ∀ {y}, Reach root y → x.1.full = y.1.full → x = y) ?_ ?_ hx
  · intro y hy h
    rcases reach_cases hy with rfl | ⟨q, hq, hs⟩
    · rfl
    · obtain ⟨sfx, hf⟩ := step_facts hs
      exact absurd h.symm (root_full_ne_step (reach_inv hq) hf)
  · intro p x hp ih hs y hy h
    obtain ⟨sfx, hf⟩ := step_facts hs
    rcases reach_cases hy with rfl | ⟨q, hq, hs'⟩
    · exact absurd h (root_full_ne_step (reach_inv hp) hf)
    · obtain ⟨sfx', hf'⟩ := step_facts hs'
      have e1 := objPrefixes_step (reach_inv hp) hf
      have e2 := objPrefixes_step (reach_inv hq) hf'
      rw [h, e2] at e1
      have : q.1.full = p.1.full := by
        have := congrArg List.getLast? e1
        simpa using this
      have hpq : p = q := ih hq this.symm
      subst hpq
      exact step_functional hs hs' h

/-! ## level, host component, top-level signal, field name -/

theorem node_of_kind_comp {x : Item} (hk : x.2.kind? = some x.1.kind) (hc : x.1.kind = .comp) :
    ∃ d, x.2 = .node d := by
  obtain ⟨r, v⟩ := x
  cases v with
  | node d => exact ⟨d, rfl⟩
  | sig k ty sl => simp [PyVal.kind?] at hk; rw [hc] at hk; cases hk
  | lst xs => simp [PyVal.kind?] at hk
  | flst k xs => simp [PyVal.kind?] at hk

theorem isComp_iff_kind {x : Item} (hk : x.2.kind? = some x.1.kind) :
    x.2.isComp = true ↔ x.1.kind = .comp := by
  simp [PyVal.isComp, hk]

/-- `_dsl.level` (where it is set) is the number of proper prefixes that evaluate to an object -/
def LevelInv (root : Desc) (x : Item) : Prop :=
  (∀ k, x.1.level = some k → k = (objPrefixes root x.1.full).length) ∧
  (∀ d, x.2 = .node d → x.1.level.isSome = true)

theorem reach_level {root : Desc} {x : Item} (h : Reach root x) : LevelInv root x := by
  refine reach_induction (motive := LevelInv root) ?_ ?_ h
  · refine ⟨?_, fun _ _ => rfl⟩
    intro k hk
    simp [rootItem, rootRec] at hk
    simp [rootItem, rootRec, objPrefixes_root, hk.symm]
  · intro p y hp ih hs
    obtain ⟨sfx, hf⟩ := step_facts hs
    have hobj := objPrefixes_step (reach_inv hp) hf
    cases hs with
    | slot hy =>
      obtain ⟨d, name, sv, c, ix, hpv, _, _, _, rfl⟩ := mem_slotItems hy
      obtain ⟨k, hk⟩ := Option.isSome_iff_exists.1 (ih.2 d hpv)
      have hk' := ih.1 k hk
      constructor
      · intro k' hk2
        simp only [childRec, hk, Option.map_some, Option.some.injEq] at hk2
        rw [hobj]; simp; omega
      · intro _ _; simp [childRec, hk]
    | field a hy =>
      obtain ⟨k, fs, sl, fv, t, ix, _, _, _, rfl⟩ := mem_fieldItems hy
      exact ⟨by simp [fieldRec], by intro d hd; cases hd⟩
    | slice lo hi hy =>
      obtain ⟨k, n, s, _, _, _, rfl⟩ := sliceItem_eq_some hy
      exact ⟨by simp [sliceRec], by intro d hd; cases hd⟩

/-- the component-valued prefixes of a name, including the name itself -/
def compChain (root : Desc) (x : Item) : List Name :=
  (properPrefixes x.1.full).filter (namesComp root) ++ (if x.2.isComp then [x.1.full] else [])

theorem host_step {p y : Item} (hs : Step p y) (hk : p.2.kind? = some p.1.kind) :
    y.1.host = if y.1.kind = .comp then y.1.pos else p.1.host := by
  cases hs with
  | slot hy =>
    obtain ⟨d, name, sv, c, ix, _, _, _, _, rfl⟩ := mem_slotItems hy
    rfl
  | field a hy =>
    obtain ⟨k, fs, sl, fv, t, ix, hpv, _, _, rfl⟩ := mem_fieldItems hy
    rw [hpv] at hk; simp only [PyVal.kind?, Option.some.injEq] at hk
    simp [fieldRec, ← hk]
  | slice lo hi hy =>
    obtain ⟨k, n, s, hpv, _, _, rfl⟩ := sliceItem_eq_some hy
    rw [hpv] at hk; simp only [PyVal.kind?, Option.some.injEq] at hk
    simp [sliceRec, ← hk]

theorem kind_ne_comp_of_sig_parent {p y : Item} (hs : Step p y) (hp : p.2.kind? = some p.1.kind)
    (hsig : p.2.isSig = true) : y.1.kind ≠ .comp := by
  cases hs with
  | slot hy =>
    obtain ⟨d, name, sv, c, ix, hpv, _⟩ := mem_slotItems hy
    rw [hpv] at hsig; simp [PyVal.isSig] at hsig
  | field a hy =>
    obtain ⟨k, fs, sl, fv, t, ix, hpv, _, _, rfl⟩ := mem_fieldItems hy
    rw [hpv] at hp; simp [PyVal.kind?] at hp
    simp [fieldRec, ← hp]
  | slice lo hi hy =>
    obtain ⟨k, n, s, hpv, _, _, rfl⟩ := sliceItem_eq_some hy
    rw [hpv] at hp; simp [PyVal.kind?] at hp
    simp [sliceRec, ← hp]

theorem reach_host {root : Desc} (hroot : root.tag = .comp) {x : Item} (h : Reach root x) :
    (compChain root x).getLast? = some (.root :: x.1.host) := by
  refine reach_induction (motive := fun x => (compChain root x).getLast? = some (.root :: x.1.host)) ?_ ?_ h
  · have : (rootVal root).isComp = true := by
      obtain ⟨tag, slots⟩ := root
      simp only [Node.tag] at hroot; subst hroot
      simp [rootVal, toVal, PyVal.isComp, PyVal.kind?, kindOfTag, Node.tag]
    simp [compChain, rootItem, rootRec, properPrefixes, names, resolve, this]
  · intro p y hp ih hs
    obtain ⟨sfx, hf⟩ := step_facts hs
    have hpi := reach_inv hp
    have hyi := inv_step hpi hf
    have hc := filter_prefixes_step hpi hf PyVal.isComp (fun _ h => isObj_of_isComp h)
    have : compChain root y = compChain root p ++ (if y.2.isComp then [y.1.full] else []) := by
      simp only [compChain]; rw [hc]
    rw [this, host_step hs hpi.kind]
    by_cases hk : y.1.kind = .comp
    · have : y.2.isComp = true := (isComp_iff_kind hyi.kind).2 hk
      simp [this, hk, hyi.full]
    · have : y.2.isComp = false := by
        cases h : y.2.isComp
        · rfl
        · exact absurd ((isComp_iff_kind hyi.kind).1 h) hk
      simp [this, hk, ih]

/-- the signal-valued prefixes of a name, including the name itself -/
def sigChain (root : Desc) (x : Item) : List Name :=
  (properPrefixes x.1.full).filter (namesSig root) ++ (if x.2.isSig then [x.1.full] else [])

def TlsInv (root : Desc) (x : Item) : Prop :=
  (x.2.isSig = true → ∃ t, (sigChain root x).head? = some (.root :: t) ∧ x.1.tls = some t) ∧
  (x.2.isSig = false → sigChain root x = [] ∧ x.1.tls = none)

theorem isSig_toVal_one (c : Desc) :
    (toVal (.one c)).isSig = (match kindOfTag c.tag with | .sig _ => true | _ => false) := by
  obtain ⟨tag, slots⟩ := c
  cases tag <;> simp [toVal, PyVal.isSig, kindOfTag, Node.tag]

theorem tls_step {p y : Item} (hs : Step p y) :
    (p.2.isSig = false → y.1.tls = if y.2.isSig then some y.1.pos else none) ∧
    (p.2.isSig = true → y.1.tls = p.1.tls ∧ y.2.isSig = true) := by
  cases hs with
  | slot hy =>
    obtain ⟨d, name, sv, c, ix, hpv, _, _, _, rfl⟩ := mem_slotItems hy
    refine ⟨fun _ => ?_, fun h => ?_⟩
    · simp only [childRec, isSig_toVal_one]
      cases kindOfTag c.tag <;> rfl
    · rw [hpv] at h; simp [PyVal.isSig] at h
  | field a hy =>
    obtain ⟨k, fs, sl, fv, t, ix, hpv, _, _, rfl⟩ := mem_fieldItems hy
    refine ⟨fun h => ?_, fun _ => ⟨rfl, rfl⟩⟩
    rw [hpv] at h; simp [PyVal.isSig] at h
  | slice lo hi hy =>
    obtain ⟨k, n, s, hpv, _, _, rfl⟩ := sliceItem_eq_some hy
    refine ⟨fun h => ?_, fun _ => ⟨rfl, rfl⟩⟩
    rw [hpv] at h; simp [PyVal.isSig] at h

theorem reach_tls {root : Desc} (hroot : root.tag = .comp) {x : Item} (h : Reach root x) : TlsInv root x := by
  refine reach_induction (motive := TlsInv root) ?_ ?_ h
  · have hns : (rootVal root).isSig = false := by
      obtain ⟨tag, slots⟩ := root
      simp only [Node.tag] at hroot; subst hroot
      simp [rootVal, toVal, PyVal.isSig]
    constructor
    · intro hs; simp [rootItem, hns] at hs
    · intro _
      simp [sigChain, rootItem, rootRec, properPrefixes, names, resolve, hns]
  · intro p y hp ih hs
    obtain ⟨sfx, hf⟩ := step_facts hs
    have hpi := reach_inv hp
    have hyi := inv_step hpi hf
    have hc := filter_prefixes_step hpi hf PyVal.isSig (fun _ h => isObj_of_isSig h)
    have hchain : sigChain root y = sigChain root p ++ (if y.2.isSig then [y.1.full] else []) := by
      simp only [sigChain]; rw [hc]
    have ht := tls_step hs
    cases hps : p.2.isSig with
    | false =>
      obtain ⟨hnil, _⟩ := ih.2 hps
      have hy := ht.1 hps
      constructor
      · intro hys
        refine ⟨y.1.pos, ?_, by simp [hy, hys]⟩
        simp [hchain, hnil, hys, hyi.full]
      · intro hys
        exact ⟨by simp [hchain, hnil, hys], by simp [hy, hys]⟩
    | true =>
      obtain ⟨t, hh, htl⟩ := ih.1 hps
      obtain ⟨hy, hys⟩ := ht.2 hps
      constructor
      · intro _
        refine ⟨t, ?_, by rw [hy, htl]⟩
        rw [hchain]
        cases hsc : sigChain root p with
        | nil => simp [hsc] at hh
        | cons a l => simp [hsc] at hh ⊢; exact hh
      · intro h; rw [hys] at h; cases h

/-- how the field name relates parent name and full name -/
theorem field_name_step {p y : Item} (hs : Step p y)
    (hsl : ∀ k ty sl, p.2 = .sig k ty sl → p.1.slice = sl) :
    (y.1.slice = none ∧ y.1.full = p.1.full ++ y.1.my ∧ ∃ name ix, y.1.my = suffixOf name ix) ∨
    (∃ lo hi, y.1.slice = some (lo, hi) ∧ y.1.full = p.1.full ++ [.slice lo hi] ∧
      y.1.my = p.1.my ++ [.slice lo hi] ∧ p.1.slice = none) := by
  cases hs with
  | slot hy =>
    obtain ⟨d, name, sv, c, ix, _, _, _, _, rfl⟩ := mem_slotItems hy
    exact Or.inl ⟨rfl, rfl, name, ix, rfl⟩
  | field a hy =>
    obtain ⟨k, fs, sl, fv, t, ix, _, _, _, rfl⟩ := mem_fieldItems hy
    exact Or.inl ⟨rfl, rfl, a, ix, rfl⟩
  | slice lo hi hy =>
    obtain ⟨k, n, s, hpv, _, _, rfl⟩ := sliceItem_eq_some hy
    exact Or.inr ⟨lo, hi, rfl, rfl, rfl, hsl _ _ _ hpv⟩

/-! ## slices -/

/-- `x[i]` on a signal is `x[i:i+1]` -/
theorem step_idx_eq_slice (pos : Pos) (k : SigKind) (ty : Ty) (sl : Option (Nat × Nat)) (i : Nat) :
    step (pos, .sig k ty sl) (.idx i) = step (pos, .sig k ty sl) (.slice i (i + 1)) := by
  obtain ⟨tag, s⟩ := ty
  cases tag <;> rfl

/-- a slice of a slice is the re-based slice of the unsliced signal -/
theorem run_slice_slice (pos : Pos) (k : SigKind) (n : Nat) (s : List (String × SVal TTag))
    {a b c d : Nat} (hab : a < b) (hbn : b ≤ n) (hcd : c < d) (hd : d ≤ b - a) :
    run (pos, .sig k (.mk (.bits n) s) none) [.slice a b, .slice c d] =
      run (pos, .sig k (.mk (.bits n) s) none) [.slice (a + c) (a + d)] := by
  have h1 : a + c < a + d ∧ a + d ≤ n := by omega
  have e1 : a + d - (a + c) = d - c := by omega
  simp [run, step, sliceStep, hab, hbn, hcd, hd, h1, e1, Nat.add_comm]

/-! ## the executable elaboration only produces reachable objects -/

theorem expand_sound {root : Desc} (n : Nat) (fr items : List Item) (hfr : ∀ x ∈ fr, Reach root x)
    (h : expand n fr = some items) : ∀ x ∈ items, Reach root x := by
  induction n generalizing fr items with
  | zero =>
    simp only [expand] at h
    split at h
    · cases h; simp
    · cases h
  | succ n ih =>
    simp only [expand] at h
    split at h
    · cases h; simp
    · cases he : expand n (fr.flatMap slotItems) with
      | none => simp [he] at h
      | some rest =>
        simp only [he, Option.map_some, Option.some.injEq] at h
        subst h
        intro x hx
        rcases List.mem_append.1 hx with hx | hx
        · exact hfr x hx
        · refine ih _ _ ?_ he x hx
          intro y hy
          obtain ⟨p, hp, hy⟩ := List.mem_flatMap.1 hy
          exact .slot (hfr p hp) hy

theorem mem_of_findPos {known : List Item} {pos : Pos} {x : Item} (h : findPos known pos = some x) :
    x ∈ known := List.mem_of_find?_eq_some h

theorem sliceVia_sound {root : Desc} {known : List Item} (hk : ∀ x ∈ known, Reach root x)
    {x y : Item} (hx : Reach root x) {lo hi : Nat} (h : sliceVia known x lo hi = some y) : Reach root y := by
  simp only [sliceVia] at h
  split at h
  · exact .slice hx h
  · split at h
    · split at h
      · rename_i px hpx
        have : px ∈ known := by
          cases hp : x.1.parent with
          | none => simp [hp] at hpx
          | some pp => simp [hp] at hpx; exact mem_of_findPos hpx
        exact .slice (hk px this) h
      · cases h
    · cases h

theorem lazyItems_sound {root : Desc} {known : List Item} (hk : ∀ x ∈ known, Reach root x)
    (pos : Pos) (t : Tok) : ∀ y ∈ lazyItems known pos t, Reach root y := by
  intro y hy
  simp only [lazyItems] at hy
  split at hy
  · simp at hy
  · rename_i x hx
    have hxr := hk x (mem_of_findPos hx)
    cases t with
    | root => simp at hy
    | attr a => exact .field hxr hy
    | idx i =>
      simp only [Option.mem_toList] at hy
      exact sliceVia_sound hk hxr hy
    | slice lo hi =>
      simp only [Option.mem_toList] at hy
      exact sliceVia_sound hk hxr hy

theorem access_sound {root : Desc} (e : List Tok) (known known' : List Item) (st : State)
    (hk : ∀ x ∈ known, Reach root x) (h : access known st e = some known') :
    ∀ x ∈ known', Reach root x := by
  induction e generalizing known st with
  | nil => simp only [access, Option.some.injEq] at h; subst h; exact hk
  | cons t ts ih =>
    simp only [access] at h
    split at h
    · refine ih _ _ ?_ h
      intro x hx
      rcases List.mem_append.1 hx with hx | hx
      · exact hk x hx
      · exact lazyItems_sound hk _ _ x hx
    · cases h

theorem accessAll_sound {root : Desc} (es : List (List Tok)) (known known' : List Item)
    (hk : ∀ x ∈ known, Reach root x) (h : accessAll root known es = some known') :
    ∀ x ∈ known', Reach root x := by
  induction es generalizing known with
  | nil => simp only [accessAll, Option.some.injEq] at h; subst h; exact hk
  | cons e es ih =>
    simp only [accessAll] at h
    split at h
    · rename_i k2 hk2
      exact ih _ (access_sound e _ _ _ hk hk2) h
    · cases h

theorem staticItems_sound {root : Desc} {items : List Item} (h : staticItems root = some items) :
    ∀ x ∈ items, Reach root x :=
  expand_sound _ _ _ (by simp; exact .root) h

theorem accessAll_mono {root : Desc} (es : List (List Tok)) (known known' : List Item)
    (h : accessAll root known es = some known') : ∀ x ∈ known, x ∈ known' := by
  have hacc : ∀ (e : List Tok) (known known' : List Item) (st : State),
      access known st e = some known' → ∀ x ∈ known, x ∈ known' := by
    intro e
    induction e with
    | nil => intro known known' st h; simp only [access, Option.some.injEq] at h; subst h; exact fun _ hx => hx
    | cons t ts ih =>
      intro known known' st h
      simp only [access] at h
      split at h
      · exact fun x hx => ih _ _ _ h x (List.mem_append_left _ hx)
      · cases h
  induction es generalizing known with
  | nil => simp only [accessAll, Option.some.injEq] at h; subst h; exact fun _ hx => hx
  | cons e es ih =>
    simp only [accessAll] at h
    split at h
    · rename_i k2 hk2
      exact fun x hx => ih _ h x (hacc e _ _ _ hk2 x hx)
    · cases h

/-! ## `render` is injective on well-formed names -/

/-- slot / field names as Python allows them: letters, digits, underscore -/
def IdentLike (a : String) : Prop := ∀ c ∈ a.toList, c.isAlphanum = true ∨ c = '_'

/-- a full name: the top `s` followed by attribute / index / slice tokens with identifier-like names -/
def WFName (n : Name) : Prop :=
  ∃ tl, n = .root :: tl ∧ ∀ t ∈ tl, t ≠ .root ∧ ∀ a, t = .attr a → IdentLike a

theorem span_unique {P : Char → Prop} {a b r r' : List Char}
    (ha : ∀ c ∈ a, ¬ P c) (hb : ∀ c ∈ b, ¬ P c)
    (hr : r = [] ∨ ∃ c t, r = c :: t ∧ P c) (hr' : r' = [] ∨ ∃ c t, r' = c :: t ∧ P c)
    (h : a ++ r = b ++ r') : a = b ∧ r = r' := by
  induction a generalizing b with
  | nil =>
    cases b with
    | nil => exact ⟨rfl, by simpa using h⟩
    | cons y b' =>
      exfalso
      simp only [List.nil_append, List.cons_append] at h
      rcases hr with rfl | ⟨c, t, rfl, hc⟩
      · cases h
      · simp only [List.cons.injEq] at h
        exact hb y (by simp) (h.1 ▸ hc)
  | cons x a' ih =>
    cases b with
    | nil =>
      exfalso
      simp only [List.nil_append, List.cons_append] at h
      rcases hr' with rfl | ⟨c, t, rfl, hc⟩
      · cases h
      · simp only [List.cons.injEq] at h
        exact ha x (by simp) (h.1 ▸ hc)
    | cons y b' =>
      simp only [List.cons_append, List.cons.injEq] at h
      obtain ⟨rfl, h⟩ := h
      obtain ⟨rfl, rfl⟩ := ih (fun c hc => ha c (List.mem_cons_of_mem _ hc))
        (fun c hc => hb c (List.mem_cons_of_mem _ hc)) h
      exact ⟨rfl, rfl⟩

theorem digits_isDigit {n : Nat} {c : Char} (h : c ∈ digits n) : c.isDigit = true :=
  Nat.isDigit_of_mem_toDigits (by decide) (by decide) h

theorem digitChar_inj {n m : Nat} (hn : n < 10) (hm : m < 10) (h : n.digitChar = m.digitChar) : n = m := by
  have h1 := Nat.toNat_digitChar_of_lt_ten hn
  have h2 := Nat.toNat_digitChar_of_lt_ten hm
  rw [h] at h1; omega

theorem digits_injective : ∀ {n m : Nat}, digits n = digits m → n = m := by
  intro n
  induction n using Nat.strongRecOn with
  | _ n ih =>
    intro m h
    unfold digits at h
    rw [Nat.toDigits_eq_if (by decide), Nat.toDigits_eq_if (b := 10) (n := m) (by decide)] at h
    by_cases hn : n < 10 <;> by_cases hm : m < 10 <;> simp only [hn, hm, if_true, if_false] at h
    · simp only [List.cons.injEq, and_true] at h; exact digitChar_inj hn hm h
    · exfalso
      have := congrArg List.length h
      have hpos := Nat.length_toDigits_pos (b := 10) (n := m / 10)
      simp at this <;> omega
    · exfalso
      have := congrArg List.length h
      have hpos := Nat.length_toDigits_pos (b := 10) (n := n / 10)
      simp at this <;> omega
    · obtain ⟨h1, h2⟩ := List.append_inj' h rfl
      have e1 : n / 10 = m / 10 := ih (n / 10) (by omega) (by unfold digits; exact h1)
      simp only [List.cons.injEq, and_true] at h2
      have e2 : n % 10 = m % 10 := digitChar_inj (Nat.mod_lt _ (by decide)) (Nat.mod_lt _ (by decide)) h2
      omega

abbrev Delim (c : Char) : Prop := c = '.' ∨ c = '['
abbrev NonDigit (c : Char) : Prop := c.isDigit = false

theorem ident_no_delim {a : String} (h : IdentLike a) : ∀ c ∈ a.toList, ¬ Delim c := by
  intro c hc hd
  rcases h c hc with h | rfl
  · rcases hd with rfl | rfl <;> simp [Char.isAlphanum, Char.isAlpha, Char.isUpper, Char.isLower, Char.isDigit] at h
  · rcases hd with h | h <;> cases h

theorem digits_no_nondigit (n : Nat) : ∀ c ∈ digits n, ¬ NonDigit c := by
  intro c hc hd
  rw [NonDigit, digits_isDigit hc] at hd; cases hd

def TokOk (t : Tok) : Prop := t ≠ .root ∧ ∀ a, t = .attr a → IdentLike a

theorem renderChars_cons (t : Tok) (r : List Tok) : renderChars (t :: r) = t.chars ++ renderChars r := by
  simp [renderChars]

/-- the rendering of a root-free token list is empty or starts with `.` or `[` -/
theorem renderChars_head {tl : List Tok} (h : ∀ t ∈ tl, TokOk t) :
    renderChars tl = [] ∨ ∃ c r, renderChars tl = c :: r ∧ Delim c := by
  cases tl with
  | nil => left; rfl
  | cons t r =>
    right
    rw [renderChars_cons]
    have := (h t (by simp)).1
    cases t with
    | root => exact absurd rfl this
    | attr a => exact ⟨'.', _, rfl, Or.inl rfl⟩
    | idx i => exact ⟨'[', _, rfl, Or.inr rfl⟩
    | slice lo hi => exact ⟨'[', _, rfl, Or.inr rfl⟩

theorem renderChars_injective : ∀ {l₁ l₂ : List Tok}, (∀ t ∈ l₁, TokOk t) → (∀ t ∈ l₂, TokOk t) →
    renderChars l₁ = renderChars l₂ → l₁ = l₂ := by
  intro l₁
  induction l₁ with
  | nil =>
    intro l₂ _ h2 h
    cases l₂ with
    | nil => rfl
    | cons t r =>
      exfalso
      rw [renderChars_cons] at h
      have := (h2 t (by simp)).1
      cases t <;> simp [renderChars, Tok.chars] at h this
  | cons t r ih =>
    intro l₂ h1 h2 h
    cases l₂ with
    | nil =>
      exfalso
      rw [renderChars_cons] at h
      have := (h1 t (by simp)).1
      cases t <;> simp [renderChars, Tok.chars] at h this
    | cons t' r' =>
      have hr : ∀ t ∈ r, TokOk t := fun t ht => h1 t (List.mem_cons_of_mem _ ht)
      have hr' : ∀ t ∈ r', TokOk t := fun t ht => h2 t (List.mem_cons_of_mem _ ht)
      have ht := h1 t (by simp)
      have ht' := h2 t' (by simp)
      rw [renderChars_cons, renderChars_cons] at h
      have key : t = t' ∧ renderChars r = renderChars r' := by
        cases t with
        | root => exact absurd rfl ht.1
        | attr a =>
          cases t' with
          | root => exact absurd rfl ht'.1
          | attr a' =>
            simp only [Tok.chars, List.cons_append, List.cons.injEq, true_and] at h
            obtain ⟨e1, e2⟩ := span_unique (P := Delim) (ident_no_delim (ht.2 a rfl))
              (ident_no_delim (ht'.2 a' rfl)) (renderChars_head hr) (renderChars_head hr') h
            exact ⟨by rw [String.toList_inj.1 e1], e2⟩
          | idx i => simp [Tok.chars] at h
          | slice lo hi => simp [Tok.chars] at h
        | idx i =>
          cases t' with
          | root => exact absurd rfl ht'.1
          | attr a' => simp [Tok.chars] at h
          | idx i' =>
            simp only [Tok.chars, List.cons_append, List.cons.injEq, true_and, List.append_assoc] at h
            obtain ⟨e1, e2⟩ := span_unique (P := NonDigit) (digits_no_nondigit i) (digits_no_nondigit i')
              (Or.inr ⟨']', _, rfl, by decide⟩) (Or.inr ⟨']', _, rfl, by decide⟩) h
            simp only [List.nil_append, List.cons.injEq, true_and] at e2
            exact ⟨by rw [digits_injective e1], e2⟩
          | slice lo hi =>
            exfalso
            simp only [Tok.chars, List.cons_append, List.cons.injEq, true_and, List.append_assoc] at h
            obtain ⟨e1, e2⟩ := span_unique (P := NonDigit) (digits_no_nondigit i) (digits_no_nondigit lo)
              (Or.inr ⟨']', _, rfl, by decide⟩) (Or.inr ⟨':', _, rfl, by decide⟩) h
            simp at e2
        | slice lo hi =>
          cases t' with
          | root => exact absurd rfl ht'.1
          | attr a' => simp [Tok.chars] at h
          | idx i' =>
            exfalso
            simp only [Tok.chars, List.cons_append, List.cons.injEq, true_and, List.append_assoc] at h
            obtain ⟨e1, e2⟩ := span_unique (P := NonDigit) (digits_no_nondigit lo) (digits_no_nondigit i')
              (Or.inr ⟨':', _, rfl, by decide⟩) (Or.inr ⟨']', _, rfl, by decide⟩) h
            simp at e2
          | slice lo' hi' =>
            simp only [Tok.chars, List.cons_append, List.cons.injEq, true_and, List.append_assoc] at h
            obtain ⟨e1, e2⟩ := span_unique (P := NonDigit) (digits_no_nondigit lo) (digits_no_nondigit lo')
              (Or.inr ⟨':', _, rfl, by decide⟩) (Or.inr ⟨':', _, rfl, by decide⟩) h
            simp only [List.cons.injEq, true_and] at e2
            obtain ⟨e3, e4⟩ := span_unique (P := NonDigit) (digits_no_nondigit hi) (digits_no_nondigit hi')
              (Or.inr ⟨']', _, rfl, by decide⟩) (Or.inr ⟨']', _, rfl, by decide⟩) e2
            simp only [List.nil_append, List.cons.injEq, true_and] at e4
            exact ⟨by rw [digits_injective e1, digits_injective e3], e4⟩
      obtain ⟨rfl, hrest⟩ := key
      rw [ih hr hr' hrest]

theorem render_injective_wf {n₁ n₂ : Name} (h1 : WFName n₁) (h2 : WFName n₂) (h : render n₁ = render n₂) :
    n₁ = n₂ := by
  obtain ⟨t1, rfl, w1⟩ := h1
  obtain ⟨t2, rfl, w2⟩ := h2
  have hc : renderChars (.root :: t1) = renderChars (.root :: t2) := by
    have := congrArg String.toList h
    simpa [render] using this
  rw [renderChars_cons, renderChars_cons] at hc
  simp only [Tok.chars, List.cons_append, List.nil_append, List.cons.injEq, true_and] at hc
  rw [renderChars_injective w1 w2 hc]

/-! ## introduction rules (used for the non-vacuity examples) -/

theorem mem_firsts_of_lookup {β} {l : List (String × β)} {k : String} {v : β}
    (h : l.lookup k = some v) : (k, v) ∈ firsts l := by
  induction l with
  | nil => simp [List.lookup] at h
  | cons p r ih =>
    obtain ⟨k', v'⟩ := p
    simp only [List.lookup] at h
    cases hk : k == k' with
    | true =>
      simp only [hk, Option.some.injEq] at h
      have : k = k' := by simpa using hk
      subst this; subst h
      simp [firsts]
    | false =>
      simp only [hk] at h
      simp only [firsts, List.mem_cons, List.mem_filter]
      right
      refine ⟨ih h, ?_⟩
      simp only [bne_iff_ne, ne_eq]
      intro e; rw [e] at hk; simp at hk

theorem slotItems_intro {p : Item} {d : Desc} {name : String} {sv : SVal DTag} {c : Desc} {ix : List Nat}
    (hp : p.2 = .node d) (hl : (slotsOf d).lookup name = some sv) (hpub : isPublic name = true)
    (hg : getPath sv ix = some (.one c)) :
    (childRec p.1 name ix c, toVal (.one c)) ∈ slotItems p := by
  obtain ⟨r, v⟩ := p
  simp only at hp; subst hp
  simp only [slotItems, List.mem_flatMap, List.mem_filter, List.mem_map]
  exact ⟨(name, sv), ⟨mem_firsts_of_lookup hl, hpub⟩, (c, ix), mem_setattrNames.2 hg, rfl⟩

theorem fieldItems_intro {p : Item} {k : SigKind} {fs : List (String × SVal TTag)} {sl : Option (Nat × Nat)}
    {a : String} {fv : SVal TTag} {t : Ty} {ix : List Nat}
    (hp : p.2 = .sig k (.mk .struct fs) sl) (hl : fs.lookup a = some fv) (hg : getPath fv ix = some (.one t)) :
    (fieldRec p.1 a ix, PyVal.sig k t none) ∈ fieldItems p a := by
  obtain ⟨r, v⟩ := p
  simp only at hp; subst hp
  simp only [fieldItems, hl, List.mem_map]
  exact ⟨(t, ix), mem_bfs_single.2 hg, rfl⟩

/-! ## completeness: every NamedObject an expression can reach is an object of the hierarchy -/

theorem suffixOf_snoc (name : String) (jx : List Nat) (i : Nat) :
    suffixOf name (jx ++ [i]) = suffixOf name jx ++ [.idx i] := by
  simp [suffixOf]

/-- a sliced signal sits directly under an unsliced Bits signal that is itself an object -/
theorem slice_parent {root : Desc} {x : Item} (h : Reach root x) {k : SigKind} {ty : Ty} {olo ohi : Nat}
    (hv : x.2 = .sig k ty (some (olo, ohi))) :
    ∃ p n s, Reach root p ∧ p.2 = .sig k (.mk (.bits n) s) none ∧ x.1.pos = p.1.pos ++ [.slice olo ohi] ∧
      olo < ohi ∧ ohi ≤ n := by
  rcases reach_cases h with rfl | ⟨p, hp, hs⟩
  · obtain ⟨tag, slots⟩ := root
    cases tag <;> simp [rootItem, rootVal, toVal] at hv
  · cases hs with
    | slot hy =>
      obtain ⟨d, name, sv, c, ix, _, _, _, _, rfl⟩ := mem_slotItems hy
      obtain ⟨tag, slots⟩ := c
      cases tag <;> simp [toVal] at hv
    | field a hy =>
      obtain ⟨k', fs, sl, fv, t, ix, _, _, _, rfl⟩ := mem_fieldItems hy
      simp at hv
    | slice lo hi hy =>
      obtain ⟨k', n, s, hpv, h1, h2, rfl⟩ := sliceItem_eq_some hy
      simp only [PyVal.sig.injEq, Option.some.injEq, Prod.mk.injEq] at hv
      obtain ⟨rfl, -, rfl, rfl⟩ := hv
      exact ⟨p, n, s, hp, hpv, rfl, h1, h2⟩

/-- what an evaluation state can be: an object of the hierarchy, or a (nested) list inside a slot /
struct field of one -/
inductive Good (root : Desc) : State → Prop where
  | obj {x : Item} : Reach root x → Good root (x.1.pos, x.2)
  | lst {p : Item} {d : Desc} {name : String} {sv : SVal DTag} {jx : List Nat} {xs : List (SVal DTag)} :
      Reach root p → p.2 = .node d → (slotsOf d).lookup name = some sv → isPublic name = true →
      getPath sv jx = some (.many xs) → Good root (p.1.pos ++ suffixOf name jx, .lst xs)
  | flst {p : Item} {k : SigKind} {fs : List (String × SVal TTag)} {sl : Option (Nat × Nat)} {a : String}
      {fv : SVal TTag} {jx : List Nat} {xs : List (SVal TTag)} :
      Reach root p → p.2 = .sig k (.mk .struct fs) sl → fs.lookup a = some fv →
      getPath fv jx = some (.many xs) → Good root (p.1.pos ++ suffixOf a jx, .flst k xs)

theorem good_of_slot_value {root : Desc} {p : Item} {d : Desc} {name : String} {sv w : SVal DTag} {jx : List Nat}
    (hp : Reach root p) (hpv : p.2 = .node d) (hl : (slotsOf d).lookup name = some sv)
    (hpub : isPublic name = true) (hg : getPath sv jx = some w) :
    Good root (p.1.pos ++ suffixOf name jx, toVal w) := by
  cases w with
  | many xs => exact .lst hp hpv hl hpub hg
  | one c =>
    have hy := slotItems_intro (p := p) hpv hl hpub hg
    exact Good.obj (x := (childRec p.1 name jx c, toVal (.one c))) (.slot hp hy)

theorem good_of_field_value {root : Desc} {p : Item} {k : SigKind} {fs : List (String × SVal TTag)}
    {sl : Option (Nat × Nat)} {a : String} {fv w : SVal TTag} {jx : List Nat}
    (hp : Reach root p) (hpv : p.2 = .sig k (.mk .struct fs) sl) (hl : fs.lookup a = some fv)
    (hg : getPath fv jx = some w) :
    Good root (p.1.pos ++ suffixOf a jx, toFVal k w) := by
  cases w with
  | many xs => exact .flst hp hpv hl hg
  | one t =>
    have hy := fieldItems_intro (p := p) hpv hl hg
    exact Good.obj (x := (fieldRec p.1 a jx, PyVal.sig k t none)) (.field hp hy)

theorem good_sliceStep {root : Desc} {x : Item} (hx : Reach root x) {k : SigKind} {n : Nat}
    {s : List (String × SVal TTag)} {sl : Option (Nat × Nat)} (hv : x.2 = .sig k (.mk (.bits n) s) sl)
    {lo hi : Nat} {st' : State} (h : sliceStep x.1.pos k n sl lo hi = some st') : Good root st' := by
  cases sl with
  | none =>
    simp only [sliceStep] at h
    split at h
    · rename_i hc
      simp only [Option.some.injEq] at h; subst h
      have hy : sliceItem x lo hi = some (sliceRec x.1 lo hi, .sig k (.mk (.bits (hi - lo)) []) (some (lo, hi))) := by
        obtain ⟨r, v⟩ := x
        simp only at hv; subst hv
        simp [sliceItem, hc]
      exact Good.obj (x := (sliceRec x.1 lo hi, _)) (.slice hx hy)
    · cases h
  | some q =>
    obtain ⟨olo, ohi⟩ := q
    obtain ⟨p, m, s', hp, hpv, hpos, h1, h2⟩ := slice_parent hx hv
    simp only [sliceStep] at h
    split at h
    · rename_i hc
      simp only [Option.some.injEq] at h; subst h
      have hb : lo + olo < hi + olo ∧ hi + olo ≤ m := by omega
      have e : hi + olo - (lo + olo) = hi - lo := by omega
      have hy : sliceItem p (lo + olo) (hi + olo) =
          some (sliceRec p.1 (lo + olo) (hi + olo), .sig k (.mk (.bits (hi - lo)) []) (some (lo + olo, hi + olo))) := by
        obtain ⟨r, v⟩ := p
        simp only at hpv; subst hpv
        simp [sliceItem, hb, e]
      have := Good.obj (x := (sliceRec p.1 (lo + olo) (hi + olo), _)) (.slice hp hy)
      simpa [hpos, sliceRec] using this
    · cases h

theorem good_step {root : Desc} {st st' : State} {t : Tok} (hg : Good root st) (hs : step st t = some st')
    (hpub : ∀ a, t = .attr a → isPublic a = true) : Good root st' := by
  cases hg with
  | @obj x hx =>
    obtain ⟨r, v⟩ := x
    cases v with
    | node d =>
      cases t with
      | attr a =>
        simp only [step] at hs
        cases hl : (slotsOf d).lookup a with
        | none => simp [hl] at hs
        | some sv =>
          simp only [hl, Option.map_some, Option.some.injEq] at hs; subst hs
          have := good_of_slot_value (jx := []) hx rfl hl (hpub a rfl) rfl
          simpa [suffixOf] using this
      | root => simp [step] at hs
      | idx i => simp [step] at hs
      | slice lo hi => simp [step] at hs
    | sig k ty sl =>
      obtain ⟨tag, fs⟩ := ty
      cases tag with
      | struct =>
        cases t with
        | attr a =>
          simp only [step] at hs
          cases hl : fs.lookup a with
          | none => simp [hl] at hs
          | some fv =>
            simp only [hl, Option.map_some, Option.some.injEq] at hs; subst hs
            have := good_of_field_value (jx := []) hx rfl hl rfl
            simpa [suffixOf] using this
        | root => simp [step] at hs
        | idx i => simp [step] at hs
        | slice lo hi => simp [step] at hs
      | bits n =>
        cases t with
        | attr a => simp [step] at hs
        | root => simp [step] at hs
        | idx i => exact good_sliceStep hx rfl (by simpa [step] using hs)
        | slice lo hi => exact good_sliceStep hx rfl (by simpa [step] using hs)
    | lst xs => exact absurd (reach_inv hx).obj (by simp [PyVal.isObj])
    | flst k xs => exact absurd (reach_inv hx).obj (by simp [PyVal.isObj])
  | @lst p d name sv jx xs hp hpv hl hpb hgp =>
    cases t with
    | idx i =>
      simp only [step] at hs
      cases hi : xs[i]? with
      | none => simp [hi] at hs
      | some w =>
        simp only [hi, Option.map_some, Option.some.injEq] at hs; subst hs
        have hg2 : getPath sv (jx ++ [i]) = some w := by
          rw [getPath_append, hgp]; simp [getPath, hi]
        have := good_of_slot_value hp hpv hl hpb hg2
        simpa [suffixOf_snoc, List.append_assoc] using this
    | root => simp [step] at hs
    | attr a => simp [step] at hs
    | slice lo hi => simp [step] at hs
  | @flst p k fs sl a fv jx xs hp hpv hl hgp =>
    cases t with
    | idx i =>
      simp only [step] at hs
      cases hi : xs[i]? with
      | none => simp [hi] at hs
      | some w =>
        simp only [hi, Option.map_some, Option.some.injEq] at hs; subst hs
        have hg2 : getPath fv (jx ++ [i]) = some w := by
          rw [getPath_append, hgp]; simp [getPath, hi]
        have := good_of_field_value hp hpv hl hg2
        simpa [suffixOf_snoc, List.append_assoc] using this
    | root => simp [step] at hs
    | attr a => simp [step] at hs
    | slice lo hi => simp [step] at hs

theorem good_run {root : Desc} {toks : List Tok} {st st' : State} (hg : Good root st) (hr : run st toks = some st')
    (hpub : ∀ a, Tok.attr a ∈ toks → isPublic a = true) : Good root st' := by
  induction toks generalizing st with
  | nil => simp only [run, Option.some.injEq] at hr; subst hr; exact hg
  | cons t ts ih =>
    simp only [run] at hr
    cases hs : step st t with
    | none => simp [hs] at hr
    | some st1 =>
      simp only [hs] at hr
      refine ih (good_step hg hs ?_) hr (fun a ha => hpub a (List.mem_cons_of_mem _ ha))
      rintro a rfl; exact hpub a (by simp)

end PV.Hier
