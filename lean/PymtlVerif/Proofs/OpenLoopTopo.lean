import PymtlVerif.Proofs.Scc
/-!
The SCC-level worklist sort (`PV.Scc.topo`) on a graph that need **not** be acyclic: `OpenLoopCLPass` builds `G_new` from
the edge set `E`, which has the `rdy -> method` edges Kosaraju never saw (they are not in `G`), so the condensation can
have a cycle. `Proofs/SccTopo.lean` proves the sort for condensations whose edges go from lower to higher indices; here
the same invariant (`TInv`) is re-established from the weaker `CondW` (rows duplicate-free, targets below `n`, no self
loop — what `if scc_u != scc_v and scc_v not in G_new[scc_u]` guarantees): for every worklist discipline the schedule
never repeats a group and respects every edge between scheduled groups; the loop ends within `n` iterations; a group
is left out only if one of its predecessors is left out (so the `assert` fails exactly when some groups are closed
under predecessors, i.e. lie on or behind a cycle).
-/
namespace PV.Scc
open PV.Kahn

structure CondW (gn : Graph) (n : Nat) : Prop where
  nodup : ∀ i, i < n → (gn i).Nodup
  lt : ∀ i, i < n → ∀ j ∈ gn i, j < n
  irr : ∀ i, i < n → ∀ j ∈ gn i, j ≠ i

theorem topo_stepW {gn : Graph} {n : Nat} (hc : CondW gn n) (pick : List Nat → List Nat → Nat) (s : T3)
    (inv : TInv gn n s) (hd : s.done = false) :
    TInv gn n (step3 pick gn s) ∧ (step3 pick gn s).out.length = s.out.length + 1 := by
  obtain ⟨hind, hq, hqnd, hgood, hlt, hpred⟩ := inv
  cases hqe : s.q with
  | nil => simp [T3.done, hqe] at hd
  | cons a r =>
    obtain ⟨i, hi, hstep⟩ : ∃ i, i < (a :: r).length ∧ step3 pick gn s =
        (gn ((a :: r).getD i a)).foldl (relax ((a :: r).getD i a))
          { s with q := (a :: r).eraseIdx i, out := s.out ++ [(a :: r).getD i a] } :=
      ⟨pick s.out (a :: r) % (a :: r).length, Nat.mod_lt _ (by simp), by simp [step3, hqe]⟩
    generalize hu : (a :: r).getD i a = u at hstep
    have hu_q : u ∈ s.q := by
      rw [hqe, ← hu]; exact getD_mem a hi
    obtain ⟨hun, huo, hu0⟩ := (hq u).mp hu_q
    have hgnd := hc.nodup u hun
    obtain ⟨f1, f2, f3, f4⟩ := foldl_relax u (gn u) { s with q := (a :: r).eraseIdx i, out := s.out ++ [u] } hgnd
    rw [← hstep] at f1 f2 f3 f4
    simp only at f1 f2 f3 f4
    have hrange : (List.range n).Nodup := List.nodup_range
    have hcnt : ∀ v, cntL gn (s.out ++ [u]) v (List.range n) + (if v ∈ gn u then 1 else 0) = cntL gn s.out v (List.range n) :=
      fun v => cntL_snoc gn s.out u v huo (List.range n) hrange (List.mem_range.mpr hun)
    have hmemq : ∀ x, x ∈ (a :: r).eraseIdx i ↔ x ∈ s.q ∧ x ≠ u := by
      intro x
      rw [mem_eraseIdx_nodup (a :: r) i a (hqe ▸ hqnd) hi x, hu, hqe]
    -- a successor of u is not yet scheduled and not in the worklist
    have hsucc : ∀ v ∈ gn u, v < n ∧ v ≠ u ∧ v ∉ s.out ∧ s.ind v ≠ 0 := by
      intro v hv
      have h2 := hc.lt u hun v hv
      refine ⟨h2, hc.irr u hun v hv, ?_, ?_⟩
      · intro hvo
        have := good_closed _ hgood (u, v) (mem_condEdgeList.mpr ⟨hun, hv⟩) (List.mem_reverse.mpr hvo)
        exact huo (List.mem_reverse.mp this)
      · rw [hind v h2]
        have := hcnt v
        simp only [hv, if_true] at this
        omega
    refine ⟨⟨?_, ?_, ?_, ?_, ?_, ?_⟩, ?_⟩
    · -- InD
      intro v hv
      rw [f2 v, f1]
      have := hcnt v
      have := hind v hv
      by_cases hvg : v ∈ gn u
      · simp only [hvg, if_true] at *; omega
      · simp only [hvg, if_false] at *; omega
    · -- Q
      intro v
      rw [f3, f1, f2 v, List.mem_append, List.mem_filter, hmemq, hq v]
      simp only [List.mem_append, List.mem_singleton, beq_iff_eq, not_or]
      constructor
      · rintro (⟨⟨h1, h2, h3⟩, h4⟩ | ⟨h1, h2⟩)
        · refine ⟨h1, ⟨h2, h4⟩, ?_⟩
          by_cases hvg : v ∈ gn u
          · exact absurd h3 (hsucc v hvg).2.2.2
          · simp [hvg, h3]
        · obtain ⟨g1, g2, g3, _⟩ := hsucc v h1
          exact ⟨g1, ⟨g3, g2⟩, by simp [h1, h2]⟩
      · rintro ⟨h1, ⟨h2, h3⟩, h4⟩
        by_cases hvg : v ∈ gn u
        · right; simp only [hvg, if_true] at h4; exact ⟨hvg, h4⟩
        · left; simp only [hvg, if_false] at h4; exact ⟨⟨h1, h2, h4⟩, h3⟩
    · -- Q has no duplicates
      rw [f3, List.nodup_append]
      refine ⟨?_, hgnd.filter _, ?_⟩
      · exact List.Nodup.sublist (List.eraseIdx_sublist _ _) (hqe ▸ hqnd)
      · intro x hx y hy hxy
        subst hxy
        have h1 := ((hmemq x).mp hx).1
        have h2 := (List.mem_filter.mp hy).1
        exact (hsucc x h2).2.2.2 ((hq x).mp h1).2.2
    · -- the schedule stays Good
      rw [f1, List.reverse_append]
      refine ⟨?_, ?_, hgood⟩
      · simpa using huo
      · intro e he h2
        obtain ⟨e1, e2⟩ := e
        simp only at h2; subst h2
        obtain ⟨g1, g2⟩ := mem_condEdgeList.mp he
        have hz : cntL gn s.out e2 (List.range n) = 0 := by rw [← hind e2 hun]; exact hu0
        exact List.mem_reverse.mpr (cntL_zero gn s.out e2 _ hz e1 (List.mem_range.mpr g1) g2)
    · intro v hv
      rw [f1] at hv
      rcases List.mem_append.mp hv with hv | hv
      · exact hlt v hv
      · simp at hv; subst hv; exact hun
    · -- scc_pred
      intro v p hl
      rw [f4, lookup_map_append'] at hl
      by_cases hv : v ∈ (List.filter (fun w => s.ind w - 1 == 0) (gn u)).reverse
      · rw [if_pos hv] at hl
        have : p = u := by simpa using hl.symm
        subst this
        exact ⟨hun, (List.mem_filter.mp (List.mem_reverse.mp hv)).1, by rw [f1]; simp⟩
      · rw [if_neg hv] at hl
        obtain ⟨g1, g2, g3⟩ := hpred v p hl
        exact ⟨g1, g2, by rw [f1]; exact List.mem_append_left _ g3⟩
    · rw [f1]; simp


theorem topoInit_invW {gn : Graph} {n : Nat} (hc : CondW gn n) : TInv gn n (topoInit gn n) := by
  unfold topoInit
  refine ⟨?_, ?_, ?_, ?_, ?_, ?_⟩
  · intro v _
    have := foldl_indeg gn (List.range n) (fun _ => 0) v (fun a ha => hc.nodup a (List.mem_range.mp ha))
    simp only [Nat.zero_add] at this
    exact this
  · intro v
    simp only [List.mem_filter, List.mem_range, beq_iff_eq, List.not_mem_nil, not_false_eq_true, true_and]
  · exact List.nodup_range.filter _
  · exact trivial
  · intro v hv; simp at hv
  · intro v u hl
    simp only at hl
    rw [List.map_reverse, ← List.map_reverse] at hl
    have := lookup_map_append' (List.filter (fun i => indeg gn n i == 0) (List.range n)).reverse (none : Option Nat) [] v
    rw [List.append_nil] at this
    rw [this] at hl
    split at hl <;> simp at hl

/-- the sort ends within `n` iterations, for every worklist discipline, cyclic or not, and its invariant holds at the end -/
theorem topo_finalW {gn : Graph} {n : Nat} (hc : CondW gn n) (pick : List Nat → List Nat → Nat) (F : Nat) (hF : n ≤ F) :
    TInv gn n (iter T3.done (step3 pick gn) F (topoInit gn n)) ∧
    (iter T3.done (step3 pick gn) F (topoInit gn n)).done = true := by
  have key := iter_inv T3.done (step3 pick gn) (fun s => TInv gn n s ∧ s.out.length ≤ n) (fun s => n - s.out.length)
    (by
      intro s ⟨hi, _⟩ hd
      obtain ⟨hi', hlen⟩ := topo_stepW hc pick s hi hd
      have hle : (step3 pick gn s).out.length ≤ n := by
        have hnd : (step3 pick gn s).out.Nodup := by
          have := good_nodup _ _ hi'.good
          exact nodup_of_reverse this
        have hsub : ∀ x ∈ (step3 pick gn s).out, x ∈ List.range n := fun x hx => List.mem_range.mpr (hi'.lt x hx)
        simpa using List.Nodup.length_le_of_subset hnd hsub
      exact ⟨⟨hi', hle⟩, by omega⟩)
    F (topoInit gn n) ⟨topoInit_invW hc, by simp [topoInit]⟩ (by simp [topoInit]; omega)
  exact ⟨key.1.1, key.2⟩

/-- at the end a group that was not scheduled has a predecessor that was not scheduled -/
theorem topo_leftoverW {gn : Graph} {n : Nat} (s : T3) (inv : TInv gn n s) (hd : s.done = true) :
    ∀ v, v < n → v ∉ s.out → ∃ a, a < n ∧ v ∈ gn a ∧ a ∉ s.out := by
  have hq : s.q = [] := by simpa [T3.done] using hd
  intro v hv hvo
  have hne : s.ind v ≠ 0 := by
    intro h0
    have := (inv.q v).mpr ⟨hv, hvo, h0⟩
    rw [hq] at this; simp at this
  rw [inv.ind v hv] at hne
  obtain ⟨a, ha, hva, hao⟩ := cntL_pos gn s.out v _ hne
  exact ⟨a, List.mem_range.mp ha, hva, hao⟩

/-- everything about `scc_schedule` on a possibly cyclic `G_new` -/
theorem schedule_factsW {gn : Graph} {n : Nat} (hc : CondW gn n) (pick : List Nat → List Nat → Nat) :
    (topo pick gn n).done = true ∧ (sccSchedule pick gn n).Nodup ∧ (∀ i ∈ sccSchedule pick gn n, i < n) ∧
    (∀ i j, i < n → j ∈ gn i → j ∈ sccSchedule pick gn n →
      ∃ pre post, sccSchedule pick gn n = pre ++ i :: post ∧ j ∈ post) ∧
    (∀ v, v < n → v ∉ sccSchedule pick gn n → ∃ a, a < n ∧ v ∈ gn a ∧ a ∉ sccSchedule pick gn n) ∧
    ((sccSchedule pick gn n).length = n ↔ ∀ i, i < n → i ∈ sccSchedule pick gn n) := by
  obtain ⟨inv, hdone⟩ := topo_finalW hc pick n (Nat.le_refl _)
  change TInv gn n (topo pick gn n) at inv
  have hnd : (sccSchedule pick gn n).Nodup := nodup_of_reverse (good_nodup _ _ inv.good)
  refine ⟨hdone, hnd, inv.lt, ?_, topo_leftoverW _ inv hdone, ?_⟩
  · intro i j hi hj hjs
    obtain ⟨pre, post, hpp, hin⟩ := good_order _ _ inv.good (i, j) (mem_condEdgeList.mpr ⟨hi, hj⟩)
      (List.mem_reverse.mpr hjs)
    obtain ⟨p1, p2, hp12⟩ := List.append_of_mem hin
    refine ⟨p2.reverse, p1.reverse ++ j :: pre.reverse, ?_, by simp⟩
    have : sccSchedule pick gn n = ((topo pick gn n).out.reverse).reverse := by simp [sccSchedule]
    rw [this, hpp, hp12]
    simp [List.reverse_append]
  · constructor
    · intro hlen i hi
      by_cases h : i ∈ sccSchedule pick gn n
      · exact h
      · exfalso
        have hsub : ∀ x ∈ i :: sccSchedule pick gn n, x ∈ List.range n := by
          intro x hx
          rcases List.mem_cons.mp hx with rfl | hx
          · exact List.mem_range.mpr hi
          · exact List.mem_range.mpr (inv.lt x hx)
        have := List.Nodup.length_le_of_subset (List.nodup_cons.mpr ⟨h, hnd⟩) hsub
        simp at this; omega
    · intro hall
      have h1 : (sccSchedule pick gn n).length ≤ n := by
        simpa using List.Nodup.length_le_of_subset hnd (fun x hx => List.mem_range.mpr (inv.lt x hx))
      have h2 : n ≤ (sccSchedule pick gn n).length := by
        simpa using List.Nodup.length_le_of_subset (List.nodup_range (n := n)) (fun x hx => hall x (List.mem_range.mp hx))
      omega

end PV.Scc
