import PymtlVerif.Proofs.PipeRef6
/-!
A concrete program for the non-vacuity examples of LEVEL 3: `addi x1, x0, 5 ; csrw proc2mngr, x1` at the reset
vector (the `csrw` reads x1 through the bypass network).  The image is a `Std.HashMap`, which the kernel does
not evaluate, so the two ISA steps are established by rewriting.
-/
namespace PV.Pipe
open PV.TinyRV0

theorem lw_sw (m : Mem) (a v a' : Nat) : loadWord (storeWord m a v) a' =
    if a' = a then v % W32 else if a' + 4 ≤ a ∨ a + 4 ≤ a' then loadWord m a' else loadWord (storeWord m a v) a' := by
  split
  · next h => subst h; exact loadWord_storeWord_same m _ v
  · split
    · next h => exact loadWord_storeWord_disjoint m a v a' h
    · rfl

/-- `addi x1, x0, 5 ; csrw proc2mngr, x1` at the reset vector -/
def tiny : Prog := { mem0 := loadImage [(0x200, 0x00500093), (0x204, 0x7c009073)], inp := [] }

theorem tiny_w0 : loadWord tiny.mem0 0x200 = 0x00500093 := by
  simp [tiny, loadImage, lw_sw, W32]
theorem tiny_w1 : loadWord tiny.mem0 0x204 = 0x7c009073 := by
  simp [tiny, loadImage, lw_sw, W32]

theorem tiny_s1 : isaAt tiny 1 = { (isaAt tiny 0) with pc := 0x204, regs := rset (isaAt tiny 0).regs 1 5 } ∧
    (∃ s', TinyRV0.step (isaAt tiny 0) = .ok s') := by
  have hd : decode 0x00500093 = some (.addi 1 0 5) := by decide
  have hpc : (isaAt tiny 0).pc = 0x200 := rfl
  have hmem : (isaAt tiny 0).mem = tiny.mem0 := rfl
  have hs : TinyRV0.step (isaAt tiny 0) = .ok { (isaAt tiny 0) with pc := 0x204, regs := rset (isaAt tiny 0).regs 1 5 } := by
    simp only [TinyRV0.step, fetch, hpc, hmem, tiny_w0, hd, show addrOk 0x200 = true from by decide, if_true, exec]
    rfl
  have e : isaAt tiny 1 = match TinyRV0.step (isaAt tiny 0) with
      | .ok s' => s'
      | .error _ => isaAt tiny 0 := rfl
  exact ⟨by rw [e, hs], _, hs⟩

theorem tiny_s2 : ∃ s', TinyRV0.step (isaAt tiny 1) = .ok s' := by
  have hd : decode 0x7c009073 = some (.csrw 0x7c0 1) := by decide
  rw [tiny_s1.1]
  have hmem : (isaAt tiny 0).mem = tiny.mem0 := rfl
  simp only [TinyRV0.step, fetch, hmem, tiny_w1, hd, show addrOk 0x204 = true from by decide, if_true, exec,
    TinyRV0.CSR_PROC2MNGR]
  exact ⟨_, rfl⟩

/-- the ISA runs the two instructions of `tiny` -/
theorem tiny_runs : Runs tiny 2 := by
  intro j hj
  have : j = 0 ∨ j = 1 := by omega
  rcases this with h | h <;> subst h
  · exact ⟨tiny_s1.2, by show loadWord tiny.mem0 0x200 = loadWord tiny.mem0 0x200; rfl⟩
  · refine ⟨tiny_s2, ?_⟩
    simp only [wordAt, tiny_s1.1]
    rfl


/-! ### a checker for the instruction-fetch part of the environment assumption on literal traces -/

/-- runs the bookkeeping of `envOk` / `envNext` for traces without reset, data-memory responses and mngr2proc
messages; returns the (address, data) pairs of the instruction responses, to be justified against the image -/
def fetchChk : List Nat → State → List EnvIn → Option (List (Nat × Nat))
  | _, _, [] => some []
  | ipend, s, i :: is =>
    if i.reset || i.dmem_resp_en || i.mngr2proc_en then none
    else
      let o := out s i
      let r : Option (List (Nat × Nat) × List Nat) :=
        if i.imem_resp_en then
          match ipend with
          | [] => none
          | a :: rest => if o.imem_resp_rdy then some ([(a, i.imem_resp_data)], rest) else none
        else some ([], ipend)
      match r with
      | none => none
      | some (obl, ipend1) =>
        match fetchChk (ipend1 ++ (if o.imem_req_en then [o.imem_req_addr] else [])) (next s i) is with
        | none => none
        | some obls => some (obl ++ obls)

theorem fetchChk_sound (p : Prog) : ∀ (envs : List EnvIn) (E : Env) (s : State) (obls : List (Nat × Nat)),
    fetchChk E.ipend s envs = some obls → (∀ ad ∈ obls, loadWord p.mem0 ad.1 = ad.2) → EnvTrace p E s envs
  | [], _, _, _, _, _ => trivial
  | i :: is, E, s, obls, h, hw => by
    simp only [fetchChk] at h
    split at h
    · cases h
    · next hc =>
      simp only [Bool.or_eq_true, not_or, Bool.not_eq_true] at hc
      obtain ⟨⟨hr, hd⟩, hm⟩ := hc
      split at h
      · cases h
      · next obl ipend1 hr1 =>
        split at h
        · cases h
        · next obls' hrec =>
          cases h
          have hnext : (envNext E i (out s i)).ipend = ipend1 ++ (if (out s i).imem_req_en then [(out s i).imem_req_addr] else []) := by
            simp only [envNext]
            rcases Bool.eq_false_or_eq_true i.imem_resp_en with he | he
            · simp only [he, if_true] at hr1 ⊢
              split at hr1
              · cases hr1
              · next a rest hp =>
                split at hr1
                · cases hr1; simp [hp]
                · cases hr1
            · simp only [he, Bool.false_eq_true, if_false] at hr1 ⊢
              cases hr1; rfl
          refine ⟨⟨hr, ?_, by simp [hd], by simp [hm]⟩, ?_⟩
          · intro he
            simp only [he, if_true] at hr1
            split at hr1
            · cases hr1
            · next a rest hp =>
              split at hr1
              · next hrdy =>
                cases hr1
                exact ⟨hrdy, a, _, hp, (hw (a, i.imem_resp_data) (by simp)).symm⟩
              · cases hr1
          · apply fetchChk_sound p is _ _ obls'
            · rw [hnext]; exact hrec
            · intro ad had; exact hw ad (by simp [had])

/-! ### the real `ProcRTL` running `tiny` (recorded after the reset cycles; memory latency 2) -/

def tinyTrace : List EnvIn := [
  { imem_req_rdy := true, dmem_req_rdy := true, proc2mngr_rdy := true, xcel_req_rdy := true },
  { imem_req_rdy := true, dmem_req_rdy := true, proc2mngr_rdy := true, xcel_req_rdy := true },
  { imem_req_rdy := true, imem_resp_en := true, imem_resp_data := 5243027, dmem_req_rdy := true, proc2mngr_rdy := true, xcel_req_rdy := true },
  { imem_req_rdy := true, imem_resp_data := 5243027, dmem_req_rdy := true, proc2mngr_rdy := true, xcel_req_rdy := true },
  { imem_req_rdy := true, imem_resp_en := true, imem_resp_data := 2080411763, dmem_req_rdy := true, proc2mngr_rdy := true, xcel_req_rdy := true },
  { imem_req_rdy := true, imem_resp_data := 2080411763, dmem_req_rdy := true, proc2mngr_rdy := true, xcel_req_rdy := true },
  { imem_req_rdy := true, imem_resp_en := true, dmem_req_rdy := true, proc2mngr_rdy := true, xcel_req_rdy := true },
  { imem_req_rdy := true, dmem_req_rdy := true, proc2mngr_rdy := true, xcel_req_rdy := true },
  { imem_req_rdy := true, imem_resp_en := true, dmem_req_rdy := true, proc2mngr_rdy := true, xcel_req_rdy := true }
]

/-- the state after one reset cycle from power-on -/
def tinyS0 : State := next State.init { reset := true }

theorem tiny_w2 : loadWord tiny.mem0 0x208 = 0 := by
  have : loadWord Mem.empty 0x208 = 0 := by simp [loadWord, Mem.get_empty]
  simp [tiny, loadImage, lw_sw, this]
theorem tiny_w3 : loadWord tiny.mem0 0x20c = 0 := by
  have : loadWord Mem.empty 0x20c = 0 := by simp [loadWord, Mem.get_empty]
  simp [tiny, loadImage, lw_sw, this]

/-- the recorded inputs are admissible for `tiny` -/
theorem tinyTrace_ok : EnvTrace tiny (Env.init tiny) tinyS0 tinyTrace := by
  apply fetchChk_sound tiny tinyTrace (Env.init tiny) tinyS0 [(0x200, 5243027), (0x204, 2080411763), (0x208, 0), (0x20c, 0)]
  · decide
  · intro ad had
    simp only [List.mem_cons, List.not_mem_nil, or_false] at had
    rcases had with h | h | h | h <;> subst h
    · exact tiny_w0
    · exact tiny_w1
    · exact tiny_w2
    · exact tiny_w3

end PV.Pipe
