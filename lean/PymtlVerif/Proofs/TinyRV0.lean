import PymtlVerif.Model.TinyRV0
/-!
Helper lemmas about `Model/TinyRV0.lean` (core Lean only): field extraction of the encodings,
`decode ∘ encode`, soundness of `decode`, byte memory (`storeWord`/`loadWord`), register file
(`rget`/`rset`), and the state invariant `State.Ok` preserved by `exec`.
-/
namespace PV.TinyRV0

/-! ### encodings -/


theorem fields_encR (f7 rs2 rs1 f3 rd opc : Nat)
    (h7 : f7 < 128) (h2 : rs2 < 32) (h1 : rs1 < 32) (h3 : f3 < 8) (hd : rd < 32) (ho : opc < 128) :
    fields (encR f7 rs2 rs1 f3 rd opc) =
      { opc := opc, rd := rd, f3 := f3, rs1 := rs1, rs2 := rs2, f7 := f7,
        immI := f7 * 32 + rs2, immS := f7 * 32 + rd,
        immB := (f7 / 64) * 4096 + (rd % 2) * 2048 + (f7 % 64) * 32 + (rd / 2) * 2 } ∧
    encR f7 rs2 rs1 f3 rd opc < 2^32 := by
  simp only [fields, encR, Fields.mk.injEq]
  refine ⟨⟨?_, ?_, ?_, ?_, ?_, ?_, ?_, ?_, ?_⟩, ?_⟩ <;> omega

theorem encI_eq (imm rs1 f3 rd opc : Nat) :
    encI imm rs1 f3 rd opc = encR (imm / 32) (imm % 32) rs1 f3 rd opc := by
  simp only [encI, encR]; omega

theorem encS_eq (imm rs2 rs1 f3 opc : Nat) :
    encS imm rs2 rs1 f3 opc = encR (imm / 32) rs2 rs1 f3 (imm % 32) opc := rfl

theorem encB_eq (imm rs2 rs1 f3 opc : Nat) (_hi : imm < 8192) :
    encB imm rs2 rs1 f3 opc =
      encR (imm / 4096 * 64 + imm / 32 % 64) rs2 rs1 f3 (imm / 2 % 16 * 2 + imm / 2048 % 2) opc := by
  simp only [encB, encR]; omega


theorem decode_encR (f7 rs2 rs1 f3 rd opc : Nat)
    (h7 : f7 < 128) (h2 : rs2 < 32) (h1 : rs1 < 32) (h3 : f3 < 8) (hd : rd < 32) (ho : opc < 128) :
    decode (encR f7 rs2 rs1 f3 rd opc) = decodeF
      { opc := opc, rd := rd, f3 := f3, rs1 := rs1, rs2 := rs2, f7 := f7,
        immI := f7 * 32 + rs2, immS := f7 * 32 + rd,
        immB := (f7 / 64) * 4096 + (rd % 2) * 2048 + (f7 % 64) * 32 + (rd / 2) * 2 } := by
  obtain ⟨hf, hlt⟩ := fields_encR f7 rs2 rs1 f3 rd opc h7 h2 h1 h3 hd ho
  simp only [decode, hlt, if_true, hf]

theorem decode_encode (i : Inst) (h : i.Wf) : decode (encode i) = some i := by
  cases i with
  | add rd rs1 rs2 | and rd rs1 rs2 | sll rd rs1 rs2 | srl rd rs1 rs2 =>
    obtain ⟨a, b, c⟩ := h
    simp only [encode]
    rw [decode_encR _ _ _ _ _ _ (by omega) c b (by omega) a (by omega)]
    simp [decodeF]
  | addi rd rs1 imm | lw rd rs1 imm =>
    obtain ⟨a, b, c⟩ := h
    simp only [encode, encI_eq]
    rw [decode_encR _ _ _ _ _ _ (by omega) (by omega) b (by omega) a (by omega)]
    simp [decodeF]; omega
  | sw rs2 rs1 imm =>
    obtain ⟨a, b, c⟩ := h
    simp only [encode, encS_eq]
    rw [decode_encR _ _ _ _ _ _ (by omega) a b (by omega) (by omega) (by omega)]
    simp [decodeF]; omega
  | bne rs1 rs2 imm =>
    obtain ⟨a, b, c, d⟩ := h
    simp only [encode, encB_eq _ _ _ _ _ c]
    rw [decode_encR _ _ _ _ _ _ (by omega) b a (by omega) (by omega) (by omega)]
    have hs : imm = imm / 4096 * 4096 + imm / 2048 % 2 * 2048 + imm / 32 % 64 * 32 + imm / 2 % 16 * 2 := by
      omega
    have h1 : imm / 4096 < 2 := by omega
    have h2 : imm / 2048 % 2 < 2 := by omega
    have h3 : imm / 32 % 64 < 64 := by omega
    have h4 : imm / 2 % 16 < 16 := by omega
    simp [decodeF]
    generalize imm / 4096 = A at *
    generalize imm / 2048 % 2 = B at *
    generalize imm / 32 % 64 = C at *
    generalize imm / 2 % 16 = D at *
    clear c d a b
    omega
  | csrr rd csr =>
    obtain ⟨a, b⟩ := h
    simp only [encode, encI_eq]
    rw [decode_encR _ _ _ _ _ _ (by omega) (by omega) (by omega) (by omega) a (by omega)]
    simp [decodeF]; omega
  | csrw csr rs1 =>
    obtain ⟨a, b⟩ := h
    simp only [encode, encI_eq]
    rw [decode_encR _ _ _ _ _ _ (by omega) (by omega) b (by omega) (by omega) (by omega)]
    simp [decodeF]; omega


/-! ### decode is sound -/


theorem bparts (a b c d : Nat) (ha : a < 2) (hb : b < 2) (hc : c < 64) (hd : d < 16) :
    let imm := a * 4096 + b * 2048 + c * 32 + d * 2
    imm / 4096 = a ∧ imm / 32 % 64 = c ∧ imm / 2 % 16 = d ∧ imm / 2048 % 2 = b ∧ imm < 8192 ∧ imm % 2 = 0 := by
  refine ⟨?_, ?_, ?_, ?_, ?_, ?_⟩ <;> omega

theorem decode_sound (w : Nat) (i : Inst) (h : decode w = some i) : i.Wf ∧ encode i = w := by
  unfold decode at h
  split at h
  · rename_i hw
    unfold decodeF fields at h
    simp only at h
    repeat' split at h
    all_goals first
      | (simp at h; done)
      | (injection h with h; subst h; simp only [Inst.Wf, encode, encR, encI, encS]; omega)
      | skip
    -- bne
    rename_i h1 h2 h3 h4 h5 h6
    injection h with h; subst h
    have ha : w / 2^31 % 2 < 2 := by omega
    have hb : w / 2^7 % 2 < 2 := by omega
    have hc : w / 2^25 % 64 < 64 := by omega
    have hd : w / 2^8 % 16 < 16 := by omega
    have hw' : w = (w / 2^31 % 2) * 2^31 + (w / 2^25 % 64) * 2^25 + (w / 2 ^ 20 % 32) * 2^20 +
        (w / 2 ^ 15 % 32) * 2^15 + 1 * 2^12 + (w / 2^8 % 16) * 2^8 + (w / 2^7 % 2) * 2^7 + 0x63 := by omega
    obtain ⟨p1, p2, p3, p4, p5, p6⟩ := bparts _ _ _ _ ha hb hc hd
    simp only [Inst.Wf, encode, encB]
    rw [p1, p2, p3, p4]
    refine ⟨⟨by omega, by omega, p5, p6⟩, ?_⟩
    exact hw'.symm
  · exact absurd h (by simp)


/-! ### memory -/


theorem Mem.get_set (m : Mem) (a b c : Nat) : (m.set a b).get c = if a = c then b else m.get c := by
  simp [Mem.get, Mem.set, Std.HashMap.getD_insert]

theorem Mem.get_empty (a : Nat) : Mem.empty.get a = 0 := by
  simp [Mem.get, Mem.empty]

theorem storeWord_get (m : Mem) (a v c : Nat) :
    (storeWord m a v).get c =
      if c = a then v % 256 else if c = a + 1 then v / 256 % 256
      else if c = a + 2 then v / 65536 % 256 else if c = a + 3 then v / 16777216 % 256 else m.get c := by
  simp only [storeWord, Mem.get_set]
  by_cases h0 : c = a
  · subst h0; simp
  · by_cases h1 : c = a + 1
    · subst h1; simp
    · by_cases h2 : c = a + 2
      · subst h2; simp
      · by_cases h3 : c = a + 3
        · subst h3; simp
        · have e0 : ¬ a = c := fun h => h0 h.symm
          have e1 : ¬ a + 1 = c := fun h => h1 h.symm
          have e2 : ¬ a + 2 = c := fun h => h2 h.symm
          have e3 : ¬ a + 3 = c := fun h => h3 h.symm
          simp [h0, h1, h2, h3, e0, e1, e2, e3]

theorem loadWord_storeWord_same (m : Mem) (a v : Nat) : loadWord (storeWord m a v) a = v % W32 := by
  simp only [loadWord, storeWord_get, W32]
  simp
  omega

theorem loadWord_storeWord_disjoint (m : Mem) (a v a' : Nat) (h : a' + 4 ≤ a ∨ a + 4 ≤ a') :
    loadWord (storeWord m a v) a' = loadWord m a' := by
  simp only [loadWord, storeWord_get]
  have : ∀ k, k < 4 → ¬ (a' + k = a) ∧ ¬ (a' + k = a + 1) ∧ ¬ (a' + k = a + 2) ∧ ¬ (a' + k = a + 3) := by
    intro k hk; omega
  have h0 := this 0 (by omega); have h1 := this 1 (by omega)
  have h2 := this 2 (by omega); have h3 := this 3 (by omega)
  simp only [Nat.add_zero] at h0
  simp [h0, h1, h2, h3]

theorem loadWord_lt (m : Mem) (a : Nat) (h : ∀ c, m.get c < 256) : loadWord m a < W32 := by
  have h0 := h a; have h1 := h (a+1); have h2 := h (a+2); have h3 := h (a+3)
  simp only [loadWord, W32]; omega


/-! ### registers -/


theorem rset_length (rs : List Nat) (r v : Nat) : (rset rs r v).length = rs.length := by
  unfold rset; split <;> simp

theorem rget_rset (rs : List Nat) (r v r' : Nat) :
    rget (rset rs r v) r' = if r = r' ∧ r ≠ 0 ∧ r < rs.length then v else rget rs r' := by
  unfold rset rget
  by_cases h0 : r = 0
  · simp [h0]
  · simp only [h0, if_false, List.getD_eq_getElem?_getD, List.getElem?_set]
    by_cases h1 : r = r'
    · subst h1
      by_cases h2 : r < rs.length
      · simp [h2, h0]
      · simp [h2, h0]
    · simp [h1]

theorem rget_rset_zero (rs : List Nat) (r v : Nat) : rget (rset rs r v) 0 = rget rs 0 := by
  rw [rget_rset]; split
  · next h => exact absurd h.1 h.2.1
  · rfl


/-! ### state invariant -/
/-- well-formed architectural state -/
structure State.Ok (s : State) : Prop where
  len : s.regs.length = 32
  x0 : rget s.regs 0 = 0
  regs : ∀ r, rget s.regs r < W32
  mem : ∀ a, s.mem.get a < 256
  inp : ∀ v ∈ s.inp, v < W32
  out : ∀ v ∈ s.out, v < W32
  pc : s.pc < W32

theorem rset_lt (rs : List Nat) (r v : Nat) (h : ∀ r', rget rs r' < W32) (hv : v < W32) :
    ∀ r', rget (rset rs r v) r' < W32 := by
  intro r'; rw [rget_rset]; split
  · exact hv
  · exact h r'

theorem storeWord_byte (m : Mem) (a v : Nat) (h : ∀ c, m.get c < 256) : ∀ c, (storeWord m a v).get c < 256 := by
  intro c; rw [storeWord_get]
  repeat' split
  all_goals first | exact h c | omega

theorem mod_W32_lt (x : Nat) : x % W32 < W32 := Nat.mod_lt _ (by decide)

theorem exec_ok (s s' : State) (i : Inst) (h : s.Ok) (he : exec s i = .ok s') : s'.Ok := by
  have hpc : (s.pc + 4) % W32 < W32 := mod_W32_lt _
  cases i <;> simp only [exec] at he
  case add rd rs1 rs2 =>
    cases he
    exact ⟨by simp [rset_length, h.len], by simp [rget_rset_zero, h.x0],
      rset_lt _ _ _ h.regs (mod_W32_lt _), h.mem, h.inp, h.out, hpc⟩
  case and rd rs1 rs2 =>
    cases he
    exact ⟨by simp [rset_length, h.len], by simp [rget_rset_zero, h.x0],
      rset_lt _ _ _ h.regs (Nat.lt_of_le_of_lt Nat.and_le_left (h.regs rs1)), h.mem, h.inp, h.out, hpc⟩
  case sll rd rs1 rs2 =>
    cases he
    exact ⟨by simp [rset_length, h.len], by simp [rget_rset_zero, h.x0],
      rset_lt _ _ _ h.regs (mod_W32_lt _), h.mem, h.inp, h.out, hpc⟩
  case srl rd rs1 rs2 =>
    cases he
    refine ⟨by simp [rset_length, h.len], by simp [rget_rset_zero, h.x0],
      rset_lt _ _ _ h.regs ?_, h.mem, h.inp, h.out, hpc⟩
    rw [Nat.shiftRight_eq_div_pow]
    exact Nat.lt_of_le_of_lt (Nat.div_le_self _ _) (h.regs rs1)
  case addi rd rs1 imm =>
    cases he
    exact ⟨by simp [rset_length, h.len], by simp [rget_rset_zero, h.x0],
      rset_lt _ _ _ h.regs (mod_W32_lt _), h.mem, h.inp, h.out, hpc⟩
  case lw rd rs1 imm =>
    split at he
    · cases he
      exact ⟨by simp [rset_length, h.len], by simp [rget_rset_zero, h.x0],
        rset_lt _ _ _ h.regs (loadWord_lt _ _ h.mem), h.mem, h.inp, h.out, hpc⟩
    · cases he
  case sw rs2 rs1 imm =>
    split at he
    · cases he
      exact ⟨h.len, h.x0, h.regs, storeWord_byte _ _ _ h.mem, h.inp, h.out, hpc⟩
    · cases he
  case bne rs1 rs2 imm =>
    split at he <;> cases he
    · exact ⟨h.len, h.x0, h.regs, h.mem, h.inp, h.out, mod_W32_lt _⟩
    · exact ⟨h.len, h.x0, h.regs, h.mem, h.inp, h.out, hpc⟩
  case csrr rd csr =>
    split at he
    · split at he
      · cases he
      · next v rest hin =>
        cases he
        have hi := h.inp
        rw [hin] at hi
        exact ⟨by simp [rset_length, h.len], by simp [rget_rset_zero, h.x0],
          rset_lt _ _ _ h.regs (hi v (by simp)), h.mem, fun x hx => hi x (by simp [hx]), h.out, hpc⟩
    · cases he
  case csrw csr rs1 =>
    split at he
    · cases he
      refine ⟨h.len, h.x0, h.regs, h.mem, h.inp, ?_, hpc⟩
      intro v hv
      simp only [List.mem_append, List.mem_singleton] at hv
      rcases hv with hv | hv
      · exact h.out v hv
      · subst hv; exact h.regs rs1
    · cases he


end PV.TinyRV0
