import PymtlVerif.Proofs.SccDfs
/-!
Phase 2 of `kosaraju_scc`: the BFS over `G_T` from a root `r` collects exactly the vertices that reach `r` by
unvisited vertices (within the fuel `len(V)`), and — processed in reverse post-order — each group is a strongly
connected component; invariants of the outer `for u in RPO:` loop (`P2Inv`).
-/
namespace PV.Scc

/-- effect of `for v in G_T[u]: if v not in visited: …` -/
theorem foldl_visitPred (V : List Nat) : ∀ (l : List Nat) (s : B2), (∀ v ∈ l, v ∈ V) →
    ∃ new, (l.foldl visitPred s).q = s.q ++ new ∧ (l.foldl visitPred s).scc = s.scc ++ new ∧
      (l.foldl visitPred s).vmap = s.vmap ∧
      (∀ x, x ∈ (l.foldl visitPred s).visited ↔ x ∈ s.visited ∨ x ∈ new) ∧
      (∀ x ∈ new, x ∉ s.visited ∧ x ∈ l) ∧ new.Nodup ∧ (∀ v ∈ l, v ∈ (l.foldl visitPred s).visited) ∧
      new.length + unv V (l.foldl visitPred s).visited ≤ unv V s.visited := by
  intro l
  induction l with
  | nil => intro s _; exact ⟨[], by simp⟩
  | cons v l ih =>
    intro s hl
    have hl' : ∀ x ∈ l, x ∈ V := fun x hx => hl x (List.mem_cons_of_mem _ hx)
    simp only [List.foldl_cons]
    by_cases hv : v ∈ s.visited
    · have e : visitPred s v = s := by simp [visitPred, hv]
      rw [e]
      obtain ⟨new, h1, h2, h3, h4, h5, h6, h7, h8⟩ := ih s hl'
      refine ⟨new, h1, h2, h3, h4, ?_, h6, ?_, h8⟩
      · intro x hx; exact ⟨(h5 x hx).1, List.mem_cons_of_mem _ (h5 x hx).2⟩
      · intro x hx
        rcases List.mem_cons.mp hx with rfl | hx
        · exact (h4 x).mpr (.inl hv)
        · exact h7 x hx
    · have e : visitPred s v = { s with visited := v :: s.visited, q := s.q ++ [v], scc := s.scc ++ [v] } := by
        simp [visitPred, hv]
      rw [e]
      obtain ⟨new, h1, h2, h3, h4, h5, h6, h7, h8⟩ := ih { s with visited := v :: s.visited, q := s.q ++ [v], scc := s.scc ++ [v] } hl'
      simp only at h1 h2 h3 h4 h5 h8
      refine ⟨v :: new, by simp [h1], by simp [h2], h3, ?_, ?_, ?_, ?_, ?_⟩
      · intro x; rw [h4]; simp only [List.mem_cons]; grind
      · intro x hx
        rcases List.mem_cons.mp hx with rfl | hx
        · exact ⟨hv, List.mem_cons_self⟩
        · have := h5 x hx
          exact ⟨fun h => this.1 (List.mem_cons_of_mem _ h), List.mem_cons_of_mem _ this.2⟩
      · rw [List.nodup_cons]
        exact ⟨fun h => (h5 v h).1 List.mem_cons_self, h6⟩
      · intro x hx
        rcases List.mem_cons.mp hx with rfl | hx
        · exact (h4 x).mpr (.inl List.mem_cons_self)
        · exact h7 x hx
      · have := unv_cons_lt V (hl v List.mem_cons_self) hv
        simp only [List.length_cons]; omega

/-- invariant of the `while Q:` loop of the group with root `r`, started with visited set `vis0` -/
structure BfsInv (G GT : Graph) (vis0 : List Nat) (r idx : Nat) (vm0 : List (Nat × Nat)) (s : B2) : Prop where
  popped : ∃ p, s.scc = p ++ s.q ∧ (∀ u ∈ p, ∀ v ∈ GT u, v ∈ s.visited) ∧
    s.vmap = p.reverse.map (fun x => (x, idx)) ++ vm0
  vis : ∀ x, x ∈ s.visited ↔ x ∈ vis0 ∨ x ∈ s.scc
  fresh : ∀ x ∈ s.scc, x ∉ vis0
  nodup : s.scc.Nodup
  reach : ∀ x ∈ s.scc, RA G (fun y => y ∉ vis0) x r
  root : r ∈ s.scc

theorem bfs_step {G GT : Graph} {V : List Nat} (wf : WF G GT V) {vis0 : List Nat} {r idx : Nat} {vm0 : List (Nat × Nat)}
    (s : B2) (inv : BfsInv G GT vis0 r idx vm0 s) (hd : s.done = false) :
    BfsInv G GT vis0 r idx vm0 (step2 GT idx s) ∧
      (step2 GT idx s).q.length + unv V (step2 GT idx s).visited < s.q.length + unv V s.visited := by
  obtain ⟨⟨p, hp1, hp2, hp3⟩, hvis, hfresh, hnd, hreach, hroot⟩ := inv
  cases hq : s.q with
  | nil => simp [B2.done, hq] at hd
  | cons u q' =>
    have hstep : step2 GT idx s = (GT u).foldl visitPred { s with q := q', vmap := (u, idx) :: s.vmap } := by
      simp [step2, hq]
    have hGT : ∀ v ∈ GT u, v ∈ V := fun v hv => wf.src v u ((wf.transp v u).mp hv)
    obtain ⟨new, h1, h2, h3, h4, h5, h6, h7, h8⟩ := foldl_visitPred V (GT u) { s with q := q', vmap := (u, idx) :: s.vmap } hGT
    rw [← hstep] at h1 h2 h3 h4 h7 h8
    simp only at h1 h2 h3 h4 h5 h8
    have hu_scc : u ∈ s.scc := by rw [hp1, hq]; simp
    refine ⟨⟨⟨p ++ [u], ?_, ?_, ?_⟩, ?_, ?_, ?_, ?_, ?_⟩, ?_⟩
    · rw [h2, h1, hp1, hq]; simp
    · intro a ha v hv
      rcases List.mem_append.mp ha with ha | ha
      · exact (h4 v).mpr (.inl (hp2 a ha v hv))
      · simp at ha; subst ha; exact h7 v hv
    · rw [h3, hp3]; simp
    · intro x; rw [h4, hvis, h2]; simp only [List.mem_append]; grind
    · intro x hx
      rw [h2] at hx
      rcases List.mem_append.mp hx with hx | hx
      · exact hfresh x hx
      · intro hx0; exact (h5 x hx).1 ((hvis x).mpr (.inl hx0))
    · rw [h2, List.nodup_append]
      refine ⟨hnd, h6, ?_⟩
      intro a ha b hb hab
      subst hab
      exact (h5 a hb).1 ((hvis a).mpr (.inr ha))
    · intro x hx
      rw [h2] at hx
      rcases List.mem_append.mp hx with hx | hx
      · exact hreach x hx
      · have hx0 : x ∉ vis0 := fun hx0 => (h5 x hx).1 ((hvis x).mpr (.inl hx0))
        exact .head hx0 ((wf.transp x u).mp (h5 x hx).2) (hreach u hu_scc)
    · rw [h2]; exact List.mem_append_left _ hroot
    · rw [h1]; simp only [List.length_append, List.length_cons]; omega

theorem bfs_complete {G GT : Graph} {V : List Nat} (wf : WF G GT V) {scc vis vis0 : List Nat}
    (hp2 : ∀ u ∈ scc, ∀ v ∈ GT u, v ∈ vis) (hvis : ∀ x, x ∈ vis ↔ x ∈ vis0 ∨ x ∈ scc) {x r : Nat}
    (h : RA G (fun y => y ∉ vis0) x r) : r ∈ scc → x ∈ scc := by
  induction h with
  | refl _ => exact id
  | @head a b c ha he _ ih =>
    intro hroot
    have hb := ih hroot
    have : a ∈ vis := hp2 b hb a ((wf.transp a b).mpr he)
    rcases (hvis a).mp this with h | h
    · exact absurd h ha
    · exact h

/-- **fuel sufficiency and meaning of one BFS**: with fuel `len(V)` the loop ends with an empty deque; the group is the
set of vertices that reach the root by vertices unvisited at the start -/
theorem bfs_spec {G GT : Graph} {V : List Nat} (wf : WF G GT V) (vis0 : List Nat) (r : Nat) (hr : r ∈ V) (hrv : r ∉ vis0)
    (idx : Nat) (vm0 : List (Nat × Nat)) (F : Nat) (hF : V.length ≤ F) :
    let s := iter B2.done (step2 GT idx) F ⟨[r], r :: vis0, [r], vm0⟩
    s.done = true ∧ (∀ x, x ∈ s.scc ↔ RA G (fun y => y ∉ vis0) x r) ∧ (∀ x, x ∈ s.visited ↔ x ∈ vis0 ∨ x ∈ s.scc) ∧
      s.scc.Nodup ∧ s.vmap = s.scc.reverse.map (fun x => (x, idx)) ++ vm0 := by
  intro s
  have hinit : BfsInv G GT vis0 r idx vm0 ⟨[r], r :: vis0, [r], vm0⟩ := by
    refine ⟨⟨[], by simp, by simp, by simp⟩, ?_, ?_, by simp, ?_, by simp⟩
    · intro x; simp only [List.mem_cons]; grind
    · intro x hx; simp at hx; subst hx; exact hrv
    · intro x hx; simp at hx; subst hx; exact .refl hrv
  have hμ : ([r] : List Nat).length + unv V (r :: vis0) ≤ F := by
    have := unv_cons_lt V hr hrv
    have := unv_le V vis0
    simp only [List.length_cons, List.length_nil]; omega
  obtain ⟨inv, hdone⟩ := iter_inv B2.done (step2 GT idx) (BfsInv G GT vis0 r idx vm0)
    (fun s => s.q.length + unv V s.visited) (fun s hi hd => bfs_step wf s hi hd) F _ hinit hμ
  change BfsInv G GT vis0 r idx vm0 s at inv
  change s.done = true at hdone
  obtain ⟨⟨p, hp1, hp2, hp3⟩, hvis, hfresh, hnd, hreach, hroot⟩ := inv
  have hq : s.q = [] := by simpa [B2.done] using hdone
  rw [hq, List.append_nil] at hp1
  subst hp1
  refine ⟨hdone, ?_, hvis, hnd, hp3⟩
  intro x
  exact ⟨hreach x, fun h => bfs_complete wf hp2 hvis h hroot⟩

/-! ## the outer loop -/

theorem lookup_map_append (l : List Nat) (n : Nat) (vm : List (Nat × Nat)) (x : Nat) :
    (l.map (fun y => (y, n)) ++ vm).lookup x = if x ∈ l then some n else vm.lookup x := by
  induction l with
  | nil => simp
  | cons a l ih =>
    simp only [List.map_cons, List.cons_append, List.lookup_cons, List.mem_cons]
    by_cases hxa : x = a
    · subst hxa; simp
    · have : (x == a) = false := by simpa using hxa
      rw [this, ih]
      simp [hxa]

theorem getElem?_snoc {α : Type} {l : List α} {a x : α} {i : Nat} (h : (l ++ [a])[i]? = some x) :
    (i < l.length ∧ l[i]? = some x) ∨ (i = l.length ∧ x = a) := by
  by_cases hi : i < l.length
  · rw [List.getElem?_append_left hi] at h; exact .inl ⟨hi, h⟩
  · rw [List.getElem?_append_right (by omega)] at h
    have hi0 : i - l.length = 0 := by
      cases hh : i - l.length with
      | zero => rfl
      | succ k => rw [hh] at h; simp at h
    rw [hi0] at h; simp at h
    exact .inr ⟨by omega, h.symm⟩

theorem getElem?_snoc_old {α : Type} {l : List α} {a x : α} {i : Nat} (h : l[i]? = some x) : (l ++ [a])[i]? = some x := by
  have hi : i < l.length := by
    have := List.getElem?_eq_some_iff.mp h; exact this.1
  rw [List.getElem?_append_left hi]; exact h

theorem getElem?_snoc_new {α : Type} (l : List α) (a : α) : (l ++ [a])[l.length]? = some a := by simp

/-- a path between two vertices of one component stays in the component -/
theorem mutual_path {G : Graph} {x r : Nat} (h1 : Reach G x r) (h2 : Reach G r x) : RA G (fun y => Mutual G y r) x r := by
  unfold Reach at h1
  induction h1 with
  | refl _ => exact .refl (Mutual.refl G _)
  | @head a b c _ he h ih =>
    have hcb : Reach G c b := Reach.trans h2 (Reach.edge he)
    exact .head ⟨RA.head trivial he h, h2⟩ he (ih hcb)

/-- invariant of `for u in RPO:` after the prefix `P` of `RPO` has been processed -/
structure P2Inv (G : Graph) (V : List Nat) (P : List Nat) (p : P2) : Prop where
  done : ∀ x ∈ P, x ∈ p.visited
  vis : ∀ x, x ∈ p.visited ↔ ∃ g ∈ p.sccs, x ∈ g
  scc : ∀ g ∈ p.sccs, ∃ r ∈ V, ∀ x, x ∈ g ↔ Mutual G x r
  nodup : ∀ g ∈ p.sccs, g.Nodup
  disj : ∀ (i j : Nat) (gi gj : List Nat), p.sccs[i]? = some gi → p.sccs[j]? = some gj → ∀ x, x ∈ gi → x ∈ gj → i = j
  predc : ∀ u v, v ∈ G u → v ∈ p.visited → u ∈ p.visited
  order : ∀ (i j : Nat) (gi gj : List Nat), p.sccs[i]? = some gi → p.sccs[j]? = some gj → ∀ u ∈ gi, ∀ v ∈ gj, v ∈ G u → i ≤ j
  vmap : ∀ x i, p.vmap.lookup x = some i ↔ ∃ g, p.sccs[i]? = some g ∧ x ∈ g

theorem ra_src_mem {G GT : Graph} {V : List Nat} (wf : WF G GT V) {P : Nat → Prop} {x r : Nat} (h : RA G P x r) (hr : r ∈ V) : x ∈ V := by
  cases h with
  | refl _ => exact hr
  | head _ he _ => exact wf.src _ _ he

theorem p2_step {G GT : Graph} {V : List Nat} (wf : WF G GT V) (po : List Nat) (hpoV : ∀ x, x ∈ po ↔ x ∈ V)
    (hgkl : Gkl G [] po) (F : Nat) (hF : V.length ≤ F)
    (P rest : List Nat) (r : Nat) (hsplit : po.reverse = P ++ r :: rest) (p : P2) (inv : P2Inv G V P p) :
    P2Inv G V (P ++ [r]) (phase2Step GT F p r) := by
  obtain ⟨hdone, hvis, hscc, hnd, hdisj, hpredc, horder, hvmap⟩ := inv
  by_cases hrv : r ∈ p.visited
  · have e : phase2Step GT F p r = p := by simp [phase2Step, hrv]
    rw [e]
    refine ⟨?_, hvis, hscc, hnd, hdisj, hpredc, horder, hvmap⟩
    intro x hx
    rcases List.mem_append.mp hx with hx | hx
    · exact hdone x hx
    · simp at hx; subst hx; exact hrv
  · have hrV : r ∈ V := by
      rw [← hpoV, ← List.mem_reverse, hsplit]; simp
    obtain ⟨_, hgrp, hvis', hnd', hvm'⟩ := bfs_spec wf p.visited r hrV hrv p.sccs.length p.vmap F hF
    generalize hs : iter B2.done (step2 GT p.sccs.length) F ⟨[r], r :: p.visited, [r], p.vmap⟩ = s at hgrp hvis' hnd' hvm'
    have e : phase2Step GT F p r = ⟨s.visited, p.sccs ++ [s.scc], s.vmap⟩ := by
      simp [phase2Step, hrv, hs]
    rw [e]
    -- visited is closed under `Mutual`
    have hclosedM : ∀ x y, x ∈ p.visited → Mutual G x y → y ∈ p.visited := by
      intro x y hx hm
      obtain ⟨g, hg, hxg⟩ := (hvis x).mp hx
      obtain ⟨r', _, hr'⟩ := hscc g hg
      exact (hvis y).mpr ⟨g, hg, (hr' y).mpr (hm.symm.trans ((hr' x).mp hxg))⟩
    -- the new group is the component of r
    have hpo_split : po = rest.reverse ++ (r :: P.reverse) := by
      have := congrArg List.reverse hsplit
      simpa using this
    have hcomp : ∀ x, x ∈ s.scc ↔ Mutual G x r := by
      intro x
      rw [hgrp]
      constructor
      · intro hra
        have hxV : x ∈ V := ra_src_mem wf hra hrV
        have hx0 : x ∉ p.visited := hra.left
        obtain ⟨a, ha, r1, r2⟩ := hgkl rest.reverse (r :: P.reverse) hpo_split x ((hpoV x).mpr hxV) r List.mem_cons_self
          (hra.mono (fun _ _ => by simp))
        rcases List.mem_cons.mp ha with rfl | ha
        · exact ⟨r2.toReach, r1.toReach⟩
        · exfalso
          have hav : a ∈ p.visited := hdone a (List.mem_reverse.mp ha)
          exact hx0 (hclosedM a x hav ⟨r1.toReach, r2.toReach⟩)
      · intro hm
        refine (mutual_path hm.1 hm.2).mono ?_
        intro y hy hyv
        exact hrv (hclosedM y r hyv hy)
    have hfresh : ∀ x ∈ s.scc, x ∉ p.visited := fun x hx => ((hgrp x).mp hx).left
    have hold : ∀ (i : Nat) (g : List Nat), p.sccs[i]? = some g → ∀ x ∈ g, x ∈ p.visited := by
      intro i g hg x hx
      exact (hvis x).mpr ⟨g, List.mem_of_getElem? hg, hx⟩
    refine ⟨?_, ?_, ?_, ?_, ?_, ?_, ?_, ?_⟩
    · intro x hx
      rcases List.mem_append.mp hx with hx | hx
      · exact (hvis' x).mpr (.inl (hdone x hx))
      · simp at hx; subst hx; exact (hvis' x).mpr (.inr ((hcomp x).mpr (Mutual.refl G x)))
    · intro x
      rw [hvis', hvis]
      simp only [List.mem_append, List.mem_singleton]
      constructor
      · rintro (⟨g, hg, hx⟩ | hx)
        · exact ⟨g, .inl hg, hx⟩
        · exact ⟨s.scc, .inr rfl, hx⟩
      · rintro ⟨g, hg | rfl, hx⟩
        · exact .inl ⟨g, hg, hx⟩
        · exact .inr hx
    · intro g hg
      rcases List.mem_append.mp hg with hg | hg
      · exact hscc g hg
      · simp at hg; subst hg; exact ⟨r, hrV, hcomp⟩
    · intro g hg
      rcases List.mem_append.mp hg with hg | hg
      · exact hnd g hg
      · simp at hg; subst hg; exact hnd'
    · intro i j gi gj hi hj x hxi hxj
      rcases getElem?_snoc hi with ⟨_, hi⟩ | ⟨hi, rfl⟩ <;> rcases getElem?_snoc hj with ⟨_, hj⟩ | ⟨hj, rfl⟩
      · exact hdisj i j gi gj hi hj x hxi hxj
      · exact absurd (hold i gi hi x hxi) (hfresh x hxj)
      · exact absurd (hold j gj hj x hxj) (hfresh x hxi)
      · omega
    · intro u v he hv
      rcases (hvis' v).mp hv with hv | hv
      · exact (hvis' u).mpr (.inl (hpredc u v he hv))
      · by_cases hu : u ∈ p.visited
        · exact (hvis' u).mpr (.inl hu)
        · exact (hvis' u).mpr (.inr ((hgrp u).mpr (.head hu he ((hgrp v).mp hv))))
    · intro i j gi gj hi hj u hu v hv he
      rcases getElem?_snoc hi with ⟨hil, hi⟩ | ⟨hi, rfl⟩ <;> rcases getElem?_snoc hj with ⟨hjl, hj⟩ | ⟨hj, rfl⟩
      · exact horder i j gi gj hi hj u hu v hv he
      · omega
      · exact absurd (hpredc u v he (hold j gj hj v hv)) (hfresh u hu)
      · omega
    · intro x i
      rw [hvm', List.map_reverse, ← List.map_reverse, lookup_map_append]
      constructor
      · intro h
        by_cases hx : x ∈ s.scc.reverse
        · rw [if_pos hx] at h
          have : i = p.sccs.length := by simpa using h.symm
          subst this
          exact ⟨s.scc, getElem?_snoc_new _ _, List.mem_reverse.mp hx⟩
        · rw [if_neg hx] at h
          obtain ⟨g, hg, hxg⟩ := (hvmap x i).mp h
          exact ⟨g, getElem?_snoc_old hg, hxg⟩
      · rintro ⟨g, hg, hxg⟩
        rcases getElem?_snoc hg with ⟨_, hg⟩ | ⟨hi, rfl⟩
        · have hx : x ∉ s.scc.reverse := fun h => hfresh x (List.mem_reverse.mp h) (hold i g hg x hxg)
          rw [if_neg hx]
          exact (hvmap x i).mpr ⟨g, hg, hxg⟩
        · rw [if_pos (List.mem_reverse.mpr hxg), hi]

theorem p2_foldl {G GT : Graph} {V : List Nat} (wf : WF G GT V) (po : List Nat) (hpoV : ∀ x, x ∈ po ↔ x ∈ V)
    (hgkl : Gkl G [] po) (F : Nat) (hF : V.length ≤ F) :
    ∀ (rest P : List Nat) (p : P2), po.reverse = P ++ rest → P2Inv G V P p →
      P2Inv G V po.reverse (rest.foldl (phase2Step GT F) p) := by
  intro rest
  induction rest with
  | nil => intro P p h inv; simp at h; rw [h]; exact inv
  | cons r rest ih =>
    intro P p h inv
    simp only [List.foldl_cons]
    apply ih (P ++ [r]) _ (by rw [h]; simp)
    exact p2_step wf po hpoV hgkl F hF P rest r h p inv

/-- the post-order of phase 1 lists exactly the vertices, and has the suffix property -/
theorem postOrder_facts {G GT : Graph} {V : List Nat} (wf : WF G GT V) :
    (postOrder G V).Nodup ∧ (∀ x, x ∈ postOrder G V ↔ x ∈ V) ∧ Gkl G [] (postOrder G V) := by
  obtain ⟨vis, k, h, _⟩ := phase1_spec wf
  refine ⟨h.fresh.1, ?_, h.gkl⟩
  intro x
  constructor
  · exact h.sub wf (fun _ hu => hu) x
  · intro hx
    have := h.closed.1 x hx
    rcases (h.vis_iff x).mp this with h | h
    · simp at h
    · exact h

/-- **phase 2 as a whole** -/
theorem phase2_inv {G GT : Graph} {V : List Nat} (wf : WF G GT V) :
    P2Inv G V (postOrder G V).reverse (phase2 GT V (postOrder G V).reverse) := by
  obtain ⟨_, hpoV, hgkl⟩ := postOrder_facts wf
  unfold phase2
  apply p2_foldl wf (postOrder G V) hpoV hgkl V.length (Nat.le_refl _) (postOrder G V).reverse [] ⟨[], [], []⟩ (by simp)
  refine ⟨by simp, by simp, by simp, by simp, by simp, by simp, by simp, by simp⟩

/-- more fuel for the BFS loops changes nothing -/
theorem phase2_fuel {G GT : Graph} {V : List Nat} (wf : WF G GT V) (F : Nat) (hF : V.length ≤ F) :
    ∀ (rest P : List Nat) (p : P2), (postOrder G V).reverse = P ++ rest → P2Inv G V P p →
      rest.foldl (phase2Step GT F) p = rest.foldl (phase2Step GT V.length) p := by
  obtain ⟨_, hpoV, hgkl⟩ := postOrder_facts wf
  intro rest
  induction rest with
  | nil => intro P p _ _; rfl
  | cons r rest ih =>
    intro P p h inv
    simp only [List.foldl_cons]
    have hstep : phase2Step GT F p r = phase2Step GT V.length p r := by
      by_cases hrv : r ∈ p.visited
      · simp [phase2Step, hrv]
      · have hrV : r ∈ V := by rw [← hpoV, ← List.mem_reverse, h]; simp
        -- both runs end with an empty deque; compare through the larger fuel
        have h1 := (bfs_spec wf p.visited r hrV hrv p.sccs.length p.vmap V.length (Nat.le_refl _)).1
        have : iter B2.done (step2 GT p.sccs.length) F ⟨[r], r :: p.visited, [r], p.vmap⟩ =
            iter B2.done (step2 GT p.sccs.length) V.length ⟨[r], r :: p.visited, [r], p.vmap⟩ := by
          obtain ⟨d, rfl⟩ := Nat.exists_eq_add_of_le hF
          exact iter_more _ _ _ _ _ h1
        simp [phase2Step, hrv, this]
    rw [hstep]
    exact ih (P ++ [r]) _ (by rw [h]; simp) (p2_step wf _ hpoV hgkl V.length (Nat.le_refl _) P rest r h p inv)

end PV.Scc
