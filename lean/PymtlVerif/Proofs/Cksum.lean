import PymtlVerif.Model.Cksum
/-!
Helper lemmas about `Model/Cksum.lean` (core Lean only): each step of the FL and RTL algorithms
equals the specification step, the running sums stay below 2^16, and pack/unpack round trip.
-/
namespace PV.Cksum

theorem and_ffff (x : Nat) : x &&& 0xffff = x % 65536 := by
  have := Nat.and_two_pow_sub_one_eq_mod x 16
  simpa using this

theorem flStep_eq (s : Nat × Nat) (w : Nat) : flStep s w = specStep s w := by
  simp only [flStep, specStep, and_ffff]
  have h : (2:Nat)^16 = 65536 := by decide
  rw [h]; simp

theorem rtlStep_eq (s : Nat × Nat) (w : Nat) (hs1 : s.1 < 65536) (hs2 : s.2 < 65536) (hw : w < 65536) :
    rtlStep s w = specStep s w := by
  simp only [rtlStep, specStep, and_ffff]
  have h32 : (2:Nat)^32 = 4294967296 := by decide
  rw [h32]
  have e1 : (w + s.1) % 4294967296 = w + s.1 := Nat.mod_eq_of_lt (by omega)
  rw [e1]
  have e2 : ((w + s.1) % 65536 + s.2) % 4294967296 = (w + s.1) % 65536 + s.2 :=
    Nat.mod_eq_of_lt (by omega)
  rw [e2, Nat.add_comm w s.1, Nat.add_comm ((s.1 + w) % 65536) s.2]

theorem spec_inv (ws : List Nat) (s : Nat × Nat) (h1 : s.1 < 65536) (h2 : s.2 < 65536) :
    (ws.foldl specStep s).1 < 65536 ∧ (ws.foldl specStep s).2 < 65536 := by
  induction ws generalizing s with
  | nil => exact ⟨h1, h2⟩
  | cons w ws ih =>
    simp only [List.foldl_cons]
    apply ih <;> simp only [specStep] <;> omega

theorem fl_fold (ws : List Nat) (s : Nat × Nat) : ws.foldl flStep s = ws.foldl specStep s := by
  induction ws generalizing s with
  | nil => rfl
  | cons w ws ih => simp only [List.foldl_cons, flStep_eq, ih]

theorem rtl_fold (ws : List Nat) (s : Nat × Nat) (h1 : s.1 < 65536) (h2 : s.2 < 65536)
    (hws : ∀ w ∈ ws, w < 65536) : ws.foldl rtlStep s = ws.foldl specStep s := by
  induction ws generalizing s with
  | nil => rfl
  | cons w ws ih =>
    simp only [List.foldl_cons]
    rw [rtlStep_eq s w h1 h2 (hws w (by simp))]
    apply ih
    · simp only [specStep]; omega
    · simp only [specStep]; omega
    · exact fun x hx => hws x (by simp [hx])

theorem fl_eq_spec (ws : List Nat) : cksumFL ws = cksumSpec ws := by
  simp only [cksumFL, cksumSpec, fl_fold]

theorem rtl_eq_spec (ws : List Nat) (hws : ∀ w ∈ ws, w < 65536) : cksumRTL ws = cksumSpec ws := by
  simp only [cksumRTL, cksumSpec]
  rw [rtl_fold ws (0,0) (by decide) (by decide) hws]
  obtain ⟨h1, h2⟩ := spec_inv ws (0,0) (by decide) (by decide)
  generalize ws.foldl specStep (0,0) = s at h1 h2
  have h32 : (2:Nat)^32 = 4294967296 := by decide
  rw [Nat.shiftLeft_eq, h32]
  have h16 : (2:Nat)^16 = 65536 := by decide
  rw [h16, Nat.mod_eq_of_lt (by omega)]
  -- disjoint bits: s.2 * 2^16 ||| s.1 = s.2 * 2^16 + s.1
  have := Nat.shiftLeft_add_eq_or_of_lt (i := 16) (b := s.1) (by omega : s.1 < 2^16) s.2
  rw [Nat.shiftLeft_eq, h16] at this
  rw [← this]

theorem unpack_pack (ws : List Nat) (hws : ∀ w ∈ ws, w < 65536) :
    unpackWords ws.length (packWords ws) = ws := by
  induction ws with
  | nil => rfl
  | cons w ws ih =>
    have hw : w < 65536 := hws w (by simp)
    simp only [List.length_cons, unpackWords, packWords]
    have e1 : (w + 65536 * packWords ws) % 65536 = w := by omega
    have e2 : (w + 65536 * packWords ws) / 65536 = packWords ws := by omega
    rw [e1, e2, ih (fun x hx => hws x (by simp [hx]))]

theorem unpack_lt (n b : Nat) : ∀ w ∈ unpackWords n b, w < 65536 := by
  induction n generalizing b with
  | zero => intro w hw; simp [unpackWords] at hw
  | succ n ih =>
    intro w hw
    simp only [unpackWords, List.mem_cons] at hw
    rcases hw with hw | hw
    · omega
    · exact ih _ w hw

theorem unpack_length (n b : Nat) : (unpackWords n b).length = n := by
  induction n generalizing b with
  | zero => rfl
  | succ n ih => simp [unpackWords, ih]

end PV.Cksum
